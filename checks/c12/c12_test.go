// C12 — RTP packetise/depacketise is lossless under size, reordering and
// wrap-around.
//
// Two sub-properties:
//
//	pack-roundtrip  lal's RtpPacker (all three AVC/HEVC input modes, AAC, G.711,
//	                Opus; default and custom MaxPayloadSize; FirstSeq set or
//	                random) -> packets are checked against RFC 3550 and the
//	                property's packet rules, then depacketised by the reference
//	                (ref/rtpref) AND by lal's RtpUnpackContainer; both must
//	                return the original units byte for byte, in order.
//	reorder         packets built by the reference packetiser (single / STAP-A /
//	                AP / FU-A / FU / multi-AU / fragmented AAC per unit) are fed
//	                to lal's RtpUnpackContainer in order and with a bounded
//	                permutation + duplicates; both runs must give the original
//	                units and identical output.
//
// Deliberately NOT asserted (the property text leaves it open):
//   - that a unit which fits the limit travels as a single NAL unit packet, or
//     how many fragments a larger one is cut into (only "<= limit" is stated);
//   - SSRC / first sequence number when the caller did not set it (random);
//   - the payload limit for audio packets (the text says "every video packet");
//   - how lal groups units into AvPackets (one per NAL, one per STAP-A/AP): all
//     delivered AVCC payloads are flattened into one list of units;
//   - AvPacket timestamps of the 2nd.. access units of a multi-AU AAC packet;
//   - anything about packets arriving before the very first packet of the
//     stream (a receiver cannot know the initial sequence number) or outside
//     the reorder window, or about lost packets;
//   - RTP header extensions / CSRC / padding on input.
//
// Access unit delimiters (AVC type 9, HEVC type 35) are dropped by lal's packer
// on purpose in its AVCC / Annex-B input modes; as in DESIGN C06 they are
// removed from both sides there (they do round-trip in the NAL input mode).
package c12

import (
	"bytes"
	"fmt"
	"sort"
	"testing"

	"github.com/q191201771/lal/pkg/avc"
	"github.com/q191201771/lal/pkg/base"
	"github.com/q191201771/lal/pkg/rtprtcp"
	"github.com/q191201771/naza/pkg/nazalog"
	"pgregory.net/rapid"

	"verif/drv/pbt"
	"verif/gen"
	"verif/ref/rtpref"
)

func init() {
	_ = nazalog.Init(func(o *nazalog.Option) {
		o.Level = nazalog.LevelLogNothing
		o.IsToStdout = false
	})
	rtprtcp.Log = nazalog.DummyLogger
	avc.Log = nazalog.DummyLogger
}

// ---------------------------------------------------------------------------
// shared: units

// U is one elementary unit: a NAL unit (H0 / H0,H1 = its header bytes) or an
// audio frame.  The bytes are header | 4-byte serial | gen.Bytes(Seed), cut to
// Len and sanitised (emulation prevention, non-zero last byte).
type U struct {
	H0   uint8  `json:"h0,omitempty"`
	H1   uint8  `json:"h1,omitempty"`
	Len  int    `json:"len"`
	Seed uint32 `json:"seed"`
}

func hdrLen(codec string) int {
	switch codec {
	case "avc":
		return 1
	case "hevc":
		return 2
	}
	return 0
}

func (u U) bytes(codec string, serial uint32) []byte {
	var hdr []byte
	switch codec {
	case "avc":
		hdr = []byte{u.H0}
	case "hevc":
		hdr = []byte{u.H0, u.H1}
	}
	n := u.Len - len(hdr) - 4
	if n < 0 {
		n = 0
	}
	return rtpref.BuildNALU(hdr, serial, gen.Bytes(u.Seed, n), u.Len)
}

func (u U) validate(codec string) {
	bad := func(f string, a ...interface{}) {
		panic(pbt.HarnessError{Msg: "case outside the generator's domain: " + fmt.Sprintf(f, a...)})
	}
	switch codec {
	case "avc":
		if t := u.H0 & 0x1F; t < 1 || t > 23 || u.H0&0x80 != 0 {
			bad("AVC header %#x", u.H0)
		}
		if u.Len < 1 {
			bad("AVC unit length %d", u.Len)
		}
	case "hevc":
		f, t, _, tid := rtpref.H265Fields(u.H0, u.H1)
		if f || t > 47 || tid == 0 {
			bad("HEVC header %#x %#x", u.H0, u.H1)
		}
		if u.Len < 2 {
			bad("HEVC unit length %d", u.Len)
		}
	case "aac":
		if u.Len < 1 || u.Len > 8184 {
			bad("AAC frame length %d", u.Len)
		}
	case "g711a", "g711u", "opus":
		if u.Len < 1 {
			bad("audio frame length %d", u.Len)
		}
	default:
		bad("codec %q", codec)
	}
}

func isAUD(codec string, unit []byte) bool {
	switch codec {
	case "avc":
		return unit[0]&0x1F == 9
	case "hevc":
		return (unit[0]>>1)&0x3F == 35
	}
	return false
}

func lalPt(codec string) base.AvPacketPt {
	switch codec {
	case "avc":
		return base.AvPacketPtAvc
	case "hevc":
		return base.AvPacketPtHevc
	case "aac":
		return base.AvPacketPtAac
	case "g711a":
		return base.AvPacketPtG711A
	case "g711u":
		return base.AvPacketPtG711U
	case "opus":
		return base.AvPacketPtOpus
	}
	panic(pbt.HarnessError{Msg: "codec " + codec})
}

func isVideo(codec string) bool { return codec == "avc" || codec == "hevc" }

var codecGen = rapid.SampledFrom([]string{"avc", "avc", "avc", "hevc", "hevc", "hevc", "aac", "aac", "g711a", "g711u", "opus"})

var aacRates = []int{96000, 88200, 64000, 48000, 44100, 32000, 24000, 22050, 16000, 12000, 11025, 8000, 7350}

// clockGen: the rate lal itself uses for the codec most of the time, otherwise
// any rate an SDP / ASC / metadata can announce (>= 1000 Hz).
func clockGen(codec string) *rapid.Generator[int] {
	return rapid.Custom(func(t *rapid.T) int {
		other := rapid.IntRange(0, 9).Draw(t, "clockOther") == 0
		if other {
			return rapid.OneOf(rapid.SampledFrom(append([]int{1000, 90000, 100000}, aacRates...)), rapid.IntRange(1000, 192000)).Draw(t, "clock")
		}
		switch codec {
		case "avc", "hevc":
			return 90000
		case "aac":
			return rapid.SampledFrom(aacRates).Draw(t, "clock")
		case "opus":
			return 48000
		}
		return 8000
	})
}

func genHeader(t *rapid.T, codec string) (uint8, uint8) {
	switch codec {
	case "avc":
		typ := uint8(rapid.IntRange(1, 23).Draw(t, "nalType"))
		nri := uint8(rapid.IntRange(0, 3).Draw(t, "nri"))
		return rtpref.H264Header(nri, typ), 0
	case "hevc":
		typ := uint8(rapid.IntRange(0, 47).Draw(t, "nalType"))
		layer := uint8(rapid.OneOf(rapid.Just(0), rapid.IntRange(0, 63), rapid.SampledFrom([]int{1, 31, 32, 63})).Draw(t, "layer"))
		tid := uint8(rapid.OneOf(rapid.Just(1), rapid.IntRange(1, 7)).Draw(t, "tid"))
		h := rtpref.H265Header(typ, layer, tid)
		return h[0], h[1]
	}
	return 0, 0
}

// fuOverhead: bytes every fragment spends on FU indicator / payload header + FU header.
func fuOverhead(codec string) int { return hdrLen(codec) + 1 }

// unitLenGen draws a unit size biased to the edges of the payload limit.
func unitLenGen(codec string, limit, max int) *rapid.Generator[int] {
	min := hdrLen(codec)
	if min == 0 {
		min = 1
	}
	return rapid.Custom(func(t *rapid.T) int {
		var v int
		switch rapid.IntRange(0, 19).Draw(t, "lenClass") {
		case 0, 1:
			v = min + rapid.IntRange(0, 5).Draw(t, "tiny")
		case 2, 3, 4, 5:
			v = rapid.IntRange(1, 4).Draw(t, "k")*limit + rapid.IntRange(-3, 3).Draw(t, "d")
		case 6, 7, 8, 9:
			// exact multiples of what one fragment carries
			v = hdrLen(codec) + rapid.IntRange(1, 5).Draw(t, "k")*(limit-fuOverhead(codec)) + rapid.IntRange(-2, 2).Draw(t, "d")
		case 10, 11, 12:
			v = rapid.IntRange(min, 3000).Draw(t, "mid")
		case 13, 14, 15, 16:
			v = rapid.IntRange(min, 6*limit).Draw(t, "fewPackets")
		case 17, 18:
			v = rapid.IntRange(min, 65*1024).Draw(t, "big")
		default:
			if pbt.Thorough() || rapid.IntRange(0, 3).Draw(t, "hugeQuick") == 0 {
				v = rapid.OneOf(rapid.IntRange(min, 300*1024), rapid.IntRange(299*1024, 300*1024)).Draw(t, "huge")
			} else {
				v = rapid.IntRange(min, 20000).Draw(t, "mid2")
			}
		}
		if v < min {
			v = min
		}
		if v > max {
			v = max
		}
		return v
	})
}

var limitGen = rapid.OneOf(
	rapid.SampledFrom([]int{16, 17, 18, 19, 20, 21, 32, 100, 255, 256, 1199, 1200, 1201, 1400, 1460, 1500}),
	rapid.IntRange(16, 64),
	rapid.IntRange(16, 1500),
)

// lal's RTSP sessions create the reorder list with 1024 entries; a fragmented
// unit must fit into it (with room for the reorder window), which bounds the
// unit size for small payload limits.
const lalListMax = 1024

func maxUnitLen(codec string, limit int) int {
	m := (lalListMax - 124) * (limit - fuOverhead(codec))
	if m > 300*1024 {
		m = 300 * 1024
	}
	return m
}

type lalOut struct {
	Pt   base.AvPacketPt
	Ts   int64
	Data []byte
}

func newLalContainer(codec string, clock, listMax int, out *[]lalOut) rtprtcp.IRtpUnpacker {
	return rtprtcp.DefaultRtpUnpackerFactory(lalPt(codec), clock, listMax, func(p base.AvPacket) {
		*out = append(*out, lalOut{Pt: p.PayloadType, Ts: p.Timestamp, Data: append([]byte(nil), p.Payload...)})
	})
}

// feedLal hands one serialised packet to the container the way
// rtsp.BaseInSession.handleRtpPacket does.
func feedLal(c rtprtcp.IRtpUnpacker, raw []byte) error {
	h, err := rtprtcp.ParseRtpHeader(raw)
	if err != nil {
		return err
	}
	var pkt rtprtcp.RtpPacket
	pkt.Header = h
	pkt.Raw = raw
	c.Feed(pkt)
	return nil
}

// flatten turns the AvPackets delivered by lal into a list of units (video:
// every AVCC payload split into its NAL units).
type flatUnit struct {
	Data []byte
	Ts   int64
	Pt   base.AvPacketPt
}

func flatten(codec string, outs []lalOut) ([]flatUnit, *pbt.Violation) {
	var res []flatUnit
	for i, o := range outs {
		if !isVideo(codec) {
			res = append(res, flatUnit{Data: o.Data, Ts: o.Ts, Pt: o.Pt})
			continue
		}
		nals, ok := rtpref.SplitAVCC(o.Data)
		if !ok || len(nals) == 0 {
			return nil, pbt.V("avcc-malformed", "AvPacket %d delivered by lal's unpacker is not a sequence of 4-byte-length-prefixed NAL units (%d bytes, prefix % x)", i, len(o.Data), prefix(o.Data, 16))
		}
		for _, n := range nals {
			res = append(res, flatUnit{Data: n, Ts: o.Ts, Pt: o.Pt})
		}
	}
	return res, nil
}

func prefix(b []byte, n int) []byte {
	if len(b) > n {
		return b[:n]
	}
	return b
}

// compareUnits checks got against want and names the first difference.
func compareUnits(sigPrefix, who, codec string, want [][]byte, got [][]byte) *pbt.Violation {
	n := len(want)
	if len(got) < n {
		n = len(got)
	}
	hl := hdrLen(codec)
	for i := 0; i < n; i++ {
		w, g := want[i], got[i]
		if bytes.Equal(w, g) {
			continue
		}
		if hl > 0 && len(g) >= hl && len(w) >= hl && !bytes.Equal(w[:hl], g[:hl]) && len(w) == len(g) && bytes.Equal(w[hl:], g[hl:]) {
			return pbt.V(sigPrefix+"/unit-header", "%s: unit %d (%d bytes): NAL header bytes % x came back as % x (payload intact)", who, i, len(w), w[:hl], g[:hl])
		}
		if len(w) != len(g) {
			return pbt.V(sigPrefix+"/unit-bytes", "%s: unit %d: want %d bytes (% x..), got %d bytes (% x..)", who, i, len(w), prefix(w, 8), len(g), prefix(g, 8))
		}
		d := 0
		for d < len(w) && w[d] == g[d] {
			d++
		}
		return pbt.V(sigPrefix+"/unit-bytes", "%s: unit %d (%d bytes) differs at offset %d: want %#x got %#x", who, i, len(w), d, w[d], g[d])
	}
	if len(got) != len(want) {
		next := ""
		if len(got) < len(want) {
			next = fmt.Sprintf("; first missing unit %d: %d bytes, first bytes % x", len(got), len(want[len(got)]), prefix(want[len(got)], 2))
		}
		return pbt.V(sigPrefix+"/unit-count", "%s: %d units came back, %d were packed%s", who, len(got), len(want), next)
	}
	return nil
}

func uniq(in []string) []string {
	seen := map[string]bool{}
	var out []string
	for _, s := range in {
		if !seen[s] {
			seen[s] = true
			out = append(out, s)
		}
	}
	return out
}

// ---------------------------------------------------------------------------
// sub-property (a): lal packer -> reference depacketiser and lal container

type PF struct {
	DeltaMs int64  `json:"delta_ms"` // added to the previous frame's time
	Units   []U    `json:"units"`
	Long    []bool `json:"long,omitempty"` // Annex-B mode: 4-byte start code before unit i
}

type PackCase struct {
	Codec    string `json:"codec"`
	Mode     int    `json:"mode"`      // video: 1 = one NAL per AvPacket, 2 = AVCC, 3 = Annex-B
	Limit    int    `json:"limit"`     // MaxPayloadSize option; 0 = lal's default (1200)
	FirstSeq int    `json:"first_seq"` // FirstSeq option; -1 = not set (lal picks one at random)
	Clock    int    `json:"clock"`
	SSRC     uint32 `json:"ssrc"`
	StartMs  int64  `json:"start_ms"`
	Frames   []PF   `json:"frames"`
}

func (c PackCase) limit() int {
	if c.Limit == 0 {
		return 1200
	}
	return c.Limit
}

var firstSeqGen = rapid.OneOf(
	rapid.IntRange(65530, 65535),
	rapid.IntRange(65530, 65535),
	rapid.SampledFrom([]int{0, 1, 32766, 32767, 32768, 65000}),
	rapid.IntRange(0, 65535),
	rapid.Just(-1),
	rapid.Just(-1),
)

func startMsGen(clock int) *rapid.Generator[int64] {
	wrapMs := (int64(1) << 32) * 1000 / int64(clock) // first media time whose RTP timestamp has wrapped
	return rapid.Custom(func(t *rapid.T) int64 {
		var v int64
		switch rapid.IntRange(0, 5).Draw(t, "tsClass") {
		case 0:
			v = 0
		case 1, 2:
			v = rapid.Int64Range(0, 100000).Draw(t, "tsSmall")
		case 3:
			k := rapid.Int64Range(1, 3).Draw(t, "tsWrapK")
			v = k*wrapMs - rapid.Int64Range(0, 300).Draw(t, "tsBeforeWrap")
		default:
			v = rapid.Int64Range(0, 1<<32-1).Draw(t, "tsAny")
		}
		if v < 0 {
			v = 0
		}
		if v > 1<<32-1-200000 {
			v = 1<<32 - 1 - 200000 // RTMP timestamps are 32-bit milliseconds
		}
		return v
	})
}

var deltaMsGen = rapid.OneOf(
	rapid.SampledFrom([]int64{0, 1, 20, 23, 33, 40}),
	rapid.Int64Range(0, 100),
	rapid.Int64Range(0, 20000),
)

func genPack(t *rapid.T) PackCase {
	var c PackCase
	c.Codec = codecGen.Draw(t, "codec")
	if isVideo(c.Codec) {
		c.Mode = rapid.SampledFrom([]int{1, 2, 2, 2, 3}).Draw(t, "mode")
	}
	if rapid.IntRange(0, 9).Draw(t, "customLimit") < 6 {
		c.Limit = limitGen.Draw(t, "limit")
	}
	c.FirstSeq = firstSeqGen.Draw(t, "firstSeq")
	c.Clock = clockGen(c.Codec).Draw(t, "clock")
	c.SSRC = rapid.OneOf(rapid.SampledFrom([]uint32{0, 1, 0x80000000, 0xFFFFFFFF}), rapid.Uint32()).Draw(t, "ssrc")
	c.StartMs = startMsGen(c.Clock).Draw(t, "startMs")
	limit := c.limit()
	nframes := rapid.IntRange(1, 6).Draw(t, "nframes")
	budget := 700 * 1024 // bytes per case
	for f := 0; f < nframes; f++ {
		var pf PF
		if f > 0 {
			pf.DeltaMs = deltaMsGen.Draw(t, "deltaMs")
		}
		nu := 1
		if isVideo(c.Codec) && c.Mode != 1 {
			nu = rapid.IntRange(1, 5).Draw(t, "nunits")
		}
		for i := 0; i < nu; i++ {
			var u U
			u.H0, u.H1 = genHeader(t, c.Codec)
			switch c.Codec {
			case "avc", "hevc":
				max := maxUnitLen(c.Codec, limit)
				if max > budget {
					max = budget // bytes per case
				}
				if max < 64 {
					max = 64
				}
				u.Len = unitLenGen(c.Codec, limit, max).Draw(t, "len")
			case "aac":
				u.Len = rapid.OneOf(rapid.IntRange(1, 8184), rapid.IntRange(1, 700), rapid.SampledFrom([]int{1, 2, 31, 32, 33, 255, 256, 8183, 8184}),
					rapid.IntRange(limit-6, limit+2)).Draw(t, "aacLen")
				if u.Len < 1 {
					u.Len = 1
				}
				if u.Len > 8184 {
					u.Len = 8184
				}
			default:
				u.Len = rapid.OneOf(rapid.SampledFrom([]int{1, 2, 80, 160, 320, 960}), rapid.IntRange(1, 1500), rapid.IntRange(limit-2, limit+2)).Draw(t, "rawLen")
				if u.Len < 1 {
					u.Len = 1
				}
			}
			u.Seed = rapid.Uint32().Draw(t, "seed")
			budget -= u.Len
			pf.Units = append(pf.Units, u)
			if c.Mode == 3 {
				pf.Long = append(pf.Long, rapid.Bool().Draw(t, "longStartCode"))
			}
		}
		c.Frames = append(c.Frames, pf)
	}
	return c
}

func newLalPacker(c PackCase) *rtprtcp.RtpPacker {
	var pp rtprtcp.IRtpPackerPayload
	switch c.Codec {
	case "avc", "hevc":
		pt := base.AvPacketPtAvc
		if c.Codec == "hevc" {
			pt = base.AvPacketPtHevc
		}
		mode := c.Mode
		pp = rtprtcp.NewRtpPackerPayloadAvcHevc(pt, func(o *rtprtcp.RtpPackerPayloadAvcHevcOption) {
			switch mode {
			case 1:
				o.Typ = rtprtcp.RtpPackerPayloadAvcHevcTypeNalu
			case 2:
				o.Typ = rtprtcp.RtpPackerPayloadAvcHevcTypeAvcc
			case 3:
				o.Typ = rtprtcp.RtpPackerPayloadAvcHevcTypeAnnexb
			default:
				panic(pbt.HarnessError{Msg: fmt.Sprintf("mode %d", mode)})
			}
		})
	case "aac":
		pp = rtprtcp.NewRtpPackerPayloadAac()
	case "g711a", "g711u":
		pp = rtprtcp.NewRtpPackerPayloadPcm()
	case "opus":
		pp = rtprtcp.NewRtpPackerPayloadOpus()
	default:
		panic(pbt.HarnessError{Msg: "codec " + c.Codec})
	}
	var opts []rtprtcp.ModRtpPackerOption
	if c.Limit != 0 || c.FirstSeq >= 0 {
		opts = append(opts, func(o *rtprtcp.RtpPackerOption) {
			if c.Limit != 0 {
				o.MaxPayloadSize = c.Limit
			}
			if c.FirstSeq >= 0 {
				o.FirstSeq = uint16(c.FirstSeq)
			}
		})
	}
	return rtprtcp.NewRtpPacker(pp, c.Clock, c.SSRC, opts...)
}

func (c PackCase) validate() {
	bad := func(f string, a ...interface{}) {
		panic(pbt.HarnessError{Msg: "case outside the generator's domain: " + fmt.Sprintf(f, a...)})
	}
	if isVideo(c.Codec) != (c.Mode >= 1 && c.Mode <= 3) || (!isVideo(c.Codec) && c.Mode != 0) {
		bad("mode %d for %s", c.Mode, c.Codec)
	}
	if c.Limit != 0 && (c.Limit < 16 || c.Limit > 1500) {
		bad("limit %d", c.Limit)
	}
	if c.FirstSeq < -1 || c.FirstSeq > 65535 || c.Clock < 1000 || c.StartMs < 0 {
		bad("first_seq %d clock %d start %d", c.FirstSeq, c.Clock, c.StartMs)
	}
	ms := c.StartMs
	for _, f := range c.Frames {
		if f.DeltaMs < 0 || len(f.Units) == 0 || (c.Mode == 1 && len(f.Units) != 1) || (!isVideo(c.Codec) && len(f.Units) != 1) {
			bad("frame %+v", f)
		}
		ms += f.DeltaMs
		for _, u := range f.Units {
			u.validate(c.Codec)
			if isVideo(c.Codec) && u.Len > maxUnitLen(c.Codec, c.limit()) {
				bad("unit of %d bytes needs more fragments than lal's reorder list holds", u.Len)
			}
		}
	}
	if ms > 1<<32-1 {
		bad("media time %d exceeds 32-bit milliseconds", ms)
	}
}

func runPack(c PackCase) *pbt.Violation {
	c.validate()
	limit := c.limit()
	packer := newLalPacker(c)
	pt := lalPt(c.Codec)

	var all []*rtpref.Packet
	var raws [][]byte
	var want [][]byte
	var wantTS []uint32 // ideal RTP timestamp per wanted unit
	serial := uint32(0x01000000)
	ms := c.StartMs
	haveSeq := false
	var nextSeq uint16

	for fi, f := range c.Frames {
		ms += f.DeltaMs
		var units [][]byte
		for _, u := range f.Units {
			serial++
			b := u.bytes(c.Codec, serial)
			if isVideo(c.Codec) && rtpref.ContainsStartCode(b) {
				panic(pbt.HarnessError{Msg: "generated NAL unit contains a start code"})
			}
			units = append(units, b)
		}
		var payload []byte
		switch {
		case !isVideo(c.Codec) || c.Mode == 1:
			payload = units[0]
		case c.Mode == 2:
			payload = rtpref.AVCC(units)
		default:
			payload = rtpref.AnnexB(units, f.Long)
		}
		idealTS, _ := rtpref.TSFromMillis(ms, c.Clock)
		var expect [][]byte
		for _, u := range units {
			if c.Mode >= 2 && isAUD(c.Codec, u) {
				continue
			}
			expect = append(expect, u)
			want = append(want, u)
			wantTS = append(wantTS, idealTS)
		}

		pkts := packer.Pack(base.AvPacket{Timestamp: ms, PayloadType: pt, Payload: payload})

		if len(expect) > 0 && len(pkts) == 0 {
			return pbt.V("pack/no-packets", "frame %d (%d units, %d bytes) produced no RTP packet", fi, len(expect), len(payload))
		}
		if len(expect) == 0 && len(pkts) != 0 {
			return pbt.V("pack/unexpected-packets", "frame %d holds only access unit delimiters but produced %d packets", fi, len(pkts))
		}
		for i, lp := range pkts {
			p, err := rtpref.Parse(lp.Raw)
			if err != nil {
				return pbt.V("pack/rtp-header-unparseable", "frame %d packet %d: %v (first bytes % x)", fi, i, err, prefix(lp.Raw, 16))
			}
			if len(p.CSRC) != 0 || p.HasExt || p.PadLen != 0 || p.PT != uint8(pt)&0x7F || p.SSRC != c.SSRC {
				return pbt.V("pack/rtp-header-fields", "frame %d packet %d: cc=%d x=%v pad=%d pt=%d ssrc=%#x, want plain header pt=%d ssrc=%#x", fi, i, len(p.CSRC), p.HasExt, p.PadLen, p.PT, p.SSRC, pt, c.SSRC)
			}
			if len(p.Payload) == 0 {
				return pbt.V("pack/empty-payload", "frame %d packet %d has no payload", fi, i)
			}
			if !haveSeq {
				haveSeq = true
				if c.FirstSeq >= 0 && p.Seq != uint16(c.FirstSeq) {
					return pbt.V("pack/first-seq", "first packet has sequence number %d, FirstSeq option was %d", p.Seq, c.FirstSeq)
				}
			} else if p.Seq != nextSeq {
				return pbt.V("pack/seq-not-consecutive", "frame %d packet %d: sequence number %d after %d (want %d)", fi, i, p.Seq, nextSeq-1, nextSeq)
			}
			nextSeq = p.Seq + 1
			last := i == len(pkts)-1
			if p.Marker != last {
				return pbt.V("pack/marker", "frame %d packet %d of %d: marker=%v (only the last packet of a packed frame carries it)", fi, i, len(pkts), p.Marker)
			}
			if !rtpref.TSWithinOneTick(p.TS, idealTS) {
				return pbt.V("pack/timestamp", "frame %d packet %d: RTP timestamp %d, media time %d ms at %d Hz is %d (mod 2^32)", fi, i, p.TS, ms, c.Clock, idealTS)
			}
			if isVideo(c.Codec) && len(p.Payload) > limit {
				return pbt.V("pack/payload-exceeds-limit", "frame %d packet %d: payload of %d bytes, limit %d", fi, i, len(p.Payload), limit)
			}
			all = append(all, p)
			raws = append(raws, lp.Raw)
		}
	}

	// (1) reference depacketiser
	units, err := rtpref.Depacketize(rtpref.NewDepacketizer(rtpref.Codec(c.Codec)), all)
	if err != nil {
		return pbt.V("pack/ref-depacketise-error", "reference %s depacketiser rejected lal's packets after %d units: %v", c.Codec, len(units), err)
	}
	got := make([][]byte, len(units))
	for i := range units {
		got[i] = units[i].Data
	}
	if v := compareUnits("pack/ref", "reference depacketiser", c.Codec, want, got); v != nil {
		return v
	}
	for i, u := range units {
		if !rtpref.TSWithinOneTick(u.TS, wantTS[i]) {
			return pbt.V("pack/timestamp", "unit %d travels with RTP timestamp %d, want %d", i, u.TS, wantTS[i])
		}
	}

	// (2) lal's own container, fed in order
	var outs []lalOut
	cont := newLalContainer(c.Codec, c.Clock, lalListMax, &outs)
	for i, raw := range raws {
		if err := feedLal(cont, raw); err != nil {
			return pbt.V("unpack/parse-error", "lal's ParseRtpHeader rejected packet %d produced by lal's packer: %v", i, err)
		}
	}
	flat, v := flatten(c.Codec, outs)
	if v != nil {
		v.Sig = "unpack/" + v.Sig
		return v
	}
	got = make([][]byte, len(flat))
	for i := range flat {
		got[i] = flat[i].Data
	}
	if v := compareUnits("unpack", "lal RtpUnpackContainer", c.Codec, want, got); v != nil {
		return v
	}
	for i, fu := range flat {
		if fu.Pt != pt {
			return pbt.V("unpack/payload-type", "unit %d delivered with payload type %d, want %d", i, fu.Pt, pt)
		}
		// media time of the RTP timestamp the unit actually travelled with
		wantMs := int64(uint64(units[i].TS) * 1000 / uint64(c.Clock))
		if d := fu.Ts - wantMs; d < -1 || d > 1 {
			return pbt.V("unpack/timestamp-ms", "unit %d: RTP timestamp %d at %d Hz is %d ms, lal's unpacker reports %d ms", i, units[i].TS, c.Clock, wantMs, fu.Ts)
		}
	}
	return nil
}

// packetCount: how many packets a conforming packetiser needs at least.
func (c PackCase) fragmented() (anyFrag bool, pkts int) {
	limit := c.limit()
	for _, f := range c.Frames {
		for _, u := range f.Units {
			if isVideo(c.Codec) && u.Len > limit {
				anyFrag = true
				per := limit - fuOverhead(c.Codec)
				pkts += (u.Len - hdrLen(c.Codec) + per - 1) / per
			} else {
				pkts++
			}
		}
	}
	return
}

func classifyPack(c PackCase) (bool, []string) {
	labels := []string{"codec=" + c.Codec}
	limit := c.limit()
	if isVideo(c.Codec) {
		labels = append(labels, fmt.Sprintf("mode=%d", c.Mode))
	}
	switch {
	case c.Limit == 0:
		labels = append(labels, "limit=default")
	case c.Limit <= 32:
		labels = append(labels, "limit<=32")
	default:
		labels = append(labels, "limit=custom")
	}
	anyFrag, pkts := c.fragmented()
	wrap := false
	switch {
	case c.FirstSeq < 0:
		labels = append(labels, "firstseq=random")
	case c.FirstSeq >= 65530:
		labels = append(labels, "firstseq>=65530")
	default:
		labels = append(labels, "firstseq=set")
	}
	if c.FirstSeq >= 0 && c.FirstSeq+pkts > 65536 {
		wrap = true
		labels = append(labels, "seq-wrap")
	}
	if c.Clock%1000 != 0 {
		labels = append(labels, "clock-not-multiple-of-1000")
	}
	ms := c.StartMs
	for _, f := range c.Frames {
		ms += f.DeltaMs
	}
	if uint64(ms)*uint64(c.Clock)/1000 >= 1<<32 {
		labels = append(labels, "rtp-ts>=2^32")
		if uint64(c.StartMs)*uint64(c.Clock)/1000>>32 != uint64(ms)*uint64(c.Clock)/1000>>32 {
			labels = append(labels, "rtp-ts-wraps-inside-case")
		}
	}
	for _, f := range c.Frames {
		if len(f.Units) > 1 {
			labels = append(labels, "multi-unit-frame")
		}
		for _, u := range f.Units {
			if isVideo(c.Codec) {
				per := limit - fuOverhead(c.Codec)
				switch {
				case u.Len == limit:
					labels = append(labels, "len==limit")
				case u.Len == limit+1:
					labels = append(labels, "len==limit+1")
				}
				if u.Len > limit {
					labels = append(labels, "fragmented")
					if (u.Len-hdrLen(c.Codec))%per == 0 {
						labels = append(labels, "fragments-all-full")
					}
				}
				if u.Len >= 64*1024 {
					labels = append(labels, "unit>=64KiB")
				}
				if u.Len >= 256*1024 {
					labels = append(labels, "unit>=256KiB")
				}
			}
			switch c.Codec {
			case "avc":
				if u.H0&0x60 == 0 {
					labels = append(labels, "avc-nri0")
				}
				if u.H0&0x1F == 9 && c.Mode >= 2 {
					labels = append(labels, "aud-filtered")
				}
			case "hevc":
				_, typ, layer, tid := rtpref.H265Fields(u.H0, u.H1)
				if layer != 0 {
					labels = append(labels, "hevc-layer>0")
				}
				if layer >= 32 {
					labels = append(labels, "hevc-layer>=32")
				}
				if tid != 1 {
					labels = append(labels, "hevc-tid>1")
				}
				if (layer != 0 || tid != 1) && u.Len > limit {
					labels = append(labels, "hevc-fu-with-layer/tid")
				}
				if typ == 35 && c.Mode >= 2 {
					labels = append(labels, "aud-filtered")
				}
			case "aac":
				if u.Len > limit-4 {
					labels = append(labels, "aac>limit")
				}
			}
		}
	}
	return anyFrag && wrap, uniq(labels)
}

func TestPackRoundTrip(t *testing.T) {
	pbt.Run(t, pbt.Spec[PackCase]{
		ID: "C12", Name: "pack-roundtrip", Gen: genPack, Run: runPack, Classify: classifyPack,
		Quick: 2500, Thorough: 20000,
	})
}

// ---------------------------------------------------------------------------
// sub-property (b): reordering, duplication and sequence wrap-around

type RF struct {
	DeltaTicks uint32            `json:"delta_ticks"`
	Units      []U               `json:"units"`
	Plans      []rtpref.UnitPlan `json:"plans"`
}

type Dup struct {
	At  int `json:"at"`  // packet index (mod number of packets)
	Off int `json:"off"` // arrival position offset, 0..Window-1
}

type ReorderCase struct {
	Codec    string `json:"codec"`
	Limit    int    `json:"limit"` // payload limit of the reference packetiser
	FirstSeq uint16 `json:"first_seq"`
	Clock    int    `json:"clock"`
	StartTS  uint32 `json:"start_ts"`
	ListMax  int    `json:"list_max"` // size of lal's reorder list (lal's RTSP sessions use 1024)
	Frames   []RF   `json:"frames"`
	// packet i (i >= 1) is delivered at position i + Jitter[i % len(Jitter)];
	// ties keep sequence order; packet 0 is always delivered first
	Window int   `json:"window"` // 1..64; every jitter / dup offset is < Window
	Jitter []int `json:"jitter"`
	Dups   []Dup `json:"dups"`
	// duplicate storm: every StormEvery-th packet (0 = none) is delivered
	// StormCopies more times, StormOff positions after its place
	StormEvery  int `json:"storm_every,omitempty"`
	StormCopies int `json:"storm_copies,omitempty"`
	StormOff    int `json:"storm_off,omitempty"`
}

const maxWindow = 64

// listSlack: smallest generated margin between the most packets a conforming
// container ever has to cache (maxFrag+window-2) and the list size.
const listSlack = 2

func genReorder(t *rapid.T) ReorderCase {
	var c ReorderCase
	c.Codec = codecGen.Draw(t, "codec")
	c.Limit = rapid.OneOf(rapid.Just(1200), rapid.Just(1200), limitGen).Draw(t, "limit")
	c.Clock = clockGen(c.Codec).Draw(t, "clock")
	c.StartTS = rapid.OneOf(rapid.SampledFrom([]uint32{0, 0xFFFFFF00, 0xFFFFFFFF}), rapid.Uint32()).Draw(t, "startTs")
	// shape "small": units of at most 7 packets and a window <= 8, so that the
	// reorder list can be as small as 8..64 entries; storm: many duplicates
	small := rapid.IntRange(0, 2).Draw(t, "small") == 0
	storm := rapid.IntRange(0, 2).Draw(t, "storm") == 0
	nframes := rapid.IntRange(1, 8).Draw(t, "nframes")
	if storm {
		nframes = rapid.IntRange(3, 10).Draw(t, "nframesStorm")
	}
	maxLen := 24 * 1024
	if pbt.Thorough() {
		maxLen = 120 * 1024
	}
	if isVideo(c.Codec) {
		if m := 400 * (c.Limit - fuOverhead(c.Codec)); m < maxLen {
			maxLen = m
		}
	}
	// per: unit payload bytes one fragment carries at most
	per := c.Limit - 4
	if isVideo(c.Codec) {
		per = c.Limit - fuOverhead(c.Codec)
	}
	if small {
		maxLen = hdrLen(c.Codec) + 6*per
	}
	for f := 0; f < nframes; f++ {
		var rf RF
		if f > 0 {
			rf.DeltaTicks = rapid.OneOf(rapid.SampledFrom([]uint32{0, 1, 1024, 3000, 3600}), rapid.Uint32Range(0, 200000)).Draw(t, "deltaTicks")
		}
		nu := rapid.IntRange(1, 6).Draw(t, "nunits")
		if !isVideo(c.Codec) && c.Codec != "aac" {
			nu = 1
		}
		for i := 0; i < nu; i++ {
			var u U
			u.H0, u.H1 = genHeader(t, c.Codec)
			switch c.Codec {
			case "avc", "hevc":
				if storm && rapid.Bool().Draw(t, "fewFragments") {
					u.Len = rapid.IntRange(c.Limit+1, hdrLen(c.Codec)+6*per).Draw(t, "lenFew")
				} else {
					u.Len = unitLenGen(c.Codec, c.Limit, maxLen).Draw(t, "len")
				}
			case "aac":
				u.Len = rapid.OneOf(rapid.IntRange(1, 700), rapid.IntRange(1, 8184), rapid.SampledFrom([]int{1, 2, 8184})).Draw(t, "aacLen")
				if small && u.Len > 6*per {
					u.Len = 6 * per
				}
			default:
				u.Len = rapid.OneOf(rapid.SampledFrom([]int{1, 160, 320}), rapid.IntRange(1, 1500)).Draw(t, "rawLen")
			}
			u.Seed = rapid.Uint32().Draw(t, "seed")
			rf.Units = append(rf.Units, u)
			var p rtpref.UnitPlan
			if isVideo(c.Codec) || c.Codec == "aac" {
				p.Mode = rtpref.Mode(rapid.SampledFrom([]int{0, 1, 1, 2, 2}).Draw(t, "planMode"))
				if p.Mode == rtpref.ModeFragment && rapid.Bool().Draw(t, "customChunk") {
					p.Chunk = rapid.OneOf(rapid.IntRange(1, 8), rapid.IntRange(1, c.Limit)).Draw(t, "chunk")
					// keep the fragment count of one unit far below the reorder list size
					if min := u.Len/300 + 1; p.Chunk < min {
						p.Chunk = min
					}
					if min := u.Len/6 + 1; small && p.Chunk < min {
						p.Chunk = min
					}
				}
			}
			rf.Plans = append(rf.Plans, p)
		}
		c.Frames = append(c.Frames, rf)
	}
	c.Window = rapid.OneOf(rapid.SampledFrom([]int{1, 2, 3, 8, 63, 64}), rapid.IntRange(1, maxWindow)).Draw(t, "window")
	if small {
		c.Window = rapid.IntRange(1, 8).Draw(t, "windowSmall")
	}
	nj := rapid.IntRange(1, 97).Draw(t, "njitter")
	dense := rapid.IntRange(0, 3).Draw(t, "jitterDensity")
	for i := 0; i < nj; i++ {
		j := 0
		if rapid.IntRange(0, 3).Draw(t, "jitterOn") <= dense {
			j = rapid.IntRange(0, c.Window-1).Draw(t, "jitter")
		}
		c.Jitter = append(c.Jitter, j)
	}
	nd := rapid.IntRange(0, 6).Draw(t, "ndups")
	for i := 0; i < nd; i++ {
		c.Dups = append(c.Dups, Dup{At: rapid.IntRange(0, 4000).Draw(t, "dupAt"), Off: rapid.IntRange(0, c.Window-1).Draw(t, "dupOff")})
	}
	if storm {
		c.StormEvery = rapid.SampledFrom([]int{1, 1, 2, 3, 5}).Draw(t, "stormEvery")
		c.StormCopies = rapid.IntRange(1, 3).Draw(t, "stormCopies")
		c.StormOff = rapid.OneOf(rapid.Just(0), rapid.IntRange(0, c.Window-1)).Draw(t, "stormOff")
	}
	// sequence numbers: make the wrap fall inside the stream most of the time
	_, builtPkts := c.build()
	npk := len(builtPkts)
	c.FirstSeq = uint16(rapid.OneOf(
		rapid.IntRange(65536-npk, 65535),
		rapid.IntRange(65536-npk, 65535),
		rapid.IntRange(65530, 65535),
		rapid.IntRange(0, 65535),
		rapid.SampledFrom([]int{0, 32767 - npk/2, 32768 - npk/2}),
	).Draw(t, "firstSeq"))
	// reorder list: lal's own size or just enough for the longest unit + window
	_, maxFrag := c.maxFragments()
	// (at most maxFrag-1 packets of an unfinished unit plus window-1 packets
	// behind a gap are ever cached, so maxFrag+window+listSlack never fills up)
	c.ListMax = rapid.OneOf(rapid.Just(lalListMax),
		rapid.IntRange(maxFrag+c.Window+listSlack, maxFrag+c.Window+24),
		rapid.IntRange(maxFrag+c.Window+listSlack, maxFrag+c.Window+200)).Draw(t, "listMax")
	return c
}

// build packetises the case with the reference packetiser (FirstSeq is applied
// by the caller) and returns the original units and the packets in order.
func (c ReorderCase) build() (want [][]byte, pkts []*rtpref.Packet) {
	codec := rtpref.Codec(c.Codec)
	seq := &rtpref.Sequencer{PT: uint8(lalPt(c.Codec)) & 0x7F, SSRC: 0x12345678, Seq: c.FirstSeq}
	serial := uint32(0x02000000)
	ts := c.StartTS
	fail := func(err error) {
		panic(pbt.HarnessError{Msg: "reference packetiser refused a generated frame: " + err.Error()})
	}
	for _, f := range c.Frames {
		ts += f.DeltaTicks
		var units [][]byte
		for _, u := range f.Units {
			serial++
			units = append(units, u.bytes(c.Codec, serial))
		}
		want = append(want, units...)
		switch {
		case codec.IsVideo():
			pls, err := rtpref.PacketizeVideo(codec, units, f.Plans, c.Limit)
			if err != nil {
				fail(err)
			}
			pkts = append(pkts, seq.Frame(pls, ts, true)...)
		case codec == rtpref.AAC:
			groups, err := rtpref.PacketizeAAC(rtpref.AACHbr, units, f.Plans, c.Limit)
			if err != nil {
				fail(err)
			}
			for _, g := range groups {
				pkts = append(pkts, seq.Frame(g.Payloads, ts, true)...)
				ts += uint32(g.AUs) * rtpref.AACHbr.ConstantDuration
			}
		default:
			for _, u := range units {
				pkts = append(pkts, seq.Frame([][]byte{u}, ts, true)...)
			}
		}
	}
	return
}

// maxFragments returns whether any unit is fragmented and the largest number
// of packets one unit occupies.
func (c ReorderCase) maxFragments() (anyFrag bool, maxFrag int) {
	_, pkts := c.build()
	units, err := rtpref.Depacketize(rtpref.NewDepacketizer(rtpref.Codec(c.Codec)), pkts)
	if err != nil {
		panic(pbt.HarnessError{Msg: "reference depacketiser rejects the reference packetiser's output: " + err.Error()})
	}
	maxFrag = 1
	for _, u := range units {
		if u.Kind == rtpref.KindFragmented {
			anyFrag = true
		}
		if u.Packets > maxFrag {
			maxFrag = u.Packets
		}
	}
	return
}

type arrival struct {
	key int
	idx int
	dup bool
}

// schedule returns the perturbed arrival order (indices into the packet list).
func (c ReorderCase) schedule(n int) []arrival {
	arr := make([]arrival, 0, n+len(c.Dups))
	for i := 0; i < n; i++ {
		k := i
		if i > 0 && len(c.Jitter) > 0 {
			k += c.Jitter[i%len(c.Jitter)]
		}
		arr = append(arr, arrival{key: k, idx: i})
	}
	for _, d := range c.Dups {
		i := d.At % n
		arr = append(arr, arrival{key: i + d.Off, idx: i, dup: true})
	}
	if c.StormEvery > 0 {
		for i := 0; i < n; i += c.StormEvery {
			for k := 0; k < c.StormCopies; k++ {
				arr = append(arr, arrival{key: i + c.StormOff, idx: i, dup: true})
			}
		}
	}
	sort.SliceStable(arr, func(a, b int) bool { return arr[a].key < arr[b].key })
	return arr
}

func (c ReorderCase) validate() {
	bad := func(f string, a ...interface{}) {
		panic(pbt.HarnessError{Msg: "case outside the generator's domain: " + fmt.Sprintf(f, a...)})
	}
	if c.Limit < 16 || c.Limit > 1500 || c.Clock < 1000 || c.Window < 1 || c.Window > maxWindow || len(c.Frames) == 0 {
		bad("limit %d clock %d window %d frames %d", c.Limit, c.Clock, c.Window, len(c.Frames))
	}
	for _, j := range c.Jitter {
		if j < 0 || j >= c.Window {
			bad("jitter %d outside the window %d", j, c.Window)
		}
	}
	for _, d := range c.Dups {
		if d.At < 0 || d.Off < 0 || d.Off >= c.Window {
			bad("dup %+v outside the window %d", d, c.Window)
		}
	}
	if c.StormEvery < 0 || c.StormCopies < 0 || c.StormCopies > 8 || c.StormOff < 0 || c.StormOff >= c.Window {
		bad("storm every %d copies %d off %d (window %d)", c.StormEvery, c.StormCopies, c.StormOff, c.Window)
	}
	for _, f := range c.Frames {
		if len(f.Units) == 0 || len(f.Plans) != len(f.Units) {
			bad("frame with %d units / %d plans", len(f.Units), len(f.Plans))
		}
		for _, u := range f.Units {
			u.validate(c.Codec)
		}
	}
}

func runReorder(c ReorderCase) *pbt.Violation {
	c.validate()
	want, pkts := c.build()
	// harness self-check: the reference pair must be lossless on its own
	units, err := rtpref.Depacketize(rtpref.NewDepacketizer(rtpref.Codec(c.Codec)), pkts)
	if err != nil {
		panic(pbt.HarnessError{Msg: "reference depacketiser rejects the reference packetiser's output: " + err.Error()})
	}
	if len(units) != len(want) {
		panic(pbt.HarnessError{Msg: fmt.Sprintf("reference round trip: %d units, want %d", len(units), len(want))})
	}
	maxFrag := 1
	for i := range units {
		if !bytes.Equal(units[i].Data, want[i]) {
			panic(pbt.HarnessError{Msg: fmt.Sprintf("reference round trip: unit %d differs", i)})
		}
		if units[i].Packets > maxFrag {
			maxFrag = units[i].Packets
		}
	}
	if c.ListMax < maxFrag+c.Window+listSlack {
		panic(pbt.HarnessError{Msg: fmt.Sprintf("case outside the generator's domain: list_max %d too small for %d fragments + window %d", c.ListMax, maxFrag, c.Window)})
	}
	raws := make([][]byte, len(pkts))
	for i, p := range pkts {
		raws[i] = p.Marshal()
	}

	// in-order delivery
	var inOrder []lalOut
	cont := newLalContainer(c.Codec, c.Clock, c.ListMax, &inOrder)
	for i, raw := range raws {
		if err := feedLal(cont, raw); err != nil {
			return pbt.V("reorder/parse-error", "lal's ParseRtpHeader rejected conforming packet %d: %v", i, err)
		}
	}
	flat, v := flatten(c.Codec, inOrder)
	if v != nil {
		v.Sig = "reorder/inorder/" + v.Sig
		return v
	}
	got := make([][]byte, len(flat))
	for i := range flat {
		got[i] = flat[i].Data
	}
	if v := compareUnits("reorder/inorder", "lal RtpUnpackContainer, in-order delivery of reference packets", c.Codec, want, got); v != nil {
		return v
	}

	// perturbed delivery
	var pert []lalOut
	cont2 := newLalContainer(c.Codec, c.Clock, c.ListMax, &pert)
	for _, a := range c.schedule(len(raws)) {
		// a fresh copy per delivery: a duplicate is a second datagram
		if err := feedLal(cont2, append([]byte(nil), raws[a.idx]...)); err != nil {
			return pbt.V("reorder/parse-error", "lal's ParseRtpHeader rejected conforming packet %d: %v", a.idx, err)
		}
	}
	n := len(inOrder)
	if len(pert) < n {
		n = len(pert)
	}
	for i := 0; i < n; i++ {
		a, b := inOrder[i], pert[i]
		if !bytes.Equal(a.Data, b.Data) || a.Ts != b.Ts || a.Pt != b.Pt {
			return pbt.V("reorder/output-differs", "AvPacket %d differs from in-order delivery: in-order ts=%d len=%d (% x..), perturbed ts=%d len=%d (% x..)",
				i, a.Ts, len(a.Data), prefix(a.Data, 8), b.Ts, len(b.Data), prefix(b.Data, 8))
		}
	}
	if len(pert) != len(inOrder) {
		return pbt.V("reorder/output-count", "perturbed delivery (window %d, %d duplicates, list size %d) produced %d AvPackets, in-order delivery %d", c.Window, len(c.schedule(len(raws)))-len(raws), c.ListMax, len(pert), len(inOrder))
	}
	return nil
}

// cachedDuplicates models a conforming container (consume every unit as soon
// as all of its packets and everything before it have arrived) and counts the
// arrivals of a packet that is already cached and not yet consumed.
func (c ReorderCase) cachedDuplicates(pkts []*rtpref.Packet, sched []arrival) int {
	n := len(pkts)
	units, err := rtpref.Depacketize(rtpref.NewDepacketizer(rtpref.Codec(c.Codec)), pkts)
	if err != nil {
		panic(pbt.HarnessError{Msg: "reference depacketiser rejects the reference packetiser's output: " + err.Error()})
	}
	endOf := make([]int, n) // index of the last packet of the unit(s) packet i belongs to
	for _, u := range units {
		first := int(uint16(u.FirstSeq - c.FirstSeq))
		last := int(uint16(u.LastSeq - c.FirstSeq))
		for i := first; i <= last && i < n; i++ {
			endOf[i] = last
		}
	}
	arrived := make([]bool, n)
	done := -1
	cached := 0
	for _, a := range sched {
		switch {
		case a.idx <= done:
			// stale
		case arrived[a.idx]:
			cached++
		default:
			arrived[a.idx] = true
		}
		for done+1 < n {
			e := endOf[done+1]
			ok := true
			for i := done + 1; i <= e; i++ {
				if !arrived[i] {
					ok = false
					break
				}
			}
			if !ok {
				break
			}
			done = e
		}
	}
	return cached
}

func classifyReorder(c ReorderCase) (bool, []string) {
	labels := []string{"codec=" + c.Codec}
	want, pkts := c.build()
	_ = want
	n := len(pkts)
	anyFrag, maxFrag := c.maxFragments()
	wrap := int(c.FirstSeq)+n > 65536
	if wrap {
		labels = append(labels, "seq-wrap")
	}
	if anyFrag {
		labels = append(labels, "fragmented")
	}
	if maxFrag >= 64 {
		labels = append(labels, "unit>=64-packets")
	}
	// payload structures present
	for _, p := range pkts {
		switch c.Codec {
		case "avc":
			if p.Payload[0]&0x1F == 24 {
				labels = append(labels, "stap-a")
			}
		case "hevc":
			if (p.Payload[0]>>1)&0x3F == 48 {
				labels = append(labels, "ap")
			}
		case "aac":
			hb := int(p.Payload[0])<<8 | int(p.Payload[1])
			if hb > 16 {
				labels = append(labels, "aac-multi-au")
			}
		}
	}
	if c.Codec == "aac" && anyFrag {
		labels = append(labels, "aac-fragmented")
	}
	displaced, dups := 0, 0
	sched := c.schedule(n)
	pos := 0
	wrapDisplaced := false
	for _, a := range sched {
		if a.dup {
			dups++
			continue
		}
		if a.idx != pos {
			displaced++
			// a displaced packet adjacent to the wrap point
			if s := uint16(int(c.FirstSeq) + a.idx); s >= 65500 || s < 36 {
				wrapDisplaced = true
			}
		}
		pos++
	}
	perturbed := displaced > 0 || dups > 0
	// duplicates that arrive while their original is still cached (unit not
	// complete yet, or waiting behind a gap) - the container must ignore them
	// without any effect on its bookkeeping
	cached := c.cachedDuplicates(pkts, sched)
	if cached > 0 {
		labels = append(labels, "dup-of-cached-packet")
	}
	if c.StormEvery > 0 {
		labels = append(labels, "dup-storm")
	}
	slack := c.ListMax - maxFrag - c.Window
	if cached >= slack+2 && anyFrag {
		labels = append(labels, "cached-dups>=list-slack")
		if c.ListMax <= 64 {
			labels = append(labels, "cached-dups>=list-slack,list<=64")
		}
	}
	if c.ListMax <= 64 {
		labels = append(labels, "list<=64")
	}
	if displaced > 0 {
		labels = append(labels, "reordered")
	}
	if dups > 0 {
		labels = append(labels, "duplicates")
	}
	if wrap && wrapDisplaced {
		labels = append(labels, "reordered-across-wrap")
	}
	if c.Window >= 32 {
		labels = append(labels, "window>=32")
	}
	if c.ListMax != lalListMax {
		labels = append(labels, "tight-list")
	}
	return anyFrag && (wrap || perturbed), uniq(labels)
}

func TestReorder(t *testing.T) {
	pbt.Run(t, pbt.Spec[ReorderCase]{
		ID: "C12", Name: "reorder", Gen: genReorder, Run: runReorder, Classify: classifyReorder,
		Quick: 2000, Thorough: 14000,
	})
}
