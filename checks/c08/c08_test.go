// C08 — RTMP chunk stream encode/decode is exact for every size, timestamp
// and chunking.
package c08

import (
	"bytes"
	"fmt"
	"io"
	"testing"

	"github.com/q191201771/lal/pkg/base"
	"github.com/q191201771/lal/pkg/rtmp"
	"pgregory.net/rapid"

	"verif/drv/pbt"
	"verif/gen"
	"verif/ref/rtmpref"
)

// ---------------------------------------------------------------------------
// shared

type M struct {
	Csid int    `json:"csid"`
	Type uint8  `json:"type"`
	Msid uint32 `json:"msid"`
	Ts   uint32 `json:"ts"`
	Len  int    `json:"len"`
	Seed uint32 `json:"seed"`
}

func (m M) payload() []byte { return gen.Bytes(m.Seed, m.Len) }

func (m M) ref() rtmpref.Msg {
	return rtmpref.Msg{Csid: m.Csid, TypeID: m.Type, StreamID: m.Msid, Ts: m.Ts, Payload: m.payload()}
}

var csidGen = rapid.OneOf(
	rapid.IntRange(2, 63),
	rapid.SampledFrom([]int{2, 3, 63, 64, 65, 318, 319, 320, 321, 575, 576, 65598, 65599}),
	rapid.IntRange(64, 319),
	rapid.IntRange(320, 65599),
)

var tsGen = rapid.OneOf(
	rapid.SampledFrom([]uint32{0, 1, 0xFFFFFD, 0xFFFFFE, 0xFFFFFF, 0x1000000, 0x1000001, 0x7FFFFFFF, 0x80000000, 0xFFFFFFFE, 0xFFFFFFFF}),
	rapid.Uint32Range(0, 100000),
	rapid.Uint32(),
)

// message types whose payload the chunk layer does not interpret
var typeGen = rapid.OneOf(
	rapid.SampledFrom([]uint8{8, 9, 18, 20, 15, 17, 3, 4, 5, 6}),
	rapid.Custom(func(t *rapid.T) uint8 {
		for {
			v := rapid.Uint8().Draw(t, "type")
			if v != rtmpref.TypeSetChunkSize && v != rtmpref.TypeAbort && v != rtmpref.TypeAggregate {
				return v
			}
		}
	}),
)

func lenGen(cs int, max int) *rapid.Generator[int] {
	return rapid.Custom(func(t *rapid.T) int {
		switch rapid.IntRange(0, 9).Draw(t, "lenClass") {
		case 0:
			return rapid.IntRange(0, 2).Draw(t, "small")
		case 1, 2, 3, 4:
			k := rapid.IntRange(1, 4).Draw(t, "k")
			if k*cs > max {
				k = 1
			}
			v := k*cs + rapid.IntRange(-2, 2).Draw(t, "d")
			if v < 0 {
				v = 0
			}
			if v > max {
				v = max
			}
			return v
		case 5, 6:
			return rapid.IntRange(0, 300).Draw(t, "short")
		case 7, 8:
			hi := 20000
			if hi > max {
				hi = max
			}
			return rapid.IntRange(0, hi).Draw(t, "mid")
		default:
			return rapid.IntRange(0, max).Draw(t, "big")
		}
	})
}

var chunkSizeGen = rapid.OneOf(
	rapid.SampledFrom([]int{1, 2, 127, 128, 129, 4096, 60000, 65536}),
	rapid.IntRange(1, 300),
	rapid.IntRange(1, 65536),
)

// hugeOneIn: one case in N carries a message of up to 2^24-1 bytes.
func hugeOneIn() int {
	if pbt.Thorough() {
		return 60
	}
	return 400
}

func maxLen() int {
	if pbt.Thorough() {
		return 400 * 1024
	}
	return 100 * 1024
}

type got struct {
	Csid int
	Type uint8
	Msid int
	Len  uint32
	Ts   uint32
	Pay  []byte
}

// lalRead runs lal's ChunkComposer over b with the given initial peer chunk
// size and returns every message delivered to the callback.
func lalRead(b []byte, peerChunkSize uint32) ([]got, error) {
	c := rtmp.NewChunkComposer()
	if peerChunkSize != 0 {
		c.SetPeerChunkSize(peerChunkSize)
	}
	var out []got
	err := c.RunLoop(bytes.NewReader(b), func(stream *rtmp.Stream) error {
		m := stream.VerifMsg()
		out = append(out, got{Csid: m.Header.Csid, Type: m.Header.MsgTypeId, Msid: m.Header.MsgStreamId, Len: m.Header.MsgLen,
			Ts: m.Header.TimestampAbs, Pay: append([]byte(nil), m.Payload...)})
		return nil
	})
	if err == io.EOF {
		err = nil
	}
	return out, err
}

func cmp(what string, i int, want rtmpref.Msg, g got, checkCsid bool) *pbt.Violation {
	if g.Type != want.TypeID || uint32(g.Msid) != want.StreamID || g.Ts != want.Ts || g.Len != uint32(len(want.Payload)) || !bytes.Equal(g.Pay, want.Payload) || (checkCsid && g.Csid != want.Csid) {
		field := "payload"
		switch {
		case g.Type != want.TypeID:
			field = "type"
		case uint32(g.Msid) != want.StreamID:
			field = "msid"
		case g.Ts != want.Ts:
			field = "timestamp"
		case g.Len != uint32(len(want.Payload)):
			field = "length"
		case checkCsid && g.Csid != want.Csid:
			field = "csid"
		}
		return pbt.V(what+"/"+field, "message %d: want csid=%d type=%d msid=%d ts=%d len=%d, got csid=%d type=%d msid=%d ts=%d len=%d(hdr %d) payloadEqual=%v",
			i, want.Csid, want.TypeID, want.StreamID, want.Ts, len(want.Payload), g.Csid, g.Type, g.Msid, g.Ts, len(g.Pay), g.Len, bytes.Equal(g.Pay, want.Payload))
	}
	return nil
}

// ---------------------------------------------------------------------------
// sub-property 1: what lal writes is read back by a conforming reader and by lal

type WriteCase struct {
	ChunkSize  int  `json:"chunk_size"`
	UseDefault bool `json:"use_default"` // use the exported Message2Chunks (LocalChunkSize)
	Msgs       []M  `json:"msgs"`
}

func genWrite(t *rapid.T) WriteCase {
	var c WriteCase
	c.UseDefault = rapid.IntRange(0, 3).Draw(t, "useDefault") == 0
	if c.UseDefault {
		c.ChunkSize = rtmp.LocalChunkSize
	} else {
		c.ChunkSize = chunkSizeGen.Draw(t, "chunkSize")
	}
	n := rapid.IntRange(1, 4).Draw(t, "n")
	max := maxLen()
	if c.ChunkSize < 16 {
		max = 6000 // keeps the chunk count sane for tiny chunk sizes
	}
	// the 24-bit length field: a message of (nearly) 2^24-1 bytes, alone, with a chunk size that keeps the chunk
	// count sane (the quantifier names every length the field can carry)
	huge := c.ChunkSize >= 128 && rapid.IntRange(0, hugeOneIn()-1).Draw(t, "hugeLen") == 0
	if huge {
		n = 1
	}
	for i := 0; i < n; i++ {
		if huge {
			c.Msgs = append(c.Msgs, M{Csid: csidGen.Draw(t, "csid"), Type: typeGen.Draw(t, "type"), Msid: 1, Ts: tsGen.Draw(t, "ts"),
				Len:  rapid.OneOf(rapid.SampledFrom([]int{0xFFFFFF, 0xFFFFFE, 0x800000, 0x100000}), rapid.IntRange(0x100000, 0xFFFFFF)).Draw(t, "hugeLenValue"),
				Seed: rapid.Uint32().Draw(t, "seed")})
			continue
		}
		c.Msgs = append(c.Msgs, M{
			Csid: csidGen.Draw(t, "csid"),
			Type: typeGen.Draw(t, "type"),
			Msid: rapid.OneOf(rapid.SampledFrom([]uint32{0, 1, 2, 0x7FFFFFFF}), rapid.Uint32Range(0, 0x7FFFFFFF)).Draw(t, "msid"),
			Ts:   tsGen.Draw(t, "ts"),
			Len:  lenGen(c.ChunkSize, max).Draw(t, "len"),
			Seed: rapid.Uint32().Draw(t, "seed"),
		})
	}
	return c
}

func runWrite(c WriteCase) *pbt.Violation {
	var wire []byte
	var want []rtmpref.Msg
	for _, m := range c.Msgs {
		p := m.payload()
		h := base.RtmpHeader{Csid: m.Csid, MsgLen: uint32(len(p)), MsgTypeId: m.Type, MsgStreamId: int(m.Msid), TimestampAbs: m.Ts}
		var chunks []byte
		if c.UseDefault {
			chunks = rtmp.Message2Chunks(p, &h)
		} else {
			chunks = rtmp.VerifMessage2Chunks(p, &h, nil, c.ChunkSize)
		}
		wire = append(wire, chunks...)
		if len(p) > 0 {
			want = append(want, m.ref())
		}
		// NOTE a zero-length message produces no chunk at all in lal's divider
		// (numOfChunk == 0); the property speaks about messages lal serialises
		// "into chunks", and the relay (C01) never forwards empty messages, so
		// the expectation for Len == 0 is "nothing or the empty message".
	}
	// (a) conforming reader
	r := rtmpref.NewChunkReader(bytes.NewReader(wire))
	r.ChunkSize = uint32(c.ChunkSize)
	r.IgnoreSetChunkSize = true
	var refGot []rtmpref.Msg
	for {
		m, err := r.ReadMsg()
		if err == io.EOF {
			break
		}
		if err != nil {
			return pbt.V("write/ref-reader-error", "conforming reader failed after %d messages: %v", len(refGot), err)
		}
		refGot = append(refGot, m)
	}
	refGot = dropEmpty(refGot)
	if len(refGot) != len(want) {
		return pbt.V("write/ref-reader-count", "conforming reader decoded %d messages, want %d", len(refGot), len(want))
	}
	for i := range want {
		g := refGot[i]
		if v := cmp("write/ref-reader", i, want[i], got{Csid: g.Csid, Type: g.TypeID, Msid: int(g.StreamID), Len: uint32(len(g.Payload)), Ts: g.Ts, Pay: g.Payload}, true); v != nil {
			return v
		}
	}
	// (b) lal's own reader
	lg, err := lalRead(wire, uint32(c.ChunkSize))
	if err != nil {
		return pbt.V("write/lal-reader-error", "lal reader failed after %d messages: %v", len(lg), err)
	}
	var lg2 []got
	for _, g := range lg {
		if g.Len != 0 {
			lg2 = append(lg2, g)
		}
	}
	if len(lg2) != len(want) {
		return pbt.V("write/lal-reader-count", "lal reader decoded %d messages, want %d", len(lg2), len(want))
	}
	for i := range want {
		if v := cmp("write/lal-reader", i, want[i], lg2[i], true); v != nil {
			return v
		}
	}
	return nil
}

func dropEmpty(in []rtmpref.Msg) []rtmpref.Msg {
	var out []rtmpref.Msg
	for _, m := range in {
		if len(m.Payload) != 0 {
			out = append(out, m)
		}
	}
	return out
}

func classifyWrite(c WriteCase) (bool, []string) {
	nt := false
	var labels []string
	for _, m := range c.Msgs {
		if m.Len > c.ChunkSize {
			nt = true
			labels = append(labels, "multi-chunk")
		}
		if m.Ts >= 0xFFFFFF {
			nt = true
			labels = append(labels, "ext-ts")
		}
		if m.Len >= 0x100000 {
			labels = append(labels, "len>=1MiB")
		}
		if m.Len >= 0xFFFFFE {
			labels = append(labels, "len=2^24-1|2^24-2")
		}
		if m.Ts == 0xFFFFFF {
			labels = append(labels, "ts=0xFFFFFF")
		}
		if m.Csid >= 64 {
			nt = true
			labels = append(labels, "csid>=64")
		}
		if m.Csid >= 320 {
			labels = append(labels, "csid>=320")
		}
		if m.Len > 0 && m.Len%c.ChunkSize == 0 {
			labels = append(labels, "len=k*cs")
		}
		if m.Len == 0 {
			labels = append(labels, "len=0")
		}
	}
	if c.UseDefault {
		labels = append(labels, "Message2Chunks(default)")
	}
	return nt, uniq(labels)
}

func uniq(in []string) []string {
	seen := map[string]bool{}
	var out []string
	for _, s := range in {
		if !seen[s] {
			seen[s] = true
			out = append(out, s)
		}
	}
	return out
}

func TestWriteRoundTrip(t *testing.T) {
	pbt.Run(t, pbt.Spec[WriteCase]{
		ID: "C08", Name: "write-roundtrip", Gen: genWrite, Run: runWrite, Classify: classifyWrite,
		Quick: 6000, Thorough: 40000,
	})
}

// ---------------------------------------------------------------------------
// sub-property 2: lal's reader reconstructs any conforming chunking

// Step is one element of the emission plan.
type Step struct {
	Kind string `json:"kind"` // "msg" | "scs" (Set Chunk Size) | "agg"
	M    M      `json:"m"`
	Fmt  uint8  `json:"fmt"`
	// ContFmt0: the continuation chunks of this (type-0) message repeat the full type-0 header instead of type 3
	// ("header format choice per chunk"; continuation chunks SHOULD be type 3, a repeated full header is legal)
	ContFmt0 bool `json:"cont_fmt0,omitempty"`
	// for scs
	NewSize int `json:"new_size,omitempty"`
	// for agg: sub-messages (timestamps relative to the aggregate's own ts)
	Subs []M `json:"subs,omitempty"`
}

// Group = messages whose chunks are interleaved with each other following Picks.
type Group struct {
	Steps []Step `json:"steps"`
	Picks []int  `json:"picks"`
}

type ReadCase struct {
	InitChunkSize int     `json:"init_chunk_size"`
	WideCsid      bool    `json:"wide_csid"`
	Groups        []Group `json:"groups"`
}

type wmem struct {
	have    bool
	ts      uint32
	field   uint32
	length  int
	typeID  uint8
	msid    uint32
}

func genRead(t *rapid.T) ReadCase {
	var c ReadCase
	c.InitChunkSize = 128
	c.WideCsid = rapid.IntRange(0, 4).Draw(t, "wide") == 0
	cs := c.InitChunkSize
	mem := map[int]*wmem{}
	csids := rapid.SliceOfNDistinct(csidGen, 1, 4, rapid.ID[int]).Draw(t, "csids")
	// csid 2 is used by Set Chunk Size messages; keep media off it so that one
	// chunk stream never carries two messages at once
	{
		seen := map[int]bool{}
		var d []int
		for _, v := range csids {
			if v == 2 {
				v = 66000 // placeholder, replaced below
			}
			if !seen[v] {
				seen[v] = true
				d = append(d, v)
			}
		}
		for i := range d {
			if d[i] == 66000 {
				v := 7
				for seen[v] {
					v++
				}
				seen[v] = true
				d[i] = v
			}
		}
		csids = d
	}
	ngroups := rapid.IntRange(1, 5).Draw(t, "ngroups")
	max := maxLen() / 2
	for g := 0; g < ngroups; g++ {
		var grp Group
		perm := rapid.Permutation(csids).Draw(t, "perm")
		k := rapid.IntRange(1, len(perm)).Draw(t, "k")
		for i := 0; i < k; i++ {
			csid := perm[i]
			st := mem[csid]
			if st == nil {
				st = &wmem{}
				mem[csid] = st
			}
			kind := "msg"
			if rapid.IntRange(0, 9).Draw(t, "agg") == 0 {
				kind = "agg"
			}
			var m M
			m.Csid = csid
			m.Seed = rapid.Uint32().Draw(t, "seed")
			wish := rapid.IntRange(0, 3).Draw(t, "fmtWish")
			if !st.have {
				wish = 0
			}
			lmax := max
			if cs < 16 {
				lmax = 3000
			}
			var step Step
			if kind == "agg" {
				m.Type = rtmpref.TypeAggregate
				nsub := rapid.OneOf(rapid.IntRange(1, 4), rapid.IntRange(1, 12)).Draw(t, "nsub")
				base := rapid.Uint32Range(0, 0x2000000).Draw(t, "aggBase")
				off := uint32(0)
				for j := 0; j < nsub; j++ {
					step.Subs = append(step.Subs, M{
						Type: rapid.SampledFrom([]uint8{8, 9, 18}).Draw(t, "subType"),
						Msid: rapid.Uint32Range(0, 0xFFFFFF).Draw(t, "subMsid"),
						Ts:   base + off,
						Len:  rapid.OneOf(rapid.IntRange(0, 600), rapid.IntRange(0, 600), rapid.IntRange(0, 600), rapid.IntRange(0, lmax/4)).Draw(t, "subLen"),
						Seed: rapid.Uint32().Draw(t, "subSeed"),
					})
					off += rapid.Uint32Range(0, 100).Draw(t, "subDelta")
				}
				m.Len = len(rtmpref.BuildAggregate(subsRef(step.Subs)))
				if wish >= 2 {
					wish = 1
				}
			}
			switch wish {
			case 0:
				if kind != "agg" {
					m.Type = typeGen.Draw(t, "type")
					m.Len = lenGen(cs, lmax).Draw(t, "len")
				}
				m.Msid = rapid.OneOf(rapid.Just(uint32(1)), rapid.Uint32Range(0, 0x7FFFFFFF)).Draw(t, "msid")
				m.Ts = tsGen.Draw(t, "ts")
			case 1:
				if kind != "agg" {
					m.Type = typeGen.Draw(t, "type")
					m.Len = lenGen(cs, lmax).Draw(t, "len")
				}
				m.Msid = st.msid
				m.Ts = st.ts + deltaGen.Draw(t, "delta")
			case 2:
				m.Type, m.Len, m.Msid = st.typeID, st.length, st.msid
				m.Ts = st.ts + deltaGen.Draw(t, "delta")
			case 3:
				m.Type, m.Len, m.Msid = st.typeID, st.length, st.msid
				m.Ts = st.ts + st.field
			}
			if m.Ts < st.ts && wish != 0 { // 32-bit wrap: fall back to an absolute header
				wish = 0
			}
			if wish == 3 && st.field >= 0xFFFFFF {
				wish = 0
			}
			if kind == "agg" && m.Type != rtmpref.TypeAggregate {
				kind = "msg"
			}
			if kind == "msg" && m.Type == rtmpref.TypeAggregate {
				// inherited type of a previous aggregate through fmt 2/3: emit a plain absolute message instead
				m.Type = 9
				wish = 0
			}
			step.Kind, step.M, step.Fmt = kind, m, uint8(wish)
			if kind == "msg" && wish == 0 && m.Len > cs && rapid.IntRange(0, 4).Draw(t, "contFmt0") == 0 {
				step.ContFmt0 = true
			}
			field := m.Ts
			if wish != 0 {
				field = m.Ts - st.ts
			}
			*st = wmem{have: true, ts: m.Ts, field: field, length: m.Len, typeID: m.Type, msid: m.Msid}
			grp.Steps = append(grp.Steps, step)
		}
		// a Set Chunk Size message, possibly in the middle of the group
		if rapid.IntRange(0, 2).Draw(t, "scs") == 0 {
			ns := chunkSizeGen.Draw(t, "newSize")
			grp.Steps = append(grp.Steps, Step{Kind: "scs", NewSize: ns, M: M{Csid: 2, Type: rtmpref.TypeSetChunkSize, Len: 4}})
			cs = ns
		}
		np := rapid.IntRange(0, 12).Draw(t, "npicks")
		for i := 0; i < np; i++ {
			grp.Picks = append(grp.Picks, rapid.IntRange(0, 7).Draw(t, "pick"))
		}
		c.Groups = append(c.Groups, grp)
	}
	// the 24-bit length field in the read direction: one case in N ends with a message of up to 2^24-1 bytes in a
	// conforming chunking (after a Set Chunk Size that keeps the chunk count sane), interleaved with a short message on
	// another chunk stream; header format 0 or - when the chunk stream has history - 1
	if n := hugeOneIn(); rapid.IntRange(0, n-1).Draw(t, "hugeRead") == n/2 { // mid-range value: rapid favours the bounds
		if cs < 128 {
			ns := rapid.SampledFrom([]int{128, 4096, 60000, 65536}).Draw(t, "hugeChunkSize")
			c.Groups = append(c.Groups, Group{Steps: []Step{{Kind: "scs", NewSize: ns, M: M{Csid: 2, Type: rtmpref.TypeSetChunkSize, Len: 4}}}})
			cs = ns
		}
		var grp Group
		for i, csid := range csids {
			if i > 1 {
				break
			}
			st := mem[csid]
			if st == nil {
				st = &wmem{}
				mem[csid] = st
			}
			m := M{Csid: csid, Type: rapid.SampledFrom([]uint8{8, 9, 18}).Draw(t, "hugeType"), Seed: rapid.Uint32().Draw(t, "hugeSeed")}
			if i == 0 {
				m.Len = rapid.OneOf(rapid.SampledFrom([]int{0xFFFFFF, 0xFFFFFE, 0x800000, 0x100000}), rapid.IntRange(0x100000, 0xFFFFFF)).Draw(t, "hugeLenValue")
			} else {
				m.Len = rapid.IntRange(0, 3*cs).Draw(t, "besideHugeLen")
			}
			wish := 0
			if st.have && rapid.Bool().Draw(t, "hugeFmt1") {
				wish = 1
			}
			if wish == 0 {
				m.Msid = rapid.OneOf(rapid.Just(uint32(1)), rapid.Uint32Range(0, 0x7FFFFFFF)).Draw(t, "msid")
				m.Ts = tsGen.Draw(t, "ts")
			} else {
				m.Msid = st.msid
				m.Ts = st.ts + deltaGen.Draw(t, "delta")
				if m.Ts < st.ts {
					wish = 0
				}
			}
			field := m.Ts
			if wish != 0 {
				field = m.Ts - st.ts
			}
			*st = wmem{have: true, ts: m.Ts, field: field, length: m.Len, typeID: m.Type, msid: m.Msid}
			grp.Steps = append(grp.Steps, Step{Kind: "msg", M: m, Fmt: uint8(wish)})
		}
		np := rapid.IntRange(0, 12).Draw(t, "npicks")
		for i := 0; i < np; i++ {
			grp.Picks = append(grp.Picks, rapid.IntRange(0, 7).Draw(t, "pick"))
		}
		c.Groups = append(c.Groups, grp)
	}
	return c
}

var deltaGen = rapid.OneOf(
	rapid.SampledFrom([]uint32{0, 1, 40, 0xFFFFFD, 0xFFFFFE}),
	rapid.Uint32Range(0, 1000),
	rapid.Uint32Range(0, 0xFFFFFE),
)

func subsRef(subs []M) []rtmpref.Msg {
	var out []rtmpref.Msg
	for _, s := range subs {
		out = append(out, s.ref())
	}
	return out
}

func runRead(c ReadCase) *pbt.Violation {
	w := rtmpref.NewChunkWriter(c.InitChunkSize)
	w.WideCsid = c.WideCsid
	var wire []byte
	var want []rtmpref.Msg
	for gi, g := range c.Groups {
		type pend struct {
			p    *rtmpref.Pending
			step Step
			msg  rtmpref.Msg
		}
		var ps []*pend
		for _, s := range g.Steps {
			var m rtmpref.Msg
			switch s.Kind {
			case "scs":
				m = rtmpref.SetChunkSizeMsg(uint32(s.NewSize))
			case "agg":
				m = s.M.ref()
				m.Payload = rtmpref.BuildAggregate(subsRef(s.Subs))
			default:
				m = s.M.ref()
			}
			f := s.Fmt
			if s.Kind == "scs" {
				f = 0
			} else {
				ok := false
				for _, a := range w.AllowedFmts(m) {
					if a == f {
						ok = true
					}
				}
				if !ok {
					panic(pbt.HarnessError{Msg: fmt.Sprintf("generator produced a format the spec does not allow: group %d step %+v allowed=%v", gi, s, w.AllowedFmts(m))})
				}
			}
			pp := w.Begin(m, f)
			pp.ContFmt0 = s.ContFmt0 && s.Kind == "msg" && f == 0
			ps = append(ps, &pend{p: pp, step: s, msg: m})
		}
		emit := func(p *pend) {
			wire = append(wire, p.p.Next()...)
			if p.p.Done() {
				switch p.step.Kind {
				case "scs":
					want = append(want, p.msg)
					w.ChunkSize = p.step.NewSize
				case "agg":
					subs, _ := rtmpref.ExpandAggregate(p.msg)
					want = append(want, subs...)
				default:
					want = append(want, p.msg)
				}
			}
		}
		alive := func() []*pend {
			var a []*pend
			for _, p := range ps {
				if !p.p.Done() {
					a = append(a, p)
				}
			}
			return a
		}
		for _, pick := range g.Picks {
			a := alive()
			if len(a) == 0 {
				break
			}
			emit(a[pick%len(a)])
		}
		for {
			a := alive()
			if len(a) == 0 {
				break
			}
			emit(a[0])
		}
	}
	lg, err := lalRead(wire, 0)
	if err != nil {
		return pbt.V("read/error", "lal reader failed after %d of %d messages: %v", len(lg), len(want), err)
	}
	if len(lg) != len(want) {
		return pbt.V("read/count", "lal reader delivered %d messages, want %d", len(lg), len(want))
	}
	for i := range want {
		if v := cmp("read", i, want[i], lg[i], true); v != nil {
			return v
		}
	}
	return nil
}

func classifyRead(c ReadCase) (bool, []string) {
	var labels []string
	nt := false
	cs := c.InitChunkSize
	for _, g := range c.Groups {
		nmsg := 0
		for _, s := range g.Steps {
			switch s.Kind {
			case "scs":
				labels = append(labels, "set-chunk-size")
				nt = true
				if len(g.Steps) > 1 && len(g.Picks) > 0 {
					labels = append(labels, "set-chunk-size-in-interleaved-group")
				}
			case "agg":
				labels = append(labels, "aggregate")
				nt = true
				nmsg++
			default:
				nmsg++
			}
			if s.ContFmt0 {
				labels = append(labels, "continuation-chunks-with-type-0-header")
				nt = true
			}
			if s.Kind != "scs" {
				labels = append(labels, fmt.Sprintf("fmt%d", s.Fmt))
				if s.M.Len > cs {
					labels = append(labels, "multi-chunk")
					nt = true
				}
				if s.M.Ts >= 0xFFFFFF && s.Fmt == 0 {
					labels = append(labels, "ext-ts")
					nt = true
				}
				if s.M.Csid >= 64 {
					labels = append(labels, "csid>=64")
					nt = true
				}
				if s.M.Len == 0 {
					labels = append(labels, "len=0")
				}
				if s.M.Len >= 0x100000 {
					labels = append(labels, "len>=2^20-read")
				}
			}
		}
		if nmsg >= 2 && len(g.Picks) >= 2 {
			labels = append(labels, "interleaved")
			nt = true
		}
		for _, s := range g.Steps {
			if s.Kind == "scs" {
				cs = s.NewSize
			}
		}
	}
	if c.WideCsid {
		labels = append(labels, "wide-csid-form")
	}
	return nt, uniq(labels)
}

func TestReadConforming(t *testing.T) {
	pbt.Run(t, pbt.Spec[ReadCase]{
		ID: "C08", Name: "read-conforming", Gen: genRead, Run: runRead, Classify: classifyRead,
		Quick: 5000, Thorough: 40000,
	})
}
