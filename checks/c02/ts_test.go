package c02

// HTTP-TS consumers.
//
// What an HTTP-TS consumer receives is demultiplexed by the reference demuxer and every PES packet ("unit": lal
// writes one PES per video frame, one per Opus frame and one per batch of AAC frames) is mapped back to the published
// messages it carries - video by the NAL units of the frame, audio by the frame payloads.  Rules:
//
//	T-PMT  the first two packets are PAT, PMT and the PMT lists exactly the tracks of the joined incarnation that
//	       lal carries in TS (AVC / HEVC video, AAC, Opus; G.711 is not carried);
//	       (only the tracks lal's start-up probe had seen are announced: the video of an audio-first stream whose first
//	       video message comes after 16 other messages is carried without being listed - not demanded, lal writes
//	       PAT/PMT once per incarnation - and judged like an announced track);
//	T-MAP  every unit is made of published messages of the joined incarnation; per track the published indices
//	       strictly increase (nothing twice, nothing reordered);
//	D2     a key frame carries in-band the parameter sets in force when it was published; every AAC frame carries an
//	       ADTS header that reflects the AudioSpecificConfig in force when it was published;
//	D3     the first video unit holds an IDR / IRAP picture and has the random-access indicator;
//	D4     the video frames published before the join ("replay") are exactly the most recent min(gop_num, available)
//	       GOPs, oldest first, each whole or - when the GOP is longer than the cap, counted in units - cut at cap or
//	       cap+1 units; with gop_num 0 none;
//	T-RUN  from the first frame published after the join that is received, video frames are consecutive (no frame
//	       skipped), and from the first live audio unit on audio frames are consecutive;
//	D5     a consumer of an incarnation without video is not held back: its first audio unit is not later than the
//	       first audio frame published after the join.
//
// "Published before the join" is exact for video (a frame is written while its own message is processed, or - for the
// first messages of an incarnation - when lal's start-up probe of at most 16 messages ends, which the model below
// reproduces from the published sequence alone).  AAC frames are batched by lal (a batch is written when a later
// frame is > 150 ms ahead, a video frame > 300 ms ahead, or at the end): a batch that was still open at the join is
// delivered as live data although its frames were published before the join.  Therefore for audio: at most one unit
// made only of frames published before the join may arrive outside a replayed GOP (none for Opus).
//
// Not asserted: where a waiting consumer without replay starts (lal starts HTTP-TS consumers at "boundaries", not at
// every key frame); completeness of the audio inside replayed GOPs; the tail of the stream (the body is snapshotted
// when the publisher has left, the last units may still be in flight).

import (
	"bytes"
	"fmt"

	"verif/drv/pbt"
	"verif/gen"
	"verif/harness/lalclient"
	"verif/ref/tsref"
)

type tsUnit struct {
	video bool
	idx   []int // published indices carried (video: one)
	key   bool
	pes   *tsref.PES
}

// slices returns the NAL units of a frame that lal's TS remuxer forwards: everything except access unit delimiters
// and parameter sets (lal writes its own) and, for HEVC, SEI.
func forwardedNals(codec string, nals [][]byte) [][]byte {
	var out [][]byte
	for _, n := range nals {
		if len(n) == 0 {
			continue
		}
		if codec == "avc" {
			switch n[0] & 0x1f {
			case 7, 8, 9:
				continue
			}
		} else {
			switch int(n[0]>>1) & 0x3f {
			case 32, 33, 34, 35, 39, 40:
				continue
			}
		}
		out = append(out, n)
	}
	return out
}

func sameNals(a, b [][]byte) bool {
	if len(a) != len(b) {
		return false
	}
	for i := range a {
		if !bytes.Equal(a[i], b[i]) {
			return false
		}
	}
	return true
}

func isKeyNal(codec string, n []byte) bool {
	if len(n) == 0 {
		return false
	}
	if codec == "avc" {
		return n[0]&0x1f == 5
	}
	t := int(n[0]>>1) & 0x3f
	return t >= 16 && t <= 23
}

// drainIndex models lal's start-up probe for the incarnation that starts at P[s0]: the index of the message whose
// processing releases everything queued so far (both an audio and a video message seen, or 16 messages queued).
// -1: the probe never ended while the generated messages were published (the stream is flushed at the end).
func drainIndex(P []pmsg, s0 int) int {
	d, _, _ := probe(P, s0)
	return d
}

// probe also tells which tracks the probe had seen when it ended (these are the tracks the PMT announces; a track
// that starts later is carried on its PID without being announced - lal writes PAT/PMT once per incarnation).
func probe(P []pmsg, s0 int) (d int, seenA, seenV bool) {
	n := 0
	for i := s0; i < len(P) && P[i].inc == P[s0].inc; i++ {
		n++
		switch P[i].rec.Type {
		case gen.TypeAudio:
			seenA = true
		case gen.TypeVideo:
			seenV = true
		}
		if (seenA && seenV) || n >= 16 {
			return i, seenA, seenV
		}
	}
	return -1, seenA, seenV
}

func checkTsConsumer(c Case, P []pmsg, ci int, spec Cons, body []byte, j int) *pbt.Violation {
	who := fmt.Sprintf("consumer %d (ts, inc=%d join_at=%d -> published index %d)", ci, spec.Inc, spec.JoinAt, j)
	if len(body) == 0 || j >= len(P) {
		return nil // nothing was delivered (e.g. G.711-only stream); absence is judged by the marker wait
	}
	if len(body)%188 != 0 {
		return pbt.V("T/partial-packet", "%s: HTTP-TS body is %d bytes, not a whole number of 188-byte packets", who, len(body))
	}
	res, err := tsref.Demux(body, tsref.Options{})
	if err != nil {
		return pbt.V("T/demux-error", "%s: %v", who, err)
	}
	if len(res.Packets) < 2 || res.Packets[0].PID != 0 || len(res.PATs) == 0 || len(res.PMTs) == 0 || res.PATs[0].Packet != 0 || res.PMTs[0].Packet != 1 {
		first := -1
		if len(res.Packets) > 0 {
			first = int(res.Packets[0].PID)
		}
		return pbt.V("D1/ts-not-starting-with-pat-pmt", "%s: the first two packets are not PAT then PMT (first PID %#x, %d PATs, %d PMTs)", who, first, len(res.PATs), len(res.PMTs))
	}
	inc := P[j].inc
	cd := c.Incs[inc].Codecs
	s0 := j
	for s0 > 0 && P[s0-1].inc == inc {
		s0--
	}
	// ---- T-PMT ---------------------------------------------------------------------------------------------------
	var vpid, apid uint16
	hasV, hasA := false, false
	var got []string
	for _, es := range res.PMTs[0].Streams {
		switch {
		case es.StreamType == 0x1b:
			got = append(got, "avc")
			vpid, hasV = es.PID, true
		case es.StreamType == 0x24:
			got = append(got, "hevc")
			vpid, hasV = es.PID, true
		case es.StreamType == 0x0f:
			got = append(got, "aac")
			apid, hasA = es.PID, true
		case es.StreamType == 0x06 && es.Registration() == "Opus":
			got = append(got, "opus")
			apid, hasA = es.PID, true
		default:
			got = append(got, fmt.Sprintf("type-%#x", es.StreamType))
		}
	}
	var want []string
	_, probeA, probeV := probe(P, s0)
	if cd.Video != "" && probeV {
		want = append(want, cd.Video)
	}
	if (cd.Audio == "aac" || cd.Audio == "opus") && probeA {
		want = append(want, cd.Audio)
	}
	if cd.Video != "" && !probeV {
		// the video track started behind the start-up probe: it is not announced, its units arrive on a PID of their own
		for _, pes := range res.PES {
			if !hasA || pes.PID != apid {
				vpid, hasV = pes.PID, true
				break
			}
		}
	}
	if fmt.Sprint(got) != fmt.Sprint(want) {
		return pbt.V("D1/pmt-tracks/ts", "%s: the PMT lists %v, incarnation %d carries %v (codecs %+v)", who, got, inc, want, cd)
	}
	// ---- T-MAP: units -> published indices -----------------------------------------------------------------------
	var units []tsUnit
	lastV, lastA := -1, -1
	for _, pes := range res.PES {
		switch {
		case hasV && pes.PID == vpid:
			nals := lalclient.SplitAnnexB(pes.Payload)
			fw := forwardedNals(cd.Video, nals)
			u := tsUnit{video: true, pes: pes}
			for _, n := range fw {
				if isKeyNal(cd.Video, n) {
					u.key = true
				}
			}
			x := -1
			any := -1
			for i := s0; i < len(P) && P[i].inc == inc; i++ {
				if P[i].kind != "video" {
					continue
				}
				var pn [][]byte
				for _, ns := range P[i].item.Nals {
					pn = append(pn, ns.Bytes())
				}
				if sameNals(forwardedNals(cd.Video, pn), fw) {
					if any < 0 {
						any = i
					}
					if i > lastV {
						x = i
						break
					}
				}
			}
			if x < 0 {
				if any >= 0 {
					return pbt.V("T/duplicated-or-reordered/ts", "%s: video unit (pts %d) is the frame published at index %d, which arrives after the frame of index %d", who, pes.PTS, any, lastV)
				}
				return pbt.V("T/unknown-unit/ts", "%s: video unit (pts %d, %d NAL units, %d bytes) is no video frame published by incarnation %d", who, pes.PTS, len(nals), len(pes.Payload), inc)
			}
			lastV = x
			u.idx = []int{x}
			if v := checkInband(c, P, who, x, cd.Video, nals, u.key); v != nil {
				return v
			}
			units = append(units, u)
		case hasA && pes.PID == apid:
			u := tsUnit{pes: pes}
			var frames [][]byte
			var hdrs [][]byte
			if cd.Audio == "aac" {
				b := pes.Payload
				for len(b) > 0 {
					if len(b) < 7 || b[0] != 0xFF || b[1]&0xF6 != 0xF0 {
						return pbt.V("T/adts-framing/ts", "%s: audio unit (pts %d) is not a sequence of ADTS frames (at offset %d of %d)", who, pes.PTS, len(pes.Payload)-len(b), len(pes.Payload))
					}
					hl := 7
					if b[1]&1 == 0 {
						hl = 9
					}
					fl := int(b[3]&3)<<11 | int(b[4])<<3 | int(b[5])>>5
					if fl < hl || fl > len(b) {
						return pbt.V("T/adts-framing/ts", "%s: audio unit (pts %d): ADTS frame length %d at offset %d of %d", who, pes.PTS, fl, len(pes.Payload)-len(b), len(pes.Payload))
					}
					hdrs = append(hdrs, b[:hl])
					frames = append(frames, b[hl:fl])
					b = b[fl:]
				}
			} else {
				frames = [][]byte{pes.Payload}
				hdrs = [][]byte{nil}
			}
			for fi, f := range frames {
				x := -1
				any := -1
				for i := s0; i < len(P) && P[i].inc == inc; i++ {
					if P[i].kind != "audio" {
						continue
					}
					pl := P[i].rec.Payload
					var raw []byte
					if cd.Audio == "aac" {
						raw = pl[2:]
					} else {
						raw = pl[1:]
					}
					if bytes.Equal(raw, f) {
						if any < 0 {
							any = i
						}
						if i > lastA {
							x = i
							break
						}
					}
				}
				if x < 0 {
					if any >= 0 {
						return pbt.V("T/duplicated-or-reordered/ts", "%s: audio frame %d of the unit with pts %d is the frame published at index %d, which arrives after the frame of index %d", who, fi, pes.PTS, any, lastA)
					}
					return pbt.V("T/unknown-unit/ts", "%s: audio frame %d (%d bytes) of the unit with pts %d is no audio frame published by incarnation %d", who, fi, len(f), pes.PTS, inc)
				}
				lastA = x
				u.idx = append(u.idx, x)
				if cd.Audio == "aac" {
					// D2: the ADTS header reflects the configuration in force
					if ai := inForce(P, x, "ash"); ai >= 0 {
						asc := gen.AscVariant(cd, P[ai].item.Variant)
						obj, fr, ch := int(asc[0]>>3), int(asc[0]&7)<<1|int(asc[1]>>7), int(asc[1]>>3)&0xF
						h := hdrs[fi]
						gobj, gfr, gch := int(h[2]>>6)+1, int(h[2]>>2)&0xF, int(h[2]&1)<<2|int(h[3]>>6)
						if gobj != obj || gfr != fr || gch != ch {
							return pbt.V("D2/stale-adts-config/ts", "%s: AAC frame published at index %d (under the sequence header of index %d, variant %d: object type %d, frequency index %d, channels %d) carries an ADTS header with object type %d, frequency index %d, channels %d",
								who, x, ai, P[ai].item.Variant, obj, fr, ch, gobj, gfr, gch)
						}
					}
				}
			}
			units = append(units, u)
		default:
			return pbt.V("T/undeclared-pid/ts", "%s: PES on PID %#x, which the PMT does not declare", who, pes.PID)
		}
	}
	if len(units) == 0 {
		return nil
	}
	// ---- the join point in emission order -------------------------------------------------------------------------
	jv := j
	if d := drainIndex(P, s0); d < 0 || j <= d {
		jv = s0 // nothing had been written when the consumer joined: everything is live data for it
	}
	gopNum, gopCap := c.TsGop, c.TsGopMax
	if cd.Video == "" {
		return checkTsAudioOnly(P, who, units, cd, jv, s0, gopNum)
	}
	if !hasV {
		return nil
	}
	// ---- D3 -----------------------------------------------------------------------------------------------------
	for _, u := range units {
		if !u.video {
			continue
		}
		if !u.key {
			return pbt.V("D3/first-video-not-key/ts", "%s: first video access unit (published index %d, pts %d) holds no IDR/IRAP unit", who, u.idx[0], u.pes.PTS)
		}
		if !u.pes.RandomAccess {
			return pbt.V("D3/first-video-not-random-access/ts", "%s: first video PES lacks the random-access indicator", who)
		}
		break
	}
	// ---- D4: replay ---------------------------------------------------------------------------------------------
	// split the received units: replay = up to the last video unit published before jv
	lastReplay := -1
	for n, u := range units {
		if u.video && u.idx[0] < jv {
			lastReplay = n
		}
	}
	var replayV []int
	for n := 0; n <= lastReplay; n++ {
		if units[n].video {
			replayV = append(replayV, units[n].idx[0])
		}
	}
	if gopNum == 0 {
		if len(replayV) > 0 {
			return pbt.V("D4/replay-without-cache/ts", "%s: received %d video frames published before the join although GOP caching is off (first: index %d)", who, len(replayV), replayV[0])
		}
		// audio: only the batch that was open at the join may hold frames published before it
		old := 0
		for _, u := range units {
			if !u.video && u.idx[len(u.idx)-1] < jv {
				old++
			}
		}
		allowed := 0
		if cd.Audio == "aac" {
			allowed = 1
		}
		if old > allowed {
			return pbt.V("D4/replay-without-cache/ts", "%s: received %d audio units made only of frames published before the join although GOP caching is off", who, old)
		}
	} else {
		// expected GOPs: video frames of this incarnation before jv, split at key frames
		var gops [][]int
		for i := s0; i < jv; i++ {
			if P[i].kind != "video" {
				continue
			}
			if P[i].key {
				gops = append(gops, []int{i})
			} else if len(gops) > 0 {
				gops[len(gops)-1] = append(gops[len(gops)-1], i)
			}
		}
		if len(gops) > gopNum {
			gops = gops[len(gops)-gopNum:]
		}
		// received replay, split at key frames, with the number of units (audio included) of each part
		type part struct {
			v     []int
			units int
		}
		var parts []part
		for n := 0; n <= lastReplay; n++ {
			u := units[n]
			if u.video && u.key {
				parts = append(parts, part{})
			}
			if len(parts) == 0 {
				if u.video {
					return pbt.V("D3/first-video-not-key/ts", "%s: replay starts with the non-key frame of index %d", who, u.idx[0])
				}
				continue // audio in front of the first replayed GOP
			}
			pp := &parts[len(parts)-1]
			pp.units++
			if u.video {
				pp.v = append(pp.v, u.idx[0])
			}
		}
		// audio units behind the last replayed video frame that hold only frames published before the join may belong to
		// the newest cached GOP as well (or be the batch that was open at the join)
		tailOld := 0
		for n := lastReplay + 1; n < len(units) && !units[n].video; n++ {
			if units[n].idx[len(units[n].idx)-1] < jv {
				tailOld++
			}
		}
		if len(parts) > len(gops) {
			return pbt.V("D4/extra-replay/ts", "%s: the replay holds %d GOPs (video indices %v), the %d most recent GOPs before the join are %v", who, len(parts), replayV, gopNum, gops)
		}
		if len(parts) < len(gops) {
			return pbt.V("D4/gop-replay-mismatch/ts", "%s: the replay holds %d GOPs (video indices %v), expected the %d most recent ones %v", who, len(parts), replayV, len(gops), gops)
		}
		for gi, g := range gops {
			r := parts[gi]
			for k := range r.v {
				if k >= len(g) || r.v[k] != g[k] {
					return pbt.V("D4/gop-replay-mismatch/ts", "%s: replayed GOP %d of %d holds video indices %v, the cached GOP is %v", who, gi, len(gops), r.v, g)
				}
			}
			lo, hi := r.units, r.units
			if gi == len(gops)-1 {
				hi += tailOld
			}
			if len(r.v) < len(g) {
				// cut: must be the cap
				if gopCap == 0 || lo > gopCap+1 || hi < gopCap {
					return pbt.V("D4/gop-replay-mismatch/ts", "%s: replayed GOP %d of %d holds video indices %v (%d..%d units), the cached GOP is %v and the cap is %d units", who, gi, len(gops), r.v, lo, hi, g, gopCap)
				}
			} else if gopCap > 0 && lo > gopCap+1 {
				return pbt.V("D4/cap-exceeded/ts", "%s: replayed GOP %d of %d holds %d units, the cap is %d", who, gi, len(gops), lo, gopCap)
			}
		}
	}
	// ---- T-RUN: live video consecutive ---------------------------------------------------------------------------
	var liveV []int
	for n := lastReplay + 1; n < len(units); n++ {
		if units[n].video {
			liveV = append(liveV, units[n].idx[0])
		}
	}
	if len(liveV) > 0 {
		if len(replayV) > 0 {
			// contiguous with the replay: the first live frame is the first frame published after the join
			first := -1
			for i := jv; i < len(P) && P[i].inc == inc; i++ {
				if P[i].kind == "video" {
					first = i
					break
				}
			}
			if liveV[0] != first {
				return pbt.V("T/gap-after-replay/ts", "%s: the replay (video indices %v) is followed by the frame of index %d, the first video frame published after the join is index %d", who, replayV, liveV[0], first)
			}
		}
		x := liveV[0]
		for _, y := range liveV[1:] {
			nx := -1
			for i := x + 1; i < len(P) && P[i].inc == inc; i++ {
				if P[i].kind == "video" {
					nx = i
					break
				}
			}
			if y != nx {
				return pbt.V("T/skipped/ts", "%s: after the video frame of index %d the next one received is index %d, index %d was skipped", who, x, y, nx)
			}
			x = y
		}
	}
	// live audio: consecutive from the first audio unit that holds a frame published after the join (the audio of a
	// replayed GOP may have been cut by the cap)
	for n := lastReplay + 1; n < len(units); n++ {
		if !units[n].video && units[n].idx[len(units[n].idx)-1] >= jv {
			if v := audioConsecutive(P, who, units[n:], inc, cd); v != nil {
				return v
			}
			break
		}
	}
	return nil
}

// emittableAudio: lal forwards an AAC frame only once a sequence header is known.
func emittableAudio(P []pmsg, i int, cd gen.Codecs) bool {
	if P[i].kind != "audio" {
		return false
	}
	if cd.Audio == "aac" {
		return inForce(P, i, "ash") >= 0
	}
	return true
}

func audioConsecutive(P []pmsg, who string, units []tsUnit, inc int, cd gen.Codecs) *pbt.Violation {
	prev := -1
	for _, u := range units {
		if u.video {
			continue
		}
		for _, x := range u.idx {
			if prev >= 0 {
				nx := -1
				for i := prev + 1; i < len(P) && P[i].inc == inc; i++ {
					if emittableAudio(P, i, cd) {
						nx = i
						break
					}
				}
				if x != nx {
					return pbt.V("T/skipped/ts", "%s: after the audio frame of index %d the next one received is index %d, index %d was skipped", who, prev, x, nx)
				}
			}
			prev = x
		}
	}
	return nil
}

// checkTsAudioOnly: an incarnation without video.  lal treats every audio unit as a GOP of its own: at most gop_num
// units (plus, for AAC, the batch that was open at the join) may consist of frames published before the join; all
// frames are consecutive and the first frame published after the join is there.
func checkTsAudioOnly(P []pmsg, who string, units []tsUnit, cd gen.Codecs, jv, s0, gopNum int) *pbt.Violation {
	inc := P[s0].inc
	old := 0
	for _, u := range units {
		if u.idx[len(u.idx)-1] < jv {
			old++
		}
	}
	allowed := gopNum
	if cd.Audio == "aac" {
		allowed++
	}
	if old > allowed {
		return pbt.V("D4/extra-replay/ts", "%s: audio-only incarnation: %d units consist of frames published before the join, gop_num is %d", who, old, gopNum)
	}
	if v := audioConsecutive(P, who, units, inc, cd); v != nil {
		return v
	}
	first := -1
	for i := jv; i < len(P) && P[i].inc == inc; i++ {
		if emittableAudio(P, i, cd) {
			first = i
			break
		}
	}
	if first >= 0 && units[0].idx[0] > first {
		return pbt.V("D5/held-back-without-video/ts", "%s: the incarnation has no video, the first audio frame published after the join is index %d, the first one received is index %d", who, first, units[0].idx[0])
	}
	return nil
}

// checkInband: D2 for video - a key frame carries the parameter sets in force when it was published.
func checkInband(c Case, P []pmsg, who string, x int, codec string, nals [][]byte, key bool) *pbt.Violation {
	if !key {
		return nil
	}
	var inband [][]byte
	for _, n := range nals {
		if len(n) == 0 {
			continue
		}
		if codec == "avc" {
			if t := n[0] & 0x1f; t == 7 || t == 8 {
				inband = append(inband, n)
			}
		} else if t := int(n[0]>>1) & 0x3f; t >= 32 && t <= 34 {
			inband = append(inband, n)
		}
	}
	if vi := inForce(P, x, "vsh"); vi >= 0 {
		vps, sps, pps := gen.ParamSets(codec, P[vi].item.Variant)
		want := [][]byte{sps, pps}
		if vps != nil {
			want = [][]byte{vps, sps, pps}
		}
		if !sameSets(inband, want) {
			return pbt.V("D2/stale-parameter-sets/ts", "%s: key frame published at index %d (sequence header variant %d at index %d) carries in-band parameter sets %x, want %x", who, x, P[vi].item.Variant, vi, inband, want)
		}
	}
	return nil
}

func sameSets(got, want [][]byte) bool {
	if len(got) < len(want) {
		return false
	}
	// the sets in force must be the LAST ones before the slice data (a frame may also carry its own in-band copies)
	g := got[len(got)-len(want):]
	for i := range want {
		if !bytes.Equal(g[i], want[i]) {
			return false
		}
	}
	return true
}
