package c02

// RTSP-publisher leg of C02 (sub-property rtsp-in-rtsp-out).
//
// An RTSP publisher (ANNOUNCE / SETUP / RECORD, RTP interleaved on the RTSP connection) feeds generated RTP packets
// ONE BY ONE: lal hands every packet to the group as it arrives, so - unlike with an RTMP publisher, whose frames are
// packetised under the group lock - a subscriber's PLAY can be processed between two packets of one access unit, in
// particular between two fragments (FU-A / HEVC FU) of a key frame.  An RTSP subscriber (TCP-interleaved) completes
// DESCRIBE / SETUP / PLAY at a generated packet index; everything is serialised: the publisher's packets [0, JoinAt)
// have been consumed by lal before PLAY is sent, and the PLAY answer has been received (and lal is back in Read on the
// subscriber's connection) before packet JoinAt is written.
//
// Oracle (what the property states for an RTSP consumer, nothing more):
//
//	(R1) DESCRIBE is answered 200 with a parseable SDP that has a video section;
//	(S1) the first video RTP packet the subscriber receives begins a key-frame access unit (GOP boundary):
//	     H.264  single NAL unit of type 5 / 7 / 8, STAP-A whose first NAL unit is 5 / 7 / 8,
//	            FU-A with the start bit and type 5 / 7 / 8;
//	     H.265  single NAL unit VPS / SPS / PPS (32-34) or IRAP (16-21), AP whose first NAL unit is one of those,
//	            FU with the start bit and one of those types.
//	     The payload is decoded from the received bytes alone (no knowledge of the generator).
//
// Deliberately NOT asserted: anything about audio packets (before or after the video start), the order / numbering of
// the packets after the first one, RTCP, that the subscriber is released at the EARLIEST possible boundary (lal does
// not recognise an HEVC AP as a boundary: such a subscriber simply starts at a later one), that parameter sets are
// repeated in-band (they are in the SDP).  A subscriber that receives no video at all inside the guard is reported as
// inconclusive (harness error), never as a violation.
//
// The generator stays inside what lal's IsAvcBoundary / IsHevcBoundary have always claimed: parameter sets travel only
// in front of a key frame, a key frame is one slice NAL unit, no SEI / AUD in front of an IDR, aggregation packets
// start with a parameter set or the IRAP unit.

import (
	"bytes"
	"fmt"
	"testing"
	"time"

	"pgregory.net/rapid"

	"verif/drv/pbt"
	"verif/gen"
	"verif/harness/inproc"
	"verif/harness/lalclient"
	"verif/ref/rtpref"
	"verif/ref/rtspref"
	"verif/ref/sdpref"
)

// key frame layouts
const (
	rrPsSingleIdrFu     = 0 // parameter sets one per packet, then the key NAL unit as fragments
	rrPsAggIdrFu        = 1 // parameter sets in one aggregation packet, then fragments
	rrIdrFu             = 2 // fragments only (parameter sets only in the SDP)
	rrPsSingleIdrSingle = 3 // parameter sets one per packet, key NAL unit in a single packet
	rrAggAll            = 4 // one aggregation packet: parameter sets + key NAL unit
	rrIdrSingle         = 5 // key NAL unit in a single packet, nothing else
	rrPsAggIdrSingle    = 6 // aggregation packet of parameter sets, then single packet
	rrLayouts           = 7
)

var rrLayoutName = []string{"ps-single+key-fu", "ps-agg+key-fu", "key-fu", "ps-single+key-single", "agg(ps+key)", "key-single", "ps-agg+key-single"}

type RRFrame struct {
	Key    bool `json:"key,omitempty"`
	Layout int  `json:"layout,omitempty"` // key frames: one of the rr* layouts
	Fu     bool `json:"fu,omitempty"`     // inter frames: fragmented
	Irap   int  `json:"irap,omitempty"`   // hevc key frames: NAL unit type 16..21
	Len    int  `json:"len"`              // size of the slice NAL unit
	Chunk  int  `json:"chunk"`            // NAL payload bytes per fragment
	// Audio >= 0 (stream has AAC): one AAC packet is sent in front of video packet min(Audio, n) of this frame
	// (n = behind the frame)
	Audio int `json:"audio"`
}

type RRCase struct {
	Video   string    `json:"video"` // "avc" | "hevc"
	Aac     bool      `json:"aac,omitempty"`
	AFirst  bool      `json:"audio_first,omitempty"` // audio is the first media section of the SDP
	Variant int       `json:"variant"`
	Seq     uint16    `json:"seq"`
	Frames  []RRFrame `json:"frames"`
	// PLAY completes after packets [0, JoinAt) of the flattened packet list were consumed by lal (clamped to its length)
	JoinAt int `json:"join_at"`
	// DESCRIBE + SETUP are done after packets [0, SetupAt) (clamped to JoinAt): a subscriber between SETUP and PLAY is
	// written nothing and must not be taken for started
	SetupAt int `json:"setup_at"`
}

type rrPkt struct {
	video   bool
	payload []byte
	ts      uint32
	marker  bool
	frame   int
	role    string // ps | ps-agg | key-fu-first | key-fu-mid | key-fu-last | key-single | key-agg | inter | inter-fu-first | inter-fu-mid | inter-fu-last | audio
}

const rrAacHz = 44100

func rrHarness(err error, what string) {
	if err != nil {
		lalclient.Harness("c02 rtsp-in: %s: %v", what, err)
	}
}

// rrVideoPackets: the RTP payloads of one frame with their roles.
func rrVideoPackets(c RRCase, k int, serial uint32) (pls [][]byte, roles []string) {
	f := c.Frames[k]
	hevc := c.Video == "hevc"
	var hdr []byte
	switch {
	case hevc && f.Key:
		h := rtpref.H265Header(uint8(16+(f.Irap%6+6)%6), 0, 1)
		hdr = h[:]
	case hevc:
		h := rtpref.H265Header(1, 0, 1)
		hdr = h[:]
	case f.Key:
		hdr = []byte{0x65}
	default:
		hdr = []byte{0x41}
	}
	n := f.Len
	if n < len(hdr)+8 {
		n = len(hdr) + 8
	}
	nal := rtpref.BuildNALU(hdr, serial, gen.Bytes(serial, n), n)
	single := func(b []byte) []byte {
		var p []byte
		var err error
		if hevc {
			p, err = rtpref.H265Single(b)
		} else {
			p, err = rtpref.H264Single(b)
		}
		rrHarness(err, "single NAL unit packet")
		return p
	}
	agg := func(nals [][]byte) []byte {
		var p []byte
		var err error
		if hevc {
			p, err = rtpref.H265AP(nals)
		} else {
			p, err = rtpref.H264STAPA(nals)
		}
		rrHarness(err, "aggregation packet")
		return p
	}
	fu := func(b []byte, pre string) {
		chunk := f.Chunk
		if chunk < 1 {
			chunk = 1
		}
		var frs [][]byte
		var err error
		if hevc {
			frs, err = rtpref.H265FU(b, chunk)
		} else {
			frs, err = rtpref.H264FUA(b, chunk)
		}
		rrHarness(err, "fragmentation")
		for i, fr := range frs {
			r := pre + "-fu-mid"
			if i == 0 {
				r = pre + "-fu-first"
			} else if i == len(frs)-1 {
				r = pre + "-fu-last"
			}
			pls, roles = append(pls, fr), append(roles, r)
		}
	}
	if !f.Key {
		if f.Fu {
			fu(nal, "inter")
		} else {
			pls, roles = append(pls, single(nal)), append(roles, "inter")
		}
		return
	}
	vps, sps, pps := gen.ParamSets(c.Video, c.Variant)
	var ps [][]byte
	if hevc {
		ps = [][]byte{vps, sps, pps}
	} else {
		ps = [][]byte{sps, pps}
	}
	lay := (f.Layout%rrLayouts + rrLayouts) % rrLayouts
	switch lay {
	case rrPsSingleIdrFu, rrPsSingleIdrSingle:
		for _, p := range ps {
			pls, roles = append(pls, single(p)), append(roles, "ps")
		}
	case rrPsAggIdrFu, rrPsAggIdrSingle:
		pls, roles = append(pls, agg(ps)), append(roles, "ps-agg")
	}
	switch lay {
	case rrPsSingleIdrFu, rrPsAggIdrFu, rrIdrFu:
		fu(nal, "key")
	case rrAggAll:
		pls, roles = append(pls, agg(append(append([][]byte(nil), ps...), nal))), append(roles, "key-agg")
	default:
		pls, roles = append(pls, single(nal)), append(roles, "key-single")
	}
	return
}

// rrFlatten: the publisher's packets in sending order (without the closing GOP).
func rrFlatten(c RRCase) []rrPkt {
	var out []rrPkt
	ats := uint32(1024)
	for k, f := range c.Frames {
		pls, roles := rrVideoPackets(c, k, uint32(0x52000000+k*16+1))
		ts := uint32(90000 + k*3600)
		apos := -1
		if c.Aac && f.Audio >= 0 {
			apos = f.Audio
			if apos > len(pls) {
				apos = len(pls)
			}
		}
		audio := func() {
			au := gen.Bytes(uint32(0x5a000000+k), 20+k%7)
			pl, err := rtpref.AACHbr.AACPacket([][]byte{au})
			rrHarness(err, "AAC packet")
			out = append(out, rrPkt{video: false, payload: pl, ts: ats, marker: true, frame: k, role: "audio"})
			ats += 1024
		}
		for i := range pls {
			if i == apos {
				audio()
			}
			out = append(out, rrPkt{video: true, payload: pls[i], ts: ts, marker: i == len(pls)-1, frame: k, role: roles[i]})
		}
		if apos == len(pls) {
			audio()
		}
	}
	return out
}

func rrIsKeyFu(r string) bool { return r == "key-fu-first" || r == "key-fu-mid" || r == "key-fu-last" }

// rrBegins: generator-side knowledge (used for classification and for steering the join position only, never by the
// oracle): a packet with which a subscriber may be started.
func rrBegins(r string) bool {
	return r == "ps" || r == "ps-agg" || r == "key-fu-first" || r == "key-single" || r == "key-agg"
}

// rrJoinClass describes where PLAY lands: by the video packets around it.
func rrJoinClass(pk []rrPkt, j int) string {
	prev, next := -1, -1
	for i := j - 1; i >= 0; i-- {
		if pk[i].video {
			prev = i
			break
		}
	}
	for i := j; i < len(pk); i++ {
		if pk[i].video {
			next = i
			break
		}
	}
	switch {
	case next < 0:
		return "after-last-video-packet"
	case prev < 0:
		return "before-first-video-packet"
	}
	p, n := pk[prev], pk[next]
	switch {
	case p.frame == n.frame && rrIsKeyFu(p.role) && rrIsKeyFu(n.role):
		return "between-fragments-of-a-key-frame"
	case p.frame == n.frame && (p.role == "ps" || p.role == "ps-agg") && (n.role == "ps"):
		return "between-parameter-sets"
	case p.frame == n.frame && (p.role == "ps" || p.role == "ps-agg"):
		return "between-parameter-sets-and-key-nal"
	case p.frame == n.frame:
		return "between-fragments-of-an-inter-frame"
	case rrBegins(n.role):
		return "exactly-at-key-frame-start"
	default:
		return "among-inter-frames"
	}
}

func genRR(t *rapid.T) RRCase {
	var c RRCase
	c.Video = []string{"avc", "hevc", "avc"}[rapid.IntRange(0, 2).Draw(t, "video")]
	c.Aac = rapid.IntRange(0, 2).Draw(t, "aac") != 1
	c.AFirst = c.Aac && rapid.IntRange(0, 3).Draw(t, "audioFirst") == 2
	c.Variant = rapid.IntRange(0, 3).Draw(t, "variant")
	c.Seq = uint16(rapid.IntRange(0, 65535).Draw(t, "seq"))
	gops := rapid.IntRange(1, 3).Draw(t, "gops")
	for g := 0; g < gops; g++ {
		n := rapid.IntRange(1, 4).Draw(t, "gopLen")
		for i := 0; i < n; i++ {
			f := RRFrame{Key: i == 0, Audio: -1}
			f.Chunk = rapid.IntRange(40, 300).Draw(t, "chunk")
			if f.Key {
				// fragmented layouts are the common ones (rapid favours small values and the bounds)
				f.Layout = []int{rrPsSingleIdrFu, rrPsAggIdrFu, rrIdrFu, rrPsSingleIdrSingle, rrAggAll, rrIdrSingle, rrPsAggIdrSingle, rrPsSingleIdrFu, rrIdrFu}[rapid.IntRange(0, 8).Draw(t, "layout")]
				f.Irap = rapid.IntRange(0, 5).Draw(t, "irap")
				switch f.Layout {
				case rrPsSingleIdrFu, rrPsAggIdrFu, rrIdrFu:
					f.Len = f.Chunk*rapid.IntRange(1, 5).Draw(t, "frags") + rapid.IntRange(4, 39).Draw(t, "tail")
				default:
					f.Len = rapid.IntRange(12, 600).Draw(t, "len")
				}
			} else {
				f.Fu = rapid.IntRange(0, 3).Draw(t, "interFu") == 1
				if f.Fu {
					f.Len = f.Chunk*rapid.IntRange(1, 3).Draw(t, "frags") + rapid.IntRange(4, 39).Draw(t, "tail")
				} else {
					f.Len = rapid.IntRange(12, 400).Draw(t, "len")
				}
			}
			if c.Aac {
				f.Audio = rapid.IntRange(-1, 8).Draw(t, "audioPos")
			}
			c.Frames = append(c.Frames, f)
		}
	}
	pk := rrFlatten(c)
	// join position: a class is drawn first, then a position of that class (uniform over its positions)
	want := []string{
		"between-fragments-of-a-key-frame", "between-fragments-of-a-key-frame", "between-parameter-sets-and-key-nal", "among-inter-frames",
		"exactly-at-key-frame-start", "", "between-fragments-of-an-inter-frame", "between-parameter-sets", "", "between-fragments-of-a-key-frame",
	}[rapid.IntRange(0, 9).Draw(t, "joinClass")]
	var cand []int
	for j := 0; j <= len(pk); j++ {
		if want == "" || rrJoinClass(pk, j) == want {
			cand = append(cand, j)
		}
	}
	if len(cand) == 0 {
		for j := 0; j <= len(pk); j++ {
			cand = append(cand, j)
		}
	}
	c.JoinAt = cand[int(rapid.Uint32().Draw(t, "joinPick"))%len(cand)]
	c.SetupAt = c.JoinAt
	if c.JoinAt > 0 && rapid.IntRange(0, 3).Draw(t, "setupEarlier") == 1 {
		c.SetupAt = int(rapid.Uint32().Draw(t, "setupPick")) % (c.JoinAt + 1)
	}
	return c
}

const rrStream = "c02rtspin"

// rrBeginsKeyFrame: the oracle.  Does this RTP payload begin a key-frame access unit / GOP?
func rrBeginsKeyFrame(codec string, p []byte) (bool, string) {
	if codec == "hevc" {
		if len(p) < 2 {
			return false, fmt.Sprintf("payload of %d bytes", len(p))
		}
		start := func(t int) bool { return (t >= 32 && t <= 34) || (t >= 16 && t <= 21) }
		typ := int(p[0]>>1) & 0x3f
		switch typ {
		case 48:
			if len(p) < 6 {
				return false, "truncated AP"
			}
			t := int(p[4]>>1) & 0x3f
			return start(t), fmt.Sprintf("AP(first NAL unit type %d)", t)
		case 49:
			if len(p) < 3 {
				return false, "truncated FU"
			}
			t := int(p[2] & 0x3f)
			return p[2]&0x80 != 0 && start(t), fmt.Sprintf("FU(type=%d S=%d E=%d)", t, p[2]>>7, p[2]>>6&1)
		default:
			return start(typ), fmt.Sprintf("NAL unit type %d", typ)
		}
	}
	if len(p) < 1 {
		return false, "empty payload"
	}
	start := func(t int) bool { return t == 5 || t == 7 || t == 8 }
	typ := int(p[0] & 0x1f)
	switch typ {
	case 24:
		if len(p) < 4 {
			return false, "truncated STAP-A"
		}
		t := int(p[3] & 0x1f)
		return start(t), fmt.Sprintf("STAP-A(first NAL unit type %d)", t)
	case 28:
		if len(p) < 2 {
			return false, "truncated FU-A"
		}
		t := int(p[1] & 0x1f)
		return p[1]&0x80 != 0 && start(t), fmt.Sprintf("FU-A(type=%d S=%d E=%d)", t, p[1]>>7, p[1]>>6&1)
	default:
		return start(typ), fmt.Sprintf("NAL unit type %d", typ)
	}
}

func runRR(c RRCase) *pbt.Violation {
	if c.Video != "avc" && c.Video != "hevc" {
		lalclient.Harness("c02 rtsp-in: codec %q", c.Video)
	}
	pk := rrFlatten(c)
	nOwn := len(pk)
	join := c.JoinAt
	if join < 0 {
		join = 0
	}
	if join > len(pk) {
		join = len(pk)
	}
	setupAt := c.SetupAt
	if setupAt < 0 || setupAt > join {
		setupAt = join
	}
	// closing GOP: one packet per parameter set, a single-packet key NAL unit, an inter frame - whatever lal recognises
	// as a boundary, a waiting subscriber is started here at the latest, so that every case ends with an observation
	closing := RRCase{Video: c.Video, Variant: c.Variant, Frames: []RRFrame{{Key: true, Layout: rrPsSingleIdrSingle, Irap: 3, Len: 40, Chunk: 100, Audio: -1}, {Len: 30, Chunk: 100, Audio: -1}}}
	for k := range closing.Frames {
		pls, roles := rrVideoPackets(closing, k, uint32(0xC0DEFA00+k))
		for i := range pls {
			pk = append(pk, rrPkt{video: true, payload: pls[i], ts: uint32(90000 + (len(c.Frames)+k)*3600), marker: i == len(pls)-1, frame: len(c.Frames) + k, role: roles[i]})
		}
	}

	s := inproc.New(inproc.Config{})
	defer s.Close()
	uri := "rtsp://127.0.0.1:5544/live/" + rrStream

	// ---- publisher
	pconn := s.RtspConn()
	_ = pconn.SetReadDeadline(time.Now().Add(lalclient.IdleTimeout))
	pcl := rtspref.NewClient(pconn)
	vps, sps, pps := gen.ParamSets(c.Video, c.Variant)
	vt := rtspref.Track{Media: "video", PT: 96, ClockRate: 90000}
	if c.Video == "hevc" {
		vt.Encoding, vt.Fmtp = "H265", rtspref.H265Fmtp(vps, sps, pps)
	} else {
		vt.Encoding, vt.Fmtp = "H264", rtspref.H264Fmtp(sps, pps)
	}
	tracks := []rtspref.Track{vt}
	pvch, pach := 0, -1
	if c.Aac {
		at := rtspref.Track{Media: "audio", PT: 97, Encoding: "MPEG4-GENERIC", ClockRate: rrAacHz, Channels: 2, Fmtp: rtspref.AacFmtp(gen.Asc(2, 4, 2))}
		if c.AFirst {
			tracks = []rtspref.Track{at, vt}
			pvch, pach = 2, 0
		} else {
			tracks = append(tracks, at)
			pach = 2
		}
	}
	for k := range tracks {
		tracks[k].Control = fmt.Sprintf("streamid=%d", k)
	}
	if r, err := pcl.Publish(uri, tracks); err != nil {
		if v := s.PanicViolation(); v != nil {
			return v
		}
		if r != nil {
			return pbt.V("publish-refused/rtsp-in", "ANNOUNCE/SETUP/RECORD of a valid session description was refused: %v; SDP:\n%s", err, rtspref.BuildSdp(tracks))
		}
		lalclient.Harness("c02 rtsp-in: publish: %v", err)
	}
	_ = pconn.SetReadDeadline(time.Time{})
	if !pconn.WaitPeerIdle(lalclient.IdleTimeout) {
		lalclient.Harness("c02 rtsp-in: lal did not finish RECORD")
	}
	// lal hands the session description to the group in a goroutine of its own (BaseInSession.SetObserver); the first
	// RTP packet of a real client cannot overtake it.  Wait until the group shows the codec (bounded, not judged).
	for deadline := time.Now().Add(lalclient.IdleTimeout); ; {
		if sg := s.SM.StatGroup(rrStream); sg != nil && sg.VideoCodec != "" {
			break
		}
		if v := s.PanicViolation(); v != nil {
			return v
		}
		if time.Now().After(deadline) {
			lalclient.Harness("c02 rtsp-in: the group never showed the publisher's video codec")
		}
		time.Sleep(200 * time.Microsecond)
	}
	vseq := &rtpref.Sequencer{PT: 96, SSRC: 0x02c00001, Seq: c.Seq}
	aseq := &rtpref.Sequencer{PT: 97, SSRC: 0x02c00002, Seq: c.Seq ^ 0x5555}
	feed := func(from, to int) *pbt.Violation {
		for i := from; i < to; i++ {
			p := pk[i]
			var raw []byte
			ch := pvch
			if p.video {
				raw = vseq.Frame([][]byte{p.payload}, p.ts, p.marker)[0].Marshal()
			} else {
				raw, ch = aseq.Frame([][]byte{p.payload}, p.ts, p.marker)[0].Marshal(), pach
			}
			if err := pcl.WriteFrame(ch, raw); err != nil {
				if v := s.PanicViolation(); v != nil {
					return v
				}
				return pbt.V("publisher-disconnected/rtsp-in", "writing packet %d (%s): %v", i, p.role, err)
			}
		}
		if !pconn.WaitPeerIdle(lalclient.IdleTimeout) {
			lalclient.Harness("c02 rtsp-in: lal did not consume the publisher's packets")
		}
		if v := s.PanicViolation(); v != nil {
			return v
		}
		if pconn.PeerGone() {
			return pbt.V("publisher-disconnected/rtsp-in", "lal ended the publishing session while packets [%d,%d) were delivered", from, to)
		}
		return nil
	}

	// ---- subscriber: DESCRIBE + SETUP after setupAt packets, PLAY after join packets
	if v := feed(0, setupAt); v != nil {
		return v
	}
	sconn := s.RtspConn()
	_ = sconn.SetReadDeadline(time.Now().Add(lalclient.DeliverTimeout))
	scl := rtspref.NewClient(sconn)
	inconclusive := func(what string, err error) *pbt.Violation {
		if v := s.PanicViolation(); v != nil {
			return v
		}
		lalclient.Harness("c02 rtsp-in: %s: %v", what, err)
		return nil
	}
	r, err := scl.Describe(uri)
	if err != nil {
		return inconclusive("DESCRIBE", err)
	}
	if r.Status != 200 {
		return pbt.V("R1/describe-refused/rtsp-in", "DESCRIBE of a stream that is being published over RTSP (after %d RTP packets) answered %d %s", setupAt, r.Status, r.Reason)
	}
	sess, err := sdpref.Parse(r.Body)
	var strs []sdpref.Track
	if err == nil {
		strs, err = sess.Tracks()
	}
	if err != nil {
		return pbt.V("R1/sdp-unparseable/rtsp-in", "%v\n%s", err, r.Body)
	}
	vch := -1
	for i, tr := range strs {
		if tr.MediaType == "video" {
			vch = 2 * i
		}
	}
	if vch < 0 {
		return pbt.V("R1/sdp-missing-video/rtsp-in", "the publisher announced %s video but the SDP answered to the subscriber has no video section:\n%s", c.Video, r.Body)
	}
	controls := rtspref.SdpControls(r.Body)
	for i, ctl := range controls {
		rs, err := scl.Do("SETUP", uri+"/"+ctl, map[string]string{"Transport": fmt.Sprintf("RTP/AVP/TCP;unicast;interleaved=%d-%d", 2*i, 2*i+1)}, nil)
		if err != nil {
			return inconclusive("SETUP", err)
		}
		if rs.Status != 200 {
			return pbt.V("R1/setup-play-failed/rtsp-in", "SETUP %s answered %d %s", ctl, rs.Status, rs.Reason)
		}
	}
	if !sconn.WaitPeerIdle(lalclient.IdleTimeout) {
		lalclient.Harness("c02 rtsp-in: lal did not finish SETUP")
	}
	if v := feed(setupAt, join); v != nil {
		return v
	}
	_ = sconn.SetReadDeadline(time.Now().Add(lalclient.DeliverTimeout))
	rp, err := scl.Do("PLAY", uri, map[string]string{"Range": "npt=0.000-"}, nil)
	if err != nil {
		return inconclusive("PLAY", err)
	}
	if rp.Status != 200 {
		return pbt.V("R1/setup-play-failed/rtsp-in", "PLAY answered %d %s", rp.Status, rp.Reason)
	}
	// the answer has been received; lal is back in Read on this connection = the handler of PLAY has returned
	if !sconn.WaitPeerIdle(lalclient.IdleTimeout) {
		lalclient.Harness("c02 rtsp-in: lal did not finish PLAY")
	}
	if v := feed(join, len(pk)); v != nil {
		return v
	}

	// ---- the first video packet received
	_ = sconn.SetReadDeadline(time.Now().Add(lalclient.DeliverTimeout))
	for n := 0; ; n++ {
		f, err := scl.ReadFrame()
		if err != nil {
			return inconclusive(fmt.Sprintf("no video RTP packet reached the subscriber (PLAY after %d of %d packets, %d frames read)", join, len(pk), n), err)
		}
		if f.Channel != vch {
			continue
		}
		p, err := rtpref.Parse(f.Payload)
		if err != nil {
			return pbt.V("rtsp-in/rtp-unparseable", "video channel %d: %v: % x", f.Channel, err, f.Payload[:min(len(f.Payload), 32)])
		}
		ok, what := rrBeginsKeyFrame(c.Video, p.Payload)
		if !ok {
			// which of the publisher's packets is it?
			at, role := -1, "?"
			for i := range pk {
				if pk[i].video && bytes.Equal(pk[i].payload, p.Payload) {
					at, role = i, pk[i].role
					break
				}
			}
			where := "behind the last generated packet"
			if join < nOwn {
				where = rrJoinClass(pk[:nOwn], join)
			}
			return pbt.V("S1/first-video-rtp-not-a-gop-start/rtsp-in/"+c.Video,
				"the first video RTP packet the subscriber received is %s (seq %d, rtp ts %d; the publisher's packet #%d, %s): it does not begin a key frame. PLAY was completed after %d of the publisher's %d packets (%s); packets around the join: %s",
				what, p.Seq, p.TS, at, role, join, len(pk), where, rrAround(pk, join))
		}
		return nil
	}
}

func rrAround(pk []rrPkt, j int) string {
	var b bytes.Buffer
	for i := j - 3; i < j+4 && i < len(pk); i++ {
		if i < 0 {
			continue
		}
		if i == j {
			b.WriteString("| PLAY | ")
		}
		fmt.Fprintf(&b, "#%d:%s(f%d) ", i, pk[i].role, pk[i].frame)
	}
	if j >= len(pk) {
		b.WriteString("| PLAY |")
	}
	return b.String()
}

func classifyRR(c RRCase) (bool, []string) {
	pk := rrFlatten(c)
	j := c.JoinAt
	if j < 0 {
		j = 0
	}
	if j > len(pk) {
		j = len(pk)
	}
	labels := []string{"codec:" + c.Video}
	if c.Aac {
		labels = append(labels, "audio:aac")
		if c.AFirst {
			labels = append(labels, "audio-section-first")
		}
	} else {
		labels = append(labels, "audio:none")
	}
	cls := rrJoinClass(pk, j)
	labels = append(labels, "PLAY:"+cls)
	if j < len(pk) && !pk[j].video {
		labels = append(labels, "PLAY:next-packet-is-audio")
	}
	if c.SetupAt >= 0 && c.SetupAt < j {
		labels = append(labels, "packets-between-SETUP-and-PLAY")
	}
	// the layout of the key frame the join falls into / in front of
	for i := j; i < len(pk); i++ {
		if pk[i].video {
			f := c.Frames[pk[i].frame]
			if f.Key {
				labels = append(labels, "next-video-frame:key:"+rrLayoutName[(f.Layout%rrLayouts+rrLayouts)%rrLayouts])
			} else if f.Fu {
				labels = append(labels, "next-video-frame:inter:fu")
			} else {
				labels = append(labels, "next-video-frame:inter:single")
			}
			break
		}
	}
	// non-trivial: the key-frame gate has to hold something back - the next video packet is not a GOP start
	nt := false
	for i := j; i < len(pk); i++ {
		if pk[i].video {
			nt = !rrBegins(pk[i].role)
			break
		}
	}
	return nt, uniq(labels)
}

func TestRtspInRtspOut(t *testing.T) {
	pbt.Run(t, pbt.Spec[RRCase]{
		ID: "C02", Name: "rtsp-in-rtsp-out", Gen: genRR, Run: runRR, Classify: classifyRR,
		Quick: 400, Thorough: 6000,
	})
}
