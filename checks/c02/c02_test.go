// C02 — every consumer starts decodable: headers, then a key frame, bounded
// GOP replay.
//
// RTMP / HTTP-FLV / HTTP-TS consumers join a generated history (one or two
// incarnations of the same stream name) at generated instants; what each
// receives is decoded by the reference parsers and judged by rules D1–D5 of
// DESIGN.md §3 C02.  (The RTSP leg lives in rtsp_test.go.)
//
// After audit 1: streams carry metadata and re-sent sequence headers inside the
// stream, the AAC configuration may change, audio may be Opus / G.711 mu-law;
// the metadata a consumer is given must be the one in force in ITS incarnation
// (D1/stale-metadata), every header record must stem from an incarnation the
// consumer was attached to (D2/stale-header); HTTP-TS consumers are judged by
// ts_test.go (PES units mapped back to published messages).
//
// Deliberately NOT asserted: exact cap arithmetic (cap and cap+1 both
// accepted); whether headers are re-sent to already attached consumers; that
// the run from the join point is complete for RTMP / FLV (C01).
package c02

import (
	"bytes"
	"fmt"
	"testing"

	"pgregory.net/rapid"

	"verif/drv/pbt"
	"verif/gen"
	"verif/harness/inproc"
	"verif/harness/lalclient"
	"verif/ref/tsref"
)

var _ = fmt.Sprintf

type Cons struct {
	Kind   string `json:"kind"`    // rtmp | flv | ts
	Inc    int    `json:"inc"`     // incarnation during (or before) which it joins
	JoinAt int    `json:"join_at"` // -1: before that incarnation's publisher connects; k: after its items[0..k) were processed
}

type Inc struct {
	Codecs gen.Codecs `json:"codecs"`
	Items  []gen.Item `json:"items"`
}

type Case struct {
	RtmpGop    int    `json:"rtmp_gop"`
	RtmpGopMax int    `json:"rtmp_gop_max"`
	FlvGop     int    `json:"flv_gop"`
	FlvGopMax  int    `json:"flv_gop_max"`
	TsGop      int    `json:"ts_gop"`
	TsGopMax   int    `json:"ts_gop_max"`
	Merge      int    `json:"merge"`
	Incs       []Inc  `json:"incs"`
	Cons       []Cons `json:"cons"`
}

func genCase(t *rapid.T) Case {
	var c Case
	c.RtmpGop = rapid.IntRange(0, 3).Draw(t, "rtmpGop")
	c.RtmpGopMax = rapid.SampledFrom([]int{0, 0, 1, 2, 5}).Draw(t, "rtmpGopMax")
	c.FlvGop = rapid.IntRange(0, 3).Draw(t, "flvGop")
	c.FlvGopMax = rapid.SampledFrom([]int{0, 0, 1, 2, 5}).Draw(t, "flvGopMax")
	c.TsGop = rapid.IntRange(0, 3).Draw(t, "tsGop")
	c.TsGopMax = rapid.SampledFrom([]int{0, 0, 1, 2, 5}).Draw(t, "tsGopMax")
	c.Merge = rapid.SampledFrom([]int{0, 0, 0, 300, 4096}).Draw(t, "merge")
	ninc := rapid.SampledFrom([]int{1, 1, 2}).Draw(t, "ninc")
	for i := 0; i < ninc; i++ {
		o := gen.StreamOpts{Video: []string{"avc", "avc", "hevc", ""}, Audio: []string{"aac", "aac", "aac", "g711a", "g711u", "opus", "opus", ""},
			MaxGops: 5, MaxGopLen: 6, MaxNalLen: 1500, HeaderChurn: true, MultiNal: true, Cts: true,
			MidMeta: true, MidHeaders: true, AscChurn: true}
		cd := gen.GenCodecs(t, o)
		items := gen.GenItems(t, cd, o, uint32(i+1))
		// the HTTP-TS oracle maps demultiplexed frames back to published messages by content: every frame gets room
		// for its serial number (tiny frames are the business of C01 / C05)
		for k := range items {
			switch items[k].Kind {
			case "audio":
				if items[k].ALen < 4 {
					items[k].ALen = 4
				}
			case "video":
				if n := len(items[k].Nals); n > 0 && items[k].Nals[n-1].Len < 5 {
					items[k].Nals[n-1].Len = 5
				}
			}
		}
		// class "video track starts late": an audio-first stream whose first video message is message k > 17 (lal's
		// TS start-up probe has then decided "no video"); the video starts with sequence header + key frame as usual
		if cd.Video != "" && cd.Audio != "" && rapid.IntRange(0, 5).Draw(t, "lateVideo") == 0 {
			k := rapid.SampledFrom([]int{17, 18, 20, 24, 30, 40}).Draw(t, "lateVideoAt") + rapid.IntRange(0, 3).Draw(t, "lateVideoPlus")
			items = lateVideo(items, k, uint32(i+1))
		}
		c.Incs = append(c.Incs, Inc{Codecs: cd, Items: items})
	}
	n := rapid.IntRange(1, 5).Draw(t, "ncons")
	for i := 0; i < n; i++ {
		var k Cons
		k.Kind = rapid.SampledFrom([]string{"rtmp", "flv", "ts"}).Draw(t, "kind")
		k.Inc = rapid.IntRange(0, ninc-1).Draw(t, "inc")
		k.JoinAt = rapid.IntRange(-1, len(c.Incs[k.Inc].Items)).Draw(t, "joinAt")
		if lv := lateVideoAt(c.Incs[k.Inc].Items); lv > 0 && lv+2 < len(c.Incs[k.Inc].Items) && rapid.Bool().Draw(t, "joinInLateVideo") {
			// behind the start of the late video track (mid-GOP, at key frames, ...)
			k.JoinAt = lv + 2 + int(rapid.Uint32().Draw(t, "joinLate"))%(len(c.Incs[k.Inc].Items)-lv-2)
			if rapid.Bool().Draw(t, "lateTs") {
				k.Kind = "ts"
			}
		}
		c.Cons = append(c.Cons, k)
	}
	return c
}

// lateVideo rearranges a generated A/V stream: metadata and the AAC sequence header first, then audio frames until k
// messages precede the video sequence header, then the rest of the stream (video sequence header, key frame, ...) with
// its clock moved behind the audio-only phase.
func lateVideo(items []gen.Item, k int, serialBase uint32) []gen.Item {
	firstFrame := len(items)
	for i, it := range items {
		if it.Kind == "video" || it.Kind == "audio" {
			firstFrame = i
			break
		}
	}
	var head, vsh []gen.Item
	start := uint32(0)
	for _, it := range items[:firstFrame] {
		if it.Kind == "vsh" {
			vsh = append(vsh, it)
			start = it.Ts
		} else {
			head = append(head, it)
		}
	}
	out := append([]gen.Item(nil), head...)
	n := 0
	for len(out) < k {
		n++
		out = append(out, gen.Item{Kind: "audio", Ts: start + uint32(n-1)*23, ALen: 6 + n%40, ASeed: serialBase*100000 + 90000 + uint32(n)})
	}
	shift := uint32(n) * 23
	for _, it := range append(vsh, items[firstFrame:]...) {
		if it.Kind != "meta" || it.Ts != 0 {
			it.Ts += shift
		}
		out = append(out, it)
	}
	return out
}

const streamName = "c02stream"

// published message with bookkeeping
type pmsg struct {
	rec    lalclient.Rec
	kind   string
	key    bool
	inc    int
	item   gen.Item
	marker bool
}

func isHeaderKind(k string) bool { return k == "meta" || k == "vsh" || k == "ash" }

func markerItems(cd gen.Codecs, lastTs uint32, merge int, inc int) []gen.Item {
	serial := uint32(99000000 + inc*10)
	if cd.Video != "" {
		k := []byte{0x65}
		n := []byte{0x41}
		if cd.Video == "hevc" {
			k = []byte{19 << 1, 1}
			n = []byte{1 << 1, 1}
		}
		out := []gen.Item{
			{Kind: "video", Ts: lastTs + 1, Key: true, Nals: []gen.NalSpec{{Hdr: k, Len: 40, Seed: serial, Serial: serial}}},
			{Kind: "video", Ts: lastTs + 2, Nals: []gen.NalSpec{{Hdr: n, Len: merge + 64, Seed: serial + 1, Serial: serial + 1}}},
		}
		if cd.Audio != "" {
			out = append(out, gen.Item{Kind: "audio", Ts: lastTs + 400, ALen: 30, ASeed: serial + 2})
		}
		// tail pad: lal's TS remuxer probes up to 16 messages before it emits anything for a single-track stream
		for i := 0; i < 17; i++ {
			out = append(out, gen.Item{Kind: "video", Ts: lastTs + 401 + uint32(i), Nals: []gen.NalSpec{{Hdr: n, Len: 12, Seed: serial + 3 + uint32(i), Serial: serial + 3 + uint32(i)}}})
		}
		return out
	}
	out := []gen.Item{
		{Kind: "audio", Ts: lastTs + 1, ALen: 40, ASeed: serial},
		{Kind: "audio", Ts: lastTs + 2, ALen: merge + 64, ASeed: serial + 1},
	}
	// tail pad (probe queue) with timestamps far enough apart to flush lal's AAC batching
	for i := 0; i < 17; i++ {
		out = append(out, gen.Item{Kind: "audio", Ts: lastTs + 400 + 200*uint32(i), ALen: 30, ASeed: serial + 2 + uint32(i)})
	}
	return out
}

func run(c Case) *pbt.Violation {
	s := inproc.New(inproc.Config{RtmpGopNum: c.RtmpGop, RtmpGopMaxFrame: c.RtmpGopMax, RtmpMergeWrite: c.Merge,
		FlvGopNum: c.FlvGop, FlvGopMaxFrame: c.FlvGopMax, TsGopNum: c.TsGop, TsGopMaxFrame: c.TsGopMax, DisableRtsp: true})
	defer s.Close()

	var P []pmsg
	type joined struct {
		spec   Cons
		rc     *lalclient.Consumer
		ts     *lalclient.TsConsumer
		j      int // index into P of the first message published after the join
		jInc   int
		endIdx int // index of the marker of the last incarnation it has to see
		tsDone bool
		tsBody []byte
	}
	var cons []*joined
	join := func(i int, jInc int) *pbt.Violation {
		k := c.Cons[i]
		jn := &joined{spec: k, j: len(P), jInc: jInc}
		switch k.Kind {
		case "rtmp":
			jn.rc = lalclient.NewRtmpSub(s, "live", streamName)
		case "flv":
			jn.rc = lalclient.NewFlvSub(s, "live", streamName, false)
		case "ts":
			jn.ts = lalclient.NewTsSub(s, "live", streamName)
		}
		if jn.rc != nil && jn.rc.JoinErr() != nil {
			if v := s.PanicViolation(); v != nil {
				return v
			}
			return pbt.V("join-failed", "consumer %d (%s): %v", i, k.Kind, jn.rc.JoinErr())
		}
		cons = append(cons, jn)
		return nil
	}

	for inc, in := range c.Incs {
		for i, k := range c.Cons {
			if k.Inc == inc && k.JoinAt == -1 {
				if v := join(i, inc); v != nil {
					return v
				}
			}
		}
		p := lalclient.NewPublisher(s, "live", streamName, 4096)
		if p.Err != nil {
			if v := s.PanicViolation(); v != nil {
				return v
			}
			return pbt.V("publish-refused", "incarnation %d: %v", inc, p.Err)
		}
		items := append([]gen.Item(nil), in.Items...)
		lastTs := uint32(0)
		for _, it := range items {
			if it.Kind != "meta" {
				lastTs = it.Ts
			}
		}
		nreal := len(items)
		items = append(items, markerItems(in.Codecs, lastTs, c.Merge, inc)...)
		for k := 0; k <= nreal; k++ {
			sync := false
			for _, cs := range c.Cons {
				if cs.Inc == inc && cs.JoinAt == k {
					sync = true
				}
			}
			if sync {
				if !p.WaitIdle() {
					lalclient.Harness("publisher not drained")
				}
				if v := s.PanicViolation(); v != nil {
					return v
				}
				for i, cs := range c.Cons {
					if cs.Inc == inc && cs.JoinAt == k {
						if v := join(i, inc); v != nil {
							return v
						}
					}
				}
			}
			if k < nreal {
				it := items[k]
				if err := p.SendItem(it, in.Codecs, 0); err != nil {
					if v := s.PanicViolation(); v != nil {
						return v
					}
					return pbt.V("publisher-disconnected", "incarnation %d item %d: %v", inc, k, err)
				}
				pl := it.Payload(in.Codecs)
				if it.Kind == "meta" {
					pl = gen.MetaBody(it.Variant)
				}
				P = append(P, pmsg{rec: lalclient.Rec{Type: it.TypeID(), Ts: it.Ts, Payload: pl}, kind: it.Kind, key: it.Kind == "video" && it.Key, inc: inc, item: it})
			}
		}
		markerIdx := len(P)
		for k := nreal; k < len(items); k++ {
			it := items[k]
			if err := p.SendItem(it, in.Codecs, 0); err != nil {
				if v := s.PanicViolation(); v != nil {
					return v
				}
				return pbt.V("publisher-disconnected", "incarnation %d marker: %v", inc, err)
			}
			P = append(P, pmsg{rec: lalclient.Rec{Type: it.TypeID(), Ts: it.Ts, Payload: it.Payload(in.Codecs)}, kind: it.Kind, key: it.Kind == "video" && it.Key, inc: inc, item: it, marker: k == nreal})
		}
		if !p.WaitIdle() {
			lalclient.Harness("publisher not drained after marker")
		}
		if v := s.PanicViolation(); v != nil {
			return v
		}
		// every attached consumer must see this incarnation's marker (this is what keeps the
		// observation window closed; the *absence* of the marker is reported as held-back)
		mk := P[markerIdx]
		for ci, jn := range cons {
			if jn.tsDone {
				continue
			}
			jn.endIdx = markerIdx
			var ok bool
			if jn.rc != nil {
				ok = jn.rc.WaitFor(func(r lalclient.Rec) bool {
					return r.Type == mk.rec.Type && r.Ts == mk.rec.Ts && bytes.Equal(r.Payload, mk.rec.Payload)
				}, lalclient.DeliverTimeout) >= 0
				if !ok && jn.rc.Err() != nil {
					return pbt.V("framing/"+jn.spec.Kind, "consumer %d: %v", ci, jn.rc.Err())
				}
			} else {
				var needle []byte
				if in.Codecs.Video != "" {
					needle = mk.item.Nals[0].Bytes()
				} else {
					needle = mk.rec.Payload[2:]
				}
				if tsCarries(in.Codecs) {
					ok = jn.ts.WaitPred(func(body []byte) bool { return tsHasPayload(body, needle) }, lalclient.DeliverTimeout)
				} else {
					ok = true // lal does not carry G.711 in TS; nothing to wait for
				}
			}
			if !ok {
				return pbt.V("held-back/"+jn.spec.Kind, "consumer %d (%s, joined incarnation %d at %d) did not receive the end marker of incarnation %d (codecs %+v); records=%d",
					ci, jn.spec.Kind, jn.spec.Inc, jn.spec.JoinAt, inc, in.Codecs, nrecs(jn))
			}
		}
		p.Close()
		p.Conn.WaitPeerDone(lalclient.IdleTimeout)
		// HTTP-TS consumers are judged on the incarnation they joined; they leave when its publisher leaves
		// (what an attached TS consumer sees of a successor with other codecs is not part of C02)
		for _, jn := range cons {
			if jn.ts != nil && !jn.tsDone {
				jn.tsBody = jn.ts.Body()
				jn.tsDone = true
				jn.ts.Close()
				jn.ts.Conn.WaitPeerDone(lalclient.IdleTimeout)
			}
		}
	}
	// consumers that joined after the last publisher left have nothing to check
	for ci, jn := range cons {
		var v *pbt.Violation
		if jn.rc != nil {
			v = checkMsgConsumer(c, P, ci, jn.spec, jn.rc.Recs(), jn.j)
		} else {
			v = checkTsConsumer(c, P, ci, jn.spec, jn.tsBody, jn.j)
		}
		if v != nil {
			return v
		}
	}
	return nil
}

// tsHasPayload demuxes what has arrived so far and looks for needle inside the
// reassembled PES payloads.
func tsHasPayload(body []byte, needle []byte) bool {
	n := len(body) / 188 * 188
	res, err := tsref.Demux(body[:n], tsref.Options{})
	if err != nil || res == nil {
		return false
	}
	for _, p := range res.PES {
		if bytes.Contains(p.Payload, needle) {
			return true
		}
	}
	return false
}

func tsCarries(cd gen.Codecs) bool {
	return cd.Video != "" || cd.Audio == "aac" || cd.Audio == "opus"
}

func nrecs(j interface{}) int { return -1 }

func gopNumFor(c Case, kind string) (int, int) {
	switch kind {
	case "rtmp":
		return c.RtmpGop, c.RtmpGopMax
	case "flv":
		return c.FlvGop, c.FlvGopMax
	default:
		return c.TsGop, c.TsGopMax
	}
}

func eq(a, b lalclient.Rec) bool {
	return a.Type == b.Type && a.Ts == b.Ts && bytes.Equal(a.Payload, b.Payload)
}

// inForce returns the index of the last item of kind k published before index x
// in the same incarnation as x, or -1.
func inForce(P []pmsg, x int, k string) int {
	for i := x - 1; i >= 0 && P[i].inc == P[x].inc; i-- {
		if P[i].kind == k {
			return i
		}
	}
	return -1
}

// checkMsgConsumer judges an RTMP or HTTP-FLV consumer.
func checkMsgConsumer(c Case, P []pmsg, ci int, spec Cons, recs []lalclient.Rec, j int) *pbt.Violation {
	who := fmt.Sprintf("consumer %d (%s, inc=%d join_at=%d -> published index %d)", ci, spec.Kind, spec.Inc, spec.JoinAt, j)
	if j >= len(P) {
		return nil
	}
	// map media (non-header) records to published indices, increasing; header records are matched by content on demand
	type mapped struct {
		rec lalclient.Rec
		idx int // -1 for headers
		hk  string
	}
	var M []mapped
	cur := -1
	for n, r := range recs {
		// header?
		hk := ""
		stale := -1
		for i := range P {
			if isHeaderKind(P[i].kind) && eq(P[i].rec, r) {
				hk = P[i].kind
				if P[i].inc >= P[j].inc {
					stale = -1
					break
				}
				stale = i
			}
		}
		if stale >= 0 {
			// the only published message this record equals belongs to an incarnation that had ended before the consumer joined
			return pbt.V("D2/stale-header/"+hk+"/"+spec.Kind, "%s: record %d %s is the %s published at index %d by incarnation %d, which had left before this consumer joined (incarnation %d)",
				who, n, r, hk, stale, P[stale].inc, P[j].inc)
		}
		if hk != "" {
			M = append(M, mapped{rec: r, idx: -1, hk: hk})
			continue
		}
		found := -1
		for i := cur + 1; i < len(P); i++ {
			if !isHeaderKind(P[i].kind) && eq(P[i].rec, r) {
				found = i
				break
			}
		}
		if found < 0 {
			return pbt.V("unknown-or-repeated-record/"+spec.Kind, "%s: record %d %s is not a published message after published index %d", who, n, r, cur)
		}
		cur = found
		M = append(M, mapped{rec: r, idx: found})
	}
	// D1 + D2 + D3, walking the received stream
	var lastVsh, lastAsh, lastMeta *lalclient.Rec
	firstMedia := true
	seenVideoInInc := map[int]bool{}
	var replay []int
	for n := range M {
		m := M[n]
		if m.idx < 0 {
			r := m.rec
			switch m.hk {
			case "vsh":
				lastVsh = &r
			case "ash":
				lastAsh = &r
			case "meta":
				lastMeta = &r
			}
			continue
		}
		x := m.idx
		pm := P[x]
		if x < j {
			replay = append(replay, x)
		}
		if firstMedia {
			firstMedia = false
			// D1: metadata and sequence headers in force precede the first media frame
			if mi := inForce(P, x, "meta"); mi >= 0 && mi < j {
				if lastMeta == nil {
					return pbt.V("D1/no-metadata/"+spec.Kind, "%s: first media frame (published index %d) arrives before any metadata although metadata was published at index %d", who, x, mi)
				}
			}
			// ... and it is the metadata of this incarnation that is in force now: the latest one published before the
			// join (a replayed frame is older than that) or before the frame itself
			e := x
			if x < j && P[x].inc == P[j].inc {
				e = j
			}
			if mi := inForce(P, e, "meta"); mi >= 0 && (lastMeta == nil || !bytes.Equal(lastMeta.Payload, P[mi].rec.Payload)) {
				return pbt.V("D1/stale-metadata/"+spec.Kind, "%s: the first media frame (published index %d) is preceded by metadata %v, the metadata in force is the one published at index %d (variant %d)",
					who, x, lastMeta, mi, P[mi].item.Variant)
			}
			if vi := inForce(P, x, "vsh"); vi >= 0 && lastVsh == nil {
				return pbt.V("D1/no-video-seq-header/"+spec.Kind, "%s: first media frame (published index %d) arrives before any video sequence header (in force: index %d)", who, x, vi)
			}
			if ai := inForce(P, x, "ash"); ai >= 0 && lastAsh == nil {
				return pbt.V("D1/no-audio-seq-header/"+spec.Kind, "%s: first media frame (published index %d) arrives before any AAC sequence header (in force: index %d)", who, x, ai)
			}
		}
		// D2: the sequence header most recently received equals the one in force when the frame was published
		if pm.kind == "video" {
			if vi := inForce(P, x, "vsh"); vi >= 0 {
				if lastVsh == nil || !bytes.Equal(lastVsh.Payload, P[vi].rec.Payload) {
					return pbt.V("D2/stale-video-seq-header/"+spec.Kind, "%s: video frame published at index %d (under the sequence header of index %d, variant %d) is preceded in the consumer's stream by %v",
						who, x, vi, P[vi].item.Variant, lastVsh)
				}
			}
			// D3: the first video frame of each incarnation the consumer joined into is a key frame
			if !seenVideoInInc[pm.inc] {
				seenVideoInInc[pm.inc] = true
				if pm.inc == P[j].inc && !pm.key {
					if vi := inForce(P, j, "vsh"); vi >= 0 || x < j {
						return pbt.V("D3/first-video-not-key/"+spec.Kind, "%s: first video frame received is published index %d, not a key frame", who, x)
					}
				}
			}
		}
		if pm.kind == "audio" && P[x].rec.Payload[0]>>4 == 10 {
			if ai := inForce(P, x, "ash"); ai >= 0 {
				if lastAsh == nil || !bytes.Equal(lastAsh.Payload, P[ai].rec.Payload) {
					return pbt.V("D2/stale-audio-seq-header/"+spec.Kind, "%s: AAC frame published at index %d is preceded by %v", who, x, lastAsh)
				}
			}
		}
	}
	// D4: replayed frames = most recent cached GOPs
	gopNum, gopCap := gopNumFor(c, spec.Kind)
	if v := checkReplay(P, who, spec.Kind, replay, j, gopNum, gopCap); v != nil {
		return v
	}
	// D5: no video in the current incarnation => never held back
	if inForce(P, j, "vsh") < 0 && !incHasVshBefore(P, j) {
		// first record mapped at >= j must be j itself (headers count too: if P[j] is a header it must be received)
		if isHeaderKind(P[j].kind) {
			ok := false
			for _, m := range M {
				if m.idx < 0 && eq(m.rec, P[j].rec) {
					ok = true
				}
			}
			if !ok {
				return pbt.V("D5/held-back-without-video/"+spec.Kind, "%s: header published at index %d right after the join was not received although the incarnation had no video", who, j)
			}
		} else {
			ok := false
			for _, m := range M {
				if m.idx == j {
					ok = true
				}
			}
			if !ok {
				return pbt.V("D5/held-back-without-video/"+spec.Kind, "%s: message published at index %d right after the join was not received although the incarnation had no video yet", who, j)
			}
		}
	}
	return nil
}

func incHasVshBefore(P []pmsg, j int) bool { return inForce(P, j, "vsh") >= 0 }

// gopsBefore lists the GOPs of P[j]'s incarnation that started before j: each
// is the list of non-header indices from a key frame up to the next key frame,
// cut at j.
func gopsBefore(P []pmsg, j int) [][]int {
	var gops [][]int
	for i := 0; i < j; i++ {
		if P[i].inc != P[j].inc {
			continue
		}
		if P[i].kind == "vsh" {
			// a changed video sequence header invalidates the GOPs cached under its predecessor (they could
			// not be decoded with the header a joiner is given)
			if pv := inForce(P, i, "vsh"); pv >= 0 && !bytes.Equal(P[pv].rec.Payload, P[i].rec.Payload) {
				gops = nil
			}
			continue
		}
		if P[i].kind == "ash" {
			// same for the audio frames of the cached GOPs when the AAC configuration changes
			if pa := inForce(P, i, "ash"); pa >= 0 && !bytes.Equal(P[pa].rec.Payload, P[i].rec.Payload) {
				gops = nil
			}
			continue
		}
		if isHeaderKind(P[i].kind) {
			continue
		}
		if P[i].key {
			gops = append(gops, []int{i})
		} else if len(gops) > 0 {
			gops[len(gops)-1] = append(gops[len(gops)-1], i)
		}
	}
	return gops
}

func checkReplay(P []pmsg, who, kind string, replay []int, j, gopNum, gopCap int) *pbt.Violation {
	if j >= len(P) {
		return nil
	}
	if gopNum == 0 {
		if len(replay) > 0 {
			return pbt.V("D4/replay-without-cache/"+kind, "%s: received %d frames published before the join although GOP caching is off (first: index %d)", who, len(replay), replay[0])
		}
		return nil
	}
	gops := gopsBefore(P, j)
	if len(gops) > gopNum {
		gops = gops[len(gops)-gopNum:]
	}
	// expected: each GOP whole, or cut at cap / cap+1 when longer
	pos := 0
	for gi, g := range gops {
		lo, hi := len(g), len(g)
		if gopCap > 0 && len(g) > gopCap {
			lo, hi = gopCap, gopCap+1
			if hi > len(g) {
				hi = len(g)
			}
		}
		n := 0
		for n < hi && pos+n < len(replay) && replay[pos+n] == g[n] {
			n++
		}
		if n < lo {
			got := -1
			if pos+n < len(replay) {
				got = replay[pos+n]
			}
			return pbt.V("D4/gop-replay-mismatch/"+kind, "%s: cached GOP %d of %d (published indices %v, cap %d): expected index %d at replay position %d, got %d; replay=%v",
				who, gi, len(gops), g, gopCap, g[n], pos+n, got, replay)
		}
		pos += n
	}
	if pos != len(replay) {
		return pbt.V("D4/extra-replay/"+kind, "%s: replay holds %d frames beyond the %d most recent GOPs (extra index %d); replay=%v gops=%v", who, len(replay)-pos, gopNum, replay[pos], replay, gops)
	}
	return nil
}

// lateVideoAt: index of the first video message if more than 16 messages precede it, else 0.
func lateVideoAt(items []gen.Item) int {
	for i, it := range items {
		if it.Kind == "vsh" || it.Kind == "video" {
			if i >= 16 {
				return i
			}
			return 0
		}
	}
	return 0
}

func classify(c Case) (bool, []string) {
	var labels []string
	nt := false
	for ii, in := range c.Incs {
		if lv := lateVideoAt(in.Items); lv > 0 {
			labels = append(labels, "video-starts-late")
			for _, k := range c.Cons {
				if k.Kind == "ts" && k.Inc == ii && k.JoinAt > lv+1 {
					g, _ := gopNumFor(c, "ts")
					if g > 0 {
						labels = append(labels, "video-starts-late:ts-join-after-video-start:cache-on")
					} else {
						labels = append(labels, "video-starts-late:ts-join-after-video-start:cache-off")
					}
					nt = true
				}
			}
		}
	}
	if len(c.Incs) > 1 {
		labels = append(labels, "two-incarnations")
		a, b := c.Incs[0].Codecs, c.Incs[1].Codecs
		if (a.Video == "") != (b.Video == "") || (a.Audio == "") != (b.Audio == "") {
			labels = append(labels, "track-set-changes")
			nt = true
		}
		if a.Video != "" && b.Video == "" {
			labels = append(labels, "av-then-audio-only")
		}
	}
	for _, in := range c.Incs {
		nv := 0
		lastV := -1
		media := false
		for _, it := range in.Items {
			switch it.Kind {
			case "vsh":
				nv++
				if lastV >= 0 && it.Variant != lastV {
					labels = append(labels, "header-change")
				} else if lastV >= 0 && media {
					labels = append(labels, "header-resent-unchanged")
				}
				lastV = it.Variant
			case "ash":
				if media {
					labels = append(labels, "aac-header-mid-stream")
				}
				if it.Variant != 0 {
					labels = append(labels, "aac-config-change")
				}
			case "meta":
				if media {
					labels = append(labels, "metadata-mid-stream")
				}
			case "video", "audio":
				media = true
			}
		}
		labels = append(labels, "shape:"+shape(in.Codecs))
	}
	for _, k := range c.Cons {
		items := c.Incs[k.Inc].Items
		labels = append(labels, "kind:"+k.Kind)
		firstKey := -1
		for i, it := range items {
			if it.Kind == "video" && it.Key {
				firstKey = i
				break
			}
		}
		switch {
		case k.JoinAt < 0:
			labels = append(labels, "join:before-publisher")
		case k.JoinAt >= len(items):
			labels = append(labels, "join:after-last")
		case firstKey >= 0 && k.JoinAt > firstKey:
			labels = append(labels, "join:after-first-key")
			nt = true
			if items[k.JoinAt].Kind == "video" && items[k.JoinAt].Key {
				labels = append(labels, "join:right-before-key")
			}
		default:
			labels = append(labels, "join:in-prologue")
		}
		if k.Inc > 0 {
			labels = append(labels, "join:second-incarnation")
		}
		g, gc := gopNumFor(c, k.Kind)
		if g > 0 {
			labels = append(labels, "gop-cache:"+k.Kind)
			if gc > 0 {
				labels = append(labels, "gop-cap:"+k.Kind)
			}
			if k.Kind == "ts" && firstKey >= 0 && k.JoinAt > firstKey {
				labels = append(labels, "ts-replay:"+shape(c.Incs[k.Inc].Codecs))
			}
		}
	}
	return nt, uniq(labels)
}

func shape(cd gen.Codecs) string {
	switch {
	case cd.Video == "":
		return "audio-only-" + cd.Audio
	case cd.Audio == "":
		return "video-only-" + cd.Video
	}
	return cd.Video + "+" + cd.Audio
}

func uniq(in []string) []string {
	seen := map[string]bool{}
	var out []string
	for _, s := range in {
		if !seen[s] {
			seen[s] = true
			out = append(out, s)
		}
	}
	return out
}

func TestStartDecodable(t *testing.T) {
	pbt.Run(t, pbt.Spec[Case]{
		ID: "C02", Name: "start-decodable", Gen: genCase, Run: run, Classify: classify,
		Quick: 600, Thorough: 6000,
	})
}
