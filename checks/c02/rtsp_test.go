package c02

// RTSP leg of C02: a subscriber that joins an RTMP-published stream over RTSP
// (interleaved) at a generated instant
//
//	(R1) gets a 200 answer to DESCRIBE carrying an SDP whose parameter sets / AAC
//	     config are the ones in force when it was answered;
//	(R2) when the stream carries video, the first video access unit it receives
//	     (all RTP packets of the first video timestamp) contains an IDR / IRAP
//	     unit;
//	(R3) when the stream has no video it is not held back: the first audio frame
//	     published after PLAY completed is received.
//
// Not asserted: the order of tracks in the SDP, payload type numbers, RTCP.

import (
	"bytes"
	"fmt"
	"testing"
	"time"

	"pgregory.net/rapid"

	"verif/drv/pbt"
	"verif/gen"
	"verif/harness/inproc"
	"verif/harness/lalclient"
	"verif/ref/rtpref"
	"verif/ref/rtspref"
	"verif/ref/sdpref"
)

type RtspCase struct {
	Codecs gen.Codecs `json:"codecs"`
	Items  []gen.Item `json:"items"`
	JoinAt int        `json:"join_at"` // PLAY completes after items[0..JoinAt) were processed (>= SdpAt)
	// Prev: an earlier incarnation of the same stream name (other tracks / other parameter sets), published to the
	// end and gone before this one starts: the subscriber must be answered with THIS incarnation's description.
	Prev *Inc `json:"prev,omitempty"`
	// Early: DESCRIBE is sent after items[0..JoinAt) even when lal cannot have an SDP of this incarnation yet; the
	// answer is awaited while the publisher goes on (lal holds the request until the SDP exists).
	Early bool `json:"early,omitempty"`
}

func genRtsp(t *rapid.T) RtspCase {
	var c RtspCase
	o := gen.StreamOpts{Video: []string{"avc", "avc", "hevc", ""}, Audio: []string{"aac", "aac", "g711a", "g711u", "opus", ""}, MaxGops: 4, MaxGopLen: 6, MaxNalLen: 3000, HeaderChurn: true, MultiNal: true, NoMeta: false,
		MidMeta: true, MidHeaders: true}
	c.Codecs, c.Items = gen.GenStream(t, o)
	padForSdp(t, &c)
	c.JoinAt = rapid.IntRange(0, len(c.Items)).Draw(t, "joinAt")
	if r := sdpReadyAt(c); r >= 0 && r < len(c.Items) && rapid.IntRange(0, 3).Draw(t, "joinBehindSdp") == 0 {
		// (the uniform draw is biased towards small values: make sure joins behind the analysis window are common)
		c.JoinAt = r + 1 + int(rapid.Uint32().Draw(t, "joinBehind"))%(len(c.Items)-r)
	}
	// DESCRIBE at JoinAt even if lal cannot have an SDP yet (the request is parked and answered once the SDP exists);
	// otherwise the join is moved behind that instant
	c.Early = rapid.IntRange(0, 3).Draw(t, "early") != 0
	if rapid.IntRange(0, 2).Draw(t, "hasPrev") == 0 {
		cd := gen.GenCodecs(t, o)
		items := gen.GenItems(t, cd, o, 2)
		// make the predecessor's parameter sets differ from the ones this incarnation starts with
		first := -1
		for _, it := range c.Items {
			if it.Kind == "vsh" {
				first = it.Variant
				break
			}
		}
		if first >= 0 && cd.Video == c.Codecs.Video {
			for i := range items {
				for items[i].Kind == "vsh" && sameParamSets(cd.Video, items[i].Variant, first) {
					items[i].Variant++
				}
			}
		}
		c.Prev = &Inc{Codecs: cd, Items: items}
	}
	return c
}

// padForSdp: lal describes a single-track stream only after its analysis window of 16 audio/video messages.  A
// generated single-track stream is continued (same track, same clock) until the SDP exists plus a drawn number of
// further frames, so that every case can be judged and joins behind the window exist - for audio-only streams too.
func padForSdp(t *rapid.T, c *RtspCase) {
	if c.Codecs.Video != "" && c.Codecs.Audio != "" && sdpReadyAt(*c) >= 0 {
		return
	}
	extra := rapid.IntRange(0, 10).Draw(t, "padExtra")
	if c.Codecs.Video == "" {
		extra += 6
	}
	var ts uint32
	for _, it := range c.Items {
		if it.Kind == "video" || it.Kind == "audio" {
			ts = it.Ts
		}
	}
	serial := uint32(300000)
	for n := 0; n < 80 && (sdpReadyAt(*c) < 0 || extra > 0); n++ {
		if sdpReadyAt(*c) >= 0 {
			extra--
		}
		serial++
		if c.Codecs.Video != "" {
			ts += 40
			key := n%6 == 5
			hdr := []byte{0x41}
			switch {
			case c.Codecs.Video == "hevc" && key:
				hdr = []byte{19 << 1, 1}
			case c.Codecs.Video == "hevc":
				hdr = []byte{1 << 1, 1}
			case key:
				hdr = []byte{0x65}
			}
			c.Items = append(c.Items, gen.Item{Kind: "video", Ts: ts, Key: key, Nals: []gen.NalSpec{{Hdr: hdr, Len: 10 + n, Seed: serial, Serial: serial}}, Variant: int(serial)})
		} else {
			ts += 23
			c.Items = append(c.Items, gen.Item{Kind: "audio", Ts: ts, ALen: 8 + n, ASeed: serial})
		}
	}
}

func sameParamSets(codec string, a, b int) bool {
	v1, s1, p1 := gen.ParamSets(codec, a)
	v2, s2, p2 := gen.ParamSets(codec, b)
	return bytes.Equal(v1, v2) && bytes.Equal(s1, s2) && bytes.Equal(p1, p2)
}

const rtspStream = "c02rtsp"

// sdpReadyAt: the number of leading items after which lal has an SDP: both
// tracks' first messages seen, or 16 messages analysed.
func sdpReadyAt(c RtspCase) int {
	// lal's Rtmp2RtspRemuxer: the SDP exists once the video parameter sets AND the audio codec are known, or once 16
	// non-header audio/video messages have been cached for analysis
	seenV, seenA := false, false
	cached := 0
	for i, it := range c.Items {
		switch it.Kind {
		case "vsh":
			seenV = true
		case "ash":
			seenA = true
		case "audio":
			if c.Codecs.Audio != "aac" {
				seenA = true
			}
			cached++
		case "video":
			cached++
		}
		if seenV && seenA {
			return i + 1
		}
		if cached >= 17 {
			return i + 1
		}
	}
	return -1
}

func runRtsp(c RtspCase) *pbt.Violation {
	ready := sdpReadyAt(c)
	if ready < 0 {
		return nil // lal never produces an SDP for this short single-track stream: nothing to join
	}
	join := c.JoinAt
	if join < ready {
		join = ready
	}
	s := inproc.New(inproc.Config{})
	defer s.Close()
	if c.Prev != nil {
		// the predecessor: published to its end (with a tail that makes lal describe even a single-track stream), then gone
		pp := lalclient.NewPublisher(s, "live", rtspStream, 4096)
		if pp.Err != nil {
			return pbt.V("publish-refused", "predecessor: %v", pp.Err)
		}
		lastTs := uint32(0)
		for _, it := range c.Prev.Items {
			if it.Kind != "meta" {
				lastTs = it.Ts
			}
		}
		for k, it := range append(append([]gen.Item(nil), c.Prev.Items...), markerItems(c.Prev.Codecs, lastTs, 0, 5)...) {
			if err := pp.SendItem(it, c.Prev.Codecs, 0); err != nil {
				return pbt.V("publisher-disconnected", "predecessor item %d: %v", k, err)
			}
		}
		pp.WaitIdle()
		if v := s.PanicViolation(); v != nil {
			return v
		}
		pp.Close()
		pp.Conn.WaitPeerDone(lalclient.IdleTimeout)
	}
	p := lalclient.NewPublisher(s, "live", rtspStream, 4096)
	if p.Err != nil {
		return pbt.V("publish-refused", "%v", p.Err)
	}
	describeAt := join
	if c.Early && c.JoinAt < ready {
		describeAt = c.JoinAt
	}
	vshInForce := -1
	// a DESCRIBE that lal holds back is answered at an instant between the request and the moment the model knows the
	// SDP to exist: every sequence header in force during that window is acceptable
	var vshAlso []int
	inWindow := false
	send := func(from, to int) *pbt.Violation {
		for k := from; k < to; k++ {
			if c.Items[k].Kind == "vsh" {
				if inWindow && vshInForce >= 0 {
					vshAlso = append(vshAlso, vshInForce)
				}
				vshInForce = k
			}
			if err := p.SendItem(c.Items[k], c.Codecs, 0); err != nil {
				return pbt.V("publisher-disconnected", "item %d: %v", k, err)
			}
		}
		p.WaitIdle()
		return s.PanicViolation()
	}
	if v := send(0, describeAt); v != nil {
		return v
	}
	conn := s.RtspConn()
	_ = conn.SetReadDeadline(time.Now().Add(lalclient.DeliverTimeout))
	cl := rtspref.NewClient(conn)
	uri := "rtsp://127.0.0.1:5544/live/" + rtspStream
	var r *rtspref.Response
	var err error
	if describeAt < join {
		// the request is in lal's hands before this incarnation can be described; the answer must be this incarnation's
		if r, err = cl.Do("OPTIONS", uri, nil, nil); err == nil {
			_, err = cl.WriteRequest("DESCRIBE", uri, map[string]string{"Accept": "application/sdp"}, nil)
		}
		if err == nil {
			conn.WaitPeerIdle(lalclient.IdleTimeout)
			inWindow = true
			if v := send(describeAt, join); v != nil {
				return v
			}
			r, err = cl.ReadResponse()
		}
	} else {
		r, err = cl.Describe(uri)
	}
	if err != nil || r.Status != 200 {
		if v := s.PanicViolation(); v != nil {
			return v
		}
		return pbt.V("R1/describe-not-answered", "DESCRIBE after %d published messages (SDP expected after %d): err=%v response=%+v", describeAt, ready, err, r)
	}
	sess, err := sdpref.Parse(r.Body)
	if err != nil {
		return pbt.V("R1/sdp-unparseable", "%v\n%s", err, r.Body)
	}
	tracks, err := sess.Tracks()
	if err != nil {
		return pbt.V("R1/sdp-unparseable", "%v\n%s", err, r.Body)
	}
	var vt, at *sdpref.Track
	for i := range tracks {
		if tracks[i].MediaType == "video" {
			vt = &tracks[i]
		}
		if tracks[i].MediaType == "audio" {
			at = &tracks[i]
		}
	}
	if c.Codecs.Video == "" && vt != nil {
		return pbt.V("R1/sdp-stale-track", "this incarnation carries no video (codecs %+v) but the SDP has a video section:\n%s", c.Codecs, r.Body)
	}
	if c.Codecs.Audio == "" && at != nil {
		return pbt.V("R1/sdp-stale-track", "this incarnation carries no audio (codecs %+v) but the SDP has an audio section:\n%s", c.Codecs, r.Body)
	}
	if c.Codecs.Video != "" {
		if vt == nil {
			return pbt.V("R1/sdp-missing-video", "the stream carries %s video but the SDP has no video section:\n%s", c.Codecs.Video, r.Body)
		}
		if vshInForce >= 0 {
			vps, sps, pps := gen.ParamSets(c.Codecs.Video, c.Items[vshInForce].Variant)
			ok := false
			for _, vi := range append([]int{vshInForce}, vshAlso...) {
				vps, sps, pps := gen.ParamSets(c.Codecs.Video, c.Items[vi].Variant)
				ok1 := len(vt.SPS) > 0 && len(vt.PPS) > 0 && bytes.Equal(vt.SPS[len(vt.SPS)-1], sps) && bytes.Equal(vt.PPS[len(vt.PPS)-1], pps)
				if c.Codecs.Video == "hevc" {
					ok1 = ok1 && len(vt.VPS) > 0 && bytes.Equal(vt.VPS[len(vt.VPS)-1], vps)
				}
				ok = ok || ok1
			}
			_ = vps
			if !ok {
				return pbt.V("R1/sdp-stale-parameter-sets", "SDP answered after the sequence header of item %d (variant %d) carries sps=%x pps=%x, want sps=%x pps=%x", vshInForce, c.Items[vshInForce].Variant, vt.SPS, vt.PPS, sps, pps)
			}
		}
	}
	if c.Codecs.Audio == "aac" {
		// the AudioSpecificConfig in force when the SDP was answered: the latest AAC sequence header published before.
		// (The generator keeps the configuration constant inside an incarnation of this leg: a subscriber that joins
		// after a mid-stream change is answered the FIRST configuration - known finding R1/sdp-audio-config/first-config-after-mid-stream-change, replay
		// corpus/c02/known-rtsp-sdp-stale-after-aac-config-change.json; the oracle itself is always active.)
		av, first, changed := 0, -1, false
		for k := 0; k < join; k++ {
			if c.Items[k].Kind == "ash" {
				av = c.Items[k].Variant
				if first < 0 {
					first = av
				} else if av != first {
					changed = true
				}
			}
		}
		want := gen.AscVariant(c.Codecs, av)
		if at == nil || !bytes.Equal(at.Config, want) {
			sig := "R1/sdp-audio-config"
			if changed && at != nil && bytes.Equal(at.Config, gen.AscVariant(c.Codecs, first)) {
				// exactly the registered known finding: the configuration changed mid-stream and the SDP still carries
				// the first one.  Any other wrong audio configuration keeps the plain signature.
				sig = "R1/sdp-audio-config/first-config-after-mid-stream-change"
			}
			return pbt.V(sig, "SDP answered after %d published messages carries audio config %v, the AudioSpecificConfig in force (sequence header variant %d) is %x:\n%s", join, at, av, want, r.Body)
		}
	}
	if err := cl.SetupPlay(uri, rtspref.SdpControls(r.Body)); err != nil {
		return pbt.V("R1/setup-play-failed", "%v", err)
	}
	_ = conn.SetReadDeadline(time.Time{})
	conn.WaitPeerIdle(lalclient.IdleTimeout)
	// channels: track i uses 2i
	vch, ach := -1, -1
	for i, tr := range tracks {
		if tr.MediaType == "video" {
			vch = 2 * i
		} else if tr.MediaType == "audio" {
			ach = 2 * i
		}
	}
	// publish the rest, then an end marker
	firstAudioTs := int64(-1) // ms timestamp of the first audio frame published after PLAY
	for k := join; k < len(c.Items); k++ {
		if firstAudioTs < 0 && c.Items[k].Kind == "audio" {
			firstAudioTs = int64(c.Items[k].Ts)
		}
		if err := p.SendItem(c.Items[k], c.Codecs, 0); err != nil {
			return pbt.V("publisher-disconnected", "item %d: %v", k, err)
		}
	}
	lastTs := uint32(0)
	for _, it := range c.Items {
		if it.Kind != "meta" {
			lastTs = it.Ts
		}
	}
	mk := markerItems(c.Codecs, lastTs, 0, 7)
	for _, it := range mk {
		if firstAudioTs < 0 && it.Kind == "audio" {
			firstAudioTs = int64(it.Ts)
		}
		if err := p.SendItem(it, c.Codecs, 0); err != nil {
			return pbt.V("publisher-disconnected", "marker: %v", err)
		}
	}
	p.WaitIdle()
	if v := s.PanicViolation(); v != nil {
		return v
	}
	var needle []byte
	if c.Codecs.Video != "" {
		needle = mk[0].Nals[0].Bytes()
	} else {
		pl := mk[0].Payload(c.Codecs)
		needle = pl[len(pl)-16:]
	}
	// read frames until the marker shows up
	type fr struct {
		ch int
		pk *rtpref.Packet
	}
	var frames []fr
	_ = conn.SetReadDeadline(time.Now().Add(lalclient.DeliverTimeout))
	found := false
	for !found {
		f, err := cl.ReadFrame()
		if err != nil {
			if v := s.PanicViolation(); v != nil {
				return v
			}
			return pbt.V("held-back/rtsp", "the RTSP subscriber (PLAY after %d of %d messages, codecs %+v) never received the end marker: %v; %d frames so far", join, len(c.Items), c.Codecs, err, len(frames))
		}
		if f.Channel%2 == 1 {
			continue
		}
		pk, err := rtpref.Parse(f.Payload)
		if err != nil {
			return pbt.V("rtsp/rtp-unparseable", "channel %d: %v", f.Channel, err)
		}
		frames = append(frames, fr{f.Channel, pk})
		if bytes.Contains(f.Payload, needle[:min(len(needle), 16)]) {
			found = true
		}
	}
	// R2: first video access unit holds an IDR / IRAP
	if c.Codecs.Video != "" && vch >= 0 {
		var firstTs uint32
		seen := false
		key := false
		for _, f := range frames {
			if f.ch != vch {
				continue
			}
			if !seen {
				firstTs, seen = f.pk.TS, true
			}
			if f.pk.TS != firstTs {
				break
			}
			if rtpCarriesKey(c.Codecs.Video, f.pk.Payload) {
				key = true
			}
		}
		if seen && !key {
			return pbt.V("D3/first-video-not-key/rtsp", "the first video access unit received over RTSP (rtp ts %d; PLAY after %d messages) contains no IDR/IRAP unit", firstTs, join)
		}
	}
	// R3: no video => the first audio frame after PLAY is received
	if c.Codecs.Video == "" && ach >= 0 && firstAudioTs >= 0 && at != nil && at.ClockRate > 0 {
		want := uint32(uint64(firstAudioTs) * uint64(at.ClockRate) / 1000)
		got := false
		var firstGot uint32
		for _, f := range frames {
			if f.ch == ach {
				firstGot, got = f.pk.TS, true
				break
			}
		}
		d := int64(int32(firstGot - want))
		if !got || d < -1 || d > 1 {
			return pbt.V("D5/held-back-without-video/rtsp", "audio-only stream: the first audio frame published after PLAY (ts %d ms = rtp %d at %d Hz) is not the first audio packet received (received=%v rtp ts %d)", firstAudioTs, want, at.ClockRate, got, firstGot)
		}
	}
	return nil
}

// rtpCarriesKey reports whether the RTP payload carries (the start of) an
// IDR / IRAP NAL unit: single NAL, aggregation packet, or first fragment.
func rtpCarriesKey(codec string, p []byte) bool {
	if len(p) < 1 || (codec == "hevc" && len(p) < 2) {
		return false
	}
	if codec == "hevc" {
		typ := int(p[0]>>1) & 0x3f
		isKey := func(t int) bool { return t >= 16 && t <= 23 }
		switch {
		case typ == 48: // AP
			q := p[2:]
			for len(q) >= 2 {
				n := int(q[0])<<8 | int(q[1])
				q = q[2:]
				if n > len(q) || n < 2 {
					break
				}
				if isKey(int(q[0]>>1) & 0x3f) {
					return true
				}
				q = q[n:]
			}
			return false
		case typ == 49: // FU
			return len(p) >= 3 && p[2]&0x80 != 0 && isKey(int(p[2]&0x3f))
		default:
			return isKey(typ)
		}
	}
	typ := int(p[0] & 0x1f)
	switch {
	case typ == 24: // STAP-A
		q := p[1:]
		for len(q) >= 2 {
			n := int(q[0])<<8 | int(q[1])
			q = q[2:]
			if n > len(q) || n < 1 {
				break
			}
			if q[0]&0x1f == 5 {
				return true
			}
			q = q[n:]
		}
		return false
	case typ == 28: // FU-A
		return len(p) >= 2 && p[1]&0x80 != 0 && p[1]&0x1f == 5
	default:
		return typ == 5
	}
}

func min(a, b int) int {
	if a < b {
		return a
	}
	return b
}

func classifyRtsp(c RtspCase) (bool, []string) {
	labels := []string{"shape:" + shape(c.Codecs)}
	if c.Prev != nil {
		labels = append(labels, "second-incarnation")
		a, b := c.Prev.Codecs, c.Codecs
		if (a.Video == "") != (b.Video == "") || (a.Audio == "") != (b.Audio == "") || a.Video != b.Video {
			labels = append(labels, "second-incarnation:other-tracks")
		}
	}
	ready := sdpReadyAt(c)
	if c.Early && ready >= 0 && c.JoinAt < ready {
		labels = append(labels, "describe-before-sdp-exists")
		single := c.Codecs.Video == "" || c.Codecs.Audio == ""
		if single {
			labels = append(labels, "describe-parked-through-analysis-window")
		}
		if c.JoinAt == 0 {
			labels = append(labels, "describe-before-first-message")
		}
	}
	if c.Codecs.Video == "" && ready >= 0 {
		switch {
		case c.JoinAt < ready && c.Early:
			labels = append(labels, "audio-only:describe-parked")
		case c.JoinAt <= ready:
			labels = append(labels, "audio-only:join-at-sdp")
		case c.JoinAt >= len(c.Items):
			labels = append(labels, "audio-only:join-after-last")
		default:
			labels = append(labels, "audio-only:join-mid-stream")
		}
	}
	if ready < 0 {
		return false, append(labels, "no-sdp-yet")
	}
	firstKey := -1
	for i, it := range c.Items {
		if it.Kind == "video" && it.Key {
			firstKey = i
			break
		}
	}
	j := c.JoinAt
	if j < ready {
		j = ready
	}
	nt := false
	switch {
	case j >= len(c.Items):
		labels = append(labels, "join:after-last")
	case firstKey >= 0 && j > firstKey:
		labels = append(labels, "join:after-first-key")
		nt = true
		if c.Items[j].Kind == "video" && c.Items[j].Key {
			labels = append(labels, "join:right-before-key")
		}
	default:
		labels = append(labels, "join:in-prologue")
	}
	nv := 0
	for i, it := range c.Items {
		if it.Kind == "vsh" && i < j {
			nv++
		}
	}
	if nv > 1 {
		labels = append(labels, "header-changed-before-join")
		nt = true
	}
	if c.Codecs.Video == "" || c.Prev != nil {
		nt = true
	}
	return nt, labels
}

func TestRtspStart(t *testing.T) {
	_ = fmt.Sprint
	pbt.Run(t, pbt.Spec[RtspCase]{
		ID: "C02", Name: "rtsp-start", Gen: genRtsp, Run: runRtsp, Classify: classifyRtsp,
		Quick: 1000, Thorough: 12000,
	})
}
