package c10

import (
	"fmt"

	"pgregory.net/rapid"

	"verif/drv/pbt"
	"verif/gen"
)

// ---------------------------------------------------------------------------
// generator
//
// An incarnation is a prologue (metadata, sequence headers) followed by
// "groups": a group is a run of n frames spread over groupDur milliseconds,
// where groupDur is drawn AROUND fragment_duration_ms (multipliers 0.3 .. 12, a
// third of them within +-1 ms of a multiple so that EXTINF values straddle
// x.5 s).  A group normally starts with a key frame (video streams); "missing
// key frame" groups do not, so fragments grow past the target and, beyond ten
// times the target, lal's forced split fires.  Between groups the timeline may
// jump forward (around 10 x fragment duration: the forced-split threshold) or
// backward (around 1000 ms: the backward threshold), for both tracks or for the
// video track only.

var durMult = []int{30, 50, 80, 100, 100, 100, 120, 140, 145, 150, 155, 160, 190, 250, 340, 360, 550, 990, 1200}

func genCodecs(t *rapid.T) gen.Codecs {
	var c gen.Codecs
	c.Video = rapid.SampledFrom([]string{"avc", "avc", "avc", "hevc", "", ""}).Draw(t, "vcodec")
	c.Audio = rapid.SampledFrom([]string{"aac", "aac", "aac", "", "", "opus"}).Draw(t, "acodec")
	if c.Video == "" && c.Audio == "" {
		c.Audio = "aac"
	}
	if c.Video == "hevc" {
		c.Enhanced = rapid.IntRange(0, 3).Draw(t, "enhanced") == 0
	}
	if c.Audio == "aac" {
		c.AscObj, c.AscFreq, c.AscChan = 2, rapid.SampledFrom([]int{4, 3, 11}).Draw(t, "ascFreq"), rapid.SampledFrom([]int{2, 1}).Draw(t, "ascChan")
	}
	return c
}

type incOpts struct {
	fragMs    int
	maxFrames int
	short     bool // few groups, no jumps (a first incarnation that must not wrap the ring)
	maxKeys   int  // with short: upper bound on key frames / audio groups
	serial    uint32
}

func nalLen(t *rapid.T) int {
	// a frame whose TS packets exceed 64 KiB (a 1080p key frame): write paths that treat large blocks differently
	// (seed c10-g: writes >= 64 KiB overtaking buffered PAT/PMT); mid-range value because rapid favours the bounds
	if rapid.IntRange(0, 29).Draw(t, "nalHuge") == 17 {
		return rapid.IntRange(60000, 200000).Draw(t, "nalLenHuge")
	}
	if rapid.IntRange(0, 11).Draw(t, "nalBig") == 0 {
		return rapid.IntRange(200, 2500).Draw(t, "nalLenBig")
	}
	return rapid.IntRange(5, 180).Draw(t, "nalLen")
}

func videoItem(t *rapid.T, cd gen.Codecs, ts uint32, key bool, serial *uint32) gen.Item {
	var hdr []byte
	if cd.Video == "hevc" {
		typ := 1
		if key {
			typ = rapid.SampledFrom([]int{19, 20, 21, 16}).Draw(t, "irap")
		}
		hdr = []byte{byte(typ << 1), 1}
	} else {
		typ := 1
		if key {
			typ = 5
		}
		hdr = []byte{byte(2<<5 | typ)}
	}
	*serial++
	it := gen.Item{Kind: "video", Ts: ts, Key: key, Nals: []gen.NalSpec{{Hdr: hdr, Len: nalLen(t), Seed: *serial, Serial: *serial}}, Variant: int(*serial)}
	if rapid.IntRange(0, 7).Draw(t, "twoSlices") == 0 {
		*serial++
		it.Nals = append(it.Nals, gen.NalSpec{Hdr: hdr, Len: nalLen(t), Seed: *serial, Serial: *serial})
	}
	if rapid.IntRange(0, 9).Draw(t, "hasCts") == 0 {
		it.Cts = rapid.SampledFrom([]uint32{40, 80, 1}).Draw(t, "cts")
	}
	return it
}

func audioItem(t *rapid.T, ts uint32, serial *uint32) gen.Item {
	*serial++
	return gen.Item{Kind: "audio", Ts: ts, ALen: rapid.IntRange(4, 200).Draw(t, "alen"), ASeed: *serial}
}

func genInc(t *rapid.T, o incOpts) Inc {
	cd := genCodecs(t)
	if o.short && cd.Video == "" {
		cd.Video = "avc" // only key frames open segments: the number of segments is bounded by construction
	}
	serial := o.serial
	D := uint32(o.fragMs)
	ts := rapid.SampledFrom([]uint32{0, 0, 1000, 4000, 100000}).Draw(t, "startTs")
	if ts == 4000 {
		ts = rapid.Uint32Range(0, 5000).Draw(t, "startTsRand")
	}
	var items []gen.Item
	if rapid.IntRange(0, 2).Draw(t, "hasMeta") == 0 {
		items = append(items, gen.Item{Kind: "meta", Ts: 0, Variant: 1})
	}
	audioFirst := false
	var pro []gen.Item
	if cd.Video != "" {
		pro = append(pro, gen.Item{Kind: "vsh", Ts: ts, Variant: rapid.IntRange(0, 2).Draw(t, "variant")})
	}
	if cd.Audio == "aac" {
		pro = append(pro, gen.Item{Kind: "ash", Ts: ts})
	}
	if len(pro) == 2 && rapid.IntRange(0, 3).Draw(t, "swapPrologue") == 0 {
		pro[0], pro[1] = pro[1], pro[0]
	}
	if len(pro) == 2 && !o.short && rapid.IntRange(0, 15).Draw(t, "audioBeforeVsh") == 0 {
		// audio frames arrive before the video sequence header: the remuxer lets audio open segments until it has seen one
		audioFirst = true
		if pro[0].Kind == "vsh" {
			pro[0], pro[1] = pro[1], pro[0]
		}
		items = append(items, pro[0])
		n := rapid.IntRange(1, 4).Draw(t, "nAudioFirst")
		for i := 0; i < n; i++ {
			items = append(items, audioItem(t, ts+uint32(i)*23, &serial))
		}
		items = append(items, pro[1])
	} else {
		items = append(items, pro...)
	}
	_ = audioFirst

	ngroups := rapid.IntRange(1, 40).Draw(t, "ngroups")
	if o.short {
		ngroups = rapid.IntRange(1, o.maxKeys).Draw(t, "ngroupsShort")
	}
	aTs := ts
	aStep := rapid.SampledFrom([]uint32{23, 23, 46, 100, 200}).Draw(t, "aStep")
	maxPerGroup := rapid.SampledFrom([]int{1, 2, 3, 6, 12}).Draw(t, "maxPerGroup")
	keyMissingPct := rapid.SampledFrom([]int{0, 0, 10, 30, 90}).Draw(t, "keyMissingPct")
	jumpPct := rapid.SampledFrom([]int{0, 0, 5, 15}).Draw(t, "jumpPct")
	// a lagging audio track falls behind the video track by more than lal's backward threshold: every
	// alternation between the tracks then forces a split
	laggingAudio := !o.short && rapid.IntRange(0, 11).Draw(t, "laggingAudio") == 0
	// the audio track may run ahead of the video track (audio of the next few hundred milliseconds is published,
	// and sits in lal's AAC cache, before the video frame that opens a segment arrives)
	audioLead := uint32(0)
	if !o.short && !laggingAudio {
		audioLead = rapid.SampledFrom([]uint32{0, 0, 0, 60, 140, 250}).Draw(t, "audioLead")
	}
	// the first key frame arrives late: the leading groups hold no key frame
	lateKeyGroups := 0
	if !o.short && cd.Video != "" && rapid.IntRange(0, 6).Draw(t, "lateFirstKey") == 0 {
		lateKeyGroups = rapid.IntRange(2, 7).Draw(t, "lateKeyGroups")
	}
	if o.short {
		keyMissingPct, jumpPct = 0, 0
	}
	frames := 0
	for g := 0; g < ngroups && frames < o.maxFrames; g++ {
		// duration of this group, around the fragment target
		m := uint32(rapid.SampledFrom(durMult).Draw(t, "durMult"))
		gd := D * m / 100
		switch rapid.IntRange(0, 5).Draw(t, "durEdge") {
		case 0:
			gd++
		case 1:
			if gd > 1 {
				gd--
			}
		case 2:
			gd += uint32(rapid.IntRange(0, int(D/4)+1).Draw(t, "durJitter"))
		}
		if o.short && gd > 8*D {
			gd = 8 * D
		}
		if gd == 0 {
			gd = 1
		}
		n := rapid.IntRange(1, maxPerGroup).Draw(t, "groupLen")
		if cd.Video == "" {
			// audio-only: the AAC batching needs several frames to emit anything
			n = rapid.IntRange(1, maxPerGroup+2).Draw(t, "groupLenA")
		}
		step := gd / uint32(n)
		key := true
		if cd.Video != "" && g > 0 && rapid.IntRange(0, 99).Draw(t, "keyMissing") < keyMissingPct {
			key = false
		}
		if cd.Video != "" && g == 0 && !o.short && rapid.IntRange(0, 11).Draw(t, "startsWithoutKey") == 0 {
			key = false
		}
		if g < lateKeyGroups {
			key = false
		}
		for f := 0; f < n; f++ {
			if cd.Video != "" {
				items = append(items, videoItem(t, cd, ts, key && f == 0, &serial))
				frames++
				if cd.Audio != "" {
					if !laggingAudio && aTs+2*aStep < ts {
						aTs = ts - 2*aStep // the audio track stays close to the video track
					}
					for k := 0; k < 3 && aTs <= ts+audioLead; k++ {
						items = append(items, audioItem(t, aTs, &serial))
						frames++
						aTs += aStep
					}
				}
			} else {
				items = append(items, audioItem(t, ts, &serial))
				frames++
			}
			if f == n-1 {
				ts += gd - step*uint32(n-1)
			} else {
				ts += step
			}
		}
		// timeline jump between groups
		if rapid.IntRange(0, 99).Draw(t, "jump") < jumpPct {
			follow := rapid.IntRange(0, 3).Draw(t, "audioFollows") != 0
			if rapid.Bool().Draw(t, "jumpForward") {
				by := rapid.SampledFrom([]uint32{10*D - 1, 10 * D, 10*D + 1, 10*D + 500, 50 * D}).Draw(t, "jumpFwdBy")
				ts += by
			} else {
				by := rapid.SampledFrom([]uint32{999, 1000, 1001, 1002, 5000, 3 * D}).Draw(t, "jumpBackBy")
				if by > ts {
					by = ts
				}
				ts -= by
			}
			if follow {
				aTs = ts
				if cd.Video != "" && cd.Audio != "" && rapid.Bool().Draw(t, "audioFirstAfterJump") {
					// the first message on the new time base is an audio frame
					items = append(items, audioItem(t, aTs, &serial))
					frames++
					aTs += aStep
				}
			}
		}
	}
	return Inc{Codecs: cd, Items: items}
}

func genCase(t *rapid.T) Case {
	var c Case
	c.Class = rapid.SampledFrom([]string{"single", "single", "single", "single", "single", "republish", "republish", "republish", "republish", "race"}).Draw(t, "class")
	if c.Class == "race" && !pbt.Thorough() && rapid.IntRange(0, 2).Draw(t, "raceInQuick") != 0 {
		c.Class = "republish" // real waits are rare in the quick tier
	}
	c.FragMs = rapid.OneOf(rapid.SampledFrom([]int{1000, 100, 500, 200, 3000, 2000, 100}), rapid.IntRange(100, 3000)).Draw(t, "fragMs")
	c.FragNum = rapid.IntRange(1, 6).Draw(t, "fragNum")
	c.DelThr = rapid.IntRange(0, 4).Draw(t, "delThr")
	// lal imposes no limits on these settings (delete_threshold even defaults to fragment_num): beyond the
	// documented ranges
	switch rapid.IntRange(0, 15).Draw(t, "wideConfig") {
	case 0:
		c.FragMs = rapid.OneOf(rapid.IntRange(3001, 12000), rapid.IntRange(20, 99)).Draw(t, "fragMsWide")
	case 1:
		c.FragNum = rapid.IntRange(7, 12).Draw(t, "fragNumWide")
	case 2:
		c.DelThr = rapid.IntRange(5, 12).Draw(t, "delThrWide")
	case 3:
		c.FragNum = rapid.IntRange(5, 12).Draw(t, "fragNumWide2")
		c.DelThr = rapid.IntRange(5, 12).Draw(t, "delThrWide2")
	}
	c.Cleanup = rapid.IntRange(0, 2).Draw(t, "cleanup")
	c.ChunkSize = rapid.SampledFrom([]int{4096, 4096, 128, 60000}).Draw(t, "chunk")
	maxFrames := 110
	if pbt.Thorough() {
		maxFrames = rapid.SampledFrom([]int{110, 110, 200, 400}).Draw(t, "maxFrames")
	}
	switch c.Class {
	case "single":
		c.Incs = []Inc{genInc(t, incOpts{fragMs: c.FragMs, maxFrames: maxFrames, serial: 100000})}
	case "republish":
		n := rapid.SampledFrom([]int{2, 2, 2, 3}).Draw(t, "nincs")
		for i := 0; i < n; i++ {
			o := incOpts{fragMs: c.FragMs, maxFrames: maxFrames / n * 2, serial: uint32(i+1) * 100000}
			if i < n-1 && rapid.IntRange(0, 2).Draw(t, "shortPredecessor") == 0 {
				// a predecessor that cannot advance the media sequence: at most fragment_num key frames (the others
				// run into the known finding H2/media-sequence-restarts-on-republish, which the oracle reports
				// with the lowest priority)
				o.short, o.maxKeys = true, c.FragNum
			}
			c.Incs = append(c.Incs, genInc(t, o))
		}
	case "race":
		// the delayed cleanup (modes 1 and 2: fragment_duration_ms * (fragment_num + delete_threshold) after the
		// stream ended) fires before / during / after the re-publish: real waits
		c.FragMs = rapid.SampledFrom([]int{100, 120, 150}).Draw(t, "raceFragMs")
		c.FragNum = rapid.IntRange(1, 2).Draw(t, "raceFragNum")
		c.DelThr = rapid.IntRange(0, 1).Draw(t, "raceDelThr")
		c.Cleanup = rapid.IntRange(1, 2).Draw(t, "raceCleanup")
		kind := rapid.SampledFrom([]string{"during", "before", "after", "during"}).Draw(t, "raceKind")
		for i := 0; i < 2; i++ {
			o := incOpts{fragMs: c.FragMs, maxFrames: 60, serial: uint32(i+1) * 100000}
			if i == 0 && kind != "before" && rapid.Bool().Draw(t, "raceShortPredecessor") {
				// the playlist survives until the successor starts: half of the predecessors cannot advance the
				// media sequence (known finding); the cleanup is scheduled by the leave in any case
				o.short, o.maxKeys = true, c.FragNum
			}
			c.Incs = append(c.Incs, genInc(t, o))
		}
		wait := c.cleanupDelayMs() + 150
		switch kind {
		case "before":
			c.GapMs = []int{wait}
		case "during":
			c.Incs[1].HoldAt = rapid.IntRange(0, len(c.Incs[1].Items)).Draw(t, "holdAt")
			c.Incs[1].HoldMs = wait
		case "after":
			c.TailMs = wait
		}
	}
	return c
}

// ---------------------------------------------------------------------------
// static analysis of a case (classification)

type incFacts struct {
	diverge    bool // two frames adjacent in publish order lie more than 900 ms apart on lal's (per-track rebased) timeline
	media      int  // audio + video frames
	keys       int
	spacedKeys int // key frames (audio-only: audio frames) at least fragment_duration apart
	jumpsFwd   int
	jumpsBack  int
	longRun    bool // a stretch of more than 10 x fragment duration without key frame
	audioFirst bool
	firstIsKey bool
}

func facts(in Inc, fragMs int) incFacts {
	var f incFacts
	D := int64(fragMs)
	seenVsh := false
	var lastV, lastA, lastKey, lastSpaced int64 = -1, -1, -1, -1
	firstVideo := true
	var baseV, baseA, lastAny int64 = -1, -1, -1
	for _, it := range in.Items {
		ts := int64(it.Ts)
		if it.Kind == "video" || it.Kind == "audio" {
			// lal rebases each track on its own first timestamp (smaller timestamps are left as they are)
			r := ts
			if it.Kind == "video" {
				if baseV < 0 {
					baseV = ts
				}
				if ts >= baseV {
					r = ts - baseV
				}
			} else {
				if baseA < 0 {
					baseA = ts
				}
				if ts >= baseA {
					r = ts - baseA
				}
			}
			if lastAny >= 0 && (r-lastAny > 900 && r-lastAny > 9*D || lastAny-r > 900) {
				f.diverge = true
			}
			lastAny = r
		}
		switch it.Kind {
		case "vsh":
			seenVsh = true
		case "video":
			f.media++
			if firstVideo {
				f.firstIsKey = it.Key
				firstVideo = false
			}
			if lastV >= 0 {
				if ts-lastV > 10*D {
					f.jumpsFwd++
				}
				if lastV-ts > 1000 {
					f.jumpsBack++
				}
			}
			lastV = ts
			if it.Key {
				f.keys++
				if lastSpaced < 0 || ts-lastSpaced >= D {
					f.spacedKeys++
					lastSpaced = ts
				}
				lastKey = ts
			} else if lastKey >= 0 && ts-lastKey > 10*D {
				f.longRun = true
			}
		case "audio":
			f.media++
			if in.Codecs.Video != "" && !seenVsh {
				f.audioFirst = true
			}
			if lastA >= 0 {
				if ts-lastA > 10*D {
					f.jumpsFwd++
				}
				if lastA-ts > 1000 {
					f.jumpsBack++
				}
			}
			lastA = ts
			if in.Codecs.Video == "" {
				f.keys++
				if lastSpaced < 0 || ts-lastSpaced >= D {
					f.spacedKeys++
					lastSpaced = ts
				}
			}
		}
	}
	return f
}

// cachedAudioShapes labels the three ways in which lal's AAC cache can hold audio
// that lies more than 10 x fragment_duration after the start of the previous
// segment at the instant a video frame opens a new segment (the re-entrant
// FlushAudio -> FeedMpegts path inside openFragment then sees a frame that
// qualifies for a forced split).
func cachedAudioShapes(in Inc, fragMs int) []string {
	if in.Codecs.Video == "" || in.Codecs.Audio != "aac" {
		return nil
	}
	D := int64(fragMs)
	var out []string
	add := func(l string) {
		for _, x := range out {
			if x == l {
				return
			}
		}
		out = append(out, l)
	}
	var firstMedia, lastKey, lastVideo, lastMedia int64 = -1, -1, -1, -1
	var pendingAudio int64 = -1 // newest audio frame published since the last video frame
	jumpAudio := int64(-1)      // an audio frame that came first after a forward jump of both tracks
	seenKey := false
	for _, it := range in.Items {
		ts := int64(it.Ts)
		switch it.Kind {
		case "audio":
			if firstMedia < 0 {
				firstMedia = ts
			}
			if lastMedia >= 0 && ts-lastMedia > 10*D && lastVideo >= 0 && ts-lastVideo > 10*D {
				jumpAudio = ts
			}
			pendingAudio = ts
			lastMedia = ts
		case "video":
			if firstMedia < 0 {
				firstMedia = ts
			}
			if jumpAudio >= 0 && ts >= jumpAudio && ts-jumpAudio < 300 {
				add("cached-audio:audio-first-after-forward-jump")
			}
			jumpAudio = -1
			if it.Key && !seenKey {
				seenKey = true
				if pendingAudio >= 0 && pendingAudio-firstMedia > 10*D && ts-pendingAudio < 300 {
					add("cached-audio:first-key-frame-later-than-10-fragments")
				}
			}
			if it.Key {
				lastKey = ts
			} else if lastKey >= 0 && ts-lastKey > 10*D && pendingAudio >= ts && pendingAudio-ts < 300 {
				add("cached-audio:long-gop-with-audio-ahead")
			}
			pendingAudio = -1
			lastVideo, lastMedia = ts, ts
		}
	}
	return out
}

func shape(cd gen.Codecs) string {
	switch {
	case cd.Video == "":
		return "audio-only-" + cd.Audio
	case cd.Audio == "":
		return "video-only-" + cd.Video
	}
	return cd.Video + "+" + cd.Audio
}

func classify(c Case) (bool, []string) {
	labels := []string{
		fmt.Sprintf("cleanup:%d", c.Cleanup), fmt.Sprintf("fragment_num:%d", c.FragNum), fmt.Sprintf("delete_threshold:%d", c.DelThr),
		fmt.Sprintf("incarnations:%d", len(c.Incs)), "class:" + c.Class,
	}
	if c.FragNum > 6 {
		labels[1] = "fragment_num:7-12"
	}
	if c.DelThr > 4 {
		labels[2] = "delete_threshold:5-12"
	}
	if c.FragNum+c.DelThr+1 > 11 {
		labels = append(labels, "ring-larger-than-documented-maximum")
	}
	for _, in := range c.Incs {
		for _, it := range in.Items {
			for _, n := range it.Nals {
				if n.Len >= 60000 {
					labels = append(labels, "frame-above-64KiB-of-ts")
				}
			}
		}
	}
	switch {
	case c.FragMs < 100:
		labels = append(labels, "fragment_ms:20-99")
	case c.FragMs > 3000:
		labels = append(labels, "fragment_ms:3001-12000")
	case c.FragMs <= 150:
		labels = append(labels, "fragment_ms:100-150")
	case c.FragMs < 1000:
		labels = append(labels, "fragment_ms:151-999")
	case c.FragMs < 3000:
		labels = append(labels, "fragment_ms:1000-2999")
	default:
		labels = append(labels, "fragment_ms:3000")
	}
	nt := false
	for i, in := range c.Incs {
		f := facts(in, c.FragMs)
		labels = append(labels, "shape:"+shape(in.Codecs))
		wrap := f.spacedKeys >= c.FragNum+c.DelThr+3
		if wrap {
			labels = append(labels, "ring-wraps")
			if c.Cleanup == 2 {
				labels = append(labels, "ring-wraps-with-deletion")
			}
			if i > 0 {
				labels = append(labels, "ring-wraps-in-successor")
			}
		}
		if f.jumpsFwd > 0 {
			labels = append(labels, "jump-forward")
		}
		if f.jumpsBack > 0 {
			labels = append(labels, "jump-backward")
		}
		if f.longRun {
			labels = append(labels, "no-key-frame-for-10-fragments")
		}
		if f.audioFirst {
			labels = append(labels, "audio-before-video-header")
		}
		if f.diverge && f.jumpsFwd+f.jumpsBack == 0 {
			labels = append(labels, "tracks-apart-beyond-threshold")
		}
		if in.Codecs.Video != "" && !f.firstIsKey {
			labels = append(labels, "starts-without-key-frame")
		}
		if f.keys == 0 && in.Codecs.Video != "" {
			labels = append(labels, "no-key-frame-at-all")
		}
		if in.HoldMs > 0 {
			labels = append(labels, "race:cleanup-fires-while-successor-live")
		}
		labels = append(labels, cachedAudioShapes(in, c.FragMs)...)
		if i > 0 && facts(c.Incs[i-1], c.FragMs).spacedKeys > c.FragNum+1 {
			labels = append(labels, "successor-of-a-predecessor-that-advanced-the-sequence")
		}
		if wrap || f.jumpsFwd+f.jumpsBack > 0 || f.longRun || f.diverge {
			nt = true
		}
	}
	for i := range c.GapMs {
		if c.GapMs[i] > 0 {
			labels = append(labels, "race:cleanup-fires-before-republish")
		}
	}
	if c.TailMs > 0 {
		labels = append(labels, "race:cleanup-fires-after-last-leave")
	}
	seen := map[string]bool{}
	var out []string
	for _, l := range labels {
		if !seen[l] {
			seen[l] = true
			out = append(out, l)
		}
	}
	return nt, out
}
