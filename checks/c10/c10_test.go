// C10 — HLS playlists and segments are consistent at every instant.
//
// A reference RTMP publisher feeds generated elementary streams (one to three
// incarnations of the same stream name) into a real in-process lal server whose
// HLS muxer writes through an instrumented file-system layer
// (harness/hlsfs).  The layer calls the oracle after EVERY SINGLE file-system
// operation — on every prefix of the operation sequence, which is what a crash
// point or a concurrent HTTP reader can observe.  Rules (DESIGN.md §3 C10):
//
//	H1 playlist.m3u8, if present, parses as a complete media playlist (ref/m3u8ref)
//	H2 its media sequence never decreases while the file continuously exists, and the
//	   sequence numbers follow the order of production: listed segments appear in the
//	   order in which they were created, without skipping one, and a segment keeps
//	   its number from one playlist version to the next
//	H3 target duration >= round(EXTINF) for every listed segment
//	H4 every listed segment exists, is a whole number of 188-byte packets, begins
//	   with PAT then PMT and — stream with video — its first video access unit is a
//	   key frame unless the entry carries EXT-X-DISCONTINUITY AND the published
//	   frames themselves explain the forced split (judged from the case, not from
//	   lal's tag: one of the first two units of the segment lies more than
//	   10 x fragment_duration after, or more than 1000 ms before, one of the first
//	   two units of the segment before it); the first segment of an incarnation
//	   must start at a key frame that carries the parameter sets in force and hold
//	   nothing of another incarnation
//	H5 every segment listed in the current or any of the previous delete_threshold
//	   playlist versions still exists
//	H6 (end of each incarnation) the segments in sequence order (= creation order,
//	   see H2; every segment must have been listed), minus their PAT/PMT heads,
//	   equal the TS packet stream produced since the first segment was opened
//	   (simultaneous TS recording) — each packet once, in order
//	H7 after the publisher left the live playlist ends with EXT-X-ENDLIST and, for
//	   cleanup modes 0/1, record.m3u8 lists every segment produced since the
//	   directory was (re)created
//	H8 the delayed cleanup never removes the directory of a live stream
//
// Deliberately NOT asserted: file naming, EXTINF precision (only its relation
// to the target duration), anything about the .bak files, whether the segment
// that is currently open is listed, well-formedness of record.m3u8 at
// intermediate instants, that the live playlist lacks ENDLIST while live, PTS /
// continuity counters inside the segments (C06/C09), and — because the media
// sequence legitimately restarts when the directory was cleaned between two
// incarnations — monotonicity across an instant at which the playlist did not
// exist.  An EXTINF exactly half-way between two integers may be rounded either
// way.
package c10

import (
	"bytes"
	"fmt"
	"os"
	"path/filepath"
	"strings"
	"testing"
	"time"

	"verif/drv/pbt"
	"verif/gen"
	"verif/harness/hlsfs"
	"verif/harness/inproc"
	"verif/harness/lalclient"
	"verif/ref/m3u8ref"
	"verif/ref/tsref"
)

const (
	streamName = "c10stream"
	pktSize    = 188

	// the known finding: a re-published stream starts its media sequence at 0 again although the
	// playlist file of the previous incarnation is still there
	sigSeqRestart = "H2/media-sequence-restarts-on-republish"
)

// Inc is one incarnation (publish ... leave) of the stream.
type Inc struct {
	Codecs gen.Codecs `json:"codecs"`
	Items  []gen.Item `json:"items"`
	// real-time pause while the publisher is attached, taken before Items[HoldAt] is sent (HoldMs > 0)
	HoldAt int `json:"hold_at,omitempty"`
	HoldMs int `json:"hold_ms,omitempty"`
}

type Case struct {
	FragMs    int    `json:"fragment_duration_ms"`
	FragNum   int    `json:"fragment_num"`
	DelThr    int    `json:"delete_threshold"`
	Cleanup   int    `json:"cleanup_mode"`
	ChunkSize int    `json:"chunk_size"`
	Incs      []Inc  `json:"incs"`
	GapMs     []int  `json:"gap_ms,omitempty"`  // real-time pause after incarnation i left (len = len(Incs)-1)
	TailMs    int    `json:"tail_ms,omitempty"` // real-time pause after the last incarnation left
	Class     string `json:"class"`             // generator class (label only)
}

func (c Case) cleanupDelayMs() int { return c.FragMs * (c.FragNum + c.DelThr) }

// ---------------------------------------------------------------------------
// oracle state, driven by the file-system layer's callback

type segAnalysis struct {
	size             int
	headOK           bool
	headMsg          string
	hasVideoFrame    bool
	firstVideoKey    bool
	firstVideoSerial uint32   // serial of the first slice unit of the first video access unit (0: not decodable)
	units            []unit   // every PES packet of the segment in packet order, attributed to a published frame where possible
	inband           [][]byte // parameter set units of the first video access unit, in order
	demuxErr         string
}

// unit is one PES packet of a segment, traced back to the frame the publisher
// sent: a video access unit through the serial of its first slice, an AAC batch
// through the seed that starts the payload of its first ADTS frame.
type unit struct {
	video  bool
	serial uint32 // 0: not attributable (Opus, a frame too short to carry a serial)
}

type version struct {
	uris []string
	inc  int
}

type oracle struct {
	c        Case
	dir      string // <root>/hls/<stream>
	playlist string
	record   string
	tsDir    string

	viol       *pbt.Violation
	known      *pbt.Violation // the known finding, reported only when nothing else failed
	harnessErr string

	curInc int
	live   bool

	plGen    *hlsfs.File
	plLen    int
	cur      *m3u8ref.Playlist
	versions []version

	segInc   map[*hlsfs.File]int
	segIdx   map[*hlsfs.File]int   // creation index over the whole case
	segK     map[*hlsfs.File]int   // creation index inside its incarnation
	seqOf    map[*hlsfs.File]int64 // media sequence number under which the segment was listed
	seqBase  map[int]int64         // per incarnation: sequence number minus creation index (must be constant)
	tl       map[int]*timeline     // per incarnation: the published frames
	incSegs  map[int][]*hlsfs.File
	cut      map[int]int64 // size of the TS recording when the incarnation's first segment was created
	analysis map[*hlsfs.File]*segAnalysis

	lastDirRemoval int // op index of the last successful remove-all that covered dir (-1: never)

	// runtime statistics
	closedSegs   int
	maxVersions  int
	discontSegs  map[string]bool
	judgedAttr   map[*hlsfs.File]bool // non-key segment starts judged by attribution to the opening frames
	judgedWindow map[*hlsfs.File]bool // ... by the window fallback (a unit could not be attributed)
	judgedFirst  map[*hlsfs.File]bool // first segments of incarnations with video
	removedWhile int
}

func (o *oracle) fail(sig, f string, a ...interface{}) {
	if o.viol == nil {
		o.viol = pbt.V(sig, f, a...)
	}
}

func (o *oracle) segPath(uri string) string { return filepath.Join(o.dir, uri) }

func isSegment(path string) bool { return strings.HasSuffix(path, ".ts") }

// onOp is the invariant: called after every single file-system operation.
func (o *oracle) onOp(st *hlsfs.State, op hlsfs.Op) {
	defer func() {
		if r := recover(); r != nil {
			if o.harnessErr == "" {
				o.harnessErr = fmt.Sprintf("panic inside the C10 oracle: %v", r)
			}
		}
	}()
	if o.viol != nil || o.harnessErr != "" {
		return
	}
	covers := op.Path == o.dir || strings.HasPrefix(o.dir, op.Path+string(filepath.Separator))
	switch op.Kind {
	case hlsfs.OpMkdir:
		if op.Path == o.dir && op.Err == "" {
			o.live = true // hls.Muxer.Start: from here on the directory belongs to a live stream
		}
	case hlsfs.OpRemoveAll:
		if covers && op.Err == "" {
			o.lastDirRemoval = op.Index
			if o.live {
				o.removedWhile++
				o.fail("H8/cleanup-removed-directory-of-live-stream", "operation %d: remove-all %s while incarnation %d of the stream is live (cleanup_mode %d, delay %d ms)",
					op.Index, op.Path, o.curInc, o.c.Cleanup, o.c.cleanupDelayMs())
				return
			}
		}
	case hlsfs.OpCreate:
		if op.Err == "" && isSegment(op.Path) && filepath.Dir(op.Path) == o.dir {
			f := st.Lookup(op.Path)
			o.segInc[f] = o.curInc
			o.segIdx[f] = len(o.segIdx)
			o.segK[f] = len(o.incSegs[o.curInc])
			if len(o.incSegs[o.curInc]) == 0 {
				o.cut[o.curInc] = o.recordingSize()
			}
			o.incSegs[o.curInc] = append(o.incSegs[o.curInc], f)
		}
	case hlsfs.OpClose:
		if isSegment(op.Path) {
			o.closedSegs++
		}
	}

	pf := st.Lookup(o.playlist)
	if pf == nil {
		// the playlist does not exist: the history of versions ends here
		o.plGen, o.cur, o.versions = nil, nil, nil
		o.seqBase = map[int]int64{}
		return
	}
	if pf != o.plGen || len(pf.Data) != o.plLen {
		prev := o.cur
		prevInc := -1
		if len(o.versions) > 0 {
			prevInc = o.versions[len(o.versions)-1].inc
		}
		o.plGen, o.plLen = pf, len(pf.Data)
		pl, err := m3u8ref.Parse(pf.Data)
		if err != nil {
			kind := "unparseable"
			if pe, ok := err.(*m3u8ref.Error); ok {
				kind = pe.Kind
			}
			o.fail("H1/playlist-not-complete/"+kind, "after operation %d (%s %s): playlist.m3u8 (%d bytes) is not a complete media playlist: %v\n%s",
				op.Index, op.Kind, filepath.Base(op.Path), len(pf.Data), err, clip(string(pf.Data), 600))
			return
		}
		o.cur = pl
		// H2
		if prev != nil && pl.MediaSequence < prev.MediaSequence {
			if prevInc != o.curInc && pl.MediaSequence != 0 {
				// only the exact known finding is demoted: a successor's fresh muxer starting at 0 again
				o.fail("H2/media-sequence-decreased-across-incarnations", "operation %d: EXT-X-MEDIA-SEQUENCE went from %d (written by incarnation %d) to %d (first playlist of incarnation %d) although playlist.m3u8 existed without interruption",
					op.Index, prev.MediaSequence, prevInc, pl.MediaSequence, o.curInc)
				return
			} else if prevInc != o.curInc {
				if o.known == nil {
					o.known = pbt.V(sigSeqRestart, "operation %d: EXT-X-MEDIA-SEQUENCE went from %d (written by incarnation %d) to %d (incarnation %d) although playlist.m3u8 existed without interruption (cleanup_mode %d)",
						op.Index, prev.MediaSequence, prevInc, pl.MediaSequence, o.curInc, o.c.Cleanup)
				}
			} else {
				o.fail("H2/media-sequence-decreased", "operation %d: EXT-X-MEDIA-SEQUENCE went from %d to %d within incarnation %d", op.Index, prev.MediaSequence, pl.MediaSequence, o.curInc)
				return
			}
		}
		// H3
		for _, sg := range pl.Segments {
			if pl.TargetDuration < sg.RoundedLow() {
				o.fail("H3/target-duration-below-rounded-extinf", "operation %d: EXT-X-TARGETDURATION:%d but segment %s has EXTINF:%s which rounds to %d (fragment_duration_ms %d)\n%s",
					op.Index, pl.TargetDuration, sg.URI, sg.DurationText, sg.RoundedLow(), o.c.FragMs, clip(string(pf.Data), 800))
				return
			}
		}
		// H2/H6: sequence order = production order
		lastIdx, lastURI := -1, ""
		for _, sg := range pl.Segments {
			f := st.Lookup(o.segPath(sg.URI))
			if f == nil {
				break // H4 below reports the missing file
			}
			idx, okIdx := o.segIdx[f]
			if !okIdx {
				continue
			}
			if idx <= lastIdx {
				o.fail("H6/playlist-order-differs-from-production-order", "operation %d: playlist lists %s (created as segment %d of the case) after %s (segment %d)\n%s",
					op.Index, sg.URI, idx, lastURI, lastIdx, clip(string(pf.Data), 800))
				return
			}
			lastIdx, lastURI = idx, sg.URI
			inc, k := o.segInc[f], o.segK[f]
			if prevSeq, seen := o.seqOf[f]; seen && prevSeq != sg.Seq && inc == o.curInc {
				o.fail("H2/segment-sequence-number-changed", "operation %d: %s was listed with media sequence number %d, now with %d\n%s", op.Index, sg.URI, prevSeq, sg.Seq, clip(string(pf.Data), 800))
				return
			}
			o.seqOf[f] = sg.Seq
			if inc == o.curInc {
				base, okBase := o.seqBase[inc]
				if !okBase {
					o.seqBase[inc] = sg.Seq - int64(k)
				} else if sg.Seq-int64(k) != base {
					o.fail("H6/sequence-numbers-do-not-follow-production-order", "operation %d: %s is segment %d produced by incarnation %d and is listed with media sequence number %d; earlier listings imply number %d (a segment was skipped, repeated or renumbered)\n%s",
						op.Index, sg.URI, k, inc, sg.Seq, base+int64(k), clip(string(pf.Data), 800))
					return
				}
			}
		}
		o.versions = append(o.versions, version{uris: pl.URIs(), inc: o.curInc})
		if len(o.versions) > o.maxVersions {
			o.maxVersions = len(o.versions)
		}
		if len(o.versions) > o.c.DelThr+8 {
			o.versions = o.versions[len(o.versions)-(o.c.DelThr+8):]
		}
	}
	// H4 for the current version
	for _, sg := range o.cur.Segments {
		f := st.Lookup(o.segPath(sg.URI))
		if f == nil {
			o.fail("H4/listed-segment-missing", "after operation %d (%s %s): playlist lists %s (sequence %d) but the file does not exist\n%s",
				op.Index, op.Kind, filepath.Base(op.Path), sg.URI, sg.Seq, clip(string(pf.Data), 800))
			return
		}
		if len(f.Data)%pktSize != 0 {
			o.fail("H4/segment-not-whole-packets", "after operation %d: listed segment %s is %d bytes, not a multiple of 188", op.Index, sg.URI, len(f.Data))
			return
		}
		an := o.analyse(f)
		if an.demuxErr != "" {
			o.fail("H4/segment-not-a-transport-stream", "after operation %d: listed segment %s: %s", op.Index, sg.URI, an.demuxErr)
			return
		}
		if !an.headOK {
			o.fail("H4/segment-does-not-begin-with-pat-pmt", "after operation %d: listed segment %s (%d bytes): %s", op.Index, sg.URI, len(f.Data), an.headMsg)
			return
		}
		if sg.Discontinuity {
			o.discontSegs[sg.URI] = true
		}
		inc, okInc := o.segInc[f]
		if okInc && o.segK[f] == 0 && o.c.Incs[inc].Codecs.Video != "" {
			if sig, msg := o.firstSegmentProblem(inc, f); sig != "" {
				o.fail(sig, "after operation %d: listed segment %s is the first segment of incarnation %d (%s): %s", op.Index, sg.URI, inc, shape(o.c.Incs[inc].Codecs), msg)
				return
			}
		}
		if okInc && o.c.Incs[inc].Codecs.Video != "" && an.hasVideoFrame && !an.firstVideoKey {
			if !sg.Discontinuity {
				o.fail("H4/segment-starts-at-non-key-frame", "after operation %d: listed segment %s (sequence %d, no EXT-X-DISCONTINUITY) of a stream with video: its first video access unit holds no IDR/IRAP unit",
					op.Index, sg.URI, sg.Seq)
				return
			}
			// the tag is lal's own claim: the published frames must show the discontinuity
			if why := o.unjustifiedNonKeyStart(inc, f); why != "" {
				o.fail("H4/non-key-segment-start-without-timestamp-discontinuity", "after operation %d: listed segment %s (sequence %d) carries EXT-X-DISCONTINUITY and starts its video at a non-key frame, but %s",
					op.Index, sg.URI, sg.Seq, why)
				return
			}
		}
	}
	// H5 for the previous delete_threshold versions
	for back := 1; back <= o.c.DelThr && back < len(o.versions); back++ {
		v := o.versions[len(o.versions)-1-back]
		for _, u := range v.uris {
			if st.Lookup(o.segPath(u)) == nil {
				o.fail("H5/segment-of-recent-playlist-version-deleted", "after operation %d (%s %s): %s was listed %d playlist version(s) ago (delete_threshold %d, fragment_num %d) but no longer exists; current playlist lists %v",
					op.Index, op.Kind, filepath.Base(op.Path), u, back, o.c.DelThr, o.c.FragNum, o.cur.URIs())
				return
			}
		}
	}
}

func (o *oracle) recordingSize() int64 {
	files, _ := filepath.Glob(filepath.Join(o.tsDir, "*.ts"))
	if len(files) != 1 {
		o.harnessErr = fmt.Sprintf("expected exactly one TS recording while an incarnation is live, found %d", len(files))
		return -1
	}
	fi, err := os.Stat(files[0])
	if err != nil {
		o.harnessErr = "stat TS recording: " + err.Error()
		return -1
	}
	return fi.Size()
}

// analyse demultiplexes a segment (cached per generation and size).
func (o *oracle) analyse(f *hlsfs.File) *segAnalysis {
	if an := o.analysis[f]; an != nil && an.size == len(f.Data) {
		return an
	}
	an := &segAnalysis{size: len(f.Data)}
	o.analysis[f] = an
	res, err := tsref.Demux(f.Data, tsref.Options{})
	if err != nil {
		an.demuxErr = err.Error()
		return an
	}
	switch {
	case len(res.Packets) < 2:
		an.headMsg = fmt.Sprintf("only %d packets", len(res.Packets))
	case res.Packets[0].PID != tsref.PIDPAT || len(res.PATs) == 0 || res.PATs[0].Packet != 0:
		an.headMsg = fmt.Sprintf("first packet has PID %#x and carries no complete PAT", res.Packets[0].PID)
	case len(res.PMTs) == 0 || res.PMTs[0].Packet != 1:
		an.headMsg = fmt.Sprintf("second packet (PID %#x) carries no complete PMT", res.Packets[1].PID)
	default:
		an.headOK = true
	}
	if !an.headOK {
		return an
	}
	for _, es := range res.PMTs[0].Streams {
		if es.StreamType != tsref.StreamTypeH264 && es.StreamType != tsref.StreamTypeH265 {
			continue
		}
		pes := res.ByPID(es.PID)
		if len(pes) == 0 {
			continue
		}
		an.hasVideoFrame = true
		for _, n := range lalclient.SplitAnnexB(pes[0].Payload) {
			if len(n) == 0 {
				continue
			}
			hdr, slice := 1, false
			if es.StreamType == tsref.StreamTypeH264 {
				t := n[0] & 0x1f
				if t == 5 {
					an.firstVideoKey = true
				}
				slice = t >= 1 && t <= 5
			} else {
				hdr = 2
				t := int(n[0]>>1) & 0x3f
				if t >= 16 && t <= 23 {
					an.firstVideoKey = true
				}
				slice = t <= 23
			}
			if slice && an.firstVideoSerial == 0 && len(n) >= hdr+4 {
				// gen.NalSpec.Bytes: four base-251 digits, each stored +4
				ser, mul, ok := uint32(0), uint32(1), true
				for i := 0; i < 4; i++ {
					b := n[hdr+i]
					if b < 4 || b > 254 {
						ok = false
						break
					}
					ser += uint32(b-4) * mul
					mul *= 251
				}
				if ok {
					an.firstVideoSerial = ser
				}
			}
			if !slice {
				isPS := false
				if es.StreamType == tsref.StreamTypeH264 {
					isPS = n[0]&0x1f == 7 || n[0]&0x1f == 8
				} else if t := int(n[0]>>1) & 0x3f; t >= 32 && t <= 34 {
					isPS = true
				}
				if isPS {
					an.inband = append(an.inband, n)
				}
			}
		}
	}
	kind := map[uint16]uint8{}
	for _, es := range res.PMTs[0].Streams {
		kind[es.PID] = es.StreamType
	}
	for _, p := range res.PES {
		u := unit{}
		switch kind[p.PID] {
		case tsref.StreamTypeH264, tsref.StreamTypeH265:
			u.video = true
			u.serial = firstSliceSerial(p.Payload, kind[p.PID] == tsref.StreamTypeH265)
		case tsref.StreamTypeAAC:
			// ADTS: 7-byte header (protection absent), then the raw data block = the published payload, which
			// gen.Item.Payload starts with the 4-byte seed
			if b := p.Payload; len(b) >= 11 && b[0] == 0xFF && b[1]&0xF0 == 0xF0 && b[1]&1 == 1 {
				u.serial = uint32(b[7])<<24 | uint32(b[8])<<16 | uint32(b[9])<<8 | uint32(b[10])
			}
		}
		an.units = append(an.units, u)
	}
	return an
}

// firstSliceSerial decodes the serial gen.NalSpec.Bytes stores behind the header
// of the first slice unit of an access unit (four base-251 digits, each +4).
func firstSliceSerial(au []byte, hevc bool) uint32 {
	for _, n := range lalclient.SplitAnnexB(au) {
		if len(n) == 0 {
			continue
		}
		hdr := 1
		if hevc {
			hdr = 2
			if int(n[0]>>1)&0x3f > 23 {
				continue
			}
		} else if t := n[0] & 0x1f; t < 1 || t > 5 {
			continue
		}
		if len(n) < hdr+4 {
			return 0
		}
		ser, mul := uint32(0), uint32(1)
		for i := 0; i < 4; i++ {
			b := n[hdr+i]
			if b < 4 || b > 254 {
				return 0
			}
			ser += uint32(b-4) * mul
			mul *= 251
		}
		return ser
	}
	return 0
}

// timeline is what the case says about the frames of one incarnation: for every
// audio / video item its timestamp as published and as lal's TS remuxer rebases
// it (each track on its own first timestamp; smaller timestamps stay as they are).
type timeline struct {
	media    []int   // item indices of audio / video frames in publish order
	raw      []int64 // per media position
	rebased  []int64
	video    []bool
	bySerial map[uint32]int // first-slice serial of a video frame -> media position
	bySeed   map[uint32]int // seed of an audio frame -> media position
	variant  []int          // per media position: variant of the video sequence header in force (-1: none yet)
}

func buildTimeline(in Inc) *timeline {
	t := &timeline{bySerial: map[uint32]int{}, bySeed: map[uint32]int{}}
	var baseV, baseA int64 = -1, -1
	variant := -1
	for i, it := range in.Items {
		if it.Kind == "vsh" {
			variant = it.Variant
		}
		if it.Kind != "video" && it.Kind != "audio" {
			continue
		}
		ts := int64(it.Ts)
		r := ts
		if it.Kind == "video" {
			if baseV < 0 {
				baseV = ts
			}
			if ts >= baseV {
				r = ts - baseV
			}
			for _, n := range it.Nals {
				if _, dup := t.bySerial[n.Serial]; !dup {
					t.bySerial[n.Serial] = len(t.media)
				}
			}
		} else {
			if baseA < 0 {
				baseA = ts
			}
			if ts >= baseA {
				r = ts - baseA
			}
			if _, dup := t.bySeed[it.ASeed]; !dup {
				t.bySeed[it.ASeed] = len(t.media)
			}
		}
		t.variant = append(t.variant, variant)
		t.media = append(t.media, i)
		t.raw = append(t.raw, ts)
		t.rebased = append(t.rebased, r)
		t.video = append(t.video, it.Kind == "video")
	}
	return t
}

// openers maps the first two units of a segment to media positions of the
// published frames; ok is false when one of them cannot be attributed.
func (t *timeline) openers(an *segAnalysis) (pos []int, ok bool) {
	for i := 0; i < 2 && i < len(an.units); i++ {
		u := an.units[i]
		m := t.bySeed
		if u.video {
			m = t.bySerial
		}
		p, found := m[u.serial]
		if u.serial == 0 || !found {
			return nil, false
		}
		pos = append(pos, p)
	}
	return pos, len(pos) > 0
}

// firstSegmentProblem judges the first segment of an incarnation of a stream with
// video: its first video access unit is a key frame that carries the parameter
// sets of the sequence header in force, and nothing in the segment stems from
// another incarnation.  "" = fine.
func (o *oracle) firstSegmentProblem(inc int, f *hlsfs.File) (sig, msg string) {
	t := o.tl[inc]
	if t == nil {
		t = buildTimeline(o.c.Incs[inc])
		o.tl[inc] = t
	}
	an := o.analyse(f)
	o.judgedFirst[f] = true
	for i, u := range an.units {
		if u.serial == 0 {
			continue
		}
		m, what := t.bySeed, "audio batch"
		if u.video {
			m, what = t.bySerial, "video access unit"
		}
		if _, mine := m[u.serial]; !mine {
			return "H4/first-segment-holds-data-of-another-incarnation", fmt.Sprintf("unit %d (%s, serial %d) was not published by incarnation %d", i, what, u.serial, inc)
		}
	}
	if !an.hasVideoFrame {
		return "", ""
	}
	if !an.firstVideoKey {
		return "H4/first-segment-starts-at-non-key-frame", "its first video access unit holds no IDR/IRAP unit"
	}
	pos, ok := t.bySerial[an.firstVideoSerial]
	if an.firstVideoSerial == 0 || !ok || t.variant[pos] < 0 {
		return "", ""
	}
	vps, sps, pps := gen.ParamSets(o.c.Incs[inc].Codecs.Video, t.variant[pos])
	want := [][]byte{sps, pps}
	if vps != nil {
		want = [][]byte{vps, sps, pps}
	}
	got := an.inband
	if len(got) >= len(want) {
		got = got[len(got)-len(want):] // the sets in force are the last ones before the slice data
		same := true
		for i := range want {
			if !bytes.Equal(got[i], want[i]) {
				same = false
			}
		}
		if same {
			return "", ""
		}
	}
	return "H4/first-segment-key-frame-without-parameter-sets-in-force", fmt.Sprintf("the key frame (item %d) carries in-band parameter sets %x, the sequence header in force (variant %d) has %x", t.media[pos], an.inband, t.variant[pos], want)
}

// discontinuityIn reports whether the frames at media positions [from, to] show
// a timestamp discontinuity: a frame more than 10 x fragment_duration after,
// or more than 1000 ms before, an earlier frame of the window — on the published
// or on the rebased time line.
func (t *timeline) discontinuityIn(from, to int, fragMs int) bool {
	for _, line := range [][]int64{t.raw, t.rebased} {
		lo, hi := line[from], line[from]
		for p := from + 1; p <= to && p < len(line); p++ {
			if line[p]-lo > 10*int64(fragMs) || hi-line[p] > 1000 {
				return true
			}
			if line[p] < lo {
				lo = line[p]
			}
			if line[p] > hi {
				hi = line[p]
			}
		}
	}
	return false
}

// unjustifiedNonKeyStart judges, from the published frames alone, whether a
// segment whose video starts at a non-key frame can have been opened by a
// timestamp discontinuity.  The window runs from the last video frame published
// before the first video frame of the third earlier segment that holds video
// (the first frame of the incarnation when there are fewer) up to this segment's
// first video frame.  "" = justified.
func (o *oracle) unjustifiedNonKeyStart(inc int, f *hlsfs.File) string {
	t := o.tl[inc]
	if t == nil {
		t = buildTimeline(o.c.Incs[inc])
		o.tl[inc] = t
	}
	an := o.analyse(f)
	to, ok := t.bySerial[an.firstVideoSerial]
	if an.firstVideoSerial == 0 || !ok {
		return "" // not attributable to a published frame: not judged
	}
	if o.segK[f] == 0 {
		return "" // the first segment of an incarnation is judged by firstSegmentProblem
	}
	// Attribution.  lal forces a split when the frame it is handed lies more than 10 x fragment_duration after, or
	// more than 1000 ms before, the frame with which the current segment was opened.  The frame that opened a
	// segment is the first access unit / AAC batch written to it, or the second one when the cached audio was
	// flushed in front of it; a segment that was closed again before anything was written (the flushed batch
	// itself forced the split) leaves its opening frame as the second unit of the segment that follows.  So a
	// forced start must be explained by one of the first two units of this segment against one of the first two
	// units of the segment before it (of this segment itself when the one before is empty) — a genuine jump
	// nearby does not excuse a second, spurious split.
	if o.segK[f] < len(o.incSegs[inc]) {
		cur, okCur := t.openers(an)
		pa := o.analyse(o.incSegs[inc][o.segK[f]-1])
		prev, okPrev := cur, okCur
		if len(pa.units) > 0 {
			prev, okPrev = t.openers(pa)
		}
		if okCur && okPrev {
			o.judgedAttr[f] = true
			for _, x := range prev {
				for _, y := range cur {
					if x == y {
						continue
					}
					for _, line := range [][]int64{t.raw, t.rebased} {
						if line[y]-line[x] > 10*int64(o.c.FragMs) || line[x]-line[y] > 1000 {
							return ""
						}
					}
				}
			}
			desc := func(ps []int) string {
				var out []string
				for _, p := range ps {
					out = append(out, fmt.Sprintf("item %d @%d ms", t.media[p], t.raw[p]))
				}
				return strings.Join(out, ", ")
			}
			return fmt.Sprintf("none of the frames that can have opened it (%s) lies more than %d ms after or more than 1000 ms before a frame that can have opened the segment before it (%s)",
				desc(cur), 10*o.c.FragMs, desc(prev))
		}
	}
	// not every unit is attributable (Opus audio): fall back to the window rule
	o.judgedWindow[f] = true
	// Every open flushes lal's AAC cache, but a flushed batch carries the timestamp of its oldest frame, and the
	// flush re-enters the muxer while a segment is being opened: the segment start that a frame is compared
	// with can stem from a frame published during the segment before the (possibly empty) one that the outer
	// frame opened.  The window therefore reaches back over three earlier segments that hold video.
	from := 0
	segs := o.incSegs[inc]
	withVideo := 0
	for k := o.segK[f] - 1; k >= 0 && k < len(segs); k-- {
		pa := o.analyse(segs[k])
		if pos, ok := t.bySerial[pa.firstVideoSerial]; pa.hasVideoFrame && pa.firstVideoSerial != 0 && ok {
			withVideo++
			if withVideo < 3 {
				continue
			}
			from = pos - 1
			for from >= 0 && !t.video[from] {
				from--
			}
			if from < 0 {
				from = 0
			}
			break
		}
	}
	if t.discontinuityIn(from, to, o.c.FragMs) {
		return ""
	}
	return fmt.Sprintf("the frames published from item %d to item %d of incarnation %d (timestamps %d .. %d ms) contain no frame more than %d ms after or more than 1000 ms before an earlier one",
		t.media[from], t.media[to], inc, t.raw[from], t.raw[to], 10*o.c.FragMs)
}

func clip(s string, n int) string {
	if len(s) > n {
		return s[:n] + "...(truncated)"
	}
	return s
}

// endOfIncarnation evaluates H7 on the state right after the publisher's
// teardown (before any later cleanup) and H6 against the TS recording.
func (o *oracle) endOfIncarnation(st *hlsfs.State, inc int, leaveStart int, recording []byte) {
	if o.viol != nil || o.harnessErr != "" {
		return
	}
	k := st.NumOps() - 1
	for _, op := range st.Ops()[leaveStart:] {
		if op.Kind == hlsfs.OpRemoveAll && op.Err == "" && (op.Path == o.dir || strings.HasPrefix(o.dir, op.Path+string(filepath.Separator))) {
			k = op.Index - 1 // judge the state the teardown left behind, not what the delayed cleanup made of it
			break
		}
	}
	// H7 live playlist
	if pf := st.LookupAt(o.playlist, k); pf != nil {
		pl, err := m3u8ref.Parse(pf.DataAt(k))
		if err != nil {
			o.fail("H1/playlist-not-complete/after-leave", "after incarnation %d left: %v", inc, err)
			return
		}
		if !pl.EndList || !pl.EndListIsLastLine {
			o.fail("H7/live-playlist-not-finalised", "after the publisher of incarnation %d left (operation %d) playlist.m3u8 does not end with #EXT-X-ENDLIST:\n%s", inc, k, clip(string(pf.DataAt(k)), 800))
			return
		}
	}
	// H7 record playlist
	if o.c.Cleanup == 0 || o.c.Cleanup == 1 {
		dirBorn := -1
		for _, op := range st.Ops()[:k+1] {
			if op.Kind == hlsfs.OpRemoveAll && op.Err == "" && (op.Path == o.dir || strings.HasPrefix(o.dir, op.Path+string(filepath.Separator))) {
				dirBorn = op.Index
			}
		}
		var produced []string
		for _, f := range st.Files() {
			if isSegment(f.Path) && filepath.Dir(f.Path) == o.dir && f.Born > dirBorn && f.Born <= k {
				produced = append(produced, filepath.Base(f.Path))
			}
		}
		if len(produced) > 0 {
			rf := st.LookupAt(o.record, k)
			if rf == nil {
				o.fail("H7/record-playlist-missing", "after incarnation %d left (cleanup_mode %d) record.m3u8 does not exist although %d segments were produced", inc, o.c.Cleanup, len(produced))
				return
			}
			rp, err := m3u8ref.Parse(rf.DataAt(k))
			if err != nil {
				o.fail("H7/record-playlist-unparseable", "after incarnation %d left: record.m3u8: %v\n%s", inc, err, clip(string(rf.DataAt(k)), 800))
				return
			}
			listed := map[string]int{}
			for _, u := range rp.URIs() {
				listed[u]++
			}
			for _, p := range produced {
				if listed[p] == 0 {
					o.fail("H7/record-playlist-misses-segment", "after incarnation %d left (cleanup_mode %d): record.m3u8 lists %d segments but not %s (%d segments produced since the directory was created)\n%s",
						inc, o.c.Cleanup, len(rp.Segments), p, len(produced), clip(string(rf.DataAt(k)), 1200))
					return
				}
			}
		}
	}
	// H6
	segs := o.incSegs[inc]
	if len(segs) == 0 {
		return
	}
	cut := o.cut[inc]
	if cut < 0 || cut > int64(len(recording)) || len(recording)%pktSize != 0 || cut%pktSize != 0 {
		o.harnessErr = fmt.Sprintf("TS recording of incarnation %d: %d bytes, cut at %d", inc, len(recording), cut)
		return
	}
	want := recording[cut:]
	var got []byte
	for i, f := range segs {
		if _, listed := o.seqOf[f]; !listed {
			o.fail("H6/segment-never-listed", "segment %d of incarnation %d (%s, %d bytes) never appeared in playlist.m3u8: its packets are missing from the segments in sequence order", i, inc, filepath.Base(f.Path), len(f.Data))
			return
		}
		if len(f.Data) < 2*pktSize {
			o.fail("H6/segment-shorter-than-its-head", "segment %d of incarnation %d (%s) holds %d bytes", i, inc, filepath.Base(f.Path), len(f.Data))
			return
		}
		got = append(got, f.Data[2*pktSize:]...)
	}
	if !bytes.Equal(got, want) {
		n := len(got)
		if len(want) < n {
			n = len(want)
		}
		d := 0
		for d < n && got[d] == want[d] {
			d++
		}
		o.fail("H6/segments-differ-from-produced-stream", "incarnation %d: %d segments hold %d TS packets after their PAT/PMT heads, the stream produced since the first segment was opened holds %d packets; first difference at packet %d (segment payload packet index)",
			inc, len(segs), len(got)/pktSize, len(want)/pktSize, d/pktSize)
	}
}

// ---------------------------------------------------------------------------

func run(c Case) *pbt.Violation {
	clk, restoreClk := inproc.UseFakeHlsClock()
	defer restoreClk()
	s := inproc.New(inproc.Config{Hls: true, HlsFragmentMs: c.FragMs, HlsFragmentNum: c.FragNum, HlsDeleteThreshold: c.DelThr, HlsCleanupMode: c.Cleanup,
		RecordTs: true, DisableRtsp: true, DisableFlv: true})
	tsDir := filepath.Join(s.Dir, "ts")
	if err := os.MkdirAll(tsDir, 0o755); err != nil {
		lalclient.Harness("mkdir: %v", err)
	}
	root := filepath.Join(s.Dir, "hls")
	o := &oracle{c: c, dir: filepath.Join(root, streamName), tsDir: tsDir, lastDirRemoval: -1,
		segInc: map[*hlsfs.File]int{}, segIdx: map[*hlsfs.File]int{}, segK: map[*hlsfs.File]int{}, seqOf: map[*hlsfs.File]int64{}, seqBase: map[int]int64{}, tl: map[int]*timeline{},
		incSegs: map[int][]*hlsfs.File{}, cut: map[int]int64{}, analysis: map[*hlsfs.File]*segAnalysis{}, discontSegs: map[string]bool{},
		judgedAttr: map[*hlsfs.File]bool{}, judgedWindow: map[*hlsfs.File]bool{}, judgedFirst: map[*hlsfs.File]bool{}}
	o.playlist = filepath.Join(o.dir, "playlist.m3u8")
	o.record = filepath.Join(o.dir, "record.m3u8")
	layer := hlsfs.New(root, nil, o.onOp)
	restoreFs := hlsfs.Install(layer)
	defer func() {
		s.Close()
		restoreFs() // after the manager is gone: nothing of this case can reach the layer of the next one
		pbt.Count("fs_operation_prefixes_checked", layer.Prefixes())
		pbt.Count("segments_closed", o.closedSegs)
		pbt.Count("segments_with_discontinuity_tag", len(o.discontSegs))
		pbt.Count("non_key_starts_attributed_to_opening_frames", len(o.judgedAttr))
		pbt.Count("non_key_starts_judged_by_window_fallback", len(o.judgedWindow))
		pbt.Count("first_segments_judged", len(o.judgedFirst))
		if o.closedSegs >= c.FragNum+c.DelThr+2 {
			pbt.Count("cases_ring_wrapped", 1)
		}
	}()

	verdict := func() *pbt.Violation {
		var v *pbt.Violation
		var he string
		layer.With(func(*hlsfs.State) { v, he = o.viol, o.harnessErr })
		if he != "" {
			panic(pbt.HarnessError{Msg: he})
		}
		if v != nil {
			return v
		}
		return s.PanicViolation()
	}

	for i, in := range c.Incs {
		layer.With(func(*hlsfs.State) { o.curInc = i })
		p := lalclient.NewPublisher(s, "live", streamName, c.ChunkSize)
		if p.Err != nil {
			if v := verdict(); v != nil {
				return v
			}
			return pbt.V("publish-refused", "incarnation %d: %v", i, p.Err)
		}
		last := uint32(0)
		for k, it := range in.Items {
			if in.HoldMs > 0 && k == in.HoldAt {
				p.WaitIdle()
				time.Sleep(time.Duration(in.HoldMs) * time.Millisecond)
			}
			// the fake clock only feeds segment file names; it advances with every message
			step := time.Millisecond
			if it.Ts > last && it.Ts-last < 60000 {
				step = time.Duration(it.Ts-last) * time.Millisecond
			}
			last = it.Ts
			clk.Add(step)
			if err := p.SendItem(it, in.Codecs, 0); err != nil {
				if v := verdict(); v != nil {
					return v
				}
				return pbt.V("publisher-disconnected", "incarnation %d item %d: %v", i, k, err)
			}
		}
		if in.HoldMs > 0 && in.HoldAt >= len(in.Items) {
			p.WaitIdle()
			time.Sleep(time.Duration(in.HoldMs) * time.Millisecond)
		}
		if !p.WaitIdle() {
			lalclient.Harness("publisher of incarnation %d not drained", i)
		}
		if v := verdict(); v != nil {
			return v
		}
		leaveStart := 0
		layer.With(func(st *hlsfs.State) { o.live = false; leaveStart = st.NumOps() })
		p.Close()
		if !p.Conn.WaitPeerDone(lalclient.IdleTimeout) {
			lalclient.Harness("teardown of incarnation %d did not finish", i)
		}
		// the TS recording of this incarnation (lal has closed it)
		var recording []byte
		files, _ := filepath.Glob(filepath.Join(tsDir, "*.ts"))
		if len(files) != 1 {
			lalclient.Harness("expected one TS recording after incarnation %d, found %d", i, len(files))
		}
		recording, err := os.ReadFile(files[0])
		if err != nil {
			lalclient.Harness("read TS recording: %v", err)
		}
		_ = os.Remove(files[0])
		layer.With(func(st *hlsfs.State) { o.endOfIncarnation(st, i, leaveStart, recording) })
		if v := verdict(); v != nil {
			return v
		}
		if i < len(c.GapMs) && c.GapMs[i] > 0 {
			time.Sleep(time.Duration(c.GapMs[i]) * time.Millisecond)
		}
	}
	if c.TailMs > 0 {
		time.Sleep(time.Duration(c.TailMs) * time.Millisecond)
	}
	if v := verdict(); v != nil {
		return v
	}
	var known *pbt.Violation
	layer.With(func(*hlsfs.State) { known = o.known })
	return known
}

// onlyLabel is a diagnostic aid (never set by the driver): C10_ONLY_LABEL=<label> restricts the search to
// cases that carry the label, e.g. to ask whether one generator shape alone exposes a seeded change.
func onlyLabel(c Case) string {
	want := os.Getenv("C10_ONLY_LABEL")
	if want == "" {
		return ""
	}
	_, labels := classify(c)
	for _, l := range labels {
		if l == want {
			return ""
		}
	}
	return "diagnostic: label " + want + " absent"
}

func TestHlsConsistency(t *testing.T) {
	pbt.Run(t, pbt.Spec[Case]{
		ID: "C10", Name: "hls-consistency", Gen: genCase, Run: run, Classify: classify, Exclude: onlyLabel,
		Quick: 300, Thorough: 2500, Isolate: true,
	})
}
