package c16

// RTSP legs of C16: an incarnation may be published over RTSP (ANNOUNCE /
// SETUP / RECORD, interleaved, RTP built by the reference packetisers from the
// incarnation's items), and RTSP subscribers (DESCRIBE / SETUP / PLAY,
// interleaved) watch incarnations of any input kind.  What an RTSP subscriber
// of incarnation k must see: an SDP whose parameter sets / AAC config are
// incarnation k's, one RTP source per track, and elementary units that are
// units of incarnation k, each at most once — nothing produced from, or by
// state of, a predecessor.
//
// Not asserted for RTSP: completeness (lal's A/V interleave queue and the
// 16-message analysis of the rtmp->rtsp remuxer legitimately hold or drop the
// first / newest frames), timestamps, RTCP, the order of tracks.

import (
	"bytes"
	"fmt"
	"sync"
	"sync/atomic"
	"time"

	"verif/drv/pbt"
	"verif/gen"
	"verif/harness/lalclient"
	"verif/harness/memconn"
	"verif/ref/rtpref"
	"verif/ref/rtspref"
	"verif/ref/sdpref"
)

var aacHz = []int{96000, 88200, 64000, 48000, 44100, 32000, 24000, 22050, 16000, 12000, 11025, 8000, 7350}

const rtspURI = "rtsp://127.0.0.1:5544/live/" + streamName

type rtspInput struct {
	conn       *memconn.Conn
	cl         *rtspref.Client
	vseq, aseq *rtpref.Sequencer
	vch, ach   int
	aclock     int
}

// connOr returns the publisher's connection: the RTSP one, or the RTMP publisher's.
func (ri *rtspInput) connOr(p *lalclient.Publisher) *memconn.Conn {
	if ri != nil {
		return ri.conn
	}
	return p.Conn
}

// incVariants lists the parameter-set variants the incarnation uses (more than
// one after a sequence header change).
func incVariants(in Inc) []int {
	var out []int
	for _, it := range in.Items {
		if it.Kind == "vsh" {
			dup := false
			for _, v := range out {
				dup = dup || v == it.Variant
			}
			if !dup {
				out = append(out, it.Variant)
			}
		}
	}
	if len(out) == 0 {
		out = []int{incVariant(in)}
	}
	return out
}

// ownPPS / ownSets: does the parameter set belong to the incarnation?
func ownPPS(in Inc, b []byte) bool {
	for _, v := range incVariants(in) {
		if _, _, pps := gen.ParamSets(in.Codecs.Video, v); bytes.Equal(b, pps) {
			return true
		}
	}
	return false
}

func ownSPS(in Inc, b []byte) bool {
	for _, v := range incVariants(in) {
		if _, sps, _ := gen.ParamSets(in.Codecs.Video, v); bytes.Equal(b, sps) {
			return true
		}
	}
	return false
}

func incVariant(in Inc) int {
	for _, it := range in.Items {
		if it.Kind == "vsh" || it.Kind == "meta" {
			return it.Variant
		}
	}
	return 0
}

func (w *world) startRtspInput(i int) (*input, *pbt.Violation) {
	in := w.c.Incs[i]
	cd := in.Codecs
	conn := w.s.RtspConn()
	_ = conn.SetReadDeadline(time.Now().Add(lalclient.IdleTimeout))
	cl := rtspref.NewClient(conn)
	ri := &rtspInput{conn: conn, cl: cl, vch: -1, ach: -1}
	var tracks []rtspref.Track
	if cd.Video != "" {
		vps, sps, pps := gen.ParamSets(cd.Video, incVariant(in))
		t := rtspref.Track{Media: "video", PT: 96, ClockRate: 90000}
		if cd.Video == "hevc" {
			t.Encoding, t.Fmtp = "H265", rtspref.H265Fmtp(vps, sps, pps)
		} else {
			t.Encoding, t.Fmtp = "H264", rtspref.H264Fmtp(sps, pps)
		}
		ri.vch = 2 * len(tracks)
		tracks = append(tracks, t)
		ri.vseq = &rtpref.Sequencer{PT: 96, SSRC: 0x16000001 + uint32(i)*16, Seq: uint16(1000 * (i + 1))}
	}
	if cd.Audio == "aac" {
		ri.aclock = aacHz[cd.AscFreq]
		t := rtspref.Track{Media: "audio", PT: 97, Encoding: "MPEG4-GENERIC", ClockRate: ri.aclock, Channels: cd.AscChan, Fmtp: rtspref.AacFmtp(gen.Asc(cd.AscObj, cd.AscFreq, cd.AscChan))}
		ri.ach = 2 * len(tracks)
		tracks = append(tracks, t)
		ri.aseq = &rtpref.Sequencer{PT: 97, SSRC: 0x16000002 + uint32(i)*16, Seq: uint16(2000 * (i + 1))}
	}
	for k := range tracks {
		tracks[k].Control = fmt.Sprintf("streamid=%d", k)
	}
	if r, err := cl.Publish(rtspURI, tracks); err != nil {
		if v := w.panicV(); v != nil {
			return nil, v
		}
		return nil, pbt.V("publish-refused/rtsp", "incarnation %d: ANNOUNCE/SETUP/RECORD failed: %v (response %+v); the previous input has left", i, err, r)
	}
	_ = conn.SetReadDeadline(time.Time{})
	conn.WaitPeerIdle(lalclient.IdleTimeout)
	// lal turns the session description into sequence headers in a goroutine of its own; a real client's first RTP
	// packet cannot overtake it (network latency).  Wait until the stat API shows the codec (bounded; not judged).
	deadline := time.Now().Add(5 * time.Second)
	for time.Now().Before(deadline) {
		sg := w.s.SM.StatGroup(streamName)
		if sg != nil && ((cd.Video != "" && sg.VideoCodec != "") || (cd.Video == "" && sg.AudioCodec != "")) {
			break
		}
		time.Sleep(200 * time.Microsecond)
	}
	return &input{kind: "rtsp", rt: ri}, nil
}

func (w *world) sendRtsp(ri *rtspInput, it gen.Item, cd gen.Codecs) *pbt.Violation {
	var ch int
	var pkts []*rtpref.Packet
	switch it.Kind {
	case "video":
		nals := make([][]byte, len(it.Nals))
		for k, n := range it.Nals {
			nals[k] = n.Bytes()
		}
		pls, err := rtpref.PacketizeVideo(rtpref.Codec(cd.Video), nals, make([]rtpref.UnitPlan, len(nals)), 1400)
		if err != nil {
			lalclient.Harness("PacketizeVideo: %v", err)
		}
		ch, pkts = ri.vch, ri.vseq.Frame(pls, it.Ts*90, true)
	case "audio":
		au := it.Payload(cd)[2:]
		pl, err := rtpref.AACHbr.AACPacket([][]byte{au})
		if err != nil {
			lalclient.Harness("AACPacket: %v", err)
		}
		ch, pkts = ri.ach, ri.aseq.Frame([][]byte{pl}, uint32(uint64(it.Ts)*uint64(ri.aclock)/1000), true)
	default:
		return nil // metadata / sequence headers travel in the SDP
	}
	for _, p := range pkts {
		if err := ri.cl.WriteFrame(ch, p.Marshal()); err != nil {
			if v := w.panicV(); v != nil {
				return v
			}
			return pbt.V("publisher-disconnected/rtsp", "sending %s ts=%d: %v", it.Kind, it.Ts, err)
		}
	}
	return nil
}

// ---------------------------------------------------------------------------
// RTSP subscriber

type rtspCons struct {
	conn *memconn.Conn
	done chan struct{}

	mu      sync.Mutex
	sdp     []byte
	status  int
	joinErr error
	playing bool
	frames  []rtspref.Frame
	ansEnds int // world.endsSeen right after the DESCRIBE answer arrived
}

func (w *world) joinRtsp() *rtspCons {
	rc := &rtspCons{conn: w.s.RtspConn(), done: make(chan struct{})}
	cl := rtspref.NewClient(rc.conn)
	// OPTIONS and DESCRIBE are written at once and lal has processed both when this function returns (it answers the
	// DESCRIBE at once, or has registered the subscriber as waiting for the session description): from here on the
	// subscriber is known to the group.  Everything else happens in the consumer's own goroutine.
	_, e1 := cl.WriteRequest("OPTIONS", rtspURI, nil, nil)
	_, e2 := cl.WriteRequest("DESCRIBE", rtspURI, map[string]string{"Accept": "application/sdp"}, nil)
	if e1 != nil || e2 != nil {
		lalclient.Harness("rtsp consumer: write: %v %v", e1, e2)
	}
	if !rc.conn.WaitPeerIdle(lalclient.IdleTimeout) {
		lalclient.Harness("rtsp consumer: lal did not process OPTIONS / DESCRIBE")
	}
	go func() {
		defer close(rc.done)
		r, err := cl.ReadResponse() // OPTIONS
		if err == nil {
			r, err = cl.ReadResponse() // DESCRIBE: answered once the stream has a session description
		}
		rc.mu.Lock()
		rc.ansEnds = int(atomic.LoadInt32(&w.endsSeen))
		if r != nil {
			rc.status, rc.sdp = r.Status, r.Body
		}
		rc.joinErr = err
		rc.mu.Unlock()
		if err != nil || r.Status != 200 {
			return
		}
		if err := cl.SetupPlay(rtspURI, rtspref.SdpControls(r.Body)); err != nil {
			rc.mu.Lock()
			rc.joinErr = err
			rc.mu.Unlock()
			return
		}
		rc.mu.Lock()
		rc.playing = true
		rc.mu.Unlock()
		for {
			f, err := cl.ReadFrame()
			if err != nil {
				return
			}
			rc.mu.Lock()
			rc.frames = append(rc.frames, f)
			rc.mu.Unlock()
		}
	}()
	return rc
}

func (rc *rtspCons) nframes() (int, bool) {
	rc.mu.Lock()
	defer rc.mu.Unlock()
	return len(rc.frames), rc.playing
}

// leaveRtsp waits until nothing is in flight any more (two quiet periods),
// closes the connection and judges what arrived.
func (w *world) leaveRtsp(a *attached) *pbt.Violation {
	rc := a.rs
	if v := w.rtspHeldBack(a); v != nil {
		_ = rc.conn.Close()
		return v
	}
	prev, quiet := -1, 0
	for quiet < 2 {
		n, playing := rc.nframes()
		if !playing {
			break
		}
		if n == prev {
			quiet++
		} else {
			quiet, prev = 0, n
		}
		select {
		case <-rc.done:
			quiet = 2
		case <-time.After(30 * time.Millisecond):
		}
	}
	_ = rc.conn.Close()
	select {
	case <-rc.done:
	case <-time.After(lalclient.IdleTimeout):
		lalclient.Harness("rtsp consumer goroutine did not end")
	}
	rc.conn.WaitPeerDone(lalclient.IdleTimeout)
	return w.checkRtspConsumer(a)
}

func isParamSet(codec string, n []byte) (ps bool, pps bool) {
	if len(n) == 0 {
		return false, false
	}
	if codec == "hevc" {
		t := int(n[0]>>1) & 0x3f
		return t >= 32 && t <= 34, t == 34
	}
	t := int(n[0] & 0x1f)
	return t == 7 || t == 8, t == 8
}

func isNeutralNal(codec string, n []byte) bool {
	if len(n) == 0 {
		return true
	}
	if codec == "hevc" {
		t := int(n[0]>>1) & 0x3f
		return t == 35 || t == 39 || t == 40
	}
	t := int(n[0] & 0x1f)
	return t == 9 || t == 6
}

func (w *world) checkRtspConsumer(a *attached) *pbt.Violation {
	rc := a.rs
	rc.mu.Lock()
	sdp, status, jerr, playing, frames, ansEnds := rc.sdp, rc.status, rc.joinErr, rc.playing, rc.frames, rc.ansEnds
	rc.mu.Unlock()
	if sdp == nil {
		return nil // never answered: no incarnation it watched produced a session description — not judged here
	}
	if status != 200 {
		return nil
	}
	pbt.Count("rtsp_consumers_described", 1)
	sess, err := sdpref.Parse(sdp)
	if err != nil {
		return pbt.V("rtsp/sdp-unparseable", "RTSP consumer %d: %v\n%s", a.idx, err, sdp)
	}
	tracks, err := sess.Tracks()
	if err != nil {
		return pbt.V("rtsp/sdp-unparseable", "RTSP consumer %d: %v\n%s", a.idx, err, sdp)
	}
	// multi: the consumer stayed attached across an input end into a later incarnation — a new RTP source per
	// incarnation is then legitimate, and the codecs of its session description need not fit the successor
	multi := int(atomic.LoadInt32(&w.endsSeen))-a.ends0 >= 2
	// The DESCRIBE is answered by the incarnation that is live when the stream has a session description: the one it
	// was issued in, or — the consumer stayed attached — a later one.  ansEnds was read right after the answer
	// arrived, so the answering incarnation lies in [minInc, ansEnds].
	hi := ansEnds
	if hi >= len(w.c.Incs) {
		hi = len(w.c.Incs) - 1
	}
	var (
		k              int
		in             Inc
		cd             gen.Codecs
		who, prevNote  string
		vps, sps, pps  []byte
		vch, ach       int
		vcodec, acodec string
		dummyA         bool
		sdpV           *pbt.Violation
	)
	for k = a.minInc; k <= hi; k++ {
		in = w.c.Incs[k]
		cd = in.Codecs
		who = fmt.Sprintf("RTSP consumer %d (DESCRIBE issued in incarnation %d at %d, answered by incarnation %d [%s input, %s])", a.idx, a.minInc, a.spec.JoinAt, k, in.Input, shape(cd))
		vps, sps, pps = gen.ParamSets(cd.Video, incVariant(in))
		prevNote = ""
		if k > 0 {
			prevNote = fmt.Sprintf(" (the previous incarnation was %s over %s)", shape(w.c.Incs[k-1].Codecs), w.c.Incs[k-1].Input)
		}
		vch, ach, vcodec, acodec, dummyA = -1, -1, "", "", false
		sdpV = func() *pbt.Violation {
			for ti, tr := range tracks {
				switch tr.MediaType {
				case "video":
					vch = 2 * ti
					switch tr.Encoding {
					case "H264":
						vcodec = "avc"
					case "H265":
						vcodec = "hevc"
					}
					if cd.Video == "" || vcodec != cd.Video {
						return pbt.V("inherited/rtsp-sdp", "%s: the session description announces %s video, the incarnation publishes %q%s:\n%s", who, tr.Encoding, cd.Video, prevNote, sdp)
					}
					if len(tr.PPS) > 0 && !ownPPS(in, tr.PPS[len(tr.PPS)-1]) || len(tr.SPS) > 0 && !ownSPS(in, tr.SPS[len(tr.SPS)-1]) || (vcodec == "hevc" && len(tr.VPS) > 0 && !bytes.Equal(tr.VPS[len(tr.VPS)-1], vps)) {
						return pbt.V("inherited/rtsp-sdp", "%s: the session description carries sps=%x pps=%x, the incarnation's parameter sets are sps=%x pps=%x%s", who, tr.SPS, tr.PPS, sps, pps, prevNote)
					}
				case "audio":
					ach = 2 * ti
					if tr.Encoding == "MPEG4-GENERIC" {
						acodec = "aac"
						if w.c.DummyAudio && cd.Audio == "" {
							dummyA = true // silent AAC track of the dummy-audio filter
							continue
						}
						if cd.Audio != "aac" {
							return pbt.V("inherited/rtsp-sdp", "%s: the session description announces AAC audio, the incarnation publishes audio %q%s:\n%s", who, cd.Audio, prevNote, sdp)
						}
						if want := gen.Asc(cd.AscObj, cd.AscFreq, cd.AscChan); len(tr.Config) > 0 && !bytes.Equal(tr.Config, want) {
							return pbt.V("inherited/rtsp-sdp", "%s: the session description carries AAC config %x, the incarnation's is %x%s", who, tr.Config, want, prevNote)
						}
					} else if cd.Audio == "" || cd.Audio == "aac" {
						return pbt.V("inherited/rtsp-sdp", "%s: the session description announces %s audio, the incarnation publishes audio %q%s:\n%s", who, tr.Encoding, cd.Audio, prevNote, sdp)
					}
				}
			}
			return nil
		}()
		if sdpV == nil {
			break
		}
	}
	if sdpV != nil {
		return sdpV
	}
	if jerr != nil || !playing {
		return nil // SETUP / PLAY did not complete before the connection went away (input ended meanwhile)
	}
	pbt.Count("rtsp_consumers_playing", 1)
	pbt.Count("rtsp_frames_judged", len(frames))

	// per channel: one RTP source, decodable, units of this incarnation, none twice
	for _, ch := range []int{vch, ach} {
		if ch < 0 {
			continue
		}
		codec := vcodec
		if ch == ach {
			codec = acodec
		}
		var pkts []*rtpref.Packet
		ssrcs := map[uint32]int{}
		var order []uint32
		for _, f := range frames {
			if f.Channel != ch {
				continue
			}
			pk, err := rtpref.Parse(f.Payload)
			if err != nil {
				return pbt.V("rtsp/rtp-unparseable", "%s: channel %d: %v", who, ch, err)
			}
			if ssrcs[pk.SSRC] == 0 {
				order = append(order, pk.SSRC)
			}
			ssrcs[pk.SSRC]++
			pkts = append(pkts, pk)
		}
		if len(ssrcs) > 1 && !multi {
			desc := ""
			for _, s := range order {
				desc += fmt.Sprintf(" %#x (%d packets)", s, ssrcs[s])
			}
			return pbt.V("inherited/rtsp-second-rtp-source", "%s: interleaved channel %d (%s) carries RTP packets of %d different sources:%s — one publisher is attached%s", who, ch, codec, len(ssrcs), desc, prevNote)
		}
		if codec == "" || len(pkts) == 0 {
			continue
		}
		if dummyA && ch == ach {
			continue
		}
		seen := map[string]bool{}
		curInc := k
		for si, ssrc := range order {
			// a consumer that stayed into a later incarnation may see packets its session description was not made for
			// (other codec, silent AAC of the dummy-audio filter) on any source, also on the first one it receives
			// anything from: only recognised units are judged then
			lenient := multi
			_ = si
			var seg []*rtpref.Packet
			for _, pk := range pkts {
				if pk.SSRC == ssrc {
					seg = append(seg, pk)
				}
			}
			broken := false
			for x := 1; x < len(seg); x++ {
				if seg[x].Seq != seg[x-1].Seq+1 {
					if lenient {
						broken = true
						break
					}
					return pbt.V("rtsp/rtp-sequence-broken", "%s: channel %d (%s): packet %d has sequence number %d after %d (ts %d after %d)%s", who, ch, codec, x, seg[x].Seq, seg[x-1].Seq, seg[x].TS, seg[x-1].TS, prevNote)
				}
			}
			if broken {
				continue
			}
			d := rtpref.NewDepacketizer(rtpref.Codec(codec))
			// the subscriber may have joined inside a fragmented unit: skip leading continuation fragments
			var units []rtpref.Unit
			started := false
			for _, pk := range seg {
				us, err := d.Push(pk)
				if err != nil {
					if !started {
						d = rtpref.NewDepacketizer(rtpref.Codec(codec))
						continue
					}
					if lenient {
						break
					}
					return pbt.V("rtsp/rtp-undecodable", "%s: channel %d (%s): packet seq %d: %v", who, ch, codec, pk.Seq, err)
				}
				started = true
				units = append(units, us...)
			}
			for ui, u := range units {
				key := string(u.Data)
				if ref, ok := w.units[key]; ok {
					if ref.inc < k || ref.inc < curInc || (!multi && ref.inc != k) {
						return pbt.V("inherited/rtsp", "%s: channel %d: unit %d (%d bytes, rtp ts %d) is the %s — a unit of incarnation %d (after units of incarnation %d)%s", who, ch, ui, len(u.Data), u.TS, ref.what, ref.inc, curInc, prevNote)
					}
					curInc = ref.inc
					if seen[key] {
						return pbt.V("duplicate/rtsp", "%s: channel %d: the %s was delivered twice (second time as unit %d, rtp ts %d, seq %d..%d)%s", who, ch, ref.what, ui, u.TS, u.FirstSeq, u.LastSeq, prevNote)
					}
					seen[key] = true
					continue
				}
				if lenient {
					continue
				}
				if ch == vch {
					if ps, isPps := isParamSet(codec, u.Data); ps {
						if isPps && !ownPPS(in, u.Data) {
							return pbt.V("inherited/rtsp-parameter-sets", "%s: channel %d: in-band PPS %x is not the incarnation's %x%s", who, ch, u.Data, pps, prevNote)
						}
						continue
					}
					if isNeutralNal(codec, u.Data) {
						continue
					}
				}
				hd := u.Data
				if len(hd) > 16 {
					hd = hd[:16]
				}
				return pbt.V("rtsp/unknown-unit", "%s: channel %d (%s): unit %d (%d bytes, % x.., rtp ts %d) is nothing the publisher sent%s", who, ch, codec, ui, len(u.Data), hd, u.TS, prevNote)
			}
		}
	}
	return nil
}

// rtspHeldBack (audit-2 entry 5): a subscriber that ought to have been served
// and received nothing.
//
//	A. Its DESCRIBE was registered (synchronously, see joinRtsp) in or before
//	   incarnation k, k ended in a way that keeps subscribers, and k produced a
//	   session description for certain (RTSP input: always; RTMP-message
//	   kinds: 17 audio / video messages — lal's rtmp->rtsp remuxer decides after
//	   16 at the latest): the DESCRIBE must have been answered.
//	B. The harness saw its PLAY completed and incarnation m then published 17
//	   more audio / video messages including a key frame (stream with video):
//	   RTP must have arrived.
//
// Not applied with the dummy-audio filter (it holds messages back), nor when
// lal disposed the subscriber together with the input.
func (w *world) rtspHeldBack(a *attached) *pbt.Violation {
	if w.c.DummyAudio {
		return nil
	}
	rc := a.rs
	wait := func(pred func() bool) bool {
		deadline := time.Now().Add(lalclient.DeliverTimeout)
		for !pred() {
			select {
			case <-rc.done:
				return pred()
			case <-time.After(2 * time.Millisecond):
			}
			if time.Now().After(deadline) {
				return false
			}
		}
		return true
	}
	// A
	if k := w.incAt(a.j); k >= 0 && w.endKeeps(k) {
		in := w.c.Incs[k]
		n, _ := w.mediaAfter(k, 0)
		due := (in.Input == "rtsp" && n > 0) || (in.Input != "rtsp" && in.Input != "gb" && n >= 17) || (in.Input == "gb" && n >= 24)
		if due {
			pbt.Count("heldback_rule_rtsp_describe_due", 1)
			answered := func() bool { rc.mu.Lock(); defer rc.mu.Unlock(); return rc.sdp != nil || rc.joinErr != nil || rc.status != 0 }
			if !wait(answered) {
				return pbt.V("held-back/rtsp", "RTSP consumer %d: its DESCRIBE was registered before published index %d; incarnation %d (%s input, %s) then published %d audio / video messages and ended by %s, yet the DESCRIBE was never answered (no session description for the successor?)", a.idx, a.j, k, in.Input, shape(in.Codecs), n, in.End)
			}
		}
	}
	// B
	// (only when the session was negotiated against incarnation m itself: no input ended between the consumer's join and
	// the moment its PLAY was seen completed, and m is the incarnation it registered in / for.  A session whose
	// description belongs to a predecessor has no channel for the successor's tracks — what it should receive is not
	// defined by the property, see "stayers")
	if a.playIdx >= 0 && a.playIdx < len(w.P) && a.playEnds == a.ends0 && w.P[a.playIdx].inc == w.incAt(a.j) {
		m := w.P[a.playIdx].inc
		n, key := w.mediaAfter(m, a.playIdx)
		in := w.c.Incs[m]
		// RTSP / GB28181 inputs: lal's A/V interleave queue / PS unpacker releases a frame only when later frames of the
		// tracks have arrived, so a key frame at the very end of the input never reaches the subscriber (not asserted, see
		// the known finding rtsp-input/tail-lost-at-end): the key frame must be followed by more frames of every track
		if remuxed(in.Input) && in.Codecs.Video != "" {
			key = w.keyFollowed(m, a.playIdx, in.Codecs.Audio != "")
		}
		if w.endKeeps(m) && n >= 17 && (key || in.Codecs.Video == "") && !(in.Input == "gb" && n < 24) {
			pbt.Count("heldback_rule_rtsp_rtp_due", 1)
			got := func() bool { n, _ := rc.nframes(); return n > 0 }
			if !wait(got) {
				return pbt.V("held-back/rtsp", "RTSP consumer %d: PLAY had completed before published index %d; incarnation %d (%s input, %s) then published %d audio / video messages (key frame among them: %v) and ended by %s, yet not a single RTP packet arrived", a.idx, a.playIdx, m, in.Input, shape(in.Codecs), n, key, in.End)
			}
		}
	}
	return nil
}

// keyFollowed: incarnation i published, at index >= from, a key frame that is
// followed by at least two more video messages and (withAudio) two more audio
// messages.
func (w *world) keyFollowed(i, from int, withAudio bool) bool {
	lo, hi := w.bounds[i][0], w.bounds[i][1]
	if from > lo {
		lo = from
	}
	for x := lo; x < hi; x++ {
		if !w.P[x].key {
			continue
		}
		v, a := 0, 0
		for y := x + 1; y < hi; y++ {
			switch w.P[y].kind {
			case "video":
				v++
			case "audio":
				a++
			}
		}
		if v >= 2 && (!withAudio || a >= 2) {
			return true
		}
	}
	return false
}
