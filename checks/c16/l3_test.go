package c16

// L3 part of C16: a real ServerManager.RunLoop (listeners on loopback, the real
// 1 s ticker) and clients over TCP.
//
//   - a name with no sessions left disappears from StatAllGroup (healthy: at the
//     next tick);
//   - a publisher that stops sending is disconnected by the idle check
//     (base.LogicCheckSessionAliveIntervalSec lowered to 2 s: healthy within
//     two sweeps, < 6 s);
//   - once every session has gone and the group has been removed, the
//     goroutines that run lal / naza code (grouped by creation site) and the
//     descriptors of the process are back at the baseline taken when the
//     manager was up and idle.
//
// Wall-clock guards: 60 s (60 x the healthy value of the removal — the next
// tick —, >= 10 x that of the idle disconnect) and only together with corroboration — the
// harness runs its own 1 s ticker in the same process and requires it to have
// fired at least 30 times, and lal's own predicates (Group.IsInactive, the
// session still listed by StatGroup) must agree; otherwise the case is
// inconclusive (HarnessError), never a violation.

import (
	"fmt"
	"io"
	"net"
	"os"
	"regexp"
	"sort"
	"strings"
	"sync"
	"sync/atomic"
	"testing"
	"time"

	"github.com/q191201771/lal/pkg/base"
	"github.com/q191201771/lal/pkg/logic"
	"pgregory.net/rapid"

	"verif/drv/pbt"
	"verif/gen"
	"verif/harness/inproc"
	"verif/harness/lalclient"
	"verif/harness/stub"
	"verif/ref/rtmpref"
)

type L3Case struct {
	Hls    bool       `json:"hls"`
	RecFlv bool       `json:"rec_flv"`
	RecTs  bool       `json:"rec_ts"`
	Hook   bool       `json:"hook"`
	Push   bool       `json:"push"`
	Subs   []string   `json:"subs"` // rtmp | flv | ts
	Cycles int        `json:"cycles"`
	Codecs gen.Codecs `json:"codecs"`
	Items  []gen.Item `json:"items"`
	End    string     `json:"end"`        // close | silent : how the last publisher ends
	SubsGo string     `json:"subs_leave"` // before | after the publisher's end | lal (silent only: left to the idle check)
}

const l3Stream = "c16l3"

func genL3(t *rapid.T) L3Case {
	var c L3Case
	c.Hls = rapid.Bool().Draw(t, "hls")
	c.RecFlv = rapid.Bool().Draw(t, "recFlv")
	c.RecTs = rapid.Bool().Draw(t, "recTs")
	c.Hook = rapid.Bool().Draw(t, "hook")
	c.Push = rapid.IntRange(0, 2).Draw(t, "push") == 0
	n := rapid.IntRange(0, 3).Draw(t, "nsubs")
	for i := 0; i < n; i++ {
		c.Subs = append(c.Subs, rapid.SampledFrom([]string{"rtmp", "flv", "ts"}).Draw(t, "sub"))
	}
	c.Cycles = rapid.SampledFrom([]int{1, 1, 2}).Draw(t, "cycles")
	c.Codecs = genCodecs(t, 0, "rtmp")
	c.Items, _ = genItems(t, c.Codecs, 0, 0, 1000, false)
	c.End = rapid.SampledFrom([]string{"close", "close", "silent"}).Draw(t, "end")
	opts := []string{"before", "after"}
	if c.End == "silent" {
		opts = append(opts, "lal")
	}
	c.SubsGo = rapid.SampledFrom(opts).Draw(t, "subsLeave")
	return c
}

func classifyL3(c L3Case) (bool, []string) {
	labels := []string{"l3-end:" + c.End, "l3-subs-leave:" + c.SubsGo, fmt.Sprintf("l3-subs:%d", len(c.Subs)), fmt.Sprintf("l3-cycles:%d", c.Cycles)}
	for name, on := range map[string]bool{"hls": c.Hls, "rec-flv": c.RecFlv, "rec-ts": c.RecTs, "hook": c.Hook, "push": c.Push} {
		if on {
			labels = append(labels, "l3-out:"+name)
		}
	}
	sort.Strings(labels)
	return c.End == "silent" || len(c.Subs) > 0 || c.Push, labels
}

// ---------------------------------------------------------------------------
// process observation

var reGoroutine = regexp.MustCompile(`(?m)^goroutine \d+ \[`)

// lalGoroutines groups the goroutines that run (or were created by) lal / naza
// code by creation site.
func lalGoroutines() map[string]int {
	out := map[string]int{}
	for _, blk := range strings.Split(allStacks(), "\n\n") {
		if !reGoroutine.MatchString(blk) || !strings.Contains(blk, "github.com/q191201771/") {
			continue
		}
		if strings.Contains(blk, "verif/checks/c16.lalGoroutines") {
			continue // the observer itself (its stack shows harness frames that mention the import path only through closures)
		}
		site := "(main)"
		if i := strings.LastIndex(blk, "created by "); i >= 0 {
			site = blk[i+len("created by "):]
			if j := strings.IndexAny(site, " \n"); j >= 0 {
				site = site[:j]
			}
		}
		out[site]++
	}
	return out
}

func fdTargets() []string {
	ents, err := os.ReadDir("/proc/self/fd")
	if err != nil {
		lalclient.Harness("/proc/self/fd: %v", err)
	}
	var out []string
	for _, e := range ents {
		t, err := os.Readlink("/proc/self/fd/" + e.Name())
		if err != nil {
			continue // the descriptor of the directory listing itself
		}
		out = append(out, t)
	}
	sort.Strings(out)
	return out
}

type procState struct {
	gor map[string]int
	fds []string
}

func observe() procState { return procState{gor: lalGoroutines(), fds: fdTargets()} }

func (p procState) key() string {
	var ks []string
	for k, v := range p.gor {
		ks = append(ks, fmt.Sprintf("%s=%d", k, v))
	}
	sort.Strings(ks)
	return strings.Join(ks, ",") + fmt.Sprintf("|fds=%d", len(p.fds))
}

// diff describes what p has beyond base ("" if nothing).
func (p procState) diff(base procState) string {
	var parts []string
	for k, v := range p.gor {
		if v > base.gor[k] {
			parts = append(parts, fmt.Sprintf("%d more goroutine(s) created by %s", v-base.gor[k], k))
		}
	}
	sort.Strings(parts)
	if len(p.fds) > len(base.fds) {
		have := map[string]int{}
		for _, f := range base.fds {
			have[f]++
		}
		var extra []string
		for _, f := range p.fds {
			if have[f] > 0 {
				have[f]--
			} else {
				extra = append(extra, f)
			}
		}
		parts = append(parts, fmt.Sprintf("%d more open descriptor(s): %v", len(p.fds)-len(base.fds), extra))
	}
	return strings.Join(parts, "; ")
}

// stableObservation polls until three consecutive observations agree.
func stableObservation(limit time.Duration) (procState, bool) {
	deadline := time.Now().Add(limit)
	var last procState
	same := 0
	for time.Now().Before(deadline) {
		cur := observe()
		if same > 0 && cur.key() == last.key() {
			same++
		} else {
			same = 1
		}
		last = cur
		if same >= 3 {
			return cur, true
		}
		time.Sleep(50 * time.Millisecond)
	}
	return last, false
}

// ---------------------------------------------------------------------------
// clients over TCP

type countingConn struct {
	net.Conn
	sent int64
}

func (c *countingConn) Write(b []byte) (int, error) {
	n, err := c.Conn.Write(b)
	atomic.AddInt64(&c.sent, int64(n))
	return n, err
}

type tcpSub struct {
	kind string
	conn net.Conn
	done chan struct{} // closed when the read loop saw EOF / error
	n    int64
}

func freePort() int {
	ln, err := net.Listen("tcp", "127.0.0.1:0")
	if err != nil {
		lalclient.Harness("no free port: %v", err)
	}
	defer ln.Close()
	return ln.Addr().(*net.TCPAddr).Port
}

func dialRetry(addr string, limit time.Duration) (net.Conn, error) {
	deadline := time.Now().Add(limit)
	for {
		c, err := net.DialTimeout("tcp", addr, time.Second)
		if err == nil {
			return c, nil
		}
		if time.Now().After(deadline) {
			return nil, err
		}
		time.Sleep(5 * time.Millisecond)
	}
}

func rtmpPublishTCP(addr string) (*countingConn, *rtmpref.Client, error) {
	raw, err := dialRetry(addr, 10*time.Second)
	if err != nil {
		return nil, nil, err
	}
	cc := &countingConn{Conn: raw}
	cl := rtmpref.NewClient(cc)
	_ = raw.SetDeadline(time.Now().Add(lalclient.IdleTimeout))
	for _, st := range []func() error{
		cl.Handshake,
		func() error { return cl.Connect("live", "rtmp://"+addr+"/live") },
		func() error { return cl.SetChunkSize(4096) },
		cl.CreateStream,
		func() error { return cl.Publish(l3Stream) },
	} {
		if err := st(); err != nil {
			raw.Close()
			return nil, nil, err
		}
	}
	_ = raw.SetDeadline(time.Time{})
	return cc, cl, nil
}

func subscribeTCP(kind, rtmpAddr, httpAddr string) (*tcpSub, error) {
	s := &tcpSub{kind: kind, done: make(chan struct{})}
	if kind == "rtmp" {
		raw, err := dialRetry(rtmpAddr, 10*time.Second)
		if err != nil {
			return nil, err
		}
		cl := rtmpref.NewClient(raw)
		_ = raw.SetDeadline(time.Now().Add(lalclient.IdleTimeout))
		for _, st := range []func() error{
			cl.Handshake,
			func() error { return cl.Connect("live", "rtmp://"+rtmpAddr+"/live") },
			cl.CreateStream,
			func() error { return cl.Play(l3Stream) },
		} {
			if err := st(); err != nil {
				raw.Close()
				return nil, err
			}
		}
		_ = raw.SetDeadline(time.Time{})
		s.conn = raw
	} else {
		raw, err := dialRetry(httpAddr, 10*time.Second)
		if err != nil {
			return nil, err
		}
		if _, err := fmt.Fprintf(raw, "GET /live/%s.%s HTTP/1.1\r\nHost: %s\r\nUser-Agent: verif\r\n\r\n", l3Stream, kind, httpAddr); err != nil {
			raw.Close()
			return nil, err
		}
		s.conn = raw
	}
	go func() {
		n, _ := io.Copy(io.Discard, s.conn)
		atomic.StoreInt64(&s.n, n)
		close(s.done)
	}()
	return s, nil
}

// harnessTicker counts the harness' own 1 s ticks: corroboration that the
// process was scheduled while lal's ticker had the same opportunity.
type harnessTicker struct {
	n    int64
	stop chan struct{}
	wg   sync.WaitGroup
}

func startTicker() *harnessTicker {
	h := &harnessTicker{stop: make(chan struct{})}
	h.wg.Add(1)
	go func() {
		defer h.wg.Done()
		t := time.NewTicker(time.Second)
		defer t.Stop()
		for {
			select {
			case <-t.C:
				atomic.AddInt64(&h.n, 1)
			case <-h.stop:
				return
			}
		}
	}()
	return h
}
func (h *harnessTicker) ticks() int64 { return atomic.LoadInt64(&h.n) }
func (h *harnessTicker) close()       { close(h.stop); h.wg.Wait() }

const l3Guard = 60 * time.Second
const l3MinTicks = 30

// ---------------------------------------------------------------------------

func runL3(c L3Case) *pbt.Violation {
	prevInterval := base.LogicCheckSessionAliveIntervalSec
	base.LogicCheckSessionAliveIntervalSec = 2
	defer func() { base.LogicCheckSessionAliveIntervalSec = prevInterval }()

	var st *stub.RtmpStub
	var addrs []string
	if c.Push {
		var err error
		if st, err = stub.NewRtmpStub(); err != nil {
			lalclient.Harness("stub listen: %v", err)
		}
		defer st.Close()
		addrs = []string{st.Addr}
	}

	// the manager with real listeners
	var s *inproc.Server
	var rtmpAddr, httpAddr string
	var loopErr chan error
	for attempt := 0; ; attempt++ {
		rtmpAddr = fmt.Sprintf("127.0.0.1:%d", freePort())
		httpAddr = fmt.Sprintf("127.0.0.1:%d", freePort())
		s = inproc.New(inproc.Config{DisableRtsp: true, Hls: c.Hls, HlsFragmentMs: 1000, RecordFlv: c.RecFlv, RecordTs: c.RecTs, PushAddrs: addrs, Hook: c.Hook,
			Mod: func(lc *logic.Config) {
				lc.RtmpConfig.Addr = rtmpAddr
				lc.DefaultHttpConfig.HttpListenAddr = httpAddr
			}})
		loopErr = make(chan error, 1)
		go func(sm *logic.ServerManager, ch chan error) { ch <- sm.RunLoop() }(s.SM, loopErr)
		ok := false
		deadline := time.Now().Add(10 * time.Second)
		for !ok && time.Now().Before(deadline) {
			select {
			case <-loopErr:
				deadline = time.Now() // a listener could not be opened: port taken by another process
			default:
				c1, e1 := net.DialTimeout("tcp", rtmpAddr, time.Second)
				if e1 == nil {
					c1.Close()
					c2, e2 := net.DialTimeout("tcp", httpAddr, time.Second)
					if e2 == nil {
						c2.Close()
						ok = true
					}
				}
				if !ok {
					time.Sleep(5 * time.Millisecond)
				}
			}
		}
		if ok {
			break
		}
		s.Close()
		if attempt >= 5 {
			lalclient.Harness("lal's listeners did not come up on loopback after %d attempts", attempt+1)
		}
	}
	defer s.Close()
	tick := startTicker()
	defer tick.close()

	// the probe connections above are sessions too: wait until they are gone, then take the baseline
	baseState, ok := stableObservation(20 * time.Second)
	if !ok {
		lalclient.Harness("no stable baseline observation")
	}

	var subs []*tcpSub
	closeSubs := func() {
		for _, sb := range subs {
			sb.conn.Close()
		}
		for _, sb := range subs {
			select {
			case <-sb.done:
			case <-time.After(lalclient.IdleTimeout):
				lalclient.Harness("subscriber read loop did not end after close")
			}
		}
		subs = nil
	}
	defer closeSubs()
	var pushConns []*stub.Conn
	var pubConn *countingConn
	defer func() {
		if pubConn != nil {
			pubConn.Close()
		}
		for _, pc := range pushConns {
			pc.Close()
		}
	}()

	for cyc := 0; cyc < c.Cycles; cyc++ {
		lastCycle := cyc == c.Cycles-1
		if cyc == 0 {
			for _, k := range c.Subs {
				sb, err := subscribeTCP(k, rtmpAddr, httpAddr)
				if err != nil {
					lalclient.Harness("subscribe %s over tcp: %v", k, err)
				}
				subs = append(subs, sb)
			}
			// attached?
			deadline := time.Now().Add(lalclient.IdleTimeout)
			for {
				sg := s.SM.StatGroup(l3Stream)
				if len(c.Subs) == 0 || (sg != nil && len(sg.StatSubs) >= len(c.Subs)) {
					break
				}
				if time.Now().After(deadline) {
					lalclient.Harness("subscribers not attached")
				}
				time.Sleep(time.Millisecond)
			}
		}
		cc, cl, err := rtmpPublishTCP(rtmpAddr)
		if err != nil {
			if v := s.PanicViolation(); v != nil {
				return v
			}
			return pbt.V("l3/publish-refused", "cycle %d: %v (every earlier publisher had closed its connection and its teardown was awaited)", cyc, err)
		}
		pubConn = cc
		if c.Push {
			sc := st.Accept(lalclient.IdleTimeout)
			if sc == nil {
				lalclient.Harness("cycle %d: lal did not dial the push target", cyc)
			}
			pushConns = append(pushConns, sc)
			if err := sc.Handshake(); err != nil {
				lalclient.Harness("push handshake: %v", err)
			}
			if err := sc.ServeUntilPlayOrPublish(); err != nil {
				lalclient.Harness("push commands: %v", err)
			}
			if err := sc.AcceptPublish(); err != nil {
				lalclient.Harness("push accept: %v", err)
			}
			go sc.CollectMedia()
		}
		for _, it := range c.Items {
			m := rtmpref.Msg{Csid: 6, TypeID: it.TypeID(), StreamID: 1, Ts: it.Ts, Payload: it.Payload(c.Codecs)}
			if it.TypeID() == gen.TypeAudio {
				m.Csid = 4
			}
			if err := cl.SendMsg(m, 0); err != nil {
				return pbt.V("l3/publisher-disconnected", "cycle %d: sending %s: %v", cyc, it.Kind, err)
			}
		}
		// everything sent has been read by lal
		deadline := time.Now().Add(lalclient.IdleTimeout)
		for {
			sg := s.SM.StatGroup(l3Stream)
			if sg != nil && sg.StatPub.SessionId != "" && int64(sg.StatPub.ReadBytesSum) >= atomic.LoadInt64(&cc.sent) {
				break
			}
			if time.Now().After(deadline) {
				lalclient.Harness("cycle %d: lal has not read what the publisher sent", cyc)
			}
			time.Sleep(time.Millisecond)
		}
		if v := s.PanicViolation(); v != nil {
			return v
		}

		if lastCycle && c.SubsGo == "before" {
			closeSubs()
		}
		if lastCycle && c.End == "silent" {
			// the publisher keeps its connection and sends nothing more
			t0, k0 := time.Now(), tick.ticks()
			_ = cc.Conn.SetReadDeadline(time.Now().Add(l3Guard))
			_, rerr := io.Copy(io.Discard, cc.Conn)
			if ne, isNet := rerr.(net.Error); isNet && ne.Timeout() {
				sg := s.SM.StatGroup(l3Stream)
				if tick.ticks()-k0 >= l3MinTicks && sg != nil && sg.StatPub.SessionId != "" {
					return pbt.V("l3/silent-publisher-not-disconnected", "the publisher sent nothing for %v (%d harness ticks; idle check interval 2 s), yet its connection is still open and StatGroup lists its session %s", time.Since(t0).Round(time.Second), tick.ticks()-k0, sg.StatPub.SessionId)
				}
				lalclient.Harness("silent publisher: read timed out without corroboration (%d harness ticks)", tick.ticks()-k0)
			}
			pbt.Count("l3_idle_disconnect_ms", int(time.Since(t0).Milliseconds()))
			pbt.Count("l3_idle_disconnects", 1)
		}
		cc.Close()
		pubConn = nil
		if !lastCycle {
			// the next publisher needs the name free: wait until lal has torn the session down
			deadline := time.Now().Add(lalclient.IdleTimeout)
			for {
				sg := s.SM.StatGroup(l3Stream)
				if sg == nil || sg.StatPub.SessionId == "" {
					break
				}
				if time.Now().After(deadline) {
					lalclient.Harness("cycle %d: publisher session still listed %v after its connection was closed", cyc, lalclient.IdleTimeout)
				}
				time.Sleep(time.Millisecond)
			}
		}
	}
	if c.SubsGo == "lal" {
		// nothing is written to the subscribers any more: the idle check closes them as well
		t0, k0 := time.Now(), tick.ticks()
		for _, sb := range subs {
			select {
			case <-sb.done:
			case <-time.After(l3Guard):
				if tick.ticks()-k0 >= l3MinTicks {
					return pbt.V("l3/idle-subscriber-not-disconnected", "a %s subscriber received nothing for %v (%d harness ticks; idle check interval 2 s) and is still connected", sb.kind, time.Since(t0).Round(time.Second), tick.ticks()-k0)
				}
				lalclient.Harness("idle subscriber: wait timed out without corroboration")
			}
		}
	}
	closeSubs()

	// ---- the name disappears
	t0, k0 := time.Now(), tick.ticks()
	for {
		found := false
		for _, g := range s.SM.StatAllGroup() {
			if g.StreamName == l3Stream {
				found = true
			}
		}
		if !found {
			break
		}
		if time.Since(t0) > l3Guard {
			if tick.ticks()-k0 < l3MinTicks {
				lalclient.Harness("group removal: wait timed out without corroboration (%d harness ticks)", tick.ticks()-k0)
			}
			g := s.SM.GetGroup("live", l3Stream)
			if g != nil && g.IsInactive() {
				return pbt.V("l3/group-not-removed", "every session of %q has been closed %v ago (%d harness ticks), Group.IsInactive() is true, but StatAllGroup still lists the name", l3Stream, time.Since(t0).Round(time.Second), tick.ticks()-k0)
			}
			if g != nil {
				return pbt.V("l3/group-kept-alive", "every session of %q has been closed %v ago (%d harness ticks) but the group still counts sessions: in=%v out=%v stat=%s", l3Stream, time.Since(t0).Round(time.Second), tick.ticks()-k0, g.HasInSession(), g.HasOutSession(), g.StringifyDebugStats(10))
			}
			lalclient.Harness("group listed but not found")
		}
		time.Sleep(20 * time.Millisecond)
	}
	pbt.Count("l3_group_removal_ms", int(time.Since(t0).Milliseconds()))
	pbt.Count("l3_group_removals", 1)
	if v := s.PanicViolation(); v != nil {
		return v
	}

	// ---- back at the baseline
	for _, pc := range pushConns {
		pc.Close()
	}
	pushConns = nil
	t1 := time.Now()
	var lastKey string
	same := 0
	for {
		cur := observe()
		d := cur.diff(baseState)
		if d == "" {
			break
		}
		if cur.key() == lastKey {
			same++
		} else {
			same, lastKey = 1, cur.key()
		}
		if time.Since(t1) > 10*time.Second && same >= 3 {
			sig := "l3/leak/goroutines"
			if !strings.Contains(d, "goroutine") {
				sig = "l3/leak/descriptors"
			}
			return pbt.V(sig, "all sessions are gone and the group has been removed, but %v later (three identical observations) the process is not back at the baseline taken when the manager was idle: %s", time.Since(t1).Round(time.Millisecond), d)
		}
		if time.Since(t1) > 60*time.Second {
			lalclient.Harness("process state neither returns to the baseline nor stabilises: %s", d)
		}
		time.Sleep(300 * time.Millisecond)
	}
	return nil
}

func TestLifecycleL3(t *testing.T) {
	pbt.Run(t, pbt.Spec[L3Case]{
		ID: "C16", Name: "lifecycle-l3", Gen: genL3, Run: runL3, Classify: classifyL3,
		Quick: 3, Thorough: 14, Isolate: true,
	})
}
