// C16 — when an input ends every output is finalised once and the name starts
// clean.
//
// L2 part (this file, run_test.go, oracle_test.go): a generated configuration
// (RTMP / HTTP-FLV / HTTP-TS subscribers, HLS, FLV + TS recording, relay push to
// stub targets on loopback, stream hook) and 1-3 incarnations of one stream
// name.  Each incarnation is published by a reference RTMP client or through
// the customize-input API, carries its own codecs, and ends by {client close,
// API kick, idle sweep, ServerManager.Dispose} at a generated instant of its
// frame sequence (mid-GOP, with AAC frames still batched in the TS remuxer,
// right after a key frame that opened an HLS segment, after headers only, with
// the TS probe queue still filling).  After every end the outputs are read back
// with the reference parsers (ref/flvref, ref/tsref, ref/m3u8ref) and judged;
// consumers that join a later incarnation (or stay attached across the end)
// are judged on what they receive.
//
// RTSP legs (rtsp_test.go): every incarnation draws its input protocol
// independently (RTMP, customize, RTSP ANNOUNCE/RECORD over interleaved TCP
// with RTP from the reference packetisers) and RTSP subscribers (DESCRIBE /
// SETUP / PLAY) watch incarnations of any kind: the SDP, the RTP sources and
// every elementary unit they receive must be the watched incarnation's own —
// state of a predecessor's per-input machinery (remuxers, SDP, caches) must
// not survive in the group.  Messages of an RTSP incarnation reach RTMP / FLV
// consumers and the recordings through lal's RTP -> RTMP remuxer; they are
// attributed by content (units of that incarnation only, none twice).
//
// More incarnation kinds (inputs_test.go): RTMP relay pull from a stub origin
// (ends: origin close, CtrlStopRelayPull, kick, idle sweep, shutdown) and
// GB28181 in TCP mode (ends: disconnect + session timeout, kick, timeout,
// shutdown).  In one case of five the dummy-audio filter is enabled.  After the
// last consumer has left (and after ServerManager.Dispose) the goroutines that
// run lal / naza code and the descriptors of the process must be back at the
// snapshot taken before the first session (run_test.go baselineCheck).
//
// L3 part (l3_test.go): real listeners and the real 1 s ticker of
// ServerManager.RunLoop — group removal, idle disconnect, goroutine /
// descriptor baseline.
//
// Deliberately NOT asserted:
//   - what the RTMP merge-write buffer still holds when the input leaves (the
//     property lists the per-stream outputs that must be finalised; the
//     merge-write buffer is not among them): with merge_write_size > 0 an RTMP
//     subscriber is only judged on "nothing of the predecessor";
//   - that HLS holds frames published before its first segment was opened (lal
//     drops them by design), that an HTTP-TS subscriber which never passed its
//     boundary gate receives the final audio flush, or anything about HTTP-TS
//     subscribers when lal itself disposes them together with the input (idle
//     sweep, shutdown: queued data may be dropped with the connection);
//   - the previous incarnation's FLV / TS recording once a re-publish within the
//     same second has reused its file name (risk register);
//   - media-sequence continuity of playlist.m3u8 across incarnations (C10, known
//     finding), retry / restart rules of relay push (C17): the harness nudges
//     Group.Tick until the push of a later incarnation has been started;
//   - completeness for an RTSP input (its newest frames sit in lal's A/V
//     interleave queue when it ends; the stat fields are filled asynchronously):
//     RTSP incarnations are judged on finalisation structure (parse, ENDLIST,
//     descriptors, hook, push) and on cleanliness, not on "everything published";
//   - exact GOP-cache content and start-up rules (C02), completeness of a
//     consumer's run before the point named below (C01).
package c16

import (
	"fmt"
	"testing"

	"pgregory.net/rapid"

	"verif/drv/pbt"
	"verif/gen"
)

const streamName = "c16stream"

// Cons is one RTMP / HTTP-FLV / HTTP-TS consumer.
type Cons struct {
	Kind   string `json:"kind"`    // rtmp | flv | ts | rtsp
	Inc    int    `json:"inc"`     // incarnation during (or right before) which it joins
	JoinAt int    `json:"join_at"` // -1: after the previous input has gone, before this incarnation's input arrives; k: after items[0..k) were processed
	Stay   bool   `json:"stay"`    // rtmp / flv: stays attached when its incarnation ends (until lal disposes it or the case ends)
}

// Inc is one incarnation of the stream name.
type Inc struct {
	Input  string     `json:"input"` // rtmp | cust | rtsp (ANNOUNCE / RECORD, interleaved) | pull (relay pull from a stub origin) | gb (GB28181, PS over RTP over TCP)
	Codecs gen.Codecs `json:"codecs"`
	Items  []gen.Item `json:"items"`
	End    string     `json:"end"`  // close | kick | idle | dispose | stop (pull: CtrlStopRelayPull)
	// PushLate: the push targets accept the TCP connection but answer the RTMP handshake only after the input has
	// ended (relay push still connecting when the input leaves); otherwise the push sessions are established first.
	PushLate bool `json:"push_late,omitempty"`
	Tail   string     `json:"tail"` // generator's tail class (information only)
}

type Case struct {
	Merge   int    `json:"merge"`
	RtmpGop int    `json:"rtmp_gop"`
	FlvGop  int    `json:"flv_gop"`
	TsGop   int    `json:"ts_gop"`
	Hls     bool   `json:"hls"`
	FragMs  int    `json:"frag_ms"`
	RecFlv  bool   `json:"rec_flv"`
	RecTs   bool   `json:"rec_ts"`
	HttpTs  bool   `json:"http_ts"`
	Rtsp    bool   `json:"rtsp"` // RTSP enabled: RTSP publishers and subscribers are generated
	// DummyAudio: in_session.add_dummy_audio_enable (lal inserts silent AAC frames into streams without audio after
	// DummyWaitMs of video)
	DummyAudio  bool `json:"dummy_audio,omitempty"`
	DummyWaitMs int  `json:"dummy_wait_ms,omitempty"`
	// RtspTail: also demand that everything an RTSP input sent reaches the FLV recording (never generated: see
	// findings/c16.md, known-finding candidate rtsp-input/tail-lost-at-end)
	RtspTail bool `json:"rtsp_tail,omitempty"`
	Push    int    `json:"push"` // number of relay push targets (stubs)
	Hook    bool   `json:"hook"`
	Incs    []Inc  `json:"incs"`
	Cons    []Cons `json:"cons"`
}

// ---------------------------------------------------------------------------
// generator

var ascFreqOfInc = []int{4, 3, 6} // distinct per incarnation: AAC sequence headers of different incarnations differ

func genCodecs(t *rapid.T, inc int, input string) gen.Codecs {
	var cd gen.Codecs
	cd.Video = rapid.SampledFrom([]string{"avc", "avc", "avc", "hevc", "", ""}).Draw(t, "vcodec")
	audio := []string{"aac", "aac", "aac", "aac", "g711a", "opus", "", ""}
	if input == "rtsp" || input == "gb" {
		audio = []string{"aac", "aac", "aac", ""}
	}
	if input == "gb" && cd.Video == "" {
		cd.Video = "avc"
	}
	cd.Audio = rapid.SampledFrom(audio).Draw(t, "acodec")
	if cd.Video == "" && cd.Audio == "" {
		cd.Audio = "aac"
	}
	if cd.Video == "hevc" && input == "rtmp" {
		cd.Enhanced = rapid.IntRange(0, 3).Draw(t, "enhanced") == 0
	}
	if cd.Audio == "aac" {
		cd.AscObj = 2
		cd.AscFreq = ascFreqOfInc[inc%len(ascFreqOfInc)]
		cd.AscChan = rapid.SampledFrom([]int{1, 2}).Draw(t, "ascChan")
	}
	return cd
}

func sliceHdr(cd gen.Codecs, key bool) []byte {
	if cd.Video == "hevc" {
		if key {
			return []byte{19 << 1, 1}
		}
		return []byte{1 << 1, 1}
	}
	if key {
		return []byte{0x65}
	}
	return []byte{0x41}
}

// genItems draws the publish sequence of one incarnation.  variant selects the
// parameter sets / metadata (distinct per incarnation), serialBase keeps every
// NAL unit and audio frame unique across incarnations.
// churn: one video sequence header change between two GOPs (for AVC: to
// parameter sets with other picture dimensions).
func genItems(t *rapid.T, cd gen.Codecs, inc, variant, fragMs int, churn bool) (items []gen.Item, tail string) {
	serial := uint32(inc+1) * 100000
	next := func() uint32 { serial++; return serial }
	ts := rapid.Uint32Range(0, 3000).Draw(t, "startTs")
	var pro []gen.Item
	if rapid.IntRange(0, 2).Draw(t, "hasMeta") != 0 {
		pro = append(pro, gen.Item{Kind: "meta", Ts: 0, Variant: variant, Sdf: rapid.Bool().Draw(t, "sdf")})
	}
	if cd.Video != "" {
		pro = append(pro, gen.Item{Kind: "vsh", Ts: ts, Variant: variant})
	}
	if cd.Audio == "aac" {
		pro = append(pro, gen.Item{Kind: "ash", Ts: ts})
	}
	if len(pro) > 1 && rapid.IntRange(0, 3).Draw(t, "swapPrologue") == 0 {
		pro[len(pro)-1], pro[len(pro)-2] = pro[len(pro)-2], pro[len(pro)-1]
	}
	items = append(items, pro...)

	tails := []string{"mid-gop", "pending-audio", "segment-opened", "after-key", "headers-only", "short", "plain"}
	tail = rapid.SampledFrom(tails).Draw(t, "tail")
	if tail == "headers-only" {
		return items, tail
	}

	nalLen := func() int {
		if rapid.IntRange(0, 11).Draw(t, "nalBig") == 0 {
			return rapid.IntRange(300, 4000).Draw(t, "nalLenBig")
		}
		return rapid.IntRange(8, 300).Draw(t, "nalLen")
	}
	video := func(key bool) gen.Item {
		n := 1
		if rapid.IntRange(0, 5).Draw(t, "twoSlices") == 0 {
			n = 2
		}
		var nals []gen.NalSpec
		for i := 0; i < n; i++ {
			s := next()
			nals = append(nals, gen.NalSpec{Hdr: sliceHdr(cd, key), Len: nalLen(), Seed: s, Serial: s})
		}
		return gen.Item{Kind: "video", Ts: ts, Key: key, Nals: nals, Variant: int(serial)}
	}
	aStep := rapid.SampledFrom([]uint32{23, 21, 64, 10}).Draw(t, "aStep")
	aTs := ts
	audio := func() gen.Item {
		l := rapid.IntRange(8, 300).Draw(t, "alen")
		it := gen.Item{Kind: "audio", Ts: aTs, ALen: l, ASeed: next()}
		aTs += aStep
		return it
	}
	audioUpTo := func(limit uint32, max int) {
		if cd.Audio == "" {
			return
		}
		for n := 0; aTs <= limit && n < max; n++ {
			items = append(items, audio())
		}
		if aTs <= limit {
			aTs = limit + 1 // the audio track does not lag without bound
		}
	}

	if cd.Video == "" {
		n := rapid.IntRange(1, 40).Draw(t, "nAudio")
		if tail == "short" {
			n = rapid.IntRange(1, 6).Draw(t, "nAudioShort")
		}
		for i := 0; i < n; i++ {
			items = append(items, audio())
			if rapid.IntRange(0, 9).Draw(t, "aGap") == 0 {
				aTs += rapid.Uint32Range(100, 1500).Draw(t, "aGapMs")
			}
		}
		return items, tail
	}

	vStep := rapid.SampledFrom([]uint32{40, 40, 33, 250, 700}).Draw(t, "vStep")
	ngops := rapid.IntRange(1, 4).Draw(t, "ngops")
	if tail == "short" {
		ngops = 1
	}
	lastKeyTs := ts
	for g := 0; g < ngops; g++ {
		n := rapid.IntRange(1, 5).Draw(t, "gopLen")
		if tail == "short" {
			n = rapid.IntRange(1, 3).Draw(t, "gopLenShort")
		}
		if tail == "mid-gop" && g == ngops-1 && n < 2 {
			n = 2
		}
		if churn && g == 1 {
			nv := 1 // AVC variants 0 and 2 share one SPS (768x320), variant 1 has another (720x1280)
			if variant == 1 {
				nv = 0
			}
			items = append(items, gen.Item{Kind: "vsh", Ts: ts, Variant: nv})
		}
		for f := 0; f < n; f++ {
			if f == 0 {
				lastKeyTs = ts
			}
			items = append(items, video(f == 0))
			audioUpTo(ts, 6)
			ts += vStep
		}
	}
	switch tail {
	case "after-key":
		items = append(items, video(true))
	case "segment-opened":
		// a key frame at least one fragment duration after the key frame that opened the current segment
		if ts < lastKeyTs+uint32(fragMs) {
			ts = lastKeyTs + uint32(fragMs)
		}
		ts += rapid.Uint32Range(0, 60).Draw(t, "segDelta")
		items = append(items, video(true))
		if cd.Audio != "" && rapid.Bool().Draw(t, "segTailAudio") {
			if aTs < ts {
				aTs = ts
			}
			items = append(items, audio())
		}
	case "pending-audio":
		if cd.Audio != "" {
			if aTs+40 < ts {
				aTs = ts - 40
			}
			k := rapid.IntRange(1, 3).Draw(t, "nPending")
			for i := 0; i < k; i++ {
				items = append(items, audio())
			}
		}
	}
	return items, tail
}

func genCase(t *rapid.T) Case {
	var c Case
	c.Merge = rapid.SampledFrom([]int{0, 0, 0, 0, 300, 4096}).Draw(t, "merge")
	c.RtmpGop = rapid.IntRange(0, 2).Draw(t, "rtmpGop")
	c.FlvGop = rapid.IntRange(0, 2).Draw(t, "flvGop")
	c.TsGop = rapid.IntRange(0, 2).Draw(t, "tsGop")
	c.Hls = rapid.IntRange(0, 3).Draw(t, "hls") != 0
	c.FragMs = rapid.SampledFrom([]int{100, 500, 1000, 3000}).Draw(t, "fragMs")
	c.RecFlv = rapid.IntRange(0, 2).Draw(t, "recFlv") != 0
	c.RecTs = rapid.IntRange(0, 3).Draw(t, "recTs") != 0
	c.HttpTs = rapid.IntRange(0, 3).Draw(t, "httpTs") != 0
	c.Rtsp = rapid.IntRange(0, 4).Draw(t, "rtsp") != 0
	c.Push = rapid.SampledFrom([]int{0, 0, 1, 1, 2}).Draw(t, "push")
	c.Hook = rapid.Bool().Draw(t, "hook")
	if rapid.IntRange(0, 4).Draw(t, "dummyAudio") == 0 {
		c.DummyAudio = true
		c.DummyWaitMs = rapid.SampledFrom([]int{100, 150, 400}).Draw(t, "dummyWaitMs")
	}
	ninc := rapid.SampledFrom([]int{1, 2, 2, 2, 3}).Draw(t, "ninc")
	v0 := rapid.IntRange(0, 2).Draw(t, "variant0")
	for i := 0; i < ninc; i++ {
		var in Inc
		inputs := []string{"rtmp", "rtmp", "rtmp", "cust"}
		if c.Rtsp {
			inputs = []string{"rtmp", "rtmp", "cust", "rtsp", "rtsp"}
		}
		inputs = append(inputs, "gb")
		if c.Hook && !c.DummyAudio {
			inputs = append(inputs, "pull", "pull") // the harness synchronises a pull on the hook's message count
		}
		in.Input = rapid.SampledFrom(inputs).Draw(t, "input")
		in.Codecs = genCodecs(t, i, in.Input)
		churn := (in.Input == "rtmp" || in.Input == "cust" || in.Input == "pull") && in.Codecs.Video != "" && rapid.IntRange(0, 2).Draw(t, "churn") == 0
		in.Items, in.Tail = genItems(t, in.Codecs, i, (v0+i)%3, c.FragMs, churn)
		ends := []string{"close", "close", "kick", "idle"}
		if in.Input == "cust" {
			ends = []string{"close"}
		}
		if in.Input == "pull" {
			ends = []string{"close", "stop", "kick", "idle"}
		}
		if i == ninc-1 {
			ends = append(ends, "dispose")
			if in.Input == "cust" {
				ends = append(ends, "dispose")
			}
		}
		in.End = rapid.SampledFrom(ends).Draw(t, "end")
		if (in.Input == "rtmp" || in.Input == "rtsp") && c.Push > 0 {
			in.PushLate = rapid.IntRange(0, 3).Draw(t, "pushLate") == 0
		}
		c.Incs = append(c.Incs, in)
	}
	kinds := []string{"rtmp", "flv"}
	if c.HttpTs {
		kinds = append(kinds, "ts", "ts")
	}
	if c.Rtsp {
		kinds = append(kinds, "rtsp", "rtsp")
	}
	n := rapid.IntRange(0, 4).Draw(t, "ncons")
	for i := 0; i < n; i++ {
		var k Cons
		k.Kind = rapid.SampledFrom(kinds).Draw(t, "kind")
		k.Inc = rapid.IntRange(0, ninc-1).Draw(t, "inc")
		if rapid.IntRange(0, 2).Draw(t, "joinBefore") == 0 {
			k.JoinAt = -1
		} else {
			k.JoinAt = rapid.IntRange(0, len(c.Incs[k.Inc].Items)).Draw(t, "joinAt")
		}
		k.Stay = rapid.IntRange(0, 2).Draw(t, "stay") != 0
		c.Cons = append(c.Cons, k)
	}
	return c
}

// ---------------------------------------------------------------------------
// classification

func tsCarriesAudio(cd gen.Codecs) bool { return cd.Audio == "aac" || cd.Audio == "opus" }

// pendingAudioAtEnd models the AAC batching of lal's TS remuxer (a batch is
// flushed by an audio frame more than 150 ms or a video frame more than 300 ms
// after its first frame): true if frames are still batched when the input ends.
func pendingAudioAtEnd(in Inc) bool {
	if in.Codecs.Audio != "aac" {
		return false
	}
	pending := false
	var first uint32
	for _, it := range in.Items {
		switch it.Kind {
		case "audio":
			if pending && first+150 < it.Ts {
				pending = false
			}
			if !pending {
				first = it.Ts
				pending = true
			}
		case "video":
			if pending && first+300 < it.Ts {
				pending = false
			}
		}
	}
	return pending
}

// dummyHolding models lal's dummy-audio filter: it holds metadata, video
// sequence headers and video frames until the first audio message arrives or
// the video timestamps span waitMs; true if it is still holding when the input
// (of an RTMP-message kind) ends.
func dummyHolding(in Inc, waitMs int) bool {
	if remuxedKind(in.Input) {
		return false
	}
	first := int64(-1)
	held := false
	for _, it := range in.Items {
		switch it.Kind {
		case "ash", "audio":
			return false
		case "meta", "vsh":
			held = true
		case "video":
			held = true
			if first < 0 {
				first = int64(it.Ts)
			} else if int64(it.Ts)-first >= int64(waitMs) {
				return false
			}
		}
	}
	return held
}

func remuxedKind(k string) bool { return k == "rtsp" || k == "gb" }

func countKindItems(in Inc, kind string) int {
	n := 0
	for _, it := range in.Items {
		if it.Kind == kind {
			n++
		}
	}
	return n
}

func mediaCount(in Inc) (video, audio int) {
	for _, it := range in.Items {
		switch it.Kind {
		case "video":
			video++
		case "audio":
			audio++
		}
	}
	return
}

// probeQueueOpen: lal's TS remuxer holds the first messages of a stream until
// it has seen both an audio and a video message or 16 messages.
func probeQueueOpen(in Inc) bool {
	seenA, seenV := false, false
	n := 0
	for _, it := range in.Items {
		if it.Kind == "meta" {
			continue // metadata is not fed to the remuxer queue as audio / video, but it is queued
		}
		n++
		if it.Kind == "vsh" || it.Kind == "video" {
			seenV = true
		}
		if it.Kind == "ash" || it.Kind == "audio" {
			seenA = true
		}
		if seenA && seenV {
			return false
		}
	}
	return n < 15
}

func instantClass(c Case, in Inc) string {
	v, a := mediaCount(in)
	if v+a == 0 {
		return "headers-only"
	}
	if (c.Hls || c.RecTs || c.HttpTs) && probeQueueOpen(in) {
		return "probe-queue-open"
	}
	if pendingAudioAtEnd(in) {
		return "pending-audio"
	}
	// last video frame
	lastV := -1
	prevKeyTs := int64(-1)
	for i, it := range in.Items {
		if it.Kind == "video" {
			lastV = i
		}
	}
	if lastV >= 0 {
		for i := 0; i < lastV; i++ {
			if in.Items[i].Kind == "video" && in.Items[i].Key {
				prevKeyTs = int64(in.Items[i].Ts)
			}
		}
		it := in.Items[lastV]
		trailing := len(in.Items) - 1 - lastV
		if it.Key && trailing <= 1 {
			if c.Hls && prevKeyTs >= 0 && int64(it.Ts)-prevKeyTs >= int64(c.FragMs) {
				return "segment-just-opened"
			}
			return "right-after-key"
		}
		if !it.Key {
			return "mid-gop"
		}
	}
	return "other"
}

func shape(cd gen.Codecs) string {
	switch {
	case cd.Video == "":
		return "audio-only-" + cd.Audio
	case cd.Audio == "":
		return "video-only-" + cd.Video
	}
	return cd.Video + "+" + cd.Audio
}

func trackSet(cd gen.Codecs) string { return fmt.Sprintf("%v/%v", cd.Video != "", cd.Audio != "") }

func classify(c Case) (bool, []string) {
	var labels []string
	nt := false
	labels = append(labels, fmt.Sprintf("incarnations:%d", len(c.Incs)))
	outs := ""
	add := func(on bool, name string) {
		if on {
			labels = append(labels, "out:"+name)
			outs += name + " "
		}
	}
	add(c.Hls, "hls")
	add(c.RecFlv, "rec-flv")
	add(c.RecTs, "rec-ts")
	add(c.Push > 0, "push")
	add(c.Hook, "hook")
	add(c.HttpTs, "http-ts")
	add(c.Rtsp, "rtsp")
	add(c.DummyAudio, "dummy-audio")
	if c.Merge > 0 {
		labels = append(labels, "rtmp-merge-write")
	}
	tsOut := c.Hls || c.RecTs || c.HttpTs
	for i, in := range c.Incs {
		ic := instantClass(c, in)
		labels = append(labels, "end:"+in.End, "instant:"+ic, "end-instant:"+in.End+"/"+ic, "input:"+in.Input, "shape:"+shape(in.Codecs))
		if c.Hls {
			labels = append(labels, "hls-end:"+in.End+"/"+ic)
		}
		if c.DummyAudio {
			switch {
			case dummyHolding(in, c.DummyWaitMs):
				labels = append(labels, "dummy-audio:still-analysing-at-end")
				nt = true
			case in.Codecs.Audio == "":
				labels = append(labels, "dummy-audio:inserted")
			default:
				labels = append(labels, "dummy-audio:pass-through")
			}
		}
		if nv := countKindItems(in, "vsh"); nv > 1 {
			labels = append(labels, "header-change:"+in.Codecs.Video)
			if in.Codecs.Video == "avc" {
				nt = true
			}
		}
		if c.Push > 0 && (in.Input == "rtmp" || in.Input == "rtsp") {
			if in.PushLate {
				labels = append(labels, "push-end:"+in.End+"/handshake-in-flight")
			} else {
				labels = append(labels, "push-end:"+in.End+"/established")
			}
		}
		if tsOut && (ic == "pending-audio" || ic == "probe-queue-open") {
			nt = true
		}
		if c.Hls && ic == "segment-just-opened" {
			nt = true
		}
		if i > 0 && trackSet(in.Codecs) != trackSet(c.Incs[i-1].Codecs) {
			nt = true
			labels = append(labels, "track-set-changes")
			if c.Incs[i-1].Codecs.Video != "" && in.Codecs.Video == "" {
				labels = append(labels, "av-then-no-video")
			}
		}
		if i > 0 && shape(in.Codecs) != shape(c.Incs[i-1].Codecs) {
			labels = append(labels, "codecs-change")
		}
		if i > 0 {
			tr := "transition:" + c.Incs[i-1].Input + "->" + in.Input
			labels = append(labels, tr)
			for _, k := range c.Cons {
				if k.Inc == i {
					labels = append(labels, tr+"/watched-by:"+k.Kind)
					if (c.Incs[i-1].Input == "rtsp") != (in.Input == "rtsp") {
						nt = true
					}
				}
			}
		}
	}
	for _, k := range c.Cons {
		labels = append(labels, "cons:"+k.Kind)
		switch {
		case k.Inc > 0 && k.JoinAt < 0:
			labels = append(labels, "join:between-incarnations")
		case k.Inc > 0:
			labels = append(labels, "join:inside-later-incarnation")
		case k.JoinAt < 0:
			labels = append(labels, "join:before-first-input")
		default:
			labels = append(labels, "join:inside-first-incarnation")
		}
		if k.Stay && k.Inc < len(c.Incs)-1 {
			labels = append(labels, "cons:stays-across-end", "stays-across-end:"+k.Kind)
		}
	}
	return nt, uniq(labels)
}

func uniq(in []string) []string {
	seen := map[string]bool{}
	var out []string
	for _, s := range in {
		if !seen[s] {
			seen[s] = true
			out = append(out, s)
		}
	}
	return out
}

func TestInputEnd(t *testing.T) {
	pbt.Run(t, pbt.Spec[Case]{
		ID: "C16", Name: "input-end", Gen: genCase, Run: run, Classify: classify,
		Quick: 170, Thorough: 1500, Isolate: true,
	})
}
