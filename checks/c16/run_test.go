package c16

import (
	"bytes"
	"fmt"
	"os"
	"path/filepath"
	"runtime"
	"strings"
	"sync/atomic"
	"time"

	"github.com/q191201771/lal/pkg/base"
	"github.com/q191201771/lal/pkg/logic"
	"github.com/q191201771/naza/pkg/mock"

	"verif/drv/pbt"
	"verif/gen"
	"verif/harness/hlsfs"
	"verif/harness/inproc"
	"verif/harness/lalclient"
	"verif/harness/stub"
)

// sweepTick is the tick count of an idle sweep: Group.Tick only inspects the
// byte counters when tickCount % base.LogicCheckSessionAliveIntervalSec == 0.
// The interval is set to sweepTick for the whole test binary (nobody but the
// harness calls Tick in the L2 part), so Tick(sweepTick) and Tick(2*sweepTick)
// are two consecutive sweeps and every other tick count is a plain tick
// (relay push / pull housekeeping only).
const sweepTick = 1000

func init() {
	base.LogicCheckSessionAliveIntervalSec = sweepTick
}

// pmsg is one published message with bookkeeping.
type pmsg struct {
	rec  lalclient.Rec
	kind string
	key  bool
	inc  int
	item gen.Item
}

func eq(a, b lalclient.Rec) bool {
	return a.Type == b.Type && a.Ts == b.Ts && bytes.Equal(a.Payload, b.Payload)
}

type attached struct {
	idx    int
	spec   Cons
	rc     *lalclient.Consumer
	ts     *lalclient.TsConsumer
	rs     *rtspCons
	j      int // len(P) when it joined
	ends0  int // world.endsSeen when it joined
	// playIdx: len(P) when the harness first saw the RTSP consumer's PLAY completed (-1: not yet): everything published
	// from there on was published to a playing subscriber
	playIdx  int
	playEnds int // world.endsSeen at that moment
	minInc int // content of earlier incarnations must never reach it
	gone   bool
}

type pushConn struct {
	stubIdx int
	c       *stub.Conn
	ready   chan error
	closed  chan struct{}
}

type input struct {
	kind string
	p    *lalclient.Publisher
	ctx  logic.ICustomizePubSessionContext
	rt   *rtspInput
	pull *pullInput
	gb   *gbInput
}

// unitRef locates one elementary unit (NAL unit, audio frame) by content.
type unitRef struct {
	inc  int
	what string
}

type world struct {
	c        Case
	s        *inproc.Server
	clk      mock.Clock
	layer    *hlsfs.Layer
	stubs    []*stub.RtmpStub
	P        []pmsg
	cons     []*attached
	disposed bool // ServerManager.Dispose was the end kind: the manager must not be disposed again
	lastTs   uint32
	pushes   []*pushConn // push connections of the current incarnation
	late     []*stub.Conn // accepted, handshake withheld until the input has ended (PushLate)
	tickSeq  uint32
	curInc   int
	bounds   [][2]int // P index range of every incarnation published so far
	units    map[string]unitRef // every published elementary unit by content
	pullOrigin *stub.RtmpStub // stub origin of relay pull incarnations
	endsSeen int32              // number of input ends so far (atomic: RTSP consumer goroutines read it) (consumers remember how many they witnessed)
}

func (w *world) panicV() *pbt.Violation { return w.s.PanicViolation() }

func (w *world) group() *logic.Group { return w.s.SM.GetGroup("live", streamName) }

// ---------------------------------------------------------------------------

func run(c Case) *pbt.Violation {
	clk, restoreClk := inproc.UseFakeHlsClock()
	defer restoreClk()
	w := &world{c: c, clk: clk, units: map[string]unitRef{}}
	var addrs []string
	for i := 0; i < c.Push; i++ {
		st, err := stub.NewRtmpStub()
		if err != nil {
			panic(pbt.HarnessError{Msg: "stub listen: " + err.Error()})
		}
		w.stubs = append(w.stubs, st)
		addrs = append(addrs, st.Addr)
	}
	for _, in := range c.Incs {
		if in.Input == "pull" && w.pullOrigin == nil {
			st, err := stub.NewRtmpStub()
			if err != nil {
				panic(pbt.HarnessError{Msg: "stub origin listen: " + err.Error()})
			}
			w.pullOrigin = st
		}
	}
	w.s = inproc.New(inproc.Config{RtmpGopNum: c.RtmpGop, FlvGopNum: c.FlvGop, TsGopNum: c.TsGop, RtmpMergeWrite: c.Merge,
		DisableRtsp: !c.Rtsp, DisableTs: !c.HttpTs, Hls: c.Hls, HlsFragmentMs: c.FragMs, HlsFragmentNum: 6, RecordFlv: c.RecFlv, RecordTs: c.RecTs,
		PushAddrs: addrs, Hook: c.Hook, DummyAudio: c.DummyAudio, DummyAudioWaitMs: c.DummyWaitMs})
	base0 := observe() // goroutines running lal / naza code and descriptors before the first session (audit-1 entry 7)
	var restoreFs func()
	if c.Hls {
		w.layer = hlsfs.New(filepath.Join(w.s.Dir, "hls"), nil, nil)
		restoreFs = hlsfs.Install(w.layer)
	}
	defer func() {
		for _, a := range w.cons {
			if a.rc != nil {
				a.rc.Close()
			}
			if a.ts != nil {
				a.ts.Close()
			}
			if a.rs != nil {
				_ = a.rs.conn.Close()
			}
		}
		if w.disposed {
			// a second ServerManager.Dispose would block on the groups' exit channels: clean up by hand
			w.s.WaitSessions(10 * time.Second)
			_ = os.RemoveAll(w.s.Dir)
		} else {
			w.s.Close()
		}
		for _, st := range w.stubs {
			st.Close()
		}
		if w.pullOrigin != nil {
			w.pullOrigin.Close()
		}
		if restoreFs != nil {
			restoreFs()
		}
	}()

	for i := range c.Incs {
		if v := w.incarnation(i); v != nil {
			return v
		}
	}
	// consumers still attached
	for _, a := range w.cons {
		if !a.gone {
			if v := w.leave(a); v != nil {
				return v
			}
		}
	}
	if v := w.panicV(); v != nil {
		return v
	}
	return w.baselineCheck(base0)
}

// baselineCheck: every session has gone; after one sweep of the manager's ticker
// (or after ServerManager.Dispose) the goroutines that run lal / naza code and
// the descriptors of the process are back at what they were before the first
// session.  Harness-owned sockets (stub connections) are closed first.
func (w *world) baselineCheck(base0 procState) *pbt.Violation {
	for _, st := range w.stubs {
		for _, c := range st.Conns() {
			c.Close()
		}
	}
	if w.pullOrigin != nil {
		for _, c := range w.pullOrigin.Conns() {
			c.Close()
		}
	}
	how := "after ServerManager.Dispose"
	if !w.disposed {
		how = "after every session had left and one sweep of the manager's ticker"
		// the group's disposal runs the teardown routine once more: nothing may be finalised a second time
		w.s.HookMu.Lock()
		stops0 := w.s.HookStops
		w.s.HookMu.Unlock()
		fs0 := w.fsOps()
		rec0 := w.recordingSizes()
		if w.s.Call("VerifTick", func() { w.s.SM.VerifTick(7) }) {
			return w.panicV()
		}
		w.s.HookMu.Lock()
		stops1 := w.s.HookStops
		w.s.HookMu.Unlock()
		if stops1 != stops0 {
			return pbt.V("hook/stop-repeated", "the removal of the empty group called OnStop again: %d calls before the sweep, %d after, for %d hook starts", stops0, stops1, w.s.HookStarts)
		}
		if fs1 := w.fsOps(); fs1 != fs0 {
			return pbt.V("hls/touched-at-group-disposal", "the removal of the empty group performed %d more HLS file operations (every segment and the playlist had been finalised when the input left)", fs1-fs0)
		}
		if rec1 := w.recordingSizes(); rec1 != rec0 {
			return pbt.V("record/touched-at-group-disposal", "the removal of the empty group changed the recordings: before %s, after %s", rec0, rec1)
		}
		for _, g := range w.s.SM.StatAllGroup() {
			if g.StreamName == streamName {
				gr := w.group()
				return pbt.V("group-not-removed", "every session of the stream has left, yet the ticker's sweep did not remove the group: in=%v out=%v inactive=%v", gr.HasInSession(), gr.HasOutSession(), gr.IsInactive())
			}
		}
	}
	w.s.WaitSessions(lalclient.IdleTimeout)
	t0 := time.Now()
	lastKey, same := "", 0
	for {
		cur := observe()
		d := cur.diff(base0)
		if d == "" {
			return nil
		}
		if cur.key() == lastKey {
			same++
		} else {
			same, lastKey = 1, cur.key()
		}
		if time.Since(t0) > leakGuard && same >= 3 {
			sig := "leak/goroutines"
			if !strings.Contains(d, "goroutine") {
				sig = "leak/descriptors"
			}
			return pbt.V(sig, "%s the process is not back at the state before the first session (%v later, three identical observations): %s", how, time.Since(t0).Round(time.Millisecond), d)
		}
		if time.Since(t0) > 60*time.Second {
			lalclient.Harness("process state neither returns to the baseline nor stabilises: %s", d)
		}
		if time.Since(t0) < 100*time.Millisecond {
			time.Sleep(time.Millisecond)
		} else {
			time.Sleep(20 * time.Millisecond)
		}
	}
}

// leakGuard: goroutines end within microseconds of their session's teardown; a
// difference is reported only after it has been observed unchanged for this
// long (three identical observations).
const leakGuard = 5 * time.Second

func (w *world) join(ci int, inc int) *pbt.Violation {
	k := w.c.Cons[ci]
	a := &attached{idx: ci, spec: k, j: len(w.P), minInc: inc, ends0: int(atomic.LoadInt32(&w.endsSeen)), playIdx: -1}
	switch k.Kind {
	case "rtmp":
		a.rc = lalclient.NewRtmpSub(w.s, "live", streamName)
	case "flv":
		a.rc = lalclient.NewFlvSub(w.s, "live", streamName, false)
	case "ts":
		a.ts = lalclient.NewTsSub(w.s, "live", streamName)
	case "rtsp":
		a.rs = w.joinRtsp() // asynchronous: DESCRIBE is answered once the stream has a session description
	}
	if a.rc != nil && a.rc.JoinErr() != nil {
		if v := w.panicV(); v != nil {
			return v
		}
		return pbt.V("join-failed", "consumer %d (%s): %v", ci, k.Kind, a.rc.JoinErr())
	}
	w.cons = append(w.cons, a)
	return nil
}

// attachedSubs counts the subscribers that are certainly attached (RTSP
// consumers join asynchronously: they may or may not be counted by lal yet).
func (w *world) attachedSubs() int {
	n := 0
	for _, a := range w.cons {
		if !a.gone && a.rs == nil {
			n++
		}
	}
	return n
}

// attachedSubsMax is the upper bound: every consumer that has not left.
func (w *world) attachedSubsMax() int {
	n := 0
	for _, a := range w.cons {
		if !a.gone {
			n++
		}
	}
	return n
}

func (w *world) startInput(i int) (*input, *pbt.Violation) {
	in := w.c.Incs[i]
	if in.Input == "cust" {
		var ctx logic.ICustomizePubSessionContext
		var err error
		if w.s.Call("AddCustomizePubSession", func() { ctx, err = w.s.SM.AddCustomizePubSession(streamName) }) {
			return nil, w.panicV()
		}
		if err != nil {
			return nil, pbt.V("publish-refused/cust", "incarnation %d: AddCustomizePubSession: %v (the previous input has left)", i, err)
		}
		return &input{kind: "cust", ctx: ctx}, nil
	}
	if in.Input == "rtsp" {
		return w.startRtspInput(i)
	}
	if in.Input == "pull" {
		return w.startPullInput(i)
	}
	if in.Input == "gb" {
		return w.startGbInput(i)
	}
	p := lalclient.NewPublisher(w.s, "live", streamName, 4096)
	if p.Err != nil {
		if v := w.panicV(); v != nil {
			return nil, v
		}
		return nil, pbt.V("publish-refused/rtmp", "incarnation %d: %v (the previous input has left)", i, p.Err)
	}
	return &input{kind: "rtmp", p: p}, nil
}

func (w *world) send(inp *input, it gen.Item, cd gen.Codecs) *pbt.Violation {
	// the fake clock only feeds HLS segment file names; it advances with every message so that names never repeat
	step := time.Millisecond
	if it.Ts > w.lastTs && it.Ts-w.lastTs < 60000 {
		step = time.Duration(it.Ts-w.lastTs) * time.Millisecond
	}
	w.lastTs = it.Ts
	w.clk.Add(step)
	if inp.kind == "rtmp" {
		if err := inp.p.SendItem(it, cd, 0); err != nil {
			if v := w.panicV(); v != nil {
				return v
			}
			return pbt.V("publisher-disconnected", "sending %s ts=%d: %v", it.Kind, it.Ts, err)
		}
		return nil
	}
	if inp.kind == "rtsp" {
		return w.sendRtsp(inp.rt, it, cd)
	}
	if inp.kind == "pull" {
		return w.sendPull(inp.pull, it, cd)
	}
	if inp.kind == "gb" {
		return w.sendGb(inp.gb, it, w.c.Incs[w.curInc])
	}
	pl := it.Payload(cd)
	msg := base.RtmpMsg{Header: base.RtmpHeader{Csid: 6, MsgLen: uint32(len(pl)), MsgTypeId: it.TypeID(), MsgStreamId: 1, TimestampAbs: it.Ts}, Payload: pl}
	var err error
	if w.s.Call("FeedRtmpMsg", func() { err = inp.ctx.FeedRtmpMsg(msg) }) {
		return w.panicV()
	}
	if err != nil {
		return pbt.V("publisher-disconnected/cust", "FeedRtmpMsg %s ts=%d: %v", it.Kind, it.Ts, err)
	}
	return nil
}

func (w *world) quiesce(inp *input, what string) {
	if inp.kind == "rtmp" && !inp.p.WaitIdle() {
		lalclient.Harness("publisher not drained (%s)", what)
	}
	if inp.kind == "rtsp" && !inp.rt.conn.WaitPeerIdle(lalclient.IdleTimeout) {
		lalclient.Harness("rtsp publisher not drained (%s)", what)
	}
	if inp.kind == "pull" {
		w.quiescePull(inp.pull, what)
	}
	if inp.kind == "gb" {
		w.quiesceGb(inp.gb, what)
	}
}

// establishPushes waits until lal has dialled every stub, completes the publish
// handshake on the stub side and waits until the group has registered the push
// sessions.  Plain ticks nudge lal's "start push if needed" housekeeping (a
// later incarnation starts its push from the tick once the previous push
// goroutine has finished).
func (w *world) establishPushes(i int) {
	w.pushes = nil
	w.late = nil
	if len(w.stubs) == 0 {
		return
	}
	deadline := time.Now().Add(lalclient.IdleTimeout)
	for si, st := range w.stubs {
		var sc *stub.Conn
		for sc == nil {
			sc = st.Accept(40 * time.Millisecond)
			if sc == nil {
				if time.Now().After(deadline) {
					lalclient.Harness("incarnation %d: lal did not dial push target %d within %v", i, si, lalclient.IdleTimeout)
				}
				w.tickSeq++
				t := w.tickSeq%900 + 1 // never a multiple of sweepTick
				w.s.Call("Tick", func() { w.group().Tick(t) })
			}
		}
		if w.c.Incs[i].PushLate {
			w.late = append(w.late, sc)
			continue
		}
		pc := &pushConn{stubIdx: si, c: sc, ready: make(chan error, 1), closed: make(chan struct{})}
		go func() {
			err := sc.Handshake()
			if err == nil {
				err = sc.ServeUntilPlayOrPublish()
			}
			if err == nil && sc.Command != "publish" {
				err = fmt.Errorf("stub: peer sent %q, not publish", sc.Command)
			}
			if err == nil {
				err = sc.AcceptPublish()
			}
			pc.ready <- err
			if err == nil {
				sc.CollectMedia() // returns when lal closes the connection
			}
			close(pc.closed)
		}()
		select {
		case err := <-pc.ready:
			if err != nil {
				lalclient.Harness("incarnation %d: push handshake with stub %d failed: %v", i, si, err)
			}
		case <-time.After(lalclient.IdleTimeout):
			lalclient.Harness("incarnation %d: push handshake with stub %d did not finish", i, si)
		}
		w.pushes = append(w.pushes, pc)
	}
	// registered = counted by OutSessionNum (subscribers + push sessions with a session object)
	want := w.attachedSubs() + len(w.pushes)
	for {
		if w.group().OutSessionNum() >= want {
			return
		}
		if time.Now().After(deadline) {
			lalclient.Harness("incarnation %d: push sessions not registered (OutSessionNum=%d, want %d)", i, w.group().OutSessionNum(), want)
		}
		time.Sleep(200 * time.Microsecond)
	}
}

func (w *world) incarnation(i int) *pbt.Violation {
	in := w.c.Incs[i]
	w.curInc = i
	for ci, k := range w.c.Cons {
		if k.Inc == i && k.JoinAt == -1 {
			if v := w.join(ci, i); v != nil {
				return v
			}
		}
	}
	before := w.snapshotRecordings()
	fsMark := w.fsOps()
	inp, v := w.startInput(i)
	if v != nil {
		return v
	}
	if v := w.hookCheck(i, "after the input was accepted", i+1, i); v != nil {
		return v
	}
	if inp.kind == "rtmp" || inp.kind == "rtsp" {
		w.establishPushes(i) // lal relays only RTMP / RTSP publishers
	} else {
		w.pushes, w.late = nil, nil
	}
	incStart := len(w.P)
	for k := 0; k <= len(in.Items); k++ {
		sync := false
		for _, cs := range w.c.Cons {
			if cs.Inc == i && cs.JoinAt == k {
				sync = true
			}
		}
		if sync {
			w.quiesce(inp, "before join")
			if v := w.panicV(); v != nil {
				return v
			}
			for ci, cs := range w.c.Cons {
				if cs.Inc == i && cs.JoinAt == k {
					if v := w.join(ci, i); v != nil {
						return v
					}
				}
			}
		}
		w.notePlaying()
		if k < len(in.Items) {
			it := in.Items[k]
			if v := w.send(inp, it, in.Codecs); v != nil {
				return v
			}
			if remuxed(inp.kind) && it.Kind != "video" && it.Kind != "audio" {
				continue // travels in the session description / in-band, not as a message
			}
			pl := it.Payload(in.Codecs)
			if it.Kind == "meta" {
				pl = gen.MetaBody(it.Variant)
			}
			x := len(w.P)
			w.P = append(w.P, pmsg{rec: lalclient.Rec{Type: it.TypeID(), Ts: it.Ts, Payload: pl}, kind: it.Kind, key: it.Kind == "video" && it.Key, inc: i, item: it})
			switch it.Kind {
			case "video":
				for ni, n := range it.Nals {
					w.units[string(n.Bytes())] = unitRef{inc: i, what: fmt.Sprintf("NAL unit %d of the video frame at published index %d (incarnation %d, ts %d, key=%v)", ni, x, i, it.Ts, it.Key)}
				}
			case "audio":
				body := pl[1:]
				if in.Codecs.Audio == "aac" {
					body = pl[2:]
				}
				w.units[string(body)] = unitRef{inc: i, what: fmt.Sprintf("audio frame at published index %d (incarnation %d, ts %d)", x, i, it.Ts)}
			}
		}
	}
	w.quiesce(inp, "after the last message")
	w.bounds = append(w.bounds, [2]int{incStart, len(w.P)})
	if v := w.panicV(); v != nil {
		return v
	}
	if !remuxed(inp.kind) {
		// (an RTSP / GB28181 input reaches the RTMP-side outputs through lal's A/V interleave queue, which holds the newest
		// frames: neither the stat fields nor the tail are due at a known instant)
		if !(w.c.DummyAudio && dummyHolding(in, w.c.DummyWaitMs)) { // (held back by the dummy-audio filter: nothing is due yet)
			if v := w.statCheck(i); v != nil {
				return v
			}
		}
		if v := w.livenessWaits(i, incStart); v != nil {
			return v
		}
	}

	// ---- the input ends
	switch in.End {
	case "close":
		if inp.kind == "rtmp" {
			inp.p.Close()
		} else if inp.kind == "rtsp" {
			_ = inp.rt.conn.Close()
		} else if inp.kind == "pull" {
			inp.pull.oc.Close() // the origin ends the stream
		} else if inp.kind == "gb" {
			// GB28181 has no notion of a disconnect (UDP by default): a device that goes away is noticed by the
			// session's timeout, i.e. by the following ticks
			_ = inp.gb.conn.Close()
			g := w.group()
			if w.s.Call("Tick", func() { g.Tick(sweepTick) }) || w.s.Call("Tick", func() { g.Tick(2 * sweepTick) }) {
				return w.panicV()
			}
		} else if w.s.Call("DelCustomizePubSession", func() { w.s.SM.DelCustomizePubSession(inp.ctx) }) {
			return w.panicV()
		}
	case "stop":
		var resp base.ApiCtrlStopRelayPullResp
		if w.s.Call("CtrlStopRelayPull", func() { resp = w.s.SM.CtrlStopRelayPull(streamName) }) {
			return w.panicV()
		}
		if resp.ErrorCode != base.ErrorCodeSucc {
			return pbt.V("stop-pull/refused", "incarnation %d: stop_relay_pull answered %d %s while the pull session is attached", i, resp.ErrorCode, resp.Desp)
		}
	case "kick":
		sg := w.s.SM.StatGroup(streamName)
		id := ""
		if sg != nil {
			id = sg.StatPub.SessionId
			if inp.kind == "pull" {
				id = sg.StatPull.SessionId
			}
		}
		if id == "" {
			return pbt.V("kick/publisher-not-listed", "incarnation %d: StatGroup lists no input session while the %s input is attached", i, inp.kind)
		}
		var resp base.ApiCtrlKickSessionResp
		if w.s.Call("CtrlKickSession", func() {
			resp = w.s.SM.CtrlKickSession(base.ApiCtrlKickSessionReq{StreamName: streamName, SessionId: id})
		}) {
			return w.panicV()
		}
		if resp.ErrorCode != base.ErrorCodeSucc {
			return pbt.V("kick/refused", "incarnation %d: kick of %s input session %s answered %d %s", i, inp.kind, id, resp.ErrorCode, resp.Desp)
		}
	case "idle":
		// the publisher stops sending; two consecutive sweeps of the idle check
		g := w.group()
		if w.s.Call("Tick", func() { g.Tick(sweepTick) }) {
			return w.panicV()
		}
		if w.s.Call("Tick", func() { g.Tick(2 * sweepTick) }) {
			return w.panicV()
		}
	case "dispose":
		w.disposed = true
		done := w.s.Go("ServerManager.Dispose", func() { w.s.SM.Dispose() })
		select {
		case <-done:
		case <-time.After(lalclient.IdleTimeout):
			if strings.Contains(allStacks(), "logic.(*ServerManager).Dispose") {
				return pbt.V("dispose/blocked", "incarnation %d: ServerManager.Dispose has not returned after %v (goroutine still inside it)", i, lalclient.IdleTimeout)
			}
			lalclient.Harness("ServerManager.Dispose neither returned nor is running")
		}
		if v := w.panicV(); v != nil {
			return v
		}
	}
	if inp.kind == "pull" || inp.kind == "gb" {
		if v := w.waitInputGone(i, inp.kind, in.End); v != nil {
			return v
		}
		if inp.kind == "pull" {
			inp.pull.oc.Close()
			// the relay pull stays configured otherwise (retry rules are C17's subject)
			w.s.Call("CtrlStopRelayPull", func() { w.s.SM.CtrlStopRelayPull(streamName) })
		} else {
			_ = inp.gb.conn.Close()
		}
	} else if inp.kind != "cust" {
		pconn := inp.rt.connOr(inp.p)
		if !pconn.WaitPeerDone(lalclient.IdleTimeout) {
			sg := w.s.SM.StatGroup(streamName)
			if in.End == "idle" && sg != nil && sg.StatPub.SessionId != "" && !pconn.PeerGone() {
				return pbt.V("idle/silent-publisher-not-disconnected", "incarnation %d: the publisher sent nothing between two consecutive sweeps of the idle check, yet its session %s is still attached and its connection open", i, sg.StatPub.SessionId)
			}
			lalclient.Harness("teardown of incarnation %d (%s) did not finish", i, in.End)
		}
		_ = pconn.Close()
	}
	if v := w.panicV(); v != nil {
		return v
	}

	atomic.AddInt32(&w.endsSeen, 1)
	// ---- every output is finalised
	if v := w.afterEnd(i, incStart, before, fsMark); v != nil {
		return v
	}

	// ---- consumers leave (lal has disposed all of them itself on idle sweep / shutdown)
	for _, a := range w.cons {
		if a.gone {
			continue
		}
		if !a.spec.Stay || in.End == "idle" || in.End == "dispose" || (in.Input == "gb" && in.End == "close") {
			if v := w.leave(a); v != nil {
				return v
			}
		}
	}
	return w.panicV()
}

// livenessWaits: a consumer attached to this incarnation must receive its
// messages from the first key frame at or after its attach point (incarnation
// without video: from the attach point) up to the last one — nothing inherited
// from the predecessor (key-frame gating, codec information) may hold it back.
// The wait happens before the input ends: when lal disposes a subscriber
// together with the input, data still queued for it may be dropped.
func (w *world) livenessWaits(i, incStart int) *pbt.Violation {
	cd := w.c.Incs[i].Codecs
	last := len(w.P) - 1
	for _, a := range w.cons {
		if a.gone || a.rc == nil {
			continue
		}
		if a.spec.Kind == "rtmp" && w.c.Merge > 0 {
			continue // the tail may legitimately sit in the merge-write buffer
		}
		if w.c.DummyAudio && dummyHolding(w.c.Incs[i], w.c.DummyWaitMs) {
			continue // the dummy-audio filter is still deciding: nothing is due yet
		}
		at := a.j
		if at < incStart {
			at = incStart
		}
		f := -1
		for x := at; x <= last; x++ {
			if cd.Video == "" || w.P[x].key {
				f = x
				break
			}
		}
		if f < 0 {
			continue
		}
		want := w.P[last].rec
		if a.rc.WaitFor(func(r lalclient.Rec) bool { return eq(r, want) }, lalclient.DeliverTimeout) >= 0 {
			continue
		}
		if err := a.rc.Err(); err != nil {
			return pbt.V("framing/"+a.spec.Kind, "consumer %d: %v", a.idx, err)
		}
		// corroboration: nothing is in flight any more
		n1 := len(a.rc.Recs())
		time.Sleep(300 * time.Millisecond)
		if n2 := len(a.rc.Recs()); n2 != n1 {
			lalclient.Harness("consumer %d still receiving after %v (%d -> %d records): machine too slow", a.idx, lalclient.DeliverTimeout, n1, n2)
		}
		how := fmt.Sprintf("joined incarnation %d at %d", a.spec.Inc, a.spec.JoinAt)
		if a.j < incStart {
			how += ", stayed attached across the end of the previous input"
		}
		return pbt.V("held-back/"+a.spec.Kind, "consumer %d (%s, %s): incarnation %d (%s) published %d messages; from published index %d (%s) on every message is due, but the last one (%s) did not arrive; %d records received, ended=%v",
			a.idx, a.spec.Kind, how, i, shape(cd), last-incStart+1, f, w.P[f].kind, want, n1, a.rc.Ended())
	}
	return nil
}

// leave closes the consumer from the client side and judges what it received.
func (w *world) leave(a *attached) *pbt.Violation {
	a.gone = true
	if a.rs != nil {
		return w.leaveRtsp(a)
	}
	if a.rc != nil {
		recs := a.rc.Recs()
		ferr := a.rc.Err()
		a.rc.Close()
		a.rc.Conn.WaitPeerDone(lalclient.IdleTimeout)
		if ferr != nil {
			return pbt.V("framing/"+a.spec.Kind, "consumer %d: %v", a.idx, ferr)
		}
		return w.checkMsgConsumer(a, recs)
	}
	if v := w.tsHeldBack(a); v != nil {
		a.ts.Close()
		return v
	}
	body := a.ts.Body()
	a.ts.Close()
	a.ts.Conn.WaitPeerDone(lalclient.IdleTimeout)
	return w.checkTsConsumer(a, body)
}

func allStacks() string {
	buf := make([]byte, 1<<20)
	for {
		n := runtime.Stack(buf, true)
		if n < len(buf) {
			return string(buf[:n])
		}
		buf = make([]byte, 2*len(buf))
	}
}

// notePlaying records, for RTSP consumers, the first published index at which
// the harness saw their PLAY completed.
func (w *world) notePlaying() {
	for _, a := range w.cons {
		if a.gone || a.rs == nil || a.playIdx >= 0 {
			continue
		}
		if _, playing := a.rs.nframes(); playing {
			a.playIdx = len(w.P)
			a.playEnds = int(atomic.LoadInt32(&w.endsSeen))
		}
	}
}

// endKeeps: lal keeps the subscribers attached when incarnation i ends this way
// (an idle sweep / shutdown disposes them together with the input, and what
// was queued for them may be dropped).
func (w *world) endKeeps(i int) bool {
	in := w.c.Incs[i]
	switch in.End {
	case "kick", "stop":
		return true
	case "close":
		return in.Input != "gb"
	}
	return false
}

// mediaAfter counts the audio / video messages of incarnation i published at
// index >= from and says whether a key frame is among them.
func (w *world) mediaAfter(i, from int) (n int, key bool) {
	if i >= len(w.bounds) {
		return 0, false
	}
	lo, hi := w.bounds[i][0], w.bounds[i][1]
	if from > lo {
		lo = from
	}
	for x := lo; x < hi; x++ {
		if w.P[x].kind == "video" || w.P[x].kind == "audio" {
			n++
		}
		key = key || w.P[x].key
	}
	return
}

// incAt returns the incarnation that P index x belongs to (a consumer that
// joined between two incarnations, or at the very end of one, belongs to the
// next); -1 if that incarnation has not been published (yet).
func (w *world) incAt(x int) int {
	for i, b := range w.bounds {
		if x < b[1] || (x == b[0] && b[0] == b[1]) {
			return i
		}
	}
	return -1
}

// recordingSizes renders the names and sizes of all recordings.
func (w *world) recordingSizes() string {
	out := ""
	for _, d := range []string{"flv", "ts"} {
		ents, _ := os.ReadDir(filepath.Join(w.s.Dir, d))
		for _, e := range ents {
			if fi, err := e.Info(); err == nil {
				out += fmt.Sprintf("%s/%s=%d ", d, e.Name(), fi.Size())
			}
		}
	}
	return out
}
