package c16

// Two more incarnation kinds (audit-1 entry 2):
//
//   - "pull": the input is an RTMP relay pull started through CtrlStartRelayPull
//     from a stub origin (harness/stub, real loopback TCP) that plays the
//     incarnation's messages; it ends by the origin closing the connection,
//     CtrlStopRelayPull, a kick of the pull session, or shutdown.  Messages
//     are relayed verbatim: every oracle of the RTMP kind applies.  lal reads
//     the origin in a goroutine of its own, so the harness synchronises on the
//     stream hook's message count (pull incarnations are generated only with the
//     hook installed and without the dummy-audio filter, which holds messages
//     back before the hook sees them) followed by a call that takes the group
//     lock.
//   - "gb": GB28181 — CtrlStartRtpPub in TCP mode, MPEG-PS from ref/psref cut
//     into RTP packets (RFC 4571 framing), through lal's own session read loop;
//     ends by closing the connection, a kick, the session's own timeout
//     (two ticks) or shutdown.  Like RTSP inputs it reaches the outputs through
//     an unpacker / remuxer that holds the newest frame of each track: judged on
//     finalisation structure and cleanliness, not on completeness.

import (
	"encoding/binary"
	"fmt"
	"net"
	"time"

	"github.com/q191201771/lal/pkg/base"

	"verif/drv/pbt"
	"verif/gen"
	"verif/harness/lalclient"
	"verif/harness/stub"
	"verif/ref/codecref"
	"verif/ref/psref"
	"verif/ref/rtpref"
)

// remuxed: the incarnation kind reaches the RTMP-side outputs through one of
// lal's input remuxers (no verbatim relay, no completeness at the end).
func remuxed(kind string) bool { return kind == "rtsp" || kind == "gb" }

// ---------------------------------------------------------------------------
// relay pull

type pullInput struct {
	origin   *stub.RtmpStub
	oc       *stub.Conn
	id       string
	hookBase int
	sent     int
}

func (w *world) hookMsgs() int {
	w.s.HookMu.Lock()
	defer w.s.HookMu.Unlock()
	return w.s.HookMsgs
}

func (w *world) startPullInput(i int) (*input, *pbt.Violation) {
	if w.pullOrigin == nil {
		st, err := stub.NewRtmpStub()
		if err != nil {
			lalclient.Harness("stub origin listen: %v", err)
		}
		w.pullOrigin = st
	}
	pi := &pullInput{origin: w.pullOrigin, hookBase: w.hookMsgs()}
	var resp base.ApiCtrlStartRelayPullResp
	if w.s.Call("CtrlStartRelayPull", func() {
		resp = w.s.SM.CtrlStartRelayPull(base.ApiCtrlStartRelayPullReq{Url: "rtmp://" + w.pullOrigin.Addr + "/live/" + streamName, StreamName: streamName,
			PullTimeoutMs: 20000, PullRetryNum: 0, AutoStopPullAfterNoOutMs: -1})
	}) {
		return nil, w.panicV()
	}
	if resp.ErrorCode != base.ErrorCodeSucc {
		return nil, pbt.V("publish-refused/pull", "incarnation %d: start_relay_pull answered %d %s although the previous input has left", i, resp.ErrorCode, resp.Desp)
	}
	pi.id = resp.Data.SessionId
	oc := w.pullOrigin.Accept(lalclient.DeliverTimeout)
	if oc == nil {
		lalclient.Harness("incarnation %d: lal did not dial the stub origin", i)
	}
	pi.oc = oc
	if err := oc.Handshake(); err != nil {
		lalclient.Harness("stub origin handshake: %v", err)
	}
	if err := oc.ServeUntilPlayOrPublish(); err != nil {
		lalclient.Harness("stub origin commands: %v", err)
	}
	if oc.Command != "play" {
		lalclient.Harness("stub origin: peer sent %q", oc.Command)
	}
	if err := oc.AcceptPlay(); err != nil {
		lalclient.Harness("stub origin AcceptPlay: %v", err)
	}
	// attached = the group has an input (OnPullSucc -> AddRtmpPullSession)
	deadline := time.Now().Add(lalclient.IdleTimeout)
	for !w.group().HasInSession() {
		if time.Now().After(deadline) {
			lalclient.Harness("incarnation %d: the pull session did not attach", i)
		}
		time.Sleep(200 * time.Microsecond)
	}
	return &input{kind: "pull", pull: pi}, nil
}

func (w *world) sendPull(pi *pullInput, it gen.Item, cd gen.Codecs) *pbt.Violation {
	if err := pi.oc.SendMedia(it.TypeID(), it.Ts, it.Payload(cd)); err != nil {
		if v := w.panicV(); v != nil {
			return v
		}
		return pbt.V("publisher-disconnected/pull", "lal closed the pull connection while the origin was sending %s ts=%d: %v", it.Kind, it.Ts, err)
	}
	pi.sent++
	return nil
}

// quiescePull: every message the origin sent has passed the stream hook, and the
// broadcast of the last one has released the group lock.
func (w *world) quiescePull(pi *pullInput, what string) {
	deadline := time.Now().Add(lalclient.IdleTimeout)
	for w.hookMsgs() < pi.hookBase+pi.sent {
		if time.Now().After(deadline) {
			lalclient.Harness("pull input: %d of %d messages reached the stream hook (%s)", w.hookMsgs()-pi.hookBase, pi.sent, what)
		}
		time.Sleep(100 * time.Microsecond)
	}
	_ = w.group().HasInSession() // takes the group lock
}

// ---------------------------------------------------------------------------
// GB28181

type gbInput struct {
	conn  net.Conn
	seq   *rtpref.Sequencer
	first []byte
	total uint64
	n     int
}

func gbStreams(cd gen.Codecs) []psref.ES {
	var out []psref.ES
	if cd.Video == "hevc" {
		out = append(out, psref.ES{StreamID: psref.StreamIDVideo, StreamType: psref.StreamTypeH265})
	} else if cd.Video == "avc" {
		out = append(out, psref.ES{StreamID: psref.StreamIDVideo, StreamType: psref.StreamTypeH264})
	}
	if cd.Audio == "aac" {
		out = append(out, psref.ES{StreamID: psref.StreamIDAudio, StreamType: psref.StreamTypeAAC})
	}
	return out
}

func (w *world) startGbInput(i int) (*input, *pbt.Violation) {
	var resp base.ApiCtrlStartRtpPubResp
	if w.s.Call("CtrlStartRtpPub", func() {
		resp = w.s.SM.CtrlStartRtpPub(base.ApiCtrlStartRtpPubReq{StreamName: streamName, Port: 0, TimeoutMs: 1000, IsTcpFlag: 1})
	}) {
		return nil, w.panicV()
	}
	if resp.ErrorCode != base.ErrorCodeSucc {
		if resp.ErrorCode == base.ErrorCodeListenUdpPortFail {
			lalclient.Harness("CtrlStartRtpPub: no port: %+v", resp)
		}
		return nil, pbt.V("publish-refused/gb", "incarnation %d: start_rtp_pub answered %d %s although the previous input has left", i, resp.ErrorCode, resp.Desp)
	}
	conn, err := net.DialTimeout("tcp", fmt.Sprintf("127.0.0.1:%d", resp.Data.Port), 10*time.Second)
	if err != nil {
		lalclient.Harness("dial gb28181 tcp port %d: %v", resp.Data.Port, err)
	}
	return &input{kind: "gb", gb: &gbInput{conn: conn, seq: &rtpref.Sequencer{PT: 96, SSRC: 0x6b000001 + uint32(i), Seq: uint16(3000 * (i + 1))}}}, nil
}

func (g *gbInput) write(raw []byte) error {
	b := make([]byte, 2+len(raw))
	binary.BigEndian.PutUint16(b, uint16(len(raw)))
	copy(b[2:], raw)
	_ = g.conn.SetWriteDeadline(time.Now().Add(lalclient.IdleTimeout))
	_, err := g.conn.Write(b)
	g.total += uint64(len(raw))
	return err
}

func (w *world) sendGb(g *gbInput, it gen.Item, in Inc) *pbt.Violation {
	cd := in.Codecs
	if it.Kind != "video" && it.Kind != "audio" {
		return nil
	}
	ps := psref.PackHeader(uint64(it.Ts)*90, 0, 50000, 0)
	if g.n == 0 || (it.Kind == "video" && it.Key) {
		na := 0
		if cd.Audio == "aac" {
			na = 1
		}
		ps = append(ps, psref.SystemHeader(50000, na, 1, gbStreams(cd))...)
		ps = append(ps, psref.PSM(1, nil, gbStreams(cd))...)
	}
	st := psref.Stamp{HasPTS: true, PTS: uint64(it.Ts) * 90}
	if it.Kind == "video" {
		var es []byte
		add := func(n []byte) { es = append(append(es, 0, 0, 0, 1), n...) }
		if it.Key {
			vps, sps, pps := gen.ParamSets(cd.Video, incVariant(in))
			if vps != nil {
				add(vps)
			}
			add(sps)
			add(pps)
		}
		for _, n := range it.Nals {
			add(n.Bytes())
		}
		for _, p := range psref.SplitPES(psref.StreamIDVideo, es, 65000, st, psref.Stamp{}, 0) {
			ps = append(ps, p...)
		}
	} else {
		raw := it.Payload(cd)[2:]
		h := codecref.ADTS{ProtectionAbsent: true, Profile: uint8(cd.AscObj - 1), FreqIndex: uint8(cd.AscFreq), ChannelConfig: uint8(cd.AscChan), FrameLength: uint16(7 + len(raw)), BufferFullness: 0x7FF}
		es := append(h.Marshal(), raw...)
		for _, p := range psref.SplitPES(psref.StreamIDAudio, es, 65000, st, psref.Stamp{}, 0) {
			ps = append(ps, p...)
		}
	}
	if _, err := psref.Parse(ps); err != nil {
		lalclient.Harness("reference PS muxer: %v", err)
	}
	var pls [][]byte
	for off := 0; off < len(ps); off += 1400 {
		end := off + 1400
		if end > len(ps) {
			end = len(ps)
		}
		pls = append(pls, ps[off:end])
	}
	for _, p := range g.seq.Frame(pls, it.Ts*90, true) {
		raw := p.Marshal()
		if g.first == nil {
			g.first = raw
		}
		if err := g.write(raw); err != nil {
			if v := w.panicV(); v != nil {
				return v
			}
			return pbt.V("publisher-disconnected/gb", "lal closed the GB28181 connection while %s ts=%d was being sent: %v", it.Kind, it.Ts, err)
		}
	}
	g.n++
	return nil
}

// quiesceGb: a stale duplicate of the first packet is sent; lal counts a packet
// before it parses it and parses in the reading goroutine, so once the
// duplicate has been counted everything before it has been processed (the
// duplicate itself is discarded by the reorder list).
func (w *world) quiesceGb(g *gbInput, what string) {
	if g.first == nil {
		return
	}
	if err := g.write(g.first); err != nil {
		return // connection gone: the caller notices
	}
	deadline := time.Now().Add(lalclient.IdleTimeout)
	for {
		st := w.s.SM.StatGroup(streamName)
		if st != nil && st.StatPub.ReadBytesSum >= g.total {
			return
		}
		if st == nil || st.StatPub.SessionId == "" {
			return // session gone
		}
		if time.Now().After(deadline) {
			lalclient.Harness("gb28181 session consumed %d of %d bytes (%s)", st.StatPub.ReadBytesSum, g.total, what)
		}
		time.Sleep(200 * time.Microsecond)
	}
}

// waitInputGone: the group has no input any more (teardown of an input whose
// session runs in a goroutine of lal's own).  A timeout is reported only when
// lal's own state still lists the session.
func (w *world) waitInputGone(i int, kind, end string) *pbt.Violation {
	deadline := time.Now().Add(lalclient.IdleTimeout)
	g := w.group()
	for g != nil && g.HasInSession() {
		if time.Now().After(deadline) {
			sg := w.s.SM.StatGroup(streamName)
			if sg != nil && (sg.StatPub.SessionId != "" || sg.StatPull.SessionId != "") {
				return pbt.V("input-not-ended/"+kind+"/"+end, "incarnation %d: %v after the %s input was ended by %s the group still has it attached (pub=%q pull=%q)", i, lalclient.IdleTimeout, kind, end, sg.StatPub.SessionId, sg.StatPull.SessionId)
			}
			lalclient.Harness("incarnation %d: input still attached but not listed", i)
		}
		time.Sleep(200 * time.Microsecond)
	}
	return nil
}
