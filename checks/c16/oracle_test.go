package c16

import (
	"bytes"
	"fmt"
	"os"
	"path/filepath"
	"sort"
	"strconv"
	"strings"
	"time"

	"verif/drv/pbt"
	"verif/gen"
	"verif/harness/hlsfs"
	"verif/harness/lalclient"
	"verif/ref/codecref"
	"verif/ref/m3u8ref"
	"verif/ref/tsref"
)

// ---------------------------------------------------------------------------
// hook

func (w *world) hookCheck(i int, when string, wantStarts, wantStops int) *pbt.Violation {
	if !w.c.Hook {
		return nil
	}
	w.s.HookMu.Lock()
	starts, stops := w.s.HookStarts, w.s.HookStops
	w.s.HookMu.Unlock()
	if starts != wantStarts {
		return pbt.V("hook/start-count", "incarnation %d, %s: the stream hook was started %d times, want %d (once per accepted input)", i, when, starts, wantStarts)
	}
	if stops != wantStops {
		sig := "hook/stop-missing"
		if stops > wantStops {
			sig = "hook/stop-repeated"
		}
		return pbt.V(sig, "incarnation %d, %s: OnStop was called %d times for %d hook starts, want %d", i, when, stops, starts, wantStops)
	}
	return nil
}

// ---------------------------------------------------------------------------
// stat

func expectedStat(in Inc) (audio, video string, width, height int) {
	for _, it := range in.Items {
		switch it.Kind {
		case "ash":
			if audio == "" {
				audio = "AAC"
			}
		case "audio":
			if audio == "" {
				switch in.Codecs.Audio {
				case "g711a":
					audio = "PCMA"
				case "g711u":
					audio = "PCMU"
				case "opus":
					audio = "OPUS"
				}
			}
		case "vsh":
			{ // the dimensions follow the latest sequence header
				vps, sps, _ := gen.ParamSets(in.Codecs.Video, it.Variant)
				if in.Codecs.Video == "hevc" {
					video = "H265"
					_ = vps
					wd, ht, err := codecref.ParseH265SPSSize(sps)
					if err != nil {
						lalclient.Harness("reference HEVC SPS parser: %v", err)
					}
					width, height = int(wd), int(ht)
				} else {
					video = "H264"
					m, err := codecref.ParseH264SPS(sps)
					if err != nil {
						lalclient.Harness("reference AVC SPS parser: %v", err)
					}
					wd, ht := m.DisplaySize()
					width, height = int(wd), int(ht)
				}
			}
		}
	}
	return
}

// statCheck: while incarnation i is live the stat API describes it — not its
// predecessor.
func (w *world) statCheck(i int) *pbt.Violation {
	in := w.c.Incs[i]
	sg := w.s.SM.StatGroup(streamName)
	if sg == nil {
		return pbt.V("stat/group-missing", "incarnation %d: StatGroup does not know the stream while its input is attached", i)
	}
	a, v, wd, ht := expectedStat(in)
	prev := ""
	if i > 0 {
		pa, pv, pw, ph := expectedStat(w.c.Incs[i-1])
		prev = fmt.Sprintf(" (the previous incarnation was audio=%q video=%q %dx%d)", pa, pv, pw, ph)
	}
	if w.c.DummyAudio && a == "" && sg.AudioCodec == "AAC" {
		a = "AAC" // silent AAC inserted by the dummy-audio filter
	}
	if sg.AudioCodec != a || sg.VideoCodec != v {
		return pbt.V("stat/stale-codec", "incarnation %d (%s): StatGroup reports audio_codec=%q video_codec=%q, the current input published audio=%q video=%q%s", i, shape(in.Codecs), sg.AudioCodec, sg.VideoCodec, a, v, prev)
	}
	dimsOK := sg.VideoWidth == wd && sg.VideoHeight == ht
	if !dimsOK {
		if countKindItems(in, "vsh") > 1 {
			return pbt.V("stat/dimensions-after-header-change", "incarnation %d (%s): the publisher changed its video sequence header inside the publish; StatGroup reports %dx%d, the sequence header in force says %dx%d", i, shape(in.Codecs), sg.VideoWidth, sg.VideoHeight, wd, ht)
		}
		return pbt.V("stat/stale-dimensions", "incarnation %d (%s): StatGroup reports %dx%d, the current input's sequence header says %dx%d%s", i, shape(in.Codecs), sg.VideoWidth, sg.VideoHeight, wd, ht, prev)
	}
	return nil
}

// ---------------------------------------------------------------------------
// recordings

type recSnapshot map[string]bool

func (w *world) snapshotRecordings() recSnapshot {
	out := recSnapshot{}
	for _, d := range []string{"flv", "ts"} {
		ents, _ := os.ReadDir(filepath.Join(w.s.Dir, d))
		for _, e := range ents {
			out[d+"/"+e.Name()] = true
		}
	}
	return out
}

// currentRecording returns the recording of the incarnation that just ended:
// the newest file name (names carry the unix second of the input's arrival; a
// re-publish within the same second re-creates the predecessor's file).
func (w *world) currentRecording(dir, ext string) (string, bool) {
	ents, _ := os.ReadDir(filepath.Join(w.s.Dir, dir))
	best, bestSec := "", int64(-1)
	for _, e := range ents {
		n := e.Name()
		if !strings.HasPrefix(n, streamName+"-") || !strings.HasSuffix(n, ext) {
			continue
		}
		sec, err := strconv.ParseInt(strings.TrimSuffix(strings.TrimPrefix(n, streamName+"-"), ext), 10, 64)
		if err != nil {
			continue
		}
		if sec > bestSec {
			best, bestSec = n, sec
		}
	}
	if best == "" {
		return "", false
	}
	return filepath.Join(w.s.Dir, dir, best), true
}

func (w *world) fsOps() int {
	n := 0
	if w.layer != nil {
		w.layer.With(func(st *hlsfs.State) { n = st.NumOps() })
	}
	return n
}

// openDescriptors lists descriptors of this process that point below dir.
func openDescriptors(dir string) []string {
	ents, err := os.ReadDir("/proc/self/fd")
	if err != nil {
		lalclient.Harness("/proc/self/fd: %v", err)
	}
	var out []string
	for _, e := range ents {
		t, err := os.Readlink("/proc/self/fd/" + e.Name())
		if err != nil {
			continue
		}
		if strings.HasPrefix(t, dir+"/") {
			out = append(out, strings.TrimPrefix(t, dir+"/"))
		}
	}
	sort.Strings(out)
	return out
}

// ---------------------------------------------------------------------------
// transport stream content

type needle struct {
	idx   int // index in P
	what  string
	data  []byte
	audio bool
}

// tsNeedles lists what a TS output must carry of P[from:to], in order: every
// video NAL unit except the ones lal replaces or drops by design (access unit
// delimiters, parameter sets, HEVC SEI) and every AAC / Opus frame.
func (w *world) tsNeedles(from, to int) (video, audio []needle) {
	for x := from; x < to; x++ {
		pm := w.P[x]
		cd := w.c.Incs[pm.inc].Codecs
		switch pm.kind {
		case "video":
			for ni, n := range pm.item.Nals {
				b := n.Bytes()
				if !keepNal(cd.Video, b) {
					continue
				}
				video = append(video, needle{idx: x, what: fmt.Sprintf("NAL unit %d of the video frame at published index %d (ts %d, key=%v, %d bytes)", ni, x, pm.item.Ts, pm.key, len(b)), data: b})
			}
		case "audio":
			switch cd.Audio {
			case "aac":
				audio = append(audio, needle{idx: x, audio: true, what: fmt.Sprintf("AAC frame at published index %d (ts %d, %d bytes)", x, pm.item.Ts, len(pm.rec.Payload)-2), data: pm.rec.Payload[2:]})
			case "opus":
				audio = append(audio, needle{idx: x, audio: true, what: fmt.Sprintf("Opus frame at published index %d (ts %d)", x, pm.item.Ts), data: pm.rec.Payload[1:]})
			}
		}
	}
	return
}

func keepNal(codec string, n []byte) bool {
	if len(n) == 0 {
		return false
	}
	if codec == "hevc" {
		t := int(n[0]>>1) & 0x3f
		return !(t == 32 || t == 33 || t == 34 || t == 35 || t == 39 || t == 40)
	}
	t := int(n[0] & 0x1f)
	return !(t == 7 || t == 8 || t == 9)
}

type tsContent struct {
	res   *tsref.Result
	video []byte // concatenated video PES payloads
	audio []byte // concatenated audio PES payloads
	vType uint8
	hasV  bool
	// raw: transport payload bytes per PID, whether or not a program map announces the PID (a consumer that stayed
	// attached across incarnations keeps the first incarnation's tables)
	raw map[uint16][]byte
}

// carries reports whether the unit occurs in the stream: in the elementary
// stream of its kind, or in the raw payload of any PID.
func (tc *tsContent) carries(n needle) bool {
	hay := tc.video
	if n.audio {
		hay = tc.audio
	}
	if bytes.Contains(hay, n.data) {
		return true
	}
	for _, b := range tc.raw {
		if bytes.Contains(b, n.data) {
			return true
		}
	}
	return false
}

// demuxTsLive is demuxTs for a stream that was cut by closing the connection:
// the last PES may be incomplete.
func demuxTsLive(data []byte) (*tsContent, error) { return demuxTsOpt(data[:len(data)/188*188], true) }

func demuxTs(data []byte) (*tsContent, error) { return demuxTsOpt(data, false) }

func demuxTsOpt(data []byte, cut bool) (*tsContent, error) {
	if len(data)%188 != 0 {
		return nil, fmt.Errorf("%d bytes are not a whole number of 188-byte packets", len(data))
	}
	res, err := tsref.Demux(data, tsref.Options{})
	if err != nil {
		return nil, err
	}
	for _, pr := range res.Problems {
		switch pr.Kind {
		case "pes-length-mismatch", "pes-truncated":
			if cut {
				continue
			}
			return nil, fmt.Errorf("%s", pr.String())
		case "pes-no-start-code", "pes-header-overflow", "pes-pts-dts-flags", "af-length", "af-overflow":
			return nil, fmt.Errorf("%s", pr.String())
		}
	}
	out := &tsContent{res: res, raw: map[uint16][]byte{}}
	for _, p := range res.Packets {
		if p.PID > 0x1f && len(p.Payload) > 0 {
			out.raw[p.PID] = append(out.raw[p.PID], p.Payload...)
		}
	}
	vp, ap := map[uint16]bool{}, map[uint16]bool{}
	for _, m := range res.PMTs {
		for _, es := range m.Streams {
			switch es.StreamType {
			case tsref.StreamTypeH264, tsref.StreamTypeH265:
				vp[es.PID] = true
				out.vType, out.hasV = es.StreamType, true
			case tsref.StreamTypeAAC, tsref.StreamTypePrivate:
				ap[es.PID] = true
			}
		}
	}
	for _, p := range res.PES {
		if vp[p.PID] {
			out.video = append(out.video, p.Payload...)
		} else if ap[p.PID] {
			out.audio = append(out.audio, p.Payload...)
		}
	}
	return out, nil
}

// twice returns a needle that occurs more than once in its elementary stream
// (every published unit is unique: a second occurrence is a second delivery, e.g.
// an audio batch flushed twice).
func twice(tc *tsContent, ns []needle) (needle, int, bool) {
	for _, n := range ns {
		hay := tc.video
		if n.audio {
			hay = tc.audio
		}
		if c := bytes.Count(hay, n.data); c > 1 {
			return n, c, true
		}
	}
	return needle{}, 0, false
}

// firstMissing returns the first needle that does not occur (in order) in hay.
func firstMissing(hay []byte, ns []needle) (int, bool) {
	pos := 0
	for i, n := range ns {
		k := bytes.Index(hay[pos:], n.data)
		if k < 0 {
			return i, true
		}
		pos += k + len(n.data)
	}
	return 0, false
}

// pushCloseGuard bounds the wait for a push target to see the close of a
// connection that lal has already closed (Dispose is synchronous inside the
// teardown that has finished; healthy: < 1 ms on loopback).  A timeout is
// reported only if the goroutine dump still shows the read loop of lal's push
// client session.
const pushCloseGuard = 5 * time.Second

// ---------------------------------------------------------------------------
// after the input has gone

// afterEnd judges the outputs of the incarnation that just ended.  When lal's
// dummy-audio filter was still analysing the stream (holding its first
// messages back) at that moment, a completeness violation is the loss of the
// held messages: it gets a signature of its own.
func (w *world) afterEnd(i, incStart int, before recSnapshot, fsMark int) *pbt.Violation {
	v := w.afterEndInner(i, incStart, before, fsMark)
	in := w.c.Incs[i]
	if v != nil && w.c.DummyAudio && dummyHolding(in, w.c.DummyWaitMs) {
		switch v.Sig {
		case "record-flv/incomplete", "record-ts/audio-missing", "record-ts/video-missing", "hls/no-segment", "hls/audio-missing", "hls/video-missing", "http-ts/final-frames-missing":
			v.Detail = fmt.Sprintf("the dummy-audio filter (wait %d ms) was still holding the first messages of the stream when the input ended, and they were dropped with it — %s: %s", w.c.DummyWaitMs, v.Sig, v.Detail)
			v.Sig = "dummy-audio/held-messages-lost-at-end"
		}
	}
	return v
}

func (w *world) afterEndInner(i, incStart int, before recSnapshot, fsMark int) *pbt.Violation {
	in := w.c.Incs[i]
	viaRtsp := remuxed(in.Input)
	who := fmt.Sprintf("incarnation %d (%s, %s input, %d messages, ended by %s)", i, shape(in.Codecs), in.Input, len(w.P)-incStart, in.End)

	// hook: one stop per start
	if v := w.hookCheck(i, "after the input ended by "+in.End, i+1, i+1); v != nil {
		return v
	}

	// no descriptor below the scratch root remains open
	if fds := openDescriptors(w.s.Dir); len(fds) > 0 {
		kind := "other"
		switch {
		case strings.HasPrefix(fds[0], "flv/"):
			kind = "record-flv"
		case strings.HasPrefix(fds[0], "ts/"):
			kind = "record-ts"
		case strings.HasPrefix(fds[0], "hls/"):
			kind = "hls"
		}
		return pbt.V("descriptor-left-open/"+kind, "%s: after the teardown finished this process still holds descriptors on %v", who, fds)
	}

	vNeed, aNeed := w.tsNeedles(incStart, len(w.P))

	// FLV recording: parses completely and holds exactly what was published
	if w.c.RecFlv {
		path, ok := w.currentRecording("flv", ".flv")
		if !ok {
			return pbt.V("record-flv/missing", "%s: no FLV recording exists", who)
		}
		b, err := os.ReadFile(path)
		if err != nil {
			lalclient.Harness("read %s: %v", path, err)
		}
		recs, err := lalclient.ParseFlvFile(b)
		if err != nil {
			return pbt.V("record-flv/unparseable", "%s: %s (%d bytes) does not parse completely: %v (%d tags before the error)", who, filepath.Base(path), len(b), err, len(recs))
		}
		want := w.P[incStart:]
		if w.c.DummyAudio && in.Codecs.Audio == "" {
			// silent AAC (sequence header + frames) inserted by the dummy-audio filter is not something the input published
			var kept []lalclient.Rec
			for _, r := range recs {
				if r.Type != gen.TypeAudio {
					kept = append(kept, r)
				}
			}
			recs = kept
		}
		if viaRtsp && w.c.RtspTail {
			have := map[string]bool{}
			for _, r := range recs {
				as, _ := w.attribute(r)
				for _, a := range as {
					have[a.key] = true
				}
			}
			vN, aN := w.tsNeedles(incStart, len(w.P))
			var missing []string
			for _, n := range append(vN, aN...) {
				if !have[string(n.data)] {
					missing = append(missing, n.what)
				}
			}
			if len(missing) > 0 {
				return pbt.V("rtsp-input/tail-lost-at-end", "%s: the FLV recording lacks %d of the %d elementary units the %s publisher sent (they were still in lal's A/V interleave queue when the session ended): %v", who, len(missing), len(vN)+len(aN), in.Input, missing)
			}
		}
		if viaRtsp {
			// the RTSP input reaches the recording through lal's RTP -> RTMP remuxer (own sequence headers, A/V
			// interleave queue): judged on content — units of this incarnation only, none twice
			if v := w.judgeRecords(recs, who+": the FLV recording", "record-flv", i, i); v != nil {
				return v
			}
			want = nil
			recs = nil
		}
		for k := 0; k < len(want) || k < len(recs); k++ {
			if k >= len(recs) {
				return pbt.V("record-flv/incomplete", "%s: the FLV recording holds %d tags, %d messages were published; first missing: %s %s", who, len(recs), len(want), want[k].kind, want[k].rec)
			}
			if k >= len(want) {
				return pbt.V("record-flv/extra-tag", "%s: the FLV recording holds %d tags, %d messages were published; extra: %s%s", who, len(recs), len(want), recs[k], w.origin(recs[k], i))
			}
			if !eq(recs[k], want[k].rec) {
				return pbt.V("record-flv/content", "%s: tag %d of the FLV recording is %s, published message %d was %s %s%s", who, k, recs[k], k, want[k].kind, want[k].rec, w.origin(recs[k], i))
			}
		}
		_ = before
	}

	// TS recording: parses completely, holds every frame published (the batched audio included)
	if w.c.RecTs {
		path, ok := w.currentRecording("ts", ".ts")
		if !ok {
			return pbt.V("record-ts/missing", "%s: no TS recording exists", who)
		}
		b, err := os.ReadFile(path)
		if err != nil {
			lalclient.Harness("read %s: %v", path, err)
		}
		tc, err := demuxTs(b)
		if err != nil {
			return pbt.V("record-ts/unparseable", "%s: %s (%d bytes) does not parse completely: %v", who, filepath.Base(path), len(b), err)
		}
		if viaRtsp {
			aNeed, vNeed = nil, nil // completeness is not due for an RTSP input (A/V interleave queue)
		}
		if k, miss := firstMissing(tc.audio, aNeed); miss {
			return pbt.V("record-ts/audio-missing", "%s: the TS recording (%d packets, %d audio PES bytes) lacks the %s — %d of %d audio frames are present in order before it%s", who, len(tc.res.Packets), len(tc.audio), aNeed[k].what, k, len(aNeed), pendingNote(in))
		}
		if k, miss := firstMissing(tc.video, vNeed); miss {
			return pbt.V("record-ts/video-missing", "%s: the TS recording (%d packets, %d video PES bytes) lacks %s — %d of %d units are present in order before it%s", who, len(tc.res.Packets), len(tc.video), vNeed[k].what, k, len(vNeed), pendingNote(in))
		}
		if v := w.noForeign(tc, i, who+": the TS recording"); v != nil {
			return v
		}
		allV, allA := w.tsNeedles(incStart, len(w.P))
		if n, c, dup := twice(tc, append(allV, allA...)); dup {
			return pbt.V("duplicate/ts-output", "%s: the TS recording carries the %s %d times%s", who, n.what, c, pendingNote(in))
		}
	}

	// HLS: the open segment is closed (once) and listed, the live playlist is finalised
	if w.c.Hls {
		if v := w.hlsAfterEnd(i, incStart, fsMark, who, vNeed, aNeed); v != nil {
			return v
		}
	}

	// relay push: every target sees its connection closed
	for _, pc := range w.pushes {
		select {
		case <-pc.closed:
		case <-time.After(pushCloseGuard):
			if strings.Contains(allStacks(), "rtmp.(*ClientSession).") {
				return pbt.V("push/not-closed", "%s: %v after the teardown finished, push target %d (%s) has not seen its connection closed (%d media messages received); the read loop of lal's push client session is still running", who, pushCloseGuard, pc.stubIdx, w.stubs[pc.stubIdx].Addr, len(pc.c.MediaSnapshot()))
			}
			lalclient.Harness("push target %d did not see a close, but no lal client goroutine is alive", pc.stubIdx)
		}
	}
	w.pushes = nil
	if v := w.latePushes(i, who); v != nil {
		return v
	}

	// HTTP-TS consumers that are still attached (lal keeps them when the input was closed or kicked): the final audio
	// flush reaches them
	if (in.End == "close" || in.End == "kick") && !viaRtsp {
		for _, a := range w.cons {
			if a.gone || a.ts == nil {
				continue
			}
			if v := w.tsTail(a, i, incStart, who, append(append([]needle(nil), aNeed...), vNeed...)); v != nil {
				return v
			}
		}
	}
	return nil
}

func pendingNote(in Inc) string {
	s := ""
	if pendingAudioAtEnd(in) {
		s += "; AAC frames were still batched in the TS remuxer when the input ended"
	}
	if probeQueueOpen(in) {
		s += "; the TS remuxer's start-up queue (16 messages or both tracks seen) had not been released when the input ended"
	}
	return s
}

// origin says which incarnation a record belongs to (diagnostics).
func (w *world) origin(r lalclient.Rec, cur int) string {
	for _, pm := range w.P {
		if eq(pm.rec, r) {
			if pm.inc != cur {
				return fmt.Sprintf(" — that is a message of incarnation %d", pm.inc)
			}
			return ""
		}
	}
	return " — it equals no published message"
}

// noForeign: a TS output of incarnation i carries nothing of earlier incarnations.
func (w *world) noForeign(tc *tsContent, i int, what string) *pbt.Violation {
	for x, pm := range w.P {
		if pm.inc >= i {
			break
		}
		v, a := w.tsNeedles(x, x+1)
		for _, n := range v {
			if bytes.Contains(tc.video, n.data) {
				return pbt.V("inherited/ts-output", "%s carries the %s of incarnation %d", what, n.what, pm.inc)
			}
		}
		for _, n := range a {
			if bytes.Contains(tc.audio, n.data) {
				return pbt.V("inherited/ts-output", "%s carries the %s of incarnation %d", what, n.what, pm.inc)
			}
		}
	}
	return nil
}

func (w *world) hlsAfterEnd(i, incStart, fsMark int, who string, vNeed, aNeed []needle) *pbt.Violation {
	in := w.c.Incs[i]
	dir := filepath.Join(w.s.Dir, "hls", streamName)
	playlist := filepath.Join(dir, "playlist.m3u8")
	var segs []*hlsfs.File
	closes := map[string]int{}
	var plData []byte
	plExists := false
	w.layer.With(func(st *hlsfs.State) {
		for _, f := range st.Files() {
			if f.Born >= fsMark && strings.HasSuffix(f.Path, ".ts") && strings.HasPrefix(f.Path, dir+"/") {
				segs = append(segs, f)
			}
		}
		for _, op := range st.Ops()[fsMark:] {
			if op.Kind == hlsfs.OpClose {
				closes[op.Path]++
			}
		}
		if f := st.Lookup(playlist); f != nil {
			plExists = true
			plData = append([]byte(nil), f.Data...)
		}
	})

	// what must have produced a segment: a key frame (stream with video) or an AAC / Opus frame (stream without)
	expectSeg := false
	firstKey := -1
	for x := incStart; x < len(w.P); x++ {
		if w.P[x].key && firstKey < 0 {
			firstKey = x
		}
	}
	if in.Codecs.Video != "" {
		expectSeg = firstKey >= 0
	} else {
		expectSeg = len(aNeed) > 0
	}
	viaRtsp := remuxed(in.Input)
	if len(segs) == 0 {
		if expectSeg && !viaRtsp {
			return pbt.V("hls/no-segment", "%s: HLS produced no segment at all although the input published %d video frames (first key frame at published index %d) and %d TS-carried audio frames%s", who, countKind(w.P[incStart:], "video"), firstKey, len(aNeed), pendingNote(in))
		}
		return nil
	}
	for _, f := range segs {
		if f.Open || !f.Closed {
			return pbt.V("hls/segment-left-open", "%s: segment %s (%d bytes) was never closed", who, filepath.Base(f.Path), len(f.Data))
		}
		if closes[f.Path] != 1 {
			return pbt.V("hls/segment-closed-repeatedly", "%s: segment %s was closed %d times", who, filepath.Base(f.Path), closes[f.Path])
		}
	}
	lastSeg := segs[len(segs)-1]
	if !plExists {
		return pbt.V("hls/no-playlist", "%s: %d segments were written but playlist.m3u8 does not exist", who, len(segs))
	}
	pl, err := m3u8ref.Parse(plData)
	if err != nil {
		return pbt.V("hls/playlist-unparseable", "%s: playlist.m3u8 after the teardown: %v", who, err)
	}
	if !pl.EndList || !pl.EndListIsLastLine {
		return pbt.V("hls/playlist-not-finalised", "%s: playlist.m3u8 after the teardown lists %d segments but does not end with EXT-X-ENDLIST", who, len(pl.Segments))
	}
	if len(pl.Segments) == 0 || pl.Segments[len(pl.Segments)-1].URI != filepath.Base(lastSeg.Path) {
		lastURI := ""
		if len(pl.Segments) > 0 {
			lastURI = pl.Segments[len(pl.Segments)-1].URI
		}
		return pbt.V("hls/open-segment-not-listed", "%s: the segment that was open when the input ended (%s, %d bytes) is not the last entry of playlist.m3u8 (last entry %q, %d entries)", who, filepath.Base(lastSeg.Path), len(lastSeg.Data), lastURI, len(pl.Segments))
	}
	byName := map[string]*hlsfs.File{}
	for _, f := range segs {
		byName[filepath.Base(f.Path)] = f
	}
	for _, sg := range pl.Segments {
		f := byName[sg.URI]
		if f == nil {
			return pbt.V("inherited/hls-playlist", "%s: the finalised playlist lists %s, which is not a segment of this incarnation", who, sg.URI)
		}
		if f.Died >= 0 {
			return pbt.V("hls/listed-segment-missing", "%s: the finalised playlist lists %s, which has been removed", who, sg.URI)
		}
	}
	var all []byte
	for _, f := range segs {
		if len(f.Data)%188 != 0 {
			return pbt.V("hls/segment-unparseable", "%s: segment %s has %d bytes, not a whole number of packets", who, filepath.Base(f.Path), len(f.Data))
		}
		all = append(all, f.Data...)
	}
	tc, err := demuxTs(all)
	if err != nil {
		return pbt.V("hls/segment-unparseable", "%s: the %d segments do not parse completely: %v", who, len(segs), err)
	}
	// tail completeness: everything published after the first segment was opened is in the segments.  The lower bound
	// for "opened" used here: the first key frame (stream with video) / the first audio frame (stream without).
	var aTail, vTail []needle
	if viaRtsp {
		// completeness is not due for an RTSP input
	} else if in.Codecs.Video != "" {
		for _, n := range aNeed {
			if n.idx > firstKey {
				aTail = append(aTail, n)
			}
		}
		for _, n := range vNeed {
			if n.idx >= firstKey {
				vTail = append(vTail, n)
			}
		}
	} else {
		aTail = aNeed
	}
	if k, miss := firstMissing(tc.audio, aTail); miss {
		return pbt.V("hls/audio-missing", "%s: the %d HLS segments lack the %s (published after the first segment was opened) — %d of %d frames are present in order before it%s", who, len(segs), aTail[k].what, k, len(aTail), pendingNote(in))
	}
	if k, miss := firstMissing(tc.video, vTail); miss {
		return pbt.V("hls/video-missing", "%s: the %d HLS segments lack %s — %d of %d units are present in order before it%s", who, len(segs), vTail[k].what, k, len(vTail), pendingNote(in))
	}
	if v := w.noForeign(tc, i, who+": the HLS segments"); v != nil {
		return v
	}
	allV, allA := w.tsNeedles(incStart, len(w.P))
	if n, c, dup := twice(tc, append(allV, allA...)); dup {
		return pbt.V("duplicate/ts-output", "%s: the HLS segments carry the %s %d times%s", who, n.what, c, pendingNote(in))
	}
	return nil
}

func countKind(p []pmsg, kind string) int {
	n := 0
	for _, m := range p {
		if m.kind == kind {
			n++
		}
	}
	return n
}

// tsTail: an HTTP-TS consumer that had passed its boundary gate before the last
// TS-carried unit of the incarnation was published receives that unit (batched
// audio and the start-up queue are flushed by the teardown).  Consumers that
// stayed attached across an earlier end are included: they passed their gate in
// a predecessor and must be fed by the successor.
func (w *world) tsTail(a *attached, i, incStart int, who string, need []needle) *pbt.Violation {
	if len(need) == 0 {
		return nil
	}
	last := need[0]
	for _, n := range need {
		if n.idx >= last.idx {
			last = n
		}
	}
	if last.idx < a.j {
		return nil
	}
	has := func(body []byte) bool {
		tc, err := demuxTsLive(body)
		if err != nil {
			return false
		}
		return tc.carries(last)
	}
	// quick path: it arrives; otherwise wait until nothing is in flight any more
	prev := -1
	for stable := 0; stable < 2; {
		if a.ts.WaitPred(has, 100*time.Millisecond) {
			return nil
		}
		n := len(a.ts.Body())
		if n == prev {
			stable++
		} else {
			stable, prev = 0, n
		}
	}
	// gate passed before that unit was published? (something published earlier has arrived)
	body := a.ts.Body()
	tc, err := demuxTsLive(body)
	if err != nil {
		return nil // judged when the consumer leaves
	}
	earlier := ""
	vN, aN := w.tsNeedles(a.j, last.idx)
	for _, n := range append(vN, aN...) {
		if tc.carries(n) {
			earlier = n.what
			break
		}
	}
	if earlier == "" {
		return nil
	}
	if a.ts.WaitPred(has, lalclient.DeliverTimeout) {
		return nil
	}
	stay := ""
	if a.j < incStart {
		stay = ", stayed attached across the end of the previous input"
	}
	return pbt.V("http-ts/final-frames-missing", "%s: HTTP-TS consumer %d (joined at published index %d%s) received the %s, so it had passed its start gate, but the %s never arrived (%v after the teardown, %d body bytes)%s", who, a.idx, a.j, stay, earlier, last.what, lalclient.DeliverTimeout, len(a.ts.Body()), pendingNote(w.c.Incs[i]))
}

// ---------------------------------------------------------------------------
// consumers

// attr is what one record carries: a unit (key != "") or a header of an
// incarnation.
type attr struct {
	inc  int
	key  string
	what string
}

// psOwners: which incarnations use parameter set / AAC config b.
func (w *world) psOwner(pps bool, b []byte) (incs []int, known bool) {
	for i, in := range w.c.Incs {
		cd := in.Codecs
		if cd.Video == "" {
			continue
		}
		for _, variant := range incVariants(in) {
			vps, sps, p := gen.ParamSets(cd.Video, variant)
			if pps {
				if bytes.Equal(b, p) {
					incs = append(incs, i)
					known = true
				}
			} else if bytes.Equal(b, sps) || (vps != nil && bytes.Equal(b, vps)) {
				known = true
			}
		}
	}
	return
}

func splitAvcc(b []byte) ([][]byte, bool) {
	var out [][]byte
	for len(b) > 0 {
		if len(b) < 4 {
			return nil, false
		}
		n := int(b[0])<<24 | int(b[1])<<16 | int(b[2])<<8 | int(b[3])
		b = b[4:]
		if n > len(b) {
			return nil, false
		}
		out = append(out, b[:n])
		b = b[n:]
	}
	return out, true
}

// attribute says which incarnation(s) a received / recorded message belongs to
// and which elementary units it carries.  Messages of an RTMP-type incarnation
// are relayed verbatim; those of an RTSP incarnation are built by lal's
// RTP -> RTMP remuxer and are recognised by their content.
func (w *world) attribute(r lalclient.Rec) (out []attr, unknown string) {
	if w.c.DummyAudio && r.Type == gen.TypeAudio && bytes.Equal(r.Payload, []byte{0xaf, 0x00, 0x11, 0x90}) {
		return nil, "" // the dummy-audio filter's own sequence header (may coincide with an incarnation's config)
	}
	// verbatim headers / metadata of an RTMP-type incarnation
	// (after a sequence header change two incarnations may use the same header: every owner is an alternative)
	for x, pm := range w.P {
		if (pm.kind == "meta" || pm.kind == "vsh" || pm.kind == "ash") && eq(pm.rec, r) {
			out = append(out, attr{inc: pm.inc, what: fmt.Sprintf("%s of incarnation %d (published index %d)", pm.kind, pm.inc, x)})
		}
	}
	if len(out) > 0 {
		return out, ""
	}
	pl := r.Payload
	switch r.Type {
	case gen.TypeData:
		return nil, "" // metadata generated by lal itself (RTSP input): belongs to no incarnation's content
	case gen.TypeAudio:
		if len(pl) < 2 {
			return nil, "audio message shorter than its header"
		}
		if pl[0]>>4 == 10 {
			if pl[1] == 0 {
				if w.c.DummyAudio && bytes.Equal(pl, []byte{0xaf, 0x00, 0x11, 0x90}) {
					return nil, "" // the dummy-audio filter's own sequence header (may coincide with an incarnation's config)
				}
				for i, in := range w.c.Incs {
					cd := in.Codecs
					if cd.Audio == "aac" && bytes.Equal(pl[2:], gen.Asc(cd.AscObj, cd.AscFreq, cd.AscChan)) {
						out = append(out, attr{inc: i, what: fmt.Sprintf("AAC sequence header of incarnation %d", i)})
					}
				}
				if len(out) == 0 {
					if w.c.DummyAudio {
						return nil, "" // inserted by the dummy-audio filter
					}
					return nil, "AAC sequence header with a config no incarnation uses"
				}
				return out, ""
			}
			if ref, ok := w.units[string(pl[2:])]; ok {
				return []attr{{inc: ref.inc, key: string(pl[2:]), what: ref.what}}, ""
			}
			if w.c.DummyAudio {
				return nil, "" // silent frame inserted by the dummy-audio filter
			}
			return nil, "AAC frame that was never published"
		}
		if ref, ok := w.units[string(pl[1:])]; ok {
			return []attr{{inc: ref.inc, key: string(pl[1:]), what: ref.what}}, ""
		}
		return nil, "audio frame that was never published"
	case gen.TypeVideo:
		if len(pl) < 5 {
			return nil, "video message shorter than its header"
		}
		enhanced := pl[0]&0x80 != 0
		codec := "avc"
		if enhanced || pl[0]&0x0f == 12 {
			codec = "hevc"
		}
		seqHdr := (!enhanced && pl[1] == 0) || (enhanced && pl[0]&0x0f == 0)
		if seqHdr {
			// built by lal from the RTSP session description: recognised by the PPS it carries
			for i, in := range w.c.Incs {
				if in.Codecs.Video != codec {
					continue
				}
				_, _, pps := gen.ParamSets(codec, incVariant(in))
				if bytes.Contains(pl, pps) {
					out = append(out, attr{inc: i, what: fmt.Sprintf("video sequence header with the parameter sets of incarnation %d", i)})
				}
			}
			if len(out) == 0 {
				return nil, "video sequence header with parameter sets no incarnation uses"
			}
			return out, ""
		}
		off := 5
		if enhanced {
			switch pl[0] & 0x0f {
			case 1:
				off = 8
			case 3:
				off = 5
			default:
				return nil, "enhanced video message of an unexpected packet type"
			}
		}
		if len(pl) < off {
			return nil, "video message shorter than its header"
		}
		nals, ok := splitAvcc(pl[off:])
		if !ok {
			return nil, "video message whose NAL unit lengths do not add up"
		}
		for _, n := range nals {
			if ref, ok := w.units[string(n)]; ok {
				out = append(out, attr{inc: ref.inc, key: string(n), what: ref.what})
				continue
			}
			if ps, isPps := isParamSet(codec, n); ps {
				incs, known := w.psOwner(isPps, n)
				if !known {
					return nil, fmt.Sprintf("in-band parameter set %x no incarnation uses", n)
				}
				for _, i := range incs {
					out = append(out, attr{inc: i, what: fmt.Sprintf("in-band PPS of incarnation %d", i)})
				}
				continue
			}
			if isNeutralNal(codec, n) {
				continue
			}
			hd := n
			if len(hd) > 12 {
				hd = hd[:12]
			}
			return nil, fmt.Sprintf("NAL unit (%d bytes, % x..) that was never published", len(n), hd)
		}
		return out, ""
	}
	return nil, fmt.Sprintf("message of type %d", r.Type)
}

// judgeRecords: every record belongs to an incarnation >= minInc (exactInc >= 0:
// to exactly that one), incarnations never go backwards, and no elementary unit
// arrives twice.  A header that several incarnations share (same AAC config)
// counts for the most favourable one.
func (w *world) judgeRecords(recs []lalclient.Rec, who, kind string, minInc, exactInc int) *pbt.Violation {
	curInc := -1
	seen := map[string]int{}
	for n, r := range recs {
		as, unknown := w.attribute(r)
		if unknown != "" {
			return pbt.V("unknown-record/"+kind, "%s: record %d %s: %s", who, n, r, unknown)
		}
		// group alternatives of a header; units are unambiguous
		best := -1
		for _, a := range as {
			if a.key != "" {
				continue
			}
			if a.inc >= minInc && a.inc >= curInc && (exactInc < 0 || a.inc == exactInc) && (best < 0 || a.inc < best) {
				best = a.inc
			}
		}
		hasHdr := false
		var hdr attr
		for _, a := range as {
			if a.key == "" {
				hasHdr, hdr = true, a
			}
		}
		if hasHdr && best < 0 {
			if hdr.inc < minInc {
				return pbt.V("inherited/"+kind, "%s: record %d %s is the %s, whose input had left before (the consumer may only see incarnation %d or later)", who, n, r, hdr.what, minInc)
			}
			if exactInc >= 0 && hdr.inc != exactInc {
				return pbt.V("inherited/"+kind, "%s: record %d %s is the %s, not of incarnation %d", who, n, r, hdr.what, exactInc)
			}
			return pbt.V("inherited/"+kind, "%s: record %d %s is the %s, received after messages of incarnation %d", who, n, r, hdr.what, curInc)
		}
		if best > curInc {
			curInc = best
		}
		for _, a := range as {
			if a.key == "" {
				continue
			}
			if a.inc < minInc {
				return pbt.V("inherited/"+kind, "%s: record %d %s carries the %s, whose input had left before (the consumer may only see incarnation %d or later)", who, n, r, a.what, minInc)
			}
			if exactInc >= 0 && a.inc != exactInc {
				return pbt.V("inherited/"+kind, "%s: record %d %s carries the %s, not a unit of incarnation %d", who, n, r, a.what, exactInc)
			}
			if a.inc < curInc {
				return pbt.V("inherited/"+kind, "%s: record %d %s carries the %s, received after messages of incarnation %d", who, n, r, a.what, curInc)
			}
			curInc = a.inc
			if first, dup := seen[a.key]; dup {
				return pbt.V("duplicate/"+kind, "%s: record %d %s carries the %s a second time (first in record %d)", who, n, r, a.what, first)
			}
			seen[a.key] = n
		}
	}
	return nil
}

// checkMsgConsumer judges an RTMP / HTTP-FLV consumer: every record is a
// message (or, for an RTSP input, carries units) of an incarnation that was live
// or still to come when it joined, incarnations never go backwards, no unit
// arrives twice.
func (w *world) checkMsgConsumer(a *attached, recs []lalclient.Rec) *pbt.Violation {
	who := fmt.Sprintf("consumer %d (%s, joined incarnation %d at %d = published index %d, stay=%v)", a.idx, a.spec.Kind, a.spec.Inc, a.spec.JoinAt, a.j, a.spec.Stay)
	return w.judgeRecords(recs, who, a.spec.Kind, a.minInc, -1)
}

func (w *world) describe(r lalclient.Rec) string {
	for x, pm := range w.P {
		if eq(pm.rec, r) {
			return fmt.Sprintf("%s, published index %d", pm.kind, x)
		}
	}
	return "?"
}

// checkTsConsumer judges an HTTP-TS consumer on the incarnation it joined.
// tsHeldBack (audit-2 entry 5): an HTTP-TS consumer that joined incarnation k
// (an RTMP-message kind) before its first key frame — the first key frame is
// always a start point — or an incarnation without video, saw 17 or more
// messages published (lal's TS remuxer decides after 16 at the latest) and
// stayed to an end that keeps subscribers, yet received not a single unit.
// Called before the consumer's connection is closed.
func (w *world) tsHeldBack(a *attached) *pbt.Violation {
	if w.c.DummyAudio {
		return nil
	}
	k := w.incAt(a.j)
	if k < 0 || !w.endKeeps(k) || remuxed(w.c.Incs[k].Input) {
		return nil
	}
	in := w.c.Incs[k]
	lo, hi := w.bounds[k][0], w.bounds[k][1]
	if a.j > lo {
		lo = a.j
	}
	if hi-lo < 17 {
		return nil
	}
	for x := w.bounds[k][0]; x < a.j; x++ {
		if w.P[x].key {
			return nil // joined after the first key frame: the next start point depends on the audio batching
		}
	}
	vN, aN := w.tsNeedles(lo, hi)
	if in.Codecs.Video != "" {
		hasKey := false
		for x := lo; x < hi; x++ {
			hasKey = hasKey || w.P[x].key
		}
		if !hasKey {
			return nil
		}
	} else if len(aN) == 0 {
		return nil
	}
	need := append(vN, aN...)
	pbt.Count("heldback_rule_ts_due", 1)
	any := func(body []byte) bool {
		tc, err := demuxTsLive(body)
		if err != nil {
			return false
		}
		for _, n := range need {
			if tc.carries(n) {
				return true
			}
		}
		return false
	}
	if a.ts.WaitPred(any, lalclient.DeliverTimeout) {
		return nil
	}
	return pbt.V("held-back/ts", "HTTP-TS consumer %d joined incarnation %d (%s input, %s) at published index %d, before its first key frame; the incarnation then published %d messages (%d TS-carried units) and ended by %s, yet not one unit arrived (%d body bytes)", a.idx, k, in.Input, shape(in.Codecs), a.j, hi-lo, len(need), in.End, len(a.ts.Body()))
}

func (w *world) checkTsConsumer(a *attached, body []byte) *pbt.Violation {
	who := fmt.Sprintf("HTTP-TS consumer %d (joined incarnation %d at %d = published index %d)", a.idx, a.spec.Inc, a.spec.JoinAt, a.j)
	if len(body) == 0 {
		return nil
	}
	tc, err := demuxTsLive(body)
	if err != nil {
		return pbt.V("http-ts/unparseable", "%s: %v", who, err)
	}
	if v := w.noForeign(tc, a.minInc, who+": the body"); v != nil {
		return v
	}
	allV, allA := w.tsNeedles(0, len(w.P))
	if n, c, dup := twice(tc, append(allV, allA...)); dup {
		return pbt.V("duplicate/ts-output", "%s: the body carries the %s %d times", who, n.what, c)
	}
	cd := w.c.Incs[a.minInc].Codecs
	// (a consumer that stayed into a later incarnation sees that incarnation's tables too: judged on the first only
	// when it left with the incarnation it joined)
	if tc.hasV && cd.Video != "" && len(tc.video) > 0 && int(w.endsSeen)-a.ends0 < 2 {
		want := uint8(tsref.StreamTypeH264)
		if cd.Video == "hevc" {
			want = tsref.StreamTypeH265
		}
		if tc.vType != want {
			return pbt.V("inherited/ts-program-map", "%s: the program map announces video stream type %#x, the incarnation it joined publishes %s", who, tc.vType, cd.Video)
		}
	}
	return nil
}

// latePushes: relay pushes that were still connecting when the input left.  The
// targets answer now; a push session that comes up for a stream without input
// must be closed like the established ones (nothing else would close it: the
// teardown of the input has already run).
func (w *world) latePushes(i int, who string) *pbt.Violation {
	late := w.late
	w.late = nil
	for li, sc := range late {
		ready := make(chan error, 1)
		closed := make(chan struct{})
		go func() {
			err := sc.Handshake()
			if err == nil {
				err = sc.ServeUntilPlayOrPublish()
			}
			if err == nil && sc.Command == "publish" {
				err = sc.AcceptPublish()
			}
			ready <- err
			if err == nil {
				sc.CollectMedia()
			}
			close(closed)
		}()
		select {
		case err := <-ready:
			if err != nil {
				continue // lal gave the connection up meanwhile (its own push timeout, or it closed on teardown): closed
			}
		case <-time.After(lalclient.IdleTimeout):
			lalclient.Harness("late push handshake with stub did not finish")
		}
		// the stub has accepted the publish: lal's push session is up.  It must be closed.
		g := w.group()
		registeredSince := time.Time{}
		deadline := time.Now().Add(lalclient.DeliverTimeout)
	wait:
		for {
			select {
			case <-closed:
				break wait
			case <-time.After(2 * time.Millisecond):
			}
			// corroboration by lal's own state: a push session registered on a group that has no input
			if g != nil && !g.HasInSession() && g.OutSessionNum() > w.attachedSubsMax() {
				if registeredSince.IsZero() {
					registeredSince = time.Now()
				}
				if time.Since(registeredSince) > 2*time.Second {
					return pbt.V("push/late-session-not-closed", "%s: push target %d answered the RTMP handshake after the input had left; lal completed the publish and has kept the push session registered on the input-less group for %v (in=%v, out sessions=%d, subscribers=%d) instead of closing it", who, li, time.Since(registeredSince).Round(time.Millisecond), g.HasInSession(), g.OutSessionNum(), w.attachedSubsMax())
				}
			} else {
				registeredSince = time.Time{}
			}
			if time.Now().After(deadline) {
				if strings.Contains(allStacks(), "rtmp.(*ClientSession).") {
					return pbt.V("push/late-session-not-closed", "%s: push target %d answered the RTMP handshake after the input had left; %v later the connection is still open (the read loop of lal's push client session is still running)", who, li, lalclient.DeliverTimeout)
				}
				lalclient.Harness("late push: no close seen, no lal client goroutine alive")
			}
		}
	}
	return nil
}
