package c04

import (
	"testing"
	"time"

	"verif/harness/inproc"
)

// FuzzRtmpServerSession feeds arbitrary bytes (after an optional valid prefix
// selected by the first byte) to lal's RTMP accept handler.
//
// go's fuzzing engine kills a worker whose target runs for 10 s ("deadlocked!") and reports the input as a crasher.
// lal zeroes up to 16 MiB per lying chunk header, so the input size is bounded (16 KiB) and a session that is still
// RUNNING after 6 s on a loaded machine is abandoned (the instance is leaked, nothing is reported); a session that is
// PARKED after the peer's EOF is the violation.
func FuzzRtmpServerSession(f *testing.F) {
	for _, st := range []string{"raw", "connected", "publishing", "playing"} {
		c := Case{Handshake: "simple", Stage: st, Stream: "s1", Trunc: -1}
		f.Add(byte(0), render(c))
		c.Msgs = []Msg{{Kind: "raw", Type: 4, RawHex: "000600000001", Csid: 2}, {Kind: "raw", Type: 9, RawHex: "17010000000000000565aabbccdd", Csid: 6, Msid: 1}}
		f.Add(byte(0), render(c))
		// two media messages interleaved chunk by chunk with a Set Chunk Size in between
		c.Msgs = []Msg{{Kind: "ilv", Ilv: &Ilv{Parts: []Msg{{Kind: "raw", Type: 9, RawSeed: 1, RawLen: 300, Csid: 6, Msid: 1}, {Kind: "raw", Type: 8, RawSeed: 2, RawLen: 200, Csid: 4, Msid: 1}},
			Order: []int{0, 1, 0, 1}, Scs: []IlvScs{{After: 2, Size: 64, Adopt: true}}}}}
		f.Add(byte(0), render(c))
	}
	// digest ("complex") handshakes a mutator cannot forge: C1 signed for either scheme (lal does not verify C2, so
	// the zero placeholder passes), followed by a session; mutations behind C1 keep lal in digest mode
	for _, hs := range []Case{{Handshake: "digest"}, {Handshake: "digest1", HsOffs: "ffffffff"}} {
		hs.Stage, hs.Stream, hs.Trunc = "publishing", "s1", -1
		hs.Msgs = []Msg{{Kind: "raw", Type: 9, RawHex: "17010000000000000565aabbccdd", Csid: 6, Msid: 1}}
		f.Add(byte(0), render(hs))
	}
	f.Add(byte(1), []byte{0x02, 0, 0, 0, 0, 0, 4, 5, 0, 0, 0, 0, 0, 0, 0, 1})
	f.Add(byte(2), []byte{0x06, 0, 0, 0, 0, 0, 1, 9, 1, 0, 0, 0, 0x17})
	f.Add(byte(3), []byte{0x43, 0, 0, 0, 0, 0, 3, 20, 2, 0, 0})
	prefixes := [][]byte{nil,
		render(Case{Handshake: "simple", Stage: "connected", Trunc: -1}),
		render(Case{Handshake: "simple", Stage: "publishing", Stream: "f", Trunc: -1}),
		render(Case{Handshake: "simple", Stage: "playing", Stream: "f", Trunc: -1})}
	f.Fuzz(func(t *testing.T, sel byte, data []byte) {
		if len(data) > 1<<14 {
			return
		}
		s := inproc.New(inproc.Config{RtmpGopNum: 1, FlvGopNum: 1, TsGopNum: 1})
		closeIt := true
		defer func() {
			if closeIt {
				s.Close()
			}
		}()
		conn := s.RtmpConn()
		wire := append(append([]byte(nil), prefixes[int(sel)%len(prefixes)]...), data...)
		_, _ = conn.Write(wire)
		conn.CloseWrite()
		v, ended := waitSessionEndWithin(s, conn, 6*time.Second, 1, time.Second)
		if v == nil && !ended {
			closeIt = false // still running: tearing the instance down would wait for it
			return
		}
		if v == nil {
			v = s.PanicViolation()
		}
		if v != nil {
			t.Fatalf("FUZZ-VIOLATION sig=%s %s", v.Sig, v.Detail)
		}
	})
}
