package c04

// Client side of the RTMP "complex" (digest) handshake, written from the publicly documented scheme
// (the one Flash Player, librtmp, ffmpeg and OBS use); nothing here comes from lal.
//
//	C0        1 byte   version 3
//	C1     1536 bytes  time(4) | client version(4, non-zero) | 1528 bytes = one 764-byte digest block and one
//	                   764-byte key block
//	  scheme 0: digest block first  — its 4 offset bytes are C1[8:12],    digest at 12  + (sum of them) mod 728
//	  scheme 1: key block first     — the offset bytes are   C1[772:776], digest at 776 + (sum of them) mod 728
//	  digest = HMAC-SHA256(key = first 30 bytes of the Flash Player key, message = C1 without the 32 digest bytes)
//	S1 carries the server's digest the same way (key = first 36 bytes of the Flash Media Server key)
//	C2     1536 bytes  1504 random bytes | HMAC-SHA256(key = HMAC-SHA256(whole 62-byte Flash Player key, S1 digest),
//	                   message = those 1504 bytes)

import (
	"crypto/hmac"
	"crypto/sha256"
	"encoding/hex"
	"strings"

	"verif/gen"
)

var keyTail = []byte{0xF0, 0xEE, 0xC2, 0x4A, 0x80, 0x68, 0xBE, 0xE8, 0x2E, 0x00, 0xD0, 0xD1, 0x02, 0x9E, 0x7E, 0x57,
	0x6E, 0xEC, 0x5D, 0x2D, 0x29, 0x80, 0x6F, 0xAB, 0x93, 0xB8, 0xE6, 0x36, 0xCF, 0xEB, 0x31, 0xAE}

var (
	flashPlayerKey      = append([]byte("Genuine Adobe Flash Player 001"), keyTail...)       // 30 + 32
	flashMediaServerKey = append([]byte("Genuine Adobe Flash Media Server 001"), keyTail...) // 36 + 32
)

const (
	hsBlock     = 1536
	digestLen   = 32
	digestRange = 728 // 764 - 4 offset bytes - 32 digest bytes
)

func isDigestKind(kind string) bool { return strings.HasPrefix(kind, "digest") }

// digestBase is the position of the 4 offset bytes of the scheme inside C1 / S1.
func digestBase(scheme int) int {
	if scheme == 1 {
		return 8 + 764
	}
	return 8
}

func digestPos(b []byte, scheme int) int {
	base := digestBase(scheme)
	sum := int(b[base]) + int(b[base+1]) + int(b[base+2]) + int(b[base+3])
	return base + 4 + sum%digestRange
}

// hmacAround is HMAC-SHA256 over b without the digestLen bytes at pos.
func hmacAround(key, b []byte, pos int) []byte {
	m := hmac.New(sha256.New, key)
	m.Write(b[:pos])
	m.Write(b[pos+digestLen:])
	return m.Sum(nil)
}

// buildC0C1 returns C0+C1 with a digest for the given scheme.  offsHex (8 hex digits) overrides the 4 offset bytes;
// keyKind "" signs with the client's 30-byte key (what a server accepts), "full" with all 62 bytes, "server" with the
// server's 36-byte key (both are refused: lal falls back to the simple handshake).
func buildC0C1(scheme int, offsHex, keyKind string) []byte {
	out := make([]byte, 1+hsBlock)
	out[0] = 3
	c1 := out[1:]
	copy(c1[4:8], []byte{9, 0, 124, 2}) // the client version librtmp / ffmpeg announce
	copy(c1[8:], gen.Bytes(0xC04, hsBlock-8))
	if o, err := hex.DecodeString(offsHex); err == nil && len(o) == 4 {
		copy(c1[digestBase(scheme):], o)
	}
	key := flashPlayerKey[:30]
	switch keyKind {
	case "full":
		key = flashPlayerKey
	case "server":
		key = flashMediaServerKey[:36]
	}
	pos := digestPos(c1, scheme)
	copy(c1[pos:], hmacAround(key, c1, pos))
	return out
}

// peerDigest finds the digest a peer signed block b with (either scheme), or nil.
func peerDigest(b, key []byte) []byte {
	if len(b) < hsBlock {
		return nil
	}
	for _, scheme := range []int{0, 1} {
		pos := digestPos(b, scheme)
		if hmac.Equal(hmacAround(key, b[:hsBlock], pos), b[pos:pos+digestLen]) {
			return b[pos : pos+digestLen]
		}
	}
	return nil
}

// buildC2 answers S1: the digest form when S1 is signed, the echo of S1 (simple handshake) otherwise.
func buildC2(s1 []byte) (c2 []byte, digestMode bool) {
	d := peerDigest(s1, flashMediaServerKey[:36])
	if d == nil {
		return append([]byte(nil), s1[:hsBlock]...), false
	}
	m := hmac.New(sha256.New, flashPlayerKey)
	m.Write(d)
	key := m.Sum(nil)
	c2 = gen.Bytes(0xC2, hsBlock)
	m2 := hmac.New(sha256.New, key)
	m2.Write(c2[:hsBlock-digestLen])
	copy(c2[hsBlock-digestLen:], m2.Sum(nil))
	return c2, true
}

// digestHandshakeBytes renders C0 C1 [C2] for a digest kind.  C2 "valid" (or "") is a placeholder of zeros that the
// oracle replaces by the real answer to lal's S1 before it is sent; "garbage" / "short" / "missing" are sent as they are.
func digestHandshakeBytes(c Case) []byte {
	scheme := 0
	if strings.HasPrefix(c.Handshake, "digest1") {
		scheme = 1
	}
	out := buildC0C1(scheme, c.HsOffs, c.HsKey)
	switch c.C2 {
	case "missing":
	case "short":
		out = append(out, gen.Bytes(0xC3, 700)...)
	case "garbage":
		out = append(out, gen.Bytes(0xC3, hsBlock)...)
	default:
		out = append(out, make([]byte, hsBlock)...)
	}
	return out
}
