// C04 — no byte sequence from an RTMP peer can terminate the server.
//
// A structured generator renders RTMP exchanges (handshake variants, a valid
// prefix that reaches a chosen protocol state, then hostile messages) with the
// reference chunk writer, applies byte-level mutations and delivers the bytes in
// generated TCP slices to lal's real accept handler over an in-memory
// connection.  Oracle: the session goroutine returns without panic once the
// peer has sent EOF, the process stays alive, and a healthy publisher +
// subscriber pair on the same server still relays a marker afterwards.
//
// Not asserted: which error is returned, whether the connection is closed or
// kept open until EOF.
package c04

import (
	"bytes"
	"encoding/hex"
	"fmt"
	"runtime/debug"
	"testing"
	"time"

	"pgregory.net/rapid"

	"verif/drv/pbt"
	"verif/gen"
	"verif/harness/inproc"
	"verif/harness/lalclient"
	"verif/ref/rtmpref"
)

// AV is a compact AMF0 value spec.
type AV struct {
	K    string  `json:"k"` // num str lstr bool null undef obj ecma sarr ref date bad
	N    float64 `json:"n,omitempty"`
	S    string  `json:"s,omitempty"`
	Rep  int     `json:"rep,omitempty"` // string = S repeated Rep times (long strings)
	B    bool    `json:"b,omitempty"`
	Keys []string `json:"keys,omitempty"`
	Vals []AV    `json:"vals,omitempty"`
	Raw  string  `json:"raw,omitempty"` // hex, for K == "bad"
	Nest int     `json:"nest,omitempty"` // K == "bomb": Nest levels of nested containers of kind S ("o","e","s")
}

func (a AV) value() (rtmpref.Value, []byte) {
	switch a.K {
	case "num":
		return rtmpref.Num(a.N), nil
	case "str":
		return rtmpref.Str(rep(a.S, a.Rep)), nil
	case "lstr":
		return rtmpref.LongStr(rep(a.S, a.Rep)), nil
	case "bool":
		return rtmpref.Bool(a.B), nil
	case "null":
		return rtmpref.Null(), nil
	case "undef":
		return rtmpref.Undefined(), nil
	case "obj", "ecma":
		var ms []rtmpref.Member
		for i, k := range a.Keys {
			if i < len(a.Vals) {
				v, raw := a.Vals[i].value()
				if raw != nil {
					continue
				}
				ms = append(ms, rtmpref.M(k, v))
			}
		}
		if a.K == "ecma" {
			return rtmpref.EcmaArray(ms...), nil
		}
		return rtmpref.Obj(ms...), nil
	case "sarr":
		var es []rtmpref.Value
		for _, x := range a.Vals {
			v, raw := x.value()
			if raw == nil {
				es = append(es, v)
			}
		}
		return rtmpref.StrictArray(es...), nil
	case "bomb":
		var b []byte
		for i := 0; i < a.Nest; i++ {
			switch a.S {
			case "e":
				b = append(b, 8, 0, 0, 0, 1, 0, 1, 'k')
			case "s":
				b = append(b, 10, 0, 0, 0, 1)
			default:
				b = append(b, 3, 0, 1, 'k')
			}
		}
		return rtmpref.Value{}, b
	default: // bad
		b, _ := hex.DecodeString(a.Raw)
		return rtmpref.Value{}, b
	}
}

func rep(s string, n int) string {
	if n <= 1 {
		return s
	}
	return string(bytes.Repeat([]byte(s), n))
}

func encodeArgs(args []AV) []byte {
	var out []byte
	for _, a := range args {
		v, raw := a.value()
		if raw != nil {
			out = append(out, raw...)
			continue
		}
		b, err := rtmpref.AppendAmf0(nil, v)
		if err != nil {
			continue
		}
		out = append(out, b...)
	}
	return out
}

type Msg struct {
	Kind string `json:"kind"` // cmd | raw
	// cmd
	Cmd  string  `json:"cmd,omitempty"`
	Tid  float64 `json:"tid,omitempty"`
	Args []AV    `json:"args,omitempty"`
	Amf3 bool    `json:"amf3,omitempty"`
	// raw
	Type    uint8  `json:"type"`
	RawHex  string `json:"raw_hex,omitempty"`
	RawSeed uint32 `json:"raw_seed,omitempty"`
	RawLen  int    `json:"raw_len,omitempty"`
	// framing
	Csid      int    `json:"csid"`
	Msid      uint32 `json:"msid"`
	Ts        uint32 `json:"ts"`
	Fmt       uint8  `json:"fmt"`
	ChunkSize int    `json:"chunk_size,omitempty"` // 0: keep the writer's
	DeclLen   int    `json:"decl_len,omitempty"`   // >0: lie about the message length in the header
	WideCsid  bool   `json:"wide_csid,omitempty"`
}

type Case struct {
	Handshake string `json:"handshake"` // simple | complexish | badversion | short | garbage | none
	Stage     string `json:"stage"`     // raw | connected | publishing | playing
	Stream    string `json:"stream"`
	Msgs      []Msg  `json:"msgs"`
	Flips     []int  `json:"flips,omitempty"` // byte offsets (mod len) to corrupt
	Trunc     int    `json:"trunc"`           // -1: whole stream; else keep this many bytes (mod len+1)
	Slices    []int  `json:"slices"`
}

func (m Msg) payload() []byte {
	if m.Kind == "cmd" {
		var p []byte
		if m.Amf3 {
			p = append(p, 0)
		}
		p = append(p, rtmpref.EncodeAmf0(rtmpref.Str(m.Cmd), rtmpref.Num(m.Tid))...)
		return append(p, encodeArgs(m.Args)...)
	}
	if m.RawHex != "" {
		b, _ := hex.DecodeString(m.RawHex)
		return b
	}
	return gen.Bytes(m.RawSeed, m.RawLen)
}

func (m Msg) typeID() uint8 {
	if m.Kind == "cmd" {
		if m.Amf3 {
			return rtmpref.TypeCmdAmf3
		}
		return rtmpref.TypeCmdAmf0
	}
	return m.Type
}

func init() {
	// make stack exhaustion cheap and deterministic: a few hundred thousand nested containers overflow 32 MiB
	debug.SetMaxStack(32 << 20)
}

// ---- generators -------------------------------------------------------------

var strGen = rapid.OneOf(
	rapid.SampledFrom([]string{"", "live", "test", "onMetaData", "@setDataFrame", "|RtmpSampleAccess", "a?b=c?d", "../../x", "\x00", "live/x/y"}),
	rapid.StringMatching(`[a-z0-9/?=&.]{0,12}`),
)

func avGen(depth int) *rapid.Generator[AV] {
	return rapid.Custom(func(t *rapid.T) AV {
		hi := 11
		if depth <= 0 {
			hi = 7
		}
		switch rapid.IntRange(0, hi).Draw(t, "avKind") {
		case 0, 1:
			return AV{K: "num", N: rapid.SampledFrom([]float64{0, 1, 3, -1, 1e308, 4294967296, 2147483648, 0.5}).Draw(t, "num")}
		case 2, 3:
			return AV{K: "str", S: strGen.Draw(t, "str")}
		case 4:
			return AV{K: "bool", B: rapid.Bool().Draw(t, "b")}
		case 5:
			return AV{K: "null"}
		case 6:
			return AV{K: "undef"}
		case 7:
			// malformed / unusual markers
			return AV{K: "bad", Raw: rapid.SampledFrom([]string{"", "02", "0200", "02ffff", "0c", "0c7fffffff61", "03", "0300", "030001", "08", "08ffffffff", "0affffffff", "0a00000001", "020003ab", "02000461", "0c0000000361", "0200026100", "07000a", "0b0000000000000000000000", "0d", "11", "ff", "000000", "0500", "09"}).Draw(t, "badRaw")}
		case 8:
			return AV{K: "lstr", S: "x", Rep: rapid.SampledFrom([]int{1, 65535, 65536, 70000}).Draw(t, "rep")}
		case 9:
			n := rapid.IntRange(0, 3).Draw(t, "nkeys")
			a := AV{K: rapid.SampledFrom([]string{"obj", "ecma"}).Draw(t, "objKind")}
			for i := 0; i < n; i++ {
				a.Keys = append(a.Keys, rapid.SampledFrom([]string{"app", "tcUrl", "objectEncoding", "flashVer", "type", "", "x"}).Draw(t, "key"))
				a.Vals = append(a.Vals, avGen(depth-1).Draw(t, "val"))
			}
			return a
		case 10:
			n := rapid.IntRange(0, 3).Draw(t, "nelems")
			a := AV{K: "sarr"}
			for i := 0; i < n; i++ {
				a.Vals = append(a.Vals, avGen(depth-1).Draw(t, "elem"))
			}
			return a
		default:
			nest := rapid.SampledFrom([]int{2, 65, 70, 1000, 20000, 65, 2, 250000}).Draw(t, "nest")
			if pbt.Thorough() && rapid.IntRange(0, 20).Draw(t, "huge") == 0 {
				nest = 1000000
			}
			return AV{K: "bomb", S: rapid.SampledFrom([]string{"o", "e", "s"}).Draw(t, "bombKind"), Nest: nest}
		}
	})
}

var csidGen = rapid.OneOf(rapid.IntRange(2, 8), rapid.SampledFrom([]int{2, 3, 63, 64, 319, 320, 65599}))
var tsGen = rapid.OneOf(rapid.Uint32Range(0, 1000), rapid.SampledFrom([]uint32{0, 0xFFFFFE, 0xFFFFFF, 0x1000000, 0xFFFFFFFF}))

func hostileMsg(t *rapid.T) Msg {
	var m Msg
	m.Csid = csidGen.Draw(t, "csid")
	m.Msid = rapid.SampledFrom([]uint32{1, 0, 1, 2, 0xFFFFFFFF}).Draw(t, "msid")
	m.Ts = tsGen.Draw(t, "ts")
	m.Fmt = uint8(rapid.SampledFrom([]int{0, 0, 0, 1, 2, 3}).Draw(t, "fmt"))
	m.WideCsid = rapid.IntRange(0, 9).Draw(t, "wide") == 0
	if rapid.IntRange(0, 7).Draw(t, "cs") == 0 {
		m.ChunkSize = rapid.SampledFrom([]int{1, 2, 127, 129, 4096, 70000}).Draw(t, "chunkSize")
	}
	switch rapid.IntRange(0, 11).Draw(t, "lie") {
	case 0:
		m.DeclLen = rapid.SampledFrom([]int{1, 2, 3, 1000, 0xFFFFFF, 70000}).Draw(t, "declLen")
	case 1, 2:
		// the message is cut a few bytes short of its last value (negative = relative to the real length)
		m.DeclLen = -rapid.IntRange(1, 5).Draw(t, "cutBy")
	}
	switch rapid.IntRange(0, 12).Draw(t, "msgClass") {
	case 0, 1, 2: // command with generated args
		m.Kind = "cmd"
		m.Cmd = rapid.SampledFrom([]string{"connect", "createStream", "publish", "play", "releaseStream", "FCPublish", "deleteStream", "getStreamLength", "pause", "", "_result", "onStatus", "closeStream"}).Draw(t, "cmd")
		m.Tid = rapid.SampledFrom([]float64{0, 1, 2, 5, -1, 1e300}).Draw(t, "tid")
		n := rapid.IntRange(0, 4).Draw(t, "nargs")
		for i := 0; i < n; i++ {
			m.Args = append(m.Args, avGen(2).Draw(t, "arg"))
		}
		m.Amf3 = rapid.IntRange(0, 5).Draw(t, "amf3") == 0
	case 3: // protocol control / user control with short bodies
		m.Kind = "raw"
		m.Type = rapid.SampledFrom([]uint8{1, 2, 3, 4, 5, 6}).Draw(t, "ctrlType")
		m.RawHex = rapid.SampledFrom([]string{"", "00", "0006", "000600", "00060000", "0006000000", "000600000001", "00000000", "00000001", "7fffffff", "ffffffff", "80000000", "00001000", "0003000000010000000a", "0000ffff"}).Draw(t, "ctrlBody")
	case 4: // audio / video with short or odd payloads
		m.Kind = "raw"
		m.Type = rapid.SampledFrom([]uint8{8, 9}).Draw(t, "avType")
		m.RawHex = rapid.SampledFrom([]string{"", "17", "1700", "170000", "17000000", "1700000000", "170100000000000001", "1c00", "af", "af00", "af01", "af0012", "90", "9068766331", "d0", "27010000000000000165", "2c01000000", "ff", "00"}).Draw(t, "avBody")
	case 5: // data message
		m.Kind = "raw"
		m.Type = 18
		m.RawHex = rapid.SampledFrom([]string{"", "02", "0200", "02000a6f6e4d65746144617461", "02000d40736574446174614672616d65", "02000d40736574446174614672616d6502000a6f6e4d6574614461746108000000010001780200", "0200117c52746d7053616d706c65416363657373", "05", "00", "0c00000001", "02000a6f6e4d657461446174610300", "02000a6f6e4d6574614461746108"}).Draw(t, "dataBody")
	case 6: // any type id, random body
		m.Kind = "raw"
		m.Type = rapid.Uint8().Draw(t, "anyType")
		m.RawSeed = rapid.Uint32().Draw(t, "seed")
		m.RawLen = rapid.SampledFrom([]int{0, 1, 2, 3, 4, 5, 10, 11, 12, 100, 5000}).Draw(t, "rawLen")
	case 11: // media-sized audio / video / data bodies (several output chunks), any timestamp
		m.Kind = "raw"
		m.Type = rapid.SampledFrom([]uint8{9, 9, 8, 18}).Draw(t, "bigMediaType")
		m.RawSeed = rapid.Uint32().Draw(t, "seed")
		m.RawLen = rapid.SampledFrom([]int{4096, 4097, 8192, 8193, 9000, 12289, 20000, 70000}).Draw(t, "bigMediaLen")
		m.Msid = 1
	case 7: // aggregate with lying sub lengths
		m.Kind = "raw"
		m.Type = 22
		m.RawHex = rapid.SampledFrom([]string{"", "09", "0900000a0000000000000001", "09000001000000000000000100", "0900000100000000000000011700000000", "08ffffff00000000000000", "090000010000000000000001170000000c0900ffff00000000000000", "09000000000000000000000000000000"}).Draw(t, "aggBody")
	case 8: // set chunk size
		m.Kind = "raw"
		m.Type = 1
		m.Csid = 2
		m.RawHex = rapid.SampledFrom([]string{"00000000", "00000001", "00000080", "00ffffff", "7fffffff", "ffffffff", "80000001", "0000"}).Draw(t, "scsBody")
	case 9: // big declared length, short body
		m.Kind = "raw"
		m.Type = rapid.SampledFrom([]uint8{8, 9, 18, 20}).Draw(t, "bigType")
		m.RawLen = rapid.IntRange(0, 300).Draw(t, "bigBody")
		m.RawSeed = 7
		m.DeclLen = rapid.SampledFrom([]int{0xFFFFFF, 0x800000, 100000}).Draw(t, "bigDecl")
	case 10: // AMF0 command with raw garbage
		m.Kind = "raw"
		m.Type = rapid.SampledFrom([]uint8{20, 17, 15, 16, 19}).Draw(t, "cmdRawType")
		m.RawHex = rapid.SampledFrom([]string{"", "00", "02", "0200", "0200077075626c697368", "0200077075626c69736800", "0200077075626c697368003ff0000000000000", "0200077075626c697368003ff000000000000005", "02000470 6c6179003ff00000000000000502", "020007636f6e6e656374003ff0000000000000", "020007636f6e6e656374003ff000000000000003", "020007636f6e6e656374003ff00000000000000300036170700200046c69766500000905", "0002000763"}).Draw(t, "cmdRaw")
	default: // valid-looking media (keeps remuxers busy)
		m.Kind = "raw"
		m.Type = 9
		m.RawHex = "17010000000000000565aabbccdd"
	}
	return m
}

func genCase(t *rapid.T) Case {
	var c Case
	c.Handshake = rapid.SampledFrom([]string{"simple", "simple", "simple", "simple", "complexish", "badversion", "short", "garbage", "none"}).Draw(t, "handshake")
	c.Stage = rapid.SampledFrom([]string{"raw", "connected", "publishing", "publishing", "playing"}).Draw(t, "stage")
	c.Stream = rapid.SampledFrom([]string{"s1", "s2", "s1?a=b", "", "x/../y"}).Draw(t, "stream")
	n := rapid.IntRange(0, 6).Draw(t, "nmsgs")
	for i := 0; i < n; i++ {
		c.Msgs = append(c.Msgs, hostileMsg(t))
	}
	if c.Stage == "publishing" && rapid.IntRange(0, 3).Draw(t, "leadingMedia") == 0 {
		// well-framed media-sized messages first (before anything that may close the session): several output chunks,
		// timestamps on both sides of the extended-timestamp threshold
		var lead []Msg
		for i := rapid.IntRange(1, 3).Draw(t, "nlead"); i > 0; i-- {
			lead = append(lead, Msg{Kind: "raw", Type: rapid.SampledFrom([]uint8{9, 9, 8, 18}).Draw(t, "leadType"), RawSeed: rapid.Uint32().Draw(t, "leadSeed"),
				RawLen: rapid.SampledFrom([]int{1, 4096, 4097, 8192, 8193, 9000, 12289, 20000, 70000}).Draw(t, "leadLen"),
				Csid: rapid.SampledFrom([]int{4, 6, 5}).Draw(t, "leadCsid"), Msid: 1, Ts: tsGen.Draw(t, "leadTs")})
		}
		c.Msgs = append(lead, c.Msgs...)
	}
	nf := rapid.SampledFrom([]int{0, 0, 0, 1, 2, 3}).Draw(t, "nflips")
	for i := 0; i < nf; i++ {
		c.Flips = append(c.Flips, rapid.IntRange(0, 1<<20).Draw(t, "flipAt"))
	}
	c.Trunc = -1
	if rapid.IntRange(0, 3).Draw(t, "truncate") == 0 {
		c.Trunc = rapid.IntRange(0, 1<<20).Draw(t, "truncAt")
	}
	ns := rapid.IntRange(0, 8).Draw(t, "nslices")
	for i := 0; i < ns; i++ {
		c.Slices = append(c.Slices, rapid.SampledFrom([]int{1, 1, 2, 3, 7, 11, 12, 100, 1536, 1537, 4000}).Draw(t, "slice"))
	}
	return c
}

// ---- rendering ----------------------------------------------------------------

func handshakeBytes(kind string) []byte {
	c0c1 := make([]byte, 1537)
	c0c1[0] = 3
	for i := 9; i < len(c0c1); i++ {
		c0c1[i] = byte(i * 13)
	}
	c2 := make([]byte, 1536)
	switch kind {
	case "none":
		return nil
	case "complexish": // non-zero version field without a valid digest: lal falls back to the simple mode
		c0c1[5], c0c1[6], c0c1[7], c0c1[8] = 0x80, 0, 7, 2
	case "badversion":
		c0c1[0] = 6
	case "short":
		return c0c1[:700]
	case "garbage":
		return []byte("GET / HTTP/1.1\r\nHost: x\r\n\r\n")
	}
	return append(c0c1, c2...)
}

func cmdMsg(cmd string, tid float64, csid int, msid uint32, args ...rtmpref.Value) rtmpref.Msg {
	vs := append([]rtmpref.Value{rtmpref.Str(cmd), rtmpref.Num(tid)}, args...)
	return rtmpref.Msg{Csid: csid, TypeID: rtmpref.TypeCmdAmf0, StreamID: msid, Payload: rtmpref.EncodeAmf0(vs...)}
}

func render(c Case) []byte {
	out := handshakeBytes(c.Handshake)
	w := rtmpref.NewChunkWriter(128)
	emit := func(m rtmpref.Msg) { out = append(out, w.WriteMsg(m, 0)...) }
	if c.Stage != "raw" {
		emit(cmdMsg("connect", 1, 3, 0, rtmpref.Obj(rtmpref.M("app", rtmpref.Str("live")), rtmpref.M("tcUrl", rtmpref.Str("rtmp://127.0.0.1/live")))))
		if c.Stage == "publishing" || c.Stage == "playing" {
			emit(cmdMsg("createStream", 2, 3, 0, rtmpref.Null()))
			if c.Stage == "publishing" {
				emit(cmdMsg("publish", 3, 5, 1, rtmpref.Null(), rtmpref.Str(c.Stream), rtmpref.Str("live")))
			} else {
				emit(cmdMsg("play", 3, 5, 1, rtmpref.Null(), rtmpref.Str(c.Stream)))
			}
		}
	}
	for _, m := range c.Msgs {
		p := m.payload()
		if m.ChunkSize > 0 {
			w.ChunkSize = m.ChunkSize
		}
		w.WideCsid = m.WideCsid
		if w.ChunkSize < 16 && len(p) > 5000 {
			p = p[:5000] // tiny chunks: keep the chunk count (and lal's per-chunk cost) sane
		}
		rm := rtmpref.Msg{Csid: m.Csid, TypeID: m.typeID(), StreamID: m.Msid, Ts: m.Ts, Payload: p}
		b := w.WriteMsg(rm, m.Fmt)
		if m.DeclLen < 0 {
			if len(p)+m.DeclLen > 0 {
				m.DeclLen = len(p) + m.DeclLen
				// send only the declared part so that the chunk layer completes the (cut) message
				rm.Payload = p[:m.DeclLen]
				b = w.WriteMsg(rm, m.Fmt)
			}
			m.DeclLen = 0
		}
		if m.DeclLen > 0 && m.Fmt <= 1 {
			off := 1
			if m.Csid >= 64 {
				off = 2
				if m.Csid >= 320 || m.WideCsid {
					off = 3
				}
			}
			if len(b) >= off+6 {
				b[off+3], b[off+4], b[off+5] = byte(m.DeclLen>>16), byte(m.DeclLen>>8), byte(m.DeclLen)
			}
		}
		out = append(out, b...)
	}
	for _, f := range c.Flips {
		if len(out) > 0 {
			out[f%len(out)] ^= byte(1 + f%251)
		}
	}
	if c.Trunc >= 0 {
		out = out[:c.Trunc%(len(out)+1)]
	}
	return out
}

// ---- oracle -------------------------------------------------------------------

func run(c Case) *pbt.Violation {
	s := inproc.New(inproc.Config{RtmpGopNum: 1, FlvGopNum: 1, TsGopNum: 1, Hls: true, HlsFragmentMs: 500, RecordFlv: true, RecordTs: true})
	defer s.Close()
	wire := render(c)
	conn := s.RtmpConn()
	if err := conn.WriteSliced(wire, c.Slices); err != nil {
		// the server may close early; that is allowed
		_ = err
	}
	conn.CloseWrite()
	// the session must notice EOF and return
	if !conn.WaitPeerDone(lalclient.DeliverTimeout) {
		if v := s.PanicViolation(); v != nil {
			return v
		}
		// stuck (parked in the same place) or merely slow?
		if stuck, stack := pbt.StuckGoroutine("rtmp.(*Server).handleTcpConnect", 2*time.Second); stuck {
			return pbt.V("session-never-returns", "the server-side session is still parked %v after the peer's EOF:\n%s", lalclient.DeliverTimeout, head(stack, 3000))
		}
		if !conn.WaitPeerDone(4 * lalclient.DeliverTimeout) {
			lalclient.Harness("session did not end within %v and is not parked (machine too slow?)", 5*lalclient.DeliverTimeout)
		}
	}
	if v := s.PanicViolation(); v != nil {
		return v
	}
	// the server still serves other connections
	return probe(s)
}

func head(s string, n int) string {
	if len(s) > n {
		return s[:n]
	}
	return s
}

func probe(s *inproc.Server) *pbt.Violation {
	sub := lalclient.NewRtmpSub(s, "live", "probe")
	if err := sub.JoinErr(); err != nil {
		if v := s.PanicViolation(); v != nil {
			return v
		}
		return pbt.V("probe/subscribe-failed", "a healthy subscriber could not join after the hostile session: %v", err)
	}
	p := lalclient.NewPublisher(s, "live", "probe", 0)
	if p.Err != nil {
		if v := s.PanicViolation(); v != nil {
			return v
		}
		return pbt.V("probe/publish-failed", "a healthy publisher could not publish after the hostile session: %v", p.Err)
	}
	marker := []byte{0xAF, 1, 0xde, 0xad, 0xbe, 0xef, 1, 2, 3, 4}
	_ = p.Send(gen.TypeAudio, 1, marker, 0)
	if sub.WaitFor(func(r lalclient.Rec) bool { return bytes.Equal(r.Payload, marker) }, lalclient.DeliverTimeout) < 0 {
		if v := s.PanicViolation(); v != nil {
			return v
		}
		return pbt.V("probe/no-relay", "a healthy publisher/subscriber pair no longer relays after the hostile session")
	}
	return nil
}

func classify(c Case) (bool, []string) {
	labels := []string{"handshake:" + c.Handshake, "stage:" + c.Stage}
	reached := c.Handshake == "simple" || c.Handshake == "complexish"
	mutated := len(c.Flips) > 0 || c.Trunc >= 0
	for _, m := range c.Msgs {
		if m.Kind == "cmd" {
			labels = append(labels, "cmd:"+m.Cmd)
			if m.Amf3 {
				labels = append(labels, "amf3-command")
			}
			for _, a := range m.Args {
				if a.K == "bomb" {
					labels = append(labels, fmt.Sprintf("amf-bomb"))
				}
				if a.K == "bad" {
					labels = append(labels, "amf-malformed")
					mutated = true
				}
			}
		} else {
			labels = append(labels, fmt.Sprintf("type:%d", bucketType(m.Type)))
		}
		if m.Kind == "raw" && m.RawLen > 8192 && m.Ts >= 0xFFFFFF && (m.Type == 8 || m.Type == 9 || m.Type == 18) && c.Stage == "publishing" && reached {
			labels = append(labels, "published-media>2-chunks+ext-ts")
		}
		if m.DeclLen < 0 {
			labels = append(labels, "cut-short")
			mutated = true
		}
		if m.DeclLen > 0 {
			labels = append(labels, "lying-length")
			mutated = true
		}
		if m.Fmt != 0 {
			labels = append(labels, fmt.Sprintf("fmt%d", m.Fmt))
		}
		if m.Kind == "raw" {
			mutated = true
		}
	}
	if len(c.Flips) > 0 {
		labels = append(labels, "byte-flips")
	}
	if c.Trunc >= 0 {
		labels = append(labels, "truncated")
	}
	if len(c.Slices) > 0 {
		labels = append(labels, "tcp-sliced")
	}
	return reached && mutated && len(c.Msgs) > 0, uniq(labels)
}

func bucketType(t uint8) int {
	switch t {
	case 1, 2, 3, 4, 5, 6, 8, 9, 15, 17, 18, 20, 22:
		return int(t)
	}
	return 255 // other
}

func uniq(in []string) []string {
	seen := map[string]bool{}
	var out []string
	for _, s := range in {
		if !seen[s] {
			seen[s] = true
			out = append(out, s)
		}
	}
	return out
}

func TestHostileRtmpPeer(t *testing.T) {
	pbt.Run(t, pbt.Spec[Case]{
		ID: "C04", Name: "hostile-rtmp-peer", Gen: genCase, Run: run, Classify: classify, Isolate: true,
		Quick: 1500, Thorough: 20000,
	})
}
