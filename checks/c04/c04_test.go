// C04 — no byte sequence from an RTMP peer can terminate the server.
//
// A structured generator renders RTMP exchanges (handshake variants, a valid
// prefix that reaches a chosen protocol state, then hostile messages) with the
// reference chunk writer, applies byte-level mutations and delivers the bytes in
// generated TCP slices to lal's real accept handler over an in-memory
// connection.  Generator dimensions:
//
//   - hostile messages (commands with generated AMF0 trees, control messages,
//     media, aggregates, lying lengths, every type id / header format);
//   - well-formed commands in the wrong order (second play / publish, publish
//     after play, deleteStream / closeStream followed by media, second connect);
//   - chunks of several messages on different chunk stream ids interleaved in
//     the middle of a message, valid or with lying lengths / a shared chunk
//     stream id, optionally with Set Chunk Size messages between the chunks;
//   - fragmentation over the WHOLE byte stream: 1-byte slices through every
//     chunk header (basic header, message header, extended timestamp) and the
//     first payload byte, around message boundaries, every n bytes, at chosen
//     offsets;
//   - bystanders on the SAME stream: a healthy subscriber (and a healthy
//     publisher) attached to the stream the hostile peer publishes / plays.
//
// Oracle (oracle_test.go): the session goroutine returns without panic once the
// peer has sent EOF, the process stays alive, the healthy sessions that share
// the stream are still connected and relay a marker afterwards (a healthy
// publisher can publish the stream the hostile peer had used), and a fresh
// publisher + subscriber pair on another stream relays a marker too.
//
// Not asserted: which error is returned, whether the hostile connection is
// closed or kept open until EOF, what (if anything) of the hostile peer's own
// messages is relayed to the subscribers of its stream.
package c04

import (
	"bytes"
	"encoding/binary"
	"encoding/hex"
	"flag"
	"fmt"
	"os"
	"runtime"
	"runtime/debug"
	"sort"
	"strings"
	"testing"
	"time"

	"pgregory.net/rapid"

	"verif/drv/pbt"
	"verif/gen"
	"verif/ref/rtmpref"
)

// AV is a compact AMF0 value spec.
type AV struct {
	K    string   `json:"k"` // num str lstr bool null undef obj ecma sarr ref date bad
	N    float64  `json:"n,omitempty"`
	S    string   `json:"s,omitempty"`
	Rep  int      `json:"rep,omitempty"` // string = S repeated Rep times (long strings)
	B    bool     `json:"b,omitempty"`
	Keys []string `json:"keys,omitempty"`
	Vals []AV     `json:"vals,omitempty"`
	Raw  string   `json:"raw,omitempty"`  // hex, for K == "bad"
	Nest int      `json:"nest,omitempty"` // K == "bomb": Nest levels of nested containers of kind S ("o","e","s")
}

func (a AV) value() (rtmpref.Value, []byte) {
	switch a.K {
	case "num":
		return rtmpref.Num(a.N), nil
	case "str":
		return rtmpref.Str(rep(a.S, a.Rep)), nil
	case "lstr":
		return rtmpref.LongStr(rep(a.S, a.Rep)), nil
	case "bool":
		return rtmpref.Bool(a.B), nil
	case "null":
		return rtmpref.Null(), nil
	case "undef":
		return rtmpref.Undefined(), nil
	case "obj", "ecma":
		var ms []rtmpref.Member
		for i, k := range a.Keys {
			if i < len(a.Vals) {
				v, raw := a.Vals[i].value()
				if raw != nil {
					continue
				}
				ms = append(ms, rtmpref.M(k, v))
			}
		}
		if a.K == "ecma" {
			return rtmpref.EcmaArray(ms...), nil
		}
		return rtmpref.Obj(ms...), nil
	case "sarr":
		var es []rtmpref.Value
		for _, x := range a.Vals {
			v, raw := x.value()
			if raw == nil {
				es = append(es, v)
			}
		}
		return rtmpref.StrictArray(es...), nil
	case "bomb":
		var b []byte
		for i := 0; i < a.Nest; i++ {
			switch a.S {
			case "e":
				b = append(b, 8, 0, 0, 0, 1, 0, 1, 'k')
			case "s":
				b = append(b, 10, 0, 0, 0, 1)
			default:
				b = append(b, 3, 0, 1, 'k')
			}
		}
		return rtmpref.Value{}, b
	default: // bad
		b, _ := hex.DecodeString(a.Raw)
		return rtmpref.Value{}, b
	}
}

func rep(s string, n int) string {
	if n <= 1 {
		return s
	}
	return string(bytes.Repeat([]byte(s), n))
}

func encodeArgs(args []AV) []byte {
	var out []byte
	for _, a := range args {
		v, raw := a.value()
		if raw != nil {
			out = append(out, raw...)
			continue
		}
		b, err := rtmpref.AppendAmf0(nil, v)
		if err != nil {
			continue
		}
		out = append(out, b...)
	}
	return out
}

type Msg struct {
	Kind string `json:"kind"` // cmd | data | raw | ilv
	// cmd
	Cmd  string  `json:"cmd,omitempty"`
	Tid  float64 `json:"tid,omitempty"`
	Args []AV    `json:"args,omitempty"`
	Amf3 bool    `json:"amf3,omitempty"`
	// raw
	Type    uint8  `json:"type"`
	RawHex  string `json:"raw_hex,omitempty"`
	RawSeed uint32 `json:"raw_seed,omitempty"`
	RawLen  int    `json:"raw_len,omitempty"`
	// framing
	Csid      int    `json:"csid"`
	Msid      uint32 `json:"msid"`
	Ts        uint32 `json:"ts"`
	Fmt       uint8  `json:"fmt"`
	ChunkSize int    `json:"chunk_size,omitempty"` // 0: keep the writer's
	DeclLen   int    `json:"decl_len,omitempty"`   // >0: lie about the message length in the header; <0: cut the body short
	WideCsid  bool   `json:"wide_csid,omitempty"`
	// ilv: a group of messages whose chunks are interleaved
	Ilv *Ilv `json:"ilv,omitempty"`
}

// Ilv is a group of messages (normally on different chunk stream ids) whose chunks are emitted interleaved:
// Order lists part indices, each entry emits the next chunk of that part; what is left is flushed round-robin.
// Scs injects complete Set Chunk Size messages (chunk stream 2) between the chunks.
type Ilv struct {
	Parts []Msg    `json:"parts"`
	Order []int    `json:"order,omitempty"`
	Scs   []IlvScs `json:"scs,omitempty"`
}

// IlvScs is one Set Chunk Size message sent after the After-th chunk of the group.  Adopt: the writer cuts the
// following chunks with the announced size (what a conforming peer does); otherwise it keeps its size (lying).
type IlvScs struct {
	After int    `json:"after"`
	Size  uint32 `json:"size"`
	Adopt bool   `json:"adopt,omitempty"`
}

// Frag describes the TCP segmentation of the whole byte stream in addition to the leading Slices.
type Frag struct {
	Hdr1  bool  `json:"hdr1,omitempty"`  // every byte of every chunk header (basic header, message header, extended timestamp) and the first payload byte in its own segment
	Edge  bool  `json:"edge,omitempty"`  // 1-byte segments around every message end
	Every int   `json:"every,omitempty"` // a cut every n bytes after the handshake
	At    []int `json:"at,omitempty"`    // runs of 1-byte segments starting at these offsets (mod stream length)
	Run   int   `json:"run,omitempty"`   // length of the runs at At (default 1)
}

type Case struct {
	Handshake string `json:"handshake"` // simple | complexish | digest | digest1 | badversion | short | garbage | none
	// digest / digest1 (digest_test.go): C1 signed for scheme 0 / 1
	HsKey  string `json:"hs_key,omitempty"`  // "": the client key; "full" | "server": a key no server accepts
	HsOffs string `json:"hs_offs,omitempty"` // 8 hex digits: the 4 digest offset bytes (sums up to 1020, far beyond the 728 positions)
	C2     string `json:"c2,omitempty"`      // "" | valid | garbage | short | missing
	Stage  string `json:"stage"`             // raw | connected | publishing | playing
	Stream string `json:"stream"`
	Msgs   []Msg  `json:"msgs"`
	Flips  []int  `json:"flips,omitempty"` // byte offsets (mod len) to corrupt
	Trunc  int    `json:"trunc"`           // -1: whole stream; else keep this many bytes (mod len+1)
	Slices []int  `json:"slices"`          // sizes of the leading segments
	Frag   *Frag  `json:"frag,omitempty"`
	// By: healthy sessions attached to Stream before the hostile bytes: "" (none), "sub", "sub+pub"
	By string `json:"by,omitempty"`
}

func (m Msg) payload() []byte {
	if m.Kind == "data" {
		// data message: a string (Cmd) followed by the arguments, no transaction id
		return append(rtmpref.EncodeAmf0(rtmpref.Str(m.Cmd)), encodeArgs(m.Args)...)
	}
	if m.Kind == "cmd" {
		var p []byte
		if m.Amf3 {
			p = append(p, 0)
		}
		p = append(p, rtmpref.EncodeAmf0(rtmpref.Str(m.Cmd), rtmpref.Num(m.Tid))...)
		return append(p, encodeArgs(m.Args)...)
	}
	if m.RawHex != "" {
		b, _ := hex.DecodeString(m.RawHex)
		return b
	}
	return gen.Bytes(m.RawSeed, m.RawLen)
}

func (m Msg) typeID() uint8 {
	if m.Kind == "data" {
		return rtmpref.TypeDataAmf0
	}
	if m.Kind == "cmd" {
		if m.Amf3 {
			return rtmpref.TypeCmdAmf3
		}
		return rtmpref.TypeCmdAmf0
	}
	return m.Type
}

var startTime = time.Now()

func init() {
	// make stack exhaustion cheap and deterministic: a few hundred thousand nested containers overflow 32 MiB
	debug.SetMaxStack(32 << 20)
	// lal allocates (and zeroes) up to 16 MiB per lying chunk header: with the default pacing the collector runs
	// after every few such allocations on 16 Ps and eats 60 % of the CPU (measured).  Collect less often, keep the
	// process bounded, and do not spread one shard over every core (the driver runs the shards in parallel).
	debug.SetGCPercent(800)
	debug.SetMemoryLimit(2 << 30)
	// every publishing case creates the hls directory and two recordings; on a loaded machine the disk is the slow
	// part of those cases.  Scratch directories go to tmpfs when there is one (removed per case), as in C05.
	if os.Getenv("VERIF_SCRATCH") == "" {
		if st, err := os.Stat("/dev/shm"); err == nil && st.IsDir() {
			if f, err := os.CreateTemp("/dev/shm", "c04probe"); err == nil {
				_ = f.Close()
				_ = os.Remove(f.Name())
				_ = os.Setenv("VERIF_SCRATCH", "/dev/shm")
			}
		}
	}
	limit := 4
	if os.Getenv("VERIF_FUZZING") != "" {
		limit = 8 // the fuzzing engine starts GOMAXPROCS workers
	}
	if runtime.GOMAXPROCS(0) > limit {
		runtime.GOMAXPROCS(limit)
	}
}

// disabled reports whether a generator dimension is switched off (sensitivity runs only:
// VERIF_C04_DISABLE=by,frag,ilv,seq shows that a mutant is caught by that dimension and by nothing else).
func disabled(dim string) bool {
	for _, d := range strings.Split(os.Getenv("VERIF_C04_DISABLE"), ",") {
		if d == dim {
			return true
		}
	}
	return false
}

// ---- generators -------------------------------------------------------------

var strGen = rapid.OneOf(
	rapid.SampledFrom([]string{"", "live", "test", "onMetaData", "@setDataFrame", "|RtmpSampleAccess", "a?b=c?d", "../../x", "\x00", "live/x/y", "s1", "s2"}),
	rapid.StringMatching(`[a-z0-9/?=&.]{0,12}`),
)

func avGen(depth int) *rapid.Generator[AV] {
	return rapid.Custom(func(t *rapid.T) AV {
		hi := 11
		if depth <= 0 {
			hi = 7
		}
		switch rapid.IntRange(0, hi).Draw(t, "avKind") {
		case 0, 1:
			return AV{K: "num", N: rapid.SampledFrom([]float64{0, 1, 3, -1, 1e308, 4294967296, 2147483648, 0.5}).Draw(t, "num")}
		case 2, 3:
			return AV{K: "str", S: strGen.Draw(t, "str")}
		case 4:
			return AV{K: "bool", B: rapid.Bool().Draw(t, "b")}
		case 5:
			return AV{K: "null"}
		case 6:
			return AV{K: "undef"}
		case 7:
			// malformed / unusual markers
			return AV{K: "bad", Raw: rapid.SampledFrom([]string{"", "02", "0200", "02ffff", "0c", "0c7fffffff61", "03", "0300", "030001", "08", "08ffffffff", "0affffffff", "0a00000001", "020003ab", "02000461", "0c0000000361", "0200026100", "07000a", "0b0000000000000000000000", "0d", "11", "ff", "000000", "0500", "09"}).Draw(t, "badRaw")}
		case 8:
			return AV{K: "lstr", S: "x", Rep: rapid.SampledFrom([]int{1, 65535, 65536, 70000}).Draw(t, "rep")}
		case 9:
			n := rapid.IntRange(0, 3).Draw(t, "nkeys")
			a := AV{K: rapid.SampledFrom([]string{"obj", "ecma"}).Draw(t, "objKind")}
			for i := 0; i < n; i++ {
				a.Keys = append(a.Keys, rapid.SampledFrom([]string{"app", "tcUrl", "objectEncoding", "flashVer", "type", "", "x"}).Draw(t, "key"))
				a.Vals = append(a.Vals, avGen(depth-1).Draw(t, "val"))
			}
			return a
		case 10:
			n := rapid.IntRange(0, 3).Draw(t, "nelems")
			a := AV{K: "sarr"}
			for i := 0; i < n; i++ {
				a.Vals = append(a.Vals, avGen(depth-1).Draw(t, "elem"))
			}
			return a
		default:
			// depths around lal's nesting limit (64); the depths that would exhaust the stack without that limit are
			// generated by deepNesting, in the two places where lal parses nested values
			nest := rapid.SampledFrom([]int{2, 65, 70, 1000, 64, 66, 3, 5000}).Draw(t, "nest")
			return AV{K: "bomb", S: rapid.SampledFrom([]string{"o", "e", "s"}).Draw(t, "bombKind"), Nest: nest}
		}
	})
}

var csidGen = rapid.OneOf(rapid.IntRange(2, 8), rapid.SampledFrom([]int{2, 3, 63, 64, 319, 320, 65599}))
var tsGen = rapid.OneOf(rapid.Uint32Range(0, 1000), rapid.SampledFrom([]uint32{0, 0xFFFFFE, 0xFFFFFF, 0x1000000, 0xFFFFFFFF}))

var streamNames = []string{"s1", "s2", "s1?a=b", "", "x/../y"}

// seqCmd is a WELL-FORMED command (valid framing, the arguments lal's handler expects) — hostile only by its position
// in the session: a second play / publish, publish after play, deleteStream / closeStream before more media, a second
// connect / createStream.
func seqCmd(t *rapid.T, stream string) Msg {
	m := Msg{Kind: "cmd", Msid: 1, Csid: rapid.SampledFrom([]int{3, 5, 8, 3}).Draw(t, "seqCsid"), Ts: rapid.SampledFrom([]uint32{0, 0, 40, 0xFFFFFF}).Draw(t, "seqTs")}
	m.Tid = rapid.SampledFrom([]float64{4, 0, 5, 2}).Draw(t, "seqTid")
	name := stream
	if rapid.IntRange(0, 2).Draw(t, "otherName") == 0 {
		name = rapid.SampledFrom([]string{"s1", "s2", "other", "probe", ""}).Draw(t, "seqName")
	}
	str := func(s string) AV { return AV{K: "str", S: s} }
	m.Cmd = rapid.SampledFrom([]string{"publish", "play", "play", "publish", "deleteStream", "closeStream", "FCUnpublish", "createStream", "connect",
		"releaseStream", "FCPublish", "pause", "seek", "receiveAudio", "play2", "getStreamLength"}).Draw(t, "seqCmd")
	switch m.Cmd {
	case "publish":
		m.Args = []AV{{K: "null"}, str(name), str(rapid.SampledFrom([]string{"live", "record", "append"}).Draw(t, "pubType"))}
		if rapid.IntRange(0, 5).Draw(t, "noPubType") == 0 {
			m.Args = m.Args[:2]
		}
	case "play":
		m.Args = []AV{{K: "null"}, str(name)}
		if rapid.Bool().Draw(t, "playArgs") {
			m.Args = append(m.Args, AV{K: "num", N: -2}, AV{K: "num", N: -1}, AV{K: "bool", B: true})
		}
	case "play2":
		m.Args = []AV{{K: "null"}, {K: "obj", Keys: []string{"streamName"}, Vals: []AV{str(name)}}}
	case "deleteStream":
		m.Msid = 0
		m.Args = []AV{{K: "null"}, {K: "num", N: 1}}
	case "closeStream":
		m.Args = []AV{{K: "null"}}
	case "FCUnpublish", "releaseStream", "FCPublish", "getStreamLength":
		m.Msid = 0
		m.Args = []AV{{K: "null"}, str(name)}
	case "createStream":
		m.Msid = 0
		m.Args = []AV{{K: "null"}}
	case "connect":
		m.Msid = 0
		m.Tid = 1
		m.Args = []AV{{K: "obj", Keys: []string{"app", "tcUrl"}, Vals: []AV{str(rapid.SampledFrom([]string{"live", "other", ""}).Draw(t, "app2")), str("rtmp://127.0.0.1/live")}}}
	case "pause":
		m.Args = []AV{{K: "null"}, {K: "bool", B: true}, {K: "num", N: 0}}
	case "seek":
		m.Args = []AV{{K: "null"}, {K: "num", N: 1000}}
	case "receiveAudio":
		m.Args = []AV{{K: "null"}, {K: "bool", B: false}}
	}
	m.Amf3 = rapid.IntRange(0, 9).Draw(t, "seqAmf3") == 0
	return m
}

// validMedia is a well-framed audio / video / data message a publisher may send.
func validMedia(t *rapid.T) Msg {
	m := Msg{Kind: "raw", Msid: 1, Ts: rapid.SampledFrom([]uint32{0, 40, 80, 1000, 0xFFFFFF}).Draw(t, "mediaTs")}
	switch rapid.IntRange(0, 6).Draw(t, "mediaKind") {
	case 5:
		// well-framed video messages whose AVCC body has odd NAL length fields (zero-length NAL last / first, length
		// beyond the message, length field cut): the payload domain proper is C05's, a few constants keep the byte-level
		// check honest about "after publish, any bytes" (seed c04-g)
		m.Type, m.Csid = 9, 6
		m.RawHex = rapid.SampledFrom([]string{"270100000000000002419a00000000", "2701000000000000000000000002419a", "27010000000000ffff419a", "2701000000000000", "1701000000000000000165", "1c0100000000000000"}).Draw(t, "oddAvcc")
	case 6:
		m.Type, m.Csid, m.RawHex = 9, 6, "170000000001640020ffe1000a6764002096540a0fd390" + "01000468ee3cb0" // avc sequence header, then the odd bodies reach the remuxers
	case 0:
		m.Type, m.Csid, m.RawHex = 8, 4, "af0112100000"
	case 1:
		m.Type, m.Csid, m.RawHex = 8, 4, "af01deadbeef"
	case 2:
		m.Type, m.Csid, m.RawHex = 9, 6, "17010000000000000565aabbccdd"
	case 3:
		m.Type, m.Csid, m.RawHex = 18, 5, "02000d40736574446174614672616d6502000a6f6e4d6574614461746108000000010001780200"
	default:
		m.Type, m.Csid, m.RawSeed, m.RawLen = 9, 6, rapid.Uint32().Draw(t, "mediaSeed"), rapid.SampledFrom([]int{300, 4097, 9000}).Draw(t, "mediaLen")
	}
	return m
}

func hostileMsg(t *rapid.T, stream string) Msg {
	var m Msg
	m.Csid = csidGen.Draw(t, "csid")
	m.Msid = rapid.SampledFrom([]uint32{1, 0, 1, 2, 0xFFFFFFFF}).Draw(t, "msid")
	m.Ts = tsGen.Draw(t, "ts")
	m.Fmt = uint8(rapid.SampledFrom([]int{0, 0, 0, 1, 2, 3}).Draw(t, "fmt"))
	m.WideCsid = rapid.IntRange(0, 9).Draw(t, "wide") == 0
	if rapid.IntRange(0, 7).Draw(t, "cs") == 0 {
		m.ChunkSize = rapid.SampledFrom([]int{1, 2, 127, 129, 4096, 70000}).Draw(t, "chunkSize")
	}
	switch rapid.IntRange(0, 11).Draw(t, "lie") {
	case 0:
		m.DeclLen = rapid.SampledFrom([]int{1, 2, 3, 1000, 0xFFFFFF, 70000}).Draw(t, "declLen")
	case 1, 2:
		// the message is cut a few bytes short of its last value (negative = relative to the real length)
		m.DeclLen = -rapid.IntRange(1, 5).Draw(t, "cutBy")
	}
	switch rapid.IntRange(0, 15).Draw(t, "msgClass") {
	case 0, 1, 2: // command with generated args
		m.Kind = "cmd"
		m.Cmd = rapid.SampledFrom([]string{"connect", "createStream", "publish", "play", "releaseStream", "FCPublish", "deleteStream", "getStreamLength", "pause", "", "_result", "onStatus", "closeStream"}).Draw(t, "cmd")
		m.Tid = rapid.SampledFrom([]float64{0, 1, 2, 5, -1, 1e300}).Draw(t, "tid")
		n := rapid.IntRange(0, 4).Draw(t, "nargs")
		for i := 0; i < n; i++ {
			m.Args = append(m.Args, avGen(2).Draw(t, "arg"))
		}
		m.Amf3 = rapid.IntRange(0, 5).Draw(t, "amf3") == 0
	case 3: // protocol control / user control with short bodies
		m.Kind = "raw"
		m.Type = rapid.SampledFrom([]uint8{1, 2, 3, 4, 5, 6}).Draw(t, "ctrlType")
		m.RawHex = rapid.SampledFrom([]string{"", "00", "0006", "000600", "00060000", "0006000000", "000600000001", "00000000", "00000001", "7fffffff", "ffffffff", "80000000", "00001000", "0003000000010000000a", "0000ffff"}).Draw(t, "ctrlBody")
	case 4: // audio / video with short or odd payloads
		m.Kind = "raw"
		m.Type = rapid.SampledFrom([]uint8{8, 9}).Draw(t, "avType")
		m.RawHex = rapid.SampledFrom([]string{"", "17", "1700", "170000", "17000000", "1700000000", "170100000000000001", "1c00", "af", "af00", "af01", "af0012", "90", "9068766331", "d0", "27010000000000000165", "2c01000000", "ff", "00"}).Draw(t, "avBody")
	case 5: // data message
		m.Kind = "raw"
		m.Type = 18
		m.RawHex = rapid.SampledFrom([]string{"", "02", "0200", "02000a6f6e4d65746144617461", "02000d40736574446174614672616d65", "02000d40736574446174614672616d6502000a6f6e4d6574614461746108000000010001780200", "0200117c52746d7053616d706c65416363657373", "05", "00", "0c00000001", "02000a6f6e4d657461446174610300", "02000a6f6e4d6574614461746108"}).Draw(t, "dataBody")
	case 6: // any type id, random body
		m.Kind = "raw"
		m.Type = rapid.Uint8().Draw(t, "anyType")
		m.RawSeed = rapid.Uint32().Draw(t, "seed")
		m.RawLen = rapid.SampledFrom([]int{0, 1, 2, 3, 4, 5, 10, 11, 12, 100, 5000}).Draw(t, "rawLen")
	case 11: // media-sized audio / video / data bodies (several output chunks), any timestamp
		m.Kind = "raw"
		m.Type = rapid.SampledFrom([]uint8{9, 9, 8, 18}).Draw(t, "bigMediaType")
		m.RawSeed = rapid.Uint32().Draw(t, "seed")
		m.RawLen = rapid.SampledFrom([]int{4096, 4097, 8192, 8193, 9000, 12289, 20000, 70000}).Draw(t, "bigMediaLen")
		m.Msid = 1
	case 7: // aggregate with lying sub lengths
		m.Kind = "raw"
		m.Type = 22
		m.RawHex = rapid.SampledFrom([]string{"", "09", "0900000a0000000000000001", "09000001000000000000000100", "0900000100000000000000011700000000", "08ffffff00000000000000", "090000010000000000000001170000000c0900ffff00000000000000", "09000000000000000000000000000000"}).Draw(t, "aggBody")
	case 8: // set chunk size
		m.Kind = "raw"
		m.Type = 1
		m.Csid = 2
		m.RawHex = rapid.SampledFrom([]string{"00000000", "00000001", "00000080", "00ffffff", "7fffffff", "ffffffff", "80000001", "0000"}).Draw(t, "scsBody")
	case 9: // big declared length, short body
		m.Kind = "raw"
		m.Type = rapid.SampledFrom([]uint8{8, 9, 18, 20}).Draw(t, "bigType")
		m.RawLen = rapid.IntRange(0, 300).Draw(t, "bigBody")
		m.RawSeed = 7
		m.DeclLen = rapid.SampledFrom([]int{0xFFFFFF, 0x800000, 100000}).Draw(t, "bigDecl")
	case 10: // AMF0 command with raw garbage
		m.Kind = "raw"
		m.Type = rapid.SampledFrom([]uint8{20, 17, 15, 16, 19}).Draw(t, "cmdRawType")
		m.RawHex = rapid.SampledFrom([]string{"", "00", "02", "0200", "0200077075626c697368", "0200077075626c69736800", "0200077075626c697368003ff0000000000000", "0200077075626c697368003ff000000000000005", "02000470 6c6179003ff00000000000000502", "020007636f6e6e656374003ff0000000000000", "020007636f6e6e656374003ff000000000000003", "020007636f6e6e656374003ff00000000000000300036170700200046c69766500000905", "0002000763"}).Draw(t, "cmdRaw")
	case 12: // deep nesting where lal parses nested AMF values, or an empty / one-byte body of a type lal handles
		if rapid.Bool().Draw(t, "deepOrTiny") {
			return deepNesting(t)
		}
		m.Kind = "raw"
		m.Type = rapid.SampledFrom([]uint8{17, 15, 20, 18, 1, 2, 3, 4, 5, 6, 8, 9, 22, 17}).Draw(t, "tinyType")
		m.RawHex = rapid.SampledFrom([]string{"", "", "00", "02", "ff"}).Draw(t, "tinyBody")
		m.DeclLen = 0
		m.Fmt = 0
	case 13: // a well-formed command at the wrong moment
		if disabled("seq") {
			return validMedia(t)
		}
		return seqCmd(t, stream)
	case 14: // interleaved chunks
		if disabled("ilv") {
			return validMedia(t)
		}
		return ilvMsg(t, stream)
	default: // valid-looking media (keeps remuxers busy)
		m.Kind = "raw"
		m.Type = 9
		m.RawHex = "17010000000000000565aabbccdd"
	}
	return m
}

// deepNesting is a well-framed message whose nested AMF value reaches one of lal's two recursive parsers: the
// object of a connect command (any stage) or the object / array of a metadata message (while publishing).  20000 and
// more levels exhaust a 32 MiB stack if a nesting limit is missing.
func deepNesting(t *rapid.T) Msg {
	nest := rapid.SampledFrom([]int{64, 65, 66, 1000, 20000, 250000, 20000}).Draw(t, "deepNest")
	if pbt.Thorough() && rapid.IntRange(0, 9).Draw(t, "huge") == 0 {
		nest = 1000000
	}
	if rapid.Bool().Draw(t, "deepConnect") {
		return Msg{Kind: "cmd", Cmd: "connect", Tid: 1, Csid: 3, Args: []AV{{K: "bomb", S: "o", Nest: nest}}, Amf3: rapid.IntRange(0, 5).Draw(t, "deepAmf3") == 0}
	}
	bomb := AV{K: "bomb", S: rapid.SampledFrom([]string{"o", "e", "o", "s"}).Draw(t, "deepKind"), Nest: nest}
	if rapid.Bool().Draw(t, "sdf") {
		return Msg{Kind: "data", Cmd: "@setDataFrame", Csid: 5, Msid: 1, Args: []AV{{K: "str", S: "onMetaData"}, bomb}}
	}
	return Msg{Kind: "data", Cmd: "onMetaData", Csid: 5, Msid: 1, Args: []AV{bomb}}
}

// ilvPart is one message of an interleaved group: mostly bodies of several chunks so that there is a "middle".
func ilvPart(t *rapid.T, stream string, csid int) Msg {
	var m Msg
	switch rapid.IntRange(0, 6).Draw(t, "partKind") {
	case 0, 1, 2:
		m = Msg{Kind: "raw", Type: rapid.SampledFrom([]uint8{9, 8, 18, 9}).Draw(t, "partType"), RawSeed: rapid.Uint32().Draw(t, "partSeed"),
			RawLen: rapid.SampledFrom([]int{129, 256, 257, 300, 1000, 4097, 9000}).Draw(t, "partLen"), Msid: 1, Ts: tsGen.Draw(t, "partTs")}
	case 3: // a command whose body spans chunks
		if disabled("seq") {
			m = validMedia(t)
			break
		}
		m = seqCmd(t, stream)
		m.Args = append(m.Args, AV{K: "str", S: "pad", Rep: rapid.SampledFrom([]int{50, 100, 400}).Draw(t, "padRep")})
	case 4: // lying length on a part
		m = Msg{Kind: "raw", Type: rapid.SampledFrom([]uint8{9, 8, 18, 20}).Draw(t, "lyingPartType"), RawSeed: rapid.Uint32().Draw(t, "partSeed"),
			RawLen: rapid.SampledFrom([]int{129, 300, 1000}).Draw(t, "partLen"), Msid: 1, Ts: tsGen.Draw(t, "partTs"),
			DeclLen: rapid.SampledFrom([]int{1, 128, 129, 200, 299, 301, 5000, 0xFFFFFF}).Draw(t, "partDecl")}
	case 5: // aggregate of two sub messages, several chunks
		sub := rtmpref.BuildAggregate([]rtmpref.Msg{{TypeID: 9, StreamID: 1, Ts: 10, Payload: gen.Bytes(3, 200)}, {TypeID: 8, StreamID: 1, Ts: 20, Payload: gen.Bytes(4, 90)}})
		m = Msg{Kind: "raw", Type: 22, RawHex: hex.EncodeToString(sub), Msid: 1, Ts: tsGen.Draw(t, "partTs")}
	default:
		m = hostileMsg2(t, stream)
	}
	m.Csid = csid
	m.Fmt = uint8(rapid.SampledFrom([]int{0, 0, 0, 0, 1, 2, 3}).Draw(t, "partFmt"))
	return m
}

// hostileMsg2 is hostileMsg without nested groups.
func hostileMsg2(t *rapid.T, stream string) Msg {
	m := hostileMsg(t, stream)
	if m.Kind == "ilv" {
		return validMedia(t)
	}
	return m
}

func ilvMsg(t *rapid.T, stream string) Msg {
	g := &Ilv{}
	n := rapid.SampledFrom([]int{2, 2, 2, 3}).Draw(t, "nparts")
	csids := rapid.SampledFrom([][]int{{4, 6, 5}, {6, 4, 3}, {3, 5, 8}, {64, 6, 320}, {4, 68, 6}, {7, 8, 65599}, {2, 4, 6}}).Draw(t, "partCsids")
	for i := 0; i < n; i++ {
		g.Parts = append(g.Parts, ilvPart(t, stream, csids[i]))
	}
	if rapid.IntRange(0, 6).Draw(t, "sameCsid") == 0 {
		// lying: a second message starts on the chunk stream of the first one, in its middle
		g.Parts[1].Csid = g.Parts[0].Csid
	}
	for i := rapid.IntRange(2, 12).Draw(t, "norder"); i > 0; i-- {
		g.Order = append(g.Order, rapid.IntRange(0, n-1).Draw(t, "orderPart"))
	}
	for i := rapid.SampledFrom([]int{0, 0, 1, 1, 2}).Draw(t, "nscs"); i > 0; i-- {
		g.Scs = append(g.Scs, IlvScs{After: rapid.IntRange(1, 8).Draw(t, "scsAfter"),
			Size:  rapid.SampledFrom([]uint32{1, 2, 64, 127, 128, 129, 256, 4096, 0x7fffffff, 0, 0x80000080}).Draw(t, "scsSize"),
			Adopt: rapid.IntRange(0, 3).Draw(t, "scsAdopt") != 0})
	}
	return Msg{Kind: "ilv", Ilv: g}
}

func genFrag(t *rapid.T) *Frag {
	if disabled("frag") {
		return nil
	}
	switch rapid.IntRange(0, 11).Draw(t, "fragKind") {
	case 0, 1, 2, 3:
		return nil
	case 4, 5:
		return &Frag{Hdr1: true}
	case 6:
		return &Frag{Hdr1: true, Edge: true}
	case 7:
		return &Frag{Edge: true}
	case 8:
		return &Frag{Every: rapid.SampledFrom([]int{1, 1, 2, 3, 5, 7, 64, 127, 128, 129, 4095, 4096, 4097}).Draw(t, "fragEvery")}
	case 9:
		return &Frag{Hdr1: true, Every: rapid.SampledFrom([]int{1, 2, 13, 128}).Draw(t, "fragEvery")}
	default:
		f := &Frag{Run: rapid.SampledFrom([]int{1, 2, 4, 8, 16, 40}).Draw(t, "fragRun")}
		for i := rapid.IntRange(1, 6).Draw(t, "nAt"); i > 0; i-- {
			f.At = append(f.At, rapid.IntRange(0, 1<<17).Draw(t, "fragAt"))
		}
		return f
	}
}

func genCase(t *rapid.T) Case {
	var c Case
	kinds := []string{"simple", "simple", "simple", "digest", "digest1", "digest", "complexish", "badversion", "short", "garbage", "none"}
	if disabled("digest") {
		kinds = []string{"simple", "simple", "simple", "simple", "complexish", "badversion", "short", "garbage", "none"}
	}
	c.Handshake = rapid.SampledFrom(kinds).Draw(t, "handshake")
	if isDigestKind(c.Handshake) {
		c.HsOffs = rapid.SampledFrom([]string{"", "", "ffffffff", "ffffffd8", "00000000", "d8ffff02", "ff00ff00", "000002d8", "000002d7", "ffffff00"}).Draw(t, "hsOffs")
		c.HsKey = rapid.SampledFrom([]string{"", "", "", "", "", "full", "server"}).Draw(t, "hsKey")
		c.C2 = rapid.SampledFrom([]string{"", "valid", "valid", "valid", "garbage", "short", "missing"}).Draw(t, "c2")
	}
	c.Stage = rapid.SampledFrom([]string{"raw", "connected", "publishing", "publishing", "playing"}).Draw(t, "stage")
	c.Stream = rapid.SampledFrom(streamNames).Draw(t, "stream")
	scenario := rapid.IntRange(0, 9).Draw(t, "scenario")
	switch {
	case scenario >= 8 && !disabled("seq"):
		// re-ordered commands: a few valid media messages, well-formed commands at the wrong moment, media again
		if rapid.Bool().Draw(t, "seqStage") {
			c.Stage = rapid.SampledFrom([]string{"publishing", "playing"}).Draw(t, "seqStageKind")
		}
		for i := rapid.IntRange(0, 2).Draw(t, "nbefore"); i > 0; i-- {
			c.Msgs = append(c.Msgs, validMedia(t))
		}
		for i := rapid.IntRange(1, 3).Draw(t, "nseq"); i > 0; i-- {
			c.Msgs = append(c.Msgs, seqCmd(t, c.Stream))
			if rapid.Bool().Draw(t, "mediaAfter") {
				c.Msgs = append(c.Msgs, validMedia(t))
			}
		}
		for i := rapid.IntRange(0, 2).Draw(t, "ntail"); i > 0; i-- {
			c.Msgs = append(c.Msgs, hostileMsg(t, c.Stream))
		}
	case scenario >= 6 && !disabled("ilv"):
		// interleaved chunks, mostly while publishing
		if rapid.IntRange(0, 2).Draw(t, "ilvStage") != 0 {
			c.Stage = "publishing"
		}
		for i := rapid.IntRange(1, 2).Draw(t, "nilv"); i > 0; i-- {
			c.Msgs = append(c.Msgs, ilvMsg(t, c.Stream))
		}
		for i := rapid.IntRange(0, 2).Draw(t, "ntail"); i > 0; i-- {
			c.Msgs = append(c.Msgs, hostileMsg(t, c.Stream))
		}
	default:
		n := rapid.IntRange(0, 6).Draw(t, "nmsgs")
		for i := 0; i < n; i++ {
			c.Msgs = append(c.Msgs, hostileMsg(t, c.Stream))
		}
	}
	if c.Stage == "publishing" && rapid.IntRange(0, 3).Draw(t, "leadingMedia") == 0 {
		// well-framed media-sized messages first (before anything that may close the session): several output chunks,
		// timestamps on both sides of the extended-timestamp threshold
		var lead []Msg
		for i := rapid.IntRange(1, 3).Draw(t, "nlead"); i > 0; i-- {
			lead = append(lead, Msg{Kind: "raw", Type: rapid.SampledFrom([]uint8{9, 9, 8, 18}).Draw(t, "leadType"), RawSeed: rapid.Uint32().Draw(t, "leadSeed"),
				RawLen: rapid.SampledFrom([]int{1, 4096, 4097, 8192, 8193, 9000, 12289, 20000, 70000}).Draw(t, "leadLen"),
				Csid:   rapid.SampledFrom([]int{4, 6, 5}).Draw(t, "leadCsid"), Msid: 1, Ts: tsGen.Draw(t, "leadTs")})
		}
		c.Msgs = append(lead, c.Msgs...)
	}
	nf := rapid.SampledFrom([]int{0, 0, 0, 0, 1, 2, 3}).Draw(t, "nflips")
	for i := 0; i < nf; i++ {
		c.Flips = append(c.Flips, rapid.IntRange(0, 1<<20).Draw(t, "flipAt"))
	}
	c.Trunc = -1
	if rapid.IntRange(0, 3).Draw(t, "truncate") == 0 {
		c.Trunc = rapid.IntRange(0, 1<<20).Draw(t, "truncAt")
	}
	ns := rapid.IntRange(0, 8).Draw(t, "nslices")
	for i := 0; i < ns; i++ {
		c.Slices = append(c.Slices, rapid.SampledFrom([]int{1, 1, 2, 3, 7, 11, 12, 100, 1536, 1537, 4000}).Draw(t, "slice"))
	}
	c.Frag = genFrag(t)
	if !disabled("by") {
		// healthy sessions on the same stream; a publisher only where the hostile peer is not meant to be the publisher
		// (a second publisher is refused at once, which is worth a few cases but hides everything behind it)
		switch by := rapid.IntRange(0, 9).Draw(t, "by"); {
		case by == 0:
		case c.Stage == "publishing" && by < 9:
			c.By = "sub"
		case by < 4:
			c.By = "sub"
		default:
			c.By = "sub+pub"
		}
	}
	return c
}

// ---- rendering ----------------------------------------------------------------

func handshakeBytes(kind string) []byte {
	c0c1 := make([]byte, 1537)
	c0c1[0] = 3
	for i := 9; i < len(c0c1); i++ {
		c0c1[i] = byte(i * 13)
	}
	c2 := make([]byte, 1536)
	switch kind {
	case "none":
		return nil
	case "complexish": // non-zero version field without a valid digest: lal falls back to the simple mode
		c0c1[5], c0c1[6], c0c1[7], c0c1[8] = 0x80, 0, 7, 2
	case "badversion":
		c0c1[0] = 6
	case "short":
		return c0c1[:700]
	case "garbage":
		return []byte("GET / HTTP/1.1\r\nHost: x\r\n\r\n")
	}
	return append(c0c1, c2...)
}

func cmdMsg(cmd string, tid float64, csid int, msid uint32, args ...rtmpref.Value) rtmpref.Msg {
	vs := append([]rtmpref.Value{rtmpref.Str(cmd), rtmpref.Num(tid)}, args...)
	return rtmpref.Msg{Csid: csid, TypeID: rtmpref.TypeCmdAmf0, StreamID: msid, Payload: rtmpref.EncodeAmf0(vs...)}
}

// wire is the rendered byte stream with the structural offsets the fragmentation refers to.
type wire struct {
	b         []byte
	hsEnd     int      // end of the handshake bytes
	prefixEnd int      // end of the valid prefix (connect .. publish / play)
	hdrs      [][2]int // [start, end) of every chunk header after the handshake (end = first payload byte)
	msgEnds   []int    // end offsets of complete messages
}

type renderer struct {
	wire
	w     *rtmpref.ChunkWriter
	lalCS uint32 // the chunk size lal has been told (as far as the rendered messages say)
	// desync: something rendered so far makes lal's chunk parser lose the writer's framing (a lying length, a
	// chunk size only one side knows, fmt 2/3 on a fresh chunk stream).  Everything behind that point is read as
	// arbitrary chunk headers, each of which makes lal allocate and zero its 24-bit length: bodies are kept short
	// from there on (they are never parsed as what they were generated as anyway).
	desync bool
	used   map[int]bool // chunk stream ids that carried a full header
}

// pstate is a message being emitted chunk by chunk.
type pstate struct {
	m    Msg
	p    *rtmpref.Pending
	rem  int // payload bytes not yet emitted
	n    int // chunks emitted
	decl int // >0: length to write into the first header instead of the real one
	scs  uint32
	isCS bool
}

const maxTinyChunkBody = 5000
const maxBodyAfterDesync = 3000

func (r *renderer) start(m Msg) *pstate {
	p := m.payload()
	if m.ChunkSize > 0 {
		r.w.ChunkSize = m.ChunkSize
	}
	if uint32(r.w.ChunkSize) != r.lalCS {
		r.desync = true
	}
	if (r.w.ChunkSize < 16 || r.lalCS < 32) && len(p) > maxTinyChunkBody {
		// tiny chunks (the writer's, or the size lal was told): keep the chunk count sane
		p = p[:maxTinyChunkBody]
	}
	if r.desync && len(p) > maxBodyAfterDesync {
		p = p[:maxBodyAfterDesync]
	}
	decl := m.DeclLen
	if decl < 0 {
		// the body is cut a few bytes short of its last value; the header declares the cut length, so the chunk
		// layer completes the message
		if len(p)+decl > 0 {
			p = p[:len(p)+decl]
		}
		decl = 0
	}
	if decl > 0 && m.Fmt <= 1 {
		// lying length: what exceeds it is read as chunk headers
		if len(p) > decl+maxBodyAfterDesync {
			p = p[:decl+maxBodyAfterDesync]
		}
		r.desync = true
	}
	if m.Fmt >= 2 && !r.used[m.Csid] {
		r.desync = true // lal has no length for this chunk stream
	}
	r.used[m.Csid] = true
	rm := rtmpref.Msg{Csid: m.Csid, TypeID: m.typeID(), StreamID: m.Msid, Ts: m.Ts, Payload: p}
	ps := &pstate{m: m, p: r.w.Begin(rm, m.Fmt), rem: len(p), decl: decl}
	if rm.TypeID == rtmpref.TypeSetChunkSize && len(p) >= 4 && decl == 0 {
		ps.isCS, ps.scs = true, binary.BigEndian.Uint32(p)
	}
	return ps
}

// chunk emits the next chunk of ps and records where its header lies.
func (r *renderer) chunk(ps *pstate) {
	r.w.WideCsid = ps.m.WideCsid
	n := ps.rem
	if n > r.w.ChunkSize {
		n = r.w.ChunkSize
	}
	b := ps.p.Next()
	hl := len(b) - n
	if ps.n == 0 && ps.decl > 0 && ps.m.Fmt <= 1 {
		off := 1
		if ps.m.Csid >= 64 {
			off = 2
			if ps.m.Csid >= 320 || ps.m.WideCsid {
				off = 3
			}
		}
		if len(b) >= off+6 {
			b[off+3], b[off+4], b[off+5] = byte(ps.decl>>16), byte(ps.decl>>8), byte(ps.decl)
		}
	}
	at := len(r.b)
	r.hdrs = append(r.hdrs, [2]int{at, at + hl})
	r.b = append(r.b, b...)
	ps.rem -= n
	ps.n++
	if ps.p.Done() {
		r.msgEnds = append(r.msgEnds, len(r.b))
		if ps.isCS {
			r.lalCS = ps.scs
		}
	}
}

func (r *renderer) msg(m Msg) {
	if m.Kind == "ilv" {
		if m.Ilv != nil {
			r.ilv(m.Ilv)
		}
		return
	}
	ps := r.start(m)
	for !ps.p.Done() {
		r.chunk(ps)
	}
}

func (r *renderer) plain(m rtmpref.Msg) {
	r.used[m.Csid] = true
	ps := &pstate{p: r.w.Begin(m, 0), rem: len(m.Payload), m: Msg{Csid: m.Csid}}
	for !ps.p.Done() {
		r.chunk(ps)
	}
}

func (r *renderer) ilv(g *Ilv) {
	if len(g.Parts) == 0 {
		return
	}
	parts := make([]*pstate, len(g.Parts))
	emitted := 0
	step := func(i int) bool {
		if parts[i] == nil {
			pm := g.Parts[i]
			if pm.Kind == "ilv" {
				pm = Msg{Kind: "raw", Type: 8, RawHex: "af01", Csid: 4, Msid: 1}
			}
			parts[i] = r.start(pm)
		}
		if parts[i].p.Done() {
			return false
		}
		r.chunk(parts[i])
		emitted++
		for _, sc := range g.Scs {
			if sc.After == emitted {
				keep := r.w.WideCsid
				r.w.WideCsid = false
				r.plain(rtmpref.SetChunkSizeMsg(sc.Size))
				r.w.WideCsid = keep
				r.lalCS = sc.Size
				if sc.Adopt {
					v := sc.Size & 0x7fffffff
					if v < 1 {
						v = 1
					}
					if v > 1<<20 {
						v = 1 << 20
					}
					r.w.ChunkSize = int(v)
				}
			}
		}
		return true
	}
	for _, i := range g.Order {
		if i < 0 {
			i = -i
		}
		step(i % len(parts))
	}
	for progress := true; progress; {
		progress = false
		for i := range parts {
			if step(i) {
				progress = true
			}
		}
	}
}

func renderWire(c Case) wire {
	r := &renderer{w: rtmpref.NewChunkWriter(128), lalCS: 128, used: map[int]bool{}}
	if isDigestKind(c.Handshake) {
		r.b = digestHandshakeBytes(c)
	} else {
		r.b = handshakeBytes(c.Handshake)
	}
	r.hsEnd = len(r.b)
	if c.Stage != "raw" {
		r.plain(cmdMsg("connect", 1, 3, 0, rtmpref.Obj(rtmpref.M("app", rtmpref.Str("live")), rtmpref.M("tcUrl", rtmpref.Str("rtmp://127.0.0.1/live")))))
		if c.Stage == "publishing" || c.Stage == "playing" {
			r.plain(cmdMsg("createStream", 2, 3, 0, rtmpref.Null()))
			if c.Stage == "publishing" {
				r.plain(cmdMsg("publish", 3, 5, 1, rtmpref.Null(), rtmpref.Str(c.Stream), rtmpref.Str("live")))
			} else {
				r.plain(cmdMsg("play", 3, 5, 1, rtmpref.Null(), rtmpref.Str(c.Stream)))
			}
		}
	}
	r.prefixEnd = len(r.b)
	for _, m := range c.Msgs {
		r.msg(m)
	}
	out := r.b
	for _, f := range c.Flips {
		if len(out) > 0 {
			if f < 0 {
				f = -f
			}
			out[f%len(out)] ^= byte(1 + f%251)
		}
	}
	if c.Trunc >= 0 {
		out = out[:c.Trunc%(len(out)+1)]
	}
	r.b = out
	if r.prefixEnd > len(out) {
		r.prefixEnd = len(out)
	}
	return r.wire
}

func render(c Case) []byte { return renderWire(c).b }

const maxSegments = 20000

// segments returns the sizes of the TCP segments the stream is delivered in.
func segments(c Case, w wire) []int {
	n := len(w.b)
	cut := map[int]bool{}
	add := func(o int) {
		if o > 0 && o < n {
			cut[o] = true
		}
	}
	off := 0
	for _, s := range c.Slices {
		if s > 0 {
			off += s
			add(off)
		}
	}
	if f := c.Frag; f != nil {
		if f.Hdr1 {
			for _, h := range w.hdrs {
				for o := h[0]; o <= h[1]+1; o++ {
					add(o)
				}
			}
		}
		if f.Edge {
			for _, e := range w.msgEnds {
				add(e - 1)
				add(e)
				add(e + 1)
			}
		}
		if f.Every > 0 {
			for o, k := w.hsEnd, 0; o < n && k < maxSegments; o, k = o+f.Every, k+1 {
				add(o)
			}
		}
		run := f.Run
		if run < 1 {
			run = 1
		}
		if run > 64 {
			run = 64
		}
		for _, a := range f.At {
			if n > 0 {
				if a < 0 {
					a = -a
				}
				for k := 0; k <= run; k++ {
					add(a%n + k)
				}
			}
		}
	}
	offs := make([]int, 0, len(cut))
	for o := range cut {
		offs = append(offs, o)
	}
	sort.Ints(offs)
	if len(offs) > maxSegments {
		offs = offs[:maxSegments]
	}
	sizes := make([]int, 0, len(offs)+1)
	prev := 0
	for _, o := range offs {
		sizes = append(sizes, o-prev)
		prev = o
	}
	if n > prev {
		sizes = append(sizes, n-prev)
	}
	return sizes
}

// ---- classification -------------------------------------------------------------

func wellFormedPlayOrPublish(m Msg) bool {
	return m.Kind == "cmd" && (m.Cmd == "play" || m.Cmd == "publish") && len(m.Args) >= 2 && m.Args[0].K == "null" && m.Args[1].K == "str" &&
		m.DeclLen == 0 && m.Fmt == 0
}

func classify(c Case) (bool, []string) {
	labels := []string{"handshake:" + c.Handshake, "stage:" + c.Stage}
	reached := c.Handshake == "simple" || c.Handshake == "complexish"
	if isDigestKind(c.Handshake) {
		// passable whatever lal makes of the digest (it falls back to the simple handshake), as long as C2 is complete
		reached = c.C2 == "" || c.C2 == "valid" || c.C2 == "garbage"
		if c.HsKey == "" {
			labels = append(labels, "digest:accepted-key")
		} else {
			labels = append(labels, "digest:refused-key")
		}
		if o, err := hex.DecodeString(c.HsOffs); err == nil && len(o) == 4 && int(o[0])+int(o[1])+int(o[2])+int(o[3]) >= digestRange {
			labels = append(labels, "digest:offset-bytes-sum>=728")
		}
		c2 := c.C2
		if c2 == "" {
			c2 = "valid"
		}
		labels = append(labels, "digest:c2-"+c2)
	}
	mutated := len(c.Flips) > 0 || c.Trunc >= 0
	var one func(m Msg, inIlv bool)
	afterTeardownCmd := false
	one = func(m Msg, inIlv bool) {
		switch m.Kind {
		case "data":
			labels = append(labels, "type:18", "data:"+m.Cmd)
			for _, a := range m.Args {
				if a.K == "bomb" {
					labels = append(labels, "amf-bomb")
					if a.Nest >= 20000 {
						labels = append(labels, "amf-bomb>=20000-levels/metadata")
					}
					mutated = true
				}
			}
		case "cmd":
			labels = append(labels, "cmd:"+m.Cmd)
			if m.Amf3 {
				labels = append(labels, "amf3-command")
			}
			for _, a := range m.Args {
				if a.K == "bomb" {
					labels = append(labels, "amf-bomb")
					mutated = true
					if a.Nest >= 20000 && m.Cmd == "connect" {
						labels = append(labels, "amf-bomb>=20000-levels/connect")
					}
				}
				if a.K == "bad" {
					labels = append(labels, "amf-malformed")
					mutated = true
				}
			}
			if wellFormedPlayOrPublish(m) {
				mutated = true // re-ordered element
				switch c.Stage {
				case "playing":
					labels = append(labels, "reorder:"+m.Cmd+"-after-play")
				case "publishing":
					labels = append(labels, "reorder:"+m.Cmd+"-after-publish")
				default:
					labels = append(labels, "wellformed-"+m.Cmd)
				}
			}
			if m.Cmd == "deleteStream" || m.Cmd == "closeStream" || m.Cmd == "FCUnpublish" {
				afterTeardownCmd = true
			}
			if m.Cmd == "connect" && c.Stage != "raw" && len(m.Args) > 0 && m.Args[0].K == "obj" {
				labels = append(labels, "reorder:second-connect")
				mutated = true
			}
		case "ilv":
			if m.Ilv == nil || inIlv {
				return
			}
			mutated = true
			labels = append(labels, "ilv")
			if len(m.Ilv.Scs) > 0 {
				labels = append(labels, "ilv+set-chunk-size")
			}
			lying := false
			for i, p := range m.Ilv.Parts {
				one(p, true)
				if p.DeclLen != 0 || (i > 0 && p.Csid == m.Ilv.Parts[0].Csid) {
					lying = true
				}
			}
			for _, sc := range m.Ilv.Scs {
				if !sc.Adopt {
					lying = true
				}
			}
			if lying {
				labels = append(labels, "ilv-lying")
			} else {
				labels = append(labels, "ilv-valid")
			}
			return
		default:
			labels = append(labels, fmt.Sprintf("type:%d", bucketType(m.Type)))
			if afterTeardownCmd && (m.Type == 8 || m.Type == 9 || m.Type == 18) && c.Stage == "publishing" {
				labels = append(labels, "reorder:media-after-deleteStream/closeStream")
				mutated = true
			}
		}
		if m.Kind == "raw" && m.RawLen > 8192 && m.Ts >= 0xFFFFFF && (m.Type == 8 || m.Type == 9 || m.Type == 18) && c.Stage == "publishing" && reached {
			labels = append(labels, "published-media>2-chunks+ext-ts")
		}
		if m.DeclLen < 0 {
			labels = append(labels, "cut-short")
			mutated = true
		}
		if m.DeclLen > 0 {
			labels = append(labels, "lying-length")
			mutated = true
		}
		if m.Fmt != 0 {
			labels = append(labels, fmt.Sprintf("fmt%d", m.Fmt))
		}
		if m.Kind == "raw" {
			mutated = true
		}
	}
	for _, m := range c.Msgs {
		one(m, false)
	}
	if len(c.Flips) > 0 {
		labels = append(labels, "byte-flips")
	}
	if c.Trunc >= 0 {
		labels = append(labels, "truncated")
	}
	if len(c.Slices) > 0 {
		labels = append(labels, "tcp-sliced")
	}
	if f := c.Frag; f != nil {
		if f.Hdr1 {
			labels = append(labels, "frag:chunk-headers-bytewise")
		}
		if f.Edge {
			labels = append(labels, "frag:message-edges")
		}
		if f.Every > 0 {
			labels = append(labels, "frag:every-n")
			if f.Every == 1 {
				labels = append(labels, "frag:every-byte")
			}
		}
		if len(f.At) > 0 {
			labels = append(labels, "frag:runs-at-offsets")
		}
	}
	if c.By != "" {
		labels = append(labels, "bystanders:"+c.By, "bystanders:"+c.By+"/"+c.Stage)
	}
	return reached && mutated && len(c.Msgs) > 0, uniq(labels)
}

func bucketType(t uint8) int {
	switch t {
	case 1, 2, 3, 4, 5, 6, 8, 9, 15, 17, 18, 20, 22:
		return int(t)
	}
	return 255 // other
}

func uniq(in []string) []string {
	seen := map[string]bool{}
	var out []string
	for _, s := range in {
		if !seen[s] {
			seen[s] = true
			out = append(out, s)
		}
	}
	return out
}

// searchBudget: the share of the shard's wall-clock allowance (go test -timeout, set by the driver from check.json)
// the generated search may use.  When the machine is so loaded that the requested number of cases does not fit, the
// remaining cases are skipped and counted (excluded_known "time-budget-exhausted") instead of the shard being killed
// by the test timeout, which would make the whole tier inconclusive.
func searchBudget() time.Duration {
	var d time.Duration
	if f := flag.Lookup("test.timeout"); f != nil {
		d, _ = time.ParseDuration(f.Value.String())
	}
	if d <= 0 {
		return 0
	}
	b := d * 55 / 100
	if !pbt.Thorough() && b > 95*time.Second {
		b = 95 * time.Second
	}
	return b
}

func TestHostileRtmpPeer(t *testing.T) {
	budget := searchBudget()
	pbt.Run(t, pbt.Spec[Case]{
		ID: "C04", Name: "hostile-rtmp-peer", Gen: genCase, Run: run, Classify: classify, Isolate: true,
		Quick: 1500, Thorough: 15000,
		Exclude: func(Case) string {
			if budget > 0 && time.Since(startTime) > budget {
				return "time-budget-exhausted"
			}
			return ""
		},
	})
}
