package c04

import (
	"bytes"
	"encoding/json"
	"errors"
	"fmt"
	"io"
	"os"
	"path/filepath"
	"strings"
	"time"

	"verif/drv/pbt"
	"verif/gen"
	"verif/harness/inproc"
	"verif/harness/lalclient"
	"verif/harness/memconn"
)

// ---- waiting without turning a slow machine into a verdict ---------------------------------------------------------
//
// Every wait below ends in one of three ways:
//   - the awaited thing happened;
//   - it did not, and a goroutine dump taken twice shows a lal session goroutine parked in the same blocking call
//     outside Read: a violation (the session / the server is stuck);
//   - it did not, and lal is still running or moving: the case is ABANDONED and counted (evidence counter
//     "c04-abandoned/<where>"), never reported and never allowed to abort the shard.

const sessionMarker = "rtmp.(*Server).handleTcpConnect"

// stuckSession is pbt.StuckGoroutine for "a goroutine running lal's RTMP accept handler", minus the goroutines that
// are parked in Read on their connection: with bystanders attached those are healthy idle sessions, and the hostile
// session cannot sit there after the peer's EOF (Read returns at once).  What is left and parked in the same place in
// two samples gap apart is stuck.
func stuckSession(gap time.Duration) (bool, string) {
	find := func(dump string) map[string]string {
		out := map[string]string{}
		for _, blk := range strings.Split(dump, "\n\n") {
			if !strings.Contains(blk, sessionMarker) || strings.Contains(blk, "memconn.(*Conn).Read") {
				continue
			}
			hdr := strings.SplitN(blk, "\n", 2)[0] // goroutine 12 [semacquire]:
			id := hdr
			if i := strings.Index(hdr, " ["); i > 0 {
				id = hdr[:i]
			}
			out[id] = blk
		}
		return out
	}
	a := find(pbt.AllGoroutines())
	if len(a) == 0 {
		return false, ""
	}
	time.Sleep(gap)
	b := find(pbt.AllGoroutines())
	for id, s1 := range a {
		s2, ok := b[id]
		if !ok {
			continue
		}
		h := strings.SplitN(s1, "\n", 2)[0]
		if strings.Contains(h, "[running") || strings.Contains(h, "[runnable") {
			continue
		}
		b1, b2 := strings.SplitN(s1, "\n", 2), strings.SplitN(s2, "\n", 2)
		if len(b1) == 2 && len(b2) == 2 && b1[1] == b2[1] {
			return true, s1
		}
	}
	return false, ""
}

// currentCase is the case being executed (one at a time per process); abandoned cases are saved for inspection.
var currentCase *Case
var abandonedSaved int

func abandon(where string) *pbt.Violation {
	pbt.Count("c04-abandoned/"+where, 1)
	// keep the first few abandoned cases in replay form beside the violation replays (evidence/replay, not read by
	// the driver): replayed on an idle machine they either pass or show what is slow
	if dir := os.Getenv("VERIF_REPLAY_DIR"); dir != "" && currentCase != nil && abandonedSaved < 5 {
		if cb, err := json.Marshal(currentCase); err == nil {
			rb, _ := json.MarshalIndent(pbt.ReplayFile{Property: "C04", Sub: "hostile-rtmp-peer", Sig: "abandoned/" + where, Case: cb}, "", " ")
			name := fmt.Sprintf("C04-abandoned-s%s-%s-%d.json", envOr("VERIF_SEED", "1"), envOr("VERIF_SHARD", "0"), abandonedSaved)
			if os.WriteFile(filepath.Join(dir, name), rb, 0o644) == nil {
				abandonedSaved++
			}
		}
	}
	return nil
}

func envOr(k, def string) string {
	if v := os.Getenv(k); v != "" {
		return v
	}
	return def
}

func head(s string, n int) string {
	if len(s) > n {
		return s[:n]
	}
	return s
}

// sessionRounds bounds how long a session that is still moving is waited for (rounds of DeliverTimeout).
const sessionRounds = 4

// waitSessionEnd waits for the hostile session's accept handler to return after the peer's EOF.
func waitSessionEnd(s *inproc.Server, conn *memconn.Conn) (v *pbt.Violation, ended bool) {
	return waitSessionEndWithin(s, conn, lalclient.DeliverTimeout, sessionRounds, 2*time.Second)
}

func waitSessionEndWithin(s *inproc.Server, conn *memconn.Conn, round time.Duration, rounds int, gap time.Duration) (v *pbt.Violation, ended bool) {
	for i := 0; i < rounds; i++ {
		if conn.WaitPeerDone(round) {
			return nil, true
		}
		if v := s.PanicViolation(); v != nil {
			return v, false
		}
		// stuck (parked in the same place) or merely slow?  pbt.StuckGoroutine cannot tell the hostile session from
		// the bystanders' idle ones (same marker), hence the variant above; without bystanders both agree.
		if stuck, stack := stuckSession(gap); stuck {
			return pbt.V("session-never-returns", "the server-side session is still parked %v after the peer's EOF:\n%s",
				time.Duration(i+1)*round, head(stack, 3000)), false
		}
	}
	// still running / moving after minutes: lal zeroes up to 16 MiB per lying chunk header, so a megabyte of
	// unsynchronised bytes on a machine with a load of 80 takes this long.  Not a verdict either way.
	return abandon("hostile-session-still-running"), false
}

func isTimeout(err error) bool {
	return err != nil && (errors.Is(err, os.ErrDeadlineExceeded) || strings.Contains(err.Error(), "timeout") || strings.Contains(err.Error(), "deadline"))
}

// joinFailed judges a healthy client that could not complete its handshake / commands.
func joinFailed(s *inproc.Server, sig, what string, err error) *pbt.Violation {
	if v := s.PanicViolation(); v != nil {
		return v
	}
	if isTimeout(err) {
		if stuck, stack := stuckSession(2 * time.Second); stuck {
			return pbt.V(sig+"/server-stuck", "%s: no answer within %v and a session goroutine is parked:\n%s", what, lalclient.IdleTimeout, head(stack, 3000))
		}
		return abandon(sig + "-timeout")
	}
	return pbt.V(sig, "%s: %v", what, err)
}

// ---- healthy sessions -------------------------------------------------------------------------------------------------

func streamNameOf(nameWithQuery string) string {
	if i := strings.IndexByte(nameWithQuery, '?'); i >= 0 {
		return nameWithQuery[:i]
	}
	return nameWithQuery
}

func marker(tag string, i int) []byte {
	return append([]byte{0xAF, 1, 0xde, 0xad, 0xbe, 0xef, byte(i)}, tag...)
}

func waitMarker(sub *lalclient.Consumer, m []byte, d time.Duration) bool {
	return sub.WaitFor(func(r lalclient.Rec) bool { return bytes.Equal(r.Payload, m) }, d) >= 0
}

// subListed reports whether lal's own group statistics still list the subscriber (by its address); known=false when
// the question could not be answered in time (manager lock held).
func subListed(s *inproc.Server, stream string, sub *lalclient.Consumer) (listed, known bool) {
	addr := sub.Conn.LocalAddr().String()
	res := make(chan bool, 1)
	go func() {
		defer func() { _ = recover() }()
		g := s.SM.StatGroup(stream)
		if g == nil {
			res <- false
			return
		}
		for _, x := range g.StatSubs {
			if x.RemoteAddr == addr {
				res <- true
				return
			}
		}
		res <- false
	}()
	select {
	case l := <-res:
		return l, true
	case <-time.After(10 * time.Second):
		return false, false
	}
}

// subscriberEnded judges a healthy subscriber whose reader has stopped.  lal closing the connection (EOF, also in the
// middle of a chunk) is the violation "that session only" forbids.  A framing error found by the reference decoder in
// what lal relayed from the hostile publisher is another matter (the chunk writer's validity is C08's subject): it is
// counted, not reported, and the same-stream relay is not judged for this case.
func subscriberEnded(sig, stream string, sub *lalclient.Consumer, when string) *pbt.Violation {
	if err := sub.Err(); err != nil && !strings.Contains(err.Error(), "ended inside a chunk") {
		pbt.Count("c04-bystander-decoder-error", 1)
		return nil
	}
	return pbt.V(sig+"/subscriber-disconnected", "the healthy subscriber of stream %q was disconnected by the server %s (%v)", stream, when, sub.Err())
}

// relayCheck sends a marker through pub and requires it at sub; both must still be connected.
func relayCheck(s *inproc.Server, sig, stream string, pub *lalclient.Publisher, sub *lalclient.Consumer, tag string) *pbt.Violation {
	m := marker(tag, 0)
	sendErr := pub.Send(gen.TypeAudio, 1, m, 0)
	idle := pub.WaitIdle()
	if v := s.PanicViolation(); v != nil {
		return v
	}
	if pub.Conn.PeerGone() {
		return pbt.V(sig+"/publisher-disconnected", "the healthy publisher of stream %q was disconnected by the server (send error: %v)", stream, sendErr)
	}
	if !idle {
		if stuck, stack := stuckSession(2 * time.Second); stuck {
			return pbt.V(sig+"/publisher-stuck", "the healthy publisher's session does not consume its input:\n%s", head(stack, 3000))
		}
		return abandon(sig + "-publisher-slow")
	}
	// lal has dispatched the marker in the publisher's goroutine; what is left is the subscriber's write goroutine
	if waitMarker(sub, m, 3*time.Second) {
		return nil
	}
	if sub.Ended() {
		return subscriberEnded(sig, stream, sub, "after the hostile session had ended")
	}
	if listed, known := subListed(s, streamNameOf(stream), sub); known && !listed {
		return pbt.V(sig+"/subscriber-detached", "the healthy subscriber of stream %q is still connected but no longer attached to the stream: a marker published after the hostile session ended does not reach it", stream)
	}
	if waitMarker(sub, m, lalclient.DeliverTimeout) {
		return nil
	}
	if v := s.PanicViolation(); v != nil {
		return v
	}
	if sub.Ended() {
		return subscriberEnded(sig, stream, sub, "after the hostile session had ended")
	}
	return pbt.V(sig+"/no-relay", "a marker published on stream %q after the hostile session ended was consumed by lal but did not reach the healthy subscriber within %v", stream, lalclient.DeliverTimeout)
}

// ---- the oracle -----------------------------------------------------------------------------------------------------

func serverConfig() inproc.Config {
	return inproc.Config{RtmpGopNum: 1, FlvGopNum: 1, TsGopNum: 1, Hls: true, HlsFragmentMs: 500, RecordFlv: true, RecordTs: true}
}

func run(c Case) *pbt.Violation {
	currentCase = &c
	s := inproc.New(serverConfig())
	defer s.Close()
	w := renderWire(c)
	stream := streamNameOf(c.Stream)

	// healthy sessions on the hostile peer's stream, attached BEFORE the hostile bytes
	var bySub *lalclient.Consumer
	var byPub *lalclient.Publisher
	if c.By == "sub" || c.By == "sub+pub" {
		bySub = lalclient.NewRtmpSub(s, "live", stream)
		if err := bySub.JoinErr(); err != nil {
			// nothing hostile has happened yet: not this property's business
			return abandon("setup-subscriber")
		}
		if c.By == "sub+pub" {
			byPub = lalclient.NewPublisher(s, "live", stream, 0)
			if byPub.Err != nil || byPub.Conn.PeerGone() {
				return abandon("setup-publisher")
			}
			pre := marker("pre", 0)
			_ = byPub.Send(gen.TypeAudio, 0, pre, 0)
			if !waitMarker(bySub, pre, lalclient.DeliverTimeout) {
				return abandon("setup-relay")
			}
		}
	}

	conn := s.RtmpConn()
	segs := segments(c, w)
	rest := w.b
	feedAt := -1
	if byPub != nil && c.Stage == "playing" {
		// let the healthy publisher feed the stream while the hostile peer is attached to it as a player
		feedAt = w.prefixEnd
		segs = splitAt(segs, feedAt)
	}
	// digest handshake with a real C2: the answer to lal's S1 is computed once S0 S1 S2 have arrived
	answerAt := -1
	if isDigestKind(c.Handshake) && (c.C2 == "" || c.C2 == "valid") && len(w.b) > 1+hsBlock {
		answerAt = 1 + hsBlock
		segs = splitAt(segs, answerAt)
	}
	off := 0
	for _, n := range segs {
		if answerAt >= 0 && off >= answerAt {
			answerAt = -1
			s0s1s2 := make([]byte, 1+2*hsBlock)
			_ = conn.SetReadDeadline(time.Now().Add(lalclient.IdleTimeout))
			if _, err := io.ReadFull(conn, s0s1s2); err == nil {
				c2, digestMode := buildC2(s0s1s2[1:])
				copy(rest, c2) // rest starts at C2 here; a truncated stream takes what fits
				if digestMode {
					pbt.Count("c04-digest-handshake-answered-in-digest-mode", 1)
				} else {
					pbt.Count("c04-digest-handshake-fell-back-to-simple", 1)
				}
			}
			_ = conn.SetReadDeadline(time.Time{})
		}
		if feedAt >= 0 && off >= feedAt {
			feedAt = -1
			conn.WaitPeerIdle(lalclient.IdleTimeout)
			for i := 1; i <= 3; i++ {
				_ = byPub.Send(gen.TypeAudio, uint32(i), marker("mid", i), 0)
			}
			byPub.WaitIdle()
		}
		if _, err := conn.Write(rest[:n]); err != nil {
			break // the server may close early; that is allowed
		}
		rest = rest[n:]
		off += n
	}
	conn.CloseWrite()

	// the session must notice EOF and return
	v, ended := waitSessionEnd(s, conn)
	if v != nil || !ended {
		return v
	}
	if v := s.PanicViolation(); v != nil {
		return v
	}

	// malformed input closes that session only: the healthy sessions on the same stream are still connected and a
	// marker still flows; a healthy publisher can publish the stream the hostile peer had used
	if bySub != nil {
		if bySub.Ended() {
			if v := subscriberEnded("bystander", stream, bySub, "while the hostile session ran"); v != nil {
				return v
			}
			return probe(s)
		}
		pub := byPub
		if pub == nil {
			pub = lalclient.NewPublisher(s, "live", stream, 0)
			if pub.Err != nil {
				return joinFailed(s, "bystander/publish-failed", fmt.Sprintf("a healthy publisher could not publish stream %q after the hostile session had ended", stream), pub.Err)
			}
			if pub.Conn.PeerGone() {
				if v := s.PanicViolation(); v != nil {
					return v
				}
				return pbt.V("bystander/publish-refused", "a healthy publisher that publishes stream %q after the hostile session has ended is disconnected at once (the stream is still occupied?)", stream)
			}
		}
		if v := relayCheck(s, "bystander", stream, pub, bySub, "post"); v != nil {
			return v
		}
	}
	// the server still serves other connections.  When a healthy publisher has just joined the hostile peer's stream
	// (manager lock, group creation path, relay) the fresh pair on another stream adds little and costs as much as the
	// rest of the case on a loaded machine: it is run for every fourth of those cases only.
	if bySub != nil && byPub == nil && len(w.b)%4 != 0 {
		return nil
	}
	return probe(s)
}

// splitAt adds a segment boundary at offset at.
func splitAt(segs []int, at int) []int {
	out := make([]int, 0, len(segs)+1)
	off := 0
	for _, n := range segs {
		if off < at && at < off+n {
			out = append(out, at-off, off+n-at)
		} else {
			out = append(out, n)
		}
		off += n
	}
	return out
}

func probe(s *inproc.Server) *pbt.Violation {
	sub := lalclient.NewRtmpSub(s, "live", "probe")
	if err := sub.JoinErr(); err != nil {
		return joinFailed(s, "probe/subscribe-failed", "a healthy subscriber could not join after the hostile session", err)
	}
	p := lalclient.NewPublisher(s, "live", "probe", 0)
	if p.Err != nil {
		return joinFailed(s, "probe/publish-failed", "a healthy publisher could not publish after the hostile session", p.Err)
	}
	return relayCheck(s, "probe", "probe", p, sub, "probe")
}
