package c11

// Server-level part of C11, deterministic: an HTTP-FLV / WebSocket-FLV consumer whose transport accepts nothing
// while lal hands it the cached metadata / sequence headers / GOP and the first live tags, and while the
// publisher then CHANGES the metadata or a sequence header.  What lal handed to the session sits in lal's own
// write queue during that time; when the consumer finally reads, the response body must still be a valid FLV
// byte stream and every tag must read back as a tag lal produced from a published message — in particular
// the first metadata / video header / AAC header tag is the one that was in force when lal handed it over,
// not a later one written over it (seeds c11-g, c18-g: cached blocks reused in place while still queued).
//
// Asserted: framing (strict reference parser, for WebSocket the frame rules), tag = published message
// (type + payload, metadata without @setDataFrame), first header tags = headers in force at hand-over.
// NOT asserted: which media tags the consumer gets (C01 / C02), timestamps, nothing about delays (C15).

import (
	"bytes"
	"fmt"
	"testing"

	"pgregory.net/rapid"

	"verif/drv/pbt"
	"verif/gen"
	"verif/harness/inproc"
	"verif/harness/lalclient"
)

type L2Change struct {
	Kind    string `json:"kind"` // meta | vsh | ash
	Variant int    `json:"variant"`
	Sdf     bool   `json:"sdf,omitempty"`
	KeyNext bool   `json:"key_next,omitempty"` // a key frame follows the change
}

type L2StalledCase struct {
	FlvGop  int        `json:"flv_gop"`
	Ws      bool       `json:"ws"`
	Video   string     `json:"video"` // avc | hevc | ""
	Meta0   int        `json:"meta0"`
	Sdf0    bool       `json:"sdf0"`
	V0      int        `json:"v0"`
	NoMeta  bool       `json:"no_meta,omitempty"`
	Before  int        `json:"before"`  // media messages before the join
	HandOff int        `json:"handoff"` // media messages between the join and the first change (>= 1: the hand-over)
	Changes []L2Change `json:"changes"`
	MsgLen  int        `json:"msg_len"`
}

func l2GenStalled(t *rapid.T) L2StalledCase {
	c := L2StalledCase{
		FlvGop:  rapid.IntRange(0, 2).Draw(t, "flvGop"),
		Ws:      rapid.Bool().Draw(t, "ws"),
		Video:   rapid.SampledFrom([]string{"avc", "avc", "hevc", ""}).Draw(t, "video"),
		Meta0:   rapid.IntRange(0, 12).Draw(t, "meta0"),
		Sdf0:    rapid.Bool().Draw(t, "sdf0"),
		V0:      rapid.IntRange(0, 2).Draw(t, "v0"),
		NoMeta:  rapid.IntRange(0, 4).Draw(t, "noMeta") == 0,
		Before:  rapid.IntRange(1, 6).Draw(t, "before"),
		HandOff: rapid.IntRange(1, 3).Draw(t, "handoff"),
		MsgLen:  rapid.SampledFrom([]int{1, 20, 110, 400, 3000}).Draw(t, "msgLen"),
	}
	n := rapid.IntRange(1, 4).Draw(t, "nchanges")
	for i := 0; i < n; i++ {
		kinds := []string{"meta", "meta", "ash"}
		if c.Video != "" {
			kinds = []string{"meta", "vsh", "vsh", "ash"}
		}
		ch := L2Change{Kind: rapid.SampledFrom(kinds).Draw(t, "changeKind"), KeyNext: rapid.Bool().Draw(t, "keyNext")}
		switch ch.Kind {
		case "meta":
			// variants 0..9 have the same length, 10.. are one byte longer
			ch.Variant = rapid.IntRange(0, 12).Draw(t, "metaVariant")
			ch.Sdf = rapid.Bool().Draw(t, "sdf")
		case "vsh":
			ch.Variant = rapid.IntRange(0, 2).Draw(t, "vshVariant")
		default:
			ch.Variant = rapid.IntRange(0, 3).Draw(t, "ashVariant")
		}
		c.Changes = append(c.Changes, ch)
	}
	return c
}

func l2RunStalled(c L2StalledCase) *pbt.Violation {
	s := inproc.New(inproc.Config{FlvGopNum: c.FlvGop, DisableTs: true, DisableRtsp: true})
	defer s.Close()
	cd := gen.Codecs{Video: c.Video, Audio: "aac", AscObj: 2, AscFreq: 4, AscChan: 2}
	const name = "c11stalled"
	p := lalclient.NewPublisher(s, "live", name, 4096)
	if p.Err != nil {
		return pbt.V("publish-refused", "%v", p.Err)
	}
	defer p.Close()

	// published[type] = payloads a tag of that type may carry (metadata as FLV consumers get it: without @setDataFrame)
	published := map[uint8][][]byte{}
	send := func(it gen.Item) []byte {
		pl := it.Payload(cd)
		_ = p.SendItem(it, cd, 0)
		if it.Kind == "meta" {
			pl = gen.MetaBody(it.Variant)
		}
		published[it.TypeID()] = append(published[it.TypeID()], pl)
		return pl
	}
	ts, serial := uint32(0), uint32(0)
	media := func(key bool) {
		serial++
		ts += 23
		if c.Video != "" && (key || serial%2 == 0) {
			hdr := []byte{0x41}
			if key {
				hdr = []byte{0x65}
			}
			if c.Video == "hevc" {
				hdr = []byte{1 << 1, 1}
				if key {
					hdr = []byte{19 << 1, 1}
				}
			}
			send(gen.Item{Kind: "video", Ts: ts, Key: key, Nals: []gen.NalSpec{{Hdr: hdr, Len: c.MsgLen, Seed: serial, Serial: serial}}})
		} else {
			send(gen.Item{Kind: "audio", Ts: ts, ALen: c.MsgLen, ASeed: serial})
		}
	}
	var meta0, vsh0, ash0 []byte
	if !c.NoMeta {
		meta0 = send(gen.Item{Kind: "meta", Variant: c.Meta0, Sdf: c.Sdf0})
	}
	if c.Video != "" {
		vsh0 = send(gen.Item{Kind: "vsh", Variant: c.V0})
	}
	ash0 = send(gen.Item{Kind: "ash"})
	media(true)
	for i := 1; i < c.Before; i++ {
		media(false)
	}
	if !p.Conn.WaitPeerIdle(lalclient.IdleTimeout) {
		lalclient.Harness("c11 stalled: publisher not consumed before the join")
	}

	// the join: admitted, nothing deliverable
	cc := lalclient.NewFlvSubStalled(s, "live", name, c.Ws)
	defer cc.Close()
	// the hand-over: the next broadcast gives the fresh session the cached headers (+ GOP) and the live tag
	media(true)
	for i := 1; i < c.HandOff; i++ {
		media(false)
	}
	if !p.Conn.WaitPeerIdle(lalclient.IdleTimeout) {
		lalclient.Harness("c11 stalled: publisher not consumed before the header change")
	}
	// the changes, while everything handed over is still queued inside lal
	for _, ch := range c.Changes {
		send(gen.Item{Kind: ch.Kind, Ts: ts, Variant: ch.Variant, Sdf: ch.Sdf})
		media(ch.KeyNext)
	}
	// marker
	serial = 0xC11E0D
	ts += 23
	var marker []byte
	if c.Video != "" {
		hdr := []byte{0x65}
		if c.Video == "hevc" {
			hdr = []byte{19 << 1, 1}
		}
		marker = send(gen.Item{Kind: "video", Ts: ts, Key: true, Nals: []gen.NalSpec{{Hdr: hdr, Len: 33, Seed: serial, Serial: serial}}})
	} else {
		marker = send(gen.Item{Kind: "audio", Ts: ts, ALen: 33, ASeed: serial})
	}
	if !p.Conn.WaitPeerIdle(lalclient.IdleTimeout) {
		lalclient.Harness("c11 stalled: publisher not consumed before the window was opened")
	}
	if v := s.PanicViolation(); v != nil {
		return v
	}

	// the consumer reads at last
	cc.Conn.SetRecvWindow(-1)
	cc.WaitFor(func(r lalclient.Rec) bool { return bytes.Equal(r.Payload, marker) }, lalclient.DeliverTimeout)
	kind := "flv"
	if c.Ws {
		kind = "wsflv"
	}
	if err := cc.Err(); err != nil {
		return pbt.V("l2/stalled-join/framing/"+kind, "the response body of a consumer that read late is not a valid FLV stream: %v (%d tags decoded before)", err, len(cc.Recs()))
	}
	if cc.HTTPHdr != "" && !bytes.HasPrefix([]byte(cc.HTTPHdr), []byte("HTTP/1.1 ")) {
		return pbt.V("l2/stalled-join/response-does-not-start-with-status-line/"+kind, "response begins with % x", []byte(head(cc.HTTPHdr, 48)))
	}
	recs := cc.Recs()
	sawMarker := false
	var firstMeta, firstVsh, firstAsh []byte
	for i, r := range recs {
		ok := false
		for _, pl := range published[r.Type] {
			if bytes.Equal(pl, r.Payload) {
				ok = true
				break
			}
		}
		if !ok {
			return pbt.V("l2/stalled-join/tag-not-published/"+kind, "tag %d (type %d, %d bytes, % x...) is not the payload of any message the publisher sent (consumer joined stalled, headers changed %d time(s) before it read)",
				i, r.Type, len(r.Payload), r.Payload[:min(len(r.Payload), 24)], len(c.Changes))
		}
		switch {
		case r.Type == gen.TypeData && firstMeta == nil:
			firstMeta = r.Payload
		case r.Type == gen.TypeVideo && firstVsh == nil && isVideoSeqHeader(r.Payload):
			firstVsh = r.Payload
		case r.Type == gen.TypeAudio && firstAsh == nil && len(r.Payload) >= 2 && r.Payload[0]>>4 == 10 && r.Payload[1] == 0:
			firstAsh = r.Payload
		}
		if bytes.Equal(r.Payload, marker) {
			sawMarker = true
		}
	}
	if !sawMarker {
		if cc.Ended() {
			// lal may disconnect a consumer that accepted nothing (write timeout / queue policy): not C11's subject
			pbt.Count("stalled-consumer-disconnected-before-marker", 1)
			return nil
		}
		lalclient.Harness("c11 stalled: marker not delivered within %v and the session is still open (%d tags)", lalclient.DeliverTimeout, len(recs))
	}
	check := func(what string, got, want []byte) *pbt.Violation {
		if want == nil || got == nil || bytes.Equal(got, want) {
			return nil
		}
		return pbt.V("l2/stalled-join/first-"+what+"-not-the-one-handed-over/"+kind, "the first %s tag the consumer read is % x..., lal handed over % x... (in force at the join, %d bytes); the publisher changed it while the tag was queued",
			what, got[:min(len(got), 32)], want[:min(len(want), 32)], len(want))
	}
	if v := check("metadata", firstMeta, meta0); v != nil {
		return v
	}
	if v := check("video-header", firstVsh, vsh0); v != nil {
		return v
	}
	if v := check("aac-header", firstAsh, ash0); v != nil {
		return v
	}
	pbt.Count("stalled-joins-read-back", 1)
	return nil
}

func isVideoSeqHeader(p []byte) bool {
	if len(p) < 2 {
		return false
	}
	if p[0]&0x80 != 0 { // enhanced rtmp: packet type 0 = sequence start
		return p[0]&0x0f == 0
	}
	return p[1] == 0 && (p[0]&0x0f == 7 || p[0]&0x0f == 12)
}

func l2ClassifyStalled(c L2StalledCase) (bool, []string) {
	labels := []string{fmt.Sprintf("gop:%d", c.FlvGop), "video:" + c.Video}
	if c.Ws {
		labels = append(labels, "wsflv")
	} else {
		labels = append(labels, "flv")
	}
	nt := false
	for _, ch := range c.Changes {
		labels = append(labels, "change:"+ch.Kind)
		switch ch.Kind {
		case "meta":
			if !c.NoMeta && ch.Variant != c.Meta0 {
				nt = true
				if (ch.Variant >= 10) == (c.Meta0 >= 10) {
					labels = append(labels, "change:meta-same-length")
				} else if ch.Variant < 10 {
					labels = append(labels, "change:meta-shorter")
				}
			}
		case "vsh":
			if ch.Variant != c.V0 {
				nt = true
			}
		case "ash":
			if ch.Variant != 0 {
				nt = true
			}
		}
	}
	return nt, uniqStrings(labels)
}

func uniqStrings(in []string) []string {
	seen := map[string]bool{}
	var out []string
	for _, s := range in {
		if !seen[s] {
			seen[s] = true
			out = append(out, s)
		}
	}
	return out
}

func TestL2StalledJoinHeaderChange(t *testing.T) {
	pbt.Run(t, pbt.Spec[L2StalledCase]{
		ID: "C11", Name: "l2-stalled-join-header-change", Gen: l2GenStalled, Run: l2RunStalled, Classify: l2ClassifyStalled,
		Quick: 300, Thorough: 4000,
	})
}
