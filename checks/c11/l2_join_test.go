package c11

// Server-level part of C11: HTTP-FLV and WebSocket-FLV response bodies of a
// running server are valid FLV byte streams — also for consumers that join
// WHILE the publisher is sending (the join races with the fan-out, the
// harness deliberately does not order them).  Every response must be: HTTP
// status line + header, then the 9-byte FLV header with its zero back-pointer,
// then mutually consistent tags (for WebSocket: unmasked final binary frames
// whose payloads concatenate to that stream).
//
// The schedule is not owned by the harness here: a clean run says "no
// violation on the schedules that happened"; a failure is reported with the
// offending response prefix.

import (
	"fmt"
	"strings"
	"sync"
	"testing"
	"time"

	"pgregory.net/rapid"

	"verif/drv/pbt"
	"verif/gen"
	"verif/harness/inproc"
	"verif/harness/lalclient"
)

type L2JoinCase struct {
	FlvGop   int    `json:"flv_gop"`
	Joiners  int    `json:"joiners"`   // concurrent joining goroutines
	JoinsPer int    `json:"joins_per"` // joins per goroutine
	Ws       []bool `json:"ws"`        // per goroutine: WebSocket?
	MsgLen   int    `json:"msg_len"`
	Video    bool   `json:"video"`
}

func l2GenJoin(t *rapid.T) L2JoinCase {
	c := L2JoinCase{
		FlvGop:   rapid.IntRange(0, 2).Draw(t, "flvGop"),
		Joiners:  rapid.IntRange(1, 4).Draw(t, "joiners"),
		JoinsPer: rapid.IntRange(5, 40).Draw(t, "joinsPer"),
		MsgLen:   rapid.SampledFrom([]int{1, 20, 110, 111, 112, 400, 3000}).Draw(t, "msgLen"),
		Video:    rapid.Bool().Draw(t, "video"),
	}
	for i := 0; i < c.Joiners; i++ {
		c.Ws = append(c.Ws, rapid.Bool().Draw(t, "ws"))
	}
	return c
}

func l2RunJoin(c L2JoinCase) *pbt.Violation {
	s := inproc.New(inproc.Config{FlvGopNum: c.FlvGop, DisableTs: true, DisableRtsp: true})
	defer s.Close()
	cd := gen.Codecs{Audio: "aac", AscObj: 2, AscFreq: 4, AscChan: 2}
	if c.Video {
		cd.Video = "avc"
	}
	p := lalclient.NewPublisher(s, "live", "c11join", 4096)
	if p.Err != nil {
		return pbt.V("publish-refused", "%v", p.Err)
	}
	if c.Video {
		_ = p.SendItem(gen.Item{Kind: "vsh"}, cd, 0)
	}
	_ = p.SendItem(gen.Item{Kind: "ash"}, cd, 0)
	stop := make(chan struct{})
	var pubWg sync.WaitGroup
	pubWg.Add(1)
	go func() {
		defer pubWg.Done()
		ts := uint32(0)
		n := uint32(0)
		for {
			select {
			case <-stop:
				return
			default:
			}
			n++
			ts += 23
			if c.Video && n%10 == 0 {
				_ = p.SendItem(gen.Item{Kind: "video", Ts: ts, Key: n%30 == 0, Nals: []gen.NalSpec{{Hdr: []byte{map[bool]byte{true: 0x65, false: 0x41}[n%30 == 0]}, Len: c.MsgLen, Seed: n, Serial: n}}}, cd, 0)
			} else {
				_ = p.SendItem(gen.Item{Kind: "audio", Ts: ts, ALen: c.MsgLen, ASeed: n}, cd, 0)
			}
			// keep the backlog bounded so that the publisher and the joins overlap for the whole case
			if n%64 == 0 {
				p.Conn.WaitPeerIdle(lalclient.IdleTimeout)
			}
		}
	}()
	var mu sync.Mutex
	var first *pbt.Violation
	report := func(v *pbt.Violation) {
		mu.Lock()
		if first == nil {
			first = v
		}
		mu.Unlock()
	}
	var wg sync.WaitGroup
	for g := 0; g < c.Joiners; g++ {
		wg.Add(1)
		go func(g int) {
			defer wg.Done()
			for j := 0; j < c.JoinsPer; j++ {
				mu.Lock()
				stopNow := first != nil
				mu.Unlock()
				if stopNow {
					return
				}
				cc := lalclient.NewFlvSub(s, "live", "c11join", c.Ws[g])
				// a few tags are enough: the defect class is about the beginning of the response
				got := 0
				cc.WaitFor(func(lalclient.Rec) bool { got++; return got >= 3 }, lalclient.DeliverTimeout)
				kind := "flv"
				if c.Ws[g] {
					kind = "wsflv"
				}
				if err := cc.Err(); err != nil {
					report(pbt.V("l2/join-while-live/framing/"+kind, "joiner %d join %d: %v; response header %q", g, j, err, head(cc.HTTPHdr, 120)))
				} else if cc.HTTPHdr != "" && !strings.HasPrefix(cc.HTTPHdr, "HTTP/1.1 ") {
					report(pbt.V("l2/join-while-live/response-does-not-start-with-status-line/"+kind, "joiner %d join %d: response begins with % x", g, j, []byte(head(cc.HTTPHdr, 48))))
				} else if got < 3 && !cc.Ended() {
					if v := s.PanicViolation(); v != nil {
						report(v)
					} else {
						report(pbt.V("l2/join-while-live/no-data/"+kind, "joiner %d join %d received %d tags within %v while the publisher was sending", g, j, got, lalclient.DeliverTimeout))
					}
				}
				cc.Close()
				cc.Conn.WaitPeerDone(lalclient.IdleTimeout)
				pbt.Count("joins-while-live", 1)
			}
		}(g)
	}
	wg.Wait()
	close(stop)
	pubWg.Wait()
	p.Close()
	if v := s.PanicViolation(); v != nil {
		return v
	}
	return first
}

func head(s string, n int) string {
	if len(s) > n {
		return s[:n]
	}
	return s
}

func l2ClassifyJoin(c L2JoinCase) (bool, []string) {
	labels := []string{fmt.Sprintf("joiners:%d", c.Joiners), fmt.Sprintf("gop:%d", c.FlvGop)}
	ws, plain := false, false
	for _, w := range c.Ws {
		if w {
			ws = true
		} else {
			plain = true
		}
	}
	if ws {
		labels = append(labels, "wsflv")
	}
	if plain {
		labels = append(labels, "flv")
	}
	if c.Video {
		labels = append(labels, "video")
	}
	return c.Joiners >= 2 || c.JoinsPer >= 10, labels
}

func TestL2JoinWhileLive(t *testing.T) {
	_ = time.Second
	pbt.Run(t, pbt.Spec[L2JoinCase]{
		ID: "C11", Name: "l2-join-while-live", Gen: l2GenJoin, Run: l2RunJoin, Classify: l2ClassifyJoin,
		Quick: 300, Thorough: 3000,
	})
}
