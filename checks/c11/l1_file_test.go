package c11

import (
	"errors"
	"fmt"
	"io/fs"
	"os"
	"path/filepath"
	"testing"

	"github.com/q191201771/lal/pkg/httpflv"
	"github.com/q191201771/lal/pkg/remux"
	"pgregory.net/rapid"

	"verif/drv/pbt"
	"verif/ref/flvref"
)

// ---------------------------------------------------------------------------
// l1-file: what FlvFileWriter leaves on disk is header + zero back-pointer +
// the tags written, for a conforming parser and for FlvFileReader.
//
// The writer is driven the two ways lal drives it: the recorder
// (logic/group__record_flv.go + group__core_streaming.go) calls
// WriteFlvHeader once and then WriteRaw(LazyRtmpMsg2FlvTag.GetEnsureWithoutSdf())
// per message; the pull demos call WriteTag(*remux.RtmpMsg2FlvTag(msg)).
// Tag.Path carries that choice here: "lazy" = WriteRaw, "rtmp2flv" = WriteTag.

type l1FileCase struct {
	Tags []l1Tag `json:"tags"`
	// ExplicitHeader: call FlvFileReader.ReadFlvHeader before the first
	// ReadTag (otherwise the reader skips the header lazily).
	ExplicitHeader bool `json:"explicit_header"`
	// Preexisting: bytes of an older recording already at the same path when
	// the writer opens it (0 = fresh path).  The recorder names its files
	// <stream>-<unix seconds>.flv, so a stream that is published, unpublished
	// and published again within one second opens the same path twice.
	Preexisting int `json:"preexisting,omitempty"`
}

func l1GenFileCase(t *rapid.T) l1FileCase {
	var c l1FileCase
	n := rapid.IntRange(0, 6).Draw(t, "n")
	bigLeft := 1 // at most one large tag per file keeps disk traffic low
	for i := 0; i < n; i++ {
		g := l1GenTag(t, bigLeft > 0, []string{"lazy", "lazy", "rtmp2flv"})
		if g.Len > 70000 {
			bigLeft--
		}
		c.Tags = append(c.Tags, g)
	}
	c.ExplicitHeader = rapid.Bool().Draw(t, "explicitHeader")
	if rapid.IntRange(0, 3).Draw(t, "reopenSamePath") == 0 {
		c.Preexisting = rapid.SampledFrom([]int{1, 13, 14, 200, 5000, 300000}).Draw(t, "preexisting")
	}
	return c
}

// l1EnvErr: errors of the operating system (disk full, temp dir vanished) are
// not lal's; they make the case inconclusive.
func l1EnvErr(op string, err error) {
	var pe *fs.PathError
	if errors.As(err, &pe) {
		panic(pbt.HarnessError{Msg: fmt.Sprintf("%s: %v", op, err)})
	}
}

func l1RunFileCase(c l1FileCase) *pbt.Violation {
	dir, err := os.MkdirTemp("", "verif-c11-")
	if err != nil {
		panic(pbt.HarnessError{Msg: "MkdirTemp: " + err.Error()})
	}
	defer os.RemoveAll(dir)
	name := filepath.Join(dir, "rec.flv")

	if c.Preexisting > 0 {
		// an older recording: a header and one long audio tag's worth of bytes (content is irrelevant, only that
		// none of it may survive)
		old := append([]byte("FLV\x01\x05\x00\x00\x00\x09\x00\x00\x00\x00"), make([]byte, c.Preexisting)...)
		for i := 13; i < len(old); i++ {
			old[i] = 0x28
		}
		if err := os.WriteFile(name, old[:c.Preexisting], 0o644); err != nil {
			panic(pbt.HarnessError{Msg: "WriteFile: " + err.Error()})
		}
	}

	// ---- write ------------------------------------------------------------
	var w httpflv.FlvFileWriter
	if err := w.Open(name); err != nil {
		panic(pbt.HarnessError{Msg: "FlvFileWriter.Open in a fresh temp dir: " + err.Error()})
	}
	opened := true
	defer func() {
		if opened {
			_ = w.Dispose()
		}
	}()
	fail := func(op string, err error) *pbt.Violation {
		l1EnvErr(op, err)
		return pbt.V("file/write-error", "%s on an open FlvFileWriter failed: %v", op, err)
	}
	if err := w.WriteFlvHeader(); err != nil {
		return fail("WriteFlvHeader", err)
	}
	payloads := make([][]byte, len(c.Tags))
	raws := make([][]byte, len(c.Tags))
	for i, g := range c.Tags {
		p := g.payload()
		payloads[i] = p
		switch g.Path {
		case "lazy":
			var l remux.LazyRtmpMsg2FlvTag
			l.Init(g.rtmpMsg(p))
			raws[i] = l.GetEnsureWithoutSdf()
			if err := w.WriteRaw(raws[i]); err != nil {
				return fail("WriteRaw", err)
			}
		case "rtmp2flv":
			tag := remux.RtmpMsg2FlvTag(g.rtmpMsg(p))
			raws[i] = tag.Raw
			if err := w.WriteTag(*tag); err != nil {
				return fail("WriteTag", err)
			}
		default:
			panic(pbt.HarnessError{Msg: "file case with path " + g.Path})
		}
	}
	opened = false
	if err := w.Dispose(); err != nil {
		return fail("Dispose", err)
	}

	// ---- conforming parser over the bytes on disk ---------------------------
	data, err := os.ReadFile(name)
	if err != nil {
		panic(pbt.HarnessError{Msg: "ReadFile: " + err.Error()})
	}
	h, tags, rest, perr := flvref.ParseStream(data)
	if perr != nil {
		return pbt.V("file/header-missing", "recording is %d bytes: shorter than the 9-byte header + PreviousTagSize0", len(data))
	}
	if err := h.Validate(); err != nil {
		return pbt.V("file/header", "%v; first bytes on disk: %s", err, l1Hex(data))
	}
	if len(tags) != len(c.Tags) || len(rest) != 0 {
		return pbt.V("file/framing", "%d tags written, conforming parser finds %d complete tags and %d left-over bytes in the %d-byte file (%d bytes of an older recording were at the path when it was opened)", len(c.Tags), len(tags), len(rest), len(data), c.Preexisting)
	}
	for i, g := range c.Tags {
		if v := l1CheckRefTag("file", i, g, payloads[i], tags[i]); v != nil {
			return v
		}
	}

	// ---- lal's own file reader --------------------------------------------------
	var r httpflv.FlvFileReader
	if err := r.Open(name); err != nil {
		panic(pbt.HarnessError{Msg: "FlvFileReader.Open: " + err.Error()})
	}
	defer r.Dispose()
	if c.ExplicitHeader {
		if _, err := r.ReadFlvHeader(); err != nil {
			return pbt.V("file/lal-reader/header-error", "FlvFileReader.ReadFlvHeader fails on lal's own recording (%d bytes): %v", len(data), err)
		}
	}
	for i, g := range c.Tags {
		lt, err := r.ReadTag()
		if err != nil {
			return pbt.V("file/lal-reader/error", "FlvFileReader.ReadTag fails at tag %d of %d: %v", i, len(c.Tags), err)
		}
		if v := l1CheckLalTag("file/lal-reader", i, g, payloads[i], raws[i], lt); v != nil {
			return v
		}
	}
	if extra, err := r.ReadTag(); err == nil {
		return pbt.V("file/lal-reader/extra-tag", "FlvFileReader.ReadTag returns a tag (type=%d size=%d) after the %d tags written", extra.Header.Type, extra.Header.DataSize, len(c.Tags))
	}
	return nil
}

func l1ClassifyFileCase(c l1FileCase) (bool, []string) {
	nt := false
	var labels []string
	for _, g := range c.Tags {
		n, l := l1TagLabels(g)
		nt = nt || n
		labels = append(labels, l...)
	}
	switch {
	case len(c.Tags) == 0:
		labels = append(labels, "no-tags")
	case len(c.Tags) >= 2:
		labels = append(labels, "tags>=2")
	}
	if c.Preexisting > 0 {
		labels = append(labels, "path-held-older-recording")
	}
	if c.ExplicitHeader {
		labels = append(labels, "explicit-header-read")
	} else {
		labels = append(labels, "lazy-header-read")
	}
	return nt, l1Uniq(labels)
}

func TestL1File(t *testing.T) {
	pbt.Run(t, pbt.Spec[l1FileCase]{
		ID: "C11", Name: "l1-file", Gen: l1GenFileCase, Run: l1RunFileCase, Classify: l1ClassifyFileCase,
		Quick: 3000, Thorough: 6000,
	})
}
