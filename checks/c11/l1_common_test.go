// C11 — FLV output (HTTP-FLV, WebSocket-FLV, recordings) is a valid FLV byte
// stream.  L1 (pure function) part: files l1_*_test.go.
//
// Sub-properties of the L1 part
//
//	l1-tag         PackHttpflvTag / remux.RtmpMsg2FlvTag / remux.LazyRtmpMsg2FlvTag
//	               -> reference FLV parser and lal's httpflv.ReadTag
//	l1-file        httpflv.FlvFileWriter -> bytes on disk -> reference parser and
//	               httpflv.FlvFileReader
//	l1-ws-header   base.MakeWsFrameHeader, called as BasicHttpSubSession.Write calls it
//	l1-ws-session  base.BasicHttpSubSession.Write over a recording net.Conn: one frame
//	               per unit, concatenated payloads = the FLV stream
//
// Deliberately NOT asserted anywhere in the L1 part (the property does not say):
//   - which tag types are legal (the type byte is only required to come back
//     unchanged; readers skip types they do not know),
//   - the audio/video flags of the FLV header (only that reserved bits are 0),
//   - whether metadata keeps or loses a leading "@setDataFrame" AMF0 string on
//     the Lazy path (both forms are accepted; the framing must be consistent
//     either way),
//   - how many Write calls reach the connection per unit (C15's subject), HTTP
//     response headers, the Sec-WebSocket-Accept handshake,
//   - anything about payloads of 2^24 bytes and more or WsHeader values lal
//     never builds (masked, fragmented, reserved bits).
package c11

import (
	"bytes"
	"fmt"
	"io"

	"github.com/q191201771/lal/pkg/base"
	"github.com/q191201771/lal/pkg/httpflv"
	"github.com/q191201771/lal/pkg/remux"
	"github.com/q191201771/naza/pkg/nazalog"
	"pgregory.net/rapid"

	"verif/drv/pbt"
	"verif/gen"
	"verif/ref/flvref"
)

func init() {
	// lal logs through naza's global logger (connection life cycle at debug
	// level, AMF errors of random metadata at error level): keep shards quiet.
	_ = nazalog.Init(func(o *nazalog.Option) {
		o.Level = nazalog.LevelLogNothing
		o.IsToStdout = false
		o.Filename = ""
	})
}

// l1Tag is one tag to be produced by lal.  The payload is gen.Bytes(Seed, Len);
// when Sdf != 0 and it fits, its head is overwritten with the AMF0 string
// "@setDataFrame" (1 = short-string form, 2 = long-string form) — what an RTMP
// publisher's metadata message starts with.
type l1Tag struct {
	Type uint8  `json:"type"`
	Ts   uint32 `json:"ts"`
	Len  int    `json:"len"`
	Seed uint32 `json:"seed"`
	Sdf  int    `json:"sdf,omitempty"`
	// Path selects the lal function that serialises the tag:
	// "pack" httpflv.PackHttpflvTag, "rtmp2flv" remux.RtmpMsg2FlvTag,
	// "lazy" remux.LazyRtmpMsg2FlvTag.GetEnsureWithoutSdf (what the servers use),
	// "modts" a tag packed with timestamp ^Ts, read by httpflv.ReadTag and then
	// re-stamped with Tag.ModTagTimestamp(Ts) (flv file pump, modflvfile).
	Path string `json:"path"`
}

var (
	l1SdfShort = append([]byte{0x02, 0x00, 0x0D}, "@setDataFrame"...)
	l1SdfLong  = append([]byte{0x0C, 0x00, 0x00, 0x00, 0x0D}, "@setDataFrame"...)
)

func (g l1Tag) payload() []byte {
	if g.Len < 0 || g.Len > flvref.MaxDataSize {
		panic(pbt.HarnessError{Msg: fmt.Sprintf("payload length %d outside 0..2^24-1", g.Len)})
	}
	p := gen.Bytes(g.Seed, g.Len)
	switch g.Sdf {
	case 1:
		if len(p) >= len(l1SdfShort) {
			copy(p, l1SdfShort)
		}
	case 2:
		if len(p) >= len(l1SdfLong) {
			copy(p, l1SdfLong)
		}
	}
	return p
}

// l1AcceptablePayloads lists the data a produced tag may carry: the payload
// itself and, for metadata serialised through the Lazy...WithoutSdf path, the
// payload without a leading "@setDataFrame" string (see "not asserted").
func l1AcceptablePayloads(g l1Tag, p []byte) [][]byte {
	out := [][]byte{p}
	if g.Path == "lazy" && g.Type == 18 {
		if bytes.HasPrefix(p, l1SdfShort) {
			out = append(out, p[len(l1SdfShort):])
		} else if bytes.HasPrefix(p, l1SdfLong) {
			out = append(out, p[len(l1SdfLong):])
		}
	}
	return out
}

func (g l1Tag) rtmpMsg(p []byte) base.RtmpMsg {
	csid := 5
	switch g.Type {
	case 8:
		csid = 6
	case 9:
		csid = 7
	}
	return base.RtmpMsg{
		// lal's sessions always deliver MsgLen == len(Payload)
		Header:  base.RtmpHeader{Csid: csid, MsgLen: uint32(len(p)), MsgTypeId: g.Type, MsgStreamId: 1, TimestampAbs: g.Ts},
		Payload: p,
	}
}

// l1Produce serialises the tag with the lal function the case names.  For the
// paths that also return a parsed header (RtmpMsg2FlvTag) it is returned too.
func l1Produce(g l1Tag, p []byte) (raw []byte, hdr *httpflv.TagHeader, v *pbt.Violation) {
	switch g.Path {
	case "pack":
		return httpflv.PackHttpflvTag(g.Type, g.Ts, p), nil, nil
	case "rtmp2flv":
		tag := remux.RtmpMsg2FlvTag(g.rtmpMsg(p))
		if tag == nil {
			return nil, nil, pbt.V("tag/rtmp2flv/nil", "RtmpMsg2FlvTag returned nil for type=%d ts=%d len=%d", g.Type, g.Ts, len(p))
		}
		return tag.Raw, &tag.Header, nil
	case "modts":
		tag, err := httpflv.ReadTag(bytes.NewReader(httpflv.PackHttpflvTag(g.Type, ^g.Ts, p)))
		if err != nil {
			return nil, nil, pbt.V("tag/modts/read-error", "httpflv.ReadTag fails on a packed tag type=%d ts=%#x len=%d: %v", g.Type, ^g.Ts, len(p), err)
		}
		tag.ModTagTimestamp(g.Ts)
		return tag.Raw, &tag.Header, nil
	case "lazy":
		var l remux.LazyRtmpMsg2FlvTag
		l.Init(g.rtmpMsg(p))
		first := l.GetEnsureWithoutSdf()
		// every subscriber, the recorder and the GOP cache call it again for
		// the same message: all of them must get the same tag
		second := l.GetEnsureWithoutSdf()
		if !bytes.Equal(first, second) {
			return nil, nil, pbt.V("tag/lazy/second-call-differs", "GetEnsureWithoutSdf returned %d bytes, then %d different bytes for the same message", len(first), len(second))
		}
		return first, nil, nil
	}
	panic(pbt.HarnessError{Msg: "unknown path " + g.Path})
}

func l1Hex(b []byte) string {
	if len(b) > 24 {
		return fmt.Sprintf("% x ...(%d bytes)", b[:24], len(b))
	}
	return fmt.Sprintf("% x", b)
}

// l1CheckRefTag compares one tag decoded by the reference parser with what was
// asked for.  what prefixes the signature ("tag/pack", "file", "ws-session").
func l1CheckRefTag(what string, i int, g l1Tag, p []byte, t flvref.Tag) *pbt.Violation {
	where := fmt.Sprintf("tag %d (type=%d ts=%#x len=%d path=%s) at offset %d", i, g.Type, g.Ts, len(p), g.Path, t.Offset)
	if t.TypeByte != g.Type {
		return pbt.V(what+"/type", "%s: conforming parser reads type byte %#x, want %#x", where, t.TypeByte, g.Type)
	}
	if t.Timestamp != g.Ts {
		return pbt.V(what+"/timestamp", "%s: conforming parser reads timestamp %#x (low24=%#x ext=%#x), want %#x", where, t.Timestamp, t.TimestampLow, t.TimestampExt, g.Ts)
	}
	if t.StreamID != 0 {
		return pbt.V(what+"/stream-id", "%s: stream id %d, want 0", where, t.StreamID)
	}
	ok := false
	for _, a := range l1AcceptablePayloads(g, p) {
		if int(t.DataSize) == len(a) && bytes.Equal(t.Data, a) {
			ok = true
		}
	}
	if !ok {
		if int(t.DataSize) != len(p) {
			return pbt.V(what+"/data-size", "%s: conforming parser reads data size %d, want %d", where, t.DataSize, len(p))
		}
		return pbt.V(what+"/payload", "%s: data differs from the payload: got %s want %s", where, l1Hex(t.Data), l1Hex(p))
	}
	if t.PrevTagSize != flvref.TagHeaderSize+t.DataSize {
		return pbt.V(what+"/prev-tag-size", "%s: trailing previous-tag-size %d, want 11 + data size = %d", where, t.PrevTagSize, flvref.TagHeaderSize+t.DataSize)
	}
	if err := t.Validate(); err != nil {
		return pbt.V(what+"/inconsistent", "%s: %v", where, err)
	}
	return nil
}

// l1CheckLalTag compares a tag returned by lal's own reader with what was
// asked for; raw is what lal wrote for this tag.
func l1CheckLalTag(what string, i int, g l1Tag, p []byte, raw []byte, t httpflv.Tag) *pbt.Violation {
	where := fmt.Sprintf("tag %d (type=%d ts=%#x len=%d path=%s)", i, g.Type, g.Ts, len(p), g.Path)
	if t.Header.Type != g.Type {
		return pbt.V(what+"/type", "%s: lal's reader returns type %#x, want %#x", where, t.Header.Type, g.Type)
	}
	if t.Header.Timestamp != g.Ts {
		return pbt.V(what+"/timestamp", "%s: lal's reader returns timestamp %#x, want %#x", where, t.Header.Timestamp, g.Ts)
	}
	if t.Header.StreamId != 0 {
		return pbt.V(what+"/stream-id", "%s: lal's reader returns stream id %d, want 0", where, t.Header.StreamId)
	}
	if len(t.Raw) < flvref.TagHeaderSize+flvref.PrevTagSizeSize {
		return pbt.V(what+"/raw-short", "%s: lal's reader returns %d raw bytes", where, len(t.Raw))
	}
	pl := t.Payload()
	ok := false
	for _, a := range l1AcceptablePayloads(g, p) {
		if int(t.Header.DataSize) == len(a) && bytes.Equal(pl, a) {
			ok = true
		}
	}
	if !ok {
		if int(t.Header.DataSize) != len(p) {
			return pbt.V(what+"/data-size", "%s: lal's reader returns data size %d, want %d", where, t.Header.DataSize, len(p))
		}
		return pbt.V(what+"/payload", "%s: lal's reader returns a different payload: got %s want %s", where, l1Hex(pl), l1Hex(p))
	}
	if raw != nil && !bytes.Equal(t.Raw, raw) {
		return pbt.V(what+"/raw", "%s: lal's reader returns raw bytes that differ from the bytes written (%d vs %d bytes)", where, len(t.Raw), len(raw))
	}
	return nil
}

// l1ChunkReader hands out at most n bytes per Read (n <= 0: unlimited), like a
// TCP connection delivering an HTTP-FLV body in pieces.
type l1ChunkReader struct {
	r io.Reader
	n int
}

func (c *l1ChunkReader) Read(b []byte) (int, error) {
	if c.n > 0 && len(b) > c.n {
		b = b[:c.n]
	}
	return c.r.Read(b)
}

// ---------------------------------------------------------------------------
// generators

var l1TsGen = rapid.OneOf(
	rapid.SampledFrom([]uint32{0, 1, 0xFFFFFE, 0xFFFFFF, 0x1000000, 0x1000001, 0x1FFFFFF, 0x2000000, 0x7FFFFFFF, 0x80000000, 0xFF000000, 0xFFFFFFFE, 0xFFFFFFFF}),
	rapid.Uint32Range(0, 100000),
	rapid.Uint32Range(0xFFFF00, 0x10000FF),
	rapid.Uint32(),
)

var l1TypeGen = rapid.OneOf(
	rapid.SampledFrom([]uint8{8, 9, 18}),
	rapid.SampledFrom([]uint8{8, 9, 18}),
	rapid.SampledFrom([]uint8{8, 9, 18}),
	rapid.Uint8(), // "other": whatever the caller passes must come back unchanged
)

// l1MaxLen bounds the WebSocket units whose payload is materialised.
func l1MaxLen() int {
	if pbt.Thorough() {
		return 1 << 20
	}
	return 300 << 10
}

// l1LenGen draws a tag payload length.  big = allow the "large" classes.
func l1LenGen(big bool) *rapid.Generator[int] {
	return rapid.Custom(func(t *rapid.T) int {
		switch rapid.IntRange(0, 19).Draw(t, "lenClass") {
		case 0, 1:
			return rapid.SampledFrom([]int{0, 1, 2}).Draw(t, "tiny")
		case 2, 3, 4:
			// unit length (payload + 15 bytes of tag framing) on a WebSocket length-form edge
			return rapid.SampledFrom([]int{109, 110, 111, 112, 113, 65519, 65520, 65521, 65522, 65523}).Draw(t, "wsEdge")
		case 5, 6:
			// 16-bit edge of the 24-bit data size itself (and of 11 + data size)
			return rapid.SampledFrom([]int{255, 256, 65524, 65525, 65534, 65535, 65536, 65537}).Draw(t, "sizeEdge")
		case 7, 8, 9, 10, 11:
			return rapid.IntRange(0, 300).Draw(t, "short")
		case 12, 13, 14, 15:
			return rapid.IntRange(0, 20000).Draw(t, "mid")
		case 16, 17:
			return rapid.IntRange(65000, 66000).Draw(t, "around64k")
		default:
			if !big {
				return rapid.IntRange(0, 70000).Draw(t, "mid2")
			}
			if pbt.Thorough() {
				switch k := rapid.IntRange(0, 19).Draw(t, "thoroughLarge"); {
				case k == 0:
					// the 24-bit limit; ~0.5 % of thorough cases, up to 16 MiB each
					return rapid.OneOf(
						rapid.SampledFrom([]int{flvref.MaxDataSize, flvref.MaxDataSize - 1, 1 << 23, 1<<23 - 1}),
						rapid.IntRange(2<<20, flvref.MaxDataSize),
					).Draw(t, "hugeLen")
				case k <= 3:
					return rapid.IntRange(300<<10, 2<<20).Draw(t, "larger")
				}
			}
			return rapid.IntRange(65536, 300<<10).Draw(t, "large")
		}
	})
}

func l1GenTag(t *rapid.T, big bool, paths []string) l1Tag {
	g := l1Tag{
		Type: l1TypeGen.Draw(t, "type"),
		Ts:   l1TsGen.Draw(t, "ts"),
		Len:  l1LenGen(big).Draw(t, "len"),
		Seed: rapid.Uint32().Draw(t, "seed"),
		Path: rapid.SampledFrom(paths).Draw(t, "path"),
	}
	if g.Type == 18 && rapid.IntRange(0, 2).Draw(t, "sdf?") == 0 {
		g.Sdf = rapid.IntRange(1, 2).Draw(t, "sdf")
	}
	return g
}

// l1WsEdge reports whether a unit of n bytes sits on (or next to) a WebSocket
// length-form boundary: {125,126,127,65535,65536} +- 1.
func l1WsEdge(n uint64) bool {
	return (n >= 124 && n <= 128) || (n >= 65534 && n <= 65537)
}

func l1TagLabels(g l1Tag) (nt bool, labels []string) {
	switch g.Type {
	case 8, 9, 18:
		labels = append(labels, fmt.Sprintf("type=%d", g.Type))
	default:
		labels = append(labels, "type=other")
		if g.Type&0xE0 != 0 {
			labels = append(labels, "type-byte-high-bits")
		}
	}
	labels = append(labels, "path="+g.Path)
	switch {
	case g.Ts > 0xFFFFFF:
		nt = true
		labels = append(labels, "ts>=2^24")
		if g.Ts >= 0x80000000 {
			labels = append(labels, "ts>=2^31")
		}
		if g.Ts == 0xFFFFFFFF {
			labels = append(labels, "ts=2^32-1")
		}
	case g.Ts == 0xFFFFFF:
		labels = append(labels, "ts=0xFFFFFF")
	}
	switch {
	case g.Len == 0:
		labels = append(labels, "len=0")
	case g.Len == 1:
		labels = append(labels, "len=1")
	case g.Len > 0xFFFF:
		nt = true
		labels = append(labels, "len>=2^16")
		if g.Len > 1<<20 {
			labels = append(labels, "len>1MiB")
		}
		if g.Len == flvref.MaxDataSize {
			labels = append(labels, "len=2^24-1")
		}
	}
	if l1WsEdge(uint64(g.Len) + 15) {
		nt = true
		labels = append(labels, "unit-on-ws-edge")
	}
	if g.Sdf != 0 && g.Type == 18 {
		labels = append(labels, fmt.Sprintf("metadata-sdf-form%d", g.Sdf))
	}
	return nt, labels
}

func l1Uniq(in []string) []string {
	seen := map[string]bool{}
	var out []string
	for _, s := range in {
		if !seen[s] {
			seen[s] = true
			out = append(out, s)
		}
	}
	return out
}
