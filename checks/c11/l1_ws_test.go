package c11

import (
	"bytes"
	"fmt"
	"io"
	"net"
	"testing"
	"time"

	"github.com/q191201771/lal/pkg/base"
	"github.com/q191201771/lal/pkg/httpflv"
	"github.com/q191201771/naza/pkg/connection"
	"pgregory.net/rapid"

	"verif/drv/pbt"
	"verif/gen"
	"verif/ref/flvref"
	"verif/ref/wsref"
)

// ---------------------------------------------------------------------------
// l1-ws-header: base.MakeWsFrameHeader, called with exactly the WsHeader
// BasicHttpSubSession.Write builds for a unit of n bytes
//
//	WsHeader{Fin: true, Opcode: Wso_Binary, PayloadLength: uint64(len(b)), Masked: false}
//
// yields the header of one FIN, binary, unmasked frame whose declared length
// is n in the form RFC 6455 demands (7-bit up to 125, 16-bit for 126..65535,
// 64-bit above); header + n payload bytes is exactly one frame.

// largest unit lal can write: a tag with 2^24-1 data bytes
const l1MaxUnit = flvref.TagHeaderSize + flvref.MaxDataSize + flvref.PrevTagSizeSize

type l1WsHdrCase struct {
	Len  uint64 `json:"len"`  // unit (= frame payload) length
	Seed uint32 `json:"seed"` // payload bytes, materialised only up to l1MaxLen()
}

var l1UnitLenGen = rapid.Custom(func(t *rapid.T) uint64 {
	switch rapid.IntRange(0, 9).Draw(t, "unitClass") {
	case 0, 1, 2, 3:
		return rapid.SampledFrom([]uint64{0, 1, 13, 15, 16, 124, 125, 126, 127, 128, 255, 256, 65534, 65535, 65536, 65537, 65538,
			1<<24 - 1, 1 << 24, 1<<24 + 1, l1MaxUnit - 1, l1MaxUnit}).Draw(t, "edge")
	case 4:
		// tag payloads 110,111,112 / 65520-65522 plus the 15 bytes of tag framing
		return 15 + rapid.SampledFrom([]uint64{110, 111, 112, 65520, 65521, 65522}).Draw(t, "tagEdge")
	case 5:
		return rapid.Uint64Range(0, 300).Draw(t, "short")
	case 6:
		return rapid.Uint64Range(100, 70000).Draw(t, "mid")
	case 7:
		return rapid.Uint64Range(65000, 66000).Draw(t, "around64k")
	case 8:
		return rapid.Uint64Range(65536, uint64(l1MaxLen())).Draw(t, "large")
	default:
		return rapid.Uint64Range(65536, l1MaxUnit).Draw(t, "upToMaxUnit")
	}
})

func l1GenWsHdrCase(t *rapid.T) l1WsHdrCase {
	return l1WsHdrCase{Len: l1UnitLenGen.Draw(t, "len"), Seed: rapid.Uint32().Draw(t, "seed")}
}

// l1LalWsHeader mirrors base.BasicHttpSubSession.Write.
func l1LalWsHeader(n uint64) []byte {
	return base.MakeWsFrameHeader(base.WsHeader{
		Fin:           true,
		Rsv1:          false,
		Rsv2:          false,
		Rsv3:          false,
		Opcode:        base.Wso_Binary,
		PayloadLength: n,
		Masked:        false,
	})
}

// l1CheckWsHeader applies the property's frame rules to a decoded header.
func l1CheckWsHeader(what string, h wsref.Header, n uint64) *pbt.Violation {
	if !h.Fin {
		return pbt.V(what+"/fin", "unit of %d bytes: FIN bit clear (a fragment, not a complete frame)", n)
	}
	if h.Rsv1 || h.Rsv2 || h.Rsv3 {
		return pbt.V(what+"/rsv", "unit of %d bytes: reserved bits set (%v %v %v)", n, h.Rsv1, h.Rsv2, h.Rsv3)
	}
	if h.Opcode != wsref.OpBinary {
		return pbt.V(what+"/opcode", "unit of %d bytes: opcode %#x, want binary (0x2)", n, h.Opcode)
	}
	if h.Masked {
		return pbt.V(what+"/masked", "unit of %d bytes: MASK bit set on a server-to-client frame", n)
	}
	if h.PayloadLen != n {
		return pbt.V(what+"/declared-length", "unit of %d bytes: frame declares %d payload bytes (%d-bit form, 7-bit field %d)", n, h.PayloadLen, h.LenForm, h.Len7)
	}
	if want := wsref.MinimalLenForm(n); h.LenForm != want {
		return pbt.V(what+"/length-form", "unit of %d bytes: length carried in the %d-bit form, RFC 6455 requires the %d-bit form", n, h.LenForm, want)
	}
	if err := h.Validate(); err != nil {
		return pbt.V(what+"/invalid", "unit of %d bytes: %v", n, err)
	}
	return nil
}

func l1RunWsHdrCase(c l1WsHdrCase) *pbt.Violation {
	if c.Len > l1MaxUnit {
		panic(pbt.HarnessError{Msg: fmt.Sprintf("unit length %d beyond the largest FLV unit", c.Len)})
	}
	hb := l1LalWsHeader(c.Len)
	h, err := wsref.ParseHeader(hb)
	if err != nil {
		return pbt.V("ws-header/truncated", "unit of %d bytes: the %d header bytes (% x) end before the header is complete", c.Len, len(hb), hb)
	}
	if h.HeaderSize != len(hb) {
		return pbt.V("ws-header/size", "unit of %d bytes: MakeWsFrameHeader returned %d bytes (% x) but the header it encodes is %d bytes long", c.Len, len(hb), hb, h.HeaderSize)
	}
	if v := l1CheckWsHeader("ws-header", h, c.Len); v != nil {
		return v
	}
	// header + payload = exactly one frame carrying the payload
	if c.Len <= uint64(l1MaxLen()) {
		p := gen.Bytes(c.Seed, int(c.Len))
		wire := append(append([]byte(nil), hb...), p...)
		frames, rest, err := wsref.Parse(wire)
		if err != nil || len(frames) != 1 || len(rest) != 0 {
			return pbt.V("ws-header/framing", "unit of %d bytes: header+payload parses as %d frames with %d left-over bytes (err=%v)", c.Len, len(frames), len(rest), err)
		}
		if !bytes.Equal(frames[0].Payload, p) {
			return pbt.V("ws-header/payload", "unit of %d bytes: frame payload differs from the unit", c.Len)
		}
	}
	return nil
}

func l1UnitLabels(n uint64) []string {
	var l []string
	switch wsref.MinimalLenForm(n) {
	case 7:
		l = append(l, "form7")
	case 16:
		l = append(l, "form16")
	default:
		l = append(l, "form64")
	}
	switch n {
	case 0, 125, 126, 127, 65535, 65536, 65537:
		l = append(l, fmt.Sprintf("unit=%d", n))
	case l1MaxUnit:
		l = append(l, "unit=max")
	}
	if n >= 1<<24 {
		l = append(l, "unit>=2^24")
	}
	return l
}

func l1ClassifyWsHdrCase(c l1WsHdrCase) (bool, []string) {
	return l1WsEdge(c.Len), l1UnitLabels(c.Len)
}

func TestL1WsHeader(t *testing.T) {
	pbt.Run(t, pbt.Spec[l1WsHdrCase]{
		ID: "C11", Name: "l1-ws-header", Gen: l1GenWsHdrCase, Run: l1RunWsHdrCase, Classify: l1ClassifyWsHdrCase,
		Quick: 10000, Thorough: 30000,
	})
}

// ---------------------------------------------------------------------------
// l1-ws-session: the real base.BasicHttpSubSession.Write over a recording
// net.Conn (synchronous naza connection: no write queue, no goroutine).  The
// units are what logic.Group hands to an httpflv.SubSession: the 13-byte
// httpflv.FlvHeader (SubSession.WriteFlvHeader), then serialised tags
// (SubSession.Write(lazyRtmpMsg2FlvTag.GetEnsureWithoutSdf())).
//
//   WebSocket: the bytes on the connection are exactly one valid FIN binary
//   unmasked frame per unit, each carrying its unit; the concatenated payloads
//   are a valid FLV stream holding the tags.
//   Plain HTTP: the bytes on the connection are that same FLV stream.

type l1WsSessCase struct {
	WebSocket bool    `json:"websocket"`
	Tags      []l1Tag `json:"tags"`
}

func l1GenWsSessCase(t *rapid.T) l1WsSessCase {
	c := l1WsSessCase{WebSocket: rapid.IntRange(0, 4).Draw(t, "ws") != 0}
	n := rapid.IntRange(0, 6).Draw(t, "n")
	bigLeft := 1
	for i := 0; i < n; i++ {
		g := l1GenTag(t, bigLeft > 0, []string{"lazy", "lazy", "pack"})
		if g.Len > 70000 {
			bigLeft--
		}
		c.Tags = append(c.Tags, g)
	}
	return c
}

// l1RecConn is a net.Conn that records what is written to it.
type l1RecConn struct {
	buf    bytes.Buffer
	writes int
}

type l1Addr struct{}

func (l1Addr) Network() string { return "mem" }
func (l1Addr) String() string  { return "verif-c11:0" }

func (c *l1RecConn) Read(b []byte) (int, error)       { return 0, io.EOF }
func (c *l1RecConn) Write(b []byte) (int, error)      { c.writes++; return c.buf.Write(b) }
func (c *l1RecConn) Close() error                     { return nil }
func (c *l1RecConn) LocalAddr() net.Addr              { return l1Addr{} }
func (c *l1RecConn) RemoteAddr() net.Addr             { return l1Addr{} }
func (c *l1RecConn) SetDeadline(time.Time) error      { return nil }
func (c *l1RecConn) SetReadDeadline(time.Time) error  { return nil }
func (c *l1RecConn) SetWriteDeadline(time.Time) error { return nil }

func l1RunWsSessCase(c l1WsSessCase) *pbt.Violation {
	rc := &l1RecConn{}
	sess := base.NewBasicHttpSubSession(base.BasicHttpSubSessionOption{
		Conn: rc,
		ConnModOption: func(o *connection.Option) {
			o.WriteChanSize = 0 // synchronous: Write returns after the bytes reached rc
			o.WriteTimeoutMs = 0
		},
		SessionType:  base.SessionTypeFlvSub,
		IsWebSocket:  c.WebSocket,
		WebSocketKey: "dGhlIHNhbXBsZSBub25jZQ==",
	})
	defer sess.Dispose()

	units := [][]byte{httpflv.FlvHeader}
	payloads := make([][]byte, len(c.Tags))
	for i, g := range c.Tags {
		p := g.payload()
		payloads[i] = p
		raw, _, v := l1Produce(g, p)
		if v != nil {
			return v
		}
		units = append(units, raw)
	}
	for _, u := range units {
		sess.Write(u)
	}
	wire := rc.buf.Bytes()

	stream := wire
	if c.WebSocket {
		frames, rest, err := wsref.Parse(wire)
		if err != nil {
			return pbt.V("ws-session/framing", "%d units written; frame parser stops after %d frames: %v", len(units), len(frames), err)
		}
		if len(frames) != len(units) || len(rest) != 0 {
			return pbt.V("ws-session/framing", "%d units written (%d bytes on the wire); found %d complete frames and %d left-over bytes", len(units), len(wire), len(frames), len(rest))
		}
		for i, f := range frames {
			if v := l1CheckWsHeader("ws-session", f.Header, uint64(len(units[i]))); v != nil {
				v.Detail = fmt.Sprintf("unit %d: %s", i, v.Detail)
				return v
			}
			if !bytes.Equal(f.Payload, units[i]) {
				return pbt.V("ws-session/payload", "unit %d (%d bytes): the frame's payload differs from the unit", i, len(units[i]))
			}
		}
		stream = wsref.Payloads(frames)
	}

	// the subscriber's byte stream is a valid FLV stream holding the tags
	what := "http-session"
	if c.WebSocket {
		what = "ws-session"
	}
	h, tags, rest, perr := flvref.ParseStream(stream)
	if perr != nil {
		return pbt.V(what+"/flv-header-missing", "subscriber stream is %d bytes: shorter than header + PreviousTagSize0", len(stream))
	}
	if err := h.Validate(); err != nil {
		return pbt.V(what+"/flv-header", "%v; stream starts %s", err, l1Hex(stream))
	}
	if len(tags) != len(c.Tags) || len(rest) != 0 {
		return pbt.V(what+"/flv-framing", "%d tags written; conforming FLV parser finds %d complete tags and %d left-over bytes", len(c.Tags), len(tags), len(rest))
	}
	for i, g := range c.Tags {
		if v := l1CheckRefTag(what+"/flv", i, g, payloads[i], tags[i]); v != nil {
			return v
		}
	}
	return nil
}

func l1ClassifyWsSessCase(c l1WsSessCase) (bool, []string) {
	nt := false
	var labels []string
	if c.WebSocket {
		labels = append(labels, "websocket")
	} else {
		labels = append(labels, "plain-http")
	}
	for _, g := range c.Tags {
		n, l := l1TagLabels(g)
		nt = nt || n
		for _, s := range l {
			// keep the per-unit classes; drop the per-tag noise already counted by l1-tag
			if s == "unit-on-ws-edge" || s == "ts>=2^24" || s == "len>=2^16" || s == "len=0" {
				labels = append(labels, s)
			}
		}
		if c.WebSocket {
			labels = append(labels, l1UnitLabels(uint64(g.Len)+15)...)
		}
	}
	if len(c.Tags) == 0 {
		labels = append(labels, "header-only")
	}
	return nt, l1Uniq(labels)
}

func TestL1WsSession(t *testing.T) {
	pbt.Run(t, pbt.Spec[l1WsSessCase]{
		ID: "C11", Name: "l1-ws-session", Gen: l1GenWsSessCase, Run: l1RunWsSessCase, Classify: l1ClassifyWsSessCase,
		Quick: 6000, Thorough: 12000,
	})
}
