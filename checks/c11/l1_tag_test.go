package c11

import (
	"bytes"
	"testing"

	"github.com/q191201771/lal/pkg/httpflv"
	"pgregory.net/rapid"

	"verif/drv/pbt"
	"verif/ref/flvref"
)

// ---------------------------------------------------------------------------
// l1-tag: a tag serialised by lal is one well-formed FLV tag for a conforming
// parser and for lal's own reader.

type l1TagCase struct {
	Tag l1Tag `json:"tag"`
	// ReadChunk > 0: lal's reader gets the bytes in pieces of at most this size
	// (an HTTP-FLV body arriving over TCP); 0 = all at once.
	ReadChunk int `json:"read_chunk"`
}

func l1GenTagCase(t *rapid.T) l1TagCase {
	c := l1TagCase{Tag: l1GenTag(t, true, []string{"pack", "pack", "rtmp2flv", "lazy", "lazy", "modts"})}
	if rapid.IntRange(0, 2).Draw(t, "chunked") == 0 {
		c.ReadChunk = rapid.SampledFrom([]int{1, 2, 3, 7, 10, 11, 12, 15, 16, 1000, 65536}).Draw(t, "readChunk")
		if c.ReadChunk < 7 && c.Tag.Len > 20000 {
			c.ReadChunk = 1000 // keep byte-wise reads for small tags
		}
	}
	return c
}

func l1RunTagCase(c l1TagCase) *pbt.Violation {
	g := c.Tag
	p := g.payload()
	what := "tag/" + g.Path
	raw, hdr, v := l1Produce(g, p)
	if v != nil {
		return v
	}

	// (1) a conforming parser sees exactly one complete, consistent tag
	tags, rest := flvref.ParseTags(raw)
	if len(tags) != 1 || len(rest) != 0 {
		declared := -1
		if len(tags) > 0 {
			declared = int(tags[0].DataSize)
		}
		return pbt.V(what+"/framing", "type=%d ts=%#x len=%d: %d bytes produced; conforming parser finds %d complete tag(s) (first declares data size %d) and %d left-over bytes; head: %s",
			g.Type, g.Ts, len(p), len(raw), len(tags), declared, len(rest), l1Hex(raw))
	}
	if v := l1CheckRefTag(what, 0, g, p, tags[0]); v != nil {
		return v
	}

	// (2) the header lal hands out next to the bytes (RtmpMsg2FlvTag, ModTagTimestamp) agrees
	if hdr != nil {
		if hdr.Type != g.Type || hdr.Timestamp != g.Ts || hdr.StreamId != 0 || hdr.DataSize != tags[0].DataSize {
			return pbt.V(what+"/header-struct", "type=%d ts=%#x len=%d: Tag.Header = %+v does not describe Tag.Raw (data size %d)", g.Type, g.Ts, len(p), *hdr, tags[0].DataSize)
		}
	}

	// (3) lal's own reader returns the same tag and consumes exactly its bytes
	br := bytes.NewReader(raw)
	lt, err := httpflv.ReadTag(&l1ChunkReader{r: br, n: c.ReadChunk})
	if err != nil {
		return pbt.V(what+"/lal-reader/error", "type=%d ts=%#x len=%d: httpflv.ReadTag fails on the %d bytes lal produced: %v", g.Type, g.Ts, len(p), len(raw), err)
	}
	if br.Len() != 0 {
		return pbt.V(what+"/lal-reader/leftover", "type=%d ts=%#x len=%d: httpflv.ReadTag left %d of %d bytes unread", g.Type, g.Ts, len(p), br.Len(), len(raw))
	}
	if v := l1CheckLalTag(what+"/lal-reader", 0, g, p, raw, lt); v != nil {
		return v
	}
	return nil
}

func l1ClassifyTagCase(c l1TagCase) (bool, []string) {
	nt, labels := l1TagLabels(c.Tag)
	if c.ReadChunk > 0 {
		labels = append(labels, "chunked-read")
	}
	return nt, labels
}

func TestL1Tag(t *testing.T) {
	pbt.Run(t, pbt.Spec[l1TagCase]{
		ID: "C11", Name: "l1-tag", Gen: l1GenTagCase, Run: l1RunTagCase, Classify: l1ClassifyTagCase,
		Quick: 16000, Thorough: 40000,
	})
}
