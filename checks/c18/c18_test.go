// C18 — AMF0 encode/decode is exact, total and bounded.
//
// Property text (properties.jsonl):
//
//	"Decoding any AMF0 value lal encoded returns the same value and consumes
//	exactly the encoded length, for all supported types, nesting, string
//	lengths (short and long form) and numbers.  Decoding arbitrary bytes always
//	terminates with a value or an error, never reads out of bounds and uses
//	bounded stack.  Adding or stripping the @setDataFrame prefix preserves the
//	remaining metadata bytes exactly, and metadata built by lal reads back with
//	the fields it was built from."
//
// Sub-properties (one TestXxx each):
//
//	roundtrip     (this file)            value trees -> lal / reference encoder -> lal readers
//	sdf-prefix    (this file)            MetadataEnsureWithSdf / MetadataEnsureWithoutSdf
//	build-parse   (this file)            ParseMetadata(BuildMetadata(args))
//	totality      (c18_total_test.go)    every exported reader on arbitrary / mutated bytes
//	nesting-bomb  (c18_z_bomb_test.go)   deep nesting must not exhaust the stack (isolated; runs last)
//
// lal's object model (pkg/rtmp/amf0.go): containers of all three kinds are read
// into an ObjectPairArray (ordered key/value pairs, key "" for strict-array
// elements); members whose value is null / undefined / unsupported are skipped
// (see amf0.read and the unit test TestAmf0_ReadObject_case1).  "The same
// value" is therefore compared modulo: container kind, and null/undefined
// members dropped.
//
// Deliberately NOT asserted:
//   - that lal's encoding is byte-identical to the reference encoding (only that
//     the reference decoder reads the same value from it);
//   - anything about the value / consumed count when a reader returns an error;
//   - that null/undefined members are preserved, or that object / ECMA array /
//     strict array can be told apart after reading;
//   - ECMA arrays whose count field disagrees with the number of members, keys
//     longer than 65535 bytes (not representable), nesting deeper than lal's limit of 64 (there an
//     error is accepted; a value, if returned, must still be exact);
//   - writing through rtmp.Buffer (message_packer.go) — its growth defect
//     belongs to C17; encoders here write into a bytes.Buffer like BuildMetadata;
//   - the exact encoding of the prefix MetadataEnsureWithSdf adds (only that it
//     is one AMF0 string "@setDataFrame");
//   - whether the sdf helpers report an error on input that does not start with
//     a string (only the bytes they return, which lal's callers use);
//   - BuildMetadata's undocumented extra field "lal".
package c18

import (
	"bytes"
	"fmt"
	"math"
	"strings"
	"testing"

	"github.com/q191201771/lal/pkg/base"
	"github.com/q191201771/lal/pkg/rtmp"
	"github.com/q191201771/naza/pkg/nazalog"
	"pgregory.net/rapid"

	"verif/drv/pbt"
	"verif/gen"
	"verif/ref/rtmpref"
)

func init() {
	// rtmp.Log is the global naza logger object; the readers log (with hex
	// dumps) on unknown markers.  Silence it in place.
	_ = nazalog.Init(func(o *nazalog.Option) {
		o.Level = nazalog.LevelLogNothing
		o.IsToStdout = false
		o.Filename = ""
	})
}

// ---------------------------------------------------------------------------
// case model

// StrSpec describes a byte string compactly (big strings are expanded from a
// seed so that the JSON form of a case stays small).
type StrSpec struct {
	Lit  string `json:"lit,omitempty"` // literal; wins when non-empty
	Len  int    `json:"len,omitempty"`
	Seed uint32 `json:"seed,omitempty"`
	// Cls: 0 = ASCII letters/digits, 1 = arbitrary bytes, 2 = valid multi-byte
	// UTF-8, 3 = bytes drawn from the AMF0 marker alphabet (00 02 03 08 09 0a 0c ...)
	Cls uint8 `json:"cls,omitempty"`
}

var markerAlphabet = []byte{0x00, 0x00, 0x09, 0x02, 0x03, 0x05, 0x06, 0x08, 0x0a, 0x0c, 0x01, 0xff}

func (s StrSpec) bytes() []byte {
	if s.Lit != "" {
		return []byte(s.Lit)
	}
	if s.Len <= 0 {
		return []byte{}
	}
	raw := gen.Bytes(s.Seed, s.Len)
	switch s.Cls {
	case 0:
		const al = "abcdefghijklmnopqrstuvwxyzABCDEFGHIJKLMNOPQRSTUVWXYZ0123456789_./:"
		for i := range raw {
			raw[i] = al[int(raw[i])%len(al)]
		}
	case 2:
		// 2-byte UTF-8 sequences (U+00A0..U+00BF, U+0400..) padded with ASCII
		out := make([]byte, 0, s.Len)
		for i := 0; len(out) < s.Len; i++ {
			r := rune(0x400 + int(raw[i%len(raw)]))
			if s.Len-len(out) >= 2 {
				out = append(out, byte(0xC0|r>>6), byte(0x80|r&0x3F))
			} else {
				out = append(out, 'x')
			}
		}
		return out
	case 3:
		for i := range raw {
			raw[i] = markerAlphabet[int(raw[i])%len(markerAlphabet)]
		}
	}
	return raw
}

func (s StrSpec) str() string { return string(s.bytes()) }

func (s StrSpec) size() int {
	if s.Lit != "" {
		return len(s.Lit)
	}
	if s.Len < 0 {
		return 0
	}
	return s.Len
}

// Node is one AMF0 value of a generated tree.
type Node struct {
	// K: "num" | "int" | "bool" | "str" | "null" | "undef" | "obj" | "ecma" | "strict".
	// "int" is a number that lal's WriteObject is handed as a Go int (its
	// documented second numeric form); on the wire it is float64(int).
	K    string   `json:"k"`
	Bits uint64   `json:"bits,omitempty"`
	Int  int64    `json:"int,omitempty"`
	B    bool     `json:"b,omitempty"`
	S    *StrSpec `json:"s,omitempty"`
	Long bool     `json:"long,omitempty"` // str: force the long-string form (reference encoder only)
	M    []Mem    `json:"m,omitempty"`    // obj, ecma
	E    []Node   `json:"e,omitempty"`    // strict
}

type Mem struct {
	Key StrSpec `json:"key"`
	V   Node    `json:"v"`
}

func (n Node) spec() StrSpec {
	if n.S == nil {
		return StrSpec{}
	}
	return *n.S
}

// value converts the node into the reference value tree.
func (n Node) value() rtmpref.Value {
	switch n.K {
	case "num":
		return rtmpref.NumBits(n.Bits)
	case "int":
		return rtmpref.Num(float64(n.Int))
	case "bool":
		return rtmpref.Bool(n.B)
	case "str":
		v := rtmpref.Str(n.spec().str())
		v.Long = n.Long
		return v
	case "null":
		return rtmpref.Null()
	case "undef":
		return rtmpref.Undefined()
	case "obj", "ecma":
		v := rtmpref.Value{Kind: rtmpref.KObject}
		if n.K == "ecma" {
			v.Kind = rtmpref.KEcmaArray
		}
		for _, m := range n.M {
			v.Members = append(v.Members, rtmpref.Member{Key: m.Key.str(), Val: m.V.value()})
		}
		return v
	case "strict":
		v := rtmpref.Value{Kind: rtmpref.KStrictArray}
		for _, e := range n.E {
			v.Elems = append(v.Elems, e.value())
		}
		return v
	}
	panic(pbt.HarnessError{Msg: "unknown node kind " + n.K})
}

func (n Node) depth() int {
	d := 0
	switch n.K {
	case "obj", "ecma":
		for _, m := range n.M {
			if x := m.V.depth(); x > d {
				d = x
			}
		}
		return d + 1
	case "strict":
		for _, e := range n.E {
			if x := e.depth(); x > d {
				d = x
			}
		}
		return d + 1
	}
	return 0
}

// walk calls f for every node (pre-order) with its container depth.
func (n Node) walk(depth int, f func(n Node, depth int, key *StrSpec)) {
	n.walk1(depth, nil, f)
}

func (n Node) walk1(depth int, key *StrSpec, f func(n Node, depth int, key *StrSpec)) {
	f(n, depth, key)
	for i := range n.M {
		n.M[i].V.walk1(depth+1, &n.M[i].Key, f)
	}
	for i := range n.E {
		n.E[i].walk1(depth+1, nil, f)
	}
}

// ---------------------------------------------------------------------------
// generators

var specialBits = []uint64{
	0x0000000000000000,                     // +0
	0x8000000000000000,                     // -0
	0x3FF0000000000000,                     // 1
	0xBFF0000000000000,                     // -1
	0x7FF0000000000000,                     // +Inf
	0xFFF0000000000000,                     // -Inf
	0x7FF8000000000000,                     // quiet NaN
	0x7FF8000000000001,                     // quiet NaN with payload
	0x7FF0000000000001,                     // signalling NaN
	0xFFF0000000000001,                     // negative signalling NaN
	0xFFFFFFFFFFFFFFFF,                     // NaN all ones
	0x0000000000000001,                     // smallest denormal
	0x000FFFFFFFFFFFFF,                     // largest denormal
	0x0010000000000000,                     // smallest normal
	0x7FEFFFFFFFFFFFFF,                     // max
	0x4340000000000000,                     // 2^53
	0x0102030405060708,                     // byte-order witness
	0x0900000000000000, 0x0000090000000000, // contain end-marker-like bytes
}

func genBits(t *rapid.T) uint64 {
	switch rapid.IntRange(0, 4).Draw(t, "numClass") {
	case 0:
		return rapid.SampledFrom(specialBits).Draw(t, "special")
	case 1:
		return math.Float64bits(float64(rapid.IntRange(-100000, 100000).Draw(t, "small")))
	case 2:
		return math.Float64bits(rapid.Float64().Draw(t, "float"))
	default:
		return rapid.Uint64().Draw(t, "bits")
	}
}

// genState bounds the total size of a tree.
type genState struct {
	bigLeft int // how many more strings >= 1000 bytes may be generated
	nodes   int
	maxLen  int
}

func genStr(t *rapid.T, st *genState, label string) StrSpec {
	var s StrSpec
	cls := rapid.IntRange(0, 19).Draw(t, label+"LenClass")
	switch {
	case cls == 0:
		s.Len = 0
	case cls <= 9:
		s.Len = rapid.IntRange(1, 24).Draw(t, label+"Len")
	case cls <= 11:
		s.Len = rapid.IntRange(25, 600).Draw(t, label+"Len")
	default:
		if st.bigLeft <= 0 {
			s.Len = rapid.IntRange(1, 24).Draw(t, label+"Len")
			break
		}
		st.bigLeft--
		switch cls {
		case 12, 13, 14:
			s.Len = rapid.SampledFrom([]int{65533, 65534, 65535, 65536, 65537, 65538}).Draw(t, label+"Len")
		case 15, 16:
			s.Len = rapid.IntRange(65536, st.maxLen).Draw(t, label+"Len")
		case 17:
			s.Len = st.maxLen
		default:
			s.Len = rapid.IntRange(600, st.maxLen).Draw(t, label+"Len")
		}
	}
	if s.Len > 0 {
		s.Seed = rapid.Uint32().Draw(t, label+"Seed")
		s.Cls = uint8(rapid.SampledFrom([]int{0, 0, 0, 1, 1, 2, 3}).Draw(t, label+"Cls"))
	}
	return s
}

var keyLits = []string{"app", "type", "flashVer", "fpad", "tcUrl", "level", "code", "description", "objectEncoding",
	"width", "height", "videocodecid", "audiocodecid", "duration", "encoder", "k", "a", "b"}

func genKey(t *rapid.T, st *genState) StrSpec {
	switch c := rapid.IntRange(0, 19).Draw(t, "keyClass"); {
	case c <= 9:
		return StrSpec{Lit: rapid.SampledFrom(keyLits).Draw(t, "keyLit")}
	case c == 10:
		return StrSpec{} // empty key (legal: only "" followed by 0x09 ends an object)
	case c == 11 && st.bigLeft > 0:
		st.bigLeft--
		return StrSpec{Len: rapid.SampledFrom([]int{255, 256, 32767, 32768, 65534, 65535}).Draw(t, "keyLen"),
			Seed: rapid.Uint32().Draw(t, "keySeed"), Cls: 0}
	case c <= 14:
		return StrSpec{Len: rapid.IntRange(1, 12).Draw(t, "keyLen"), Seed: rapid.Uint32().Draw(t, "keySeed"),
			Cls: uint8(rapid.SampledFrom([]int{1, 2, 3}).Draw(t, "keyCls"))}
	default:
		return StrSpec{Len: rapid.IntRange(1, 12).Draw(t, "keyLen"), Seed: rapid.Uint32().Draw(t, "keySeed"), Cls: 0}
	}
}

func genScalar(t *rapid.T, st *genState, lalOnly bool) Node {
	st.nodes++
	hi := 11
	if lalOnly {
		hi = 8 // no null / undefined / forced long form: WriteObject cannot write them
	}
	switch c := rapid.IntRange(0, hi).Draw(t, "scalar"); {
	case c <= 2:
		return Node{K: "num", Bits: genBits(t)}
	case c == 3:
		return Node{K: "int", Int: rapid.OneOf(rapid.Int64Range(-1000, 100000),
			rapid.SampledFrom([]int64{0, -1, 1, 31, 1 << 31, -(1 << 31), 1<<53 - 1, 1 << 53, -(1 << 53)}),
			rapid.Int64Range(-(1<<53), 1<<53)).Draw(t, "int")}
	case c == 4:
		return Node{K: "bool", B: rapid.Bool().Draw(t, "b")}
	case c <= 8:
		s := genStr(t, st, "str")
		return Node{K: "str", S: &s}
	case c == 9:
		return Node{K: "null"}
	case c == 10:
		return Node{K: "undef"}
	default:
		s := genStr(t, st, "str")
		return Node{K: "str", S: &s, Long: true}
	}
}

// genContainer builds a container whose depth is exactly want (>= 1).
func genContainer(t *rapid.T, st *genState, want int) Node {
	st.nodes++
	kind := rapid.SampledFrom([]string{"obj", "obj", "obj", "ecma", "ecma", "strict"}).Draw(t, "ckind")
	max := 5
	if st.nodes > 40 {
		max = 2
	}
	n := rapid.IntRange(0, max).Draw(t, "nmem")
	if want > 1 && n == 0 {
		n = 1
	}
	spine := -1
	if want > 1 {
		spine = rapid.IntRange(0, n-1).Draw(t, "spine")
	}
	node := Node{K: kind}
	for i := 0; i < n; i++ {
		var child Node
		switch {
		case i == spine:
			child = genContainer(t, st, want-1)
		case want > 1 && st.nodes < 40 && rapid.IntRange(0, 4).Draw(t, "sub") == 0:
			child = genContainer(t, st, rapid.IntRange(1, want-1).Draw(t, "subDepth"))
		default:
			child = genScalar(t, st, false)
		}
		if kind == "strict" {
			node.E = append(node.E, child)
		} else {
			node.M = append(node.M, Mem{Key: genKey(t, st), V: child})
		}
	}
	return node
}

func genFlatObject(t *rapid.T, st *genState) Node {
	st.nodes++
	n := rapid.IntRange(0, 6).Draw(t, "nmem")
	node := Node{K: "obj"}
	for i := 0; i < n; i++ {
		node.M = append(node.M, Mem{Key: genKey(t, st), V: genScalar(t, st, true)})
	}
	return node
}

func maxStrLen() int { return 70000 }

// genRootScalar: a top-level scalar, kinds drawn uniformly (each has its own lal reader).
func genRootScalar(t *rapid.T, st *genState) Node {
	st.nodes++
	switch rapid.SampledFrom([]string{"num", "bool", "str", "null", "undef", "longstr"}).Draw(t, "rootScalar") {
	case "num":
		return Node{K: "num", Bits: genBits(t)}
	case "bool":
		return Node{K: "bool", B: rapid.Bool().Draw(t, "b")}
	case "null":
		return Node{K: "null"}
	case "undef":
		return Node{K: "undef"}
	case "longstr":
		s := genStr(t, st, "str")
		return Node{K: "str", S: &s, Long: true}
	default:
		s := genStr(t, st, "str")
		return Node{K: "str", S: &s}
	}
}

func genTree(t *rapid.T) Node {
	st := &genState{bigLeft: 2, maxLen: maxStrLen()}
	if pbt.Thorough() {
		st.bigLeft = 3
	}
	switch c := rapid.IntRange(0, 19).Draw(t, "rootClass"); {
	case c <= 5:
		return genFlatObject(t, st) // what lal's WriteObject can encode
	case c <= 8:
		return genRootScalar(t, st)
	case c <= 10:
		return genContainer(t, st, 1)
	case c <= 16:
		return genContainer(t, st, rapid.IntRange(2, 6).Draw(t, "depth"))
	default:
		// deep and narrow: up to lal's nesting limit and just beyond it
		st.bigLeft = 0
		d := rapid.OneOf(
			rapid.SampledFrom([]int{lalMaxDepth - 1, lalMaxDepth, lalMaxDepth, lalMaxDepth + 1, lalMaxDepth + 2}),
			rapid.IntRange(7, lalMaxDepth),
		).Draw(t, "deepDepth")
		return genSpine(t, st, d)
	}
}

// lalMaxDepth is the container nesting lal's readers accept: amf0MaxNestingDepth
// = 64 in pkg/rtmp/amf0.go (a flat object has depth 1).  Deeper values may be
// refused with an error; up to it the round trip must be exact.
const lalMaxDepth = 64

// genSpine builds a narrow container of exactly depth want: one nested
// container per level plus 0..2 small scalar members.
func genSpine(t *rapid.T, st *genState, want int) Node {
	st.nodes++
	kind := rapid.SampledFrom([]string{"obj", "obj", "ecma", "strict"}).Draw(t, "skind")
	n := 1
	if want <= 1 {
		n = 0
	}
	sib := rapid.SampledFrom([]int{0, 0, 0, 1, 1, 2}).Draw(t, "nsib")
	pos := rapid.IntRange(0, sib).Draw(t, "spinePos")
	node := Node{K: kind}
	add := func(child Node) {
		if kind == "strict" {
			node.E = append(node.E, child)
		} else {
			node.M = append(node.M, Mem{Key: genKey(t, st), V: child})
		}
	}
	for i := 0; i <= sib; i++ {
		if i == pos && n == 1 {
			add(genSpine(t, st, want-1))
			continue
		}
		if i == pos {
			continue
		}
		add(genScalar(t, st, false))
	}
	return node
}

// ---------------------------------------------------------------------------
// lal's model of a value tree

type wantPair struct {
	Key string
	V   interface{} // uint64 (number bits) | bool | string | []wantPair
}

// modelOf returns what lal's readers are documented to produce for v inside a
// container; keep=false for the kinds lal's object model skips.
func modelOf(v rtmpref.Value) (m interface{}, keep bool) {
	switch v.Kind {
	case rtmpref.KNumber:
		return math.Float64bits(v.Num), true
	case rtmpref.KBoolean:
		return v.Bool, true
	case rtmpref.KString:
		return v.Str, true
	case rtmpref.KObject, rtmpref.KEcmaArray:
		return modelMembers(v), true
	case rtmpref.KStrictArray:
		return modelMembers(v), true
	}
	return nil, false // null, undefined, unsupported
}

func modelMembers(v rtmpref.Value) []wantPair {
	out := []wantPair{}
	for _, m := range v.Members {
		if x, keep := modelOf(m.Val); keep {
			out = append(out, wantPair{m.Key, x})
		}
	}
	for _, e := range v.Elems {
		if x, keep := modelOf(e); keep {
			out = append(out, wantPair{"", x})
		}
	}
	return out
}

func short(s string) string {
	if len(s) > 40 {
		return fmt.Sprintf("%q...(len=%d)", s[:40], len(s))
	}
	return fmt.Sprintf("%q", s)
}

// diffOPA returns "" when got equals want, else a description of the first difference.
func diffOPA(path string, got rtmp.ObjectPairArray, want []wantPair) string {
	if len(got) != len(want) {
		return fmt.Sprintf("%s: %d members read, want %d", path, len(got), len(want))
	}
	for i := range want {
		p := fmt.Sprintf("%s[%d]", path, i)
		if got[i].Key != want[i].Key {
			return fmt.Sprintf("%s: key %s, want %s", p, short(got[i].Key), short(want[i].Key))
		}
		if d := diffVal(p, got[i].Value, want[i].V); d != "" {
			return d
		}
	}
	return ""
}

func diffVal(p string, got interface{}, want interface{}) string {
	switch w := want.(type) {
	case uint64:
		g, ok := got.(float64)
		if !ok {
			return fmt.Sprintf("%s: got %T, want number", p, got)
		}
		if math.Float64bits(g) != w {
			return fmt.Sprintf("%s: number bits %#016x, want %#016x", p, math.Float64bits(g), w)
		}
	case bool:
		g, ok := got.(bool)
		if !ok {
			return fmt.Sprintf("%s: got %T, want boolean", p, got)
		}
		if g != w {
			return fmt.Sprintf("%s: boolean %v, want %v", p, g, w)
		}
	case string:
		g, ok := got.(string)
		if !ok {
			return fmt.Sprintf("%s: got %T, want string", p, got)
		}
		if g != w {
			return fmt.Sprintf("%s: string %s, want %s", p, short(g), short(w))
		}
	case []wantPair:
		g, ok := got.(rtmp.ObjectPairArray)
		if !ok {
			return fmt.Sprintf("%s: got %T, want container", p, got)
		}
		return diffOPA(p, g, w)
	default:
		panic(pbt.HarnessError{Msg: fmt.Sprintf("model value of type %T", want)})
	}
	return ""
}

// ---------------------------------------------------------------------------
// lal's encoders

// lalCanEncode: lal has Write{Number,Boolean,String,Null} and WriteObject for
// flat objects of string / number (float64 or int) / boolean members.
func lalCanEncode(n Node) bool {
	switch n.K {
	case "num", "bool", "null":
		return true
	case "str":
		return !n.Long
	case "obj":
		for _, m := range n.M {
			switch m.V.K {
			case "num", "int", "bool":
			case "str":
				if m.V.Long {
					return false
				}
			default:
				return false
			}
		}
		return true
	}
	return false
}

func lalEncode(n Node) ([]byte, error) {
	buf := &bytes.Buffer{}
	var err error
	switch n.K {
	case "num":
		err = rtmp.Amf0.WriteNumber(buf, math.Float64frombits(n.Bits))
	case "bool":
		err = rtmp.Amf0.WriteBoolean(buf, n.B)
	case "null":
		err = rtmp.Amf0.WriteNull(buf)
	case "str":
		err = rtmp.Amf0.WriteString(buf, n.spec().str())
	case "obj":
		var opa rtmp.ObjectPairArray
		for _, m := range n.M {
			p := rtmp.ObjectPair{Key: m.Key.str()}
			switch m.V.K {
			case "num":
				p.Value = math.Float64frombits(m.V.Bits)
			case "int":
				p.Value = int(m.V.Int)
			case "bool":
				p.Value = m.V.B
			case "str":
				p.Value = m.V.spec().str()
			}
			opa = append(opa, p)
		}
		err = rtmp.Amf0.WriteObject(buf, opa)
	default:
		panic(pbt.HarnessError{Msg: "lalEncode on " + n.K})
	}
	return buf.Bytes(), err
}

// ---------------------------------------------------------------------------
// sub-property (a): round trip

type RTCase struct {
	Root   Node    `json:"root"`
	UseRef bool    `json:"use_ref"` // use the reference encoder even where lal has one
	Trail  StrSpec `json:"trail"`   // bytes following the encoding in the buffer (next values of the message)
}

func genRT(t *rapid.T) RTCase {
	var c RTCase
	c.Root = genTree(t)
	c.UseRef = rapid.IntRange(0, 3).Draw(t, "useRef") == 0
	if rapid.Bool().Draw(t, "hasTrail") {
		c.Trail = StrSpec{Len: rapid.IntRange(1, 12).Draw(t, "trailLen"), Seed: rapid.Uint32().Draw(t, "trailSeed"),
			Cls: uint8(rapid.SampledFrom([]int{1, 3}).Draw(t, "trailCls"))}
	}
	return c
}

func runRT(c RTCase) *pbt.Violation {
	v := c.Root.value()
	var enc []byte
	encoder := "reference encoder"
	if lalCanEncode(c.Root) && !c.UseRef {
		encoder = "lal encoder"
		var err error
		enc, err = lalEncode(c.Root)
		if err != nil {
			return pbt.V("roundtrip/lal-encoder/error", "lal's encoder failed on %s: %v", v, err)
		}
		// what lal wrote must be AMF0 for that value (independent decoder)
		rv, n, derr := rtmpref.DecodeAmf0(enc)
		switch {
		case derr != nil:
			return pbt.V("roundtrip/lal-encoder/not-amf0", "reference decoder rejects lal's encoding of %s: %v", v, derr)
		case n != len(enc):
			return pbt.V("roundtrip/lal-encoder/length", "lal wrote %d bytes for %s, the value occupies %d", len(enc), v, n)
		case !rv.Equal(v):
			return pbt.V("roundtrip/lal-encoder/value", "lal's encoding of %s decodes (reference decoder) to %s", v, rv)
		}
	} else {
		enc = rtmpref.EncodeAmf0(v)
	}
	buf := append(append(make([]byte, 0, len(enc)+c.Trail.size()), enc...), c.Trail.bytes()...)
	return lalReadsValue(v, enc, buf, encoder)
}

// lalReadsValue: buf starts with enc, the encoding of v; the lal reader for v's
// type must return v (in lal's model) and consume exactly len(enc).
func lalReadsValue(v rtmpref.Value, enc, buf []byte, encoder string) *pbt.Violation {
	fail := func(reader, what, f string, a ...interface{}) *pbt.Violation {
		return pbt.V("roundtrip/"+reader+"/"+what, "%s, %d bytes (+%d trailing) of %s: %s", encoder, len(enc), len(buf)-len(enc), v, fmt.Sprintf(f, a...))
	}
	checkN := func(reader string, n int) *pbt.Violation {
		if n != len(enc) {
			return fail(reader, "consumed", "consumed %d bytes, the encoding has %d", n, len(enc))
		}
		return nil
	}
	switch v.Kind {
	case rtmpref.KNumber:
		g, n, err := rtmp.Amf0.ReadNumber(buf)
		if err != nil {
			return fail("ReadNumber", "error", "%v", err)
		}
		if math.Float64bits(g) != math.Float64bits(v.Num) {
			return fail("ReadNumber", "value", "read bits %#016x, want %#016x", math.Float64bits(g), math.Float64bits(v.Num))
		}
		return checkN("ReadNumber", n)
	case rtmpref.KBoolean:
		g, n, err := rtmp.Amf0.ReadBoolean(buf)
		if err != nil {
			return fail("ReadBoolean", "error", "%v", err)
		}
		if g != v.Bool {
			return fail("ReadBoolean", "value", "read %v", g)
		}
		return checkN("ReadBoolean", n)
	case rtmpref.KString:
		g, n, err := rtmp.Amf0.ReadString(buf)
		if err != nil {
			return fail("ReadString", "error", "%v", err)
		}
		if g != v.Str {
			return fail("ReadString", "value", "read %s", short(g))
		}
		return checkN("ReadString", n)
	case rtmpref.KNull:
		n, err := rtmp.Amf0.ReadNull(buf)
		if err != nil {
			return fail("ReadNull", "error", "%v", err)
		}
		return checkN("ReadNull", n)
	case rtmpref.KUndefined:
		n, err := rtmp.Amf0.ReadUndefinedOrUnsupported(buf)
		if err != nil {
			return fail("ReadUndefinedOrUnsupported", "error", "%v", err)
		}
		return checkN("ReadUndefinedOrUnsupported", n)
	}
	type rd struct {
		name string
		f    func([]byte) (rtmp.ObjectPairArray, int, error)
	}
	var readers []rd
	switch v.Kind {
	case rtmpref.KObject:
		readers = []rd{{"ReadObject", rtmp.Amf0.ReadObject}, {"ReadObjectOrArray", rtmp.Amf0.ReadObjectOrArray}}
	case rtmpref.KEcmaArray:
		readers = []rd{{"ReadArray", rtmp.Amf0.ReadArray}, {"ReadObjectOrArray", rtmp.Amf0.ReadObjectOrArray}}
	case rtmpref.KStrictArray:
		readers = []rd{{"ReadStrictArray", rtmp.Amf0.ReadStrictArray}}
	}
	want := modelMembers(v)
	tooDeep := v.Depth() > lalMaxDepth
	for _, r := range readers {
		g, n, err := r.f(buf)
		if tooDeep {
			if err != nil {
				pbt.Count("roundtrip-beyond-limit-refused", 1)
			} else {
				pbt.Count("roundtrip-beyond-limit-read", 1)
			}
		}
		if err != nil && tooDeep {
			// nested deeper than lal's documented limit: a clean refusal is fine;
			// a value, if one is returned, must still be the right one (below)
			continue
		}
		if err != nil {
			return fail(r.name, "error", "%v", err)
		}
		if d := diffOPA("$", g, want); d != "" {
			return fail(r.name, "value", "%s", d)
		}
		if vv := checkN(r.name, n); vv != nil {
			return vv
		}
	}
	return nil
}

func classifyRT(c RTCase) (bool, []string) {
	var labels []string
	d := c.Root.depth()
	nt := d >= 2
	switch {
	case d <= 6:
		labels = append(labels, fmt.Sprintf("depth=%d", d))
	case d < lalMaxDepth-1:
		labels = append(labels, "depth=7..62")
	case d <= lalMaxDepth:
		labels = append(labels, fmt.Sprintf("depth=%d", d))
	default:
		labels = append(labels, fmt.Sprintf("depth=%d(beyond-limit)", d))
	}
	labels = append(labels, "root="+c.Root.K)
	if lalCanEncode(c.Root) && !c.UseRef {
		labels = append(labels, "encoder=lal")
	} else {
		labels = append(labels, "encoder=ref")
	}
	if c.Trail.size() > 0 {
		labels = append(labels, "trailing-bytes")
	}
	c.Root.walk(0, func(n Node, depth int, key *StrSpec) {
		if key != nil {
			if key.size() == 0 {
				labels = append(labels, "empty-key")
			}
			if key.size() >= 255 {
				labels = append(labels, "key>=255")
			}
		}
		switch n.K {
		case "str":
			l := n.spec().size()
			switch {
			case l >= 65536:
				nt = true
				labels = append(labels, "str>=65536")
				if depth > 0 {
					labels = append(labels, "long-string-in-container")
				}
			case l == 65535:
				labels = append(labels, "str=65535")
			case l == 0:
				labels = append(labels, "str=0")
			}
			if n.Long && l < 65536 {
				labels = append(labels, "long-form-short-len")
			}
		case "num":
			f := math.Float64frombits(n.Bits)
			if f != f {
				labels = append(labels, "NaN")
			}
		case "int":
			labels = append(labels, "int-member")
		case "null", "undef":
			if depth > 0 {
				labels = append(labels, "null/undefined-member")
			}
		case "ecma", "strict":
			if depth > 0 {
				labels = append(labels, "nested-"+n.K)
			}
		case "obj":
			if depth > 0 {
				labels = append(labels, "nested-obj")
			}
		}
		if (n.K == "obj" || n.K == "ecma" || n.K == "strict") && len(n.M)+len(n.E) == 0 {
			labels = append(labels, "empty-container")
		}
	})
	return nt, uniq(labels)
}

func uniq(in []string) []string {
	seen := map[string]bool{}
	var out []string
	for _, s := range in {
		if !seen[s] {
			seen[s] = true
			out = append(out, s)
		}
	}
	return out
}

func TestRoundTrip(t *testing.T) {
	pbt.Run(t, pbt.Spec[RTCase]{
		ID: "C18", Name: "roundtrip", Gen: genRT, Run: runRT, Classify: classifyRT,
		Quick: 5000, Thorough: 30000,
	})
}

// ---------------------------------------------------------------------------
// sub-property (d): @setDataFrame prefix

const sdf = "@setDataFrame"

type SdfCase struct {
	// Prefix: 0 = none, 1 = "@setDataFrame" as a short string, 2 = as a long
	// string, 3 = twice (short form)
	Prefix   int     `json:"prefix"`
	Name     StrSpec `json:"name"` // first string of the metadata proper ("onMetaData")
	NameLong bool    `json:"name_long"`
	// Rest: what follows the name: a valid container (Tree) or arbitrary bytes
	Tree *Node   `json:"tree,omitempty"`
	Rest StrSpec `json:"rest"`
	// Mal: "" (well-formed) or the way the input does NOT start with a complete AMF0 string:
	//   "non-string": the encoding of First (a non-string value), or the single byte Marker when First is nil, is put in front;
	//   "truncated":  only the first Keep bytes of the input are kept, Keep < the length of its first string's encoding.
	Mal    string `json:"mal,omitempty"`
	First  *Node  `json:"first,omitempty"`
	Marker uint8  `json:"marker,omitempty"`
	Keep   int    `json:"keep,omitempty"`
}

var nameLits = []string{"onMetaData", "onMetaData", "onMetaData", "onTextData", "@setDataFram", "@setDataFrame ", "@SetDataFrame",
	"setDataFrame", "@setDataFrame\x00", "onFI", "|RtmpSampleAccess"}

func genSdf(t *rapid.T) SdfCase {
	var c SdfCase
	c.Prefix = rapid.SampledFrom([]int{0, 0, 0, 1, 1, 1, 2, 3}).Draw(t, "prefix")
	st := &genState{bigLeft: 1, maxLen: maxStrLen()}
	switch rapid.IntRange(0, 9).Draw(t, "nameClass") {
	case 0, 1, 2, 3, 4, 5:
		c.Name = StrSpec{Lit: rapid.SampledFrom(nameLits).Draw(t, "nameLit")}
	case 6:
		c.Name = StrSpec{}
	default:
		c.Name = genStr(t, st, "name")
	}
	c.NameLong = rapid.IntRange(0, 7).Draw(t, "nameLong") == 0
	switch rapid.IntRange(0, 3).Draw(t, "restClass") {
	case 0:
		// nothing after the name
	case 1:
		c.Rest = StrSpec{Len: rapid.IntRange(1, 400).Draw(t, "restLen"), Seed: rapid.Uint32().Draw(t, "restSeed"),
			Cls: uint8(rapid.SampledFrom([]int{1, 3}).Draw(t, "restCls"))}
	default:
		n := genContainer(t, st, rapid.IntRange(1, 2).Draw(t, "treeDepth"))
		c.Tree = &n
	}
	switch rapid.IntRange(0, 9).Draw(t, "mal") {
	case 0:
		c.Mal = "non-string"
		if rapid.IntRange(0, 3).Draw(t, "rawMarker") == 0 {
			// no string marker: 0x02 and 0x0c excluded
			c.Marker = rapid.SampledFrom([]uint8{0x00, 0x01, 0x03, 0x04, 0x05, 0x06, 0x07, 0x08, 0x09, 0x0a, 0x0b, 0x0d, 0x10, 0x11, 0x20, 0xff}).Draw(t, "marker")
		} else {
			var f Node
			switch rapid.IntRange(0, 5).Draw(t, "firstKind") {
			case 0:
				f = Node{K: "num", Bits: genBits(t)}
			case 1:
				f = Node{K: "bool", B: rapid.Bool().Draw(t, "b")}
			case 2:
				f = Node{K: "null"}
			case 3:
				f = Node{K: "undef"}
			default:
				f = genContainer(t, st, 1)
			}
			c.First = &f
		}
	case 1, 2:
		c.Mal = "truncated"
		c.Keep = rapid.OneOf(rapid.IntRange(0, 5), rapid.IntRange(0, 1<<20)).Draw(t, "keep") // reduced modulo the first string's length in build()
	}
	return c
}

func (c SdfCase) build() (in, body []byte) {
	name := c.Name.str()
	if name == sdf {
		panic(pbt.HarnessError{Msg: "sdf generator produced the prefix as the metadata name"})
	}
	nv := rtmpref.Str(name)
	nv.Long = c.NameLong
	body = rtmpref.EncodeAmf0(nv)
	if c.Tree != nil {
		body = append(body, rtmpref.EncodeAmf0(c.Tree.value())...)
	}
	body = append(body, c.Rest.bytes()...)
	short := rtmpref.EncodeAmf0(rtmpref.Str(sdf))
	switch c.Prefix {
	case 1:
		in = append(append([]byte{}, short...), body...)
	case 2:
		in = append(rtmpref.EncodeAmf0(rtmpref.LongStr(sdf)), body...)
	case 3:
		in = append(append(append([]byte{}, short...), short...), body...)
	default:
		in = append([]byte{}, body...)
	}
	switch c.Mal {
	case "non-string":
		front := []byte{c.Marker}
		if c.First != nil {
			if c.First.K == "str" {
				panic(pbt.HarnessError{Msg: "sdf generator: First must not be a string"})
			}
			front = rtmpref.EncodeAmf0(c.First.value())
		} else if c.Marker == 0x02 || c.Marker == 0x0c {
			panic(pbt.HarnessError{Msg: "sdf generator: Marker must not be a string marker"})
		}
		in = append(front, in...)
	case "truncated":
		_, n, err := rtmpref.DecodeAmf0(in)
		if err != nil || n <= 0 || c.Keep < 0 {
			panic(pbt.HarnessError{Msg: fmt.Sprintf("sdf generator: first string of the input does not decode: %v", err)})
		}
		in = in[:c.Keep%n] // 0 .. n-1 bytes: the first string is incomplete
	case "":
	default:
		panic(pbt.HarnessError{Msg: "sdf generator: unknown Mal " + c.Mal})
	}
	return in, body
}

// splitSdf checks that out = <one AMF0 string "@setDataFrame"> + rest and returns rest.
func splitSdf(out []byte) ([]byte, bool) {
	v, n, err := rtmpref.DecodeAmf0(out)
	if err != nil || v.Kind != rtmpref.KString || v.Str != sdf {
		return nil, false
	}
	return out[n:], true
}

// runSdfMalformed: the input does not start with a complete AMF0 string, so
// there is no prefix to recognise.  lal's callers ignore the error and use the
// returned bytes as the message payload (remux/rtmp.go, rtmp2flv.go,
// gop_cache.go), so "preserves the remaining metadata bytes exactly" is judged
// on them: stripping must return the input unchanged; adding may return the
// input unchanged or the input behind one "@setDataFrame" string.
// NOT asserted: whether an error is reported.
func runSdfMalformed(c SdfCase, in []byte) *pbt.Violation {
	desc := fmt.Sprintf("%s input (%d bytes, % x...)", c.Mal, len(in), head(in, 24))
	wo, _ := rtmp.MetadataEnsureWithoutSdf(append([]byte{}, in...))
	if !bytes.Equal(wo, in) {
		return pbt.V("sdf/without/unparsable-bytes-changed", "%s: WithoutSdf returned %d bytes (% x...), want the input unchanged (first difference at %d)", desc, len(wo), head(wo, 24), firstDiff(wo, in))
	}
	w, _ := rtmp.MetadataEnsureWithSdf(append([]byte{}, in...))
	if !bytes.Equal(w, in) {
		rest, ok := splitSdf(w)
		if !ok || !bytes.Equal(rest, in) {
			return pbt.V("sdf/with/unparsable-bytes-changed", "%s: WithSdf returned %d bytes (% x...), want the input unchanged (or behind the prefix)", desc, len(w), head(w, 24))
		}
	}
	return nil
}

// parsesTree: ParseMetadata on `payload` (name + the container c.Tree, with or
// without prefix) must return the container in lal's model.
func (c SdfCase) parsesTree(what string, payload []byte) *pbt.Violation {
	if c.Tree == nil || (c.Tree.K != "obj" && c.Tree.K != "ecma") || c.Rest.size() != 0 {
		return nil
	}
	tv := c.Tree.value()
	opa, err := rtmp.ParseMetadata(payload)
	if err != nil {
		return pbt.V("metadata/parse-tree/error", "ParseMetadata(%s: name %s + %s): %v", what, short(c.Name.str()), tv, err)
	}
	if d := diffOPA("$", opa, modelMembers(tv)); d != "" {
		return pbt.V("metadata/parse-tree/value", "ParseMetadata(%s: name %s + %s): %s", what, short(c.Name.str()), tv, d)
	}
	return nil
}

func runSdf(c SdfCase) *pbt.Violation {
	in, body := c.build()
	if c.Mal != "" {
		return runSdfMalformed(c, in)
	}
	// every call gets its own copy: the comparisons below are against bytes lal never saw
	with := func(b []byte, what string) ([]byte, *pbt.Violation) {
		out, err := rtmp.MetadataEnsureWithSdf(append([]byte{}, b...))
		if err != nil {
			return nil, pbt.V("sdf/with/error", "MetadataEnsureWithSdf(%s) failed: %v", what, err)
		}
		return out, nil
	}
	without := func(b []byte, what string) ([]byte, *pbt.Violation) {
		out, err := rtmp.MetadataEnsureWithoutSdf(append([]byte{}, b...))
		if err != nil {
			return nil, pbt.V("sdf/without/error", "MetadataEnsureWithoutSdf(%s) failed: %v", what, err)
		}
		return out, nil
	}
	desc := fmt.Sprintf("prefix=%d name=%s body=%d bytes", c.Prefix, short(c.Name.str()), len(body))

	w, v := with(in, "input")
	if v != nil {
		return v
	}
	wo, v := without(in, "input")
	if v != nil {
		return v
	}
	if v := checkLazyDivider(in, w, wo, uint32(len(in))*7919, desc); v != nil {
		return v
	}
	switch c.Prefix {
	case 0:
		// adding: one "@setDataFrame" string, then the input unchanged
		rest, ok := splitSdf(w)
		if !ok {
			return pbt.V("sdf/with/prefix-missing", "%s: output of WithSdf does not start with the string @setDataFrame: % x", desc, head(w, 24))
		}
		if !bytes.Equal(rest, in) {
			return pbt.V("sdf/with/remaining-bytes-changed", "%s: after the added prefix %d bytes follow, want the %d input bytes unchanged (first difference at %d)", desc, len(rest), len(in), firstDiff(rest, in))
		}
		// stripping where there is nothing to strip: unchanged
		if !bytes.Equal(wo, in) {
			return pbt.V("sdf/without/no-prefix-changed", "%s: WithoutSdf changed metadata that has no prefix (%d -> %d bytes, first difference at %d)", desc, len(in), len(wo), firstDiff(wo, in))
		}
	case 1, 2, 3:
		// already there: unchanged
		if !bytes.Equal(w, in) {
			return pbt.V("sdf/with/not-idempotent", "%s: WithSdf changed metadata that already has the prefix (%d -> %d bytes, first difference at %d)", desc, len(in), len(w), firstDiff(w, in))
		}
		wantWo := body
		if c.Prefix == 3 {
			wantWo = in[16:] // exactly one (short-form, 16-byte) prefix string is stripped
		}
		if !bytes.Equal(wo, wantWo) {
			return pbt.V("sdf/without/remaining-bytes-changed", "%s: WithoutSdf returned %d bytes, want the %d bytes after the prefix unchanged (first difference at %d)", desc, len(wo), len(wantWo), firstDiff(wo, wantWo))
		}
	}
	if c.Prefix != 3 {
		// what the relay forwards in either form is still the publisher's metadata
		for _, p := range []struct {
			what string
			b    []byte
		}{{"input", in}, {"WithSdf(input)", w}, {"WithoutSdf(input)", wo}} {
			if v := c.parsesTree(p.what, p.b); v != nil {
				return v
			}
		}
	}
	// idempotence and inverse
	w2, v := with(w, "WithSdf(input)")
	if v != nil {
		return v
	}
	if !bytes.Equal(w2, w) {
		return pbt.V("sdf/with/not-idempotent", "%s: WithSdf(WithSdf(x)) differs from WithSdf(x) (%d vs %d bytes)", desc, len(w2), len(w))
	}
	if c.Prefix != 3 {
		wo2, v := without(wo, "WithoutSdf(input)")
		if v != nil {
			return v
		}
		if !bytes.Equal(wo2, wo) {
			return pbt.V("sdf/without/not-idempotent", "%s: WithoutSdf(WithoutSdf(x)) differs from WithoutSdf(x) (%d vs %d bytes)", desc, len(wo2), len(wo))
		}
		// inverse on the prefix
		back, v := without(w, "WithSdf(input)")
		if v != nil {
			return v
		}
		if !bytes.Equal(back, body) {
			return pbt.V("sdf/without-after-with", "%s: WithoutSdf(WithSdf(x)) has %d bytes, want the %d metadata bytes (first difference at %d)", desc, len(back), len(body), firstDiff(back, body))
		}
		again, v := with(wo, "WithoutSdf(input)")
		if v != nil {
			return v
		}
		rest, ok := splitSdf(again)
		if !ok || !bytes.Equal(rest, body) {
			return pbt.V("sdf/with-after-without", "%s: WithSdf(WithoutSdf(x)) is not prefix + the %d metadata bytes", desc, len(body))
		}
	}
	return nil
}

func head(b []byte, n int) []byte {
	if len(b) > n {
		return b[:n]
	}
	return b
}

func firstDiff(a, b []byte) int {
	n := len(a)
	if len(b) < n {
		n = len(b)
	}
	for i := 0; i < n; i++ {
		if a[i] != b[i] {
			return i
		}
	}
	return n
}

func classifySdf(c SdfCase) (bool, []string) {
	labels := []string{fmt.Sprintf("prefix=%d", c.Prefix)}
	if c.Mal != "" {
		l := "malformed=" + c.Mal
		if c.Mal == "non-string" && c.First == nil {
			l += "(raw-marker)"
		}
		in, _ := c.build()
		if len(in) == 0 {
			labels = append(labels, "malformed=empty-input")
		}
		return true, append(labels, l)
	}
	if c.Tree != nil && (c.Tree.K == "obj" || c.Tree.K == "ecma") {
		labels = append(labels, "parse-tree")
	}
	if c.Tree != nil {
		labels = append(labels, "rest=container")
	} else if c.Rest.size() > 0 {
		labels = append(labels, "rest=bytes")
	} else {
		labels = append(labels, "rest=empty")
	}
	n := c.Name.str()
	if strings.Contains(strings.ToLower(n), "setdatafram") {
		labels = append(labels, "name-near-miss")
	}
	if c.NameLong || len(n) >= 65536 {
		labels = append(labels, "name-long-form")
	}
	if n == "" {
		labels = append(labels, "name-empty")
	}
	return true, labels
}

func TestSdfPrefix(t *testing.T) {
	pbt.Run(t, pbt.Spec[SdfCase]{
		ID: "C18", Name: "sdf-prefix", Gen: genSdf, Run: runSdf, Classify: classifySdf,
		Quick: 3000, Thorough: 20000,
	})
}

// ---------------------------------------------------------------------------
// sub-property (e): ParseMetadata(BuildMetadata(args))

type MetaCase struct {
	Width  int  `json:"width"`
	Height int  `json:"height"`
	Audio  int  `json:"audiocodecid"`
	Video  int  `json:"videocodecid"`
	Sdf    bool `json:"sdf"` // also parse after MetadataEnsureWithSdf (the form relayed to RTMP push)
}

var dimGen = rapid.OneOf(
	rapid.Just(-1),
	rapid.SampledFrom([]int{0, 1, 2, 255, 256, 320, 640, 768, 1024, 1080, 1920, 3840, 65535, 65536, 1<<31 - 1}),
	rapid.IntRange(0, 8192),
	rapid.IntRange(0, 1<<31-1),
)

var codecGen = rapid.OneOf(
	rapid.Just(-1),
	rapid.SampledFrom([]int{0, 2, 7, 10, 12, 13, 14, 15}),
	rapid.IntRange(0, 255),
	rapid.IntRange(0, 1<<31-1),
)

func genMeta(t *rapid.T) MetaCase {
	if rapid.IntRange(0, 15).Draw(t, "allAbsent") == 0 {
		return MetaCase{Width: -1, Height: -1, Audio: -1, Video: -1, Sdf: rapid.Bool().Draw(t, "sdf")}
	}
	return MetaCase{
		Width: dimGen.Draw(t, "width"), Height: dimGen.Draw(t, "height"),
		Audio: codecGen.Draw(t, "audio"), Video: codecGen.Draw(t, "video"),
		Sdf: rapid.Bool().Draw(t, "sdf"),
	}
}

func runMeta(c MetaCase) *pbt.Violation {
	b, err := rtmp.BuildMetadata(c.Width, c.Height, c.Audio, c.Video)
	if err != nil {
		return pbt.V("metadata/build-error", "BuildMetadata(%d,%d,%d,%d): %v", c.Width, c.Height, c.Audio, c.Video, err)
	}
	fields := []struct {
		key string
		val int
	}{{"width", c.Width}, {"height", c.Height}, {"audiocodecid", c.Audio}, {"videocodecid", c.Video}}

	// (1) what was built is AMF0: a name string followed by one object / ECMA array
	vals, derr := rtmpref.DecodeAmf0All(b)
	if derr != nil {
		return pbt.V("metadata/built-not-amf0", "reference decoder rejects BuildMetadata(%d,%d,%d,%d) output: %v", c.Width, c.Height, c.Audio, c.Video, derr)
	}
	if len(vals) != 2 || vals[0].Kind != rtmpref.KString || (vals[1].Kind != rtmpref.KObject && vals[1].Kind != rtmpref.KEcmaArray) {
		return pbt.V("metadata/built-shape", "BuildMetadata output is %d values %v, want a name string and one object", len(vals), vals)
	}
	// documented on BuildMetadata: the FLV name "onMetaData"; "-1: the field is not
	// written"; the fields width, height, audiocodecid, videocodecid, version
	if vals[0].Str != "onMetaData" {
		return pbt.V("metadata/built-name", "BuildMetadata output is named %s, want \"onMetaData\"", short(vals[0].Str))
	}
	if ver, ok := vals[1].GetString("version"); !ok || ver != base.LalRtmpBuildMetadataEncoder {
		return pbt.V("metadata/built-version", "BuildMetadata(%d,%d,%d,%d): field version is %q (string present=%v), want %q", c.Width, c.Height, c.Audio, c.Video, ver, ok, base.LalRtmpBuildMetadataEncoder)
	}
	for _, f := range fields {
		if f.val == -1 {
			if got, present := vals[1].Get(f.key); present {
				return pbt.V("metadata/built-absent-field-written", "BuildMetadata(%d,%d,%d,%d): %s was given as -1 (not to be written) but the output has %s = %s", c.Width, c.Height, c.Audio, c.Video, f.key, f.key, got)
			}
			continue
		}
		g, ok := vals[1].GetNumber(f.key)
		if !ok || g != float64(f.val) {
			return pbt.V("metadata/built-field", "BuildMetadata(%d,%d,%d,%d): field %s is %v (present=%v) for the reference decoder, want %d", c.Width, c.Height, c.Audio, c.Video, f.key, g, ok, f.val)
		}
	}
	// (2) lal reads it back
	check := func(what string, payload []byte) *pbt.Violation {
		opa, err := rtmp.ParseMetadata(payload)
		if err != nil {
			return pbt.V("metadata/parse-error", "ParseMetadata(%s BuildMetadata(%d,%d,%d,%d)): %v", what, c.Width, c.Height, c.Audio, c.Video, err)
		}
		if ver, err := opa.FindString("version"); err != nil || ver != base.LalRtmpBuildMetadataEncoder {
			return pbt.V("metadata/field", "ParseMetadata(%s BuildMetadata(%d,%d,%d,%d)): version reads back as %q, %v", what, c.Width, c.Height, c.Audio, c.Video, ver, err)
		}
		for _, f := range fields {
			if f.val == -1 {
				if got := opa.Find(f.key); got != nil {
					return pbt.V("metadata/absent-field-read", "ParseMetadata(%s BuildMetadata(%d,%d,%d,%d)): %s was given as -1 but reads back as %v", what, c.Width, c.Height, c.Audio, c.Video, f.key, got)
				}
				continue
			}
			g, ok := opa.Find(f.key).(float64)
			if !ok || g != float64(f.val) {
				return pbt.V("metadata/field", "ParseMetadata(%s BuildMetadata(%d,%d,%d,%d)): field %s reads back as %v, want %d", what, c.Width, c.Height, c.Audio, c.Video, f.key, opa.Find(f.key), f.val)
			}
			n, nerr := opa.FindNumber(f.key)
			if nerr != nil || n != f.val {
				return pbt.V("metadata/field", "ParseMetadata(%s BuildMetadata(%d,%d,%d,%d)): FindNumber(%s) = %d, %v, want %d", what, c.Width, c.Height, c.Audio, c.Video, f.key, n, nerr, f.val)
			}
		}
		return nil
	}
	if v := check("", b); v != nil {
		return v
	}
	if c.Sdf {
		w, err := rtmp.MetadataEnsureWithSdf(b)
		if err != nil {
			return pbt.V("sdf/with/error", "MetadataEnsureWithSdf(BuildMetadata(...)) failed: %v", err)
		}
		if v := check("WithSdf", w); v != nil {
			return v
		}
	}
	return nil
}

func classifyMeta(c MetaCase) (bool, []string) {
	var labels []string
	n := 0
	for _, v := range []int{c.Width, c.Height, c.Audio, c.Video} {
		if v != -1 {
			n++
		}
	}
	labels = append(labels, fmt.Sprintf("fields=%d", n))
	if c.Sdf {
		labels = append(labels, "with-sdf")
	}
	if c.Width == 0 || c.Height == 0 || c.Audio == 0 || c.Video == 0 {
		labels = append(labels, "zero-field")
	}
	return n > 0, labels
}

func TestBuildParseMetadata(t *testing.T) {
	pbt.Run(t, pbt.Spec[MetaCase]{
		ID: "C18", Name: "build-parse", Gen: genMeta, Run: runMeta, Classify: classifyMeta,
		Quick: 1500, Thorough: 10000,
	})
}
