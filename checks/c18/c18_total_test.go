package c18

// sub-property (b): totality.
//
// "Decoding arbitrary bytes always terminates with a value or an error, never
// reads out of bounds ..."
//
// Every exported reader of pkg/rtmp/amf0.go and the three metadata functions
// are run on (1) arbitrary bytes, (2) token soups (markers, lengths, counts and
// keys that do not agree with each other), (3) mutated valid encodings.  Each
// reader sees the input as is and with its own type marker forced into the
// first byte (otherwise most readers would stop at the marker check).
//
// Oracle per call:
//   - no panic (pbt.Guard names the innermost lal frame);
//   - the call returns (20 s watchdog, > 1000x the healthy time);
//   - on success 0 <= n <= len(input);
//   - out of bounds: the input is the front of a larger array (cap > len); the
//     call is made twice with different bytes behind the input and must give the
//     same result (a Go slice can be re-sliced up to its capacity without a
//     panic, so an over-read would otherwise be silent).
//
// NOT asserted: which of value / error is returned, the value itself, anything
// about n or partial values when an error is returned.

import (
	"encoding/binary"
	"fmt"
	"math"
	"strings"
	"testing"
	"time"

	"github.com/q191201771/lal/pkg/rtmp"
	"pgregory.net/rapid"

	"verif/drv/pbt"
	"verif/gen"
	"verif/ref/rtmpref"
)

// Tok is one element of a token soup.
type Tok struct {
	// T: 0 raw byte V, 1 marker V, 2 u16 V, 3 u32 V, 4 short string (u16 length + bytes, length off by D),
	// 5 long string (u32 length + bytes, off by D), 6 object end (00 00 09), 7 number (marker + 8 bytes), 8 raw bytes S
	T uint8   `json:"t"`
	V uint32  `json:"v,omitempty"`
	D int     `json:"d,omitempty"`
	S StrSpec `json:"s,omitempty"`
}

// Mut is one mutation of a valid encoding.
type Mut struct {
	// Op: 0 set byte, 1 xor bit, 2 truncate at Pos, 3 insert byte, 4 delete Val%16+1 bytes,
	// 5 overwrite u16 BE, 6 overwrite u32 BE, 7 duplicate Val%32+1 bytes at Pos
	Op  uint8  `json:"op"`
	Pos uint32 `json:"pos"`
	Val uint32 `json:"val"`
}

type TotCase struct {
	Mode  string  `json:"mode"` // "bytes" | "tokens" | "mutated" | "cut"
	Bytes StrSpec `json:"bytes"`
	Toks  []Tok   `json:"toks,omitempty"`
	Root  *Node   `json:"root,omitempty"`
	Muts  []Mut   `json:"muts,omitempty"`
	Cut   int     `json:"cut,omitempty"` // "cut": the valid encoding of Root without its last Cut bytes
	// Slack: capacity behind the input (0 = the slice is exactly as large as the input)
	Slack int `json:"slack"`
}

var markers = []uint32{0, 1, 2, 3, 5, 6, 8, 9, 10, 12, 13, 4, 7, 11, 14, 15, 16, 17, 0xff}

func genTok(t *rapid.T, st *genState) Tok {
	switch c := rapid.IntRange(0, 15).Draw(t, "tok"); {
	case c <= 4:
		return Tok{T: 1, V: rapid.SampledFrom(markers[:11]).Draw(t, "marker")}
	case c == 5:
		return Tok{T: 1, V: rapid.SampledFrom(markers).Draw(t, "marker")}
	case c == 6:
		return Tok{T: 0, V: uint32(rapid.IntRange(0, 255).Draw(t, "byte"))}
	case c == 7:
		return Tok{T: 2, V: rapid.OneOf(rapid.Uint32Range(0, 8), rapid.SampledFrom([]uint32{0xFFFF, 0x8000, 0x7FFF}), rapid.Uint32Range(0, 0xFFFF)).Draw(t, "u16")}
	case c == 8:
		return Tok{T: 3, V: rapid.OneOf(rapid.Uint32Range(0, 8), rapid.SampledFrom([]uint32{0xFFFFFFFF, 0x80000000, 0x7FFFFFFF, 0x10000, 0xFFFF}), rapid.Uint32()).Draw(t, "u32")}
	case c <= 11:
		return Tok{T: 4, S: genKey(t, st), D: rapid.SampledFrom([]int{0, 0, 0, 0, 1, -1, 2, 300}).Draw(t, "d")}
	case c == 12:
		return Tok{T: 5, S: genStr(t, st, "ls"), D: rapid.SampledFrom([]int{0, 0, 1, -1, 70000}).Draw(t, "d")}
	case c == 13:
		return Tok{T: 6}
	case c == 14:
		return Tok{T: 7, V: rapid.Uint32().Draw(t, "numSeed")}
	default:
		return Tok{T: 8, S: StrSpec{Len: rapid.IntRange(1, 40).Draw(t, "rawLen"), Seed: rapid.Uint32().Draw(t, "rawSeed"), Cls: uint8(rapid.SampledFrom([]int{1, 3}).Draw(t, "rawCls"))}}
	}
}

func genTot(t *rapid.T) TotCase {
	var c TotCase
	st := &genState{bigLeft: 1, maxLen: maxStrLen()}
	switch rapid.IntRange(0, 11).Draw(t, "mode") {
	case 10, 11:
		// boundary: a value whose last string / key / number misses 1..6 bytes
		c.Mode = "cut"
		var root Node
		switch rapid.IntRange(0, 4).Draw(t, "cutRoot") {
		case 0, 1:
			sp := genStr(t, st, "str")
			root = Node{K: "str", S: &sp, Long: rapid.IntRange(0, 3).Draw(t, "long") == 0}
		case 2, 3:
			root = genFlatObject(t, st)
		default:
			root = genTree(t)
		}
		c.Root = &root
		c.Cut = rapid.IntRange(1, 6).Draw(t, "cut")
	case 0, 1:
		c.Mode = "bytes"
		c.Bytes = StrSpec{Len: rapid.OneOf(rapid.IntRange(0, 16), rapid.IntRange(0, 300), rapid.IntRange(0, 5000)).Draw(t, "len"),
			Seed: rapid.Uint32().Draw(t, "seed"), Cls: uint8(rapid.SampledFrom([]int{1, 3, 3}).Draw(t, "cls"))}
	case 2, 3, 4, 5:
		c.Mode = "tokens"
		n := rapid.IntRange(1, 40).Draw(t, "ntok")
		for i := 0; i < n; i++ {
			c.Toks = append(c.Toks, genTok(t, st))
		}
	default:
		c.Mode = "mutated"
		root := genTree(t)
		c.Root = &root
		n := rapid.IntRange(1, 4).Draw(t, "nmut")
		for i := 0; i < n; i++ {
			c.Muts = append(c.Muts, Mut{
				Op:  uint8(rapid.IntRange(0, 7).Draw(t, "op")),
				Pos: rapid.OneOf(rapid.Uint32Range(0, 64), rapid.Uint32()).Draw(t, "pos"),
				Val: rapid.OneOf(rapid.Uint32Range(0, 16), rapid.SampledFrom([]uint32{0xFF, 0xFFFF, 0xFFFFFFFF, 0x7FFFFFFF, 0x80000000}), rapid.Uint32()).Draw(t, "val"),
			})
		}
	}
	c.Slack = rapid.SampledFrom([]int{0, 0, 1, 2, 3, 4, 8, 16, 64}).Draw(t, "slack")
	return c
}

func (c TotCase) input() []byte {
	switch c.Mode {
	case "bytes":
		return c.Bytes.bytes()
	case "tokens":
		var out []byte
		for _, k := range c.Toks {
			switch k.T {
			case 0, 1:
				out = append(out, byte(k.V))
			case 2:
				out = binary.BigEndian.AppendUint16(out, uint16(k.V))
			case 3:
				out = binary.BigEndian.AppendUint32(out, k.V)
			case 4:
				b := k.S.bytes()
				out = binary.BigEndian.AppendUint16(out, uint16(len(b)+k.D))
				out = append(out, b...)
			case 5:
				b := k.S.bytes()
				out = binary.BigEndian.AppendUint32(out, uint32(len(b)+k.D))
				out = append(out, b...)
			case 6:
				out = append(out, 0, 0, 9)
			case 7:
				out = append(out, 0)
				out = append(out, gen.Bytes(k.V, 8)...)
			case 8:
				out = append(out, k.S.bytes()...)
			}
		}
		return out
	case "cut":
		if c.Root == nil || c.Cut < 0 {
			panic(pbt.HarnessError{Msg: "cut case without a tree"})
		}
		b := rtmpref.EncodeAmf0(c.Root.value())
		if c.Cut > len(b) {
			return []byte{}
		}
		return b[:len(b)-c.Cut]
	case "mutated":
		if c.Root == nil {
			panic(pbt.HarnessError{Msg: "mutated case without a tree"})
		}
		b := rtmpref.EncodeAmf0(c.Root.value())
		for _, m := range c.Muts {
			b = applyMut(b, m)
		}
		return b
	}
	panic(pbt.HarnessError{Msg: "unknown totality mode " + c.Mode})
}

func applyMut(b []byte, m Mut) []byte {
	if len(b) == 0 {
		return b
	}
	p := int(m.Pos % uint32(len(b)))
	switch m.Op {
	case 0:
		b[p] = byte(m.Val)
	case 1:
		b[p] ^= 1 << (m.Val % 8)
	case 2:
		b = b[:p]
	case 3:
		b = append(b[:p], append([]byte{byte(m.Val)}, b[p:]...)...)
	case 4:
		n := int(m.Val%16) + 1
		if p+n > len(b) {
			n = len(b) - p
		}
		b = append(b[:p], b[p+n:]...)
	case 5:
		if p+2 <= len(b) {
			binary.BigEndian.PutUint16(b[p:], uint16(m.Val))
		}
	case 6:
		if p+4 <= len(b) {
			binary.BigEndian.PutUint32(b[p:], m.Val)
		}
	case 7:
		n := int(m.Val%32) + 1
		if p+n > len(b) {
			n = len(b) - p
		}
		dup := append([]byte{}, b[p:p+n]...)
		b = append(b[:p], append(dup, b[p:]...)...)
	}
	return b
}

// result of one reader call, comparable.
type result struct {
	failed bool
	n      int
	repr   string
}

func reprOPA(o rtmp.ObjectPairArray) string {
	var sb strings.Builder
	dumpOPA(&sb, o, 0)
	return sb.String()
}

func dumpOPA(sb *strings.Builder, o rtmp.ObjectPairArray, depth int) {
	sb.WriteString("{")
	for _, p := range o {
		fmt.Fprintf(sb, "%q:", p.Key)
		switch v := p.Value.(type) {
		case float64:
			fmt.Fprintf(sb, "n%x", math.Float64bits(v))
		case bool:
			fmt.Fprintf(sb, "b%v", v)
		case string:
			fmt.Fprintf(sb, "s%q", v)
		case rtmp.ObjectPairArray:
			dumpOPA(sb, v, depth+1)
		default:
			fmt.Fprintf(sb, "?%T", v)
		}
		sb.WriteString(",")
	}
	sb.WriteString("}")
}

type reader struct {
	name   string
	marker int // type marker the reader expects first, -1 = none
	f      func(b []byte) result
}

func rs(s string, n int, err error) result {
	if err != nil {
		return result{failed: true}
	}
	return result{n: n, repr: fmt.Sprintf("%q", s)}
}

func ro(o rtmp.ObjectPairArray, n int, err error) result {
	if err != nil {
		return result{failed: true}
	}
	return result{n: n, repr: reprOPA(o)}
}

func rb(out []byte, err error) result {
	// the metadata functions return bytes; n is not a consumed count
	return result{failed: err != nil, repr: string(out)}
}

var readers = []reader{
	{"ReadStringWithoutType", -1, func(b []byte) result { return rs(rtmp.Amf0.ReadStringWithoutType(b)) }},
	{"ReadLongStringWithoutType", -1, func(b []byte) result { return rs(rtmp.Amf0.ReadLongStringWithoutType(b)) }},
	{"ReadString", 0x02, func(b []byte) result { return rs(rtmp.Amf0.ReadString(b)) }},
	{"ReadString(long)", 0x0c, func(b []byte) result { return rs(rtmp.Amf0.ReadString(b)) }},
	{"ReadNumber", 0x00, func(b []byte) result {
		v, n, err := rtmp.Amf0.ReadNumber(b)
		return rs(fmt.Sprintf("%x", math.Float64bits(v)), n, err)
	}},
	{"ReadBoolean", 0x01, func(b []byte) result {
		v, n, err := rtmp.Amf0.ReadBoolean(b)
		return rs(fmt.Sprint(v), n, err)
	}},
	{"ReadNull", 0x05, func(b []byte) result {
		n, err := rtmp.Amf0.ReadNull(b)
		return rs("", n, err)
	}},
	{"ReadUndefinedOrUnsupported", 0x06, func(b []byte) result {
		n, err := rtmp.Amf0.ReadUndefinedOrUnsupported(b)
		return rs("", n, err)
	}},
	{"ReadObject", 0x03, func(b []byte) result { return ro(rtmp.Amf0.ReadObject(b)) }},
	{"ReadArray", 0x08, func(b []byte) result { return ro(rtmp.Amf0.ReadArray(b)) }},
	{"ReadStrictArray", 0x0a, func(b []byte) result { return ro(rtmp.Amf0.ReadStrictArray(b)) }},
	{"ReadObjectOrArray", 0x03, func(b []byte) result { return ro(rtmp.Amf0.ReadObjectOrArray(b)) }},
	{"ReadObjectOrArray(ecma)", 0x08, func(b []byte) result { return ro(rtmp.Amf0.ReadObjectOrArray(b)) }},
	{"ParseMetadata", 0x02, func(b []byte) result {
		o, err := rtmp.ParseMetadata(b)
		return ro(o, 0, err)
	}},
	{"MetadataEnsureWithSdf", 0x02, func(b []byte) result { return rb(rtmp.MetadataEnsureWithSdf(b)) }},
	{"MetadataEnsureWithoutSdf", 0x02, func(b []byte) result { return rb(rtmp.MetadataEnsureWithoutSdf(b)) }},
}

// metadataWrap prefixes the input with a metadata name so that ParseMetadata
// reaches the container reader.
var metaNames = [][]byte{
	rtmpref.EncodeAmf0(rtmpref.Str("onMetaData")),
	rtmpref.EncodeAmf0(rtmpref.Str("@setDataFrame"), rtmpref.Str("onMetaData")),
}

// inSlack returns in as a slice with `slack` bytes of capacity behind it, filled with fill(i).
func inSlack(in []byte, slack int, fill func(i int) byte) []byte {
	back := make([]byte, len(in)+slack)
	copy(back, in)
	for i := len(in); i < len(back); i++ {
		back[i] = fill(i - len(in))
	}
	if slack == 0 {
		return back[:len(in):len(in)]
	}
	return back[:len(in)]
}

// plausible continuation: what an over-reading parser would happily accept
var contBytes = []byte{0x00, 0x00, 0x09, 0x00, 0x00, 0x09, 0x02, 0x00, 0x01, 0x41, 0x00, 0x00, 0x09, 0x05, 0x00, 0x00}

func checkReader(r reader, variant string, in []byte, slack int) *pbt.Violation {
	a := r.f(inSlack(in, slack, func(i int) byte { return contBytes[i%len(contBytes)] }))
	if !a.failed && (a.n < 0 || a.n > len(in)) {
		return pbt.V("totality/"+r.name+"/consumed-out-of-range", "%s input (%d bytes, % x...): reports %d bytes consumed", variant, len(in), head(in, 32), a.n)
	}
	if slack > 0 {
		b := r.f(inSlack(in, slack, func(i int) byte { return 0xFF }))
		if a != b {
			return pbt.V("totality/"+r.name+"/reads-beyond-input", "%s input (%d bytes, % x...): the result depends on the bytes behind the input (capacity %d): ok=%v n=%d vs ok=%v n=%d",
				variant, len(in), head(in, 32), len(in)+slack, !a.failed, a.n, !b.failed, b.n)
		}
	}
	return nil
}

func runTot(c TotCase) *pbt.Violation {
	in := c.input()
	v, stalled := pbt.WithTimeout(20*time.Second, func() *pbt.Violation {
		for _, r := range readers {
			if v := checkReader(r, "plain", in, c.Slack); v != nil {
				return v
			}
			if r.marker >= 0 && len(in) > 0 && int(in[0]) != r.marker {
				forced := append([]byte{byte(r.marker)}, in[1:]...)
				if v := checkReader(r, "marker-forced", forced, c.Slack); v != nil {
					return v
				}
				// marker put in front (keeps the whole input as the reader's body)
				pre := append([]byte{byte(r.marker)}, in...)
				if v := checkReader(r, "marker-prepended", pre, c.Slack); v != nil {
					return v
				}
			}
		}
		// ParseMetadata behind a metadata name
		for _, name := range metaNames {
			wrapped := append(append([]byte{}, name...), in...)
			if v := checkReader(readers[13], "metadata-wrapped", wrapped, c.Slack); v != nil {
				return v
			}
		}
		return nil
	})
	if stalled {
		return pbt.V("totality/no-termination", "readers did not return within 20 s on %d bytes (% x...)", len(in), head(in, 48))
	}
	return v
}

func classifyTot(c TotCase) (bool, []string) {
	labels := []string{"mode=" + c.Mode}
	if c.Slack == 0 {
		labels = append(labels, "cap=len")
	} else {
		labels = append(labels, "cap>len")
	}
	in := c.input()
	switch {
	case len(in) == 0:
		labels = append(labels, "len=0")
	case len(in) < 16:
		labels = append(labels, "len<16")
	case len(in) >= 65536:
		labels = append(labels, "len>=65536")
	}
	// how far does a conforming decoder get?  (coverage information only)
	if _, _, err := rtmpref.DecodeAmf0(in); err == nil {
		labels = append(labels, "still-valid-amf0")
	}
	for _, m := range c.Muts {
		labels = append(labels, fmt.Sprintf("mut-op=%d", m.Op))
	}
	return c.Mode == "mutated" || c.Mode == "cut", uniq(labels)
}

func TestTotality(t *testing.T) {
	if readers[13].name != "ParseMetadata" {
		panic(pbt.HarnessError{Msg: "reader table order changed"})
	}
	pbt.Run(t, pbt.Spec[TotCase]{
		ID: "C18", Name: "totality", Gen: genTot, Run: runTot, Classify: classifyTot,
		Quick: 4000, Thorough: 30000,
	})
}

// ---------------------------------------------------------------------------
// native fuzz target (thorough tier)

// FuzzAmf0Read: totality of every reader on the fuzzer's bytes, plus the
// round-trip oracle whenever the input happens to be the canonical encoding of
// a value tree of depth <= 64 (the domain of sub-property roundtrip).
func FuzzAmf0Read(f *testing.F) {
	seeds := [][]byte{
		{},
		{0x03, 0x00, 0x00, 0x09},
		rtmpref.EncodeAmf0(rtmpref.Str("connect"), rtmpref.Num(1), rtmpref.Obj(rtmpref.M("app", rtmpref.Str("live")), rtmpref.M("fpad", rtmpref.Bool(false)), rtmpref.M("n", rtmpref.Null()))),
		rtmpref.EncodeAmf0(rtmpref.Str("@setDataFrame"), rtmpref.Str("onMetaData"), rtmpref.EcmaArray(rtmpref.M("width", rtmpref.Num(640)), rtmpref.M("s", rtmpref.StrictArray(rtmpref.Num(1), rtmpref.Undefined(), rtmpref.Str("x"))))),
		rtmpref.EncodeAmf0(rtmpref.StrictArray(rtmpref.Obj(rtmpref.M("a", rtmpref.EcmaArray())), rtmpref.LongStr("long"))),
		rtmpref.EncodeAmf0(rtmpref.Obj(rtmpref.M("big", rtmpref.Str(strings.Repeat("x", 65536))))),
		{0x0a, 0xff, 0xff, 0xff, 0xff, 0x06, 0x06},
		{0x08, 0x00, 0x00, 0x00, 0x02, 0x00, 0x01, 0x61, 0x0c, 0x00, 0x00, 0x00, 0x01, 0x62},
	}
	for _, s := range seeds {
		f.Add(s)
	}
	f.Fuzz(func(t *testing.T, in []byte) {
		if len(in) > 1<<20 {
			return
		}
		report := func(v *pbt.Violation) {
			if v != nil {
				t.Fatalf("FUZZ-VIOLATION sig=%s %s", v.Sig, v.Detail)
			}
		}
		report(pbt.Guard(func() *pbt.Violation {
			for _, r := range readers {
				if v := checkReader(r, "fuzz", in, 8); v != nil {
					return v
				}
			}
			return nil
		}))
		// semantic part
		v, n, err := (rtmpref.Amf0Decoder{MaxDepth: lalMaxDepth}).Decode(in)
		if err != nil || !rtmpref.Amf0Canonical(v, in[:n]) || hasUnsupported(v) {
			return
		}
		report(pbt.Guard(func() *pbt.Violation { return lalReadsValue(v, in[:n], in, "fuzz input") }))
	})
}

func hasUnsupported(v rtmpref.Value) bool {
	if v.Kind == rtmpref.KUnsupported {
		return true
	}
	for _, m := range v.Members {
		if hasUnsupported(m.Val) {
			return true
		}
	}
	for _, e := range v.Elems {
		if hasUnsupported(e) {
			return true
		}
	}
	return false
}
