package c18

import (
	"bytes"
	"io"

	"github.com/q191201771/lal/pkg/base"
	"github.com/q191201771/lal/pkg/remux"
	"github.com/q191201771/lal/pkg/rtmp"

	"verif/drv/pbt"
	"verif/ref/flvref"
	"verif/ref/rtmpref"
)

// The relay does not call MetadataEnsureWith/WithoutSdf on its own: it goes
// through remux.LazyRtmpChunkDivider, which adds or strips the prefix AND
// builds the chunk header for the result.  "Adding or stripping the
// @setDataFrame prefix preserves the remaining metadata bytes exactly" has to
// hold for what a peer decodes from those chunks: one message whose declared
// length covers exactly the bytes with / without the prefix, nothing left over.
func checkLazyDivider(in, wantWith, wantWithout []byte, ts uint32, desc string) *pbt.Violation {
	msg := base.RtmpMsg{Header: base.RtmpHeader{Csid: 5, MsgLen: uint32(len(in)), MsgTypeId: base.RtmpTypeIdMetadata, MsgStreamId: 1, TimestampAbs: ts},
		Payload: append([]byte{}, in...)}
	var lcd remux.LazyRtmpChunkDivider
	lcd.Init(msg)
	for _, leg := range []struct {
		name   string
		chunks []byte
		want   []byte
	}{{"with", lcd.GetEnsureWithSdf(), wantWith}, {"without", lcd.GetEnsureWithoutSdf(), wantWithout}} {
		r := rtmpref.NewChunkReader(bytes.NewReader(leg.chunks))
		r.ChunkSize = uint32(rtmp.LocalChunkSize)
		m, err := r.ReadMsg()
		if err != nil {
			return pbt.V("sdf/chunked/"+leg.name+"/undecodable", "%s: the chunks LazyRtmpChunkDivider built (%d bytes) do not decode: %v", desc, len(leg.chunks), err)
		}
		if !bytes.Equal(m.Payload, leg.want) {
			return pbt.V("sdf/chunked/"+leg.name+"/remaining-bytes-changed", "%s: the message decoded from LazyRtmpChunkDivider's chunks has %d bytes, want the %d bytes of the metadata %s prefix (first difference at %d)", desc, len(m.Payload), len(leg.want), leg.name, firstDiff(m.Payload, leg.want))
		}
		if m.TypeID != base.RtmpTypeIdMetadata || m.Ts != ts {
			return pbt.V("sdf/chunked/"+leg.name+"/header", "%s: decoded message has type %d ts %d, want type 18 ts %d", desc, m.TypeID, m.Ts, ts)
		}
		if _, err := r.ReadMsg(); err != io.EOF {
			return pbt.V("sdf/chunked/"+leg.name+"/stray-bytes", "%s: bytes follow the one message in LazyRtmpChunkDivider's output (declared length too short?): %v", desc, err)
		}
	}
	// the FLV side of the relay (http-flv subscribers, flv recording, its gop cache) strips the prefix through
	// remux.LazyRtmpMsg2FlvTag: the script tag's data must be exactly the metadata without the prefix
	var lt remux.LazyRtmpMsg2FlvTag
	lt.Init(msg)
	raw := lt.GetEnsureWithoutSdf()
	tags, rest := flvref.ParseTags(raw)
	if len(tags) != 1 || len(rest) != 0 {
		return pbt.V("sdf/flv-tag/framing", "%s: LazyRtmpMsg2FlvTag produced %d bytes that parse as %d tags + %d left-over bytes, want exactly one tag", desc, len(raw), len(tags), len(rest))
	}
	if !bytes.Equal(tags[0].Data, wantWithout) {
		return pbt.V("sdf/flv-tag/remaining-bytes-changed", "%s: the FLV script tag built by LazyRtmpMsg2FlvTag carries %d bytes, want the %d metadata bytes without the prefix (first difference at %d)", desc, len(tags[0].Data), len(wantWithout), firstDiff(tags[0].Data, wantWithout))
	}
	if tags[0].TypeByte != 18 || tags[0].Timestamp != ts {
		return pbt.V("sdf/flv-tag/header", "%s: FLV tag has type byte %d timestamp %d, want 18 and %d", desc, tags[0].TypeByte, tags[0].Timestamp, ts)
	}
	// the original message must not have been modified (the divider works on a clone)
	if !bytes.Equal(msg.Payload, in) {
		return pbt.V("sdf/chunked/input-modified", "%s: LazyRtmpChunkDivider modified the payload of the message it was given", desc)
	}
	return nil
}
