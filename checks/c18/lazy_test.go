package c18

import (
	"bytes"
	"io"

	"github.com/q191201771/lal/pkg/base"
	"github.com/q191201771/lal/pkg/remux"
	"github.com/q191201771/lal/pkg/rtmp"

	"verif/drv/pbt"
	"verif/ref/rtmpref"
)

// The relay does not call MetadataEnsureWith/WithoutSdf on its own: it goes
// through remux.LazyRtmpChunkDivider, which adds or strips the prefix AND
// builds the chunk header for the result.  "Adding or stripping the
// @setDataFrame prefix preserves the remaining metadata bytes exactly" has to
// hold for what a peer decodes from those chunks: one message whose declared
// length covers exactly the bytes with / without the prefix, nothing left over.
func checkLazyDivider(in, wantWith, wantWithout []byte, ts uint32, desc string) *pbt.Violation {
	msg := base.RtmpMsg{Header: base.RtmpHeader{Csid: 5, MsgLen: uint32(len(in)), MsgTypeId: base.RtmpTypeIdMetadata, MsgStreamId: 1, TimestampAbs: ts},
		Payload: append([]byte{}, in...)}
	var lcd remux.LazyRtmpChunkDivider
	lcd.Init(msg)
	for _, leg := range []struct {
		name   string
		chunks []byte
		want   []byte
	}{{"with", lcd.GetEnsureWithSdf(), wantWith}, {"without", lcd.GetEnsureWithoutSdf(), wantWithout}} {
		r := rtmpref.NewChunkReader(bytes.NewReader(leg.chunks))
		r.ChunkSize = uint32(rtmp.LocalChunkSize)
		m, err := r.ReadMsg()
		if err != nil {
			return pbt.V("sdf/chunked/"+leg.name+"/undecodable", "%s: the chunks LazyRtmpChunkDivider built (%d bytes) do not decode: %v", desc, len(leg.chunks), err)
		}
		if !bytes.Equal(m.Payload, leg.want) {
			return pbt.V("sdf/chunked/"+leg.name+"/remaining-bytes-changed", "%s: the message decoded from LazyRtmpChunkDivider's chunks has %d bytes, want the %d bytes of the metadata %s prefix (first difference at %d)", desc, len(m.Payload), len(leg.want), leg.name, firstDiff(m.Payload, leg.want))
		}
		if m.TypeID != base.RtmpTypeIdMetadata || m.Ts != ts {
			return pbt.V("sdf/chunked/"+leg.name+"/header", "%s: decoded message has type %d ts %d, want type 18 ts %d", desc, m.TypeID, m.Ts, ts)
		}
		if _, err := r.ReadMsg(); err != io.EOF {
			return pbt.V("sdf/chunked/"+leg.name+"/stray-bytes", "%s: bytes follow the one message in LazyRtmpChunkDivider's output (declared length too short?): %v", desc, err)
		}
	}
	// the original message must not have been modified (the divider works on a clone)
	if !bytes.Equal(msg.Payload, in) {
		return pbt.V("sdf/chunked/input-modified", "%s: LazyRtmpChunkDivider modified the payload of the message it was given", desc)
	}
	return nil
}
