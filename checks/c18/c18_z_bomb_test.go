package c18

// sub-property (c): bounded stack.
//
// "Decoding arbitrary bytes ... uses bounded stack", quantified "for all byte
// strings including deeply nested containers up to the 16 MiB message limit".
//
// A nesting bomb is a run of container openers: `03 00 00` (object whose first
// member has the empty key and is again an object), `0a 00 00 00 01` (strict
// array of one element), `08 00 00 00 01 00 00` (ECMA array of one member) or a
// mix.  An RTMP peer can put up to 16 MiB - 1 of it into one command / data
// message, which lal hands to Amf0.ReadObject / ParseMetadata.
//
// Stack exhaustion is a fatal error (not a panic): it cannot be recovered and
// kills the process, so this sub-property sets Isolate (the driver recovers the
// case from the current-case file) and this file sorts last so that the other
// sub-properties have reported before.  debug.SetMaxStack(64 MiB) makes
// exhaustion deterministic and cheap (Go's default limit is 1 GB per goroutine,
// i.e. 16 shards x 1 GB of touched memory before the runtime gives up); it is
// stated in check.json:assumptions.
//
// Oracle: the call returns (value, n <= len) or an error within 60 s and the
// process is still alive.  NOT asserted: which of the two.

import (
	"fmt"
	"os"
	"runtime/debug"
	"testing"
	"time"

	"github.com/q191201771/lal/pkg/rtmp"
	"pgregory.net/rapid"

	"verif/drv/pbt"
	"verif/ref/rtmpref"
)

type BombCase struct {
	// Pattern: container kind per level, repeated: 'o' object, 's' strict array, 'e' ECMA array
	Pattern string `json:"pattern"`
	KeyLen  int    `json:"key_len"` // length of the member keys of 'o' / 'e' levels
	Size    int    `json:"size"`    // length of the bomb in bytes
	Closed  bool   `json:"closed"`  // well-formed: innermost scalar and all end markers present (else truncated)
	// Entry: "direct" (ReadObject / ReadArray / ReadStrictArray by first level), "ObjectOrArray", "ParseMetadata", "ParseMetadata+sdf"
	Entry string `json:"entry"`
}

const maxMsg = 16*1024*1024 - 1 // 24-bit RTMP message length

func genBomb(t *rapid.T) BombCase {
	var c BombCase
	c.Pattern = rapid.SampledFrom([]string{"o", "o", "s", "s", "e", "e", "os", "oe", "oes", "se"}).Draw(t, "pattern")
	c.KeyLen = rapid.SampledFrom([]int{0, 0, 1, 3}).Draw(t, "keyLen")
	if pbt.Thorough() {
		switch cls := rapid.IntRange(0, 9).Draw(t, "sizeClass"); {
		case cls <= 2:
			c.Size = maxMsg
		case cls <= 7:
			c.Size = rapid.IntRange(1<<20, maxMsg).Draw(t, "size")
		default:
			c.Size = rapid.IntRange(1<<10, 1<<20).Draw(t, "size")
		}
	} else {
		// a few MiB sampled; some smaller ones to see where exhaustion starts
		switch cls := rapid.IntRange(0, 9).Draw(t, "sizeClass"); {
		case cls <= 5:
			c.Size = rapid.IntRange(2<<20, 6<<20).Draw(t, "size")
		case cls <= 7:
			c.Size = rapid.IntRange(256<<10, 2<<20).Draw(t, "size")
		default:
			c.Size = rapid.IntRange(1<<10, 256<<10).Draw(t, "size")
		}
	}
	c.Closed = rapid.IntRange(0, 3).Draw(t, "closed") == 0
	entries := []string{"direct", "direct", "ObjectOrArray", "ParseMetadata", "ParseMetadata+sdf"}
	if c.Pattern[0] == 's' {
		entries = entries[:2] // the other entry points take an object / ECMA array
	}
	c.Entry = rapid.SampledFrom(entries).Draw(t, "entry")
	return c
}

func (c BombCase) build() []byte {
	if c.Pattern == "" || c.Size < 0 || c.Size > maxMsg+64 || c.KeyLen < 0 || c.KeyLen > 16 {
		panic(pbt.HarnessError{Msg: fmt.Sprintf("bad bomb case %+v", c)})
	}
	key := make([]byte, 2+c.KeyLen)
	key[1] = byte(c.KeyLen)
	for i := 0; i < c.KeyLen; i++ {
		key[2+i] = 'k'
	}
	unit := func(k byte) []byte {
		switch k {
		case 'o':
			return append([]byte{0x03}, key...)
		case 'e':
			return append([]byte{0x08, 0, 0, 0, 1}, key...)
		case 's':
			return []byte{0x0a, 0, 0, 0, 1}
		}
		panic(pbt.HarnessError{Msg: "bad bomb pattern " + c.Pattern})
	}
	closer := func(k byte) []byte {
		if k == 's' {
			return nil
		}
		return []byte{0, 0, 9}
	}
	budget := c.Size
	out := make([]byte, 0, c.Size+16)
	var kinds []byte
	for i := 0; ; i++ {
		k := c.Pattern[i%len(c.Pattern)]
		u := unit(k)
		need := len(u)
		if c.Closed {
			need += len(closer(k))
		}
		if budget < need+1 {
			break
		}
		budget -= need
		out = append(out, u...)
		if c.Closed {
			kinds = append(kinds, k)
		}
	}
	if c.Closed {
		out = append(out, 0x05) // innermost value: null
		for i := len(kinds) - 1; i >= 0; i-- {
			out = append(out, closer(kinds[i])...)
		}
	}
	return out
}

func (c BombCase) levels() int {
	per := 0
	for i := 0; i < len(c.Pattern); i++ {
		switch c.Pattern[i] {
		case 'o':
			per += 3 + c.KeyLen
		case 'e':
			per += 7 + c.KeyLen
		case 's':
			per += 5
		}
		if c.Closed && c.Pattern[i] != 's' {
			per += 3
		}
	}
	return c.Size / per * len(c.Pattern)
}

func runBomb(c BombCase) *pbt.Violation {
	bomb := c.build()
	in := bomb
	type f3 func([]byte) (rtmp.ObjectPairArray, int, error)
	var call f3
	name := ""
	switch c.Entry {
	case "direct":
		switch c.Pattern[0] {
		case 'o':
			name, call = "ReadObject", rtmp.Amf0.ReadObject
		case 'e':
			name, call = "ReadArray", rtmp.Amf0.ReadArray
		case 's':
			name, call = "ReadStrictArray", rtmp.Amf0.ReadStrictArray
		}
	case "ObjectOrArray":
		name, call = "ReadObjectOrArray", rtmp.Amf0.ReadObjectOrArray
	case "ParseMetadata", "ParseMetadata+sdf":
		name = "ParseMetadata"
		pre := rtmpref.EncodeAmf0(rtmpref.Str("onMetaData"))
		if c.Entry == "ParseMetadata+sdf" {
			pre = rtmpref.EncodeAmf0(rtmpref.Str("@setDataFrame"), rtmpref.Str("onMetaData"))
		}
		in = append(pre, bomb...)
		call = func(b []byte) (rtmp.ObjectPairArray, int, error) {
			o, err := rtmp.ParseMetadata(b)
			return o, 0, err
		}
	}
	if call == nil {
		panic(pbt.HarnessError{Msg: fmt.Sprintf("bad bomb entry %+v", c)})
	}
	v, stalled := pbt.WithTimeout(60*time.Second, func() *pbt.Violation {
		_, n, err := call(in)
		if err == nil && (n < 0 || n > len(in)) {
			return pbt.V("bomb/"+name+"/consumed-out-of-range", "%d-byte bomb (%s, ~%d levels): reports %d bytes consumed", len(in), c.Pattern, c.levels(), n)
		}
		return nil
	})
	if stalled {
		return pbt.V("bomb/"+name+"/no-termination", "%d-byte bomb (%s, ~%d levels): no result within 60 s", len(in), c.Pattern, c.levels())
	}
	return v
}

func classifyBomb(c BombCase) (bool, []string) {
	labels := []string{"pattern=" + c.Pattern, "entry=" + c.Entry}
	switch {
	case c.Size >= 15<<20:
		labels = append(labels, "size>=15MiB")
	case c.Size >= 2<<20:
		labels = append(labels, "size>=2MiB")
	case c.Size >= 64<<10:
		labels = append(labels, "size>=64KiB")
	default:
		labels = append(labels, "size<64KiB")
	}
	if c.Closed {
		labels = append(labels, "well-formed")
	} else {
		labels = append(labels, "truncated")
	}
	return c.levels() >= 1000, labels
}

func TestZNestingBomb(t *testing.T) {
	// deterministic, cheap exhaustion instead of Go's 1 GB default
	// (C18_DEFAULT_STACK=1 keeps the default, to confirm a finding under the stock runtime limit)
	if os.Getenv("C18_DEFAULT_STACK") == "" {
		prev := debug.SetMaxStack(64 << 20)
		defer debug.SetMaxStack(prev)
	}
	pbt.Run(t, pbt.Spec[BombCase]{
		ID: "C18", Name: "nesting-bomb", Gen: genBomb, Run: runBomb, Classify: classifyBomb,
		Quick: 24, Thorough: 60, Isolate: true,
	})
}
