package c17

// A copy of harness/stub/rtmpstub.go (the scripted RTMP origin / push target) with one change: it listens on a loopback
// address that is private to this test process (127.17.x.y derived from the pid) instead of 127.0.0.1.  On a machine
// where other checks run at the same time, relay sessions of a foreign lal instance keep dialling 127.0.0.1:<port> of a
// stub that is long gone; when the kernel hands that port to one of this check's stubs, the foreign connection is
// counted as an attempt nobody asked for (seen once in 42000 thorough cases).  Nothing dials 127.17.x.y but the lal
// instance under test.

import (
	"fmt"
	"io"
	"net"
	"os"
	"sync"
	"time"

	"verif/ref/rtmpref"
)

// RtmpStub listens on 127.0.0.1:<free port>.
type RtmpStub struct {
	ln   net.Listener
	Addr string
	mu   sync.Mutex
	all  []*Conn
	ch   chan *Conn
	done chan struct{}
}

func NewRtmpStub() (*RtmpStub, error) {
	ln, err := net.Listen("tcp", privateLoopback()+":0")
	if err != nil {
		return nil, err
	}
	s := &RtmpStub{ln: ln, Addr: ln.Addr().String(), ch: make(chan *Conn, 256), done: make(chan struct{})}
	go func() {
		for {
			c, err := ln.Accept()
			if err != nil {
				close(s.done)
				return
			}
			sc := &Conn{Conn: c, w: rtmpref.NewChunkWriter(128), r: rtmpref.NewChunkReader(c), closed: make(chan struct{})}
			s.mu.Lock()
			sc.Index = len(s.all)
			s.all = append(s.all, sc)
			s.mu.Unlock()
			s.ch <- sc
		}
	}()
	return s, nil
}

// Accept returns the next incoming connection, or nil after timeout.
func (s *RtmpStub) Accept(timeout time.Duration) *Conn {
	select {
	case c := <-s.ch:
		return c
	case <-time.After(timeout):
		return nil
	}
}

// TryAccept returns a queued connection without waiting.
func (s *RtmpStub) TryAccept() *Conn {
	select {
	case c := <-s.ch:
		return c
	default:
		return nil
	}
}

// Attempts is the number of TCP connections accepted so far.
func (s *RtmpStub) Attempts() int {
	s.mu.Lock()
	defer s.mu.Unlock()
	return len(s.all)
}

// Conns returns all connections accepted so far.
func (s *RtmpStub) Conns() []*Conn {
	s.mu.Lock()
	defer s.mu.Unlock()
	return append([]*Conn(nil), s.all...)
}

// Close stops listening and closes every connection.
func (s *RtmpStub) Close() {
	_ = s.ln.Close()
	for _, c := range s.Conns() {
		c.Close()
	}
	<-s.done
}

// Conn is one connection accepted by the stub.
type Conn struct {
	Conn  net.Conn
	Index int
	w     *rtmpref.ChunkWriter
	r     *rtmpref.ChunkReader
	// what the peer asked for
	App        string
	TcURL      string
	Command    string // "play" | "publish"
	StreamName string // as sent, including ?query
	mu         sync.Mutex
	closeOnce  sync.Once
	closed     chan struct{}
	peerEOF    bool
	Media      []rtmpref.Msg
}

// Close closes the connection.
func (c *Conn) Close() {
	c.closeOnce.Do(func() { _ = c.Conn.Close(); close(c.closed) })
}

// Handshake performs the server side of the simple handshake.
func (c *Conn) Handshake() error {
	_ = c.Conn.SetDeadline(time.Now().Add(10 * time.Second))
	defer c.Conn.SetDeadline(time.Time{})
	c0c1 := make([]byte, 1537)
	if _, err := io.ReadFull(c.Conn, c0c1); err != nil {
		return err
	}
	s := make([]byte, 1+1536+1536)
	s[0] = 3
	copy(s[1+1536:], c0c1[1:]) // s2 echoes c1
	if _, err := c.Conn.Write(s); err != nil {
		return err
	}
	c2 := make([]byte, 1536)
	_, err := io.ReadFull(c.Conn, c2)
	return err
}

func (c *Conn) send(m rtmpref.Msg) error {
	_, err := c.Conn.Write(c.w.WriteMsg(m, 0))
	return err
}

func cmd(name string, tid float64, vals ...rtmpref.Value) rtmpref.Msg {
	vs := append([]rtmpref.Value{rtmpref.Str(name), rtmpref.Num(tid)}, vals...)
	return rtmpref.Msg{Csid: 3, TypeID: rtmpref.TypeCmdAmf0, Payload: rtmpref.EncodeAmf0(vs...)}
}

// ServeUntilPlayOrPublish answers connect and createStream and returns when
// the peer sends play or publish (recorded in Command / StreamName).
func (c *Conn) ServeUntilPlayOrPublish() error {
	_ = c.Conn.SetReadDeadline(time.Now().Add(10 * time.Second))
	defer c.Conn.SetReadDeadline(time.Time{})
	for {
		m, err := c.r.ReadMsg()
		if err != nil {
			return err
		}
		if m.TypeID != rtmpref.TypeCmdAmf0 {
			continue
		}
		vals, err := rtmpref.DecodeAmf0All(m.Payload)
		if err != nil || len(vals) < 2 {
			return fmt.Errorf("stub: undecodable command: %v", err)
		}
		name, tid := vals[0].Str, vals[1].Num
		switch name {
		case "connect":
			if len(vals) >= 3 {
				c.App, _ = vals[2].GetString("app")
				c.TcURL, _ = vals[2].GetString("tcUrl")
			}
			if err := c.send(cmd("_result", tid,
				rtmpref.Obj(rtmpref.M("fmsVer", rtmpref.Str("FMS/3,0,1,123")), rtmpref.M("capabilities", rtmpref.Num(31))),
				rtmpref.Obj(rtmpref.M("level", rtmpref.Str("status")), rtmpref.M("code", rtmpref.Str("NetConnection.Connect.Success")), rtmpref.M("description", rtmpref.Str("Connection succeeded.")), rtmpref.M("objectEncoding", rtmpref.Num(0))))); err != nil {
				return err
			}
		case "createStream":
			if err := c.send(cmd("_result", tid, rtmpref.Null(), rtmpref.Num(1))); err != nil {
				return err
			}
		case "play", "publish":
			c.Command = name
			if len(vals) >= 4 {
				c.StreamName = vals[3].Str
			}
			return nil
		}
	}
}

// AcceptPlay sends onStatus(NetStream.Play.Start).
func (c *Conn) AcceptPlay() error {
	m := cmd("onStatus", 0, rtmpref.Null(), rtmpref.Obj(rtmpref.M("level", rtmpref.Str("status")), rtmpref.M("code", rtmpref.Str("NetStream.Play.Start")), rtmpref.M("description", rtmpref.Str("Start live"))))
	m.Csid, m.StreamID = 5, 1
	return c.send(m)
}

// AcceptPublish sends onStatus(NetStream.Publish.Start).
func (c *Conn) AcceptPublish() error {
	m := cmd("onStatus", 0, rtmpref.Null(), rtmpref.Obj(rtmpref.M("level", rtmpref.Str("status")), rtmpref.M("code", rtmpref.Str("NetStream.Publish.Start")), rtmpref.M("description", rtmpref.Str("Start publishing"))))
	m.Csid, m.StreamID = 5, 1
	return c.send(m)
}

// SendMedia sends an audio/video/data message to the peer (origin role).
func (c *Conn) SendMedia(typ uint8, ts uint32, payload []byte) error {
	csid := 6
	if typ == rtmpref.TypeAudio {
		csid = 4
	} else if typ == rtmpref.TypeDataAmf0 {
		csid = 5
	}
	return c.send(rtmpref.Msg{Csid: csid, TypeID: typ, StreamID: 1, Ts: ts, Payload: payload})
}

// CollectMedia reads messages until EOF / error (push-target role), storing
// audio, video and data messages in Media.  It returns when the peer closes.
func (c *Conn) CollectMedia() {
	for {
		m, err := c.r.ReadMsg()
		if err != nil {
			c.mu.Lock()
			c.peerEOF = true
			c.mu.Unlock()
			return
		}
		if m.TypeID == rtmpref.TypeAudio || m.TypeID == rtmpref.TypeVideo || m.TypeID == rtmpref.TypeDataAmf0 {
			c.mu.Lock()
			c.Media = append(c.Media, m)
			c.mu.Unlock()
		}
	}
}

// MediaSnapshot returns a copy of the collected media.
func (c *Conn) MediaSnapshot() []rtmpref.Msg {
	c.mu.Lock()
	defer c.mu.Unlock()
	return append([]rtmpref.Msg(nil), c.Media...)
}

// PeerClosed reports whether the peer's side reached EOF (set by CollectMedia / WaitPeerClose).
func (c *Conn) PeerClosed() bool {
	c.mu.Lock()
	defer c.mu.Unlock()
	return c.peerEOF
}

// WaitPeerClose reads and discards until the peer closes or the timeout expires.
func (c *Conn) WaitPeerClose(timeout time.Duration) bool {
	_ = c.Conn.SetReadDeadline(time.Now().Add(timeout))
	defer c.Conn.SetReadDeadline(time.Time{})
	buf := make([]byte, 4096)
	for {
		_, err := c.Conn.Read(buf)
		if err != nil {
			if ne, ok := err.(net.Error); ok && ne.Timeout() {
				return false
			}
			c.mu.Lock()
			c.peerEOF = true
			c.mu.Unlock()
			return true
		}
	}
}

// privateLoopback returns an address in 127.17.0.0/16 chosen by the process id.
func privateLoopback() string {
	pid := os.Getpid()
	return fmt.Sprintf("127.17.%d.%d", pid>>8&0xff, pid&0xff)
}
