package c17

// A minimal scripted RTSP origin for relay pulls: a loopback TCP listener whose behaviour per connection is decided by
// the test, like harness/stub's RTMP peer.  It answers OPTIONS at once, keeps DESCRIBE unanswered until the test
// releases it (the counterpart of the RTMP stub's held play answer: lal attaches an RTSP pull when the DESCRIBE answer
// arrives), then serves SETUP (interleaved) and PLAY on its own.  The SDP comes from ref/rtspref.  It sends no media:
// what lal makes of RTSP ingest is C07's subject.

import (
	"bufio"
	"fmt"
	"net"
	"strconv"
	"strings"
	"sync"
	"time"
)

type rtspOrigin struct {
	ln   net.Listener
	Addr string
	mu   sync.Mutex
	all  []*rtspOConn
	ch   chan *rtspOConn
	done chan struct{}
}

func newRtspOrigin() (*rtspOrigin, error) {
	ln, err := net.Listen("tcp", privateLoopback()+":0")
	if err != nil {
		return nil, err
	}
	o := &rtspOrigin{ln: ln, Addr: ln.Addr().String(), ch: make(chan *rtspOConn, 256), done: make(chan struct{})}
	go func() {
		for {
			c, err := ln.Accept()
			if err != nil {
				close(o.done)
				return
			}
			oc := &rtspOConn{c: c, r: bufio.NewReader(c), gone: make(chan struct{}), played: make(chan struct{})}
			o.mu.Lock()
			o.all = append(o.all, oc)
			o.mu.Unlock()
			o.ch <- oc
		}
	}()
	return o, nil
}

func (o *rtspOrigin) TryAccept() *rtspOConn {
	select {
	case c := <-o.ch:
		return c
	default:
		return nil
	}
}

func (o *rtspOrigin) Attempts() int {
	o.mu.Lock()
	defer o.mu.Unlock()
	return len(o.all)
}

func (o *rtspOrigin) Close() {
	_ = o.ln.Close()
	o.mu.Lock()
	all := append([]*rtspOConn(nil), o.all...)
	o.mu.Unlock()
	for _, c := range all {
		c.Close()
	}
	<-o.done
}

type rtspOConn struct {
	c           net.Conn
	r           *bufio.Reader
	DescribeURI string
	describeSeq string
	closeOnce   sync.Once
	serving     bool          // the background goroutine owns the reader
	gone        chan struct{} // closed when the background goroutine saw the peer close
	goneOnce    sync.Once
	played      chan struct{} // closed when PLAY has been answered
}

func (c *rtspOConn) Close() { c.closeOnce.Do(func() { _ = c.c.Close() }) }

type rtspReq struct {
	method, uri string
	hdr         map[string]string
}

// readRequest reads one RTSP request, skipping interleaved frames.
func (c *rtspOConn) readRequest() (rtspReq, error) {
	for {
		b, err := c.r.Peek(1)
		if err != nil {
			return rtspReq{}, err
		}
		if b[0] == '$' {
			h := make([]byte, 4)
			if _, err := readFull(c.r, h); err != nil {
				return rtspReq{}, err
			}
			if _, err := c.r.Discard(int(h[2])<<8 | int(h[3])); err != nil {
				return rtspReq{}, err
			}
			continue
		}
		break
	}
	line, err := c.r.ReadString('\n')
	if err != nil {
		return rtspReq{}, err
	}
	f := strings.Fields(line)
	if len(f) < 3 {
		return rtspReq{}, fmt.Errorf("rtsp origin: bad request line %q", line)
	}
	rq := rtspReq{method: f[0], uri: f[1], hdr: map[string]string{}}
	for {
		l, err := c.r.ReadString('\n')
		if err != nil {
			return rtspReq{}, err
		}
		l = strings.TrimRight(l, "\r\n")
		if l == "" {
			break
		}
		if i := strings.IndexByte(l, ':'); i > 0 {
			rq.hdr[strings.ToLower(strings.TrimSpace(l[:i]))] = strings.TrimSpace(l[i+1:])
		}
	}
	if n, _ := strconv.Atoi(rq.hdr["content-length"]); n > 0 {
		if _, err := c.r.Discard(n); err != nil {
			return rtspReq{}, err
		}
	}
	return rq, nil
}

func readFull(r *bufio.Reader, b []byte) (int, error) {
	n := 0
	for n < len(b) {
		m, err := r.Read(b[n:])
		n += m
		if err != nil {
			return n, err
		}
	}
	return n, nil
}

func (c *rtspOConn) reply(cseq string, hdr [][2]string, body []byte) error {
	var b strings.Builder
	fmt.Fprintf(&b, "RTSP/1.0 200 OK\r\nCSeq: %s\r\n", cseq)
	for _, h := range hdr {
		fmt.Fprintf(&b, "%s: %s\r\n", h[0], h[1])
	}
	if len(body) > 0 {
		fmt.Fprintf(&b, "Content-Length: %d\r\n", len(body))
	}
	b.WriteString("\r\n")
	_, err := c.c.Write(append([]byte(b.String()), body...))
	return err
}

// ServeUntilDescribe answers OPTIONS and returns when DESCRIBE has arrived (left unanswered).
func (c *rtspOConn) ServeUntilDescribe() error {
	_ = c.c.SetReadDeadline(time.Now().Add(10 * time.Second))
	defer c.c.SetReadDeadline(time.Time{})
	for {
		rq, err := c.readRequest()
		if err != nil {
			return err
		}
		switch rq.method {
		case "OPTIONS":
			if err := c.reply(rq.hdr["cseq"], [][2]string{{"Public", "DESCRIBE, SETUP, TEARDOWN, PLAY"}}, nil); err != nil {
				return err
			}
		case "DESCRIBE":
			c.DescribeURI, c.describeSeq = rq.uri, rq.hdr["cseq"]
			return nil
		default:
			return fmt.Errorf("rtsp origin: %s before DESCRIBE", rq.method)
		}
	}
}

// AnswerDescribe releases the DESCRIBE answer and serves SETUP / PLAY / whatever follows in the background.
func (c *rtspOConn) AnswerDescribe(sdp []byte) error {
	if err := c.reply(c.describeSeq, [][2]string{{"Content-Type", "application/sdp"}, {"Content-Base", c.DescribeURI + "/"}}, sdp); err != nil {
		return err
	}
	c.serving = true
	go func() {
		defer c.goneOnce.Do(func() { close(c.gone) })
		for {
			rq, err := c.readRequest()
			if err != nil {
				return
			}
			switch rq.method {
			case "SETUP":
				err = c.reply(rq.hdr["cseq"], [][2]string{{"Transport", rq.hdr["transport"]}, {"Session", "c17origin"}}, nil)
			case "PLAY":
				err = c.reply(rq.hdr["cseq"], [][2]string{{"Session", "c17origin"}, {"Range", "npt=0.000-"}}, nil)
				if err == nil {
					select {
					case <-c.played:
					default:
						close(c.played)
					}
				}
			default:
				err = c.reply(rq.hdr["cseq"], nil, nil)
			}
			if err != nil {
				return
			}
		}
	}()
	return nil
}

// WaitPeerClose reports whether lal has closed the connection (waiting at most d).
func (c *rtspOConn) WaitPeerClose(d time.Duration) bool {
	if c.serving {
		select {
		case <-c.gone:
			return true
		case <-time.After(d):
			return false
		}
	}
	_ = c.c.SetReadDeadline(time.Now().Add(d))
	defer c.c.SetReadDeadline(time.Time{})
	buf := make([]byte, 1024)
	for {
		if _, err := c.r.Read(buf); err != nil {
			if ne, ok := err.(net.Error); ok && ne.Timeout() {
				return false
			}
			return true
		}
	}
}
