// C17 — relay pull and push start, retry and stop exactly when their rules say.
//
// Two model-based sub-properties against a real in-process lal server whose
// relay sessions dial scripted stub peers on loopback (harness/stub).  The
// harness owns the clock of the rules: it calls Group.Tick itself.
//
// pull-rules: a generated history (subscribers joining / leaving, API start /
// stop / kick, ticks, real sleeps around the auto-stop window, a publisher
// arriving, the origin's answer per attempt released by a later action) is
// applied to lal and to a reference state machine written from the property
// text.  After every action and quiescence:
//   - the origin has seen exactly the connection attempts the model demands:
//     one at a trigger (API start, subscriber arrival, tick) iff the pull is
//     enabled, the stream has no input, no attempt is in flight, the retry
//     budget is not used up and - with auto-stop - a consumer was seen within
//     the window; none otherwise,
//   - an attached pull session is closed when the window has expired at a
//     tick, on API stop and on kick; a pull that was stopped through the API
//     while its attempt was still connecting never becomes the stream's input,
//   - every API answer (error code, session id) says what happened.
//
// push-rules: 1-3 stub targets, some refusing their first attempts, some
// holding the publish answer until the harness releases it (after the
// publisher has left, or after the next publisher has been accepted + ticks:
// never a second connection to a target whose attempt is still unanswered); RTMP publishers with URL parameters of
// 0-4000 bytes and RTSP publishers, one or two incarnations.  Exactly one
// session per target, refused targets re-attempted on later ticks, the
// publish command carries stream?params byte for byte, the target receives
// the sequence headers and a marker, sessions end with the publisher, nothing
// is dialled without a publisher.
//
// Audit follow-up (audit-1 entries 1 and 5): pulls use rtmp:// or rtsp:// urls
// (rtsporigin_test.go scripts the RTSP origin), consumers are RTMP / FLV / TS /
// RTSP-at-DESCRIBE, publishers RTMP / RTSP / customize, an attempt reported as
// stopped that never reached the origin is a missing attempt, and the push
// target's content is judged message by message (order, once, timestamps,
// @setDataFrame on metadata) for RTMP and RTSP publishers.
//
// Audit-2 follow-up: push sessions also attach MID-STREAM (answer held until the
// early part of the content is out, refusal then retry, hang-up of an
// established target then re-attach): prologue + cached GOP + continuation are
// judged exactly; an undecodable HTTP-API answer is a violation.
//
// Deliberately NOT asserted: wall-clock spacing of retries; budgets other than
// {0, 1..3, -1}; sub-tick precision of the auto-stop window (presence is
// sampled at ticks - the only clock the rules have - and a stream that never
// had a consumer counts from its creation); what a second API start does to
// the budget of a pull that is still enabled and exhausted (skipped); kicks of
// anything but pull sessions (C03); media content beyond headers + marker
// (C01); admission of publishers (C03).  A case in which the harness itself
// was too slow for lal's pull timeout / the auto-stop window is abandoned and
// counted, never reported.
package c17

import (
	"bytes"
	"encoding/json"
	"fmt"
	"io"
	"net"
	"net/http"
	"net/url"
	"strings"
	"sync"
	"testing"
	"time"

	"github.com/q191201771/lal/pkg/base"
	"github.com/q191201771/lal/pkg/logic"
	"pgregory.net/rapid"

	"verif/drv/pbt"
	"verif/gen"
	"verif/harness/inproc"
	"verif/harness/lalclient"
	"verif/harness/memconn"
	"verif/ref/rtmpref"
	"verif/ref/rtpref"
	"verif/ref/rtspref"
	"verif/ref/sdpref"
)

// longWait bounds every wait for something lal must do promptly (healthy: milliseconds).
const longWait = 30 * time.Second

// patience decides when waiting any longer for lal is pointless.  The hard limit is longWait (after notBefore, the time
// lal is entitled to, e.g. its pull timeout).  The wait may end earlier - never before 2 s - once this process has
// proven responsive twice, a second apart: a goroutine spawned now dials a private loopback listener and gets a byte
// echoed, three times in a row, each within 100 ms.  What lal still owes then (a goroutine it spawned seconds ago
// dialling loopback, closing a socket, queueing a notification) is the same kind of work, so it is stuck, not slow.
// On an overloaded machine the probes fail, the full longWait applies and its expiry alone is never a violation (the
// case is abandoned).
type patience struct {
	start     time.Time
	notBefore time.Duration
	lastProbe time.Time
	ok        int
	proven    bool // the wait ended because the process proved responsive, not because the hard limit passed
}

// abandonV is returned instead of a violation when a wait ran into the hard limit without the process ever proving
// responsive (machine stalled / overloaded): the case is abandoned and counted, never reported.
var abandonV = &pbt.Violation{Sig: "abandoned"}

// verdict turns an expired wait into the violation v - if the expiry is corroborated by responsiveness.
func (p *patience) verdict(v *pbt.Violation) *pbt.Violation {
	if p.proven {
		return v
	}
	return abandonV
}

func newPatience(notBefore time.Duration) *patience {
	return &patience{start: time.Now(), notBefore: notBefore}
}

func (p *patience) waited() time.Duration { return time.Since(p.start).Round(time.Millisecond) }

func (p *patience) over() bool {
	el := time.Since(p.start)
	if el > p.notBefore+longWait {
		return true
	}
	if el < p.notBefore+2*time.Second || time.Since(p.lastProbe) < time.Second {
		return false
	}
	p.lastProbe = time.Now()
	if responsive() {
		p.ok++
	} else {
		p.ok = 0
	}
	p.proven = p.ok >= 2
	return p.proven
}

// patient polls cond until it holds or patience is over.
func patient(p *patience, cond func() bool) bool {
	for {
		if cond() {
			return true
		}
		if p.over() {
			return cond()
		}
		time.Sleep(300 * time.Microsecond)
	}
}

var probe struct {
	once sync.Once
	addr string
}

func responsive() bool {
	probe.once.Do(func() {
		ln, err := net.Listen("tcp", "127.0.0.1:0")
		if err != nil {
			return
		}
		probe.addr = ln.Addr().String()
		go func() {
			for {
				c, err := ln.Accept()
				if err != nil {
					return
				}
				go func() {
					b := make([]byte, 1)
					if _, err := c.Read(b); err == nil {
						_, _ = c.Write(b)
					}
					_ = c.Close()
				}()
			}
		}()
	})
	if probe.addr == "" {
		return false
	}
	for i := 0; i < 3; i++ {
		done := make(chan bool, 1)
		t0 := time.Now()
		go func() {
			c, err := net.Dial("tcp", probe.addr)
			if err != nil {
				done <- false
				return
			}
			defer c.Close()
			_, _ = c.Write([]byte{1})
			b := make([]byte, 1)
			_, err = c.Read(b)
			done <- err == nil
		}()
		select {
		case ok := <-done:
			if !ok || time.Since(t0) > 100*time.Millisecond {
				return false
			}
		case <-time.After(100 * time.Millisecond):
			return false
		}
	}
	return true
}

func acceptPatient(st *RtmpStub, p *patience) *Conn {
	var c *Conn
	patient(p, func() bool { c = st.TryAccept(); return c != nil })
	return c
}

func closedPatient(c interface{ WaitPeerClose(time.Duration) bool }, p *patience) bool {
	for !c.WaitPeerClose(100 * time.Millisecond) {
		if p.over() {
			return c.WaitPeerClose(time.Millisecond)
		}
	}
	return true
}

// =====================================================================================================
// push-rules
// =====================================================================================================

type Target struct {
	Refuse int  `json:"refuse,omitempty"` // attempts closed by the target before it accepts one
	Hold   bool `json:"hold,omitempty"`   // the answer to publish is held back until the publisher has left
	// HoldMid: the answer to publish is held back until the publisher has sent the early part of its stream: the session
	// attaches mid-stream
	HoldMid bool `json:"hold_mid,omitempty"`
	// DropAfter: once established and the early part sent, the target closes the connection; lal must re-attach on a
	// later tick
	DropAfter bool `json:"drop_after,omitempty"`
}

type PubSpec struct {
	Kind      string `json:"kind"` // rtmp | rtsp
	ParamLen  int    `json:"param_len,omitempty"`
	ParamSeed uint32 `json:"param_seed,omitempty"`
	LeaveAt   int    `json:"leave_at,omitempty"` // 0: after every target is established; 1: right after the first round of attempts
	Intruder  bool   `json:"intruder,omitempty"` // a second publisher is offered (and refused) while this one is accepted
	Ticks     int    `json:"ticks,omitempty"`    // extra ticks once established and once gone
	// HandOver: attempts that a target still holds unanswered when this publisher leaves stay unanswered until the NEXT
	// publisher has been accepted (and HandOverTicks ticks have passed); only then the target answers publish.
	HandOver      bool `json:"hand_over,omitempty"`
	HandOverTicks int  `json:"hand_over_ticks,omitempty"`
	// content published once every target is established: metadata (with or without its own @setDataFrame prefix),
	// sequence headers, Frames numbered frames with drawn timestamp gaps, optionally a second metadata before frame MetaAt
	Frames      int    `json:"frames,omitempty"`
	ContentSeed uint32 `json:"content_seed,omitempty"`
	MetaSdf     bool   `json:"meta_sdf,omitempty"`
	MetaAt      int    `json:"meta_at,omitempty"` // 0 = no second metadata; k = before frame k
	// Early: frames 0..Early-1 (and what precedes frame Early) are published BEFORE held-mid / refused / dropped targets
	// get their session: those sessions attach mid-stream and must be served lal's cached GOP first.  KeyAt > 0 makes
	// frame KeyAt a second video key frame (a second GOP).
	Early int `json:"early,omitempty"`
	KeyAt int `json:"key_at,omitempty"`
}

type PushCase struct {
	Targets []Target  `json:"targets"`
	Pubs    []PubSpec `json:"pubs"`
}

func genParamLen(t *rapid.T) int {
	switch rapid.IntRange(0, 9).Draw(t, "plClass") {
	case 0, 1:
		return 0
	case 2:
		return rapid.IntRange(1, 50).Draw(t, "pl")
	case 3:
		return rapid.IntRange(51, 200).Draw(t, "pl")
	case 4:
		return rapid.IntRange(201, 469).Draw(t, "pl")
	case 5, 6:
		return rapid.IntRange(470, 1000).Draw(t, "pl")
	case 7:
		return rapid.SampledFrom([]int{199, 200, 201, 213, 214, 215, 468, 469, 470, 471, 980, 981, 3990, 3999, 4000}).Draw(t, "pl")
	default:
		return rapid.IntRange(1001, 4000).Draw(t, "pl")
	}
}

func genPushCase(t *rapid.T) PushCase {
	var c PushCase
	nt := rapid.SampledFrom([]int{1, 1, 2, 2, 3}).Draw(t, "ntargets")
	for i := 0; i < nt; i++ {
		tg := Target{Refuse: rapid.SampledFrom([]int{0, 0, 0, 1, 1, 2}).Draw(t, "refuse")}
		if tg.Refuse == 0 && rapid.IntRange(0, 3).Draw(t, "hold") == 0 {
			tg.Hold = true
		} else if tg.Refuse == 0 && rapid.IntRange(0, 2).Draw(t, "holdMid") == 0 {
			tg.HoldMid = true
		}
		if !tg.Hold && rapid.IntRange(0, 3).Draw(t, "drop") == 0 {
			tg.DropAfter = true
		}
		c.Targets = append(c.Targets, tg)
	}
	np := rapid.SampledFrom([]int{1, 1, 2, 2, 2, 3}).Draw(t, "npubs")
	for i := 0; i < np; i++ {
		p := PubSpec{Kind: rapid.SampledFrom([]string{"rtmp", "rtmp", "rtmp", "rtsp"}).Draw(t, "pubKind")}
		if p.Kind == "rtmp" {
			p.ParamLen = genParamLen(t)
			p.ParamSeed = rapid.Uint32Range(1, 1<<20).Draw(t, "pseed")
		}
		p.LeaveAt = rapid.SampledFrom([]int{0, 0, 0, 1}).Draw(t, "leaveAt")
		p.Intruder = rapid.IntRange(0, 4).Draw(t, "intruder") == 0
		p.Ticks = rapid.IntRange(0, 3).Draw(t, "ticks")
		p.Frames = rapid.IntRange(3, 9).Draw(t, "frames")
		p.ContentSeed = rapid.Uint32Range(1, 1<<20).Draw(t, "cseed")
		if p.Kind == "rtmp" {
			p.MetaSdf = rapid.Bool().Draw(t, "metaSdf")
			if rapid.Bool().Draw(t, "meta2") {
				p.MetaAt = rapid.IntRange(1, p.Frames-1).Draw(t, "metaAt")
			}
			if rapid.IntRange(0, 3).Draw(t, "earlyClass") > 0 {
				p.Early = rapid.IntRange(1, p.Frames-1).Draw(t, "early")
			}
			if rapid.Bool().Draw(t, "key2") {
				p.KeyAt = rapid.IntRange(1, p.Frames-1).Draw(t, "keyAt")
			}
		}
		if i+1 < np && rapid.Bool().Draw(t, "handOver") {
			p.HandOver = true
			p.HandOverTicks = rapid.IntRange(0, 3).Draw(t, "handOverTicks")
		}
		c.Pubs = append(c.Pubs, p)
	}
	return c
}

// params builds n bytes of URL parameters (k=v&k=v...) from characters that every URL parser keeps verbatim.
func params(seed uint32, n int) string {
	if n <= 0 {
		return ""
	}
	const al = "abcdefghijklmnopqrstuvwxyzABCDEFGHIJKLMNOPQRSTUVWXYZ0123456789_-."
	raw := gen.Bytes(seed, n)
	out := make([]byte, n)
	for i := range out {
		out[i] = al[int(raw[i])%len(al)]
	}
	// sprinkle separators, never at the ends, never adjacent
	for i := 1; i+1 < n; i++ {
		switch {
		case i%11 == 3:
			out[i] = '='
		case i%11 == 9:
			out[i] = '&'
		}
	}
	return string(out)
}

type pushTarget struct {
	spec        Target
	st          *RtmpStub
	refuseLeft  int
	live        *Conn // the session that is being set up or is established
	established bool
	held        bool
	expected    int  // connections the rules demand so far
	allow       int  // retries a first-round tick of the harness may have caused and nobody has consumed yet
	mid         bool // the publish answer is held until the early part of the stream has been published
	early       bool // the session was attached before the early part of the stream was published
}

type pushWorld struct {
	s       *inproc.Server
	targets []*pushTarget
	name    string
	tick    uint32
	marker  uint32
}

func (w *pushWorld) doTick() {
	g := w.s.SM.GetGroup("", w.name)
	if g == nil {
		return
	}
	w.tick++
	if w.tick%base.LogicCheckSessionAliveIntervalSec == 0 {
		w.tick++ // the harness ticks within milliseconds: lal's "no bytes since the last check" reaper is not a subject here
	}
	n := w.tick
	w.s.Call("Group.Tick", func() { g.Tick(n) })
}

// serve performs the target side of one accepted attempt up to the publish command and checks the command.
func (w *pushWorld) serve(ti int, t *pushTarget, c *Conn, wantName string, pi int) *pbt.Violation {
	if err := c.Handshake(); err != nil {
		if v := w.s.PanicViolation(); v != nil {
			return v
		}
		return pbt.V("push/session-broken-before-publish", "publisher %d, target %d: lal's push connection failed during the handshake: %v", pi, ti, err)
	}
	if err := c.ServeUntilPlayOrPublish(); err != nil {
		if v := w.s.PanicViolation(); v != nil {
			return v
		}
		return pbt.V("push/session-broken-before-publish", "publisher %d, target %d: lal's push connection ended or became undecodable before a complete publish command arrived (publish name should be %d bytes): %v", pi, ti, len(wantName), err)
	}
	if c.Command != "publish" {
		return pbt.V("push/not-a-publish", "publisher %d, target %d: the push session sent %q instead of publish", pi, ti, c.Command)
	}
	if c.StreamName != wantName {
		return pbt.V("push/publish-name-differs", "publisher %d, target %d: publish carries %d bytes %q, want %d bytes %q (first difference at %d)", pi, ti,
			len(c.StreamName), clip(c.StreamName), len(wantName), clip(wantName), firstDiff(c.StreamName, wantName))
	}
	return nil
}

func clip(s string) string {
	if len(s) > 120 {
		return s[:60] + "..." + s[len(s)-40:]
	}
	return s
}

func firstDiff(a, b string) int {
	for i := 0; i < len(a) && i < len(b); i++ {
		if a[i] != b[i] {
			return i
		}
	}
	if len(a) < len(b) {
		return len(a)
	}
	return len(b)
}

// incoming handles a connection that arrived at target t while a publisher is accepted.
func (w *pushWorld) incoming(ti int, t *pushTarget, c *Conn, wantName string, pi int) *pbt.Violation {
	if t.live != nil {
		return pbt.V("push/duplicate-session", "publisher %d, target %d: a second push connection arrived while the first session is %s", pi, ti, map[bool]string{true: "established", false: "being set up"}[t.established])
	}
	t.expected++
	if t.allow > 0 {
		t.allow--
	}
	if t.refuseLeft > 0 {
		t.refuseLeft--
		c.Close()
		return nil
	}
	if v := w.serve(ti, t, c, wantName, pi); v != nil {
		return v
	}
	t.live = c
	if t.spec.Hold && !t.held {
		t.held = true // answered after the publisher has left
		return nil
	}
	if t.spec.HoldMid && !t.held {
		t.held, t.mid = true, true // answered once the early part of the stream has been published
		return nil
	}
	if err := c.AcceptPublish(); err != nil {
		return pbt.V("push/session-broken-before-publish", "publisher %d, target %d: connection closed by lal before the publish answer: %v", pi, ti, err)
	}
	t.established = true
	go c.CollectMedia()
	return nil
}

func (w *pushWorld) pending() []int {
	var out []int
	for i, t := range w.targets {
		if t.live == nil {
			out = append(out, i)
		}
	}
	return out
}

func describe(ms []rtmpref.Msg) string {
	var sb strings.Builder
	if len(ms) > 6 {
		ms = ms[len(ms)-6:]
	}
	for _, m := range ms {
		p := m.Payload
		if len(p) > 10 {
			p = p[:10]
		}
		fmt.Fprintf(&sb, "{type %d ts %d len %d % x} ", m.TypeID, m.Ts, len(m.Payload), p)
	}
	return sb.String()
}

func hasMarker(ms []rtmpref.Msg, mk []byte) int {
	for i, m := range ms {
		if bytes.Equal(m.Payload, mk) {
			return i
		}
	}
	return -1
}

// pmsg is one published (and expected) message.
type pmsg struct {
	typ     uint8
	ts      uint32
	payload []byte
}

func nalSerial(nal []byte) (uint32, bool) {
	if len(nal) < 5 {
		return 0, false
	}
	var v, mul uint32 = 0, 1
	for i := 1; i <= 4; i++ {
		if nal[i] < 4 {
			return 0, false
		}
		v += uint32(nal[i]-4) * mul
		mul *= 251
	}
	return v, true
}

func ensureSdf(p []byte) []byte {
	if bytes.HasPrefix(p, gen.SdfPrefix) {
		return p
	}
	return append(append([]byte{}, gen.SdfPrefix...), p...)
}

// rtmpContent: what an RTMP publisher sends. pre goes out right after the publish command (lal caches it), seq once every
// target is established; the filler only flushes lal's 4 KiB push write buffer and is not judged.
func rtmpContent(ps PubSpec) (pre, seq []pmsg, filler pmsg, nEarly int) {
	_, sps, pps := gen.ParamSets("avc", 0)
	meta := func(v int, sdf bool) []byte {
		b := gen.MetaBody(v)
		if sdf {
			return ensureSdf(b)
		}
		return b
	}
	pre = []pmsg{
		{gen.TypeData, 0, meta(0, ps.MetaSdf)},
		{gen.TypeVideo, 0, append([]byte{0x17, 0, 0, 0, 0}, gen.AvcSeqHeaderBody(sps, pps)...)},
		{gen.TypeAudio, 0, append([]byte{0xAF, 0}, gen.Asc(2, 4, 2)...)},
	}
	gaps := gen.Bytes(ps.ContentSeed, ps.Frames+1)
	ts := uint32(10 + ps.ContentSeed%50)
	for i := 0; i < ps.Frames; i++ {
		if i == ps.Early {
			nEarly = len(seq) // messages that precede frame Early
		}
		if ps.MetaAt == i && i > 0 {
			seq = append(seq, pmsg{gen.TypeData, ts, meta(1, !ps.MetaSdf)})
		}
		switch {
		case i == 0 || i == ps.KeyAt:
			nal := gen.NalSpec{Hdr: []byte{0x65}, Len: 40, Seed: ps.ContentSeed + uint32(i), Serial: uint32(i)}.Bytes()
			seq = append(seq, pmsg{gen.TypeVideo, ts, append([]byte{0x17, 1, 0, 0, 0}, rtpref.AVCC([][]byte{nal})...)})
		case i%2 == 1:
			seq = append(seq, pmsg{gen.TypeAudio, ts, append([]byte{0xAF, 1, 0xC1, 0x17, byte(i)}, gen.Bytes(ps.ContentSeed+uint32(i), 16)...)})
		default:
			nal := gen.NalSpec{Hdr: []byte{0x41}, Len: 30, Seed: ps.ContentSeed + uint32(i), Serial: uint32(i)}.Bytes()
			seq = append(seq, pmsg{gen.TypeVideo, ts, append([]byte{0x27, 1, 0, 0, 0}, rtpref.AVCC([][]byte{nal})...)})
		}
		ts += 1 + uint32(gaps[i])%60
	}
	filler = pmsg{gen.TypeAudio, ts, append([]byte{0xAF, 1}, gen.Bytes(17, 5000)...)}
	return
}

// midExpectation: what a push session that attaches after `early` has been published (and before rest) must receive:
// lal's prologue for a fresh session - the metadata in force, the sequence headers in force - then the cached GOP (with
// rtmp.gop_num = 1: everything since the last video key frame, metadata excluded), then the live continuation.
func midExpectation(pre, early, rest []pmsg) []pmsg {
	meta := pre[0]
	lastKey := -1
	for i, m := range early {
		if m.typ == gen.TypeData {
			meta = m
		}
		if m.typ == gen.TypeVideo && len(m.payload) > 1 && m.payload[0] == 0x17 && m.payload[1] == 1 {
			lastKey = i
		}
	}
	exp := []pmsg{meta, pre[1], pre[2]}
	if lastKey >= 0 {
		for _, m := range early[lastKey:] {
			if m.typ != gen.TypeData {
				exp = append(exp, m)
			}
		}
	}
	return append(exp, rest...)
}

func show(m pmsg) string {
	p := m.payload
	if len(p) > 12 {
		p = p[:12]
	}
	return fmt.Sprintf("{type %d ts %d len %d % x}", m.typ, m.ts, len(m.payload), p)
}

// judgeRtmpTarget: the target must have received exactly exp (metadata with the @setDataFrame prefix ensured), in order,
// each message once, with the published timestamps.
func judgeRtmpTarget(pi, ti int, got []rtmpref.Msg, exp []pmsg, filler []byte) *pbt.Violation {
	var g []pmsg
	for _, m := range got {
		if !bytes.Equal(m.Payload, filler) {
			g = append(g, pmsg{m.TypeID, m.Ts, m.Payload})
		}
	}
	for k := 0; k < len(exp) || k < len(g); k++ {
		switch {
		case k >= len(g):
			return pbt.V("push/content/sequence", "publisher %d, target %d: message %d of %d published, %s, never arrived (the last published one did)", pi, ti, k, len(exp), show(exp[k]))
		case k >= len(exp):
			return pbt.V("push/content/sequence", "publisher %d, target %d: %d messages arrived for %d published; first extra one %s", pi, ti, len(g), len(exp), show(g[k]))
		}
		e, a := exp[k], g[k]
		if e.typ == gen.TypeData {
			e.payload = ensureSdf(e.payload)
		}
		if a.typ == e.typ && a.ts == e.ts && bytes.Equal(a.payload, e.payload) {
			continue
		}
		if a.typ == gen.TypeData && e.typ == gen.TypeData && !bytes.HasPrefix(a.payload, gen.SdfPrefix) {
			return pbt.V("push/content/metadata-without-setdataframe", "publisher %d, target %d: message %d is metadata without the @setDataFrame prefix a relay push must carry: %s", pi, ti, k, show(a))
		}
		if a.typ == e.typ && bytes.Equal(a.payload, e.payload) {
			return pbt.V("push/content/timestamp", "publisher %d, target %d: message %d arrived with timestamp %d, published with %d (%s)", pi, ti, k, a.ts, e.ts, show(e))
		}
		where := "is not among the published messages"
		for j, x := range exp {
			xp := x.payload
			if x.typ == gen.TypeData {
				xp = ensureSdf(xp)
			}
			if x.typ == a.typ && bytes.Equal(xp, a.payload) {
				if j < k {
					where = fmt.Sprintf("is published message %d again (duplicate / reordered)", j)
				} else {
					where = fmt.Sprintf("is published message %d (messages %d..%d skipped or late)", j, k, j-1)
				}
				break
			}
		}
		return pbt.V("push/content/sequence", "publisher %d, target %d: position %d holds %s, expected %s; what arrived %s", pi, ti, k, show(a), show(e), where)
	}
	return nil
}

// judgeRtspTarget: an RTSP publisher's numbered frames, remuxed by lal, must reach the target in order, each once, 40 ms
// apart, after a video sequence header; every metadata message carries the @setDataFrame prefix.
func judgeRtspTarget(pi, ti int, got []rtmpref.Msg, frames int) *pbt.Violation {
	seenHdr := false
	var serials []uint32
	var tss []uint32
	for k, m := range got {
		switch {
		case m.TypeID == gen.TypeData:
			if !bytes.HasPrefix(m.Payload, gen.SdfPrefix) {
				return pbt.V("push/content/metadata-without-setdataframe", "publisher %d (rtsp), target %d: message %d is metadata without the @setDataFrame prefix a relay push must carry", pi, ti, k)
			}
		case m.TypeID == gen.TypeVideo && len(m.Payload) > 5 && m.Payload[1] == 0:
			seenHdr = true
		case m.TypeID == gen.TypeVideo && len(m.Payload) > 5 && m.Payload[1] == 1:
			nals, _ := rtpref.SplitAVCC(m.Payload[5:])
			for _, n := range nals {
				if len(n) > 0 && (n[0]&0x1F == 5 || n[0]&0x1F == 1) {
					if sn, ok := nalSerial(n); ok {
						if !seenHdr {
							return pbt.V("push/content/sequence", "publisher %d (rtsp), target %d: frame %d arrived before any video sequence header", pi, ti, sn)
						}
						serials = append(serials, sn)
						tss = append(tss, m.Ts)
					}
				}
			}
		}
	}
	for i := 0; i < frames; i++ {
		if i >= len(serials) || serials[i] != uint32(i) {
			return pbt.V("push/content/sequence", "publisher %d (rtsp), target %d: frames arrived as %v, published 0..%d in order (then padding from 1000)", pi, ti, serials, frames-1)
		}
		if d := tss[i] - tss[0]; d != uint32(40*i) {
			return pbt.V("push/content/timestamp", "publisher %d (rtsp), target %d: frame %d arrived %d ms after frame 0, published 40 ms apart (%d ms)", pi, ti, i, d, 40*i)
		}
	}
	return nil
}

func runPush(c PushCase) *pbt.Violation {
	v := runPush0(c)
	if v == abandonV {
		pbt.Count("push/abandoned:machine-unresponsive", 1)
		return nil
	}
	return v
}

func runPush0(c PushCase) *pbt.Violation {
	w := &pushWorld{name: "c17push"}
	var addrs []string
	for _, ts := range c.Targets {
		st, err := NewRtmpStub()
		if err != nil {
			lalclient.Harness("stub listen: %v", err)
		}
		defer st.Close()
		w.targets = append(w.targets, &pushTarget{spec: ts, st: st})
		addrs = append(addrs, st.Addr)
	}
	s := inproc.New(inproc.Config{PushAddrs: addrs, RtmpGopNum: 1})
	defer s.Close()
	w.s = s

	_, sps, pps := gen.ParamSets("avc", 0)

	for pi, ps := range c.Pubs {
		if ps.Frames < 3 {
			ps.Frames = 3 // replay files written before the content dimension existed
		}
		wantName := w.name
		var pub *lalclient.Publisher
		var rtspConn *memconn.Conn
		var rc *rtspref.Client
		var pre, seq []pmsg
		var fill pmsg
		nEarly := 0
		for _, t := range w.targets {
			t.refuseLeft = t.spec.Refuse
		}
		// ---- the publisher is accepted --------------------------------------------------------------
		switch ps.Kind {
		case "rtmp":
			q := params(ps.ParamSeed, ps.ParamLen)
			nameWithQuery := w.name
			if q != "" {
				nameWithQuery += "?" + q
				wantName = nameWithQuery
			}
			pub = lalclient.NewPublisher(s, "live", nameWithQuery, 0)
			if pub.Err != nil {
				if v := s.PanicViolation(); v != nil {
					return v
				}
				return pbt.V("push/publisher-refused", "publisher %d (rtmp, %d parameter bytes) was refused although the stream has no input: %v", pi, ps.ParamLen, pub.Err)
			}
			pre, seq, fill, nEarly = rtmpContent(ps)
			for _, m := range pre {
				_ = pub.Send(m.typ, m.ts, m.payload, 0)
			}
			pub.WaitIdle()
		default:
			rtspConn = s.RtspConn()
			_ = rtspConn.SetReadDeadline(time.Now().Add(longWait))
			rc = rtspref.NewClient(rtspConn)
			tracks := []rtspref.Track{{Media: "video", PT: 96, Encoding: "H264", ClockRate: 90000, Fmtp: rtspref.H264Fmtp(sps, pps), Control: "streamid=0"}}
			if _, err := rc.Publish("rtsp://127.0.0.1:5544/live/"+w.name, tracks); err != nil {
				if v := s.PanicViolation(); v != nil {
					return v
				}
				return pbt.V("push/publisher-refused", "publisher %d (rtsp) was refused although the stream has no input: %v", pi, err)
			}
			_ = rtspConn.SetReadDeadline(time.Time{})
			rtspConn.WaitPeerIdle(lalclient.IdleTimeout)
		}
		// ---- first round: one attempt per target - unless an attempt started under the previous publisher is still
		// unanswered at the target: then that one is the target's session and no second connection may appear --------
		var carried []int
		for ti, t := range w.targets {
			if t.live != nil {
				carried = append(carried, ti)
				continue
			}
			pt := newPatience(0)
			var cn *Conn
			for cn == nil {
				if cn = t.st.TryAccept(); cn != nil {
					break
				}
				if pt.over() {
					if v := s.PanicViolation(); v != nil {
						return v
					}
					return pt.verdict(pbt.V("push/no-session-for-target", "publisher %d (%s) was accepted but target %d saw no push connection within %v", pi, ps.Kind, ti, pt.waited()))
				}
				if pi > 0 && time.Since(pt.start) > 20*time.Millisecond {
					// lal clears a target's in-progress mark only when the previous session's goroutine has finished; a
					// publisher that arrives before that is served "on a later tick"
					w.doTick()
					for _, o := range w.targets[:ti] {
						if o.live == nil {
							o.allow++ // a target that has refused its first attempt may be re-attempted on this tick
						}
					}
				}
				time.Sleep(300 * time.Microsecond)
			}
			if v := w.incoming(ti, t, cn, wantName, pi); v != nil {
				return v
			}
		}
		if len(carried) > 0 {
			for i := 0; i < c.Pubs[pi-1].HandOverTicks; i++ {
				w.doTick()
				for _, o := range w.targets {
					if o.live == nil {
						o.allow++ // a target that has refused its first attempt may be re-attempted on this tick
					}
				}
			}
			time.Sleep(3 * time.Millisecond)
			for _, ti := range carried {
				t := w.targets[ti]
				if cn := t.st.TryAccept(); cn != nil {
					if !t.live.WaitPeerClose(2 * time.Millisecond) {
						return pbt.V("push/duplicate-session", "publisher %d was accepted (then %d ticks) while target %d still holds the unanswered push attempt started under publisher %d: lal opened a second connection to the target", pi, c.Pubs[pi-1].HandOverTicks, ti, pi-1)
					}
					// lal gave the old attempt up (its own push timeout): the new connection is the target's session
					pbt.Count("push/held-attempt-timed-out", 1)
					t.live.Close()
					t.live, t.held = nil, true
					if v := w.incoming(ti, t, cn, wantName, pi); v != nil {
						return v
					}
					continue
				}
				// the target answers now; lal may attach the session (it then serves this publisher) or drop it and
				// dial again on a later tick - either way one session per target
				if err := t.live.AcceptPublish(); err != nil {
					t.live.Close()
					t.live, t.held = nil, true
					continue
				}
				t.established = true
				go t.live.CollectMedia()
			}
		}
		if ps.Intruder && pub != nil {
			in := lalclient.NewPublisher(s, "live", w.name+"?intruder=1", 0)
			if in.Err == nil {
				in.Conn.WaitPeerDone(lalclient.IdleTimeout)
			}
			in.Close()
		}
		// ---- refused targets are re-attempted on later ticks ----------------------------------------------
		reap := func() bool { // sessions lal has closed although the publisher is there: the target counts as failed again
			any := false
			for _, t := range w.targets {
				if t.established && t.live != nil && t.live.PeerClosed() {
					t.live.Close()
					t.live, t.established, t.early = nil, false, false
					any = true
				}
			}
			return any
		}
		// ---- the early part of the stream: published while only the targets answered so far are attached ------------
		if ps.LeaveAt == 0 {
			nEst := 0
			for _, t := range w.targets {
				if t.established {
					nEst++
				}
			}
			if g := s.SM.GetGroup("", w.name); g != nil {
				pt := newPatience(0)
				if !patient(pt, func() bool { return g.OutSessionNum() == nEst }) {
					return pt.verdict(pbt.V("push/session-count-differs", "publisher %d: %d of %d targets answered publish in the first round, but %v later lal counts %d push sessions on the stream", pi, nEst, len(w.targets), pt.waited(), g.OutSessionNum()))
				}
			}
			for _, t := range w.targets {
				t.early = t.established
			}
			if pub != nil {
				for _, m := range seq[:nEarly] {
					if err := pub.Send(m.typ, m.ts, m.payload, 0); err != nil {
						return pbt.V("push/publisher-disconnected", "publisher %d was disconnected while pushing: %v", pi, err)
					}
				}
				pub.WaitIdle()
			}
			for _, t := range w.targets {
				switch {
				case t.mid && !t.established && t.live != nil:
					// the target answers now: the session attaches mid-stream
					if err := t.live.AcceptPublish(); err != nil {
						t.live.Close()
						t.live = nil
						continue
					}
					t.established = true
					go t.live.CollectMedia()
				case t.spec.DropAfter && t.established && pub != nil:
					// the target hangs up mid-stream: lal has to notice and dial again on a later tick
					t.live.Close()
					t.live, t.established, t.early = nil, false, false
				}
			}
		}
		for ps.LeaveAt == 0 {
			reap()
			pt := newPatience(0)
			for len(w.pending()) > 0 {
				w.doTick()
				got := false
				for _, ti := range w.pending() {
					t := w.targets[ti]
					if cn := t.st.Accept(15 * time.Millisecond); cn != nil {
						got = true
						if v := w.incoming(ti, t, cn, wantName, pi); v != nil {
							return v
						}
					}
				}
				if v := s.PanicViolation(); v != nil {
					return v
				}
				if got {
					pt = newPatience(0)
				} else if pt.over() {
					return pt.verdict(pbt.V("push/failed-target-not-retried", "publisher %d: targets %v refused their attempt or hung up, the harness ticked the group for %v (%d ticks) but no new attempt arrived", pi, w.pending(), pt.waited(), w.tick))
				}
			}
			for i := 0; i < ps.Ticks; i++ {
				w.doTick()
			}
			// lal's push goroutine attaches a session to the stream shortly after the target's publish answer; lal's own
			// count of out sessions tells when that has happened (and must equal the number of answered targets)
			nEst := 0
			for _, t := range w.targets {
				if t.established {
					nEst++
				}
			}
			if g := s.SM.GetGroup("", w.name); g != nil {
				pt = newPatience(0)
				closed := func() bool {
					for _, t := range w.targets {
						if t.established && t.live != nil && t.live.PeerClosed() {
							return true
						}
					}
					return false
				}
				ok := patient(pt, func() bool { return closed() || g.OutSessionNum() == nEst })
				if closed() {
					continue // back to the retry loop
				}
				if !ok {
					return pt.verdict(pbt.V("push/session-count-differs", "publisher %d: %d of %d targets answered publish, but %v later lal counts %d push sessions on the stream", pi, nEst, len(w.targets), pt.waited(), g.OutSessionNum()))
				}
			}
			// ---- content: every established target receives what the publisher sends, in order, each message once,
			// with its timestamp, metadata carrying the @setDataFrame prefix --------------------------------------
			if pub != nil {
				for _, m := range append(append([]pmsg{}, seq[nEarly:]...), fill) {
					if err := pub.Send(m.typ, m.ts, m.payload, 0); err != nil {
						return pbt.V("push/publisher-disconnected", "publisher %d was disconnected while pushing: %v", pi, err)
					}
				}
				pub.WaitIdle()
				lastP := seq[len(seq)-1].payload
				for ti, t := range w.targets {
					if !t.established {
						continue
					}
					exp := append(append([]pmsg{}, pre...), seq...)
					if !t.early {
						exp = midExpectation(pre, seq[:nEarly], seq[nEarly:])
					}
					pt = newPatience(0)
					if !patient(pt, func() bool { return hasMarker(t.live.MediaSnapshot(), lastP) >= 0 }) {
						return pt.verdict(pbt.V("push/media-not-forwarded", "publisher %d: target %d is established but the last of %d published messages had not arrived %v later (%d media messages received; last: %s)", pi, ti, len(exp), pt.waited(), len(t.live.MediaSnapshot()), describe(t.live.MediaSnapshot())))
					}
					if v := judgeRtmpTarget(pi, ti, t.live.MediaSnapshot(), exp, fill.payload); v != nil {
						return v
					}
				}
			} else {
				// numbered frames over RTP, then padding: lal's RTSP ingest hands frames on in bursts of 128 packets (DESIGN
				// section 7: the newest frames are held until later ones arrive), and the push write buffer wants 4 KiB
				// lal hands the sdp of an RTSP publisher to the group from a goroutine of its own (BaseInSession.SetObserver);
				// RTP that overtakes it is remuxed before the sequence header exists - C07's subject, kept out of this
				// check by waiting until the group knows the video codec
				pt = newPatience(0)
				if !patient(pt, func() bool { sg := s.SM.StatGroup(w.name); return sg != nil && sg.VideoCodec != "" }) {
					return pt.verdict(pbt.V("push/rtsp-publisher-sdp-not-processed", "publisher %d (rtsp): %v after RECORD the stream still reports no video codec", pi, pt.waited()))
				}
				for i := 0; i < ps.Frames+134; i++ {
					spec := gen.NalSpec{Hdr: []byte{0x41}, Len: 60, Seed: ps.ContentSeed + uint32(i), Serial: uint32(i)}
					if i == 0 {
						spec.Hdr = []byte{0x65}
					}
					if i >= ps.Frames {
						spec.Serial = uint32(1000 + i - ps.Frames)
					}
					pl, err := rtpref.H264Single(spec.Bytes())
					if err != nil {
						lalclient.Harness("rtp packetise: %v", err)
					}
					pk := &rtpref.Packet{PT: 96, Seq: uint16(100 + i), TS: uint32(90000 + i*3600), SSRC: 0x17c17, Marker: true, Payload: pl}
					if err := rc.WriteFrame(0, pk.Marshal()); err != nil {
						return pbt.V("push/publisher-disconnected", "publisher %d (rtsp) was disconnected while pushing: %v", pi, err)
					}
				}
				rtspConn.WaitPeerIdle(lalclient.IdleTimeout)
				lastSeen := func(ms []rtmpref.Msg) bool {
					for _, m := range ms {
						if m.TypeID == gen.TypeVideo && len(m.Payload) > 5 && m.Payload[1] == 1 {
							nals, _ := rtpref.SplitAVCC(m.Payload[5:])
							for _, n := range nals {
								if sn, ok := nalSerial(n); ok && len(n) > 0 && n[0]&0x1F == 1 && sn == uint32(ps.Frames-1) {
									return true
								}
							}
						}
					}
					return false
				}
				for ti, t := range w.targets {
					if !t.established {
						continue
					}
					pt = newPatience(0)
					if !patient(pt, func() bool { return lastSeen(t.live.MediaSnapshot()) }) {
						return pt.verdict(pbt.V("push/media-not-forwarded", "publisher %d (rtsp): target %d is established but frame %d of the published sequence had not arrived %v later (%d media messages received; last: %s)", pi, ti, ps.Frames-1, pt.waited(), len(t.live.MediaSnapshot()), describe(t.live.MediaSnapshot())))
					}
					if v := judgeRtspTarget(pi, ti, t.live.MediaSnapshot(), ps.Frames); v != nil {
						return v
					}
				}
			}
			break
		}
		// ---- the publisher leaves: every session ends with it -----------------------------------------
		if pub != nil {
			pub.Close()
			pub.Conn.WaitPeerDone(lalclient.IdleTimeout)
		} else {
			_ = rtspConn.Close()
			rtspConn.WaitPeerDone(lalclient.IdleTimeout)
		}
		for ti, t := range w.targets {
			if t.live == nil {
				continue
			}
			if t.held && !t.established && ps.HandOver && pi+1 < len(c.Pubs) {
				continue // stays unanswered until the next publisher has been accepted
			}
			if t.held && !t.established {
				// the target answers publish only now: the session must not outlive the publisher
				_ = t.live.AcceptPublish()
				g := s.SM.GetGroup("", w.name)
				pt := newPatience(0)
				for !t.live.WaitPeerClose(2 * time.Millisecond) {
					if g != nil && g.OutSessionNum() > 0 {
						return pbt.V("push/session-outlives-publisher", "publisher %d: target %d answered publish after the publisher had left and lal attached the push session to the stream, which has no publisher (out sessions = %d)", pi, ti, g.OutSessionNum())
					}
					if pt.over() {
						return pt.verdict(pbt.V("push/session-outlives-publisher", "publisher %d: target %d answered publish after the publisher had left; the push session was still open %v later", pi, ti, pt.waited()))
					}
				}
			} else if t.established {
				pt := newPatience(0)
				if !patient(pt, t.live.PeerClosed) {
					return pt.verdict(pbt.V("push/session-outlives-publisher", "publisher %d left but the push session to target %d was still open %v later", pi, ti, pt.waited()))
				}
			}
			t.live.Close()
			t.live, t.established, t.held, t.mid, t.early = nil, false, false, false, false
		}
		if v := s.PanicViolation(); v != nil {
			return v
		}
		// ---- nothing is dialled without a publisher --------------------------------------------------------
		for i := 0; i <= ps.Ticks; i++ {
			w.doTick()
		}
		time.Sleep(3 * time.Millisecond)
		for ti, t := range w.targets {
			// retries caused by first-round ticks that nobody has consumed: refuse them, so that they are not taken for
			// attempts of the next publisher
			for t.live == nil && t.allow > 0 {
				cn := t.st.TryAccept()
				if cn == nil {
					break
				}
				cn.Close()
				t.allow--
				t.expected++
			}
			t.allow = 0
			if n := t.st.Attempts(); n != t.expected {
				sig := "push/attempt-without-publisher"
				if n < t.expected {
					lalclient.Harness("target %d: %d connections, expected %d", ti, n, t.expected)
				}
				return pbt.V(sig, "after publisher %d left (and %d ticks): target %d has seen %d connections, the rules demand %d", pi, ps.Ticks+1, ti, n, t.expected)
			}
		}
	}
	time.Sleep(5 * time.Millisecond)
	for ti, t := range w.targets {
		if n := t.st.Attempts(); n > t.expected {
			return pbt.V("push/attempt-without-publisher", "at the end: target %d has seen %d connections, the rules demand %d", ti, n, t.expected)
		}
	}
	return s.PanicViolation()
}

func paramClass(n int) string {
	switch {
	case n == 0:
		return "0"
	case n <= 200:
		return "1-200"
	case n <= 469:
		return "201-469"
	case n <= 1000:
		return "470-1000"
	default:
		return "1001-4000"
	}
}

func classifyPush(c PushCase) (bool, []string) {
	labels := []string{"push", fmt.Sprintf("targets:%d", len(c.Targets))}
	nt := false
	for _, t := range c.Targets {
		if t.Refuse > 0 {
			labels = append(labels, fmt.Sprintf("target-refuses:%d", t.Refuse))
			nt = true
		}
		if t.Hold {
			labels = append(labels, "target-answers-after-publisher-left")
		}
		if t.HoldMid {
			labels = append(labels, "target-answers-mid-stream")
		}
		if t.DropAfter {
			labels = append(labels, "target-hangs-up-mid-stream")
		}
	}
	anyHold := false
	for _, t := range c.Targets {
		anyHold = anyHold || t.Hold
	}
	if len(c.Pubs) > 1 {
		labels = append(labels, fmt.Sprintf("incarnations:%d", len(c.Pubs)))
	}
	for _, p := range c.Pubs {
		labels = append(labels, "pub:"+p.Kind)
		if p.Kind == "rtmp" && p.LeaveAt == 0 {
			midAttach := false
			for _, t := range c.Targets {
				midAttach = midAttach || t.HoldMid || t.DropAfter || t.Refuse > 0
			}
			switch {
			case p.Early > 0 && midAttach && p.KeyAt > 0 && p.KeyAt < p.Early:
				labels = append(labels, "mid-stream-attach:second-gop-cached")
				nt = true
			case p.Early > 0 && midAttach:
				labels = append(labels, "mid-stream-attach:first-gop-cached")
				nt = true
			case midAttach:
				labels = append(labels, "late-attach:empty-cache")
			}
		}
		if p.Kind == "rtmp" {
			labels = append(labels, "params:"+paramClass(p.ParamLen))
			if p.ParamLen > 200 {
				nt = true
			}
		}
		if p.HandOver && anyHold {
			labels = append(labels, "held-attempt-answered-under-next-publisher")
			nt = true
		}
		if p.LeaveAt == 1 {
			labels = append(labels, "publisher-leaves-before-retry")
		}
		if p.Intruder {
			labels = append(labels, "refused-second-publisher")
		}
	}
	return nt, uniq(labels)
}

func uniq(in []string) []string {
	seen := map[string]bool{}
	var out []string
	for _, s := range in {
		if !seen[s] {
			seen[s] = true
			out = append(out, s)
		}
	}
	return out
}

func TestPushRules(t *testing.T) {
	pbt.Run(t, pbt.Spec[PushCase]{
		ID: "C17", Name: "push-rules", Gen: genPushCase, Run: runPush, Classify: classifyPush,
		Quick: 120, Thorough: 1200, Isolate: true,
	})
}

// =====================================================================================================
// pull-rules
// =====================================================================================================

const (
	ocRefuse    = 0 // the origin closes the connection at once (lal notices immediately)
	ocStall     = 1 // the origin never answers play: lal's pull timeout ends the attempt
	ocLateClose = 2 // the origin closes after the play command: lal notices when its pull timeout expires
	ocPlay      = 3 // play-start, then media
	ocPlayClose = 4 // play-start, media, then the origin closes
)

var ocNames = []string{"refuse", "stall", "late-close", "play", "play-close"}

type Act struct {
	K string `json:"k"` // sub leave start stop kick tick proceed pub unpub sleep
	S int    `json:"s,omitempty"`
}

type PullCase struct {
	Static   bool  `json:"static,omitempty"`
	Http     bool  `json:"http,omitempty"` // API calls travel through lal's HTTP-API handlers
	Rtsp     bool  `json:"rtsp,omitempty"` // the API-started pull uses an rtsp:// url (interleaved) and a scripted RTSP origin
	Budget   int   `json:"budget"`         // pull_retry_num: -1 forever, 0 never, n
	AutoStop int   `json:"auto_stop"`      // auto_stop_pull_after_no_out_ms: -1 never, 0 immediately, t
	Timeout  int   `json:"timeout_ms"`
	Outcomes []int `json:"outcomes"` // per attempt, cycled
	Acts     []Act `json:"acts"`
}

func genPullCase(t *rapid.T) PullCase {
	var c PullCase
	c.Static = rapid.IntRange(0, 3).Draw(t, "static") == 0
	c.Timeout = rapid.SampledFrom([]int{300, 400, 600}).Draw(t, "timeout")
	if c.Static {
		c.Budget, c.AutoStop = -1, 0 // what lal documents for the static configuration
	} else {
		c.Http = rapid.IntRange(0, 7).Draw(t, "http") == 0
		c.Rtsp = rapid.IntRange(0, 2).Draw(t, "rtsp") == 0
		c.Budget = rapid.SampledFrom([]int{0, 0, 1, 2, 3, -1, -1}).Draw(t, "budget")
		if rapid.IntRange(0, 2).Draw(t, "asClass") == 0 {
			c.AutoStop = rapid.IntRange(30, 80).Draw(t, "autoStopMs")
		} else {
			c.AutoStop = rapid.SampledFrom([]int{-1, -1, 0}).Draw(t, "autoStop")
		}
	}
	no := rapid.IntRange(2, 6).Draw(t, "noutcomes")
	for i := 0; i < no; i++ {
		c.Outcomes = append(c.Outcomes, rapid.SampledFrom([]int{ocRefuse, ocRefuse, ocRefuse, ocStall, ocLateClose, ocPlay, ocPlay, ocPlay, ocPlayClose, ocPlayClose}).Draw(t, "outcome"))
	}
	maxActs := 14
	if pbt.Thorough() {
		maxActs = 18
	}
	n := rapid.IntRange(4, maxActs).Draw(t, "nacts")
	// the next action is drawn with weights that depend on the state the reference machine is in, so that histories
	// reach the interesting states by construction (an answer released while something else happened, a kick of an
	// attached session, a tick after a failure ...)
	sm := newSim(&c)
	for len(c.Acts) < n {
		m := &sm.m
		wt := map[string]int{"sub": 2, "tick": 2, "stop": 1, "kick": 1, "pub": 1}
		if m.subs > 0 {
			wt["leave"] = 1
		}
		if m.pub {
			wt["unpub"] = 3
		}
		if !c.Static {
			wt["start"] = 2
			if !m.apiEnabled {
				wt["start"] += 4
			}
		}
		if c.AutoStop > 0 {
			wt["sleep"] = 2
		}
		switch {
		case m.inflight:
			wt["proceed"] = 10
			wt["pub"] += 2
			if c.Rtsp {
				wt["pub"] += 3 // the DESCRIBE answer of an overtaken rtsp pull is the interesting one
				wt["stop"]++
			}
			wt["stop"] += 2
			wt["tick"]++
		case m.attached:
			wt["kick"] += 4
			wt["stop"] += 3
			wt["sub"] = 1
			wt["start"] = 1
			if m.subs > 0 {
				wt["leave"] += 6
				wt["tick"] += 2
			} else {
				wt["tick"] += 8
				if c.AutoStop > 0 {
					wt["sleep"] += 6
				}
			}
		case m.enabled():
			wt["sub"] += 2
			wt["tick"] += 3
		}
		if sm.failed {
			wt["tick"] += 3
		}
		var kinds []string
		for _, k := range []string{"sub", "leave", "tick", "start", "stop", "kick", "pub", "unpub", "sleep", "proceed"} {
			for i := 0; i < wt[k]; i++ {
				kinds = append(kinds, k)
			}
		}
		a := Act{K: rapid.SampledFrom(kinds).Draw(t, "kind"), S: rapid.IntRange(0, 5).Draw(t, "sel")}
		c.Acts = append(c.Acts, a)
		sm.apply(a)
	}
	return c
}

// ---- the reference state machine (pure; also drives the classification) -------------------------------

type pm struct {
	static     bool
	exists     bool // the stream's group exists
	apiEnabled bool
	budget     int
	autoStop   int
	used       int // attempts charged to the budget since the pull was last started / stopped
	inflight   bool
	attached   bool
	pub        bool
	subs       int
}

func (m *pm) enabled() bool { return m.static || m.apiEnabled }

// want: the rules demand a new attempt at a trigger.
func (m *pm) want(expired bool) bool {
	return m.enabled() && !m.pub && !m.attached && !m.inflight && !expired && (m.budget < 0 || m.used <= m.budget)
}

func (m *pm) attempt()        { m.inflight = true; m.used++ }
func (m *pm) stopReset()      { m.used = 0 }
func (m *pm) mayAttach() bool { return m.enabled() && !m.pub && !m.attached }

// ---- API access: direct calls or lal's HTTP-API ---------------------------------------------------------

type apiCaller interface {
	start(req base.ApiCtrlStartRelayPullReq) (int, string)
	stop(name string) (int, string)
	kick(name, id string) int
	body() string // the undecodable answer, if a call returned apiUndecodable
}

type directAPI struct{ s *inproc.Server }

func (d directAPI) start(req base.ApiCtrlStartRelayPullReq) (code int, id string) {
	code = -1
	d.s.Call("CtrlStartRelayPull", func() {
		r := d.s.SM.CtrlStartRelayPull(req)
		code, id = r.ErrorCode, r.Data.SessionId
	})
	return
}
func (d directAPI) stop(name string) (code int, id string) {
	code = -1
	d.s.Call("CtrlStopRelayPull", func() {
		r := d.s.SM.CtrlStopRelayPull(name)
		code, id = r.ErrorCode, r.Data.SessionId
	})
	return
}
func (d directAPI) kick(name, id string) (code int) {
	code = -1
	d.s.Call("CtrlKickSession", func() {
		code = d.s.SM.CtrlKickSession(base.ApiCtrlKickSessionReq{StreamName: name, SessionId: id}).ErrorCode
	})
	return
}

type httpAPI struct {
	base     string
	cl       *http.Client
	lastBody string
}

func (h *httpAPI) body() string { return h.lastBody }
func (directAPI) body() string  { return "" }

func newHTTPAPI(s *inproc.Server) *httpAPI {
	for try := 0; try < 20; try++ {
		ln, err := net.Listen("tcp", "127.0.0.1:0")
		if err != nil {
			continue
		}
		addr := ln.Addr().String()
		_ = ln.Close()
		h := logic.NewHttpApiServer(addr, s.SM)
		if err := h.Listen(); err != nil {
			continue
		}
		go func() { _ = h.RunLoop() }() // lal offers no way to stop it; the listener lives as long as the process
		return &httpAPI{base: "http://" + addr, cl: &http.Client{Timeout: longWait, Transport: &http.Transport{DisableKeepAlives: true}}}
	}
	lalclient.Harness("no free port for the HTTP-API listener")
	return nil
}

func (h *httpAPI) do(method, path string, body interface{}, out interface{}) int {
	var rd io.Reader
	if body != nil {
		b, _ := json.Marshal(body)
		rd = bytes.NewReader(b)
	}
	req, err := http.NewRequest(method, h.base+path, rd)
	if err != nil {
		lalclient.Harness("http api request: %v", err)
	}
	resp, err := h.cl.Do(req)
	if err != nil {
		return apiUnreachable // no answer at all: transport trouble, the case is abandoned
	}
	defer resp.Body.Close()
	b, rerr := io.ReadAll(resp.Body)
	if rerr != nil {
		return apiUnreachable
	}
	if json.Unmarshal(b, out) != nil {
		h.lastBody = string(b)
		return apiUndecodable // lal answered, but not with the JSON document the API promises
	}
	return 0
}

// apiUnreachable: the request got no answer (transport trouble on a loaded machine): the case is abandoned.
// apiUndecodable: lal answered with something that is not the promised JSON document: a violation.
const (
	apiUnreachable = -2
	apiUndecodable = -3
)

func (h *httpAPI) start(req base.ApiCtrlStartRelayPullReq) (int, string) {
	// fields equal to the documented defaults are omitted, so the handler's defaults are what takes effect
	m := map[string]interface{}{"url": req.Url, "stream_name": req.StreamName, "pull_timeout_ms": req.PullTimeoutMs}
	if req.PullRetryNum != base.PullRetryNumNever {
		m["pull_retry_num"] = req.PullRetryNum
	}
	if req.AutoStopPullAfterNoOutMs != base.AutoStopPullAfterNoOutMsNever {
		m["auto_stop_pull_after_no_out_ms"] = req.AutoStopPullAfterNoOutMs
	}
	var r base.ApiCtrlStartRelayPullResp
	if c := h.do("POST", "/api/ctrl/start_relay_pull", m, &r); c != 0 {
		return c, ""
	}
	return r.ErrorCode, r.Data.SessionId
}
func (h *httpAPI) stop(name string) (int, string) {
	var r base.ApiCtrlStopRelayPullResp
	if c := h.do("GET", "/api/ctrl/stop_relay_pull?stream_name="+url.QueryEscape(name), nil, &r); c != 0 {
		return c, ""
	}
	return r.ErrorCode, r.Data.SessionId
}
func (h *httpAPI) kick(name, id string) int {
	var r base.ApiCtrlKickSessionResp
	if c := h.do("POST", "/api/ctrl/kick_session", map[string]string{"stream_name": name, "session_id": id}, &r); c != 0 {
		return c
	}
	return r.ErrorCode
}

// ---- the world ---------------------------------------------------------------------------------------------

type attempt struct {
	n        int             // ordinal
	conn     *Conn           // rtmp origin side
	rc       *rtspOConn      // rtsp origin side
	recMarks map[*viewer]int // records each RTMP / FLV subscriber had received when the DESCRIBE answer was released
	started  time.Time       // taken before the triggering call: lal's timeout cannot expire before started+timeout
	outcome  int
	apiID    string // id the API answered for it ("" when it was not started by the API)
	id       string // id seen in notifications
}

func (at *attempt) close() {
	if at.rc != nil {
		at.rc.Close()
	} else {
		at.conn.Close()
	}
}

func (at *attempt) WaitPeerClose(d time.Duration) bool {
	if at.rc != nil {
		return at.rc.WaitPeerClose(d)
	}
	return at.conn.WaitPeerClose(d)
}

// viewer is a consumer of the stream, of any kind lal counts as "somebody is watching".
type viewer struct {
	kind string // rtmp | flv | ts | rtsp
	c    *lalclient.Consumer
	conn *memconn.Conn
}

func (v *viewer) leave() {
	_ = v.conn.Close()
	v.conn.WaitPeerDone(lalclient.IdleTimeout)
}

var viewerKinds = []string{"rtmp", "flv", "ts", "rtsp"}
var pubKinds = []string{"rtmp", "rtsp", "customize"}

// pubKind: which kind of publisher a pub action offers.  A customize publisher has no app name; when it would create the
// stream's group under a static pull configuration, lal derives the pull url from that empty app name - a configuration
// corner outside the rules, avoided by construction.
func pubKind(sel int, static, exists bool) string {
	k := pubKinds[sel%len(pubKinds)]
	if k == "customize" && static && !exists {
		return "rtmp"
	}
	return k
}

type pullWorld struct {
	c       PullCase
	s       *inproc.Server
	origin  *RtmpStub
	rorigin *rtspOrigin
	api     apiCaller
	name    string
	url     string
	m       pm

	subs     []*viewer
	pub      *lalclient.Publisher              // the accepted publisher, by kind
	pubRtsp  *memconn.Conn                     //
	pubCust  logic.ICustomizePubSessionContext //
	inflight *attempt
	attached *attempt
	staleIDs []string

	lastSeenLo, lastSeenHi time.Time // bounds of the instant lal last saw a consumer at a tick (or the stream was created)

	nAttempts, nStarts, nStops int // demanded so far
	outIdx                     int
	tick                       uint32
	marker                     uint32
	abandoned                  string
	step                       string
}

func (w *pullWorld) timeout() time.Duration { return time.Duration(w.c.Timeout) * time.Millisecond }

func (w *pullWorld) abandon(why string) {
	if w.abandoned == "" {
		w.abandoned = why
	}
}

func (w *pullWorld) pullEvents() (starts, stops []string) {
	for _, e := range w.s.Notify.Events() {
		switch e.Kind {
		case "pull_start":
			starts = append(starts, e.SessionID)
		case "pull_stop":
			stops = append(stops, e.SessionID)
		}
	}
	return
}

// waitEvents waits until at least nStarts / nStops pull notifications have been recorded.
func (w *pullWorld) waitEvents(nStarts, nStops int, p *patience) bool {
	return patient(p, func() bool {
		st, sp := w.pullEvents()
		return len(st) >= nStarts && len(sp) >= nStops
	})
}

// created notes that the stream's group came into existence during [t0,t1].
func (w *pullWorld) created(t0, t1 time.Time) {
	if !w.m.exists {
		w.m.exists = true
		w.lastSeenLo, w.lastSeenHi = t0, t1
	}
}

// expired: has the auto-stop window run out, judged at an instant inside [t0,t1]?
func (w *pullWorld) expired(t0, t1 time.Time) (exp bool, ambiguous bool) {
	a := w.m.autoStop
	if a < 0 || w.m.subs > 0 {
		return false, false
	}
	if a == 0 {
		return true, false
	}
	win := time.Duration(a) * time.Millisecond
	const slack = 3 * time.Millisecond // lal compares truncated milliseconds
	if t0.Sub(w.lastSeenHi) >= win+slack {
		return true, false
	}
	if t1.Sub(w.lastSeenLo) <= win-slack {
		return false, false
	}
	return false, true
}

func (w *pullWorld) nextOutcome() int {
	o := w.c.Outcomes[w.outIdx%len(w.c.Outcomes)]
	w.outIdx++
	return o
}

// inflightSafe: after a step that assumed the attempt to be in flight - could lal's timeout have fired meanwhile?
func (w *pullWorld) inflightUnsafe() bool {
	return w.inflight != nil && time.Since(w.inflight.started) > w.timeout()*8/10
}

// expectAttempt: the rules demand an attempt caused by a trigger issued at `started`.
func (w *pullWorld) seenAtOrigin() int {
	if w.c.Rtsp {
		return w.rorigin.Attempts()
	}
	return w.origin.Attempts()
}

func (w *pullWorld) expectAttempt(started time.Time, apiID string) *pbt.Violation {
	w.m.attempt()
	w.nAttempts++
	pt := newPatience(0)
	at := &attempt{n: w.nAttempts, started: started, apiID: apiID}
	if w.c.Rtsp {
		patient(pt, func() bool { at.rc = w.rorigin.TryAccept(); return at.rc != nil })
	} else {
		at.conn = acceptPatient(w.origin, pt)
	}
	if at.rc == nil && at.conn == nil {
		if v := w.s.PanicViolation(); v != nil {
			return v
		}
		// an attempt that lal reports as stopped without any connection having reached the origin is no attempt at all
		// (the wait is only given up once this process has proven responsive: a slow dial would have arrived)
		_, stops := w.pullEvents()
		return pt.verdict(pbt.V("pull/no-attempt", "%s: the rules demand a connection attempt (enabled, no input, none in flight, budget %d with %d used, consumers %d) but the origin saw none within %v (attempts reported as stopped meanwhile: %d)", w.step, w.m.budget, w.m.used-1, w.m.subs, pt.waited(), len(stops)-w.nStops))
	}
	at.outcome = w.nextOutcome()
	if at.outcome == ocRefuse {
		at.close()
		return w.attemptEnded(at, "the origin refused the connection")
	}
	if at.rc != nil {
		if err := at.rc.ServeUntilDescribe(); err != nil {
			return w.stubTrouble(at, "OPTIONS / DESCRIBE", err)
		}
		if at.rc.DescribeURI != w.url {
			return pbt.V("pull/play-command-differs", "%s: the rtsp pull session sent DESCRIBE %q, want %q", w.step, at.rc.DescribeURI, w.url)
		}
		w.inflight = at
		return nil
	}
	oc := at.conn
	if err := oc.Handshake(); err != nil {
		return w.stubTrouble(at, "handshake", err)
	}
	if err := oc.ServeUntilPlayOrPublish(); err != nil {
		return w.stubTrouble(at, "commands", err)
	}
	if oc.Command != "play" || oc.StreamName != w.name {
		return pbt.V("pull/play-command-differs", "%s: the pull session sent %s(%q), want play(%q)", w.step, oc.Command, oc.StreamName, w.name)
	}
	w.inflight = at
	return nil
}

func (w *pullWorld) stubTrouble(at *attempt, what string, err error) *pbt.Violation {
	if v := w.s.PanicViolation(); v != nil {
		return v
	}
	el := time.Since(at.started)
	at.close()
	if el > w.timeout()/2 || !responsive() {
		w.abandon("harness-too-slow-for-pull-timeout")
		return nil
	}
	return pbt.V("pull/session-broken-before-play", "%s: attempt %d: the pull session's connection failed during the %s, %v after the trigger (pull timeout %v): %v", w.step, at.n, what, el.Round(time.Millisecond), w.timeout(), err)
}

// attemptEnded: an attempt that never attached is over; lal reports it with exactly one stop notification.
func (w *pullWorld) attemptEnded(at *attempt, why string) *pbt.Violation {
	w.m.inflight = false
	w.inflight = nil
	w.nStops++
	// lal is entitled to its pull timeout, counted from the moment the attempt started
	left := time.Until(at.started.Add(w.timeout()))
	if left < 0 {
		left = 0
	}
	pt := newPatience(left)
	if !w.waitEvents(w.nStarts, w.nStops, pt) {
		if v := w.s.PanicViolation(); v != nil {
			return v
		}
		return pt.verdict(pbt.V("pull/attempt-end-not-reported", "%s: attempt %d ended (%s) but no stop notification arrived within %v (pull timeout %v)", w.step, at.n, why, time.Since(at.started).Round(time.Millisecond), w.timeout()))
	}
	starts, stops := w.pullEvents()
	if len(starts) > w.nStarts {
		return pbt.V("pull/attached-unexpectedly", "%s: attempt %d ended (%s) yet a pull session %s was attached", w.step, at.n, why, starts[len(starts)-1])
	}
	at.id = stops[w.nStops-1]
	if at.apiID != "" && at.id != at.apiID {
		return pbt.V("api/start-session-id-differs", "%s: start_relay_pull answered session %s, the attempt it started is reported as %s", w.step, at.apiID, at.id)
	}
	w.staleIDs = append(w.staleIDs, at.id)
	at.close()
	return nil
}

// sessionClosed: the attached pull session must be closed now (reason: window expired, API stop, kick, origin closed).
func (w *pullWorld) sessionClosed(reason string) *pbt.Violation {
	at := w.attached
	pt := newPatience(0)
	if !closedPatient(at, pt) {
		return pt.verdict(pbt.V("pull/session-not-closed/"+reason, "%s: the attached pull session %s must be closed (%s) but its connection to the origin was still open %v later", w.step, at.id, reason, pt.waited()))
	}
	w.attached = nil
	w.m.attached = false
	w.nStops++
	pt = newPatience(0)
	if !w.waitEvents(w.nStarts, w.nStops, pt) {
		return pt.verdict(pbt.V("pull/stop-not-reported", "%s: pull session %s was closed (%s) but no stop notification arrived within %v", w.step, at.id, reason, pt.waited()))
	}
	_, stops := w.pullEvents()
	if got := stops[w.nStops-1]; got != at.id {
		return pbt.V("pull/stop-reported-for-other-session", "%s: pull session %s was closed (%s) but the stop notification names %s", w.step, at.id, reason, got)
	}
	w.staleIDs = append(w.staleIDs, at.id)
	at.close()
	if sg := w.s.SM.StatGroup(w.name); sg != nil && sg.StatPull.SessionId != "" {
		return pbt.V("pull/session-still-listed", "%s: pull session %s was closed (%s) but the stat API still lists pull session %q", w.step, at.id, reason, sg.StatPull.SessionId)
	}
	return nil
}

// resolve releases the origin's answer for the attempt in flight.
func (w *pullWorld) resolve() *pbt.Violation {
	at := w.inflight
	if at == nil {
		return nil
	}
	oc := at.outcome
	if (oc == ocPlay || oc == ocPlayClose) && time.Since(at.started) > w.timeout()/2 {
		oc = ocStall // too close to lal's timeout for an unambiguous answer: let it expire instead
		pbt.Count("pull/answer-converted-to-stall", 1)
	}
	switch oc {
	case ocStall:
		return w.attemptEnded(at, "the origin never answered play; lal's pull timeout")
	case ocLateClose:
		at.close()
		return w.attemptEnded(at, "the origin closed after the play / DESCRIBE request")
	}
	if at.rc != nil {
		// what the RTMP / FLV subscribers have received so far (a later check looks only at what comes after the answer)
		at.recMarks = map[*viewer]int{}
		for _, vw := range w.subs {
			if vw.c != nil {
				at.recMarks[vw] = len(vw.c.Recs())
			}
		}
		if err := at.rc.AnswerDescribe(originSdp()); err != nil {
			return w.stubTrouble(at, "DESCRIBE answer", err)
		}
	} else if err := at.conn.AcceptPlay(); err != nil {
		return w.stubTrouble(at, "play answer", err)
	}
	may := w.m.mayAttach()
	pt := newPatience(0)
	for {
		starts, stops := w.pullEvents()
		if len(starts) > w.nStarts {
			// attached
			id := starts[len(starts)-1]
			if !may {
				why := "the pull had been stopped through the API while the attempt was connecting"
				sig := "pull/attached-after-stop"
				if w.m.pub {
					why, sig = "a publisher had taken the stream", "pull/attached-over-publisher"
				}
				return pbt.V(sig, "%s: the origin answered play for attempt %d and lal attached pull session %s although %s", w.step, at.n, id, why)
			}
			at.id = id
			if at.apiID != "" && at.id != at.apiID {
				return pbt.V("api/start-session-id-differs", "%s: start_relay_pull answered session %s, the session that attached is %s", w.step, at.apiID, at.id)
			}
			w.nStarts++
			w.inflight, w.attached = nil, at
			w.m.inflight, w.m.attached = false, true
			if time.Since(at.started) > w.timeout()*8/10 {
				// lal's pull timeout may have fired together with the answer (its select picks either): not a state to build on
				w.abandon("harness-too-slow-for-pull-timeout")
				return nil
			}
			break
		}
		if len(stops) > w.nStops {
			if may {
				if time.Since(at.started) > w.timeout()*8/10 {
					w.m.inflight, w.inflight = false, nil
					at.close()
					w.abandon("harness-too-slow-for-pull-timeout")
					return nil
				}
				return pbt.V("pull/not-attached", "%s: the origin answered play for attempt %d %v after the trigger (pull timeout %v) while the pull was enabled and the stream had no input, but lal dropped the session %s", w.step, at.n, time.Since(at.started), w.timeout(), stops[len(stops)-1])
			}
			if v := w.attemptEnded(at, "answered play, but the pull may no longer attach"); v != nil || w.abandoned != "" {
				return v
			}
			if at.rc != nil {
				return w.refusedPullLeftNoTrace(at)
			}
			return nil
		}
		if pt.over() {
			if v := w.s.PanicViolation(); v != nil {
				return v
			}
			return pt.verdict(pbt.V("pull/answer-ignored", "%s: the origin answered play for attempt %d but lal neither attached nor stopped the session within %v", w.step, at.n, pt.waited()))
		}
		time.Sleep(200 * time.Microsecond)
	}
	if at.rc != nil {
		// lal attaches an rtsp pull at the DESCRIBE answer and goes on with SETUP / PLAY inside the same pull timeout
		pt := newPatience(0)
		ok := patient(pt, func() bool {
			select {
			case <-at.rc.played:
				return true
			case <-at.rc.gone:
				return true
			default:
				return false
			}
		})
		select {
		case <-at.rc.played:
		default:
			if time.Since(at.started) > w.timeout()*8/10 || !ok && !pt.proven {
				w.abandon("harness-too-slow-for-pull-timeout")
				return nil
			}
			return pbt.V("pull/rtsp-session-not-played", "%s: rtsp pull session %s attached at the DESCRIBE answer but never completed SETUP / PLAY (%v after the trigger, pull timeout %v)", w.step, at.id, time.Since(at.started).Round(time.Millisecond), w.timeout())
		}
		if time.Since(at.started) > w.timeout()*8/10 {
			w.abandon("harness-too-slow-for-pull-timeout")
			return nil
		}
		if oc == ocPlayClose {
			at.close()
			return w.sessionClosed("origin-closed")
		}
		return nil
	}
	// media flows
	w.marker++
	mk := []byte{0xAF, 1, 0xC1, 0x17, byte(w.marker >> 8), byte(w.marker), 0xAA}
	if err := w.attached.conn.SendMedia(rtmpref.TypeAudio, w.marker, mk); err != nil {
		return pbt.V("pull/session-closed-early", "%s: pull session %s attached but its connection is closed: %v", w.step, w.attached.id, err)
	}
	for i, vw := range w.subs {
		if vw.c == nil {
			continue // delivery into TS / RTSP is C06's subject
		}
		sb := vw.c
		pt := newPatience(0)
		got := false
		for !got && !sb.Ended() && !pt.over() {
			got = sb.WaitFor(func(r lalclient.Rec) bool { return bytes.Equal(r.Payload, mk) }, 100*time.Millisecond) >= 0
		}
		if !got {
			return pt.verdict(pbt.V("pull/media-not-delivered", "%s: a marker streamed by the origin through pull session %s did not reach subscriber %d (%s)", w.step, w.attached.id, i, sb.Kind))
		}
	}
	if oc == ocPlayClose {
		w.attached.close()
		return w.sessionClosed("origin-closed")
	}
	return nil
}

// refusedPullLeftNoTrace: an rtsp pull whose DESCRIBE answer arrived after the stream had got another input (or after the
// pull had been stopped) was refused; the origin's sdp must not have been installed in the stream: an RTSP player that
// asks now is not told the refused origin's parameter sets, and the accepted input's pipeline was not re-initialised with
// them (no sequence header carrying them reaches an RTMP / FLV subscriber).
func (w *pullWorld) refusedPullLeftNoTrace(at *attempt) *pbt.Violation {
	_, sps0, _ := gen.ParamSets("avc", 0) // what originSdp() describes
	conn := w.s.RtspConn()
	if _, err := rtspref.NewClient(conn).WriteRequest("DESCRIBE", "rtsp://127.0.0.1:5544/live/"+w.name, map[string]string{"Accept": "application/sdp"}, nil); err != nil {
		lalclient.Harness("rtsp describe: %v", err)
	}
	conn.WaitPeerIdle(lalclient.IdleTimeout)
	var raw []byte
	for k := 0; k < 20; k++ {
		raw = append(raw, conn.ReadAvailable()...)
		if bytes.Contains(raw, []byte("\r\n\r\n")) {
			break
		}
		time.Sleep(time.Millisecond)
	}
	_ = conn.Close()
	conn.WaitPeerDone(lalclient.IdleTimeout)
	if i := bytes.Index(raw, []byte("\r\n\r\n")); i >= 0 && len(raw) > i+4 {
		if sess, err := sdpref.Parse(raw[i+4:]); err == nil {
			if tracks, err := sess.Tracks(); err == nil {
				for _, t := range tracks {
					for _, n := range t.SPS {
						if bytes.Equal(n, sps0) {
							return pbt.V("pull/refused-pull-sdp-installed", "%s: rtsp pull attempt %d was refused when its DESCRIBE answer arrived (publisher present=%v, pull enabled=%v), yet an RTSP player that asks for the stream now is told the refused origin's sdp (sps % x)", w.step, at.n, w.m.pub, w.m.enabled(), n)
						}
					}
				}
			}
		}
	}
	for i, vw := range w.subs {
		if vw.c == nil {
			continue
		}
		recs := vw.c.Recs()
		if n, ok := at.recMarks[vw]; !ok || n > len(recs) {
			continue
		} else {
			recs = recs[n:]
		}
		for _, r := range recs {
			if r.Type == gen.TypeVideo && len(r.Payload) > 5 && r.Payload[0] == 0x17 && r.Payload[1] == 0 && bytes.Contains(r.Payload, sps0) {
				return pbt.V("pull/refused-pull-sdp-installed", "%s: rtsp pull attempt %d was refused when its DESCRIBE answer arrived, yet subscriber %d (%s) received a video sequence header carrying the refused origin's sps: the accepted input's pipeline was re-initialised with the refused sdp", w.step, at.n, i, vw.kind)
			}
		}
	}
	return nil
}

// originSdp is what the scripted RTSP origin describes: one H.264 track.
func originSdp() []byte {
	_, sps, pps := gen.ParamSets("avc", 0)
	return rtspref.BuildSdp([]rtspref.Track{{Media: "video", PT: 96, Encoding: "H264", ClockRate: 90000, Fmtp: rtspref.H264Fmtp(sps, pps), Control: "streamid=0"}})
}

func (w *pullWorld) doAct(a Act) *pbt.Violation {
	s := w.s
	switch a.K {
	case "sub":
		t0 := time.Now()
		vw := &viewer{kind: viewerKinds[a.S%len(viewerKinds)]}
		switch vw.kind {
		case "rtmp":
			vw.c = lalclient.NewRtmpSub(s, "live", w.name)
			vw.conn = vw.c.Conn
		case "flv":
			vw.c = lalclient.NewFlvSub(s, "live", w.name, false)
			vw.conn = vw.c.Conn
		case "ts":
			vw.conn = lalclient.NewTsSub(s, "live", w.name).Conn
		case "rtsp":
			// an RTSP player that has sent DESCRIBE: lal lists it among the stream's subscribers from then on (it can
			// only go on to PLAY once the stream has an sdp); it is not one of the pull triggers (Group.addSub runs at PLAY)
			vw.conn = s.RtspConn()
			if _, err := rtspref.NewClient(vw.conn).WriteRequest("DESCRIBE", "rtsp://127.0.0.1:5544/live/"+w.name, map[string]string{"Accept": "application/sdp"}, nil); err != nil {
				lalclient.Harness("rtsp describe: %v", err)
			}
			vw.conn.WaitPeerIdle(lalclient.IdleTimeout)
		}
		t1 := time.Now()
		if vw.c != nil && vw.c.JoinErr() != nil || vw.conn.PeerGone() {
			if v := s.PanicViolation(); v != nil {
				return v
			}
			w.abandon("subscriber-join-failed") // admission of subscribers is not C17's subject
			return nil
		}
		w.created(t0, t1)
		w.subs = append(w.subs, vw)
		w.m.subs++
		if vw.kind != "rtsp" && w.m.want(false) {
			return w.expectAttempt(t0, "")
		}
	case "leave":
		if len(w.subs) == 0 {
			return nil
		}
		i := a.S % len(w.subs)
		w.subs[i].leave()
		w.subs = append(w.subs[:i], w.subs[i+1:]...)
		w.m.subs--
	case "pub":
		if w.m.pub {
			return nil
		}
		wantAccepted := !w.m.attached
		t0 := time.Now()
		accepted := false
		switch pubKind(a.S, w.m.static, w.m.exists) {
		case "rtmp":
			p := lalclient.NewPublisher(s, "live", w.name, 0)
			accepted = p.Err == nil
			if accepted && !wantAccepted && p.Conn.WaitPeerDone(lalclient.IdleTimeout) {
				accepted = false // the publish status precedes admission; the refusal is the disconnect
			}
			if accepted {
				// sequence headers (parameter sets other than the scripted RTSP origin's), so that the stream has an sdp
				_, sps1, pps1 := gen.ParamSets("avc", 1)
				_ = p.Send(gen.TypeVideo, 0, append([]byte{0x17, 0, 0, 0, 0}, gen.AvcSeqHeaderBody(sps1, pps1)...), 0)
				_ = p.Send(gen.TypeAudio, 0, append([]byte{0xAF, 0}, gen.Asc(2, 4, 2)...), 0)
				p.WaitIdle()
				w.pub = p
			} else {
				p.Close()
			}
		case "rtsp":
			conn := s.RtspConn()
			_ = conn.SetReadDeadline(time.Now().Add(longWait))
			_, sps, pps := gen.ParamSets("avc", 1) // other parameter sets than the scripted RTSP origin's
			tracks := []rtspref.Track{{Media: "video", PT: 96, Encoding: "H264", ClockRate: 90000, Fmtp: rtspref.H264Fmtp(sps, pps), Control: "streamid=0"}}
			_, err := rtspref.NewClient(conn).Publish("rtsp://127.0.0.1:5544/live/"+w.name, tracks)
			_ = conn.SetReadDeadline(time.Time{})
			accepted = err == nil
			if accepted {
				conn.WaitPeerIdle(lalclient.IdleTimeout)
				w.pubRtsp = conn
			} else {
				_ = conn.Close()
				conn.WaitPeerDone(lalclient.IdleTimeout)
			}
		case "customize":
			var ctx logic.ICustomizePubSessionContext
			var err error
			s.Call("AddCustomizePubSession", func() { ctx, err = s.SM.AddCustomizePubSession(w.name) })
			accepted = err == nil && ctx != nil
			if accepted {
				w.pubCust = ctx
			}
		}
		t1 := time.Now()
		if v := s.PanicViolation(); v != nil {
			return v
		}
		w.created(t0, t1)
		if accepted != wantAccepted {
			w.abandon("publisher-admission-differs(C03)")
			return nil
		}
		w.m.pub = accepted
	case "unpub":
		if !w.m.pub {
			return nil
		}
		w.dropPublisher()
		w.m.pub = false
	case "sleep":
		if w.c.AutoStop <= 0 {
			return nil
		}
		d := time.Duration(w.c.AutoStop) * time.Millisecond
		if a.S%3 == 0 {
			time.Sleep(d / 5)
		} else {
			time.Sleep(d + 20*time.Millisecond)
		}
	case "tick":
		g := s.SM.GetGroup("", w.name)
		if g == nil {
			if w.m.exists {
				lalclient.Harness("group vanished")
			}
			return nil
		}
		w.tick++
		if w.tick%base.LogicCheckSessionAliveIntervalSec == 0 {
			w.tick++
		}
		n := w.tick
		t0 := time.Now()
		s.Call("Group.Tick", func() { g.Tick(n) })
		t1 := time.Now()
		if w.m.subs > 0 {
			w.lastSeenLo, w.lastSeenHi = t0, t1
		}
		exp, amb := w.expired(t0, t1)
		if amb {
			w.abandon("auto-stop-window-boundary-too-close")
			return nil
		}
		if exp {
			w.m.stopReset()
			if w.attached != nil {
				return w.sessionClosed("window-expired")
			}
			return nil
		}
		if w.m.want(false) {
			return w.expectAttempt(t0, "")
		}
	case "start":
		if w.m.static {
			return nil
		}
		if w.m.apiEnabled && !w.m.inflight && !w.m.attached && !w.m.pub && w.m.budget >= 0 && w.m.used > w.m.budget {
			pbt.Count("pull/skipped-restart-of-exhausted-pull", 1)
			return nil // whether a repeated start refills the budget of a pull that is still enabled is not stated
		}
		req := base.ApiCtrlStartRelayPullReq{Url: w.url, StreamName: w.name, PullTimeoutMs: w.c.Timeout, PullRetryNum: w.c.Budget, AutoStopPullAfterNoOutMs: w.c.AutoStop}
		t0 := time.Now()
		code, id := w.api.start(req)
		t1 := time.Now()
		if v := s.PanicViolation(); v != nil {
			return v
		}
		if code == apiUnreachable {
			w.abandon("http-api-unreachable")
			return nil
		}
		if code == apiUndecodable {
			return pbt.V("api/http-answer-undecodable", "%s: the HTTP-API answered with something that is not the JSON document it promises: %q", w.step, clip(w.api.body()))
		}
		w.created(t0, t1)
		w.m.apiEnabled = true
		w.m.budget, w.m.autoStop = w.c.Budget, w.c.AutoStop
		exp, amb := w.expired(t0, t1)
		if amb {
			w.abandon("auto-stop-window-boundary-too-close")
			return nil
		}
		if w.m.want(exp) {
			if code != base.ErrorCodeSucc || id == "" {
				return pbt.V("api/start-refused", "%s: start_relay_pull answered %d (session %q) although the pull is now enabled, the stream has no input, nothing is in flight, the budget is fresh (%d used of %d) and the auto-stop rule allows it (consumers %d, auto-stop %d)", w.step, code, id, w.m.used, w.m.budget, w.m.subs, w.m.autoStop)
			}
			return w.expectAttempt(t0, id)
		}
		if code == base.ErrorCodeSucc {
			return pbt.V("api/start-success-without-attempt", "%s: start_relay_pull answered success (session %q) although no attempt may be made now (input: publisher=%v pull=%v, in flight=%v, used %d of budget %d, consumers %d, auto-stop %d expired=%v)", w.step, id, w.m.pub, w.m.attached, w.m.inflight, w.m.used, w.m.budget, w.m.subs, w.m.autoStop, exp)
		}
		if code != base.ErrorCodeStartRelayPullFail {
			return pbt.V("api/start-wrong-code", "%s: start_relay_pull could not start an attempt and answered %d, want %d", w.step, code, base.ErrorCodeStartRelayPullFail)
		}
	case "stop":
		code, id := w.api.stop(w.name)
		if v := s.PanicViolation(); v != nil {
			return v
		}
		if code == apiUnreachable {
			w.abandon("http-api-unreachable")
			return nil
		}
		if code == apiUndecodable {
			return pbt.V("api/http-answer-undecodable", "%s: the HTTP-API answered with something that is not the JSON document it promises: %q", w.step, clip(w.api.body()))
		}
		if !w.m.exists {
			if code != base.ErrorCodeGroupNotFound {
				return pbt.V("api/stop-wrong-code", "%s: stop_relay_pull for a stream that does not exist answered %d (session %q), want %d", w.step, code, id, base.ErrorCodeGroupNotFound)
			}
			return nil
		}
		w.m.apiEnabled = false
		w.m.stopReset()
		if w.attached != nil {
			if code != base.ErrorCodeSucc || id != w.attached.id {
				return pbt.V("api/stop-wrong-answer", "%s: stop_relay_pull with pull session %s attached answered %d (session %q)", w.step, w.attached.id, code, id)
			}
			return w.sessionClosed("api-stop")
		}
		if code != base.ErrorCodeSessionNotFound || id != "" {
			return pbt.V("api/stop-wrong-answer", "%s: stop_relay_pull without an attached pull session answered %d (session %q), want %d", w.step, code, id, base.ErrorCodeSessionNotFound)
		}
	case "kick":
		id := "RTMPPULL99999"
		switch kickTarget(a.S, w.attached != nil, w.inflight != nil && w.inflight.apiID != "", len(w.staleIDs) > 0) {
		case "attached":
			id = w.attached.id
		case "inflight":
			id = w.inflight.apiID
		case "stale":
			id = w.staleIDs[len(w.staleIDs)-1]
		}
		code := w.api.kick(w.name, id)
		if v := s.PanicViolation(); v != nil {
			return v
		}
		if code == apiUnreachable {
			w.abandon("http-api-unreachable")
			return nil
		}
		if code == apiUndecodable {
			return pbt.V("api/http-answer-undecodable", "%s: the HTTP-API answered with something that is not the JSON document it promises: %q", w.step, clip(w.api.body()))
		}
		if !w.m.exists {
			if code != base.ErrorCodeGroupNotFound {
				return pbt.V("api/kick-wrong-code", "%s: kick_session for a stream that does not exist answered %d, want %d", w.step, code, base.ErrorCodeGroupNotFound)
			}
			return nil
		}
		if w.attached != nil && id == w.attached.id {
			if code != base.ErrorCodeSucc {
				return pbt.V("api/kick-wrong-answer", "%s: kick of the attached pull session %s answered %d", w.step, id, code)
			}
			w.m.apiEnabled = false
			w.m.stopReset()
			return w.sessionClosed("kick")
		}
		if code != base.ErrorCodeSessionNotFound {
			return pbt.V("api/kick-wrong-answer", "%s: kick of %s, which is not an attached session of the stream, answered %d, want %d", w.step, id, code, base.ErrorCodeSessionNotFound)
		}
	case "proceed":
		return w.resolve()
	}
	return nil
}

func (w *pullWorld) dropPublisher() {
	switch {
	case w.pub != nil:
		w.pub.Close()
		w.pub.Conn.WaitPeerDone(lalclient.IdleTimeout)
		w.pub = nil
	case w.pubRtsp != nil:
		_ = w.pubRtsp.Close()
		w.pubRtsp.WaitPeerDone(lalclient.IdleTimeout)
		w.pubRtsp = nil
	case w.pubCust != nil:
		ctx := w.pubCust
		w.s.Call("DelCustomizePubSession", func() { w.s.SM.DelCustomizePubSession(ctx) })
		w.pubCust = nil
	}
}

// invariant: after quiescence the origin and the notification recorder have seen exactly what the rules demand.
func (w *pullWorld) invariant() *pbt.Violation {
	if n := w.seenAtOrigin(); n > w.nAttempts {
		return pbt.V("pull/unexpected-attempt", "after %s: the origin has seen %d connection attempts, the rules allow %d (enabled=%v publisher=%v attached=%v in flight=%v used %d of budget %d consumers %d auto-stop %d)", w.step, n, w.nAttempts,
			w.m.enabled(), w.m.pub, w.m.attached, w.m.inflight, w.m.used, w.m.budget, w.m.subs, w.m.autoStop)
	}
	starts, stops := w.pullEvents()
	if len(starts) > w.nStarts || len(stops) > w.nStops {
		if w.inflightUnsafe() {
			w.abandon("harness-too-slow-for-pull-timeout")
			return nil
		}
		return pbt.V("pull/unexpected-session-event", "after %s: %d pull start / %d pull stop notifications, the rules demand %d / %d (last start %v, last stop %v)", w.step, len(starts), len(stops), w.nStarts, w.nStops, last(starts), last(stops))
	}
	return nil
}

func last(s []string) string {
	if len(s) == 0 {
		return "-"
	}
	return s[len(s)-1]
}

func runPull(c PullCase) *pbt.Violation {
	v := runPull0(c)
	if v == abandonV {
		pbt.Count("pull/abandoned:machine-unresponsive", 1)
		return nil
	}
	return v
}

func runPull0(c PullCase) *pbt.Violation {
	origin, err := NewRtmpStub()
	if err != nil {
		lalclient.Harness("stub listen: %v", err)
	}
	defer origin.Close()
	cfg := inproc.Config{RtmpGopNum: 1, FlvGopNum: 1}
	if c.Static {
		logic.StaticRelayPullTimeoutMs = c.Timeout
		cfg.PullAddr = origin.Addr
	}
	s := inproc.New(cfg)
	defer s.Close()
	w := &pullWorld{c: c, s: s, origin: origin, name: "c17pull"}
	w.url = "rtmp://" + origin.Addr + "/live/" + w.name
	if c.Rtsp {
		ro, err := newRtspOrigin()
		if err != nil {
			lalclient.Harness("rtsp origin listen: %v", err)
		}
		defer ro.Close()
		w.rorigin = ro
		w.url = "rtsp://" + ro.Addr + "/live/" + w.name
	}
	w.m = pm{static: c.Static, budget: c.Budget, autoStop: c.AutoStop}
	if c.Http {
		w.api = newHTTPAPI(s)
	} else {
		w.api = directAPI{s}
	}
	for ai, a := range c.Acts {
		w.step = fmt.Sprintf("action %d %s/%d", ai, a.K, a.S)
		// an attempt that has been held for a while is let run into lal's timeout before anything else happens,
		// so that "in flight" is never a guess
		if w.inflight != nil && a.K != "proceed" && time.Since(w.inflight.started) > w.timeout()/2 {
			w.step = fmt.Sprintf("before action %d (attempt %d left to lal's pull timeout)", ai, w.inflight.n)
			w.inflight.outcome = ocStall
			if v := w.resolve(); v != nil {
				return v
			}
			w.step = fmt.Sprintf("action %d %s/%d", ai, a.K, a.S)
		}
		hadInflight := w.inflight
		v := w.doAct(a)
		if w.abandoned != "" {
			break
		}
		if v != nil {
			return v
		}
		if v := s.PanicViolation(); v != nil {
			return v
		}
		if hadInflight != nil && w.inflight == hadInflight && w.inflightUnsafe() {
			w.abandon("harness-too-slow-for-pull-timeout")
			break
		}
		if v := w.invariant(); v != nil {
			return v
		}
		if w.abandoned != "" {
			break
		}
	}
	if w.abandoned == "" {
		// late effects of the last actions
		time.Sleep(10 * time.Millisecond)
		w.step = "the last action (settled)"
		if v := w.invariant(); v != nil {
			return v
		}
	}
	if w.abandoned != "" {
		pbt.Count("pull/abandoned:"+w.abandoned, 1)
	}
	// teardown (nothing is asserted from here on)
	if w.inflight != nil {
		w.inflight.close()
	}
	if w.attached != nil {
		w.attached.close()
	}
	for _, sb := range w.subs {
		_ = sb.conn.Close()
	}
	w.dropPublisher()
	return s.PanicViolation()
}

// ---- classification: an abstract run of the reference machine with a virtual clock ------------------------

// sim runs the reference machine over a case without lal and without a real clock (sleeps advance a virtual one);
// it labels the case and tells the generator which state the history has reached.
type sim struct {
	c               *PullCase
	m               pm
	clock, lastSeen int // virtual ms
	outIdx          int
	inflightOutcome int
	inflightByAPI   bool
	ended           int  // attempts / sessions that are over (their ids are stale)
	failed          bool // an attempt has failed and no tick has happened since
	nt              bool
	labels          []string
	seq             []string
}

func newSim(c *PullCase) *sim {
	return &sim{c: c, m: pm{static: c.Static, budget: c.Budget, autoStop: c.AutoStop}}
}

func (s *sim) label(l string) { s.labels = append(s.labels, l) }

func (s *sim) expired() bool {
	if s.m.autoStop < 0 || s.m.subs > 0 {
		return false
	}
	return s.m.autoStop == 0 || s.clock-s.lastSeen >= s.m.autoStop
}

func (s *sim) create() {
	if !s.m.exists {
		s.m.exists = true
		s.lastSeen = s.clock
	}
}

func (s *sim) attempt(byAPI bool) {
	s.m.attempt()
	o := s.c.Outcomes[s.outIdx%len(s.c.Outcomes)]
	s.outIdx++
	s.label("outcome:" + ocNames[o])
	if len(s.seq) < 2 {
		s.seq = append(s.seq, ocNames[o])
	}
	if o == ocRefuse {
		s.m.inflight = false
		s.failed = true
		s.ended++
		return
	}
	s.inflightOutcome, s.inflightByAPI = o, byAPI
}

func (s *sim) resolve() {
	if !s.m.inflight {
		return
	}
	s.m.inflight = false
	switch s.inflightOutcome {
	case ocStall, ocLateClose:
		s.failed = true
		s.ended++
	default:
		switch {
		case s.m.pub:
			s.label("publisher-overtakes-pull")
			if s.c.Rtsp {
				s.label("rtsp-pull-refused-at-describe-answer")
			}
			s.nt = true
			s.ended++
		case !s.m.enabled():
			s.label("answer-after-api-stop")
			if s.c.Rtsp {
				s.label("rtsp-pull-refused-at-describe-answer")
			}
			s.ended++
		case s.inflightOutcome == ocPlayClose:
			s.label("origin-closes-attached-pull")
			s.failed = true
			s.ended++
		default:
			s.m.attached = true
			s.label("pull-attached")
		}
	}
}

// kickTarget: which id the kick action addresses (the run uses the same rule).
func kickTarget(sel int, attached, inflightByAPI, stale bool) string {
	var ids []string
	if attached {
		ids = append(ids, "attached", "attached")
	}
	if inflightByAPI {
		ids = append(ids, "inflight")
	}
	if stale {
		ids = append(ids, "stale")
	}
	ids = append(ids, "unknown")
	return ids[sel%len(ids)]
}

func (s *sim) apply(a Act) {
	m := &s.m
	switch a.K {
	case "sub":
		s.create()
		m.subs++
		kind := viewerKinds[a.S%len(viewerKinds)]
		s.label("consumer:" + kind)
		if kind == "rtsp" {
			if m.want(false) {
				s.label("rtsp-consumer-waits-for-tick")
			}
		} else if m.want(false) {
			s.attempt(false)
			s.label("attempt-on-subscriber")
		}
	case "leave":
		if m.subs > 0 {
			m.subs--
		}
	case "pub":
		kind := pubKind(a.S, m.static, m.exists)
		s.create()
		if !m.pub && !m.attached {
			m.pub = true
			s.label("publisher:" + kind)
			if m.inflight {
				s.label("publisher-while-pull-in-flight:" + kind)
			}
		}
	case "unpub":
		m.pub = false
	case "sleep":
		if s.c.AutoStop > 0 {
			if a.S%3 == 0 {
				s.clock += s.c.AutoStop / 5
			} else {
				s.clock += s.c.AutoStop + 20
			}
		}
	case "tick":
		if !m.exists {
			return
		}
		if s.failed {
			s.label("failed-attempt-then-tick")
			s.nt = true
			s.failed = false
		}
		if m.subs > 0 {
			s.lastSeen = s.clock
		}
		switch {
		case s.expired():
			m.stopReset()
			if m.attached {
				m.attached = false
				s.ended++
				s.label("auto-stop-closes-pull")
			} else if m.enabled() {
				s.label("auto-stop-blocks-attempt")
			}
		case m.want(false):
			s.attempt(false)
			s.label("attempt-on-tick")
		case m.enabled() && !m.pub && !m.attached && !m.inflight && m.budget >= 0 && m.used > m.budget:
			s.label("budget-exhausted-at-tick")
		}
	case "start":
		if m.static {
			return
		}
		if m.apiEnabled && !m.inflight && !m.attached && !m.pub && m.budget >= 0 && m.used > m.budget {
			return
		}
		s.create()
		m.apiEnabled = true
		if m.want(s.expired()) {
			s.attempt(true)
			s.label("attempt-on-api-start")
		} else {
			s.label("api-start-refused")
		}
	case "stop":
		if !m.exists {
			return
		}
		m.apiEnabled = false
		m.stopReset()
		if m.attached {
			m.attached = false
			s.ended++
			s.label("api-stop-closes-pull")
		}
		if m.inflight {
			s.label("api-stop-while-in-flight")
		}
	case "kick":
		if !m.exists {
			return
		}
		tg := kickTarget(a.S, m.attached, m.inflight && s.inflightByAPI, s.ended > 0)
		s.label("kick:" + tg)
		if tg == "attached" {
			m.attached = false
			m.apiEnabled = false
			m.stopReset()
			s.ended++
		}
	case "proceed":
		s.resolve()
	}
}

func classifyPull(c PullCase) (bool, []string) {
	s := newSim(&c)
	s.label("pull")
	if c.Static {
		s.label("mode:static")
	} else {
		s.label("mode:api")
	}
	if c.Http {
		s.label("api-over-http")
	}
	if c.Rtsp {
		s.label("pull-url:rtsp")
	} else {
		s.label("pull-url:rtmp")
	}
	switch {
	case c.Budget < 0:
		s.label("budget:forever")
	case c.Budget == 0:
		s.label("budget:never")
	default:
		s.label("budget:n")
	}
	switch {
	case c.AutoStop < 0:
		s.label("auto-stop:never")
	case c.AutoStop == 0:
		s.label("auto-stop:immediately")
	default:
		s.label("auto-stop:after-t")
	}
	for _, a := range c.Acts {
		s.apply(a)
	}
	if len(s.seq) > 0 {
		s.label("outcome-seq:" + strings.Join(s.seq, ","))
	} else {
		s.label("outcome-seq:none")
	}
	return s.nt, uniq(s.labels)
}

// TestPullRules is the last test of the file: pbt counters are process-global.
func TestPullRules(t *testing.T) {
	pbt.Run(t, pbt.Spec[PullCase]{
		ID: "C17", Name: "pull-rules", Gen: genPullCase, Run: runPull, Classify: classifyPull,
		Quick: 240, Thorough: 1500, Isolate: true,
	})
}
