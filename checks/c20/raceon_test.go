//go:build race

package c20

// Compiled only with -race: lets the child assert that its main oracle is switched on.
func init() { raceDetectorOn = true }
