// C20 — concurrent sessions, API calls, ticks and shutdown are race- and deadlock-free.
//
// The case is a WORKLOAD: k = 2-8 worker goroutines, each with a generated
// operation list (publishers of four kinds, subscribers of every protocol,
// leave, kick, stat calls, relay pull start/stop against a stub origin, GB28181
// rtp pub, customize pub, ip blacklist, HLS requests, direct Group.Tick /
// Has*Session calls, generated yields and microsecond sleeps), a ticker
// goroutine (Group.Tick / StatAllGroup) and — in part of the cases — a
// ServerManager.Dispose issued while the workers are still running, all against
// ONE real in-process lal server and 1-3 stream names.  The workload is executed
// 3-10 times (generated) with varying GOMAXPROCS.
//
// Every repetition runs in a CHILD process of its own (this test binary
// re-executed, built with -race; a lal process has exactly one ServerManager —
// a second one re-initialises the global logger under the feet of the first
// one's goroutines): the parent streams the child's stderr and turns
//   - a race detector report into `data-race@<lal function>|<lal function>`
//     (the innermost lal functions of the two conflicting accesses, sorted),
//   - a runtime fatal / unrecovered panic into `process-death@<lal function>`,
//
// and reads the child's own verdict file for
//   - panics recovered in harness-owned session goroutines (`panic@<fn>`),
//   - the watchdog: an API call / admission / teardown that does not return and
//     goroutines parked on a mutex taken by lal code with the same stack in two
//     samples (`deadlock@<lal callers>`).
//
// Running the workload in a child (instead of letting the race detector kill
// the shard) lets the search continue behind known findings — all reports of
// a run are parsed and only signatures not listed in known_findings.json are
// reported — and makes replays able to see a race at all (the driver's replay
// does not know exit status 66).
//
// Level: exploration only.  The harness does NOT own the goroutine schedule; a
// clean run says "no race / deadlock on the schedules that happened", and a
// saved failure (workload + detector output) may not fail again when replayed
// (a replay repeats the workload several times to raise the probability).
//
// Not asserted: anything about delivered data, admission results, notification
// pairing (C01-C03, C16, C17); after Dispose has been issued only "every call
// returns and nothing panics" is required of lal.  A race report one of whose
// accesses is made by harness code (or by harness code called from lal, e.g.
// memconn) is a harness error, never a finding.
package c20

import (
	"bufio"
	"encoding/json"
	"fmt"
	"io"
	"math/rand"
	"os"
	"os/exec"
	"path/filepath"
	"sort"
	"strings"
	"sync"
	"testing"
	"time"

	"pgregory.net/rapid"

	"verif/drv/pbt"
	"verif/gen"
)

// Op is one worker operation.
type Op struct {
	Kind string `json:"k"`
	// pub pub-rtsp pub-cust sub-rtmp sub-flv sub-ws sub-ts sub-rtsp send leave kick stat stat-all lal-info
	// pull-start pull-stop rtp-pub blacklist hls-get tick has
	Name  int  `json:"n"`           // stream index
	Arg   int  `json:"a,omitempty"` // message count / selector / patience
	Fresh bool `json:"f,omitempty"` // use a one-off stream name (creates a new group)
	Pause int  `json:"p,omitempty"` // after the op: 0 nothing, 1 runtime.Gosched(), n>1: sleep n microseconds
}

// Case is the workload.
type Case struct {
	Names   int    `json:"names"`
	Workers [][]Op `json:"workers"`
	Reps    int    `json:"reps"`
	TickUs  int    `json:"tick_us"` // period of the ticker goroutine
	// DisposeAt > 0: ServerManager.Dispose is issued once that many worker operations have completed,
	// while the workers go on; 0: Dispose after the workers are done
	DisposeAt int `json:"dispose_at"`

	Gop        int  `json:"gop"`
	Merge      int  `json:"merge"`
	Hls        bool `json:"hls"`
	HlsCleanup int  `json:"hls_cleanup"`
	Hook       bool `json:"hook"`
	Push       bool `json:"push"`   // relay push to the stub
	Record     bool `json:"record"` // flv + ts recording
	L3         bool `json:"l3"`     // real ServerManager.RunLoop with an HLS listener on loopback (real 1 s tick loop, ip blacklist on the HLS path)
	OriginMode int  `json:"origin_mode"`
	DummyAudio bool `json:"dummy_audio,omitempty"`
	StaticPull bool `json:"static_pull,omitempty"` // static relay pull from the stub origin for every stream name
	// LingerMs: in the first repetition the workers keep their sessions that long after their last operation, so
	// that lal's own timers (1 s tick loop, HLS session sweep, delayed HLS cleanup, pull / push timeouts) fire
	// while sessions are attached
	LingerMs int `json:"linger_ms,omitempty"`
	// TickMode: what the ticker goroutine does every period. 0: ServerManager.VerifTick (= one iteration of RunLoop's
	// ticker: inactive groups are disposed and ERASED, the others ticked, under the manager lock); 1: alternately
	// VerifTick and Group.Tick without the manager lock; 2: Group.Tick only (no erasure outside the L3 variant)
	TickMode int `json:"tick_mode,omitempty"`
	// Notify: lal's own HTTP notify handler (queue + posting goroutine) stays in place, pointed at a loopback receiver
	// that answers after 0..NotifyDelayMs
	Notify        bool `json:"notify,omitempty"`
	NotifyDelayMs int  `json:"notify_delay_ms,omitempty"`
	// BlBurst > 0 (L3 only, first repetition): that many distinct addresses are black-listed for 0 / 1 s through the
	// API while the workers run, then — after 2.1 s of wall clock, when all of them have expired — several goroutines
	// issue HLS requests at the same moment: every request consults the blacklist (and sweeps its expired entries) in
	// a handler goroutine of its own
	BlBurst int `json:"bl_burst,omitempty"`
	// HlsRefuse > 0 (HLS cases): the admission callback (a wrapper around the manager's IAuthentication) refuses every
	// HlsRefuse-th HLS viewer; HLS sub-session mode is always on. A refused request (404) is fine, what follows it must
	// still be served.
	HlsRefuse int `json:"hls_refuse,omitempty"`
	// FpsClock: the harness owns nazalog.Clock (one second per published message): a group's 32-second video
	// frame statistics fill within the workload
	FpsClock bool `json:"fps_clock,omitempty"`
	// Codec: index into codecSets (what publishers and the origin carry); single inputs deviate (op argument)
	Codec int `json:"codec,omitempty"`
}

// raceDetectorOn is set by raceon_test.go (build tag race).
var raceDetectorOn bool

var opWeights = []struct {
	k string
	w int
}{
	{"pub", 10}, {"pub-rtsp", 5}, {"pub-cust", 4}, {"sub-rtmp", 6}, {"sub-flv", 5}, {"sub-ws", 3}, {"sub-ts", 4}, {"sub-rtsp", 5},
	{"send", 6}, {"leave", 10}, {"kick", 7}, {"stat", 5}, {"stat-all", 5}, {"lal-info", 1},
	{"pull-start", 7}, {"pull-stop", 4}, {"rtp-pub", 3}, {"blacklist", 3}, {"hls-get", 0}, {"tick", 4}, {"has", 4},
}

// opWeight: HLS requests only make sense with HLS on; with the real listener (L3) they also pass the ip blacklist,
// so blacklist updates get more weight there.
func opWeight(c Case, kind string, w int) int {
	switch {
	case kind == "hls-get" && c.Hls:
		return 20
	case kind == "blacklist" && c.L3:
		return 9
	}
	return w
}

func genCase(t *rapid.T) Case {
	c := Case{
		Names:      rapid.SampledFrom([]int{1, 1, 2, 3}).Draw(t, "names"),
		Reps:       rapid.IntRange(3, 10).Draw(t, "reps"),
		TickUs:     rapid.SampledFrom([]int{200, 500, 1000, 3000}).Draw(t, "tickUs"),
		Gop:        rapid.IntRange(0, 2).Draw(t, "gop"),
		Merge:      rapid.SampledFrom([]int{0, 0, 512}).Draw(t, "merge"),
		Hls:        rapid.Bool().Draw(t, "hls"),
		HlsCleanup: rapid.IntRange(0, 2).Draw(t, "hlsCleanup"),
		Hook:       rapid.Bool().Draw(t, "hook"),
		Push:       rapid.IntRange(0, 3).Draw(t, "push") == 0,
		Record:     rapid.IntRange(0, 3).Draw(t, "record") == 0,
		L3:         rapid.IntRange(0, 3).Draw(t, "l3") == 0,
		OriginMode: rapid.IntRange(0, 3).Draw(t, "originMode"),
		DummyAudio: rapid.IntRange(0, 4).Draw(t, "dummyAudio") == 0,
		StaticPull: rapid.IntRange(0, 5).Draw(t, "staticPull") == 0,
		LingerMs:   rapid.SampledFrom([]int{0, 0, 0, 0, 300, 1300}).Draw(t, "lingerMs"),
		TickMode:   rapid.SampledFrom([]int{0, 0, 0, 0, 0, 1, 1, 2}).Draw(t, "tickMode"),
		Notify:     rapid.IntRange(0, 2).Draw(t, "notify") == 0,
	}
	if c.Notify {
		c.NotifyDelayMs = rapid.SampledFrom([]int{0, 5, 50, 200}).Draw(t, "notifyDelayMs")
	}
	if c.L3 {
		c.Hls = true
	}
	var kinds []string
	for _, ow := range opWeights {
		for i := 0; i < opWeight(c, ow.k, ow.w); i++ {
			kinds = append(kinds, ow.k)
		}
	}
	// rapid biases every draw towards small values (the first kinds would dominate): the CONTENT of the operation lists
	// comes from a PRNG seeded by one rapid draw, only the sizes are rapid draws (so that shrinking still removes
	// workers and operations)
	rnd := rand.New(rand.NewSource(int64(rapid.Uint64().Draw(t, "opSeed"))))
	pauses := []int{0, 0, 0, 0, 0, 0, 1, 1, 1, 1, 20, 20, 200, 200, 1500, 1500, 60000, 260000}
	c.Codec = []int{0, 0, 0, 1, 2, 3, 4, 5, 6}[rnd.Intn(9)]
	c.FpsClock = rnd.Intn(3) == 0
	if c.Hls {
		c.HlsRefuse = []int{0, 0, 1, 2, 3}[rnd.Intn(5)]
	}
	if c.L3 {
		c.BlBurst = []int{0, 0, 30, 250}[rnd.Intn(4)]
	}
	k := rapid.IntRange(2, 8).Draw(t, "workers")
	maxOps := 10
	if pbt.Thorough() {
		maxOps = 18
	}
	total := 0
	for w := 0; w < k; w++ {
		n := rapid.IntRange(3, maxOps).Draw(t, "nops")
		var ops []Op
		for i := 0; i < n; i++ {
			op := Op{
				Kind:  kinds[rnd.Intn(len(kinds))],
				Name:  rnd.Intn(c.Names),
				Arg:   rnd.Intn(10),
				Pause: pauses[rnd.Intn(len(pauses))],
				Fresh: rnd.Intn(8) == 0,
			}
			ops = append(ops, op)
		}
		total += n
		c.Workers = append(c.Workers, ops)
	}
	if rapid.IntRange(0, 2).Draw(t, "disposeMid") == 0 {
		c.DisposeAt = 1 + rnd.Intn(total)
	}
	return c
}

var admission = map[string]bool{"pub": true, "pub-rtsp": true, "pub-cust": true, "sub-rtmp": true, "sub-flv": true, "sub-ws": true,
	"sub-ts": true, "sub-rtsp": true, "pull-start": true, "rtp-pub": true, "hls-get": true}

func codecLabel(cd gen.Codecs) string {
	v, a := cd.Video, cd.Audio
	if v == "" {
		v = "none"
	}
	if a == "" {
		a = "none"
	}
	if cd.Enhanced {
		v += "-enhanced"
	}
	return v + "+" + a
}

func classify(c Case) (bool, []string) {
	labels := []string{fmt.Sprintf("workers:%d", len(c.Workers)), fmt.Sprintf("names:%d", c.Names)}
	seen := map[string]bool{}
	// per stream name: which workers touch it, is there an admission
	touch := make([]map[int]bool, c.Names)
	adm := make([]bool, c.Names)
	for i := range touch {
		touch[i] = map[int]bool{}
	}
	overlap := c.DisposeAt > 0
	total := 0
	for wi, ops := range c.Workers {
		for _, op := range ops {
			total++
			seen["act:"+op.Kind] = true
			if op.Fresh {
				seen["fresh-name"] = true
				continue
			}
			n := op.Name % c.Names
			touch[n][wi] = true
			if admission[op.Kind] {
				adm[n] = true
			}
			if op.Kind == "kick" || op.Kind == "tick" {
				overlap = true
			}
		}
	}
	shared := false
	for n := range touch {
		if len(touch[n]) >= 2 && adm[n] {
			shared = true
		}
	}
	for k := range seen {
		labels = append(labels, k)
	}
	if c.DisposeAt > 0 {
		labels = append(labels, "dispose:while-workers-run")
	} else {
		labels = append(labels, "dispose:at-end")
	}
	for name, on := range map[string]bool{"hls": c.Hls, "hook": c.Hook, "push": c.Push, "record": c.Record, "l3": c.L3, "merge-write": c.Merge > 0,
		"dummy-audio": c.DummyAudio, "static-pull": c.StaticPull, "linger>=1s": c.LingerMs >= 1000, "linger": c.LingerMs > 0, "lal-http-notify": c.Notify, "blacklist-expiry-burst": c.BlBurst > 0, "fps-clock": c.FpsClock, "hls-viewer-refused": c.HlsRefuse > 0} {
		if on {
			labels = append(labels, "cfg:"+name)
		}
	}
	if c.Hls {
		labels = append(labels, fmt.Sprintf("hls-cleanup:%d", c.HlsCleanup))
	}
	labels = append(labels, fmt.Sprintf("tick-mode:%d", c.TickMode), "codec:"+codecLabel(codecSets[c.Codec%len(codecSets)]))
	for _, ops := range c.Workers {
		for _, op := range ops {
			switch {
			case op.Kind == "pub-rtsp" && op.Arg%3 == 2:
				seen["var:rtsp-pub-udp"] = true
			case op.Kind == "sub-rtsp" && op.Arg%3 == 1:
				seen["var:rtsp-sub-udp"] = true
			case op.Kind == "rtp-pub" && op.Arg%3 == 2:
				seen["var:rtp-pub-tcp"] = true
			case op.Kind == "pull-start" && op.Arg >= 7:
				seen["var:pull-rtsp"] = true
			}
		}
	}
	for k := range seen {
		if strings.HasPrefix(k, "var:") {
			labels = append(labels, k)
		}
	}
	sort.Strings(labels)
	return shared && overlap, labels
}

// ---- child protocol ----------------------------------------------------------------------------------------------

// verdict is what the child writes when it reaches a verdict of its own.
type verdict struct {
	Sig      string         `json:"sig,omitempty"`
	Detail   string         `json:"detail,omitempty"`
	Harness  string         `json:"harness,omitempty"` // harness-level problem (inconclusive)
	Done     bool           `json:"done"`
	Counters map[string]int `json:"counters,omitempty"`
}

func TestMain(m *testing.M) {
	if p := os.Getenv("C20_CHILD"); p != "" {
		childMain(p)
		os.Exit(0)
	}
	// failures here are schedule dependent: long shrinking buys little and every attempt costs a child process
	if os.Getenv("VERIF_SHRINKTIME") == "" {
		_ = os.Setenv("VERIF_SHRINKTIME", "10s")
	}
	os.Exit(m.Run())
}

var tmpSeq struct {
	sync.Mutex
	n int
}

type childOutcome struct {
	stderr   string
	exit     int
	killed   string // why the parent killed it ("" = it ended by itself)
	verdict  *verdict
	firstNew *raceReport // first race report whose signature is not a known finding
	all      []raceReport
	known    map[string]int
}

// runChild executes one repetition of the workload in a child process of its own: a real lal process has ONE
// ServerManager (it re-initialises the global logger), so a process never hosts two.
func runChild(c Case, rep int, filterKnown bool) childOutcome {
	tmpSeq.Lock()
	tmpSeq.n++
	n := tmpSeq.n
	tmpSeq.Unlock()
	dir := filepath.Join(os.TempDir(), fmt.Sprintf("c20-%d", os.Getpid()))
	_ = os.MkdirAll(dir, 0o755)
	casePath := filepath.Join(dir, fmt.Sprintf("case-%d.json", n))
	resPath := casePath + ".result"
	cb, _ := json.Marshal(c)
	if err := os.WriteFile(casePath, cb, 0o644); err != nil {
		panic(pbt.HarnessError{Msg: "write case: " + err.Error()})
	}
	defer os.Remove(casePath)
	defer os.Remove(resPath)

	cmd := exec.Command(os.Args[0])
	var env []string
	for _, e := range os.Environ() {
		if strings.HasPrefix(e, "GORACE=") || strings.HasPrefix(e, "C20_CHILD=") || strings.HasPrefix(e, "C20_REP=") || strings.HasPrefix(e, "VERIF_REPLAY=") || strings.HasPrefix(e, "GOMAXPROCS=") {
			continue
		}
		env = append(env, e)
	}
	// halt_on_error=0: all reports of the run are collected, the parent decides which are new
	procs := []int{8, 2, 4, 1, 16, 3}
	env = append(env, "C20_CHILD="+casePath, fmt.Sprintf("C20_REP=%d", rep), fmt.Sprintf("GOMAXPROCS=%d", procs[rep%len(procs)]),
		"GORACE=halt_on_error=0 exitcode=66 atexit_sleep_ms=0 history_size=3")
	cmd.Env = env
	cmd.Stdout = io.Discard
	pr, err := cmd.StderrPipe()
	if err != nil {
		panic(pbt.HarnessError{Msg: "stderr pipe: " + err.Error()})
	}
	if err := cmd.Start(); err != nil {
		panic(pbt.HarnessError{Msg: "start child: " + err.Error()})
	}
	out := childOutcome{known: map[string]int{}}
	var mu sync.Mutex
	var buf strings.Builder
	killOnce := sync.Once{}
	kill := func(why string) {
		killOnce.Do(func() {
			mu.Lock()
			out.killed = why
			mu.Unlock()
			_ = cmd.Process.Kill()
		})
	}
	readDone := make(chan struct{})
	go func() {
		defer close(readDone)
		r := bufio.NewReaderSize(pr, 64*1024)
		parsed := 0
		for {
			line, err := r.ReadString('\n')
			mu.Lock()
			buf.WriteString(line)
			var cur string
			if strings.HasPrefix(line, "==================") {
				cur = buf.String()
			}
			mu.Unlock()
			if cur != "" && completeRaceBlocks(cur) > parsed {
				reps := parseRaceReports(cur)
				for _, rp := range reps[parsed:] {
					rp := rp
					sig := rp.Sig()
					if !rp.Harness && filterKnown && pbt.IsKnown("C20", sig) {
						mu.Lock()
						out.known[sig]++
						mu.Unlock()
						continue
					}
					mu.Lock()
					first := out.firstNew == nil
					if first {
						out.firstNew = &rp
					}
					out.all = append(out.all, rp)
					mu.Unlock()
					if first && surveyDir == "" {
						kill("new race report")
					}
				}
				parsed = len(reps)
			}
			if err != nil {
				return
			}
		}
	}()
	// the child has its own watchdog (30 s per call); this is the backstop
	backstop := time.AfterFunc(240*time.Second, func() { kill("backstop timeout") })
	<-readDone
	werr := cmd.Wait()
	backstop.Stop()
	mu.Lock()
	out.stderr = buf.String()
	mu.Unlock()
	if werr != nil {
		if ee, ok := werr.(*exec.ExitError); ok {
			out.exit = ee.ExitCode()
		} else {
			out.exit = -2
		}
	}
	if b, err := os.ReadFile(resPath); err == nil {
		var v verdict
		if json.Unmarshal(b, &v) == nil {
			out.verdict = &v
		}
	}
	return out
}

func clip(s string, n int) string {
	if len(s) > n {
		return s[:n] + "...(truncated)"
	}
	return s
}

// judge turns the outcome of one child run into a violation (nil = nothing found).
func judge(o childOutcome) *pbt.Violation {
	if r := o.firstNew; r != nil {
		if r.Harness {
			panic(pbt.HarnessError{Msg: "data race inside the HARNESS (not a finding about lal):\n" + r.Text})
		}
		return pbt.V(r.Sig(), "%s", r.Text)
	}
	if o.killed == "backstop timeout" {
		panic(pbt.HarnessError{Msg: "child did not finish within the backstop timeout\n" + clip(o.stderr, 3000)})
	}
	if o.verdict != nil && o.verdict.Sig != "" {
		return &pbt.Violation{Sig: o.verdict.Sig, Detail: clip(o.verdict.Detail, 12000)}
	}
	if o.verdict != nil && o.verdict.Harness != "" {
		panic(pbt.HarnessError{Msg: o.verdict.Harness})
	}
	if what, fn, found := crashSite(o.stderr); found {
		if fn == "" {
			panic(pbt.HarnessError{Msg: "child crashed outside lal: " + what + "\n" + clip(o.stderr, 6000)})
		}
		i := strings.Index(o.stderr, what)
		return pbt.V("process-death@"+fn, "%s", clip(o.stderr[i:], 3500))
	}
	if o.verdict == nil || !o.verdict.Done {
		panic(pbt.HarnessError{Msg: fmt.Sprintf("child ended (exit %d, %s) without a verdict\n%s", o.exit, o.killed, clip(o.stderr, 4000))})
	}
	return nil
}

// surveyDir (development aid, C20_SURVEY=<dir>): nothing is reported; every distinct signature seen is written to
// <dir>/<signature>.txt with its first report, so that one run lists all the races the workloads reach.
var surveyDir = os.Getenv("C20_SURVEY")

func survey(c Case, o childOutcome) {
	put := func(sig, text string) {
		name := filepath.Join(surveyDir, strings.NewReplacer("/", "_", "*", "", "(", "", ")", "", "|", "--").Replace(sig)+".txt")
		if _, err := os.Stat(name); err == nil {
			return
		}
		cb, _ := json.Marshal(c)
		_ = os.WriteFile(name, []byte(sig+"\n"+text+"\nCASE "+string(cb)+"\n"), 0o644)
	}
	for _, r := range o.all {
		sig := r.Sig()
		if r.Harness {
			sig = "HARNESS-" + sig
		}
		put(sig, r.Text)
	}
	if o.verdict != nil && o.verdict.Sig != "" {
		put(o.verdict.Sig, o.verdict.Detail)
	}
	if o.verdict != nil && o.verdict.Harness != "" {
		put("HARNESS-error", o.verdict.Harness)
	}
	if what, fn, found := crashSite(o.stderr); found {
		put("process-death@"+fn, what+"\n"+clip(o.stderr, 8000))
	}
}

func run(c Case) *pbt.Violation {
	replay := os.Getenv("VERIF_REPLAY") != ""
	// a replayed workload is repeated: the schedule is not owned by the harness, one execution proves little
	attempts := 1
	if replay {
		attempts = 4
	}
	start := time.Now()
	for a := 0; a < attempts; a++ {
		for rep := 0; rep < c.Reps; rep++ {
			o := runChild(c, a*c.Reps+rep, !replay)
			for sig, n := range o.known {
				pbt.Count("known-race-seen:"+sig, n)
			}
			if o.verdict != nil {
				for k, n := range o.verdict.Counters {
					pbt.Count(k, n)
				}
			}
			if surveyDir != "" {
				survey(c, o)
				continue
			}
			if v := judge(o); v != nil {
				return v
			}
			if replay && time.Since(start) > 40*time.Second {
				return nil
			}
		}
	}
	return nil
}

func TestConcurrency(t *testing.T) {
	pbt.Run(t, pbt.Spec[Case]{
		ID: "C20", Name: "workload", Gen: genCase, Run: run, Classify: classify,
		Quick: 16, Thorough: 260, Isolate: true,
	})
}
