package c20

// Workload dimensions added after the first audit: codec sets other than AVC+AAC, RTSP over UDP, GB28181 over TCP, a
// scripted RTSP origin for rtsp:// relay pulls, and lal's own HTTP notify path against a slow loopback receiver.

import (
	"bufio"
	"fmt"
	"io"
	"net"
	"net/http"
	"reflect"
	"strconv"
	"strings"
	"sync"
	"sync/atomic"
	"time"
	"unsafe"

	"github.com/q191201771/lal/pkg/base"
	"github.com/q191201771/lal/pkg/logic"

	"verif/gen"
	"verif/ref/rtpref"
	"verif/ref/rtspref"
)

// ---- codecs --------------------------------------------------------------------------------------------------------

// codecSets: what an input carries.  Index 0 is the classic pair; the others reach other remuxer state (HEVC
// parameter sets and the enhanced-RTMP header, G.711 without a sequence header, single-track streams).
var codecSets = []gen.Codecs{
	{Video: "avc", Audio: "aac", AscObj: 2, AscFreq: 4, AscChan: 2},
	{Video: "hevc", Audio: "aac", AscObj: 2, AscFreq: 4, AscChan: 2},
	{Video: "hevc", Enhanced: true, Audio: "aac", AscObj: 2, AscFreq: 3, AscChan: 1},
	{Video: "avc", Audio: "g711a"},
	{Video: "avc"},
	{Audio: "aac", AscObj: 2, AscFreq: 4, AscChan: 2},
	{Video: "hevc", Audio: "g711u"},
}

// codecOf: the codec set of one input; inputs of one case mostly share the case's set, some differ (successive
// incarnations of a stream name with other tracks).
func codecOf(c Case, arg int) gen.Codecs {
	n := len(codecSets)
	return codecSets[((c.Codec%n)+n+arg/4)%n]
}

func nalHdr(video string, key bool) []byte {
	if video == "hevc" {
		if key {
			return []byte{19 << 1, 1} // IDR_W_RADL
		}
		return []byte{1 << 1, 1} // TRAIL_R
	}
	if key {
		return []byte{0x65}
	}
	return []byte{0x41}
}

// mediaItem: sequence headers, key frame, then audio / inter frames with a key frame every 4th message (HLS fragments
// are 100 ms: every second key frame closes one) and a changed video sequence header every 9th; 40 ms apart.  Tracks
// the codec set does not have are replaced by frames of the other track.
func mediaItem(i int, seed uint32, cd gen.Codecs) gen.Item {
	ts := uint32(i) * 40
	video := func(key bool) gen.Item {
		if cd.Video == "" {
			return gen.Item{Kind: "audio", Ts: ts, ALen: 24, ASeed: seed + uint32(i)}
		}
		n := 40
		if key {
			n = 60
		}
		return gen.Item{Kind: "video", Ts: ts, Key: key, Nals: []gen.NalSpec{{Hdr: nalHdr(cd.Video, key), Len: n, Seed: seed + uint32(i), Serial: seed + uint32(i)}}}
	}
	audio := func() gen.Item {
		if cd.Audio == "" {
			return video(false)
		}
		t := ts
		if t >= 15 {
			t -= 15
		}
		return gen.Item{Kind: "audio", Ts: t, ALen: 24, ASeed: seed + uint32(i)}
	}
	switch {
	case i == 0:
		if cd.Video == "" {
			return gen.Item{Kind: "meta", Variant: 1}
		}
		return gen.Item{Kind: "vsh"}
	case i == 1:
		if cd.Audio != "aac" {
			return gen.Item{Kind: "meta", Variant: 2, Sdf: true}
		}
		return gen.Item{Kind: "ash"}
	case i%9 == 8 && cd.Video != "":
		// the video sequence header changes in mid-stream (new parameter sets: the rtsp remuxer re-issues its sdp)
		return gen.Item{Kind: "vsh", Ts: ts, Variant: 1 + (i/9)%2}
	case i%4 == 2:
		return video(true)
	case i%2 == 1:
		return audio()
	default:
		return video(false)
	}
}

// ---- RTSP publisher / subscriber, interleaved or UDP -------------------------------------------------------------

type rtspTrackIO struct {
	rtpCh, rtcpCh int          // interleaved channels
	rtp, rtcp     *net.UDPConn // UDP: connected to lal's server ports
}

type rtspPub struct {
	rc     *rtspref.Client
	cd     gen.Codecs
	tracks []rtspref.Track
	io     []rtspTrackIO
	udp    bool
	// alive (UDP): lal still holds the session. A datagram written to a port lal has already freed can reach a port
	// that another lal instance on this machine (another shard / check) has just bound: never write to a freed port.
	alive func() bool
}

func (p *rtspPub) close() {
	for _, t := range p.io {
		if t.rtp != nil {
			_ = t.rtp.Close()
		}
		if t.rtcp != nil {
			_ = t.rtcp.Close()
		}
	}
}

func rtspTracks(cd gen.Codecs) []rtspref.Track {
	var tracks []rtspref.Track
	switch cd.Video {
	case "avc":
		_, sps, pps := gen.ParamSets("avc", 0)
		tracks = append(tracks, rtspref.Track{Media: "video", PT: 96, Encoding: "H264", ClockRate: 90000, Fmtp: rtspref.H264Fmtp(sps, pps)})
	case "hevc":
		vps, sps, pps := gen.ParamSets("hevc", 0)
		tracks = append(tracks, rtspref.Track{Media: "video", PT: 96, Encoding: "H265", ClockRate: 90000, Fmtp: rtspref.H265Fmtp(vps, sps, pps)})
	}
	switch cd.Audio {
	case "aac":
		tracks = append(tracks, rtspref.Track{Media: "audio", PT: 97, Encoding: "MPEG4-GENERIC", ClockRate: 44100, Channels: 2, Fmtp: rtspref.AacFmtp(gen.Asc(2, 4, 2))})
	case "g711a":
		tracks = append(tracks, rtspref.Track{Media: "audio", PT: 8, Encoding: "PCMA", ClockRate: 8000, Channels: 1})
	case "g711u":
		tracks = append(tracks, rtspref.Track{Media: "audio", PT: 0, Encoding: "PCMU", ClockRate: 8000, Channels: 1})
	}
	for i := range tracks {
		tracks[i].Control = fmt.Sprintf("streamid=%d", i)
	}
	return tracks
}

func serverPorts(transport string) (rtp, rtcp int, ok bool) {
	for _, it := range strings.Split(transport, ";") {
		if strings.HasPrefix(it, "server_port=") {
			ab := strings.Split(strings.TrimPrefix(it, "server_port="), "-")
			if len(ab) == 2 {
				a, e1 := strconv.Atoi(ab[0])
				b, e2 := strconv.Atoi(ab[1])
				return a, b, e1 == nil && e2 == nil
			}
		}
	}
	return 0, 0, false
}

func okResp(r *rtspref.Response, err error) error {
	if err != nil {
		return err
	}
	if r.Status != 200 {
		return fmt.Errorf("rtsp %d %s", r.Status, r.Reason)
	}
	return nil
}

// udpPair opens the client's RTP / RTCP sockets of one track.
func udpPair() (rtp, rtcp *net.UDPConn, err error) {
	lo := &net.UDPAddr{IP: net.IPv4(127, 0, 0, 1)}
	if rtp, err = net.ListenUDP("udp4", lo); err != nil {
		return nil, nil, err
	}
	if rtcp, err = net.ListenUDP("udp4", lo); err != nil {
		_ = rtp.Close()
		return nil, nil, err
	}
	return rtp, rtcp, nil
}

// setupUdp performs one SETUP over UDP and connects the two sockets to the ports lal answered.
func setupUdp(rc *rtspref.Client, uri, mode string) (rtspTrackIO, error) {
	var t rtspTrackIO
	a, b, err := udpPair()
	if err != nil {
		return t, err
	}
	fail := func(e error) (rtspTrackIO, error) { _ = a.Close(); _ = b.Close(); return t, e }
	tr := fmt.Sprintf("RTP/AVP/UDP;unicast;client_port=%d-%d%s", a.LocalAddr().(*net.UDPAddr).Port, b.LocalAddr().(*net.UDPAddr).Port, mode)
	r, err := rc.Do("SETUP", uri, map[string]string{"Transport": tr}, nil)
	if e := okResp(r, err); e != nil {
		return fail(e)
	}
	sr, sc, ok := serverPorts(r.Headers["transport"])
	if !ok {
		return fail(fmt.Errorf("no server_port in %q", r.Headers["transport"]))
	}
	// the sockets stay unconnected (lal answers from its own ports): remember where to send
	t.rtp, t.rtcp = a, b
	t.rtpCh, t.rtcpCh = sr, sc
	return t, nil
}

// publishRtsp: OPTIONS, ANNOUNCE, SETUP per track (interleaved or UDP), RECORD.
func publishRtsp(rc *rtspref.Client, uri string, cd gen.Codecs, udp bool) (*rtspPub, error) {
	p := &rtspPub{rc: rc, cd: cd, tracks: rtspTracks(cd), udp: udp}
	if err := okResp(rc.Do("OPTIONS", uri, nil, nil)); err != nil {
		return p, err
	}
	if err := okResp(rc.Do("ANNOUNCE", uri, map[string]string{"Content-Type": "application/sdp"}, rtspref.BuildSdp(p.tracks))); err != nil {
		return p, err
	}
	for i, t := range p.tracks {
		u := uri + "/" + t.Control
		if udp {
			tio, err := setupUdp(rc, u, ";mode=record")
			if err != nil {
				return p, err
			}
			p.io = append(p.io, tio)
			continue
		}
		tr := fmt.Sprintf("RTP/AVP/TCP;unicast;interleaved=%d-%d;mode=record", 2*i, 2*i+1)
		if err := okResp(rc.Do("SETUP", u, map[string]string{"Transport": tr}, nil)); err != nil {
			return p, err
		}
		p.io = append(p.io, rtspTrackIO{rtpCh: 2 * i, rtcpCh: 2*i + 1})
	}
	return p, okResp(rc.Do("RECORD", uri, map[string]string{"Range": "npt=0.000-"}, nil))
}

func (p *rtspPub) write(track int, rtcp bool, b []byte) error {
	t := p.io[track]
	if p.udp {
		if p.alive != nil && !p.alive() {
			return fmt.Errorf("session gone")
		}
		c, port := t.rtp, t.rtpCh
		if rtcp {
			c, port = t.rtcp, t.rtcpCh
		}
		_, err := c.WriteToUDP(b, &net.UDPAddr{IP: net.IPv4(127, 0, 0, 1), Port: port})
		return err
	}
	ch := t.rtpCh
	if rtcp {
		ch = t.rtcpCh
	}
	return p.rc.WriteFrame(ch, b)
}

// sendUnit sends the j-th unit of the publisher: one video NAL (key every 5th), a sender report now and then, and
// one audio frame.
func (p *rtspPub) sendUnit(j int, seed uint32, who int) error {
	ti := 0
	if p.cd.Video != "" {
		nal := gen.NalSpec{Hdr: nalHdr(p.cd.Video, j%5 == 0), Len: 50, Seed: seed + uint32(j), Serial: seed + uint32(j)}.Bytes()
		var pl []byte
		if p.cd.Video == "hevc" {
			pl, _ = rtpref.H265Single(nal)
		} else {
			pl, _ = rtpref.H264Single(nal)
		}
		ssrc := 0x11110000 + uint32(who)
		pk := &rtpref.Packet{PT: 96, Seq: uint16(j), TS: uint32(j) * 3600, SSRC: ssrc, Marker: true, Payload: pl}
		if p.udp && len(p.io) == 2 && j%2 == 1 {
			// the same datagram also reaches the OTHER track's port (what a stale sender on a reused port, or a peer that
			// sends both tracks from one socket, looks like): lal dispatches by payload type, so both read goroutines
			// of the session now work on video packets
			_ = p.write(1, false, pk.Marshal())
		}
		if err := p.write(ti, false, pk.Marshal()); err != nil {
			return err
		}
		if j%3 == 1 {
			sr := make([]byte, 28) // sender report of the video track
			sr[0], sr[1], sr[3] = 0x80, 200, 6
			sr[4], sr[5], sr[6], sr[7] = byte(ssrc>>24), byte(ssrc>>16), byte(ssrc>>8), byte(ssrc)
			sr[8], sr[15] = byte(j), byte(j)
			_ = p.write(ti, true, sr)
		}
		ti++
	}
	if p.cd.Audio != "" && ti < len(p.io) {
		au := gen.Bytes(seed+uint32(j), 30)
		t := p.tracks[ti]
		pl := au
		ts := uint32(j) * 160
		if p.cd.Audio == "aac" {
			var err error
			if pl, err = rtpref.AACHbr.AACPacket([][]byte{au}); err != nil {
				return nil
			}
			ts = uint32(j) * 1024
		}
		apk := &rtpref.Packet{PT: uint8(t.PT), Seq: uint16(j), TS: ts, SSRC: 0x22220000 + uint32(who), Marker: true, Payload: pl}
		return p.write(ti, false, apk.Marshal())
	}
	return nil
}

// playRtspUdp: SETUP over UDP for every control, PLAY.  The sockets are returned so that they stay open (lal sends
// to them); nothing is read from them.
func playRtspUdp(rc *rtspref.Client, uri string, controls []string) ([]rtspTrackIO, error) {
	var ios []rtspTrackIO
	for _, ctl := range controls {
		u := ctl
		if !strings.HasPrefix(ctl, "rtsp://") {
			u = uri + "/" + ctl
		}
		t, err := setupUdp(rc, u, "")
		if err != nil {
			return ios, err
		}
		ios = append(ios, t)
	}
	return ios, okResp(rc.Do("PLAY", uri, map[string]string{"Range": "npt=0.000-"}, nil))
}

// ---- scripted RTSP origin (after checks/c17/rtsporigin_test.go) -------------------------------------------------

// rtspOrigin is a loopback RTSP server lal pulls from: OPTIONS, DESCRIBE (one H264 track), SETUP (interleaved), PLAY,
// then a few interleaved RTP packets; the per-connection mode decides whether it refuses, stays silent, ends the
// stream or holds it.
type rtspOrigin struct {
	ln   net.Listener
	Addr string
	mu   sync.Mutex
	all  []net.Conn
	n    int
	mode int
	done chan struct{}
}

func newRtspOrigin(mode int) (*rtspOrigin, error) {
	ln, err := net.Listen("tcp", "127.0.0.1:0")
	if err != nil {
		return nil, err
	}
	o := &rtspOrigin{ln: ln, Addr: ln.Addr().String(), mode: mode, done: make(chan struct{})}
	go func() {
		defer close(o.done)
		for {
			c, err := ln.Accept()
			if err != nil {
				return
			}
			o.mu.Lock()
			idx := o.n
			o.n++
			o.all = append(o.all, c)
			o.mu.Unlock()
			go o.serve(c, idx)
		}
	}()
	return o, nil
}

func (o *rtspOrigin) Close() {
	_ = o.ln.Close()
	o.mu.Lock()
	all := append([]net.Conn(nil), o.all...)
	o.mu.Unlock()
	for _, c := range all {
		_ = c.Close()
	}
	<-o.done
}

func (o *rtspOrigin) serve(c net.Conn, idx int) {
	defer c.Close()
	r := bufio.NewReader(c)
	mode := (idx + o.mode) % 4
	reply := func(cseq string, hdr [][2]string, body []byte) error {
		var b strings.Builder
		fmt.Fprintf(&b, "RTSP/1.0 200 OK\r\nCSeq: %s\r\n", cseq)
		for _, h := range hdr {
			fmt.Fprintf(&b, "%s: %s\r\n", h[0], h[1])
		}
		if len(body) > 0 {
			fmt.Fprintf(&b, "Content-Length: %d\r\n", len(body))
		}
		b.WriteString("\r\n")
		_, err := c.Write(append([]byte(b.String()), body...))
		return err
	}
	_, sps, pps := gen.ParamSets("avc", 0)
	sdp := rtspref.BuildSdp([]rtspref.Track{{Media: "video", PT: 96, Encoding: "H264", ClockRate: 90000, Fmtp: rtspref.H264Fmtp(sps, pps), Control: "streamid=0"}})
	for {
		_ = c.SetReadDeadline(time.Now().Add(5 * time.Second))
		b, err := r.Peek(1)
		if err != nil {
			return
		}
		if b[0] == '$' {
			h := make([]byte, 4)
			if _, err := io.ReadFull(r, h); err != nil {
				return
			}
			if _, err := r.Discard(int(h[2])<<8 | int(h[3])); err != nil {
				return
			}
			continue
		}
		line, err := r.ReadString('\n')
		if err != nil {
			return
		}
		f := strings.Fields(line)
		if len(f) < 3 {
			return
		}
		hdr := map[string]string{}
		for {
			l, err := r.ReadString('\n')
			if err != nil {
				return
			}
			l = strings.TrimRight(l, "\r\n")
			if l == "" {
				break
			}
			if i := strings.IndexByte(l, ':'); i > 0 {
				hdr[strings.ToLower(strings.TrimSpace(l[:i]))] = strings.TrimSpace(l[i+1:])
			}
		}
		if n, _ := strconv.Atoi(hdr["content-length"]); n > 0 {
			if _, err := r.Discard(n); err != nil {
				return
			}
		}
		switch f[0] {
		case "OPTIONS":
			err = reply(hdr["cseq"], [][2]string{{"Public", "DESCRIBE, SETUP, TEARDOWN, PLAY"}}, nil)
		case "DESCRIBE":
			switch mode {
			case 0:
				return // refuse
			case 3:
				time.Sleep(2 * time.Second) // silent: lal's pull timeout fires
				return
			}
			err = reply(hdr["cseq"], [][2]string{{"Content-Type", "application/sdp"}, {"Content-Base", f[1] + "/"}}, sdp)
		case "SETUP":
			err = reply(hdr["cseq"], [][2]string{{"Transport", hdr["transport"]}, {"Session", "c20origin"}}, nil)
		case "PLAY":
			if err = reply(hdr["cseq"], [][2]string{{"Session", "c20origin"}, {"Range", "npt=0.000-"}}, nil); err != nil {
				return
			}
			count("rtsp-pull-origin-streams", 1)
			for j := 0; j < 8; j++ {
				nal := gen.NalSpec{Hdr: nalHdr("avc", j%4 == 0), Len: 50, Seed: uint32(9000 + idx*50 + j), Serial: uint32(9000 + idx*50 + j)}.Bytes()
				pl, _ := rtpref.H264Single(nal)
				pk := (&rtpref.Packet{PT: 96, Seq: uint16(j), TS: uint32(j) * 3600, SSRC: 0x44440000 + uint32(idx), Marker: true, Payload: pl}).Marshal()
				fr := append([]byte{'$', 0, byte(len(pk) >> 8), byte(len(pk))}, pk...)
				if _, err := c.Write(fr); err != nil {
					return
				}
			}
			if mode == 2 {
				time.Sleep(5 * time.Millisecond)
				return // the origin ends the stream
			}
		default:
			err = reply(hdr["cseq"], nil, nil)
		}
		if err != nil {
			return
		}
	}
}

// ---- lal's own HTTP notify path ------------------------------------------------------------------------------------

// notifySink is the receiver of lal's HTTP notifications: it answers every POST after a delay of 0..maxDelayMs.
type notifySink struct {
	ln       net.Listener
	srv      *http.Server
	Addr     string
	seq      atomic.Int64
	maxDelay int
}

func newNotifySink(maxDelayMs int) (*notifySink, error) {
	ln, err := net.Listen("tcp", "127.0.0.1:0")
	if err != nil {
		return nil, err
	}
	k := &notifySink{ln: ln, Addr: ln.Addr().String(), maxDelay: maxDelayMs}
	k.srv = &http.Server{Handler: http.HandlerFunc(func(w http.ResponseWriter, r *http.Request) {
		n := k.seq.Add(1)
		_, _ = io.Copy(io.Discard, r.Body)
		if k.maxDelay > 0 {
			time.Sleep(time.Duration((n*37)%int64(k.maxDelay+1)) * time.Millisecond)
		}
		count("notify-posts-received", 1)
		w.WriteHeader(200)
	})}
	go func() { _ = k.srv.Serve(ln) }()
	return k, nil
}

func (k *notifySink) Close() { _ = k.srv.Close() }

func (k *notifySink) config(updateSec int) logic.HttpNotifyConfig {
	u := func(p string) string { return "http://" + k.Addr + "/" + p }
	return logic.HttpNotifyConfig{Enable: true, UpdateIntervalSec: updateSec, OnServerStart: u("on_server_start"), OnUpdate: u("on_update"),
		OnPubStart: u("on_pub_start"), OnPubStop: u("on_pub_stop"), OnSubStart: u("on_sub_start"), OnSubStop: u("on_sub_stop"),
		OnRelayPullStart: u("on_relay_pull_start"), OnRelayPullStop: u("on_relay_pull_stop"), OnRtmpConnect: u("on_rtmp_connect"), OnHlsMakeTs: u("on_hls_make_ts")}
}

// useLalHttpNotify makes the manager use lal's own notify handler, exactly as NewServerManager does when no handler is
// passed in (`sm.option.NotifyHandler = NewHttpNotify(sm.config.HttpNotifyConfig, sm.config.ServerId)`).
// harness/inproc always passes its recorder and the option is not reachable through lal's API, so the field is set
// through reflection — before any session exists, i.e. before anything has been handed to the notify worker.
func useLalHttpNotify(sm *logic.ServerManager) error {
	cfg := sm.Config()
	f := reflect.ValueOf(sm).Elem().FieldByName("option")
	if !f.IsValid() {
		return fmt.Errorf("ServerManager has no field option")
	}
	nh := f.FieldByName("NotifyHandler")
	if !nh.IsValid() || !nh.CanAddr() {
		return fmt.Errorf("Option has no addressable field NotifyHandler")
	}
	h := logic.NewHttpNotify(cfg.HttpNotifyConfig, cfg.ServerId)
	reflect.NewAt(nh.Type(), unsafe.Pointer(nh.UnsafeAddr())).Elem().Set(reflect.ValueOf(h))
	return nil
}

// ---- an admission callback that refuses some HLS viewers ----------------------------------------------------------

// refusingAuth wraps the manager's authentication: every n-th HLS viewer is refused at admission
// (IAuthentication.OnSubStart returns an error), everything else is decided by the wrapped one.
type refusingAuth struct {
	inner logic.IAuthentication
	every int64
	seen  atomic.Int64
}

func (a *refusingAuth) OnPubStart(info base.PubStartInfo) error { return a.inner.OnPubStart(info) }
func (a *refusingAuth) OnHls(streamName, urlParam string) error {
	return a.inner.OnHls(streamName, urlParam)
}
func (a *refusingAuth) OnSubStart(info base.SubStartInfo) error {
	if info.Protocol == base.SessionProtocolHlsStr && a.seen.Add(1)%a.every == 0 {
		count("hls-viewer-refused", 1)
		return fmt.Errorf("c20: hls viewer refused")
	}
	return a.inner.OnSubStart(info)
}

// useRefusingAuth installs the wrapper.  logic.Option.Authentication is the exported seam for this, but
// harness/inproc builds the manager without it, so the field is set through reflection right after construction
// (like useLalHttpNotify), before any session exists.
func useRefusingAuth(sm *logic.ServerManager, every int) error {
	f := reflect.ValueOf(sm).Elem().FieldByName("option")
	if !f.IsValid() {
		return fmt.Errorf("ServerManager has no field option")
	}
	au := f.FieldByName("Authentication")
	if !au.IsValid() || !au.CanAddr() {
		return fmt.Errorf("Option has no addressable field Authentication")
	}
	slot := reflect.NewAt(au.Type(), unsafe.Pointer(au.UnsafeAddr())).Elem()
	inner, ok := slot.Interface().(logic.IAuthentication)
	if !ok || inner == nil {
		return fmt.Errorf("ServerManager has no authentication installed")
	}
	slot.Set(reflect.ValueOf(&refusingAuth{inner: inner, every: int64(every)}))
	return nil
}
