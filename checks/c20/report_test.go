package c20

// Parsers for what the Go runtime prints: race detector reports, crash dumps
// and all-goroutine dumps.  Signatures are computed from WHAT raced / blocked
// (the innermost lal functions of the two conflicting accesses, the lal callers
// parked on a mutex), never from addresses or goroutine numbers.

import (
	"sort"
	"strings"
)

const (
	lalPrefix  = "github.com/q191201771/lal/"
	nazaPrefix = "github.com/q191201771/naza/"
	verifPfx   = "verif/"
)

// raceReport is one "WARNING: DATA RACE" block.
type raceReport struct {
	Text string
	// A, B: owner functions of the two conflicting accesses ("" = stack not restored)
	A, B string
	// Harness: one of the accesses was made by harness code itself (or by harness code called from lal,
	// e.g. memconn): a defect of the harness, never a finding about lal
	Harness bool
}

// Sig is order independent: the same pair of functions gives the same signature whichever access came second.
func (r raceReport) Sig() string {
	n := []string{}
	for _, x := range []string{r.A, r.B} {
		if x != "" {
			n = append(n, x)
		}
	}
	sort.Strings(n)
	if len(n) == 2 && n[0] == n[1] {
		n = n[:1]
	}
	if len(n) == 0 {
		return "data-race@unknown"
	}
	return "data-race@" + strings.Join(n, "|")
}

func stripArgs(fn string) string {
	if i := strings.LastIndex(fn, "("); i > 0 {
		fn = fn[:i]
	}
	return fn
}

// funcLines returns the function lines of one stack section of a race report.
func raceFuncLines(section string) []string {
	var out []string
	for i, l := range strings.Split(section, "\n") {
		if i == 0 {
			continue // "Write at 0x... by goroutine N:"
		}
		t := strings.TrimSpace(l)
		if t == "" || strings.HasPrefix(t, "/") || strings.HasPrefix(t, "[") {
			continue
		}
		out = append(out, t)
	}
	return out
}

// owner classifies an access stack: the innermost frame that belongs to lal, naza or the harness.
func owner(frames []string) (name string, harness bool) {
	for _, f := range frames {
		switch {
		case strings.HasPrefix(f, lalPrefix):
			return stripArgs(strings.TrimPrefix(f, lalPrefix)), false
		case strings.HasPrefix(f, nazaPrefix):
			return "naza/" + stripArgs(strings.TrimPrefix(f, nazaPrefix)), false
		case strings.HasPrefix(f, verifPfx+"checks/c20.marshalSnapshot("):
			// the harness serialises a value lal RETURNED (what lal's HTTP API and notify path do with it, outside
			// lal's locks): a conflicting access is lal still writing into memory it has handed out
			return "json.Marshal(api result)", false
		case strings.HasPrefix(f, verifPfx):
			return stripArgs(f), true
		}
	}
	return "", false
}

func parseRaceReports(out string) []raceReport {
	var reps []raceReport
	parts := strings.Split(out, "WARNING: DATA RACE\n")
	for i, p := range parts {
		if i == 0 {
			continue
		}
		if j := strings.Index(p, "=================="); j >= 0 {
			p = p[:j]
		}
		r := raceReport{Text: "WARNING: DATA RACE\n" + p}
		secs := strings.Split(p, "\n\n")
		n := 0
		for _, s := range secs {
			s = strings.TrimLeft(s, "\n")
			first := strings.SplitN(s, "\n", 2)[0]
			isAccess := strings.Contains(first, " at 0x") && strings.Contains(first, " by ") &&
				(strings.HasPrefix(first, "Read") || strings.HasPrefix(first, "Write") || strings.HasPrefix(first, "Previous") || strings.HasPrefix(first, "Atomic"))
			if !isAccess {
				continue
			}
			name, h := owner(raceFuncLines(s))
			if h {
				r.Harness = true
			}
			if n == 0 {
				r.A = name
			} else if n == 1 {
				r.B = name
			}
			n++
		}
		reps = append(reps, r)
	}
	return reps
}

// completeRaceBlocks reports how many race reports in out are complete (closed by the trailing separator).
func completeRaceBlocks(out string) int {
	n := 0
	for i, p := range strings.Split(out, "WARNING: DATA RACE\n") {
		if i > 0 && strings.Contains(p, "==================") {
			n++
		}
	}
	return n
}

// crashSite returns what killed the process ("fatal error: ..." / "panic: ...") and the innermost lal
// function of the crashing goroutine ("" if the crash is not inside lal).
func crashSite(out string) (what, fn string, found bool) {
	idx := -1
	for _, m := range []string{"\nfatal error: ", "\npanic: "} {
		if j := strings.Index("\n"+out, m); j >= 0 && (idx < 0 || j < idx) {
			idx = j
		}
	}
	if idx < 0 {
		return "", "", false
	}
	rest := ("\n" + out)[idx+1:]
	what = strings.SplitN(rest, "\n", 2)[0]
	g := strings.Index(rest, "\ngoroutine ")
	if g < 0 {
		return what, "", true
	}
	block := rest[g+1:]
	if e := strings.Index(block, "\n\n"); e >= 0 {
		block = block[:e]
	}
	scan := func(text string) string {
		for _, line := range strings.Split(text, "\n") {
			line = strings.TrimSpace(line)
			if strings.HasPrefix(line, lalPrefix) {
				return stripArgs(strings.TrimPrefix(line, lalPrefix))
			}
		}
		return ""
	}
	fn = scan(block)
	if fn == "" && (strings.Contains(what, "concurrent map") || strings.Contains(what, "all goroutines are asleep") || strings.Contains(rest, "stack overflow")) {
		// "concurrent map ..." is thrown in one of the two goroutines; "asleep" has no crashing goroutine
		fn = scan(rest)
	}
	return what, fn, true
}

// ---- goroutine dumps ---------------------------------------------------------------------------------------------

type gblock struct {
	ID     string
	State  string
	Frames []string // function lines, innermost first
	Text   string
}

func parseGoroutines(dump string) []gblock {
	var out []gblock
	for _, blk := range strings.Split(dump, "\n\n") {
		blk = strings.TrimSpace(blk)
		if !strings.HasPrefix(blk, "goroutine ") {
			continue
		}
		lines := strings.Split(blk, "\n")
		hdr := lines[0]
		g := gblock{Text: blk}
		if i := strings.Index(hdr, " ["); i > 0 {
			g.ID = hdr[:i]
			st := hdr[i+2:]
			if j := strings.Index(st, "]"); j >= 0 {
				st = st[:j]
			}
			if j := strings.Index(st, ","); j >= 0 {
				st = st[:j]
			}
			g.State = st
		}
		for _, l := range lines[1:] {
			if strings.HasPrefix(l, "\t") || strings.HasPrefix(l, "created by ") {
				continue
			}
			g.Frames = append(g.Frames, strings.TrimSpace(l))
		}
		out = append(out, g)
	}
	return out
}

func (g gblock) hasLal() bool {
	for _, f := range g.Frames {
		if strings.HasPrefix(f, lalPrefix) {
			return true
		}
	}
	return false
}

// mutexCaller: if the goroutine is parked in sync.(*Mutex).Lock called from lal, the lal caller.
func (g gblock) mutexCaller() string {
	if !(strings.HasPrefix(g.State, "sync.Mutex.Lock") || strings.HasPrefix(g.State, "semacquire") || strings.HasPrefix(g.State, "sync.RWMutex")) {
		return ""
	}
	for i, f := range g.Frames {
		if strings.HasPrefix(f, "sync.(*Mutex).Lock(") || strings.HasPrefix(f, "sync.(*RWMutex).") {
			for _, c := range g.Frames[i+1:] {
				if strings.HasPrefix(c, "sync.") {
					continue
				}
				if strings.HasPrefix(c, lalPrefix) {
					return stripArgs(strings.TrimPrefix(c, lalPrefix))
				}
				return ""
			}
		}
	}
	return ""
}

// parkStates: blocking states other than a mutex wait that count as "parked inside lal" for a goroutine that
// entered lal from the harness (an API call, or a session goroutine the harness owns).
var parkStates = []string{"chan send", "chan receive", "select", "sync.WaitGroup.Wait", "sync.Cond.Wait", "semacquire"}

// lalPark: the goroutine carries a call the harness made into lal (a verif/ frame below the lal frames) and is parked
// on a channel operation, select, WaitGroup.Wait or Cond.Wait INSIDE lal (or naza called from lal): the innermost
// frame outside the runtime / sync packages is lal's.  Returns that function, "" otherwise.  Excluded: goroutines
// lal starts itself (writer loops, notify worker, Group.RunLoop — they park for ever by design), ServerManager.RunLoop
// (parks in its tick loop), and sessions blocked in Read (the innermost frame is the harness' memconn).
func (g gblock) lalPark() string {
	ok := false
	for _, st := range parkStates {
		if strings.HasPrefix(g.State, st) {
			ok = true
		}
	}
	if !ok {
		return ""
	}
	inner := ""
	for _, f := range g.Frames {
		if strings.HasPrefix(f, "sync.") || strings.HasPrefix(f, "runtime.") || strings.HasPrefix(f, "internal/") || strings.HasPrefix(f, "time.") {
			continue
		}
		inner = f
		break
	}
	var name string
	switch {
	case strings.HasPrefix(inner, lalPrefix):
		name = stripArgs(strings.TrimPrefix(inner, lalPrefix))
	case strings.HasPrefix(inner, nazaPrefix):
		name = "naza/" + stripArgs(strings.TrimPrefix(inner, nazaPrefix))
	default:
		return ""
	}
	fromHarness := false
	for _, f := range g.Frames {
		if strings.HasPrefix(f, lalPrefix+"pkg/logic.(*ServerManager).RunLoop(") || strings.HasPrefix(f, lalPrefix+"pkg/logic.(*Group).RunLoop(") {
			return ""
		}
		if strings.HasPrefix(f, verifPfx) {
			fromHarness = true
		}
	}
	if !fromHarness {
		return ""
	}
	return name
}

// waitSite: where the goroutine is stuck inside lal (mutex wait of any goroutine, or another park of a goroutine that
// carries a harness call), "" if it is not.
func (g gblock) waitSite() string {
	if c := g.mutexCaller(); c != "" {
		return c
	}
	return g.lalPark()
}

func (g gblock) active() bool {
	return strings.HasPrefix(g.State, "running") || strings.HasPrefix(g.State, "runnable") || strings.HasPrefix(g.State, "syscall")
}

// stackBody is the block without its header (the header carries the "N minutes" annotation).
func (g gblock) stackBody() string {
	if i := strings.Index(g.Text, "\n"); i >= 0 {
		return g.Text[i+1:]
	}
	return ""
}

type lockSample struct {
	waiters   map[string]gblock // goroutine id -> block, stuck inside lal (see waitSite)
	activeLal int               // goroutines executing (not parked) inside lal
}

func sampleLocks(dump string) lockSample {
	s := lockSample{waiters: map[string]gblock{}}
	for _, g := range parseGoroutines(dump) {
		if c := g.waitSite(); c != "" {
			s.waiters[g.ID] = g
			continue
		}
		if g.active() && g.hasLal() {
			s.activeLal++
		}
	}
	return s
}

// persistentWaiters returns the goroutines parked on a lal mutex with the same stack in both samples.
func persistentWaiters(a, b lockSample) []gblock {
	var out []gblock
	for id, g1 := range a.waiters {
		if g2, ok := b.waiters[id]; ok && g1.stackBody() == g2.stackBody() {
			out = append(out, g1)
		}
	}
	sort.Slice(out, func(i, j int) bool { return out[i].ID < out[j].ID })
	return out
}

func deadlockSig(ws []gblock) string {
	seen := map[string]bool{}
	var names []string
	for _, g := range ws {
		c := g.waitSite()
		if !seen[c] {
			seen[c] = true
			names = append(names, c)
		}
	}
	sort.Strings(names)
	if len(names) > 3 {
		names = names[:3]
	}
	return "deadlock@" + strings.Join(names, "+")
}
