package c20

// The child side: executes one Case (Reps times) against real in-process lal
// servers and writes a verdict file.  Everything the race detector has to say
// goes to stderr, which the parent parses.

import (
	"encoding/json"
	"fmt"
	"io"
	"net"
	"net/http"
	"net/http/httptest"
	"net/url"
	"os"
	"runtime"
	"runtime/debug"
	"strconv"
	"strings"
	"sync"
	"sync/atomic"
	"time"

	"github.com/q191201771/lal/pkg/base"
	"github.com/q191201771/lal/pkg/hls"
	"github.com/q191201771/lal/pkg/logic"
	"github.com/q191201771/naza/pkg/mock"
	"github.com/q191201771/naza/pkg/nazalog"

	"verif/drv/pbt"
	"verif/gen"
	"verif/harness/inproc"
	"verif/harness/lalclient"
	"verif/harness/memconn"
	"verif/harness/stub"
	"verif/ref/psref"
	"verif/ref/rtpref"
	"verif/ref/rtspref"
)

// ---- verdict file ------------------------------------------------------------------------------------------------

var (
	resultPath string
	resultOnce sync.Once
	counters   = map[string]int{}
	countersMu sync.Mutex
)

func count(k string, n int) {
	countersMu.Lock()
	counters[k] += n
	countersMu.Unlock()
}

// finish writes the verdict and ends the process (the first caller wins; a wedged server cannot be unwound).
func finish(v verdict) {
	resultOnce.Do(func() {
		countersMu.Lock()
		v.Counters = map[string]int{}
		for k, n := range counters {
			v.Counters[k] = n
		}
		countersMu.Unlock()
		b, _ := json.Marshal(v)
		_ = os.WriteFile(resultPath+".tmp", b, 0o644)
		_ = os.Rename(resultPath+".tmp", resultPath)
		os.Exit(0)
	})
	select {} // another goroutine is already finishing
}

func harnessFail(format string, a ...interface{}) {
	finish(verdict{Harness: fmt.Sprintf(format, a...)})
}

// protect runs f; a panic in harness code ends the child with a harness error, a panic with a lal frame is a violation.
func protect(where string, f func()) {
	defer func() {
		if r := recover(); r != nil {
			stack := string(debug.Stack())
			if he, ok := r.(pbt.HarnessError); ok {
				harnessFail("%s: %s", where, he.Msg)
			}
			if v := pbt.PanicViolation(r, stack); v != nil {
				finish(verdict{Sig: v.Sig, Detail: v.Detail})
			}
			harnessFail("panic in harness goroutine %s: %v\n%s", where, r, stack)
		}
	}()
	f()
}

// ---- watchdog ----------------------------------------------------------------------------------------------------

type slot struct {
	mu    sync.Mutex
	desc  string
	since time.Time
}

type watchdog struct {
	mu    sync.Mutex
	slots []*slot
}

func (w *watchdog) newSlot() *slot {
	s := &slot{}
	w.mu.Lock()
	w.slots = append(w.slots, s)
	w.mu.Unlock()
	return s
}

func (s *slot) guard(desc string, f func()) {
	s.mu.Lock()
	s.desc, s.since = desc, time.Now()
	s.mu.Unlock()
	f()
	s.mu.Lock()
	s.desc, s.since = "", time.Time{}
	s.mu.Unlock()
}

const (
	earlyCheckAfter = 10 * time.Second // first look at the goroutines of a call that has not returned
	sampleGap       = 2 * time.Second
)

// oldest returns the longest-running guarded call.
func (w *watchdog) oldest() (string, time.Duration) {
	w.mu.Lock()
	defer w.mu.Unlock()
	var desc string
	var age time.Duration
	for _, s := range w.slots {
		s.mu.Lock()
		if !s.since.IsZero() {
			if a := time.Since(s.since); a > age {
				age, desc = a, s.desc
			}
		}
		s.mu.Unlock()
	}
	return desc, age
}

// monitor decides about calls that do not return.  A call older than earlyCheckAfter is a deadlock when, in two
// samples, the same goroutines are parked on a mutex taken by lal code AND nothing is executing inside lal (so
// nobody can ever release it); a call older than lalclient.DeliverTimeout is a deadlock when goroutines are parked on
// lal mutexes with the same stack in two samples, otherwise the machine is too slow (harness error, inconclusive).
func (w *watchdog) monitor() {
	for {
		time.Sleep(500 * time.Millisecond)
		desc, age := w.oldest()
		if age < earlyCheckAfter {
			continue
		}
		d1 := pbt.AllGoroutines()
		s1 := sampleLocks(d1)
		time.Sleep(sampleGap)
		d2 := pbt.AllGoroutines()
		s2 := sampleLocks(d2)
		desc2, age2 := w.oldest()
		if age2 < earlyCheckAfter || desc2 != desc {
			continue // it returned in the meantime
		}
		ws := persistentWaiters(s1, s2)
		final := age2 >= lalclient.DeliverTimeout
		if len(ws) > 0 && (final || (s1.activeLal == 0 && s2.activeLal == 0)) {
			var b strings.Builder
			fmt.Fprintf(&b, "call %q has not returned after %v; %d goroutine(s) are parked inside lal (mutex wait, or a channel / select / WaitGroup / Cond wait of a call the harness made) with the same stack in two samples %v apart (goroutines executing inside lal: %d / %d):\n",
				desc, age2.Round(time.Second), len(ws), sampleGap, s1.activeLal, s2.activeLal)
			for _, g := range ws {
				b.WriteString(g.Text + "\n\n")
			}
			b.WriteString("---- all goroutines ----\n" + clip(d2, 60000))
			finish(verdict{Sig: deadlockSig(ws), Detail: b.String()})
		}
		if final {
			harnessFail("call %q has not returned after %v, but no goroutine is parked inside lal with the same stack in two samples (slow machine?)\n%s", desc, age2, clip(d2, 20000))
		}
	}
}

// ---- world -------------------------------------------------------------------------------------------------------

type world struct {
	c      Case
	rep    int
	s      *inproc.Server
	origin *stub.RtmpStub
	wd     *watchdog

	rtspOrigin *rtspOrigin
	notify     *notifySink

	portMu     sync.Mutex
	busyUDP    *net.UDPConn // bound by the harness for the whole repetition: a start_rtp_pub on these ports cannot listen
	busyTCP    net.Listener
	rtpPortUDP []int // ports lal handed out to rtp pubs of this process
	rtpPortTCP []int

	hlsH    *hls.ServerHandler // L2: a handler of our own with the manager as observer
	hlsAddr string             // L3: the manager's HLS listener
	runErr  chan error

	opsDone        atomic.Int64
	tickN          atomic.Uint32
	stop           atomic.Bool
	disposeIssued  atomic.Bool
	panicsAtIssue  atomic.Int64
	disposeTrigger chan struct{}
	trigOnce       sync.Once
	freshSeq       atomic.Int64
}

const app = "live"

func (w *world) name(op Op, wi, oi int) string {
	if op.Fresh {
		return fmt.Sprintf("c20f%dx%dx%d", wi, oi, w.freshSeq.Add(1))
	}
	return fmt.Sprintf("c20s%d", op.Name%w.c.Names)
}

// call runs an API call on the manager; a panic is recorded by inproc (checked at the end of the repetition).
func (w *world) call(sl *slot, where string, f func()) {
	sl.guard(where, func() { w.s.Call(where, f) })
}

// ---- sessions a worker holds -------------------------------------------------------------------------------------

type session struct {
	kind  string
	name  string
	sent  int                   // media items sent so far (publishers)
	send  func(n int, sl *slot) // nil for subscribers
	leave func(sl *slot)
}

type worker struct {
	w    *world
	idx  int
	ops  []Op
	sl   *slot
	open []*session
	hlsS map[string]string // stream name -> hls session id
}

// marshalSnapshot does with a stat result what lal's HTTP API (feedback) and notify path do with it: json.Marshal in
// the caller's goroutine, outside every lal lock.  (The function name is known to the race report parser.)
//
//go:noinline
func marshalSnapshot(v interface{}) {
	if b, err := json.Marshal(v); err == nil {
		count("stat-bytes-marshalled", len(b))
	}
}

// holdThenMarshal: in a share of the calls the snapshot is kept for a moment (other stat calls and ticks run meanwhile)
// before it is serialised, as a slow HTTP client or a queued notification does.
func holdThenMarshal(arg int, v interface{}) {
	switch arg % 4 {
	case 1:
		runtime.Gosched()
	case 2:
		time.Sleep(300 * time.Microsecond)
	case 3:
		time.Sleep(3 * time.Millisecond)
	}
	marshalSnapshot(v)
}

// advanceClock: with Case.FpsClock the harness owns nazalog.Clock (lal reads it only for the per-second video frame
// statistics of a group): one second per published message, so that the 32-second ring of a group fills within
// a workload instead of after half a minute of stream.
func (w *world) busyPort(tcp bool) int {
	if tcp {
		if w.busyTCP != nil {
			return w.busyTCP.Addr().(*net.TCPAddr).Port
		}
		return 0
	}
	if w.busyUDP != nil {
		return w.busyUDP.LocalAddr().(*net.UDPAddr).Port
	}
	return 0
}

func (w *world) noteRtpPort(tcp bool, port int) {
	w.portMu.Lock()
	defer w.portMu.Unlock()
	if tcp {
		w.rtpPortTCP = append(w.rtpPortTCP, port)
	} else {
		w.rtpPortUDP = append(w.rtpPortUDP, port)
	}
}

func (w *world) recentRtpPort(tcp bool) int {
	w.portMu.Lock()
	defer w.portMu.Unlock()
	l := w.rtpPortUDP
	if tcp {
		l = w.rtpPortTCP
	}
	if len(l) == 0 {
		return w.busyPortLocked(tcp)
	}
	return l[len(l)-1]
}

func (w *world) busyPortLocked(tcp bool) int { return w.busyPort(tcp) }

func (w *world) advanceClock() {
	if w.c.FpsClock {
		nazalog.Clock.Add(time.Second)
	}
}

func pause(p int) {
	switch {
	case p == 1:
		runtime.Gosched()
	case p > 1:
		time.Sleep(time.Duration(p) * time.Microsecond)
	}
}

func (k *worker) run() {
	for oi, op := range k.ops {
		if k.w.c.DisposeAt > 0 && int(k.w.opsDone.Load()) >= k.w.c.DisposeAt {
			k.w.trigOnce.Do(func() { close(k.w.disposeTrigger) })
		}
		k.do(oi, op)
		k.w.opsDone.Add(1)
		count("ops", 1)
		pause(op.Pause)
	}
	if k.w.c.DisposeAt > 0 && int(k.w.opsDone.Load()) >= k.w.c.DisposeAt {
		k.w.trigOnce.Do(func() { close(k.w.disposeTrigger) })
	}
	if k.w.rep == 0 && k.w.c.LingerMs > 0 {
		time.Sleep(time.Duration(k.w.c.LingerMs) * time.Millisecond)
	}
	for _, se := range k.open {
		se.leave(k.sl)
	}
	k.open = nil
}

func closeAndWait(sl *slot, what string, conn *memconn.Conn) {
	sl.guard("teardown "+what, func() {
		_ = conn.Close()
		if !conn.WaitPeerDone(lalclient.DeliverTimeout) {
			// the watchdog has looked at the goroutines long before this
			harnessFail("teardown of %s did not finish within %v and the watchdog found no lal mutex waiters", what, lalclient.DeliverTimeout)
		}
	})
}

func (k *worker) do(oi int, op Op) {
	w, s, sl := k.w, k.w.s, k.sl
	name := w.name(op, k.idx, oi)
	seed := uint32(w.rep*100000 + k.idx*1000 + oi*20)
	switch op.Kind {
	case "pub":
		var p *lalclient.Publisher
		sl.guard("rtmp publish "+name, func() { p = lalclient.NewPublisher(s, app, name, []int{0, 128, 4096}[op.Arg%3]) })
		if p.Err != nil {
			closeAndWait(sl, "refused rtmp publisher", p.Conn)
			return
		}
		count("rtmp-pub", 1)
		cd := codecOf(w.c, op.Arg)
		se := &session{kind: "pub", name: name}
		se.send = func(n int, sl *slot) {
			sl.guard("rtmp publisher sends", func() {
				for i := 0; i < n; i++ {
					w.advanceClock()
					if p.SendItem(mediaItem(se.sent, seed, cd), cd, 0) != nil {
						return
					}
					se.sent++
				}
				p.Conn.WaitPeerIdle(lalclient.DeliverTimeout)
			})
		}
		se.leave = func(sl *slot) { closeAndWait(sl, "rtmp publisher", p.Conn) }
		if w.c.FpsClock && op.Arg%2 == 0 {
			se.send(70, sl) // more than 32 video frames, one (harness) second apart: the group's frame statistics ring is full
		}
		se.send(3+op.Arg, sl)
		k.open = append(k.open, se)
	case "pub-rtsp":
		conn := s.RtspConn()
		rc := rtspref.NewClient(conn)
		cd := codecOf(w.c, op.Arg)
		if cd.Video == "" && cd.Audio != "aac" {
			cd = codecSets[0]
		}
		udp := op.Arg%3 == 2 // RTP / RTCP over UDP: lal reads every track in goroutines of their own
		var rp *rtspPub
		var perr error
		sl.guard("rtsp publish "+name, func() {
			_ = conn.SetReadDeadline(time.Now().Add(lalclient.IdleTimeout))
			rp, perr = publishRtsp(rc, "rtsp://127.0.0.1:5544/"+app+"/"+name, cd, udp)
			_ = conn.SetReadDeadline(time.Time{})
		})
		if perr != nil {
			rp.close()
			closeAndWait(sl, "refused rtsp publisher", conn)
			return
		}
		count("rtsp-pub", 1)
		if udp {
			count("rtsp-pub-udp", 1)
			rp.alive = func() bool { return !conn.PeerGone() } // lal closes the command connection when the session ends
		}
		se := &session{kind: "pub-rtsp", name: name}
		se.send = func(n int, sl *slot) {
			sl.guard("rtsp publisher sends", func() {
				for i := 0; i < n; i++ {
					j := se.sent
					se.sent++
					if rp.sendUnit(j, seed, k.idx) != nil {
						return
					}
				}
				if !udp {
					conn.WaitPeerIdle(lalclient.DeliverTimeout)
				}
			})
		}
		se.leave = func(sl *slot) {
			closeAndWait(sl, "rtsp publisher", conn)
			rp.close()
		}
		se.send(2+op.Arg, sl)
		k.open = append(k.open, se)
	case "pub-cust":
		var ctx logic.ICustomizePubSessionContext
		var err error
		w.call(sl, "AddCustomizePubSession", func() { ctx, err = s.SM.AddCustomizePubSession(name) })
		if err != nil || ctx == nil {
			return
		}
		count("customize-pub", 1)
		cd := codecOf(w.c, op.Arg)
		se := &session{kind: "pub-cust", name: name}
		se.send = func(n int, sl *slot) {
			for i := 0; i < n; i++ {
				w.advanceClock()
				it := mediaItem(se.sent, seed, cd)
				se.sent++
				pl := it.Payload(cd)
				msg := base.RtmpMsg{Header: base.RtmpHeader{Csid: 4, MsgLen: uint32(len(pl)), MsgTypeId: it.TypeID(), MsgStreamId: 1, TimestampAbs: it.Ts}, Payload: pl}
				w.call(sl, "FeedRtmpMsg", func() { _ = ctx.FeedRtmpMsg(msg) })
			}
		}
		se.leave = func(sl *slot) { w.call(sl, "DelCustomizePubSession", func() { s.SM.DelCustomizePubSession(ctx) }) }
		se.send(3+op.Arg, sl)
		k.open = append(k.open, se)
	case "sub-rtmp":
		var cc *lalclient.Consumer
		sl.guard("rtmp play "+name, func() { cc = lalclient.NewRtmpSub(s, app, name) })
		count("rtmp-sub", 1)
		k.open = append(k.open, &session{kind: op.Kind, name: name, leave: func(sl *slot) { closeAndWait(sl, "rtmp subscriber", cc.Conn) }})
	case "sub-flv", "sub-ws":
		var cc *lalclient.Consumer
		sl.guard(op.Kind+" "+name, func() { cc = lalclient.NewFlvSub(s, app, name, op.Kind == "sub-ws") })
		count(op.Kind, 1)
		k.open = append(k.open, &session{kind: op.Kind, name: name, leave: func(sl *slot) { closeAndWait(sl, op.Kind+" subscriber", cc.Conn) }})
	case "sub-ts":
		var tc *lalclient.TsConsumer
		sl.guard("http-ts get "+name, func() { tc = lalclient.NewTsSub(s, app, name) })
		count("ts-sub", 1)
		k.open = append(k.open, &session{kind: op.Kind, name: name, leave: func(sl *slot) { closeAndWait(sl, "http-ts subscriber", tc.Conn) }})
	case "sub-rtsp":
		conn := s.RtspConn()
		rc := rtspref.NewClient(conn)
		uri := "rtsp://127.0.0.1:5544/" + app + "/" + name
		var udpIO []rtspTrackIO
		sl.guard("rtsp describe/setup/play "+name, func() {
			// lal answers DESCRIBE only once the stream has a session description: a bounded patience, then the
			// session stays attached in its waiting stage (a later publisher's OnSdp feeds it)
			_ = conn.SetReadDeadline(time.Now().Add(time.Duration(30+30*op.Arg) * time.Millisecond))
			r, err := rc.Describe(uri)
			if err == nil && r != nil && r.Status == 200 && len(r.Body) > 0 {
				_ = conn.SetReadDeadline(time.Now().Add(lalclient.IdleTimeout))
				if op.Arg%3 == 1 {
					if udpIO, err = playRtspUdp(rc, uri, rtspref.SdpControls(r.Body)); err == nil {
						count("rtsp-sub-playing-udp", 1)
					}
				} else if rc.SetupPlay(uri, rtspref.SdpControls(r.Body)) == nil {
					count("rtsp-sub-playing", 1)
				}
			}
			_ = conn.SetReadDeadline(time.Time{})
		})
		count("rtsp-sub", 1)
		k.open = append(k.open, &session{kind: op.Kind, name: name, leave: func(sl *slot) {
			closeAndWait(sl, "rtsp subscriber", conn)
			(&rtspPub{io: udpIO}).close()
		}})
	case "send":
		for i := len(k.open) - 1; i >= 0; i-- {
			if k.open[i].send != nil {
				k.open[i].send(1+op.Arg, sl)
				break
			}
		}
	case "leave":
		if len(k.open) == 0 {
			return
		}
		i := op.Arg % len(k.open)
		se := k.open[i]
		k.open = append(k.open[:i], k.open[i+1:]...)
		se.leave(sl)
	case "kick":
		var sg *base.StatGroup
		w.call(sl, "StatGroup", func() { sg = s.SM.StatGroup(name) })
		var ids []string
		marshalSnapshot(sg)
		if sg != nil {
			if sg.StatPub.SessionId != "" {
				ids = append(ids, sg.StatPub.SessionId)
			}
			if sg.StatPull.SessionId != "" {
				ids = append(ids, sg.StatPull.SessionId)
			}
			for _, x := range sg.StatSubs {
				ids = append(ids, x.SessionId)
			}
		}
		ids = append(ids, "RTMPPUBSUB999999")
		id := ids[op.Arg%len(ids)]
		var resp base.ApiCtrlKickSessionResp
		w.call(sl, "CtrlKickSession", func() { resp = s.SM.CtrlKickSession(base.ApiCtrlKickSessionReq{StreamName: name, SessionId: id}) })
		if resp.ErrorCode == base.ErrorCodeSucc {
			count("kick-hit", 1)
		}
	case "stat":
		var sg *base.StatGroup
		w.call(sl, "StatGroup", func() { sg = s.SM.StatGroup(name) })
		holdThenMarshal(op.Arg, sg)
	case "stat-all":
		var sgs []base.StatGroup
		w.call(sl, "StatAllGroup", func() { sgs = s.SM.StatAllGroup() })
		holdThenMarshal(op.Arg, sgs)
	case "lal-info":
		var li base.LalInfo
		w.call(sl, "StatLalInfo", func() { li = s.SM.StatLalInfo() })
		holdThenMarshal(op.Arg, li)
	case "pull-start":
		var resp base.ApiCtrlStartRelayPullResp
		url := "rtmp://" + w.origin.Addr + "/" + app + "/" + name
		if op.Arg >= 7 {
			url = "rtsp://" + w.rtspOrigin.Addr + "/" + app + "/" + name // rtsp pull (interleaved) from the scripted rtsp origin
			count("pull-rtsp", 1)
		}
		w.call(sl, "CtrlStartRelayPull", func() {
			resp = s.SM.CtrlStartRelayPull(base.ApiCtrlStartRelayPullReq{Url: url, StreamName: name,
				PullTimeoutMs: 200, PullRetryNum: []int{0, 1, -1}[op.Arg%3], AutoStopPullAfterNoOutMs: []int{-1, -1, 0, 60}[op.Arg%4]})
		})
		if resp.ErrorCode == base.ErrorCodeSucc {
			count("pull-started", 1)
		}
	case "pull-stop":
		w.call(sl, "CtrlStopRelayPull", func() { _ = s.SM.CtrlStopRelayPull(name) })
	case "rtp-pub":
		tcp := op.Arg%3 == 2
		// the port: 0 (lal chooses) in 3 of 5; a port lal handed out to an earlier rtp pub of this process (still bound
		// unless that session has ended); a port the harness keeps bound itself (the listen must fail). A refused start is
		// fine, what follows it must still be served.
		reqPort := 0
		switch op.Arg / 2 {
		case 3:
			reqPort = w.recentRtpPort(tcp)
		case 4:
			reqPort = w.busyPort(tcp)
		}
		if reqPort != 0 {
			// on a stream of its own, so that the request is not refused for the stream's input before it tries to listen
			name = fmt.Sprintf("c20p%dx%dx%d", k.idx, oi, w.freshSeq.Add(1))
			count("rtp-pub-fixed-port", 1)
		}
		var resp base.ApiCtrlStartRtpPubResp
		w.call(sl, "CtrlStartRtpPub", func() {
			resp = s.SM.CtrlStartRtpPub(base.ApiCtrlStartRtpPubReq{StreamName: name, Port: reqPort, TimeoutMs: []int{0, 1000}[op.Arg%2], IsTcpFlag: map[bool]int{true: 1}[tcp]})
		})
		if resp.ErrorCode != base.ErrorCodeSucc {
			if reqPort != 0 {
				count("rtp-pub-port-refused", 1)
			}
			return // refused: the stream has an input, or the port cannot be bound
		}
		count("rtp-pub", 1)
		id, port := resp.Data.SessionId, resp.Data.Port
		w.noteRtpPort(tcp, port)
		video := codecOf(w.c, op.Arg).Video
		if video == "" {
			video = "avc"
		}
		var pc net.Conn
		if tcp {
			count("rtp-pub-tcp", 1)
			sl.guard("rtp pub tcp connect", func() { pc, _ = net.DialTimeout("tcp", fmt.Sprintf("127.0.0.1:%d", port), 5*time.Second) })
		} else {
			pc, _ = net.Dial("udp", fmt.Sprintf("127.0.0.1:%d", port))
		}
		se := &session{kind: "rtp-pub", name: name}
		se.send = func(n int, sl *slot) {
			sl.guard("rtp pub sends", func() {
				if pc == nil {
					return
				}
				for i := 0; i < n; i++ {
					if !tcp {
						// never write to a freed udp port (another lal instance on this machine may have bound it)
						if sg := s.SM.StatGroup(name); sg == nil || sg.StatPub.SessionId != id {
							return
						}
					}
					j := se.sent
					se.sent++
					vps, sps, pps := gen.ParamSets(video, 0)
					nal := gen.NalSpec{Hdr: nalHdr(video, true), Len: 40, Seed: seed + uint32(j), Serial: seed + uint32(j)}.Bytes()
					nals, st := [][]byte{sps, pps, nal}, uint8(0x1B)
					if video == "hevc" {
						nals, st = [][]byte{vps, sps, pps, nal}, 0x24
					}
					es := rtpref.AnnexB(nals, make([]bool, len(nals)))
					pts := uint64(j) * 3600
					ps := psref.PackHeader(pts, 0, 1000, 0)
					streams := []psref.ES{{StreamID: 0xE0, StreamType: st}}
					if j == 0 {
						ps = append(ps, psref.SystemHeader(1000, 0, 1, streams)...)
						ps = append(ps, psref.PSM(0, nil, streams)...)
					}
					ps = append(ps, psref.PES(0xE0, psref.Stamp{HasPTS: true, PTS: pts}, 0, true, es)...)
					raw := (&rtpref.Packet{PT: 96, Seq: uint16(j), TS: uint32(pts), SSRC: 0x33330000 + uint32(k.idx), Marker: true, Payload: ps}).Marshal()
					if tcp {
						raw = append([]byte{byte(len(raw) >> 8), byte(len(raw))}, raw...)
						_ = pc.SetWriteDeadline(time.Now().Add(5 * time.Second))
					}
					if _, err := pc.Write(raw); err != nil {
						return
					}
				}
			})
		}
		se.leave = func(sl *slot) {
			w.call(sl, "CtrlKickSession(rtp pub)", func() { _ = s.SM.CtrlKickSession(base.ApiCtrlKickSessionReq{StreamName: name, SessionId: id}) })
			if pc != nil {
				_ = pc.Close()
			}
		}
		se.send(2+op.Arg%4, sl)
		k.open = append(k.open, se)
	case "blacklist":
		ip := []string{"127.0.0.1", "10.9.8.7", "127.0.0.2"}[op.Arg%3]
		w.call(sl, "CtrlAddIpBlacklist", func() { _ = s.SM.CtrlAddIpBlacklist(base.ApiCtrlAddIpBlacklistReq{Ip: ip, DurationSec: op.Arg % 2}) })
	case "hls-get":
		if !w.c.Hls {
			w.call(sl, "StatGroup", func() { _ = s.SM.StatGroup(name) })
			return
		}
		k.hlsGet(name, op)
	case "tick":
		// one iteration of the manager's tick loop (inactive groups are disposed and erased, the others ticked)
		n := w.tickN.Add(1)
		w.call(sl, "ServerManager.VerifTick", func() { s.SM.VerifTick(n) })
	case "has":
		var g *logic.Group
		w.call(sl, "GetGroup", func() { g = s.SM.GetGroup("", name) })
		if g != nil {
			w.call(sl, "Group.Has*Session", func() {
				_ = g.HasInSession()
				_ = g.HasOutSession()
				_ = g.OutSessionNum()
				_ = g.IsHlsMuxerAlive()
				_ = g.StringifyDebugStats(4)
			})
		}
	default:
		harnessFail("unknown op kind %q", op.Kind)
	}
}

// hlsGet: playlist request without session id (creates an HLS sub session and redirects), then the playlist and a
// segment request carrying the session id.
func (k *worker) hlsGet(name string, op Op) {
	w, sl := k.w, k.sl
	if k.hlsS == nil {
		k.hlsS = map[string]string{}
	}
	get := func(target string) (status int, location string) {
		if w.hlsAddr != "" {
			sl.guard("hls http get", func() {
				cl := &http.Client{Timeout: lalclient.DeliverTimeout, Transport: &http.Transport{DisableKeepAlives: true},
					CheckRedirect: func(*http.Request, []*http.Request) error { return http.ErrUseLastResponse }}
				resp, err := cl.Get("http://" + w.hlsAddr + target)
				if err != nil {
					return
				}
				_, _ = io.Copy(io.Discard, resp.Body)
				_ = resp.Body.Close()
				status, location = resp.StatusCode, resp.Header.Get("Location")
			})
			return
		}
		req := httptest.NewRequest("GET", "http://127.0.0.1:8080"+target, nil)
		req.RequestURI = target
		req.Host = "127.0.0.1:8080"
		req.RemoteAddr = fmt.Sprintf("127.0.0.1:%d", 50000+k.idx)
		rec := httptest.NewRecorder()
		w.call(sl, "hls.ServerHandler.ServeHTTP", func() { w.hlsH.ServeHTTP(rec, req) })
		return rec.Code, rec.Header().Get("Location")
	}
	sid := k.hlsS[name]
	if sid == "" || op.Arg%4 == 0 {
		st, loc := get("/hls/" + name + ".m3u8")
		if st == http.StatusFound && loc != "" {
			if u, err := url.Parse(loc); err == nil {
				sid = u.Query().Get("session_id")
				k.hlsS[name] = sid
				count("hls-sub-session", 1)
			}
		}
	}
	if sid != "" {
		get("/hls/" + name + ".m3u8?session_id=" + sid)
		get("/hls/" + name + "-0-0.ts?session_id=" + sid)
	}
}

// ---- origin ------------------------------------------------------------------------------------------------------

func (w *world) serveOrigin(done chan struct{}) {
	defer close(done)
	for !w.stop.Load() {
		c := w.origin.Accept(50 * time.Millisecond)
		if c == nil {
			continue
		}
		go w.serveOriginConn(c)
	}
}

func (w *world) serveOriginConn(c *stub.Conn) {
	defer c.Close()
	if c.Handshake() != nil || c.ServeUntilPlayOrPublish() != nil {
		return
	}
	if c.Command == "publish" { // relay push
		if c.AcceptPublish() == nil {
			count("push-accepted", 1)
			c.CollectMedia()
		}
		return
	}
	cd := codecOf(w.c, c.Index)
	switch (c.Index + w.c.OriginMode) % 4 {
	case 0:
		return // refuse: close without answering play
	case 3:
		c.WaitPeerClose(2 * time.Second) // silent: lal's pull timeout fires
		return
	case 2:
		if c.AcceptPlay() != nil {
			return
		}
		for i := 0; i < 6; i++ {
			it := mediaItem(i, uint32(7000+c.Index*50), cd)
			if c.SendMedia(it.TypeID(), it.Ts, it.Payload(cd)) != nil {
				return
			}
		}
		time.Sleep(5 * time.Millisecond)
		return // origin ends the stream
	default:
		if c.AcceptPlay() != nil {
			return
		}
		count("pull-origin-streams", 1)
		for i := 0; i < 8; i++ {
			it := mediaItem(i, uint32(7000+c.Index*50), cd)
			if c.SendMedia(it.TypeID(), it.Ts, it.Payload(cd)) != nil {
				return
			}
		}
		c.WaitPeerClose(5 * time.Second)
	}
}

// ---- one repetition ----------------------------------------------------------------------------------------------

func freePort() int {
	ln, err := net.Listen("tcp", "127.0.0.1:0")
	if err != nil {
		return 0
	}
	defer ln.Close()
	return ln.Addr().(*net.TCPAddr).Port
}

func (w *world) start() {
	c := w.c
	var err error
	for try := 0; ; try++ {
		if w.origin, err = stub.NewRtmpStub(); err == nil {
			break
		}
		if try == 50 {
			harnessFail("stub listen: %v", err) // ephemeral ports exhausted by the other load on the machine
		}
		time.Sleep(100 * time.Millisecond)
	}
	for try := 0; ; try++ {
		if w.rtspOrigin, err = newRtspOrigin(c.OriginMode); err == nil {
			break
		}
		if try == 50 {
			harnessFail("rtsp origin listen: %v", err)
		}
		time.Sleep(100 * time.Millisecond)
	}
	// lal listens on all interfaces (":port"): so do the busy ports
	w.busyUDP, _ = net.ListenUDP("udp", &net.UDPAddr{})
	w.busyTCP, _ = net.Listen("tcp", ":0")
	if c.Notify {
		if w.notify, err = newNotifySink(c.NotifyDelayMs); err != nil {
			harnessFail("notify sink listen: %v", err)
		}
	}
	cfg := inproc.Config{RtmpGopNum: c.Gop, FlvGopNum: c.Gop, TsGopNum: c.Gop, RtmpMergeWrite: c.Merge, Hls: c.Hls, HlsFragmentMs: 100, HlsFragmentNum: 2,
		HlsDeleteThreshold: 1, HlsCleanupMode: c.HlsCleanup, Hook: c.Hook, RecordFlv: c.Record, RecordTs: c.Record, DummyAudio: c.DummyAudio, DummyAudioWaitMs: 50}
	if c.StaticPull {
		cfg.PullAddr = w.origin.Addr
	}
	if c.Push {
		cfg.PushAddrs = []string{w.origin.Addr}
	}
	port := 0
	if c.L3 {
		port = freePort()
	}
	cfg.Mod = func(lc *logic.Config) {
		lc.HlsConfig.SubSessionHashKey = "c20key"
		lc.HlsConfig.SubSessionTimeoutMs = 1000
		if w.notify != nil {
			lc.HttpNotifyConfig = w.notify.config(1)
		}
		if port != 0 {
			lc.HlsConfig.HttpListenAddr = fmt.Sprintf("127.0.0.1:%d", port)
		}
	}
	w.s = inproc.New(cfg)
	if c.HlsRefuse > 0 {
		if err := useRefusingAuth(w.s.SM, c.HlsRefuse); err != nil {
			harnessFail("cannot install the refusing authentication: %v", err)
		}
	}
	if w.notify != nil {
		// lal's own notify path (HttpNotify: queue + posting goroutine) instead of the harness recorder
		if err := useLalHttpNotify(w.s.SM); err != nil {
			harnessFail("cannot enable lal's http notify: %v", err)
		}
		count("lal-http-notify", 1)
	}
	if c.Hls && port == 0 {
		// the same handler type the manager creates for its HLS listener, with the manager as its observer
		w.hlsH = hls.NewServerHandler(w.s.Cfg.HlsConfig.OutPath, "/hls/", "c20key", 1000, w.s.SM)
	}
	if port != 0 {
		w.runErr = make(chan error, 1)
		go func() { w.runErr <- w.s.SM.RunLoop() }()
		addr := fmt.Sprintf("127.0.0.1:%d", port)
		deadline := time.Now().Add(10 * time.Second)
	wait:
		for time.Now().Before(deadline) {
			select {
			case e := <-w.runErr:
				w.runErr <- e
				break wait // a listen failed (port taken in the meantime)
			default:
			}
			// RunLoop has finished starting its listeners (the workload is not about a shutdown racing with the
			// start-up sequence) once it waits in the select of its tick loop
			if runLoopTicking() {
				// ... and this call takes the manager lock after RunLoop's own StatAllGroup released it, which orders
				// everything RunLoop did while starting before everything the workload does (the race detector
				// does not see a TCP connect as synchronisation)
				_ = w.s.SM.StatAllGroup()
				if cn, err := net.DialTimeout("tcp", addr, time.Second); err == nil {
					_ = cn.Close()
					w.hlsAddr = addr
					count("l3-up", 1)
				}
				break
			}
			time.Sleep(2 * time.Millisecond)
		}
		if w.hlsAddr == "" {
			// no listener: the repetition still runs, HLS requests go through a handler of our own
			count("l3-listen-failed", 1)
			w.hlsH = hls.NewServerHandler(w.s.Cfg.HlsConfig.OutPath, "/hls/", "c20key", 1000, w.s.SM)
		}
	}
}

func runLoopTicking() bool {
	for _, g := range parseGoroutines(pbt.AllGoroutines()) {
		if strings.HasPrefix(g.State, "select") && len(g.Frames) > 0 && strings.HasPrefix(g.Frames[0], lalPrefix+"pkg/logic.(*ServerManager).RunLoop(") {
			return true
		}
	}
	return false
}

func (w *world) runRep() {
	w.start()
	s := w.s
	originDone := make(chan struct{})
	go w.serveOrigin(originDone)

	var wg sync.WaitGroup
	// ticker
	tickDone := make(chan struct{})
	tsl := w.wd.newSlot()
	go protect("ticker", func() {
		defer close(tickDone)
		for i := 0; !w.stop.Load(); i++ {
			time.Sleep(time.Duration(w.c.TickUs) * time.Microsecond)
			if i%3 == 2 {
				// what RunLoop does for on_update and its debug log: snapshot of all groups, serialised outside the locks
				var sgs []base.StatGroup
				w.call(tsl, "StatAllGroup (ticker)", func() { sgs = s.SM.StatAllGroup() })
				marshalSnapshot(sgs)
				if i%6 == 5 {
					for ni := 0; ni < w.c.Names; ni++ {
						var g *logic.Group
						nm := fmt.Sprintf("c20s%d", ni)
						w.call(tsl, "GetGroup (ticker)", func() { g = s.SM.GetGroup("", nm) })
						if g != nil {
							w.call(tsl, "Group.StringifyDebugStats (ticker)", func() { _ = g.StringifyDebugStats(8) })
						}
					}
				}
				continue
			}
			n := w.tickN.Add(1)
			if w.c.TickMode == 0 || (w.c.TickMode == 1 && i%2 == 0) {
				// what RunLoop's ticker does: inactive groups are disposed and erased, the others ticked, under the
				// manager lock — so that group erasure races with admissions / API calls on the same name
				w.call(tsl, "ServerManager.VerifTick (ticker)", func() { s.SM.VerifTick(n) })
				count("manager-ticks", 1)
				continue
			}
			for ni := 0; ni < w.c.Names; ni++ {
				var g *logic.Group
				nm := fmt.Sprintf("c20s%d", ni)
				w.call(tsl, "GetGroup (ticker)", func() { g = s.SM.GetGroup("", nm) })
				if g != nil {
					w.call(tsl, "Group.Tick (ticker)", func() { g.Tick(n) })
				}
			}
			count("ticks", 1)
		}
	})
	// dispose while the workers run
	disposeDone := make(chan struct{})
	dsl := w.wd.newSlot()
	dispose := func() {
		w.panicsAtIssue.Store(int64(len(s.Panics())))
		w.disposeIssued.Store(true)
		w.call(dsl, "ServerManager.Dispose", func() { s.SM.Dispose() })
	}
	go protect("disposer", func() {
		defer close(disposeDone)
		<-w.disposeTrigger
		if w.c.DisposeAt > 0 && !w.stop.Load() {
			count("dispose-while-workers-run", 1)
			dispose()
		}
	})
	// expired blacklist entries + simultaneous HLS requests (see Case.BlBurst)
	burstDone := make(chan struct{})
	if w.c.BlBurst > 0 && w.rep == 0 && w.hlsAddr != "" {
		bsl := w.wd.newSlot()
		go protect("blacklist burst", func() {
			defer close(burstDone)
			for i := 0; i < w.c.BlBurst; i++ {
				ip := fmt.Sprintf("10.%d.%d.%d", 20+i/60000, i/250%250, 1+i%250)
				w.call(bsl, "CtrlAddIpBlacklist (burst)", func() {
					_ = s.SM.CtrlAddIpBlacklist(base.ApiCtrlAddIpBlacklistReq{Ip: ip, DurationSec: i % 2})
				})
			}
			time.Sleep(2100 * time.Millisecond) // IpBlacklist compares unix seconds: entry + 1 s < now holds for all of them
			var bw sync.WaitGroup
			for g := 0; g < 6; g++ {
				bw.Add(1)
				gsl := w.wd.newSlot()
				go protect("blacklist burst request", func() {
					defer bw.Done()
					for j := 0; j < 4; j++ {
						gsl.guard("hls http get (burst)", func() {
							cl := &http.Client{Timeout: lalclient.DeliverTimeout, Transport: &http.Transport{DisableKeepAlives: true},
								CheckRedirect: func(*http.Request, []*http.Request) error { return http.ErrUseLastResponse }}
							if resp, err := cl.Get(fmt.Sprintf("http://%s/hls/c20s0.m3u8", w.hlsAddr)); err == nil {
								_, _ = io.Copy(io.Discard, resp.Body)
								_ = resp.Body.Close()
							}
						})
						if j == 0 {
							// a second wave of entries expires a second later
							ip := fmt.Sprintf("10.99.%d.%d", g, j+1)
							w.call(gsl, "CtrlAddIpBlacklist (burst)", func() { _ = s.SM.CtrlAddIpBlacklist(base.ApiCtrlAddIpBlacklistReq{Ip: ip, DurationSec: 0}) })
						}
					}
				})
			}
			bw.Wait()
			count("blacklist-expiry-bursts", 1)
		})
	} else {
		close(burstDone)
	}
	for wi, ops := range w.c.Workers {
		k := &worker{w: w, idx: wi, ops: ops, sl: w.wd.newSlot()}
		wg.Add(1)
		go protect(fmt.Sprintf("worker %d", wi), func() {
			defer wg.Done()
			k.run()
		})
	}
	wg.Wait()
	<-burstDone
	w.stop.Store(true)
	w.trigOnce.Do(func() { close(w.disposeTrigger) })
	<-disposeDone
	<-tickDone
	if !w.disposeIssued.Load() {
		dispose()
	}
	// a second Dispose would block for ever (one-slot exit channels): clean up by hand instead of inproc.Close
	fsl := w.wd.newSlot()
	fsl.guard("harness session goroutines end after Dispose", func() {
		w.origin.Close()
		w.rtspOrigin.Close()
		if w.busyUDP != nil {
			_ = w.busyUDP.Close()
		}
		if w.busyTCP != nil {
			_ = w.busyTCP.Close()
		}
		if w.notify != nil {
			w.notify.Close()
		}
		<-originDone
		if !s.WaitSessions(lalclient.DeliverTimeout) {
			harnessFail("session goroutines still running %v after everything was closed and the watchdog found no lal mutex waiters", lalclient.DeliverTimeout)
		}
	})
	if w.runErr != nil {
		fsl.guard("ServerManager.RunLoop returns after Dispose", func() {
			select {
			case <-w.runErr:
			case <-time.After(lalclient.DeliverTimeout):
				harnessFail("RunLoop did not return %v after Dispose", lalclient.DeliverTimeout)
			}
		})
	}
	_ = os.RemoveAll(s.Dir)

	// panics recovered in harness-owned goroutines
	ps := s.Panics()
	for i, p := range ps {
		v := pbt.PanicViolation(p.Value, p.Stack)
		if v == nil {
			harnessFail("panic in harness goroutine (%s) without lal frame: %v\n%s", p.Where, p.Value, p.Stack)
		}
		if w.c.DisposeAt > 0 && int64(i) >= w.panicsAtIssue.Load() {
			v.Sig = "after-dispose/" + v.Sig
		}
		finish(verdict{Sig: v.Sig, Detail: fmt.Sprintf("repetition %d, in %s: %s", w.rep, p.Where, v.Detail)})
	}
}

func childMain(casePath string) {
	resultPath = casePath + ".result"
	b, err := os.ReadFile(casePath)
	if err != nil {
		fmt.Fprintln(os.Stderr, "c20 child: cannot read case:", err)
		os.Exit(3)
	}
	var c Case
	if err := json.Unmarshal(b, &c); err != nil {
		fmt.Fprintln(os.Stderr, "c20 child: bad case:", err)
		os.Exit(3)
	}
	if c.Names < 1 || len(c.Workers) == 0 || c.TickUs < 1 {
		harnessFail("malformed case")
	}
	if c.FpsClock {
		fc := mock.NewFakeClock()
		fc.Set(time.Unix(1700000000, 0))
		nazalog.Clock = fc
	}
	if !raceDetectorOn {
		harnessFail("the child runs WITHOUT the race detector (test binary not built with -race): the main oracle of C20 is off")
	}
	// sweeps of idle sessions every 3rd tick, pushes give up quickly
	base.LogicCheckSessionAliveIntervalSec = 3
	logic.StaticRelayPullTimeoutMs = 300
	logic.RelayPushTimeoutMs = 500
	logic.RelayPushWriteAvTimeoutMs = 500
	wd := &watchdog{}
	go wd.monitor()
	rep, _ := strconv.Atoi(os.Getenv("C20_REP"))
	protect("main", func() {
		// GOMAXPROCS of this repetition comes from the environment (set by the parent)
		w := &world{c: c, rep: rep, wd: wd, disposeTrigger: make(chan struct{})}
		w.runRep()
		count("repetitions", 1)
	})
	finish(verdict{Done: true})
}
