// C09 — MPEG-TS packetisation is well-formed and lossless for every frame.
//
// Sub-properties (patpmt-history lives in a_history_test.go):
//
//   - pack-roundtrip: sequences of mpegts.Frame values (audio and video PID, the
//     continuity counter carried out of Pack into the next frame of the same
//     PID exactly as remux.Rtmp2MpegtsRemuxer does) are packed by lal and
//     demultiplexed by the independent reference in /verif/ref/tsref.
//   - psi: PackPat / PackPmt for every (videoCodecId, audioCodecId) pair lal's
//     probing filter can produce (-1, 0..15 each) are parsed by the reference.
//
// Deliberately NOT asserted (the property text leaves these free):
//   - whether a frame with PTS == DTS is sent with PTS only or PTS+DTS (the
//     oracle compares the effective DTS = DTS field if present, else PTS);
//   - PES_packet_length == 0 ("unbounded") for any frame, also audio; a
//     non-zero value must match the bytes that follow;
//   - the PCR value, beyond "a valid extension (< 300) and not later than the
//     DTS of the access unit that carries it";
//   - the value of the first continuity counter relative to the incoming Cc
//     (only +1 per packet per PID, inside and across frames);
//   - the number of packets used, the position of stuffing, data_alignment,
//     priority bits, the constant lal adds to PTS/DTS (it is measured from a
//     calibration frame and must merely be the same for every timestamp);
//   - continuity counters of PAT/PMT packets, PCR_PID when no video stream is
//     declared, the extra DVB extension descriptor lal adds for Opus, the order
//     of the elementary streams in the PMT.
package c09

import (
	"bytes"
	"fmt"
	"testing"

	"github.com/q191201771/lal/pkg/mpegts"
	"pgregory.net/rapid"

	"verif/drv/pbt"
	"verif/gen"
	"verif/ref/tsref"
)

const (
	maxFrameLen = 200 * 1024
	mod33       = uint64(1) << 33
)

// ---------------------------------------------------------------------------
// sub-property 1: Frame.Pack round trip

// F is one frame handed to mpegts.Frame.Pack, in the form lal's remuxer
// produces it: DTS = ms*90, PTS = DTS + 90*cts, audio frames never key and
// never with a composition offset.
type F struct {
	Video bool   `json:"video"`
	Key   bool   `json:"key"`
	DtsMs uint32 `json:"dts_ms"`
	Cts   uint32 `json:"cts"` // 24 bit
	Len   int    `json:"len"`
	Seed  uint32 `json:"seed"`
}

func (f F) dts() uint64 { return uint64(f.DtsMs) * 90 }
func (f F) pts() uint64 { return f.dts() + 90*uint64(f.Cts) }
func (f F) pid() uint16 {
	if f.Video {
		return mpegts.PidVideo
	}
	return mpegts.PidAudio
}
func (f F) sid() uint8 {
	if f.Video {
		return mpegts.StreamIdVideo
	}
	return mpegts.StreamIdAudio
}

// cap0 is the number of payload bytes that fit into the first packet of the
// frame, derived from ISO 13818-1 sizes only: 184 payload bytes per packet,
// minus the 8-byte adaptation field with PCR on key frames, minus the PES
// header (6 + 3 + 5 per timestamp).
func (f F) cap0() int {
	c := 184 - 9 - 5
	if f.Cts != 0 {
		c -= 5
	}
	if f.Key {
		c -= 8
	}
	return c
}

// distance of Len to the nearest stuffing boundary cap0 + 184k (k >= 0);
// positive = beyond the boundary.
func (f F) boundaryDelta() int {
	c := f.cap0()
	if f.Len <= c {
		return f.Len - c
	}
	r := (f.Len - c) % 184
	if r > 92 {
		return r - 184
	}
	return r
}

func (f F) packets() int {
	c := f.cap0()
	if f.Len <= c {
		return 1
	}
	return 1 + (f.Len-c+183)/184
}

type PackCase struct {
	VideoCc uint8 `json:"video_cc"` // continuity counter state before the first video frame
	AudioCc uint8 `json:"audio_cc"`
	Frames  []F   `json:"frames"`
}

var msGen = rapid.OneOf(
	// 700 ms = lal's PCR delay; 47721858/9 straddle 2^32 ticks; 95443017.. straddle 2^33 - delay and 2^33
	rapid.SampledFrom([]uint32{0, 1, 699, 700, 701, 1400, 47721158, 47721159, 47721858, 47721859, 95443017, 95443018, 95443019, 95443717, 95443718,
		190887435, 190887436, 0x7FFFFFFF, 0x80000000, 0xFFFFFFFE, 0xFFFFFFFF}),
	rapid.Uint32Range(0, 100000),
	rapid.Uint32Range(47721000, 47722000),
	rapid.Uint32Range(95442000, 95444000),
	rapid.Uint32(),
)

var ctsGen = rapid.OneOf(
	rapid.SampledFrom([]uint32{1, 40, 0x7FFFFF, 0xFFFFFF}),
	rapid.Uint32Range(1, 200),
	rapid.Uint32Range(1, 0xFFFFFF),
)

func lenGen(t *rapid.T, f F) int {
	c := f.cap0()
	clamp := func(v int) int {
		if v < 1 {
			v = 1
		}
		if v > maxFrameLen {
			v = maxFrameLen
		}
		return v
	}
	maxK := (maxFrameLen - c) / 184
	switch rapid.IntRange(0, 11).Draw(t, "lenClass") {
	case 0, 1, 2, 3, 4, 5:
		// at / around a stuffing boundary
		k := rapid.OneOf(rapid.IntRange(0, 3), rapid.IntRange(0, 3), rapid.IntRange(0, 12), rapid.IntRange(0, maxK)).Draw(t, "k")
		d := rapid.OneOf(rapid.IntRange(-3, 3), rapid.IntRange(-3, 3), rapid.IntRange(-184, 184)).Draw(t, "d")
		return clamp(c + 184*k + d)
	case 6:
		return rapid.IntRange(1, 24).Draw(t, "tiny")
	case 7, 8:
		// every length within two packets of the first boundary
		return rapid.IntRange(1, c+2*184+4).Draw(t, "short")
	case 9:
		return rapid.IntRange(1, 20000).Draw(t, "mid")
	case 10:
		// around the 16-bit PES_packet_length limit
		return clamp(65535 - 3 - 10 + rapid.IntRange(-12, 12).Draw(t, "pesLimit"))
	default:
		return rapid.IntRange(1, maxFrameLen).Draw(t, "big")
	}
}

func genFrame(t *rapid.T, forceVideo int) F {
	var f F
	switch forceVideo {
	case 0:
		f.Video = false
	case 1:
		f.Video = true
	default:
		f.Video = rapid.IntRange(0, 9).Draw(t, "video") < 7
	}
	if f.Video {
		f.Key = rapid.Bool().Draw(t, "key")
		if rapid.Bool().Draw(t, "hasCts") {
			f.Cts = ctsGen.Draw(t, "cts")
		}
	}
	f.DtsMs = msGen.Draw(t, "dtsMs")
	f.Len = lenGen(t, f)
	f.Seed = rapid.Uint32().Draw(t, "seed")
	return f
}

func genPack(t *rapid.T) PackCase {
	var c PackCase
	c.VideoCc = rapid.OneOf(rapid.SampledFrom([]uint8{0, 14, 15, 16, 254, 255}), rapid.Uint8()).Draw(t, "videoCc")
	c.AudioCc = rapid.OneOf(rapid.SampledFrom([]uint8{0, 14, 15, 16, 254, 255}), rapid.Uint8()).Draw(t, "audioCc")
	switch rapid.IntRange(0, 9).Draw(t, "mode") {
	case 0, 1:
		// a run of consecutive lengths across a boundary, one PID, one shape
		f := genFrame(t, -1)
		k := rapid.IntRange(0, 3).Draw(t, "runK")
		start := f.cap0() + 184*k - rapid.IntRange(0, 6).Draw(t, "runBack")
		if start < 1 {
			start = 1
		}
		n := rapid.IntRange(2, 10).Draw(t, "runLen")
		for i := 0; i < n; i++ {
			g := f
			g.Len = start + i
			g.Seed = f.Seed + uint32(i)
			g.DtsMs = f.DtsMs + uint32(40*i)
			c.Frames = append(c.Frames, g)
		}
	default:
		n := rapid.OneOf(rapid.IntRange(1, 3), rapid.IntRange(1, 8)).Draw(t, "n")
		for i := 0; i < n; i++ {
			c.Frames = append(c.Frames, genFrame(t, -1))
		}
	}
	return c
}

func lalPack(f F, cc *uint8) []byte {
	var fr mpegts.Frame
	fr.Cc = *cc
	fr.Dts = f.dts()
	fr.Cts = f.Cts
	fr.Pts = f.pts()
	fr.Key = f.Key
	fr.Raw = gen.Bytes(f.Seed, f.Len)
	fr.Pid = f.pid()
	fr.Sid = f.sid()
	out := fr.Pack()
	*cc = fr.Cc // the way Rtmp2MpegtsRemuxer carries it: s.videoCc = frame.Cc
	return out
}

// calibrate measures the constant lal adds to every PTS/DTS by packing a frame
// that needs neither an adaptation field nor stuffing (PTS = DTS = 0, 170
// bytes, non-key).
func calibrate() (uint64, *pbt.Violation) {
	cc := uint8(0)
	f := F{Video: true, Len: 170, Seed: 1}
	out := lalPack(f, &cc)
	res, err := tsref.Demux(out, tsref.Options{})
	if err != nil || len(res.PES) != 1 || !res.PES[0].HasPTS || len(res.Problems) != 0 {
		return 0, pbt.V("pack/calibration-frame", "the 170-byte non-key calibration frame does not demultiplex: err=%v pes=%d problems=%v", err, len(res.PES), res.Problems)
	}
	return res.PES[0].PTS, nil
}

func describe(i int, f F) string {
	return fmt.Sprintf("frame %d {video=%v key=%v dts=%d pts=%d len=%d cap0=%d}", i, f.Video, f.Key, f.dts(), f.pts(), f.Len, f.cap0())
}

func checkFrame(i int, f F, out []byte, offset uint64) *pbt.Violation {
	d := describe(i, f)
	if len(out) == 0 || len(out)%188 != 0 {
		return pbt.V("pack/size-not-multiple-of-188", "%s: Pack returned %d bytes", d, len(out))
	}
	res, err := tsref.Demux(out, tsref.Options{})
	if err != nil {
		return pbt.V("pack/sync-byte", "%s: %v", d, err)
	}
	for _, p := range res.Packets {
		if p.PID != f.pid() {
			return pbt.V("pack/pid", "%s: packet %d has PID 0x%x, want 0x%x", d, p.Index, p.PID, f.pid())
		}
		if p.PUSI != (p.Index == 0) {
			return pbt.V("pack/pusi", "%s: packet %d of %d has payload_unit_start_indicator=%v", d, p.Index, len(res.Packets), p.PUSI)
		}
	}
	// structural problems first; value-only problems (a stuffing byte that is
	// not 0xFF, reserved bits) are reported after the semantic comparison so
	// that the signature names the most meaningful failure
	structural, cosmetic := splitProblems(res.Problems)
	if len(structural) > 0 {
		return pbt.V("pack/malformed/"+structural[0].Kind, "%s: %d problem(s), first: %s; first packet: % x", d, len(res.Problems), structural[0], out[:48])
	}
	for _, p := range res.Packets {
		if p.Discontinuity {
			return pbt.V("pack/discontinuity-indicator", "%s: packet %d sets discontinuity_indicator", d, p.Index)
		}
		wantMark := f.Key && p.Index == 0
		if p.RandomAccess != wantMark {
			return pbt.V("pack/random-access-indicator", "%s: packet %d random_access_indicator=%v, want %v", d, p.Index, p.RandomAccess, wantMark)
		}
		if p.HasPCR != wantMark {
			return pbt.V("pack/pcr-flag", "%s: packet %d PCR_flag=%v, want %v", d, p.Index, p.HasPCR, wantMark)
		}
	}
	if n := res.Orphans[f.pid()]; n != 0 {
		return pbt.V("pack/payload-before-pes-start", "%s: %d payload bytes before the PES start", d, n)
	}
	if len(res.PES) != 1 {
		return pbt.V("pack/pes-count", "%s: %d PES packets demultiplexed, want 1", d, len(res.PES))
	}
	pes := res.PES[0]
	if pes.StreamID != f.sid() {
		return pbt.V("pack/stream-id", "%s: stream_id 0x%02x, want 0x%02x", d, pes.StreamID, f.sid())
	}
	if !pes.HasPTS {
		return pbt.V("pack/pts-missing", "%s: PES header carries no PTS (PTS_DTS_flags=%d)", d, pes.PTSDTSFlags)
	}
	wantPts := (f.pts() + offset) % mod33
	wantDts := (f.dts() + offset) % mod33
	if pes.PTS != wantPts {
		return pbt.V("pack/pts", "%s: PTS %d, want (%d + %d) mod 2^33 = %d", d, pes.PTS, f.pts(), offset, wantPts)
	}
	effDts := pes.PTS
	if pes.HasDTS {
		effDts = pes.DTS
	}
	if effDts != wantDts {
		return pbt.V("pack/dts", "%s: DTS %d (DTS field present=%v), want (%d + %d) mod 2^33 = %d", d, effDts, pes.HasDTS, f.dts(), offset, wantDts)
	}
	want := gen.Bytes(f.Seed, f.Len)
	if !bytes.Equal(pes.Payload, want) {
		at := 0
		for at < len(want) && at < len(pes.Payload) && want[at] == pes.Payload[at] {
			at++
		}
		return pbt.V("pack/payload", "%s: elementary payload differs: got %d bytes, want %d, first difference at %d (%d packets)", d, len(pes.Payload), len(want), at, len(res.Packets))
	}
	if f.Key {
		p0 := res.Packets[0]
		if tsref.TimestampDiff(effDts, p0.PCRBase) < 0 {
			return pbt.V("pack/pcr-after-dts", "%s: PCR base %d is later than the frame's DTS %d", d, p0.PCRBase, effDts)
		}
	}
	if len(cosmetic) > 0 {
		return pbt.V("pack/malformed/"+cosmetic[0].Kind, "%s: %d problem(s), first: %s", d, len(cosmetic), cosmetic[0])
	}
	return nil
}

func splitProblems(in []tsref.Problem) (structural, cosmetic []tsref.Problem) {
	for _, p := range in {
		switch p.Kind {
		case "af-stuffing-not-ff", "af-reserved-bits", "af-pcr-extension", "pes-header-stuffing-not-ff":
			cosmetic = append(cosmetic, p)
		default:
			structural = append(structural, p)
		}
	}
	return
}

func runPack(c PackCase) *pbt.Violation {
	v := runFrames(c.VideoCc, c.AudioCc, c.Frames)
	if v == nil {
		pbt.Count("frames_packed_pack_roundtrip", len(c.Frames))
	}
	return v
}

// runFrames packs the frames in order (continuity counter carried per PID),
// checks every frame's output on its own and then the concatenated stream.
func runFrames(videoCc, audioCc uint8, frames []F) *pbt.Violation {
	c := PackCase{VideoCc: videoCc, AudioCc: audioCc, Frames: frames}
	offset, v := calibrate()
	if v != nil {
		return v
	}
	vcc, acc := c.VideoCc, c.AudioCc
	var wire []byte
	firstOf := map[int]int{} // first packet index -> frame index
	var outs [][]byte
	for i, f := range c.Frames {
		cc := &acc
		if f.Video {
			cc = &vcc
		}
		out := lalPack(f, cc)
		outs = append(outs, out)
		firstOf[len(wire)/188] = i
		wire = append(wire, out...)
	}
	for i, f := range c.Frames {
		if v := checkFrame(i, f, outs[i], offset); v != nil {
			return v
		}
	}
	// the concatenation, as a subscriber receives it
	res, err := tsref.Demux(wire, tsref.Options{})
	if err != nil {
		panic(pbt.HarnessError{Msg: "concatenation of individually valid outputs does not demux: " + err.Error()})
	}
	if len(res.CC) > 0 {
		e := res.CC[0]
		where := "within-frame"
		fi, atStart := firstOf[e.Packet]
		if atStart {
			where = "across-frames"
		} else {
			for p := e.Packet; p >= 0; p-- {
				if j, ok := firstOf[p]; ok {
					fi = j
					break
				}
			}
		}
		return pbt.V("pack/continuity-"+where, "%s: packet %d of the stream on PID 0x%x has continuity_counter %d, want %d (%s; %d event(s))",
			describe(fi, c.Frames[fi]), e.Packet, e.PID, e.Got, e.Expected, e.Kind, len(res.CC))
	}
	if len(res.Problems) > 0 {
		return pbt.V("pack/stream-malformed/"+res.Problems[0].Kind, "concatenated stream: %s", res.Problems[0])
	}
	if len(res.PES) != len(c.Frames) {
		return pbt.V("pack/stream-pes-count", "concatenated stream has %d PES packets, want %d", len(res.PES), len(c.Frames))
	}
	for i, f := range c.Frames {
		pes := res.PES[i]
		if pes.PID != f.pid() || len(pes.Payload) != f.Len || pes.RandomAccess != f.Key {
			return pbt.V("pack/stream-pes-mismatch", "%s: PES %d of the concatenated stream has pid=0x%x len=%d random_access=%v", describe(i, f), i, pes.PID, len(pes.Payload), pes.RandomAccess)
		}
	}
	return nil
}

func shape(f F) string {
	switch {
	case !f.Video:
		return "audio(nonkey,pts)"
	case f.Key && f.Cts != 0:
		return "key,pts+dts"
	case f.Key:
		return "key,pts"
	case f.Cts != 0:
		return "nonkey,pts+dts"
	}
	return "nonkey,pts"
}

func classifyPack(c PackCase) (bool, []string) {
	var labels []string
	nt := false
	perPid := map[bool]int{}
	for _, f := range c.Frames {
		perPid[f.Video]++
		s := shape(f)
		labels = append(labels, "shape:"+s)
		bd := f.boundaryDelta()
		if bd >= -3 && bd <= 3 {
			nt = true
			labels = append(labels, fmt.Sprintf("boundary%+d", bd), fmt.Sprintf("%s@boundary%+d", s, bd))
		}
		np := f.packets()
		if np <= 3 {
			nt = true
			labels = append(labels, fmt.Sprintf("packets=%d", np))
		} else {
			labels = append(labels, "packets>3")
		}
		if f.Key && f.Len < 184 {
			nt = true
			labels = append(labels, "key<184B")
		}
		if f.Key && f.Len < f.cap0() {
			labels = append(labels, "key-first-packet-stuffed")
		}
		if f.Len+13 > 0xFFFF {
			labels = append(labels, "pes-size>65535")
		}
		if f.Len+18+3 >= 0xFFF0 && f.Len <= 0xFFFF {
			labels = append(labels, "pes-size~65535")
		}
		if f.Len > 100*1024 {
			labels = append(labels, "len>100KiB")
		}
		if f.pts() >= 1<<32 {
			labels = append(labels, "pts>=2^32")
		}
		if f.pts()+63000 >= mod33 {
			labels = append(labels, "pts-wraps-2^33")
		}
		if f.DtsMs <= 700 {
			labels = append(labels, "dts<=pcr-delay")
		}
	}
	if perPid[true] >= 2 || perPid[false] >= 2 {
		labels = append(labels, "continuity-across-frames")
	}
	if perPid[true] > 0 && perPid[false] > 0 {
		labels = append(labels, "both-pids")
	}
	return nt, uniq(labels)
}

func uniq(in []string) []string {
	seen := map[string]bool{}
	var out []string
	for _, s := range in {
		if !seen[s] {
			seen[s] = true
			out = append(out, s)
		}
	}
	return out
}

// ---------------------------------------------------------------------------
// sub-property 2: PAT / PMT

type PsiCase struct {
	Video int `json:"video"` // what rtmp2MpegtsFilter passes: -1 (none) or the 4-bit RTMP codec id
	Audio int `json:"audio"` // -1 or the 4-bit RTMP sound format
}

func genPsi(t *rapid.T) PsiCase {
	g := rapid.OneOf(rapid.SampledFrom([]int{-1, 7, 12, 10, 13}), rapid.IntRange(-1, 15))
	return PsiCase{Video: g.Draw(t, "video"), Audio: g.Draw(t, "audio")}
}

type wantES struct {
	typ uint8
	pid uint16
	reg string
}

// expected elementary streams: RTMP codec id 7 = AVC, 12 = HEVC; sound format
// 10 = AAC, 13 = Opus (private data + registration descriptor "Opus").
// Anything else cannot be declared by lal and must not be declared as
// something it is not.
func expectedStreams(c PsiCase) []wantES {
	var w []wantES
	switch c.Video {
	case 7:
		w = append(w, wantES{tsref.StreamTypeH264, mpegts.PidVideo, ""})
	case 12:
		w = append(w, wantES{tsref.StreamTypeH265, mpegts.PidVideo, ""})
	}
	switch c.Audio {
	case 10:
		w = append(w, wantES{tsref.StreamTypeAAC, mpegts.PidAudio, ""})
	case 13:
		w = append(w, wantES{tsref.StreamTypePrivate, mpegts.PidAudio, "Opus"})
	}
	return w
}

func runPsi(c PsiCase) *pbt.Violation {
	pat := mpegts.PackPat()
	pmt := mpegts.PackPmt(c.Video, c.Audio)
	if len(pat) != 188 || len(pmt) != 188 {
		return pbt.V("psi/size-not-188", "PackPat returned %d bytes, PackPmt %d", len(pat), len(pmt))
	}
	wire := append(append([]byte(nil), pat...), pmt...)
	return checkPatPmtWire(c, wire)
}

// checkPatPmtWire judges one PAT packet followed by one PMT packet (the block
// lal puts in front of every hls fragment / sends to every joining http-ts
// subscriber) against the codecs c of the stream it belongs to.
func checkPatPmtWire(c PsiCase, wire []byte) *pbt.Violation {
	if len(wire) != 2*188 {
		return pbt.V("psi/size-not-188", "PAT/PMT block is %d bytes, want 376", len(wire))
	}
	res, err := tsref.Demux(wire, tsref.Options{})
	if err != nil {
		return pbt.V("psi/sync-byte", "%v", err)
	}
	if len(res.Problems) > 0 {
		p := res.Problems[0]
		return pbt.V("psi/malformed/"+p.Kind, "%d problem(s), first: %s; pat=% x pmt=% x", len(res.Problems), p, wire[:24], wire[188:236])
	}
	for _, p := range res.Packets {
		if !p.PUSI || p.AFC != 1 {
			return pbt.V("psi/ts-header", "packet %d: payload_unit_start_indicator=%v adaptation_field_control=%d", p.Index, p.PUSI, p.AFC)
		}
	}
	if res.Packets[0].PID != tsref.PIDPAT {
		return pbt.V("psi/pat-pid", "PackPat output is on PID 0x%x", res.Packets[0].PID)
	}
	if len(res.PATs) != 1 {
		return pbt.V("psi/pat-missing", "%d program association sections with a valid CRC found in PackPat output (sections=%d)", len(res.PATs), len(res.Sections))
	}
	p := res.PATs[0]
	if !p.Section.CurrentNext {
		return pbt.V("psi/pat-not-current", "current_next_indicator is 0")
	}
	var progs []tsref.PATEntry
	for _, e := range p.Entries {
		if e.ProgramNumber != 0 {
			progs = append(progs, e)
		}
	}
	if len(progs) != 1 {
		return pbt.V("psi/pat-programs", "PAT lists %d programs, want exactly 1: %+v", len(progs), p.Entries)
	}
	if res.Packets[1].PID != progs[0].PID {
		return pbt.V("psi/pmt-pid", "PAT maps program %d to PID 0x%x but PackPmt output is on PID 0x%x", progs[0].ProgramNumber, progs[0].PID, res.Packets[1].PID)
	}
	if len(res.PMTs) != 1 {
		return pbt.V("psi/pmt-missing", "%d program map sections with a valid CRC found on PID 0x%x (sections=%d)", len(res.PMTs), progs[0].PID, len(res.Sections))
	}
	m := res.PMTs[0]
	if !m.Section.CurrentNext {
		return pbt.V("psi/pmt-not-current", "current_next_indicator is 0")
	}
	if m.ProgramNumber != progs[0].ProgramNumber {
		return pbt.V("psi/program-number", "PMT program_number %d, PAT announces %d", m.ProgramNumber, progs[0].ProgramNumber)
	}
	if len(res.Sections) != 2 {
		return pbt.V("psi/extra-sections", "%d sections, want 2", len(res.Sections))
	}
	want := expectedStreams(c)
	if len(m.Streams) != len(want) {
		return pbt.V("psi/stream-types", "PackPmt(%d,%d) declares %d streams %s, want %d", c.Video, c.Audio, len(m.Streams), fmtStreams(m.Streams), len(want))
	}
	seenPid := map[uint16]bool{}
	for _, s := range m.Streams {
		if seenPid[s.PID] {
			return pbt.V("psi/duplicate-pid", "elementary PID 0x%x declared twice", s.PID)
		}
		seenPid[s.PID] = true
	}
	for _, w := range want {
		found := false
		for _, s := range m.Streams {
			if s.PID == w.pid {
				found = true
				if s.StreamType != w.typ {
					return pbt.V("psi/stream-types", "PackPmt(%d,%d): PID 0x%x has stream_type 0x%02x, want 0x%02x", c.Video, c.Audio, s.PID, s.StreamType, w.typ)
				}
				if w.reg != "" && s.Registration() != w.reg {
					return pbt.V("psi/registration-descriptor", "PackPmt(%d,%d): private stream on PID 0x%x has registration %q, want %q", c.Video, c.Audio, s.PID, s.Registration(), w.reg)
				}
			}
		}
		if !found {
			return pbt.V("psi/stream-types", "PackPmt(%d,%d) declares %s; no stream on PID 0x%x", c.Video, c.Audio, fmtStreams(m.Streams), w.pid)
		}
	}
	if c.Video == 7 || c.Video == 12 {
		// Pack puts the PCR on key frames of the video PID
		if m.PCRPID != mpegts.PidVideo {
			return pbt.V("psi/pcr-pid", "PCR_PID 0x%x, want the video PID 0x%x", m.PCRPID, mpegts.PidVideo)
		}
	}
	return nil
}

func fmtStreams(s []tsref.ES) string {
	out := "["
	for i, e := range s {
		if i > 0 {
			out += " "
		}
		out += fmt.Sprintf("{type=0x%02x pid=0x%x reg=%q}", e.StreamType, e.PID, e.Registration())
	}
	return out + "]"
}

func classifyPsi(c PsiCase) (bool, []string) {
	name := func(v int, known map[int]string) string {
		if s, ok := known[v]; ok {
			return s
		}
		if v == -1 {
			return "none"
		}
		return "unknown"
	}
	v := name(c.Video, map[int]string{7: "avc", 12: "hevc"})
	a := name(c.Audio, map[int]string{10: "aac", 13: "opus"})
	return true, []string{"video=" + v, "audio=" + a, "pair=" + v + "+" + a}
}

func TestPsi(t *testing.T) {
	pbt.Run(t, pbt.Spec[PsiCase]{
		ID: "C09", Name: "psi", Gen: genPsi, Run: runPsi, Classify: classifyPsi,
		Quick: 400, Thorough: 2000,
	})
}

// TestPsiExhaustive enumerates the whole (video, audio) domain — 17 x 17
// pairs — in every case; the drawn value only rotates the starting point.
type PsiAll struct {
	Start int `json:"start"`
}

func TestPsiExhaustive(t *testing.T) {
	pbt.Run(t, pbt.Spec[PsiAll]{
		ID: "C09", Name: "psi-exhaustive",
		Gen: func(t *rapid.T) PsiAll { return PsiAll{Start: rapid.IntRange(0, 288).Draw(t, "start")} },
		Run: func(r PsiAll) *pbt.Violation {
			for i := 0; i < 289; i++ {
				k := (r.Start + i) % 289
				if v := runPsi(PsiCase{Video: k/17 - 1, Audio: k%17 - 1}); v != nil {
					return v
				}
			}
			return nil
		},
		Classify: func(r PsiAll) (bool, []string) { return true, []string{"all-289-pairs"} },
		Quick:    3, Thorough: 10,
	})
}

// ---------------------------------------------------------------------------
// sub-property 3: exhaustive sweep of the short lengths
//
// Every payload length 1..SweepMax for each of the five header shapes, as one
// long stream per case (so continuity runs through thousands of frames and
// every counter value meets every packet count).  SweepMax covers every
// length within two packets of the first four stuffing boundaries.

type SweepCase struct {
	VideoCc uint8  `json:"video_cc"`
	AudioCc uint8  `json:"audio_cc"`
	DtsMs   uint32 `json:"dts_ms"`
	Cts     uint32 `json:"cts"` // used by the PTS+DTS shapes (non-zero)
	Seed    uint32 `json:"seed"`
	From    int    `json:"from"`
	To      int    `json:"to"`
}

func sweepMax() int {
	if pbt.Thorough() {
		return 184*12 + 8
	}
	return 184*5 + 8
}

func genSweep(t *rapid.T) SweepCase {
	return SweepCase{
		VideoCc: rapid.Uint8().Draw(t, "videoCc"),
		AudioCc: rapid.Uint8().Draw(t, "audioCc"),
		DtsMs:   msGen.Draw(t, "dtsMs"),
		Cts:     ctsGen.Draw(t, "cts"),
		Seed:    rapid.Uint32().Draw(t, "seed"),
		From:    1,
		To:      sweepMax(),
	}
}

func runSweep(c SweepCase) *pbt.Violation {
	if c.Cts == 0 || c.From < 1 || c.To < c.From {
		panic(pbt.HarnessError{Msg: "sweep case outside its domain"})
	}
	var frames []F
	for l := c.From; l <= c.To; l++ {
		for sh := 0; sh < 5; sh++ {
			f := F{Video: sh != 4, Key: sh == 0 || sh == 1, DtsMs: c.DtsMs + uint32(l), Len: l, Seed: c.Seed + uint32(l*5+sh)}
			if sh == 1 || sh == 3 {
				f.Cts = c.Cts
			}
			frames = append(frames, f)
		}
	}
	return runFrames(c.VideoCc, c.AudioCc, frames)
}

func TestSweepShortLengths(t *testing.T) {
	pbt.Run(t, pbt.Spec[SweepCase]{
		ID: "C09", Name: "pack-sweep", Gen: genSweep, Run: runSweep,
		Classify: func(c SweepCase) (bool, []string) {
			return true, []string{fmt.Sprintf("all-lengths-%d..%d-x-5-shapes", c.From, c.To)}
		},
		Quick: 12, Thorough: 40,
	})
}

// TestPackRoundTrip is last in the file: pbt's free-form counters are process
// wide and are snapshotted into each sub-property's statistics.
func TestPackRoundTrip(t *testing.T) {
	pbt.Run(t, pbt.Spec[PackCase]{
		ID: "C09", Name: "pack-roundtrip", Gen: genPack, Run: runPack, Classify: classifyPack,
		Quick: 15000, Thorough: 150000,
	})
}
