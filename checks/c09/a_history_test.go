// C09, sub-property patpmt-history: the PAT/PMT of a stream keeps declaring
// exactly that stream's codecs for as long as lal (or anybody lal handed it
// to) may emit it.
//
// lal produces the PAT/PMT block once per stream (rtmp2MpegtsFilter.drain:
// `patpmt := mpegts.PackPat(); patpmt = append(patpmt, mpegts.PackPmt(v, a)...)`)
// and hands the slice to observers that are explicitly allowed to keep it
// (IRtmp2MpegtsRemuxerObserver.OnPatPmt: "上层可以持有，但是不允许修改"):
// hls.Muxer writes the retained slice in front of every later fragment,
// logic.Group sends it to every http-ts subscriber that joins later and into
// the ts record.  So "the PAT/PMT lal emits" is the retained block *at the time
// it is emitted*, i.e. after any number of other streams of the same process
// have produced theirs.
//
// A case is a history of 2..6 streams with a codec combination each.  Every
// stream is driven either through the real remux.Rtmp2MpegtsRemuxer (sequence
// headers + frames, single-track streams until the 16-message probe queue
// drains or the stream ends) with an observer that keeps the slice exactly as
// hls.Muxer / logic.Group do (no copy), or through the drain() idiom on the
// exported pack functions.  After EVERY later stream has produced its PAT/PMT,
// after earlier streams went on, and after all were disposed, each retained
// block must
//   - still parse (ref/tsref) as PAT + PMT with valid CRC-32 declaring exactly
//     the codecs of ITS stream,
//   - be byte-identical to the copy taken at callback time,
//   - not change when another retained block's spare capacity
//     (b[len(b):cap(b)], what `append(b, ...)` writes to) is written.
//
// Deliberately NOT asserted: that OnPatPmt is called exactly once or before
// the first OnTsPackets; anything about the TS packets of the frames (that is
// pack-roundtrip); that distinct streams get distinct backing arrays (only the
// observable bytes count: an implementation may hand the same immutable PAT or
// the same immutable block to streams with the same codecs).  A stream for
// which lal produced no PAT/PMT at all is skipped (counted in
// history_streams_without_patpmt).
package c09

import (
	"bytes"
	"fmt"
	"strings"
	"testing"

	"github.com/q191201771/lal/pkg/base"
	"github.com/q191201771/lal/pkg/mpegts"
	"github.com/q191201771/lal/pkg/remux"
	"pgregory.net/rapid"

	"verif/drv/pbt"
	"verif/gen"
)

// HStream is one stream of the history.
type HStream struct {
	Video int `json:"video"` // -1 none | 7 avc | 12 hevc
	Audio int `json:"audio"` // -1 none | 10 aac | 13 opus | 7 g711a | 8 g711u | 2 mp3 (the last three: carried in RTMP, not declared in TS)
	// Direct: the drain() idiom on mpegts.PackPat / PackPmt instead of a remuxer.
	Direct     bool `json:"direct,omitempty"`
	Enhanced   bool `json:"enhanced,omitempty"`    // hevc with the enhanced-RTMP header ('hvc1')
	AudioFirst bool `json:"audio_first,omitempty"` // order of the two tracks' first messages
	Msgs       int  `json:"msgs,omitempty"`        // media messages after the first message of each track, before the next stream starts
	Later      int  `json:"later,omitempty"`       // messages fed while later streams start (one after each start)
}

type HistCase struct {
	Streams []HStream `json:"streams"`
}

func (s HStream) psi() PsiCase { return PsiCase{Video: s.Video, Audio: s.Audio} }

func (s HStream) name() string {
	_, l := classifyPsi(s.psi())
	n := strings.TrimPrefix(l[2], "pair=")
	if s.Audio != -1 && s.Audio != 10 && s.Audio != 13 {
		n += fmt.Sprintf("(fmt%d)", s.Audio)
	}
	return n
}

// declKey identifies what the PMT has to declare (g711 / mp3 / no audio all
// declare nothing on the audio PID).
func (s HStream) declKey() string { return fmt.Sprint(expectedStreams(s.psi())) }

func (s HStream) via() string {
	if s.Direct {
		return "PackPat+PackPmt"
	}
	return "Rtmp2MpegtsRemuxer"
}

func genHist(t *rapid.T) HistCase {
	n := rapid.IntRange(2, 6).Draw(t, "streams")
	same := rapid.IntRange(0, 19).Draw(t, "sameCombination") == 0
	var c HistCase
	for i := 0; i < n; i++ {
		var s HStream
		if same && i > 0 {
			s.Video, s.Audio = c.Streams[0].Video, c.Streams[0].Audio
		} else {
			s.Video = rapid.SampledFrom([]int{7, 7, 7, 12, 12, 12, -1, -1}).Draw(t, "video")
			s.Audio = rapid.SampledFrom([]int{10, 10, 10, 13, 13, 13, -1, -1, 7, 8, 2}).Draw(t, "audio")
			if s.Video == -1 && s.Audio == -1 {
				s.Audio = 10 // a stream has at least one track
			}
		}
		s.Direct = rapid.IntRange(0, 9).Draw(t, "direct") < 3
		if !s.Direct {
			if s.Video == 12 {
				s.Enhanced = rapid.IntRange(0, 2).Draw(t, "enhanced") == 0
			}
			if s.Video != -1 && s.Audio != -1 {
				s.AudioFirst = rapid.Bool().Draw(t, "audioFirst")
				s.Msgs = rapid.IntRange(0, 3).Draw(t, "msgs")
			} else {
				// single track: the probe queue drains with its 16th message; a shorter stream gets its PAT/PMT when it ends
				s.Msgs = rapid.SampledFrom([]int{0, 1, 2, 14, 15, 15, 16, 18}).Draw(t, "msgs1")
			}
			s.Later = rapid.IntRange(0, 2).Draw(t, "later")
		}
		c.Streams = append(c.Streams, s)
	}
	return c
}

// ---- RTMP messages of one stream ------------------------------------------

func hMsg(typeId uint8, ts uint32, payload []byte) base.RtmpMsg {
	var m base.RtmpMsg
	m.Header.MsgTypeId = typeId
	m.Header.MsgStreamId = 1
	m.Header.TimestampAbs = ts
	m.Header.MsgLen = uint32(len(payload))
	m.Payload = payload
	return m
}

// first message of the video track: the sequence header
func (s HStream) videoHead() base.RtmpMsg {
	if s.Video == 12 {
		vps, sps, pps := gen.ParamSets("hevc", 0)
		body := gen.HevcSeqHeaderBody(vps, sps, pps)
		if s.Enhanced {
			return hMsg(base.RtmpTypeIdVideo, 0, append([]byte{0x80 | 1<<4 | 0, 'h', 'v', 'c', '1'}, body...))
		}
		return hMsg(base.RtmpTypeIdVideo, 0, append([]byte{0x1c, 0, 0, 0, 0}, body...))
	}
	_, sps, pps := gen.ParamSets("avc", 0)
	return hMsg(base.RtmpTypeIdVideo, 0, append([]byte{0x17, 0, 0, 0, 0}, gen.AvcSeqHeaderBody(sps, pps)...))
}

func (s HStream) videoFrame(stream, j int, key bool) base.RtmpMsg {
	ft := byte(2)
	if key {
		ft = 1
	}
	var b, hdr []byte
	switch {
	case s.Video == 12 && s.Enhanced:
		b = []byte{0x80 | ft<<4 | 3, 'h', 'v', 'c', '1'}
	case s.Video == 12:
		b = []byte{ft<<4 | 12, 1, 0, 0, 0}
	default:
		b = []byte{ft<<4 | 7, 1, 0, 0, 0}
	}
	switch {
	case s.Video == 12 && key:
		hdr = []byte{19 << 1, 1}
	case s.Video == 12:
		hdr = []byte{1 << 1, 1}
	case key:
		hdr = []byte{0x65}
	default:
		hdr = []byte{0x41}
	}
	serial := uint32(stream*1000 + j)
	nal := gen.NalSpec{Hdr: hdr, Len: 240 + 7*j, Seed: serial, Serial: serial}.Bytes()
	b = append(b, byte(len(nal)>>24), byte(len(nal)>>16), byte(len(nal)>>8), byte(len(nal)))
	return hMsg(base.RtmpTypeIdVideo, uint32(40*j), append(b, nal...))
}

// first message of the audio track: the AAC sequence header, a frame for every other format
func (s HStream) audioHead(stream int) base.RtmpMsg {
	if s.Audio == 10 {
		return hMsg(base.RtmpTypeIdAudio, 0, append([]byte{0xAF, 0}, gen.Asc(2, 4, 2)...))
	}
	return s.audioFrame(stream, 0)
}

func (s HStream) audioFrame(stream, j int) base.RtmpMsg {
	body := gen.Bytes(uint32(stream*1000+j)^0x9e3779b9, 60+j)
	var h []byte
	switch s.Audio {
	case 10:
		h = []byte{0xAF, 1}
	case 13:
		h = []byte{0xDF, 1}
	default:
		h = []byte{byte(s.Audio)<<4 | 2}
	}
	return hMsg(base.RtmpTypeIdAudio, uint32(23*j), append(h, body...))
}

// ---- the history ------------------------------------------------------------

// histObs keeps what it is handed the way hls.Muxer.FeedPatPmt and
// logic.Group.OnPatPmt do: the slice itself.
type histObs struct {
	h       *history
	stream  int
	packets int
}

func (o *histObs) OnPatPmt(b []byte) { o.h.retain(o.stream, "block handed to OnPatPmt", b, nil) }
func (o *histObs) OnTsPackets(tsPackets []byte, frame *mpegts.Frame, boundary bool) {
	o.packets += len(tsPackets) / 188
}

type retained struct {
	stream int
	what   string
	b      []byte // exactly the slice lal handed out
	snap   []byte // copy taken when it was handed out
	pat    []byte // for a lone PMT packet: copy of the PAT to parse it with
}

type running struct {
	s      HStream
	r      *remux.Rtmp2MpegtsRemuxer
	obs    *histObs
	vj, aj int // next frame index per track
	turn   int
	later  int
	closed bool
}

type history struct {
	c      HistCase
	kept   []retained
	first  *pbt.Violation
	blocks map[int]int // stream -> PAT/PMT blocks retained
}

func (h *history) retain(stream int, what string, b, pat []byte) {
	e := retained{stream: stream, what: what, b: b, snap: append([]byte(nil), b...), pat: pat}
	h.kept = append(h.kept, e)
	if pat == nil {
		h.blocks[stream]++
	}
	// as seen at the moment it is handed out
	if v := h.judge(e, "history/at-callback/", "when handed out"); v != nil && h.first == nil {
		h.first = v
	}
}

func (h *history) judge(e retained, sigPrefix, when string) *pbt.Violation {
	s := h.c.Streams[e.stream]
	wire := e.b
	if e.pat != nil {
		wire = append(append([]byte(nil), e.pat...), e.b...)
	}
	if v := checkPatPmtWire(s.psi(), wire); v != nil {
		return pbt.V(sigPrefix+strings.TrimPrefix(v.Sig, "psi/"), "stream %d (%s via %s), %s, %s: %s", e.stream, s.name(), s.via(), e.what, when, v.Detail)
	}
	return nil
}

// verify re-reads everything retained so far, oldest first.
func (h *history) verify(when string) *pbt.Violation {
	if h.first != nil {
		return h.first
	}
	for _, e := range h.kept {
		if v := h.judge(e, "history/retained/", "re-read "+when); v != nil {
			return v
		}
		if !bytes.Equal(e.b, e.snap) {
			at := 0
			for at < len(e.b) && e.b[at] == e.snap[at] {
				at++
			}
			s := h.c.Streams[e.stream]
			return pbt.V("history/retained/bytes-changed", "stream %d (%s via %s), %s, re-read %s: differs from the copy taken when it was handed out, first at byte %d (still parses and declares the stream's codecs)",
				e.stream, s.name(), s.via(), e.what, when, at)
		}
	}
	return nil
}

func (ru *running) feed(stream int) {
	s := ru.s
	video := s.Video != -1 && (s.Audio == -1 || ru.turn%2 == 0)
	ru.turn++
	if video {
		ru.r.FeedRtmpMessage(s.videoFrame(stream, ru.vj+1, ru.vj%8 == 0))
		ru.vj++
	} else {
		ru.r.FeedRtmpMessage(s.audioFrame(stream, ru.aj+1))
		ru.aj++
	}
}

func runHist(c HistCase) *pbt.Violation {
	if len(c.Streams) < 2 {
		panic(pbt.HarnessError{Msg: "history with fewer than two streams"})
	}
	h := &history{c: c, blocks: map[int]int{}}
	var open []*running
	defer func() {
		for _, ru := range open {
			if !ru.closed {
				ru.closed = true
				ru.r.Dispose()
			}
		}
	}()
	desc := func(i int) string { return fmt.Sprintf("stream %d (%s via %s)", i, c.Streams[i].name(), c.Streams[i].via()) }

	for i, s := range c.Streams {
		if s.Video == -1 && s.Audio == -1 {
			panic(pbt.HarnessError{Msg: "stream without tracks"})
		}
		if s.Direct {
			// rtmp2MpegtsFilter.drain(), verbatim
			patpmt := mpegts.PackPat()
			patOnly := append([]byte(nil), patpmt...)
			pmt := mpegts.PackPmt(s.Video, s.Audio)
			patpmt = append(patpmt, pmt...)
			h.retain(i, "append(PackPat(), PackPmt(v, a)...)", patpmt, nil)
			h.retain(i, "result of PackPmt(v, a)", pmt, patOnly)
		} else {
			ru := &running{s: s, later: s.Later}
			ru.obs = &histObs{h: h, stream: i}
			ru.r = remux.NewRtmp2MpegtsRemuxer(ru.obs)
			open = append(open, ru)
			heads := []base.RtmpMsg{}
			if s.Video != -1 {
				heads = append(heads, s.videoHead())
			}
			if s.Audio != -1 {
				heads = append(heads, s.audioHead(i))
			}
			if s.AudioFirst && len(heads) == 2 {
				heads[0], heads[1] = heads[1], heads[0]
			}
			for _, m := range heads {
				ru.r.FeedRtmpMessage(m)
			}
			for k := 0; k < s.Msgs; k++ {
				ru.feed(i)
			}
			if h.blocks[i] == 0 {
				// a short stream that showed one track only: it ends here
				ru.closed = true
				ru.r.Dispose()
			}
			if h.blocks[i] == 0 {
				pbt.Count("history_streams_without_patpmt", 1)
			}
		}
		if v := h.verify("after " + desc(i) + " produced its PAT/PMT"); v != nil {
			return v
		}
		// the earlier streams go on
		fed := false
		for _, ru := range open {
			if ru.obs.stream != i && !ru.closed && ru.later > 0 {
				ru.later--
				ru.feed(ru.obs.stream)
				fed = true
			}
		}
		if fed {
			if v := h.verify("after " + desc(i) + " started and the earlier streams went on"); v != nil {
				return v
			}
		}
	}

	// somebody appends to a block it holds (append writes into the spare capacity, never into the block itself)
	for k, e := range h.kept {
		spare := e.b[len(e.b):cap(e.b)]
		if len(spare) == 0 {
			continue
		}
		for j := range spare {
			spare[j] = 0xA5
		}
		for _, o := range h.kept {
			if !bytes.Equal(o.b, o.snap) {
				return pbt.V("history/write-into-spare-capacity-reaches-retained-block",
					"appending %d bytes behind retained item %d (%s, %s; len %d cap %d) changed %s, %s", len(spare), k, desc(e.stream), e.what, len(e.b), cap(e.b), desc(o.stream), o.what)
			}
		}
	}

	for _, ru := range open {
		if !ru.closed {
			ru.closed = true
			ru.r.Dispose()
		}
	}
	if v := h.verify("after every stream ended"); v != nil {
		return v
	}
	pbt.Count("history_patpmt_blocks_rechecked", len(h.kept))
	return nil
}

func classifyHist(c HistCase) (bool, []string) {
	keys := map[string]bool{}
	legs := map[bool]bool{}
	var labels []string
	for i, s := range c.Streams {
		keys[s.declKey()] = true
		legs[s.Direct] = true
		labels = append(labels, "combo="+s.name())
		if i == 0 {
			labels = append(labels, "first="+s.name())
		}
		if i > 0 && s.declKey() != c.Streams[0].declKey() {
			labels = append(labels, "later-differs-from-first")
		}
		if !s.Direct {
			single := s.Video == -1 || s.Audio == -1
			switch {
			case single && s.Msgs >= 15:
				labels = append(labels, "single-track-probe-queue-full")
			case single:
				labels = append(labels, "single-track-ends-short")
			default:
				labels = append(labels, "two-tracks")
			}
			if s.Enhanced {
				labels = append(labels, "enhanced-hevc")
			}
			if s.Later > 0 && i < len(c.Streams)-1 {
				labels = append(labels, "earlier-stream-goes-on")
			}
		}
	}
	switch {
	case legs[true] && legs[false]:
		labels = append(labels, "legs=mixed")
	case legs[true]:
		labels = append(labels, "legs=direct-only")
	default:
		labels = append(labels, "legs=remuxer-only")
	}
	labels = append(labels, fmt.Sprintf("streams=%d", len(c.Streams)), fmt.Sprintf("distinct-combinations=%d", len(keys)))
	return len(keys) >= 2, uniq(labels)
}

func TestPatPmtHistory(t *testing.T) {
	pbt.Run(t, pbt.Spec[HistCase]{
		ID: "C09", Name: "patpmt-history", Gen: genHist, Run: runHist, Classify: classifyHist,
		Quick: 1200, Thorough: 12000,
	})
}
