// C01 — live relay delivers the publisher's messages intact to RTMP / HTTP-FLV /
// WebSocket-FLV consumers and the FLV recording.
//
// Oracle (validity predicate per consumer, decoded by the reference RTMP chunk
// reader / FLV / WebSocket parsers): see DESIGN.md §3 C01 (V1–V4).
//
// Generator dimensions added after audit 1 (gen/es.go options MsgSizeEdges,
// MidMeta, MidHeaders, AscChurn, TsBack): whole-message payload lengths on
// k*cs-1, k*cs, k*cs+1 for the negotiated and for lal's own (4096) chunk size,
// audio as well as video; metadata (with / without @setDataFrame) and re-sent
// sequence headers inside the stream, also while merge-write is on; equal and
// backward timestamps, clock reset, the 2^32-1 wrap.  A consumer that waits for
// a key frame is handed the headers published meanwhile: they count as part of
// its start-up prologue (checkRunGreedy / explained).
//
// Deliberately NOT asserted here: which headers form the prologue and whether
// the replayed GOPs are the right ones (C02); chunk formats / chunk sizes /
// csids lal chooses; anything about a consumer whose transport is stalled (C15);
// relay-push targets (C17).
package c01

import (
	"bytes"
	"crypto/sha256"
	"fmt"
	"os"
	"path/filepath"
	"testing"
	"time"

	"pgregory.net/rapid"

	"verif/drv/pbt"
	"verif/gen"
	"verif/harness/inproc"
	"verif/harness/lalclient"
)

type Cons struct {
	Kind    string `json:"kind"`     // rtmp | flv | wsflv
	JoinAt  int    `json:"join_at"`  // -1: before the publisher connects; k>=0: after items[0..k) were processed
	LeaveAt int    `json:"leave_at"` // -1: stays until the end; k: leaves after items[0..k) were processed
}

type Case struct {
	RtmpGop    int        `json:"rtmp_gop"`
	RtmpGopMax int        `json:"rtmp_gop_max"`
	Merge      int        `json:"merge"`
	FlvGop     int        `json:"flv_gop"`
	FlvGopMax  int        `json:"flv_gop_max"`
	RecordFlv  bool       `json:"record_flv"`
	PubChunk   int        `json:"pub_chunk"`
	Codecs     gen.Codecs `json:"codecs"`
	Items      []gen.Item `json:"items"`
	FmtWish    []int      `json:"fmt_wish"`
	Cons       []Cons     `json:"cons"`
}

func genCase(t *rapid.T) Case {
	var c Case
	c.RtmpGop = rapid.IntRange(0, 3).Draw(t, "rtmpGop")
	c.RtmpGopMax = rapid.SampledFrom([]int{0, 0, 1, 2, 5, 50}).Draw(t, "rtmpGopMax")
	c.Merge = rapid.SampledFrom([]int{0, 0, 1, 200, 4096, 40000}).Draw(t, "merge")
	c.FlvGop = rapid.IntRange(0, 3).Draw(t, "flvGop")
	c.FlvGopMax = rapid.SampledFrom([]int{0, 0, 1, 2, 5, 50}).Draw(t, "flvGopMax")
	c.RecordFlv = rapid.Bool().Draw(t, "recordFlv")
	c.PubChunk = rapid.SampledFrom([]int{0, 128, 1, 7, 500, 4096, 65536, 60000}).Draw(t, "pubChunk")
	maxNal := 20000
	if pbt.Thorough() {
		maxNal = 300 * 1024
	}
	cs := c.PubChunk
	if cs == 0 {
		cs = 128
	}
	edges := []int{4096 - 9, 2*4096 - 9, cs, 2 * cs, 3 * cs}
	if c.PubChunk == 1 || c.PubChunk == 7 {
		maxNal = 800 // tiny chunks: keep chunk counts sane
	}
	// whole-message payload lengths k*m-1, k*m, k*m+1 for m = the publisher's chunk size (lal's chunk reader) and
	// m = 4096 (lal's own chunk size towards RTMP subscribers), applied to audio as well as video messages
	var msgEdges []int
	for _, m := range []int{cs, 4096} {
		if m < 64 {
			msgEdges = append(msgEdges, 8*m, 30*m, 100*m)
		} else {
			msgEdges = append(msgEdges, m, 2*m, 3*m)
		}
	}
	// WebSocket-FLV: one FLV tag (11 + payload + 4 bytes) is one WebSocket frame; the frame's length classes change
	// at 125/126 and 65535/65536 (seed c01-g: a 65536-byte tag announced with a 16-bit length of 0)
	msgEdges = append(msgEdges, 126-15)
	if c.PubChunk >= 128 || c.PubChunk == 0 {
		msgEdges = append(msgEdges, 65536-15, 65536-15)
	}
	o := gen.StreamOpts{Video: []string{"avc", "avc", "hevc", ""}, Audio: []string{"aac", "aac", "g711a", "opus", ""},
		MaxGops: 4, MaxGopLen: 5, MaxNalLen: maxNal, SizeEdges: edges, AllowEmpty: true, HeaderChurn: true, TsJumps: true, MultiNal: true, Cts: true,
		MsgSizeEdges: msgEdges, MidMeta: true, MidHeaders: true, AscChurn: true, TsBack: true}
	c.Codecs, c.Items = gen.GenStream(t, o)
	for range c.Items {
		c.FmtWish = append(c.FmtWish, rapid.IntRange(0, 3).Draw(t, "fmtWish"))
	}
	n := rapid.IntRange(1, 5).Draw(t, "ncons")
	for i := 0; i < n; i++ {
		var k Cons
		k.Kind = rapid.SampledFrom([]string{"rtmp", "rtmp", "flv", "flv", "wsflv"}).Draw(t, "kind")
		k.JoinAt = rapid.IntRange(-1, len(c.Items)).Draw(t, "joinAt")
		k.LeaveAt = -1
		if rapid.IntRange(0, 3).Draw(t, "leaves") == 0 {
			lo := k.JoinAt + 1
			if lo < 0 {
				lo = 0
			}
			if lo <= len(c.Items) {
				k.LeaveAt = rapid.IntRange(lo, len(c.Items)).Draw(t, "leaveAt")
			}
		}
		c.Cons = append(c.Cons, k)
	}
	return c
}

const streamName = "c01stream"

// pub is the normalised published sequence.
type pub struct {
	recs    []lalclient.Rec
	kind    []string // item kind per rec
	key     []bool
	itemIdx []int // rec -> item index (marker/filler: len(items), len(items)+1...)
}

func isHeaderKind(k string) bool { return k == "meta" || k == "vsh" || k == "ash" }

func recKey(r lalclient.Rec) [32]byte {
	h := sha256.New()
	h.Write([]byte{r.Type, byte(r.Ts >> 24), byte(r.Ts >> 16), byte(r.Ts >> 8), byte(r.Ts)})
	h.Write(r.Payload)
	var k [32]byte
	copy(k[:], h.Sum(nil))
	return k
}

func run(c Case) *pbt.Violation {
	s := inproc.New(inproc.Config{RtmpGopNum: c.RtmpGop, RtmpGopMaxFrame: c.RtmpGopMax, RtmpMergeWrite: c.Merge,
		FlvGopNum: c.FlvGop, FlvGopMaxFrame: c.FlvGopMax, RecordFlv: c.RecordFlv, DisableTs: true, DisableRtsp: true})
	defer s.Close()

	// marker + filler appended to the publish sequence
	items := append([]gen.Item(nil), c.Items...)
	lastTs := uint32(0)
	for _, it := range items {
		if it.Kind != "meta" && it.Kind != "empty" {
			lastTs = it.Ts
		}
	}
	markerIdx := len(items)
	if c.Codecs.Video != "" {
		hdr := []byte{0x65}
		if c.Codecs.Video == "hevc" {
			hdr = []byte{19 << 1, 1}
		}
		items = append(items, gen.Item{Kind: "video", Ts: lastTs + 1, Key: true, Nals: []gen.NalSpec{{Hdr: hdr, Len: 40, Seed: 0xABCDEF, Serial: 99999999}}})
		fill := gen.Item{Kind: "video", Ts: lastTs + 2, Nals: []gen.NalSpec{{Hdr: hdr[:len(hdr):len(hdr)], Len: c.Merge + 64, Seed: 0xFEED, Serial: 99999998}}}
		if c.Codecs.Video == "hevc" {
			fill.Nals[0].Hdr = []byte{1 << 1, 1}
		} else {
			fill.Nals[0].Hdr = []byte{0x41}
		}
		items = append(items, fill)
	} else {
		items = append(items, gen.Item{Kind: "audio", Ts: lastTs + 1, ALen: 40, ASeed: 99999999})
		items = append(items, gen.Item{Kind: "audio", Ts: lastTs + 2, ALen: c.Merge + 64, ASeed: 99999998})
	}
	fmtWish := append(append([]int(nil), c.FmtWish...), 0, 0)

	var P pub
	itemToP := make([]int, len(items)+1) // number of non-empty items before item i
	for i, it := range items {
		itemToP[i] = len(P.recs)
		if it.Kind == "empty" {
			continue
		}
		pl := it.Payload(c.Codecs)
		if it.Kind == "meta" {
			pl = gen.MetaBody(it.Variant) // players get the metadata without @setDataFrame
		}
		P.recs = append(P.recs, lalclient.Rec{Type: it.TypeID(), Ts: it.Ts, Payload: pl})
		P.kind = append(P.kind, it.Kind)
		P.key = append(P.key, it.Kind == "video" && it.Key)
		P.itemIdx = append(P.itemIdx, i)
	}
	itemToP[len(items)] = len(P.recs)
	markerP := itemToP[markerIdx]

	type live struct {
		spec Cons
		c    *lalclient.Consumer
		left bool
		// recs snapshot at leave time
		leftRecs []lalclient.Rec
	}
	cons := make([]*live, len(c.Cons))
	join := func(i int) *pbt.Violation {
		k := c.Cons[i]
		var cc *lalclient.Consumer
		switch k.Kind {
		case "rtmp":
			cc = lalclient.NewRtmpSub(s, "live", streamName)
		case "flv":
			cc = lalclient.NewFlvSub(s, "live", streamName, false)
		case "wsflv":
			cc = lalclient.NewFlvSub(s, "live", streamName, true)
		}
		if err := cc.JoinErr(); err != nil {
			if v := s.PanicViolation(); v != nil {
				return v
			}
			return pbt.V("join-failed", "consumer %d (%s) could not subscribe: %v", i, k.Kind, err)
		}
		cons[i] = &live{spec: k, c: cc}
		return nil
	}
	for i, k := range c.Cons {
		if k.JoinAt == -1 {
			if v := join(i); v != nil {
				return v
			}
		}
	}
	p := lalclient.NewPublisher(s, "live", streamName, c.PubChunk)
	if p.Err != nil {
		if v := s.PanicViolation(); v != nil {
			return v
		}
		return pbt.V("publish-refused", "publisher could not publish: %v", p.Err)
	}
	needSync := func(k int) bool {
		for _, cs := range c.Cons {
			if cs.JoinAt == k || cs.LeaveAt == k {
				return true
			}
		}
		return false
	}
	for k := 0; k <= len(c.Items); k++ {
		if needSync(k) {
			if !p.WaitIdle() {
				return stall(s, "publisher not drained before event at %d", k)
			}
			if v := s.PanicViolation(); v != nil {
				return v
			}
			for i, cs := range c.Cons {
				if cs.JoinAt == k && k >= 0 {
					if v := join(i); v != nil {
						return v
					}
				}
			}
			for i, cs := range c.Cons {
				if cs.LeaveAt == k && cons[i] != nil && !cons[i].left {
					lv := cons[i]
					// before leaving, everything published so far must arrive (unless merge-write may hold a tail back)
					if !(cs.Kind == "rtmp" && c.Merge > 0) && itemToP[k] > 0 && expectsData(c, &P, cs, itemToP) {
						want := P.recs[itemToP[k]-1]
						wk := recKey(want)
						_ = wk
					// (waits are by content: a message that arrives with an altered timestamp must end the wait and be
					// reported as such by the oracle, not time out)
					if lv.c.WaitFor(func(r lalclient.Rec) bool { return r.Type == want.Type && bytes.Equal(r.Payload, want.Payload) }, lalclient.DeliverTimeout) < 0 {
							return pbt.V("run-ended-early/"+cs.Kind, "consumer %d (%s, joined at item %d) left after item %d was processed but never received it (%s); got %d records",
								i, cs.Kind, cs.JoinAt, k-1, want, len(lv.c.Recs()))
						}
					}
					lv.leftRecs = lv.c.Recs()
					lv.left = true
					lv.c.Close()
				}
			}
			// the departures must have been processed by lal before publishing goes on
			for i, cs := range c.Cons {
				if cs.LeaveAt == k && cons[i] != nil {
					cons[i].c.Conn.WaitPeerDone(lalclient.IdleTimeout)
				}
			}
		}
		if k < len(c.Items) {
			if err := p.SendItem(items[k], c.Codecs, fmtWish[k]); err != nil {
				if v := s.PanicViolation(); v != nil {
					return v
				}
				return pbt.V("publisher-disconnected", "publisher connection failed at item %d: %v", k, err)
			}
		}
	}
	// marker + filler
	for k := markerIdx; k < len(items); k++ {
		if err := p.SendItem(items[k], c.Codecs, 0); err != nil {
			if v := s.PanicViolation(); v != nil {
				return v
			}
			return pbt.V("publisher-disconnected", "publisher connection failed at marker: %v", err)
		}
	}
	if !p.WaitIdle() {
		return stall(s, "publisher not drained after marker")
	}
	if v := s.PanicViolation(); v != nil {
		return v
	}
	mkRec := P.recs[markerP]
	for i, lv := range cons {
		if lv == nil || lv.left {
			continue
		}
		if lv.c.WaitFor(func(r lalclient.Rec) bool { return r.Type == mkRec.Type && bytes.Equal(r.Payload, mkRec.Payload) }, lalclient.DeliverTimeout) < 0 {
			if err := lv.c.Err(); err != nil {
				return pbt.V("framing/"+lv.spec.Kind, "consumer %d (%s): %v", i, lv.spec.Kind, err)
			}
			return pbt.V("run-ended-early/"+lv.spec.Kind, "consumer %d (%s, joined at item %d of %d) never received the end marker although it stayed attached; got %d records, stream ended=%v",
				i, lv.spec.Kind, lv.spec.JoinAt, len(c.Items), len(lv.c.Recs()), lv.c.Ended())
		}
	}
	p.Close()
	p.Conn.WaitPeerDone(lalclient.IdleTimeout) // the publisher session goroutine has ended (teardown done)
	// ---- oracle per consumer ------------------------------------------------
	index := map[[32]byte][]int{}
	for i, r := range P.recs {
		k := recKey(r)
		index[k] = append(index[k], i)
	}
	for i, lv := range cons {
		if lv == nil {
			continue
		}
		recs := lv.leftRecs
		if !lv.left {
			recs = lv.c.Recs()
		}
		if err := lv.c.Err(); err != nil && !lv.left {
			return pbt.V("framing/"+lv.spec.Kind, "consumer %d (%s): %v", i, lv.spec.Kind, err)
		}
		jItem := lv.spec.JoinAt
		if jItem < 0 {
			jItem = 0
		}
		j := itemToP[jItem]
		endP := markerP // inclusive last expected index for stayers
		if v := checkConsumer(c, &P, index, i, lv.spec, recs, j, endP, lv.left, itemToP); v != nil {
			return v
		}
	}
	// ---- FLV recording ------------------------------------------------------------
	if c.RecordFlv {
		time.Sleep(0)
		files, _ := filepath.Glob(filepath.Join(s.Dir, "flv", "*.flv"))
		if len(files) != 1 {
			return pbt.V("record/missing", "expected exactly one FLV recording, found %d", len(files))
		}
		b, err := os.ReadFile(files[0])
		if err != nil {
			lalclient.Harness("read record: %v", err)
		}
		recs, err := lalclient.ParseFlvFile(b)
		if err != nil {
			return pbt.V("record/framing", "FLV recording does not parse: %v", err)
		}
		if len(recs) != len(P.recs) {
			return pbt.V("record/count", "FLV recording holds %d tags, publisher sent %d non-empty messages", len(recs), len(P.recs))
		}
		for k := range recs {
			if recKey(recs[k]) != recKey(P.recs[k]) {
				return pbt.V("record/"+diffField(recs[k], P.recs[k]), "FLV recording tag %d = %s, published %s", k, recs[k], P.recs[k])
			}
		}
	}
	return nil
}

// expectsData: is the consumer entitled to have received the last published
// record by now?  Not while it may still be waiting for a key frame.
func expectsData(c Case, P *pub, cs Cons, itemToP []int) bool {
	jItem := cs.JoinAt
	if jItem < 0 {
		jItem = 0
	}
	j := itemToP[jItem]
	l := itemToP[cs.LeaveAt]
	if l <= j {
		return false // nothing was published while it was attached
	}
	if !hasVideoAt(P, j) {
		return true
	}
	// stream had video at join: entitled once a key frame was published in [j, l) or a GOP cache could have released it
	gop := c.RtmpGop
	if cs.Kind != "rtmp" {
		gop = c.FlvGop
	}
	if gop > 0 {
		// a cached key frame releases it - unless a video or AAC sequence header followed that key frame: whether a
		// re-sent / changed header empties the cache is replay selection (C02), so nothing is demanded here in that case
		for i := j - 1; i >= 0; i-- {
			if P.kind[i] == "vsh" || P.kind[i] == "ash" {
				break
			}
			if P.key[i] {
				return true
			}
		}
	}
	for i := j; i < l; i++ {
		if P.key[i] {
			return true
		}
	}
	return false
}

// hasVideoAt: a video sequence header was published before index j (this is
// what lal's "stream has video" means).
func hasVideoAt(P *pub, j int) bool {
	for i := 0; i < j && i < len(P.kind); i++ {
		if P.kind[i] == "vsh" {
			return true
		}
	}
	return false
}

func diffField(got, want lalclient.Rec) string {
	switch {
	case got.Type != want.Type:
		return "type"
	case got.Ts != want.Ts:
		return "timestamp"
	default:
		return "payload"
	}
}

func checkConsumer(c Case, P *pub, index map[[32]byte][]int, ci int, spec Cons, recs []lalclient.Rec, j, endP int, left bool, itemToP []int) *pbt.Violation {
	who := fmt.Sprintf("consumer %d (%s, join_at=%d, leave_at=%d)", ci, spec.Kind, spec.JoinAt, spec.LeaveAt)
	// V1: every record equals a published one
	cands := make([][]int, len(recs))
	for k, r := range recs {
		cd := index[recKey(r)]
		if len(cd) == 0 {
			// diagnose
			what := "invented"
			for _, pr := range P.recs {
				if bytes.Equal(pr.Payload, r.Payload) && pr.Type == r.Type {
					what = "timestamp"
					return pbt.V("altered/"+what+"/"+spec.Kind, "%s: record %d %s has the payload of a published message but timestamp %d != %d", who, k, r, r.Ts, pr.Ts)
				}
				if pr.Ts == r.Ts && pr.Type == r.Type && len(pr.Payload) == len(r.Payload) {
					what = "payload"
				}
			}
			return pbt.V("altered/"+what+"/"+spec.Kind, "%s: record %d %s matches no published message", who, k, r)
		}
		cands[k] = cd
	}
	// prologue: leading header records that can be matched to something published before j
	k := 0
	for k < len(recs) {
		kind := P.kind[cands[k][0]]
		if !isHeaderKind(kind) {
			break
		}
		before := false
		for _, x := range cands[k] {
			if x < j {
				before = true
			}
		}
		if !before {
			break
		}
		k++
	}
	// published headers may repeat (same content, same timestamp): a leading header record that equals one published
	// before the join may just as well be the live copy published after it, so every split point up to k is tried
	var first *pbt.Violation
	for kk := k; kk >= 0; kk-- {
		v := checkRun(c, P, who, spec, recs, cands, kk, j, endP, left)
		if v == nil {
			return nil
		}
		if first == nil {
			first = v
		}
	}
	return first
}

// checkRun judges the records behind a prologue of k records.
func checkRun(c Case, P *pub, who string, spec Cons, recs []lalclient.Rec, cands [][]int, k, j, endP int, left bool) *pbt.Violation {
	v := checkRunGreedy(c, P, who, spec, recs, cands, k, j, endP, left)
	if v == nil || explained(P, cands[k:], j, endP, left) {
		return nil
	}
	return v
}

// explained: the greedy index assignment of checkRunGreedy can go wrong when published messages repeat (re-sent
// metadata / sequence headers with equal timestamps).  Before a violation is reported every assignment is tried:
// the records must be  R ++ L  (R: replayed messages, strictly increasing indices < j; L: indices f, f+1, f+2, ...
// with f == j after a replay and f <= the first key frame after the join otherwise)  or  H ++ L  (H: metadata /
// sequence headers published in [j, first key frame) and handed to a consumer that waits for that key frame).
func explained(P *pub, restC [][]int, j, endP int, left bool) bool {
	n := len(restC)
	hasV := hasVideoAt(P, j)
	bound := j
	if hasV {
		bound = len(P.recs)
		for x := j; x < len(P.recs); x++ {
			if P.key[x] {
				bound = x
				break
			}
		}
	}
	has := func(c []int, x int) bool {
		for _, y := range c {
			if y == x {
				return true
			}
		}
		return false
	}
	for mode := 0; mode < 2; mode++ {
		if mode == 1 && !hasV {
			continue
		}
		cur := -1
		for n0 := 0; n0 <= n; n0++ {
			if n0 > 0 {
				// extend the prefix by record n0-1
				pick := -1
				for _, x := range restC[n0-1] {
					if x <= cur {
						continue
					}
					if (mode == 0 && x < j) || (mode == 1 && x >= j && x < bound && isHeaderKind(P.kind[x])) {
						pick = x
						break
					}
				}
				if pick < 0 {
					break
				}
				cur = pick
			}
			if n0 == n {
				if left {
					return true
				}
				break
			}
			for _, f := range restC[n0] {
				if f < j {
					continue
				}
				if mode == 0 && n0 > 0 && f != j {
					continue
				}
				if !(mode == 0 && n0 > 0) && f > bound {
					continue
				}
				ok := true
				reached := false
				for i := n0; i < n; i++ {
					if !has(restC[i], f+i-n0) {
						ok = false
						break
					}
					if !left && f+i-n0 == endP {
						reached = true
						break
					}
				}
				if ok && (left || reached) {
					return true
				}
			}
		}
	}
	return false
}

func checkRunGreedy(c Case, P *pub, who string, spec Cons, recs []lalclient.Rec, cands [][]int, k, j, endP int, left bool) *pbt.Violation {
	rest := recs[k:]
	restC := cands[k:]
	// V2: strictly increasing indices
	cur := -1
	idx := make([]int, len(rest))
	for n := range rest {
		pick := -1
		for _, x := range restC[n] {
			if x > cur {
				pick = x
				break
			}
		}
		if pick < 0 {
			return pbt.V("duplicated-or-reordered/"+spec.Kind, "%s: record %d %s (published index %v) arrives after published index %d", who, k+n, rest[n], restC[n], cur)
		}
		idx[n] = pick
		cur = pick
	}
	// split at j
	f := -1
	fpos := -1
	for n, x := range idx {
		if x >= j {
			f, fpos = x, n
			break
		}
	}
	replayed := fpos > 0
	// start-up headers: a consumer that is held back until the next key frame (the stream has video and nothing was
	// replayed) is still handed the metadata and sequence headers published meanwhile - they belong to its start-up
	// prologue, the contiguous run begins behind them
	if fpos == 0 && hasVideoAt(P, j) {
		bound := len(P.recs)
		for x := j; x < len(P.recs); x++ {
			if P.key[x] {
				bound = x
				break
			}
		}
		n := 0
		for n < len(idx) && idx[n] < bound && isHeaderKind(P.kind[idx[n]]) {
			n++
		}
		if n == len(idx) {
			f, fpos = -1, -1
		} else if n > 0 {
			f, fpos = idx[n], n
		}
	}
	// last index this consumer must have
	last := endP
	if left {
		last = -1 // checked at leave time when determinable
	}
	if f < 0 {
		if !left {
			return pbt.V("run-ended-early/"+spec.Kind, "%s: nothing published after the join was received", who)
		}
		return nil
	}
	// V3: consecutive from f on
	for n := fpos; n < len(idx); n++ {
		want := f + (n - fpos)
		if idx[n] != want {
			return pbt.V("skipped/"+spec.Kind, "%s: after published index %d the next record is index %d (%s), index %d (%s) was skipped", who, want-1, idx[n], rest[n], want, P.recs[want])
		}
		if !left && idx[n] == last {
			break
		}
	}
	if !left && idx[len(idx)-1] < last {
		return pbt.V("run-ended-early/"+spec.Kind, "%s: last record is published index %d, expected the run to reach %d", who, idx[len(idx)-1], last)
	}
	// V4: start bound
	if replayed {
		// replayed (cached) data precedes the live run: it must connect seamlessly
		if f != j {
			return pbt.V("gap-after-replay/"+spec.Kind, "%s: cached data up to index %d is followed by live data starting at %d, join point %d", who, idx[fpos-1], f, j)
		}
	} else {
		bound := j
		if hasVideoAt(P, j) {
			bound = -1
			for x := j; x < len(P.recs); x++ {
				if P.key[x] {
					bound = x
					break
				}
			}
			if bound < 0 {
				bound = len(P.recs)
			}
		}
		if f > bound {
			return pbt.V("late-start/"+spec.Kind, "%s: live run starts at published index %d, allowed no later than %d (join point %d)", who, f, bound, j)
		}
	}
	return nil
}

func stall(s *inproc.Server, format string, a ...interface{}) *pbt.Violation {
	if v := s.PanicViolation(); v != nil {
		return v
	}
	dump := pbt.AllGoroutines()
	if fn := pbt.InnermostLalFrame(dump); fn != "" && bytes.Contains([]byte(dump), []byte("logic.(*Group)")) {
		return pbt.V("stall", fmt.Sprintf(format, a...)+"\n"+dump[:min(len(dump), 3000)])
	}
	lalclient.Harness("timeout without lal frame: "+format, a...)
	return nil
}

func min(a, b int) int {
	if a < b {
		return a
	}
	return b
}

func classify(c Case) (bool, []string) {
	var labels []string
	midJoin := false
	edge := false
	cs := c.PubChunk
	if cs == 0 {
		cs = 128
	}
	var prevV, prevA uint32
	seenV, seenA, seenMedia := false, false, false
	for _, it := range c.Items {
		if it.Kind == "empty" {
			labels = append(labels, "zero-length-msg")
			continue
		}
		l := len(it.Payload(c.Codecs))
		for _, m := range []int{cs, 4096} {
			if l >= m-2 && (l%m <= 2 || l%m >= m-2) {
				edge = true
			}
			if (it.Kind == "audio" || it.Kind == "video") && m >= 64 && l >= m-1 && (l%m <= 1 || l%m == m-1) {
				// the whole payload ends exactly at / one byte before / one byte behind a chunk boundary
				which := "local-4096"
				if m == cs && cs != 4096 {
					which = "negotiated"
				}
				labels = append(labels, "len-on-chunk-multiple:"+it.Kind+":"+which)
				if l%m == 0 {
					labels = append(labels, "len-exact-multiple:"+it.Kind)
				}
			}
		}
		if tl := l + 15; it.Kind == "audio" || it.Kind == "video" {
			if tl >= 65535 && tl <= 65537 {
				labels = append(labels, "flv-tag-on-ws-64k-length-class")
				edge = true
			} else if tl >= 125 && tl <= 127 {
				labels = append(labels, "flv-tag-on-ws-126-length-class")
			}
		}
		switch it.Kind {
		case "meta":
			if seenMedia {
				labels = append(labels, "mid-stream-metadata")
				if it.Sdf {
					labels = append(labels, "mid-stream-metadata:sdf")
				}
			}
		case "ash":
			if seenMedia {
				labels = append(labels, "mid-stream-aac-header")
				if it.Variant != 0 {
					labels = append(labels, "aac-config-change")
				}
			}
		case "vsh":
			if seenMedia {
				labels = append(labels, "mid-stream-video-header")
			}
		case "video":
			if seenV && it.Ts < prevV {
				if prevV-it.Ts > 1<<31 {
					labels = append(labels, "ts-wrap-2^32")
				} else {
					labels = append(labels, "ts-backward:video")
				}
			} else if seenV && it.Ts == prevV {
				labels = append(labels, "ts-equal")
			}
			prevV, seenV, seenMedia = it.Ts, true, true
		case "audio":
			if seenA && it.Ts < prevA {
				if prevA-it.Ts > 1<<31 {
					labels = append(labels, "ts-wrap-2^32")
				} else {
					labels = append(labels, "ts-backward:audio")
				}
			}
			prevA, seenA, seenMedia = it.Ts, true, true
		}
		if it.Ts == 0xFFFFFF {
			labels = append(labels, "ts==0xFFFFFF")
		}
		if it.Ts >= 0xFFFFFF {
			edge = true
			labels = append(labels, "ts>=0xFFFFFF")
		}
	}
	if edge {
		labels = append(labels, "chunk-edge-or-ext-ts")
	}
	for _, k := range c.Cons {
		labels = append(labels, "kind:"+k.Kind)
		switch {
		case k.JoinAt < 0:
			labels = append(labels, "join:before-publisher")
		case k.JoinAt == 0:
			labels = append(labels, "join:before-first-msg")
		case k.JoinAt >= len(c.Items):
			labels = append(labels, "join:after-last-msg")
		default:
			midJoin = true
			if c.Items[k.JoinAt].Kind == "video" && c.Items[k.JoinAt].Key {
				labels = append(labels, "join:at-key-frame")
			} else if isHeaderKind(c.Items[k.JoinAt-1].Kind) {
				labels = append(labels, "join:between-headers")
			} else {
				labels = append(labels, "join:mid-gop")
			}
		}
		if k.LeaveAt >= 0 {
			labels = append(labels, "leave-mid-stream")
		}
	}
	if c.Merge > 0 {
		labels = append(labels, "merge-write")
	}
	if c.RtmpGop > 0 || c.FlvGop > 0 {
		labels = append(labels, "gop-cache")
	}
	if c.RecordFlv {
		labels = append(labels, "record-flv")
	}
	labels = append(labels, "video:"+c.Codecs.Video, "audio:"+c.Codecs.Audio)
	return midJoin && edge, uniq(labels)
}

func uniq(in []string) []string {
	seen := map[string]bool{}
	var out []string
	for _, s := range in {
		if !seen[s] {
			seen[s] = true
			out = append(out, s)
		}
	}
	return out
}

func TestRelayIntact(t *testing.T) {
	pbt.Run(t, pbt.Spec[Case]{
		ID: "C01", Name: "relay-intact", Gen: genCase, Run: run, Classify: classify,
		Quick: 700, Thorough: 6000,
	})
}
