package c06

import (
	"fmt"

	"pgregory.net/rapid"

	"verif/drv/pbt"
	"verif/gen"
)

// Cons is one generated consumer.  (The HLS consumer is implicit: HLS is on in
// every case whose codecs MPEG-TS can carry.)
type Cons struct {
	Kind string `json:"kind"` // "ts" (HTTP-TS subscriber) | "rtsp" (RTSP subscriber, interleaved) | "rtspu" (RTSP subscriber, RTP over UDP)
	// JoinAt: -1 = before the publisher connects; k = after items[0..k) were
	// processed by lal (k == len(items): right before the tail).
	JoinAt int `json:"join_at"`
}

// Case is one generated scenario.
type Case struct {
	Codecs    gen.Codecs `json:"codecs"`
	Items     []gen.Item `json:"items"`
	Chunk     int        `json:"chunk"`       // RTMP chunk size announced by the publisher
	TsGop     int        `json:"ts_gop"`      // httpts gop_num
	HlsFragMs int        `json:"hls_frag_ms"` // hls fragment_duration_ms
	Cons      []Cons     `json:"cons"`
	// Wrap: the stream starts shortly before 2^32 ms and runs across the roll-over of the 32-bit RTMP timestamp
	// (no other jumps in such a case; "later" is meant in serial-number arithmetic).
	Wrap bool `json:"wrap,omitempty"`
	// AscChange: the AAC configuration changes mid-stream ("ash" items with Variant != 0).  Such a case has no RTSP
	// consumer: lal announces the audio configuration once, in the session description (C02's registered finding
	// R1/sdp-audio-config/first-config-after-mid-stream-change); the TS legs must follow the change.
	AscChange bool `json:"asc_change,omitempty"`
	// LateTrack k > 0: the stream shows a single track for its first k-1 messages (metadata and sequence headers
	// count); the second track's first message (its sequence header, or its first frame for Opus / G.711) is the
	// k-th, 2 <= k <= 16, i.e. still inside lal's 16-message probe window: PMT and SDP must announce both tracks.
	LateTrack int `json:"late_track,omitempty"`
	// AscExt selects the bytes that follow the 2-byte head of the AudioSpecificConfig (see ascBytes).
	AscExt int `json:"asc_ext,omitempty"`
}

// ascBytes renders the AudioSpecificConfig of the case: the 2-byte head (object type, frequency index, channel
// configuration, GASpecificConfig flags 0) followed by what real encoders append.
func ascBytes(cd gen.Codecs, ext int) []byte {
	if cd.Audio != "aac" {
		return nil
	}
	b := gen.Asc(cd.AscObj, cd.AscFreq, cd.AscChan)
	switch ext {
	case 1:
		b = append(b, 0, 0) // zero padding (common in FLV files)
	case 2:
		// backward-compatible SBR signalling: syncExtensionType 0x2b7, extensionAudioObjectType 5, sbrPresentFlag 1,
		// extensionSamplingFrequencyIndex 3
		b = append(b, 0x56, 0xE5, 0x98)
	case 3:
		b = append(b, 0x56, 0xE5, 0x00) // the same with sbrPresentFlag 0 (what libfdk / ffmpeg write for plain AAC-LC)
	case 4:
		b = append(b, 0)
	}
	return b
}

// ascFor is the AudioSpecificConfig carried by an "ash" item of the given variant: variant 0 is the stream's own
// configuration, the others (gen.AscVariant) differ in sampling-frequency index and channel configuration; the
// bytes behind the 2-byte head follow the case's AscExt in both.
func ascFor(cd gen.Codecs, ext, variant int) []byte {
	if cd.Audio != "aac" {
		return nil
	}
	if variant == 0 {
		return ascBytes(cd, ext)
	}
	return append(append([]byte(nil), gen.AscVariant(cd, variant)...), ascBytes(cd, ext)[2:]...)
}

// serialLE: a <= b in serial-number arithmetic (RFC 1982) on 32-bit millisecond timestamps.
func serialLE(a, b uint32) bool { return int32(b-a) >= 0 }

const (
	maxTs = uint32(0xF8000000) // generated timestamps stay below this (no 32-bit wrap inside a case)
)

func tsCarriesAudio(cd gen.Codecs) bool { return cd.Audio == "aac" || cd.Audio == "opus" }
func tsCarries(cd gen.Codecs) bool      { return cd.Video != "" || tsCarriesAudio(cd) }

func hdrLen(codec string) int {
	if codec == "hevc" {
		return 2
	}
	return 1
}

// nalType extracts the nal_unit_type.
func nalType(codec string, nal []byte) int {
	if codec == "hevc" {
		return int(nal[0]>>1) & 0x3f
	}
	return int(nal[0] & 0x1f)
}

type sizeBudget struct {
	left   int
	maxBig int
}

// nalLen draws the body length (bytes after the NAL header).
func nalLen(t *rapid.T, b *sizeBudget, codec string) int {
	h := hdrLen(codec)
	var n int
	switch rapid.IntRange(0, 19).Draw(t, "nalLenClass") {
	case 0, 1:
		n = rapid.IntRange(0, 4).Draw(t, "tiny") // AVC: a 1-byte NAL unit when 0
	case 2, 3:
		// around one TS packet (184 payload bytes minus PES header / AUD / start codes)
		n = rapid.IntRange(140, 200).Draw(t, "tsEdge")
	case 4:
		n = 184*rapid.IntRange(1, 6).Draw(t, "tsMul") + rapid.IntRange(-30, 4).Draw(t, "tsMulDelta")
	case 5:
		// around the RTP payload limit (whole unit = 1200 bytes)
		n = 1200 - h + rapid.IntRange(-4, 4).Draw(t, "rtpDelta")
	case 6:
		// around a whole number of fragmentation-unit payloads (1198 bytes for H.264, 1197 for H.265)
		n = (1200-h-1)*rapid.IntRange(1, 3).Draw(t, "fuMul") + rapid.IntRange(-3, 3).Draw(t, "fuDelta")
	case 7, 8, 9, 10, 11, 12:
		n = rapid.IntRange(5, 300).Draw(t, "small")
	case 13, 14, 15, 16:
		n = rapid.IntRange(300, 3000).Draw(t, "mid")
	case 17:
		// around the 16-bit PES_packet_length limit
		n = 65535 - rapid.IntRange(0, 40).Draw(t, "pesEdge")
	default:
		n = rapid.IntRange(3000, b.maxBig).Draw(t, "big")
	}
	if n < 0 {
		n = 0
	}
	if n > b.left {
		n = rapid.IntRange(0, 200).Draw(t, "overBudget")
	}
	b.left -= n
	return n
}

func sliceHdr(t *rapid.T, codec string, key bool) []byte {
	if codec == "hevc" {
		var typ int
		if key {
			typ = rapid.SampledFrom([]int{19, 20, 21, 16, 17, 18}).Draw(t, "irapType")
		} else {
			typ = rapid.SampledFrom([]int{1, 0, 1, 2, 3, 4, 5, 6, 7, 8, 9}).Draw(t, "sliceType")
		}
		return hevcHdr(t, typ)
	}
	nri := rapid.IntRange(1, 3).Draw(t, "nri")
	typ := 1
	if key {
		typ = 5
	} else if rapid.IntRange(0, 9).Draw(t, "dp") == 0 {
		typ = rapid.SampledFrom([]int{2, 3, 4}).Draw(t, "dpType")
	}
	return []byte{byte(nri<<5) | byte(typ)}
}

func hevcHdr(t *rapid.T, typ int) []byte {
	layer := 0
	tid := rapid.IntRange(1, 7).Draw(t, "tid")
	if rapid.IntRange(0, 7).Draw(t, "layerNonZero") == 0 {
		layer = rapid.IntRange(1, 63).Draw(t, "layer")
	}
	return []byte{byte(typ<<1) | byte(layer>>5), byte(layer<<3) | byte(tid)}
}

// genFrame draws the NAL units of one access unit.
func genFrame(t *rapid.T, cd gen.Codecs, key bool, serial *uint32, b *sizeBudget) []gen.NalSpec {
	var nals []gen.NalSpec
	next := func() uint32 { *serial++; return *serial }
	hevc := cd.Video == "hevc"
	add := func(hdr []byte, n int) {
		s := next()
		nals = append(nals, gen.NalSpec{Hdr: hdr, Len: n, Seed: s, Serial: s})
	}
	if rapid.IntRange(0, 4).Draw(t, "aud") == 0 {
		if hevc {
			add([]byte{35 << 1, 1}, 1)
		} else {
			add([]byte{9}, 1)
		}
	}
	// in-band parameter sets (complete set, or a lone SPS)
	psProb := 9
	if key {
		psProb = 3
	}
	switch rapid.IntRange(0, psProb).Draw(t, "inband") {
	case 0:
		if hevc {
			add([]byte{32 << 1, 1}, rapid.IntRange(3, 30).Draw(t, "vpsLen"))
			add([]byte{33 << 1, 1}, rapid.IntRange(3, 50).Draw(t, "spsLen"))
			add([]byte{34 << 1, 1}, rapid.IntRange(1, 10).Draw(t, "ppsLen"))
		} else {
			add([]byte{0x67}, rapid.IntRange(3, 40).Draw(t, "spsLen"))
			add([]byte{0x68}, rapid.IntRange(1, 8).Draw(t, "ppsLen"))
		}
	case 1:
		if rapid.IntRange(0, 2).Draw(t, "loneSps") == 0 {
			if hevc {
				add([]byte{33 << 1, 1}, rapid.IntRange(3, 50).Draw(t, "spsLen"))
			} else {
				add([]byte{0x67}, rapid.IntRange(3, 40).Draw(t, "spsLen"))
			}
		}
	}
	if rapid.IntRange(0, 3).Draw(t, "sei") == 0 {
		if hevc {
			add(hevcHdr(t, 39), rapid.IntRange(1, 80).Draw(t, "seiLen"))
		} else {
			add([]byte{6}, nalLenSmall(t, b))
		}
	}
	nslices := rapid.SampledFrom([]int{1, 1, 1, 1, 2, 2, 2, 3, 4, 12}).Draw(t, "nslices")
	if !key && len(nals) > 0 && rapid.IntRange(0, 19).Draw(t, "noSlices") == 0 {
		return nals // a message holding only AUD / parameter sets / SEI
	}
	for i := 0; i < nslices; i++ {
		add(sliceHdr(t, cd.Video, key), nalLen(t, b, cd.Video))
		if i == 0 && nslices > 1 && rapid.IntRange(0, 7).Draw(t, "seiBetween") == 0 {
			if hevc {
				add(hevcHdr(t, 40), rapid.IntRange(1, 40).Draw(t, "seiLen2"))
			} else {
				add([]byte{6}, rapid.IntRange(1, 40).Draw(t, "seiLen2"))
			}
		}
	}
	switch rapid.IntRange(0, 11).Draw(t, "trailer") {
	case 0: // suffix SEI / filler data
		if hevc {
			add(hevcHdr(t, 40), rapid.IntRange(1, 60).Draw(t, "sufLen"))
		} else {
			add([]byte{12}, rapid.IntRange(1, 300).Draw(t, "fillLen"))
		}
	case 1: // end of sequence
		if hevc {
			add(hevcHdr(t, 36), 0)
		} else {
			add([]byte{10}, 0)
		}
	}
	return nals
}

func nalLenSmall(t *rapid.T, b *sizeBudget) int {
	if rapid.IntRange(0, 5).Draw(t, "seiBig") == 0 {
		n := rapid.IntRange(100, 2500).Draw(t, "seiBigLen")
		if n > b.left {
			n = 10
		}
		b.left -= n
		return n
	}
	return rapid.IntRange(1, 80).Draw(t, "seiLen")
}

func genCodecs(t *rapid.T) gen.Codecs {
	var c gen.Codecs
	v := rapid.SampledFrom([]string{"avc", "avc", "avc", "hevc", "hevc", "hevc+", "hevc+", ""}).Draw(t, "vcodec")
	if v == "hevc+" {
		c.Video, c.Enhanced = "hevc", true
	} else {
		c.Video = v
	}
	c.Audio = rapid.SampledFrom([]string{"aac", "aac", "aac", "aac", "opus", "opus", "g711a", "g711u", ""}).Draw(t, "acodec")
	if c.Video == "" && c.Audio == "" {
		c.Audio = "aac"
	}
	if c.Audio == "aac" {
		c.AscObj = rapid.SampledFrom([]int{2, 2, 2, 1, 3, 4}).Draw(t, "ascObj")
		c.AscFreq = rapid.SampledFrom([]int{4, 3, 4, 3, 0, 1, 2, 5, 6, 7, 8, 9, 10, 11, 12}).Draw(t, "ascFreq")
		c.AscChan = rapid.SampledFrom([]int{2, 1, 2, 1, 0, 3, 4, 5, 6, 7}).Draw(t, "ascChan")
	}
	return c
}

func genStartTs(t *rapid.T) uint32 {
	switch rapid.IntRange(0, 9).Draw(t, "startClass") {
	case 0, 1, 2:
		return 0
	case 3, 4:
		return rapid.Uint32Range(1, 5000).Draw(t, "startSmall")
	case 5:
		return rapid.SampledFrom([]uint32{5000, 1000, 0x7FFFFF00, 0x80000100, 3600000}).Draw(t, "startBase")
	case 6:
		return rapid.Uint32Range(0xFFFFF0, 0x1000010).Draw(t, "startExt") // extended-timestamp edge
	case 7:
		return rapid.Uint32Range(95443000, 95444500).Draw(t, "start33") // 90*ts crosses 2^33
	case 8:
		return rapid.Uint32Range(47721000, 47722500).Draw(t, "start32") // 90*ts crosses 2^32
	default:
		return rapid.SampledFrom([]uint32{0x7FFFFF00, 0xE0000000, 100000}).Draw(t, "startBig")
	}
}

func genAudioLen(t *rapid.T, cd gen.Codecs, small bool) int {
	if small {
		return rapid.IntRange(1, 120).Draw(t, "alenS")
	}
	switch rapid.IntRange(0, 15).Draw(t, "alenClass") {
	case 0:
		if cd.Audio == "opus" {
			// gen renders an Opus message as 0xDF 0x01 <alen bytes>; by lal's own convention (remux/avpacket2rtmp.go)
			// the frame is everything after the first byte, so alen 0 is a one-byte frame (a DTX packet: TOC only)
			return rapid.IntRange(0, 3).Draw(t, "alenTinyOpus")
		}
		if cd.Audio == "aac" {
			// alen 0 is an AAC raw message without data (encoders send them; it is not a frame and must not disturb anything)
			return rapid.IntRange(0, 4).Draw(t, "alenTinyAac")
		}
		return rapid.IntRange(1, 4).Draw(t, "alenTiny")
	case 1:
		switch cd.Audio {
		case "aac":
			return rapid.SampledFrom([]int{1193, 1194, 1195, 1196, 1197, 1200, 6000, 8184, 8183, 4096}).Draw(t, "alenEdge")
		default:
			return rapid.SampledFrom([]int{1199, 1200, 1201, 2400, 160, 320}).Draw(t, "alenEdge")
		}
	case 2:
		return rapid.IntRange(400, 3000).Draw(t, "alenBig")
	default:
		return rapid.IntRange(5, 400).Draw(t, "alen")
	}
}

func genCase(t *rapid.T) Case {
	var c Case
	cd := genCodecs(t)
	c.Codecs = cd
	c.Chunk = rapid.SampledFrom([]int{4096, 4096, 4096, 128, 60000}).Draw(t, "chunk")
	c.TsGop = rapid.SampledFrom([]int{0, 0, 1, 2}).Draw(t, "tsGop")
	c.HlsFragMs = rapid.SampledFrom([]int{100, 200, 500, 1000, 3000}).Draw(t, "hlsFragMs")

	b := &sizeBudget{left: 300 << 10, maxBig: 20000}
	if rapid.IntRange(0, 9).Draw(t, "allowHuge") == 0 {
		b.maxBig = 70000
	}
	if pbt.Thorough() {
		b.left = 1200 << 10
		b.maxBig = 100000
		if rapid.IntRange(0, 3).Draw(t, "allowHugeT") == 0 {
			b.maxBig = 300 << 10
		}
	}

	if cd.Audio == "aac" {
		c.AscExt = rapid.SampledFrom([]int{0, 0, 0, 1, 2, 3, 4}).Draw(t, "ascExt")
	}
	if cd.Audio == "aac" && rapid.IntRange(0, 5).Draw(t, "ascChange") == 0 {
		c.AscChange = true
	}
	ascVariant, ascChanges := 0, 0
	var items []gen.Item
	serial := uint32(100000)
	start := genStartTs(t)
	if rapid.IntRange(0, 11).Draw(t, "wrap32") == 0 {
		c.Wrap = true
		start = uint32(1<<32 - uint64(rapid.Uint32Range(1, 400).Draw(t, "msBeforeWrap")))
	}
	variant := rapid.IntRange(0, 2).Draw(t, "variant")
	// second track appearing late, but inside the probe window
	late, lateVideo := 0, false
	if cd.Video != "" && cd.Audio != "" && rapid.IntRange(0, 4).Draw(t, "lateTrack") == 0 {
		late = rapid.SampledFrom([]int{16, 16, 16, 15, 15, 14, 16, 15, 16, 15, 2, 3, 4, 5, 6, 7, 8, 9, 10, 11, 12, 13, 14, 15, 16}).Draw(t, "lateAt")
		lateVideo = rapid.IntRange(0, 2).Draw(t, "lateVideo") == 0
		c.AscChange = false
	}
	var pro []gen.Item
	if rapid.IntRange(0, 2).Draw(t, "hasMeta") != 0 {
		pro = append(pro, gen.Item{Kind: "meta", Ts: 0, Variant: variant, Sdf: rapid.Bool().Draw(t, "sdf")})
	}
	if cd.Video != "" && !(late > 0 && lateVideo) {
		pro = append(pro, gen.Item{Kind: "vsh", Ts: start, Variant: variant})
	}
	if cd.Audio == "aac" && !(late > 0 && !lateVideo) {
		pro = append(pro, gen.Item{Kind: "ash", Ts: start})
	}
	if len(pro) > 1 && rapid.IntRange(0, 2).Draw(t, "swapPrologue") == 0 {
		pro[len(pro)-1], pro[len(pro)-2] = pro[len(pro)-2], pro[len(pro)-1]
	}
	items = append(items, pro...)

	vStep := rapid.SampledFrom([]uint32{40, 40, 33, 20, 100, 1, 0, 400}).Draw(t, "vStep")
	// audio spacing decides how many AAC frames lal merges into one PES (flush when a frame is > 150 ms after the
	// first one of the batch): 21..23 -> 8, 32 -> 5, 64 -> 3, 128 -> 2, >150 -> 1, 10 -> 16
	aStep := rapid.SampledFrom([]uint32{21, 23, 23, 26, 32, 43, 64, 75, 128, 150, 151, 160, 200, 10, 5, 0}).Draw(t, "aStep")
	smallAudio := aStep < 20
	// which track's clock is ahead at the start: lal rebases each track on its own first timestamp, so the first
	// audio PES may lie below the video track's first dts and the other way round
	vts, ats := start, start
	videoLater := false
	if cd.Video != "" && cd.Audio != "" {
		switch rapid.IntRange(0, 3).Draw(t, "leadClass") {
		case 1:
			ats += rapid.Uint32Range(1, 30).Draw(t, "audioLead")
		case 2:
			ats += rapid.Uint32Range(1, 200).Draw(t, "audioLeadL")
		case 3:
			vts += rapid.Uint32Range(1, 200).Draw(t, "videoLead")
			videoLater = true
		}
	}
	// first timestamp actually published per track: lal's TS time base; later timestamps never drop below it
	var vFirst, aFirst uint32
	nAudio, nVideo := 0, 0

	emitAudio := func() {
		serial++
		if nAudio == 0 {
			aFirst = ats
		}
		al := genAudioLen(t, cd, smallAudio)
		if nAudio == 0 && al == 0 {
			al = 1 // the first audio message is a real frame (it defines the track's first timestamp)
		}
		items = append(items, gen.Item{Kind: "audio", Ts: ats, ALen: al, ASeed: serial})
		ats += aStep
		nAudio++
	}
	churnAsc := func(ts uint32) {
		ascVariant = 1 + (ascVariant+rapid.IntRange(0, 1).Draw(t, "ascNext"))%3
		items = append(items, gen.Item{Kind: "ash", Ts: ts, Variant: ascVariant})
		ascChanges++
	}
	jump := func() {
		if c.Wrap || rapid.IntRange(0, 9).Draw(t, "jump") != 0 {
			return
		}
		who := rapid.SampledFrom([]string{"both", "both", "video", "audio"}).Draw(t, "jumpWho")
		kind := rapid.SampledFrom([]string{"fwd", "fwd", "back", "back", "fwdBig"}).Draw(t, "jumpKind")
		switch kind {
		case "fwd", "fwdBig":
			by := rapid.SampledFrom([]uint32{160, 1000, 20000, 100000}).Draw(t, "jumpBy")
			if kind == "fwdBig" {
				by = rapid.SampledFrom([]uint32{0x1000000, 0x2000000, 95443718}).Draw(t, "jumpByBig")
			}
			if who != "audio" && vts < maxTs-by-(1<<24) {
				vts += by
			}
			if who != "video" && ats < maxTs-by-(1<<24) {
				ats += by
			}
		case "back":
			// stays >= the track's first timestamp
			if who != "audio" && nVideo > 0 && vts > vFirst {
				vts = vFirst + rapid.Uint32Range(0, vts-vFirst).Draw(t, "backV")
			}
			if who != "video" && nAudio > 0 && ats > aFirst {
				ats = aFirst + rapid.Uint32Range(0, ats-aFirst).Draw(t, "backA")
			}
		}
	}

	audioFirstOdds := 3
	if videoLater {
		audioFirstOdds = 1
	}
	switch {
	case late > 0 && lateVideo:
		// audio only until the video sequence header arrives as message number `late`
		for len(items) < late-1 || nAudio == 0 {
			emitAudio()
		}
		c.LateTrack = len(items) + 1
		if serialLE(vts, ats) && !videoLater {
			vts = ats // the video clock is the same clock
		}
		items = append(items, gen.Item{Kind: "vsh", Ts: vts, Variant: variant})
	case late > 0:
		// video only until audio starts (see startLateAudio)
	case cd.Video != "" && cd.Audio != "" && rapid.IntRange(0, audioFirstOdds).Draw(t, "audioFirst") == 0:
		n := rapid.IntRange(1, 3).Draw(t, "nAudioFirst")
		for i := 0; i < n; i++ {
			emitAudio()
		}
	}
	lateAudioPending := late > 0 && !lateVideo
	startLateAudio := func() {
		lateAudioPending = false
		c.LateTrack = len(items) + 1
		if serialLE(ats, vts) {
			ats = vts
			if videoLater && nVideo > 0 {
				ats = vts - rapid.Uint32Range(0, 20).Draw(t, "lateAudioBelow") // may lie below the next video frame
			}
		}
		if cd.Audio == "aac" {
			items = append(items, gen.Item{Kind: "ash", Ts: ats})
		}
		emitAudio()
	}
	if cd.Video == "" {
		n := rapid.IntRange(1, 40).Draw(t, "nAudio")
		for i := 0; i < n; i++ {
			emitAudio()
			jump()
			if c.AscChange && rapid.IntRange(0, 5).Draw(t, "ascChurnA") == 0 {
				churnAsc(ats)
			}
		}
	} else {
		ngops := rapid.IntRange(1, 4).Draw(t, "ngops")
		if lateAudioPending && ngops < 3 {
			ngops = 3
		}
		for g := 0; g < ngops && nVideo < 36; g++ {
			if lateAudioPending && len(items) >= late-1 && nVideo > 0 {
				startLateAudio()
			}
			if g > 0 && !lateAudioPending {
				// sequence headers sent again (a changed video header only changes which parameter sets lal re-inserts)
				switch rapid.IntRange(0, 7).Draw(t, "reHeader") {
				case 0:
					variant++
					items = append(items, gen.Item{Kind: "vsh", Ts: vts, Variant: variant})
				case 1:
					if cd.Audio == "aac" {
						items = append(items, gen.Item{Kind: "ash", Ts: ats, Variant: ascVariant}) // unchanged content
					}
				case 2:
					items = append(items, gen.Item{Kind: "meta", Ts: vts, Variant: variant, Sdf: true})
				}
			}
			n := rapid.IntRange(1, 8).Draw(t, "gopLen")
			if lateAudioPending && n < 6 {
				n = 6
			}
			for f := 0; f < n; f++ {
				if lateAudioPending && len(items) >= late-1 && nVideo > 0 {
					startLateAudio()
				}
				key := f == 0
				nals := genFrame(t, cd, key, &serial, b)
				cts := uint32(0)
				if rapid.IntRange(0, 2).Draw(t, "hasCts") == 0 {
					cts = rapid.SampledFrom([]uint32{40, 80, 1, 33, 120, 2000}).Draw(t, "cts")
				}
				if nVideo == 0 {
					vFirst = vts
				}
				items = append(items, gen.Item{Kind: "video", Ts: vts, Cts: cts, Key: key, Nals: nals, Variant: rapid.IntRange(0, 1).Draw(t, "framesX")})
				nVideo++
				if cd.Audio != "" && !lateAudioPending {
					k := 0
					if nAudio == 0 {
						// every track starts within lal's 16-message probe window (the track set announced in the
						// PMT / SDP is fixed after it, by design): the first audio frame follows the first video frame
						emitAudio()
						k++
					}
					for serialLE(ats, vts) && k < 10 && nAudio < 60 {
						emitAudio()
						k++
					}
					if serialLE(ats, vts) {
						ats = vts + 1 // audio fell far behind (video jumped): catch up instead of flooding
					}
				}
				vts += vStep
				jump()
				// a changed AAC configuration, between GOPs or in the middle of one (and of an AAC batch)
				if c.AscChange && nAudio > 0 && rapid.IntRange(0, 6).Draw(t, "ascChurnV") == 0 {
					churnAsc(ats)
				}
			}
		}
	}
	if lateAudioPending {
		startLateAudio()
	}
	if c.LateTrack > 16 {
		panic(pbt.HarnessError{Msg: fmt.Sprintf("generator: second track starts at message %d", c.LateTrack)})
	}
	if c.AscChange && ascChanges == 0 {
		churnAsc(ats)
		emitAudio()
	}
	c.Items = items

	// consumers
	nts, nrtsp := 0, 0
	if tsCarries(cd) {
		nts = rapid.IntRange(1, 2).Draw(t, "nTs")
	}
	nrtsp = rapid.IntRange(1, 2).Draw(t, "nRtsp")
	if c.AscChange {
		nrtsp = 0 // the RTSP leg keeps its configuration constant (see Case.AscChange)
	}
	firstMedia := len(pro)
	var keyIdx []int
	for i, it := range items {
		if it.Kind == "video" && it.Key {
			keyIdx = append(keyIdx, i)
		}
	}
	drawJoin := func() int {
		switch rapid.IntRange(0, 9).Draw(t, "joinClass") {
		case 0, 1:
			return -1
		case 2:
			return rapid.IntRange(0, firstMedia).Draw(t, "joinPrologue")
		case 3:
			return len(items)
		case 4:
			if len(keyIdx) > 0 {
				return rapid.SampledFrom(keyIdx).Draw(t, "joinBeforeKey")
			}
			return len(items)
		default:
			return rapid.IntRange(0, len(items)).Draw(t, "joinAt")
		}
	}
	for i := 0; i < nts; i++ {
		c.Cons = append(c.Cons, Cons{Kind: "ts", JoinAt: drawJoin()})
	}
	for i := 0; i < nrtsp; i++ {
		c.Cons = append(c.Cons, Cons{Kind: "rtsp", JoinAt: drawJoin()})
	}
	// RTP over UDP (real loopback sockets): only for streams small enough to sit in a socket receive buffer whatever
	// the scheduler does to the reading goroutine
	total := 0
	for _, it := range items {
		total += it.ALen
		for _, n := range it.Nals {
			total += len(n.Hdr) + n.Len
		}
	}
	if !c.AscChange && total <= 48<<10 && rapid.IntRange(0, 2).Draw(t, "udpConsumer") == 0 {
		c.Cons = append(c.Cons, Cons{Kind: "rtspu", JoinAt: drawJoin()})
	}
	return c
}

// tailItems is the deterministic epilogue appended to every case (it is part of
// the published stream and compared like everything else):
//   - 17 small non-key frames: lal's TS remuxer and RTSP remuxer hold up to 16
//     messages of a single-track stream while probing for the second track, so
//     both have announced their track set (PMT, SDP) when these are through;
//   - an audio frame followed within 1 ms by a small key frame: a point at which
//     every consumer kind is able to start (TS: key frame with a non-empty AAC
//     batch; RTSP: IDR packet after the SDP exists), so that a consumer attached
//     anywhere before it sees the end;
//   - two more frames and one final small frame per track, used as end marker.
func tailItems(cd gen.Codecs, items []gen.Item, wrap bool) []gen.Item {
	T := uint32(0)
	first := true
	for _, it := range items {
		if it.Kind == "meta" {
			continue
		}
		if first || (!wrap && it.Ts > T) || (wrap && serialLE(T, it.Ts)) {
			T = it.Ts
		}
		first = false
	}
	T++
	serial := uint32(90000000)
	next := func() uint32 { serial++; return serial }
	k := []byte{0x65}
	n := []byte{0x41}
	if cd.Video == "hevc" {
		k = []byte{19 << 1, 1}
		n = []byte{1 << 1, 1}
	}
	vid := func(ts uint32, hdr []byte, l int, key bool) gen.Item {
		s := next()
		return gen.Item{Kind: "video", Ts: ts, Key: key, Nals: []gen.NalSpec{{Hdr: hdr, Len: l, Seed: s, Serial: s}}}
	}
	aud := func(ts uint32, l int) gen.Item {
		return gen.Item{Kind: "audio", Ts: ts, ALen: l, ASeed: next()}
	}
	var out []gen.Item
	switch {
	case cd.Video != "":
		for i := 0; i < 17; i++ {
			out = append(out, vid(T+uint32(i), n, 8, false))
		}
		if cd.Audio != "" {
			out = append(out, aud(T+17, 20))
		}
		out = append(out, vid(T+18, k, 30, true))
		out = append(out, vid(T+19, n, 8, false), vid(T+20, n, 9, false))
		out = append(out, vid(T+21, n, 16, false))
		if cd.Audio != "" {
			out = append(out, aud(T+22, 24))
		}
	default:
		for i := 0; i < 18; i++ {
			out = append(out, aud(T+uint32(i)*40, 20))
		}
		out = append(out, aud(T+18*40, 24))
	}
	return out
}

// ---------------------------------------------------------------------------
// classification

func sizeClass(n int) string {
	switch {
	case n <= 5:
		return "1-5B"
	case n <= 184:
		return "<=184B"
	case n <= 1200:
		return "<=1200B"
	case n <= 65535:
		return "<=64KiB"
	default:
		return ">64KiB"
	}
}

func codecPair(cd gen.Codecs) string {
	v := cd.Video
	if v == "" {
		v = "novideo"
	}
	if cd.Enhanced {
		v += "-enh"
	}
	a := cd.Audio
	if a == "" {
		a = "noaudio"
	}
	return v + "+" + a
}

func joinClass(c Case, k int) string {
	firstMedia, firstKey := -1, -1
	for i, it := range c.Items {
		if firstMedia < 0 && (it.Kind == "video" || it.Kind == "audio") {
			firstMedia = i
		}
		if firstKey < 0 && it.Kind == "video" && it.Key {
			firstKey = i
		}
	}
	switch {
	case k < 0:
		return "before-publisher"
	case k >= len(c.Items):
		return "at-tail"
	case firstMedia < 0 || k <= firstMedia:
		return "prologue"
	case c.Items[k].Kind == "video" && c.Items[k].Key:
		return "before-key"
	default:
		return "mid-gop"
	}
}

func classify(c Case) (bool, []string) {
	cd := c.Codecs
	maxNal, multi, cts, batched, bigNal := 0, false, false, false, false
	lastA := int64(-1 << 40)
	jumpF, jumpB, pts33 := false, false, false
	var prevV, prevA int64 = -1, -1
	for _, it := range c.Items {
		switch it.Kind {
		case "video":
			if len(it.Nals) >= 2 {
				multi = true
			}
			if it.Cts != 0 {
				cts = true
			}
			for _, n := range it.Nals {
				l := len(n.Hdr) + n.Len
				if l > maxNal {
					maxNal = l
				}
				if l > 1200 {
					bigNal = true
				}
			}
			if prevV >= 0 {
				if int64(it.Ts)-prevV >= 95443718-63000/90 {
					pts33 = true // the PTS field (relative to the first frame, plus lal's 700 ms delay) passes 2^33
				}
				if int64(it.Ts) < prevV {
					jumpB = true
				}
				if int64(it.Ts) > prevV+900 {
					jumpF = true
				}
			}
			prevV = int64(it.Ts)
		case "audio":
			if cd.Audio == "aac" && int64(it.Ts)-lastA <= 150 && int64(it.Ts) >= lastA {
				batched = true
			}
			lastA = int64(it.Ts)
			if prevA >= 0 {
				if int64(it.Ts) < prevA {
					jumpB = true
				}
				if int64(it.Ts) > prevA+900 {
					jumpF = true
				}
			}
			prevA = int64(it.Ts)
		}
	}
	present := map[string]bool{}
	for _, it := range c.Items {
		for _, n := range it.Nals {
			present[sizeClass(len(n.Hdr)+n.Len)] = true
		}
	}
	pair := codecPair(cd)
	sc := sizeClass(maxNal)
	if cd.Video == "" {
		sc = "audio-only"
	}
	labels := []string{"codecs:" + pair, "size:" + sc}
	if tsCarries(cd) {
		labels = append(labels, fmt.Sprintf("%s|hls|frag%dms|%s", pair, c.HlsFragMs, sc), "consumer:hls")
	}
	for _, k := range c.Cons {
		jc := joinClass(c, k.JoinAt)
		labels = append(labels, fmt.Sprintf("%s|%s|%s|%s", pair, k.Kind, jc, sc), "consumer:"+k.Kind, "join:"+k.Kind+":"+jc)
	}
	for _, k := range []string{"1-5B", "<=184B", "<=1200B", "<=64KiB", ">64KiB"} {
		if present[k] {
			labels = append(labels, "has-nal:"+k)
		}
	}
	if multi {
		labels = append(labels, "multi-nal-frame")
	}
	if cts {
		labels = append(labels, "composition-offset")
	}
	if batched {
		labels = append(labels, "aac-batched-pes")
	}
	if jumpF {
		labels = append(labels, "ts-jump-forward")
	}
	if jumpB {
		labels = append(labels, "ts-jump-backward")
	}
	if c.TsGop > 0 {
		labels = append(labels, "ts-gop-cache")
	}
	if c.Wrap {
		labels = append(labels, "rtmp-ts-wraps-2^32")
	}
	if c.AscChange {
		labels = append(labels, "asc-changes-mid-stream")
	}
	if c.LateTrack > 0 {
		which := "audio"
		if c.LateTrack-1 < len(c.Items) && c.Items[c.LateTrack-1].Kind == "vsh" {
			which = "video"
		}
		labels = append(labels, fmt.Sprintf("second-track:%s-at-message-%d", which, c.LateTrack))
	}
	var fa, fv int64 = -1, -1
	for _, it := range c.Items {
		if it.Kind == "audio" && fa < 0 {
			fa = int64(it.Ts)
		}
		if it.Kind == "video" && fv < 0 {
			fv = int64(it.Ts)
		}
	}
	if fa >= 0 && fv >= 0 && !c.Wrap {
		base := "zero-base"
		if fa > 0 && fv > 0 {
			base = "nonzero-base"
		}
		switch {
		case fa < fv:
			labels = append(labels, "first-audio-below-first-video|"+base)
		case fa > fv:
			labels = append(labels, "first-audio-above-first-video|"+base)
		default:
			labels = append(labels, "first-audio-equals-first-video|"+base)
		}
	}
	if cd.Audio == "aac" {
		labels = append(labels, fmt.Sprintf("asc-bytes:%d", len(ascBytes(cd, c.AscExt))))
	}
	if pts33 {
		labels = append(labels, "pts-field-wraps-2^33")
	}
	if len(c.Items) > 0 {
		for _, it := range c.Items {
			if it.Kind == "video" || it.Kind == "audio" {
				switch {
				case it.Ts >= 95443718:
					labels = append(labels, "start-ts:>=2^33/90")
				case it.Ts >= 0xFFFFFF:
					labels = append(labels, "start-ts:>=0xFFFFFF")
				}
				break
			}
		}
	}
	nt := multi && bigNal && (cts || batched)
	return nt, uniq(labels)
}

func uniq(in []string) []string {
	seen := map[string]bool{}
	var out []string
	for _, s := range in {
		if !seen[s] {
			seen[s] = true
			out = append(out, s)
		}
	}
	return out
}
