package c06

import (
	"encoding/json"
	"fmt"
	"os"
	"testing"

	"verif/drv/pbt"
	"verif/gen"
)

// TestMinimise is a developer tool, not a check: with C06_MIN_IN=<replay file>
// and C06_MIN_OUT=<file> it greedily reduces a failing case (consumers, items,
// NAL units, sizes) while the violation keeps its signature and writes the
// result in pbt.ReplayFile form (for corpus/c06).  rapid's own shrinker works on
// the draw sequence and, with cases that cost milliseconds each, often stops
// far from a readable input.
func TestMinimise(t *testing.T) {
	in, out := os.Getenv("C06_MIN_IN"), os.Getenv("C06_MIN_OUT")
	if in == "" || out == "" {
		t.Skip("developer tool")
	}
	b, err := os.ReadFile(in)
	if err != nil {
		t.Fatal(err)
	}
	var rf pbt.ReplayFile
	if err := json.Unmarshal(b, &rf); err != nil {
		t.Fatal(err)
	}
	var c Case
	if err := json.Unmarshal(rf.Case, &c); err != nil {
		t.Fatal(err)
	}
	exec := func(c Case) *pbt.Violation { return pbt.Guard(func() *pbt.Violation { return run(c) }) }
	v := exec(c)
	if v == nil {
		t.Fatal("case does not fail")
	}
	sig := v.Sig
	if want := os.Getenv("C06_MIN_SIG"); want != "" {
		sig = want
	}
	fails := func(c Case) bool {
		v := exec(c)
		return v != nil && v.Sig == sig
	}
	clone := func(c Case) Case {
		var d Case
		b, _ := json.Marshal(c)
		_ = json.Unmarshal(b, &d)
		return d
	}
	removeItem := func(c Case, i int) Case {
		d := clone(c)
		d.Items = append(d.Items[:i:i], d.Items[i+1:]...)
		for k := range d.Cons {
			if d.Cons[k].JoinAt > i {
				d.Cons[k].JoinAt--
			}
		}
		return d
	}
	for changed := true; changed; {
		changed = false
		for i := len(c.Cons) - 1; i >= 0; i-- {
			d := clone(c)
			d.Cons = append(d.Cons[:i:i], d.Cons[i+1:]...)
			if fails(d) {
				c, changed = d, true
			}
		}
		for i := len(c.Items) - 1; i >= 0; i-- {
			if i >= len(c.Items) {
				continue
			}
			k := c.Items[i].Kind
			if k == "vsh" || k == "ash" {
				continue
			}
			if d := removeItem(c, i); fails(d) {
				c, changed = d, true
			}
		}
		for i := range c.Items {
			it := c.Items[i]
			if it.Kind != "video" {
				if it.Kind == "audio" && it.ALen > 8 {
					d := clone(c)
					d.Items[i].ALen = it.ALen / 2
					if fails(d) {
						c, changed = d, true
					}
				}
				continue
			}
			for n := len(c.Items[i].Nals) - 1; n >= 0 && len(c.Items[i].Nals) > 1; n-- {
				d := clone(c)
				d.Items[i].Nals = append(append([]gen.NalSpec(nil), d.Items[i].Nals[:n]...), d.Items[i].Nals[n+1:]...)
				if fails(d) {
					c, changed = d, true
				}
			}
			for n := range c.Items[i].Nals {
				if l := c.Items[i].Nals[n].Len; l > 8 {
					for _, nl := range []int{8, l / 2, l - 1} {
						d := clone(c)
						d.Items[i].Nals[n].Len = nl
						if fails(d) {
							c, changed = d, true
							break
						}
					}
				}
			}
			if c.Items[i].Cts != 0 {
				d := clone(c)
				d.Items[i].Cts = 0
				if fails(d) {
					c, changed = d, true
				}
			}
		}
		for k := range c.Cons {
			if c.Cons[k].JoinAt > -1 {
				d := clone(c)
				d.Cons[k].JoinAt = -1
				if fails(d) {
					c, changed = d, true
				}
			}
		}
		if c.TsGop != 0 {
			d := clone(c)
			d.TsGop = 0
			if fails(d) {
				c, changed = d, true
			}
		}
		if c.Chunk != 4096 {
			d := clone(c)
			d.Chunk = 4096
			if fails(d) {
				c, changed = d, true
			}
		}
	}
	v = exec(c)
	cb, _ := json.Marshal(c)
	ob, _ := json.MarshalIndent(pbt.ReplayFile{Property: "C06", Sub: "rtmp-to-ts-hls-rtsp", Sig: v.Sig, Detail: v.Detail, Case: cb}, "", " ")
	if err := os.WriteFile(out, ob, 0o644); err != nil {
		t.Fatal(err)
	}
	fmt.Printf("minimised: %d items, %d consumers, sig %s\n%s\n", len(c.Items), len(c.Cons), v.Sig, v.Detail)
}
