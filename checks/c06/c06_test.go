// C06 — RTMP ingest reaches TS, HLS and RTSP consumers with the same frames.
//
// A reference RTMP client publishes a generated elementary stream (AVC | HEVC
// classic | HEVC enhanced-RTMP x AAC | Opus | G.711 | none; NAL units of 1 byte
// up to 300 KiB, several per frame, AUD / SEI / in-band parameter sets,
// composition offsets, audio spacings that make lal merge 1..16 AAC frames into
// one PES, AudioSpecificConfigs of 2-5 bytes that may change mid-stream (then
// without RTSP consumers), forward and backward timestamp
// jumps that stay >= the track's first timestamp, streams that run across the
// roll-over of the 32-bit RTMP timestamp and streams whose PTS field passes
// 2^33, either track's clock ahead of the other at the start at zero and
// non-zero time bases, the second track appearing as late as the 16th message
// of the stream) into a real in-process lal.  Consumers: HTTP-TS subscribers, RTSP
// subscribers with RTP interleaved and RTSP subscribers with RTP over UDP (real
// loopback sockets) joining at generated points, and the HLS segment files read
// in record-playlist order after the publisher left.  Independent demuxers
// (ref/tsref, ref/rtpref, ref/codecref, ref/sdpref) recover the frames, which
// are judged against the published ones:
//
//   - per track the recovered unit list equals the published list from some
//     point to the very end: byte-identical, in order, each exactly once.  RTSP
//     legs: only access-unit delimiters are removed from both sides (in-band
//     parameter sets and SEI must arrive).  TS legs: AUD, VPS/SPS/PPS and H.265
//     SEI are removed from both sides, and the parameter sets standing in front
//     of every key frame must be the latest in force (sequence header or
//     in-band group);
//   - that point is bounded (bounds_test.go): HLS starts with the first key
//     frame of the stream; an HTTP-TS subscriber has started by the first key
//     frame after it was attached that certainly opens a start point; an RTSP
//     subscriber by the first IDR / IRAP / parameter-set unit after its PLAY was
//     processed; audio published after that frame may not be missing
//     (signature */started-late);
//   - TS: one PES never mixes two published frames; DTS - 90*ts is one constant
//     per track per consumer (mod 2^33, which is continuous across the 2^32 ms
//     roll-over because 90*2^32 = 45*2^33), PTS - DTS = 90*cts; an audio PES's
//     PTS belongs to its first frame; every ADTS header agrees with the head of
//     the AudioSpecificConfig in force when its frame was published (also after
//     a mid-stream change) and frame_length = header + frame;
//     continuity counters of every PID run on without a jump (HTTP-TS: all PIDs;
//     concatenated HLS segments: the elementary-stream PIDs);
//   - RTP: timestamp = round(ts*clock/1000) mod 2^32 within one tick, where the
//     clock announced in the SDP must be the codec's (90000; AAC sampling rate;
//     48000 Opus; 8000 G.711); payload type as announced.
//
// Deliberately NOT asserted: which frames share an audio PES, PCR values,
// random-access flags, start-code length, how often parameter sets are repeated,
// Opus framing inside the private PES (one PES payload per published frame),
// G.711 in TS (lal does not carry it), RTP marker bits, packetisation mode, that
// a consumer starts as early as it could (C02) — only that it has started by the
// documented point, HLS playlist content (C10), PSI syntax (C09).  An RTSP/UDP
// consumer is judged only when its sequence numbers are gap-free (a lost
// datagram cannot be attributed to lal), except that a track staying completely
// silent is reported.
package c06

import (
	"testing"

	"verif/drv/pbt"
)

func TestRtmpToTsHlsRtsp(t *testing.T) {
	pbt.Run(t, pbt.Spec[Case]{
		ID: "C06", Name: "rtmp-to-ts-hls-rtsp", Gen: genCase, Run: run, Classify: classify,
		Quick: 600, Thorough: 4000,
	})
}
