// C06 — RTMP ingest reaches TS, HLS and RTSP consumers with the same frames.
//
// A reference RTMP client publishes a generated elementary stream (AVC | HEVC
// classic | HEVC enhanced-RTMP x AAC | Opus | G.711 | none; NAL units of 1 byte
// up to 300 KiB, several per frame, AUD / SEI / in-band parameter sets,
// composition offsets, audio spacings that make lal merge 1..16 AAC frames into
// one PES, forward and backward timestamp jumps that stay >= the track's first
// timestamp) into a real in-process lal.  Three kinds of consumer observe it:
// HTTP-TS subscribers and RTSP subscribers (interleaved) joining at generated
// points, and the HLS segment files read in record-playlist order after the
// publisher left.  Independent demuxers (ref/tsref, ref/rtpref, ref/codecref,
// ref/sdpref) recover the frames, which are judged against the published ones:
//
//   - per track, after removing AUD, VPS/SPS/PPS and (TS, H.265) SEI from both
//     sides, the recovered unit list equals the published list from some point
//     to the very end: byte-identical, in order, each exactly once;
//   - TS: one PES never mixes two published frames; DTS - 90*ts is one constant
//     per track per consumer (mod 2^33), PTS - DTS = 90*cts; an audio PES's PTS
//     belongs to its first frame; every ADTS header agrees with the published
//     AudioSpecificConfig and frame_length = header + frame;
//   - RTP: timestamp = round(ts*clock/1000) mod 2^32 within one tick, clock
//     taken from the session description; payload type as announced.
//
// Deliberately NOT asserted: which frames share an audio PES, PCR values,
// random-access flags, start-code length, where parameter sets are re-inserted,
// Opus framing inside the private PES (one PES payload per published frame),
// G.711 in TS (lal does not carry it), RTP marker bits, packetisation mode,
// where a consumer starts (C01/C02) — only that what it got from its starting
// point on runs to the end (each case ends with a point at which every consumer
// kind can start, so a consumer that received nothing is reported), HLS playlist
// content (C10), TS continuity counters / PSI syntax (C09).
package c06

import (
	"testing"

	"verif/drv/pbt"
)

func TestRtmpToTsHlsRtsp(t *testing.T) {
	pbt.Run(t, pbt.Spec[Case]{
		ID: "C06", Name: "rtmp-to-ts-hls-rtsp", Gen: genCase, Run: run, Classify: classify,
		Quick: 1000, Thorough: 7000,
	})
}
