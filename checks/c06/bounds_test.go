package c06

import (
	"fmt"

	"verif/gen"
	"verif/ref/codecref"
)

// ---------------------------------------------------------------------------
// Where a consumer must have started at the latest.
//
// The property judges a consumer "from its starting point on"; without a bound
// on that point a lost first GOP / first HLS segment / GOP-cache replay would
// pass as "started later".  The bounds below are what lal documents:
//
//   - TS legs (HLS muxer, HTTP-TS subscriber): output starts at a key frame;
//     with AAC audio a key frame opens a (new) start point only while the AAC
//     batch is non-empty (rtmp2mpegts.go: boundary rule), which is certain when
//     the message right before the key frame is an AAC frame at most 150 ms
//     older (the batch is flushed by audio > 150 ms / video > 300 ms ahead of
//     its first frame).  The very first key frame of a stream always opens.
//     Audio published before that key frame may be missing, audio published
//     after it may not.  The HLS muxer is attached from the first message on.
//   - RTSP: the subscriber is attached when PLAY has been processed, which the
//     harness does not before lal's 16-message analysis window has produced the
//     session description; from then on it starts at the first IDR / IRAP /
//     parameter-set unit (out_wait_key_frame), at once without video; audio is
//     withheld until video has started.
//
// A consumer may start earlier (GOP cache, batches flushed late); never later.

type startBound struct {
	videoItem int // item index of the frame at which video has certainly started (-1: no video)
	maxVOff   int // largest admissible offset into the flat video unit list
	maxAOff   int // largest admissible offset into the audio frame list
	why       string
}

func (p *published) mediaBefore(k int) int {
	for i := k - 1; i >= 0; i-- {
		if p.items[i].Kind == "video" || p.items[i].Kind == "audio" {
			return i
		}
	}
	return -1
}

func (p *published) audioFramesBefore(item int) int {
	n := 0
	for _, a := range p.audio {
		if a.item < item {
			n++
		}
	}
	return n
}

func hasIrapItem(cd gen.Codecs, it gen.Item) bool {
	for _, n := range it.Nals {
		if isIrap(cd.Video, n.Hdr) {
			return true
		}
	}
	return false
}

// tsBound: attach = number of items lal had processed when the consumer was attached.
func (p *published) tsBound(attach int, flat []flatNal) startBound {
	cd := p.cd
	if attach < 0 {
		attach = 0
	}
	if cd.Video == "" {
		return startBound{videoItem: -1, maxAOff: p.audioFramesBefore(attach), why: fmt.Sprintf("without video every audio PES is a start point; attached before item %d", attach)}
	}
	// the first key frame of a stream always opens a start point — unless audio was remuxed before the video sequence
	// header arrived (video track appearing late): then audio PES have opened the output already and the first key
	// frame is an ordinary one
	firstVid := -1
	audioBeforeVsh, seenVsh := false, false
	for i, it := range p.items {
		if it.Kind == "vsh" {
			seenVsh = true
		}
		if it.Kind == "audio" && !seenVsh {
			audioBeforeVsh = true
		}
		if it.Kind == "video" {
			firstVid = i
			break
		}
	}
	if audioBeforeVsh {
		firstVid = -1
	}
	for k := attach; k < len(p.items); k++ {
		it := p.items[k]
		if it.Kind != "video" || !it.Key || !hasIrapItem(cd, it) {
			continue
		}
		sure := cd.Audio != "aac" || k == firstVid
		why := "key frame"
		if k == firstVid {
			why = "first key frame of the stream"
		}
		if !sure {
			if pm := p.mediaBefore(k); pm >= 0 && p.items[pm].Kind == "audio" && p.items[pm].ALen > 0 && int32(it.Ts-p.items[pm].Ts) <= 150 {
				sure = true
				why = fmt.Sprintf("key frame right after the AAC frame of item %d (%d ms older)", pm, int32(it.Ts-p.items[pm].Ts))
			}
		}
		if !sure {
			continue
		}
		b := startBound{videoItem: k, maxAOff: p.audioFramesBefore(k), why: fmt.Sprintf("attached before item %d; %s at item %d", attach, why, k)}
		b.maxVOff = len(flat)
		for i, f := range flat {
			if p.video[f.frame].item >= k {
				b.maxVOff = i
				break
			}
		}
		return b
	}
	harness("no certain start point after item %d (the tail provides one)", attach)
	return startBound{}
}

func (p *published) rtspBound(attach int, flat []flatNal) startBound {
	cd := p.cd
	if attach < 0 {
		attach = 0
	}
	if cd.Video == "" {
		return startBound{videoItem: -1, maxAOff: p.audioFramesBefore(attach), why: fmt.Sprintf("no video; PLAY processed before item %d", attach)}
	}
	for i, f := range flat {
		fr := p.video[f.frame]
		if fr.item >= attach && opensRtspStream(cd.Video, f.data) {
			return startBound{videoItem: fr.item, maxVOff: i, maxAOff: p.audioFramesBefore(fr.item),
				why: fmt.Sprintf("PLAY processed before item %d; first IDR/IRAP/parameter-set unit after it is in item %d", attach, fr.item)}
		}
	}
	harness("no RTSP start point after item %d (the tail provides one)", attach)
	return startBound{}
}

// ---------------------------------------------------------------------------
// Parameter sets in force (TS legs): what must stand in front of a key frame.

type paramSets [][]byte // [sps pps] or [vps sps pps]

// setsInForce returns, per published video frame that holds an IDR/IRAP unit,
// the admissible parameter-set lists at that unit.  Two readings are accepted
// where they differ (an in-band SPS without PPS): per type the most recently
// published set, or the most recent complete group (sequence header, or all
// types inside one frame).
func (p *published) setsInForce() map[int][]paramSets {
	cd := p.cd
	codec := cd.Video
	n := 2
	if codec == "hevc" {
		n = 3
	}
	slot := func(nal []byte) int {
		t := nalType(codec, nal)
		if codec == "hevc" {
			return t - 32
		}
		return t - 7
	}
	var perType, complete paramSets
	out := map[int][]paramSets{}
	fi := -1
	for _, it := range p.items {
		switch it.Kind {
		case "vsh":
			vps, sps, pps := gen.ParamSets(codec, it.Variant)
			if codec == "hevc" {
				perType = paramSets{vps, sps, pps}
			} else {
				perType = paramSets{sps, pps}
			}
			complete = append(paramSets(nil), perType...)
		case "video":
			fi++
			local := make(paramSets, n)
			recorded := false
			for _, nal := range p.video[fi].nals {
				switch {
				case isParamSet(codec, nal):
					s := slot(nal)
					if perType != nil {
						perType = append(paramSets(nil), perType...)
						perType[s] = nal
					}
					local[s] = nal
					if s == n-1 {
						full := true
						for _, l := range local {
							if l == nil {
								full = false
							}
						}
						if full {
							complete = append(paramSets(nil), local...)
						}
					}
				case isIrap(codec, nal) && !recorded:
					recorded = true
					out[fi] = []paramSets{complete, perType}
				}
			}
		}
	}
	return out
}

// ---------------------------------------------------------------------------
// RTP clock rate the codec prescribes (RFC 6184 / 7798: 90000; RFC 3640: the
// sampling rate; RFC 7587: 48000; RFC 3551: 8000).

func expectedClock(cd gen.Codecs, media string, asc []byte) (int, error) {
	if media == "video" {
		return 90000, nil
	}
	switch cd.Audio {
	case "aac":
		a, err := codecref.ParseASC(asc)
		if err != nil {
			return 0, err
		}
		return a.Frequency, nil
	case "opus":
		return 48000, nil
	}
	return 8000, nil
}
