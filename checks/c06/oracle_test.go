package c06

import (
	"bytes"
	"fmt"
	"strconv"
	"strings"

	"verif/drv/pbt"
	"verif/harness/lalclient"
	"verif/ref/codecref"
	"verif/ref/rtpref"
	"verif/ref/rtspref"
	"verif/ref/sdpref"
	"verif/ref/tsref"
)

const mod33 = uint64(1) << 33

func firstDiff(a, b []byte) int {
	n := len(a)
	if len(b) < n {
		n = len(b)
	}
	for i := 0; i < n; i++ {
		if a[i] != b[i] {
			return i
		}
	}
	return n
}

func head(b []byte, n int) []byte {
	if len(b) > n {
		return b[:n]
	}
	return b
}

// locate describes where a received unit occurs in the published list (for
// diagnostics only).
func locate(flat []flatNal, data []byte) string {
	var at []string
	for i, f := range flat {
		if bytes.Equal(f.data, data) {
			at = append(at, strconv.Itoa(i))
			if len(at) > 4 {
				break
			}
		}
	}
	if len(at) == 0 {
		return "it equals no published unit"
	}
	return "it equals published unit(s) #" + strings.Join(at, ",")
}

// compareVideo checks that the received units are the published units from
// some starting point to the end: recv == pub[len(pub)-len(recv):].
func compareVideo(sig, who string, pub *published, flat []flatNal, recv [][]byte) (off int, v *pbt.Violation) {
	if len(recv) > len(flat) {
		return 0, pbt.V(sig+"/video/more-units-than-published", "%s: %d NAL units recovered, %d published (after removing AUD / parameter sets%s)", who, len(recv), len(flat), seiNote(sig))
	}
	off = len(flat) - len(recv)
	// compared from the end backwards, so that the report names the difference closest to the end (after a lost
	// unit everything behind it still lines up)
	for i := len(recv) - 1; i >= 0; i-- {
		r := recv[i]
		want := flat[off+i]
		if !bytes.Equal(r, want.data) {
			fr := pub.video[want.frame]
			return off, pbt.V(sig+"/video/nal-mismatch",
				"%s: %d NAL units recovered, %d published; the last %d agree, but counting from the end recovered unit #%d should be published unit #%d (frame at item %d, ts %d): got %d bytes (% x..), want %d bytes (% x..), first difference at byte %d; %s",
				who, len(recv), len(flat), len(recv)-1-i, i, off+i, fr.item, fr.ts, len(r), head(r, 12), len(want.data), head(want.data, 12), firstDiff(r, want.data), locate(flat, r))
		}
	}
	return off, nil
}

// compareAudio is compareVideo for audio frames.
func compareAudio(sig, who string, pub *published, recv [][]byte) (off int, v *pbt.Violation) {
	if len(recv) > len(pub.audio) {
		return 0, pbt.V(sig+"/audio/more-frames-than-published", "%s: %d audio frames recovered, %d published", who, len(recv), len(pub.audio))
	}
	off = len(pub.audio) - len(recv)
	for i := len(recv) - 1; i >= 0; i-- {
		r := recv[i]
		want := pub.audio[off+i]
		if !bytes.Equal(r, want.data) {
			where := "it equals no published frame"
			for x, a := range pub.audio {
				if bytes.Equal(a.data, r) {
					where = fmt.Sprintf("it equals published audio frame #%d", x)
					break
				}
			}
			return off, pbt.V(sig+"/audio/frame-mismatch", "%s: %d audio frames recovered, %d published; the last %d agree, but counting from the end recovered frame #%d should be published frame #%d (item %d, ts %d): got %d bytes (% x..), want %d bytes (% x..), first difference at byte %d; %s",
				who, len(recv), len(pub.audio), len(recv)-1-i, i, off+i, want.item, want.ts, len(r), head(r, 12), len(want.data), head(want.data, 12), firstDiff(r, want.data), where)
		}
	}
	return off, nil
}

func seiNote(sig string) string {
	if sig == "rtsp" {
		return ""
	}
	return " / H.265 SEI"
}

// ---------------------------------------------------------------------------
// MPEG-TS (HTTP-TS body, concatenated HLS segments)

func checkTs(who, leg string, body []byte, pub *published, attach int) *pbt.Violation {
	cd := pub.cd
	if len(body)%188 != 0 {
		return pbt.V(leg+"/partial-packet", "%s: %d bytes are not a whole number of 188-byte packets", who, len(body))
	}
	res, err := tsref.Demux(body, tsref.Options{})
	if err != nil {
		return pbt.V(leg+"/demux-error", "%s: %v", who, err)
	}
	// syntax errors that make a conforming demuxer cut the elementary stream differently (everything else about the
	// multiplex syntax is C09's business)
	for _, pr := range res.Problems {
		switch pr.Kind {
		case "pes-length-mismatch", "pes-no-start-code", "pes-truncated", "pes-header-overflow", "pes-pts-dts-flags", "af-length", "af-overflow":
			return pbt.V(leg+"/ts-syntax/"+pr.Kind, "%s: %s", who, pr.String())
		}
	}
	// continuity counters through lal's real carry (remuxer -> GOP cache / HLS muxer): per PID they count up by one
	// with every packet (2.4.3.3).  The concatenated HLS segments each start with the same PAT / PMT packets, so the PSI
	// PIDs are exempt there; the elementary-stream PIDs must run on across segment boundaries (lal announces no
	// discontinuity between its segments).
	psi := map[uint16]bool{tsref.PIDPAT: true}
	for _, pat := range res.PATs {
		for _, e := range pat.Entries {
			if e.ProgramNumber != 0 {
				psi[e.PID] = true
			}
		}
	}
	for _, e := range res.CC {
		if leg == "hls" && psi[e.PID] {
			continue
		}
		return pbt.V(leg+"/continuity", "%s: continuity_counter %s on PID %#x at packet %d: expected %d, got %d (%d such events)", who, e.Kind, e.PID, e.Packet, e.Expected, e.Got, len(res.CC))
	}
	pmt := res.LastPMT()
	if pmt == nil {
		return pbt.V(leg+"/no-pmt", "%s: no program map table in %d packets", who, len(res.Packets))
	}
	var vpid, apid uint16
	hasV, hasA := false, false
	for _, m := range res.PMTs {
		for _, es := range m.Streams {
			switch es.StreamType {
			case tsref.StreamTypeH264, tsref.StreamTypeH265:
				want := uint8(tsref.StreamTypeH264)
				if cd.Video == "hevc" {
					want = tsref.StreamTypeH265
				}
				if cd.Video == "" || es.StreamType != want {
					return pbt.V(leg+"/pmt-stream-type", "%s: PMT announces video stream type %#x for published video codec %q", who, es.StreamType, cd.Video)
				}
				vpid, hasV = es.PID, true
			case tsref.StreamTypeAAC, tsref.StreamTypePrivate:
				want := uint8(tsref.StreamTypeAAC)
				if cd.Audio == "opus" {
					want = tsref.StreamTypePrivate
				}
				if !tsCarriesAudio(cd) || es.StreamType != want {
					return pbt.V(leg+"/pmt-stream-type", "%s: PMT announces audio stream type %#x for published audio codec %q", who, es.StreamType, cd.Audio)
				}
				apid, hasA = es.PID, true
			}
		}
	}
	// every PID that carries PES packets is declared by the program map table (with the stream type checked above)
	for _, pid := range res.PIDs() {
		if !(hasV && pid == vpid) && !(hasA && pid == apid) {
			return pbt.V(leg+"/pes-on-undeclared-pid", "%s: PID %#x carries %d PES packets but no program map table declares it (declared: video %v pid %#x, audio %v pid %#x; codecs %s): a demuxer drops that track",
				who, pid, len(res.ByPID(pid)), hasV, vpid, hasA, apid, codecPair(cd))
		}
	}
	if cd.Video != "" && !hasV {
		return pbt.V(leg+"/pmt-missing-track", "%s: the program map table announces no video stream (codec %s): a demuxer cannot recover the video frames", who, cd.Video)
	}
	if tsCarriesAudio(cd) && !hasA {
		return pbt.V(leg+"/pmt-missing-track", "%s: the program map table announces no audio stream (codec %s): a demuxer cannot recover the audio frames", who, cd.Audio)
	}

	bound := pub.tsBound(attach, pub.flatVideo("ts"))

	// ---- video
	if hasV {
		flat := pub.flatVideo("ts")
		type unitRef struct{ pes int }
		var recv [][]byte
		var refs []unitRef
		pess := res.ByPID(vpid)
		pesNals := make([][][]byte, len(pess))
		for pi, pes := range pess {
			if !pes.HasPTS {
				return pbt.V(leg+"/video/pes-without-pts", "%s: video PES %d carries no PTS", who, pi)
			}
			pesNals[pi] = lalclient.SplitAnnexB(pes.Payload)
			for _, n := range pesNals[pi] {
				if keepNal(cd.Video, "ts", n) {
					recv = append(recv, n)
					refs = append(refs, unitRef{pes: pi})
				}
			}
		}
		off, v := compareVideo(leg, who, pub, flat, recv)
		if v != nil {
			return v
		}
		bound = pub.tsBound(attach, flat)
		if off > bound.maxVOff {
			return pbt.V(leg+"/started-late", "%s: video starts at published unit #%d (frame at item %d), but it must have started by unit #%d (%s): the %d units in between are missing",
				who, off, pub.video[flat[off%len(flat)].frame].item, bound.maxVOff, bound.why, off-bound.maxVOff)
		}
		inForce := pub.setsInForce()
		// timing per PES
		haveConst := false
		var konst uint64
		var konstFrom int
		i := 0
		for i < len(recv) {
			pi := refs[i].pes
			f := flat[off+i].frame
			j := i
			for j < len(recv) && refs[j].pes == pi {
				if flat[off+j].frame != f {
					return pbt.V(leg+"/video/pes-mixes-frames", "%s: video PES %d holds NAL units of the frames published at items %d and %d: the second frame's timestamps are lost", who, pi, pub.video[f].item, pub.video[flat[off+j].frame].item)
				}
				j++
			}
			pes := pess[pi]
			fr := pub.video[f]
			dts := pes.PTS
			if pes.HasDTS {
				dts = pes.DTS
			}
			k := (dts + mod33 - (90*uint64(fr.ts))%mod33) % mod33
			if !haveConst {
				haveConst, konst, konstFrom = true, k, fr.item
			} else if k != konst {
				return pbt.V(leg+"/video/dts-offset-not-constant", "%s: video frame published at item %d (ts %d ms): DTS %d, i.e. DTS-90*ts = %d (mod 2^33), but %d for the frame at item %d (difference %d ticks)",
					who, fr.item, fr.ts, dts, k, konst, konstFrom, tsref.TimestampDiff(k, konst))
			}
			if got := (pes.PTS + mod33 - dts) % mod33; got != 90*uint64(fr.cts)%mod33 {
				return pbt.V(leg+"/video/pts-minus-dts", "%s: video frame published at item %d (ts %d, composition offset %d ms): PTS-DTS = %d ticks, want %d", who, fr.item, fr.ts, fr.cts, got, 90*uint64(fr.cts))
			}
			// the parameter sets standing in front of a key frame's first IDR / IRAP unit are the ones in force
			if want, ok := inForce[f]; ok {
				var got [][]byte
				seenIrap := false
				for _, n := range pesNals[pi] {
					if len(n) == 0 {
						continue
					}
					if isIrap(cd.Video, n) {
						seenIrap = true
						break
					}
					if isParamSet(cd.Video, n) {
						got = append(got, n)
					}
				}
				if seenIrap {
					match := false
					for _, w := range want {
						if len(got) >= len(w) && len(w) > 0 {
							tail := got[len(got)-len(w):]
							same := true
							for x := range w {
								if !bytes.Equal(tail[x], w[x]) {
									same = false
								}
							}
							if same {
								match = true
							}
						}
					}
					if !match {
						return pbt.V(leg+"/video/parameter-sets-not-in-force", "%s: key frame published at item %d (ts %d): the parameter sets in front of its first IDR/IRAP unit are %x, in force are %x (latest complete group) / %x (latest per type)",
							who, fr.item, fr.ts, got, [][]byte(want[0]), [][]byte(want[1]))
					}
				}
			}
			i = j
		}
	}

	// ---- audio
	if hasA {
		type aref struct {
			pes   int
			first bool
			n     int            // index of the frame inside its PES
			adts  *codecref.ADTS // AAC: the frame's ADTS header
		}
		var recv [][]byte
		var refs []aref
		pess := res.ByPID(apid)
		for pi, pes := range pess {
			if !pes.HasPTS {
				return pbt.V(leg+"/audio/pes-without-pts", "%s: audio PES %d carries no PTS", who, pi)
			}
			if cd.Audio == "opus" {
				// no standard access-unit framing is demanded for the private PES: one PES payload per published frame
				recv = append(recv, pes.Payload)
				refs = append(refs, aref{pes: pi, first: true})
				continue
			}
			b := pes.Payload
			pos := 0
			n := 0
			for pos < len(b) {
				if len(b)-pos < 7 {
					return pbt.V(leg+"/adts/truncated", "%s: audio PES %d: %d bytes left at offset %d, less than an ADTS header", who, pi, len(b)-pos, pos)
				}
				h, err := codecref.ParseADTS(b[pos:])
				if err != nil {
					return pbt.V(leg+"/adts/bad-header", "%s: audio PES %d, ADTS frame %d at offset %d: %v (% x)", who, pi, n, pos, err, b[pos:pos+7])
				}
				hl := 7
				if !h.ProtectionAbsent {
					hl = 9
				}
				fl := int(h.FrameLength)
				if fl < hl || pos+fl > len(b) {
					return pbt.V(leg+"/adts/frame-length", "%s: audio PES %d, ADTS frame %d at offset %d: frame_length %d with %d bytes left in the PES (header % x)", who, pi, n, pos, fl, len(b)-pos, b[pos:pos+7])
				}
				recv = append(recv, b[pos+hl:pos+fl])
				refs = append(refs, aref{pes: pi, first: n == 0, n: n, adts: h})
				pos += fl
				n++
			}
		}
		off, v := compareAudio(leg, who, pub, recv)
		if v != nil {
			return v
		}
		if off > bound.maxAOff {
			return pbt.V(leg+"/started-late", "%s: audio starts at published frame #%d, but it must have started by frame #%d (%s): the %d frames in between are missing",
				who, off, bound.maxAOff, bound.why, off-bound.maxAOff)
		}
		haveConst := false
		var konst uint64
		var konstFrom int
		for i := range recv {
			want := pub.audio[off+i]
			// every ADTS header agrees with the AudioSpecificConfig that was in force when its frame was published
			// (the configuration may change mid-stream, also in the middle of a batched PES)
			if h := refs[i].adts; h != nil {
				asc, err := codecref.ParseASC(want.asc)
				if err != nil {
					harness("published AudioSpecificConfig % x: %v", want.asc, err)
				}
				if int(h.Profile) != asc.ObjectType-1 || int(h.FreqIndex) != asc.FreqIndex || int(h.ChannelConfig) != asc.ChannelConfig {
					sig := leg + "/adts/inconsistent-with-asc"
					if !bytes.Equal(want.asc, pub.asc) {
						sig = leg + "/adts/stale-after-asc-change"
					}
					return pbt.V(sig, "%s: audio PES %d, ADTS frame %d (published at item %d): profile %d, sampling_frequency_index %d, channel_configuration %d; AudioSpecificConfig in force % x: object type %d (profile %d), frequency index %d, channel configuration %d (first configuration of the stream: % x)",
						who, refs[i].pes, refs[i].n, want.item, h.Profile, h.FreqIndex, h.ChannelConfig, want.asc, asc.ObjectType, asc.ObjectType-1, asc.FreqIndex, asc.ChannelConfig, pub.asc)
				}
			}
			if refs[i].first {
				pes := pess[refs[i].pes]
				k := (pes.PTS + mod33 - (90*uint64(want.ts))%mod33) % mod33
				if !haveConst {
					haveConst, konst, konstFrom = true, k, want.item
				} else if k != konst {
					return pbt.V(leg+"/audio/pts-offset-not-constant", "%s: audio PES %d starts with the frame published at item %d (ts %d ms): PTS %d, i.e. PTS-90*ts = %d (mod 2^33), but %d for the PES starting at item %d (difference %d ticks)",
						who, refs[i].pes, want.item, want.ts, pes.PTS, k, konst, konstFrom, tsref.TimestampDiff(k, konst))
				}
			}
		}
	}
	return nil
}

// ---------------------------------------------------------------------------
// RTSP / RTP

type rtspTrack struct {
	media    string
	pt       int
	encoding string
	clock    int
	fmtp     map[string]string
	channel  int
}

func rtpWant(tsMs uint32, clock int) uint32 {
	// round(ts*clock/1000) modulo 2^32
	return uint32((uint64(tsMs)*uint64(clock) + 500) / 1000)
}

func checkRtsp(who string, sdp []byte, frames []rtspref.Frame, pub *published, attach int, udp, lost bool) *pbt.Violation {
	cd := pub.cd
	sess, err := sdpref.Parse(sdp)
	if err != nil {
		return pbt.V("rtsp/sdp-unparseable", "%s: %v; sdp=%q", who, err, sdp)
	}
	var vt, at *rtspTrack
	for i, m := range sess.Media {
		c, err := m.Codec()
		if err != nil {
			return pbt.V("rtsp/sdp-unparseable", "%s: media %d: %v; sdp=%q", who, i, err, sdp)
		}
		t := &rtspTrack{media: m.Type, pt: c.PayloadType, encoding: strings.ToUpper(c.Encoding), clock: c.ClockRate, channel: 2 * i}
		t.fmtp, _, _ = m.Fmtp(c.PayloadType)
		switch m.Type {
		case "video":
			vt = t
		case "audio":
			at = t
		}
	}
	if cd.Video != "" {
		want := "H264"
		if cd.Video == "hevc" {
			want = "H265"
		}
		if vt == nil || vt.encoding != want {
			return pbt.V("rtsp/sdp-missing-track", "%s: session description has no %s video track for the published video; sdp=%q", who, want, sdp)
		}
	}
	if cd.Audio != "" {
		want := map[string]string{"aac": "MPEG4-GENERIC", "opus": "OPUS", "g711a": "PCMA", "g711u": "PCMU"}[cd.Audio]
		if at == nil || at.encoding != want {
			return pbt.V("rtsp/sdp-missing-track", "%s: session description has no %s audio track for the published audio; sdp=%q", who, want, sdp)
		}
	}
	// the clock rate is the codec's, not whatever the session description says
	for _, t := range []*rtspTrack{vt, at} {
		if t == nil || (t.media == "video" && cd.Video == "") || (t.media == "audio" && cd.Audio == "") {
			continue
		}
		want, err := expectedClock(cd, t.media, pub.asc)
		if err != nil {
			harness("published AudioSpecificConfig % x: %v", pub.asc, err)
		}
		if t.clock != want {
			return pbt.V("rtsp/sdp-clock-rate", "%s: session description announces %s/%d for the %s track, the codec's RTP clock rate is %d; sdp=%q", who, t.encoding, t.clock, t.media, want, sdp)
		}
	}
	if udp {
		// RTP over UDP: a track that the session description announces and that has frames to deliver must not stay
		// silent; apart from that the consumer is judged only when no datagram went missing on the way (a gap in the
		// sequence numbers cannot be attributed to lal)
		for _, t := range []*rtspTrack{vt, at} {
			if t == nil {
				continue
			}
			n := 0
			for _, f := range frames {
				if f.Channel == t.channel {
					n++
				}
			}
			if n == 0 {
				return pbt.V("rtspu/track-silent", "%s: no RTP datagram at all arrived for the %s track (%d datagrams on the other track)", who, t.media, len(frames))
			}
		}
		pbt.Count("rtspu-consumers", 1)
		if lost {
			pbt.Count("rtspu-inconclusive-datagram-loss", 1)
			return nil
		}
		for _, t := range []*rtspTrack{vt, at} {
			if t == nil {
				continue
			}
			var prev *rtpref.Packet
			for _, f := range frames {
				if f.Channel != t.channel {
					continue
				}
				p, err := rtpref.Parse(f.Payload)
				if err != nil {
					break // reported below
				}
				if prev != nil && p.Seq != prev.Seq+1 {
					pbt.Count("rtspu-inconclusive-datagram-loss", 1)
					return nil // lost or reordered datagram: inconclusive
				}
				prev = p
			}
		}
	}
	flatR := pub.flatVideo("rtsp")
	bound := pub.rtspBound(attach, flatR)
	collect := func(t *rtspTrack) ([]*rtpref.Packet, *pbt.Violation) {
		var pk []*rtpref.Packet
		for _, f := range frames {
			if f.Channel != t.channel {
				continue
			}
			p, err := rtpref.Parse(f.Payload)
			if err != nil {
				return nil, pbt.V("rtsp/rtp-unparseable", "%s: %s track: interleaved frame of %d bytes: %v", who, t.media, len(f.Payload), err)
			}
			if int(p.PT) != t.pt {
				return nil, pbt.V("rtsp/rtp-payload-type", "%s: %s track: packet with payload type %d on channel %d, session description says %d", who, t.media, p.PT, t.channel, t.pt)
			}
			pk = append(pk, p)
		}
		return pk, nil
	}

	if cd.Video != "" {
		pk, v := collect(vt)
		if v != nil {
			return v
		}
		codec := rtpref.H264
		if cd.Video == "hevc" {
			codec = rtpref.H265
		}
		units, err := rtpref.Depacketize(rtpref.NewDepacketizer(codec), pk)
		if err != nil {
			return pbt.V("rtsp/video/depacketize", "%s: after %d units: %v", who, len(units), err)
		}
		flat := flatR
		var recv [][]byte
		var rts []uint32
		for _, u := range units {
			if keepNal(cd.Video, "rtsp", u.Data) {
				recv = append(recv, u.Data)
				rts = append(rts, u.TS)
			}
		}
		off, v := compareVideo("rtsp", who, pub, flat, recv)
		if v != nil {
			return v
		}
		if off > bound.maxVOff {
			return pbt.V("rtsp/started-late", "%s: video starts at published unit #%d, but it must have started by unit #%d (%s): the %d units in between are missing",
				who, off, bound.maxVOff, bound.why, off-bound.maxVOff)
		}
		for i := range recv {
			fr := pub.video[flat[off+i].frame]
			want := rtpWant(fr.ts, vt.clock)
			if !rtpref.TSWithinOneTick(rts[i], want) {
				return pbt.V("rtsp/video/rtp-timestamp", "%s: NAL unit of the frame published at item %d (ts %d ms): RTP timestamp %d, want %d (= ts*%d/1000 mod 2^32) within one tick (difference %d)",
					who, fr.item, fr.ts, rts[i], want, vt.clock, int32(rts[i]-want))
			}
		}
	}
	if cd.Audio != "" {
		pk, v := collect(at)
		if v != nil {
			return v
		}
		var d rtpref.Depacketizer
		switch cd.Audio {
		case "aac":
			ad := rtpref.NewAACDepacketizer()
			for k, dst := range map[string]*int{"sizelength": &ad.Cfg.SizeLength, "indexlength": &ad.Cfg.IndexLength, "indexdeltalength": &ad.Cfg.IndexDeltaLength} {
				if s, ok := at.fmtp[k]; ok {
					if n, err := strconv.Atoi(s); err == nil && n >= 0 && n <= 32 {
						*dst = n
					}
				}
			}
			d = ad
		default:
			d = rtpref.RawDepacketizer{}
		}
		units, err := rtpref.Depacketize(d, pk)
		if err != nil {
			return pbt.V("rtsp/audio/depacketize", "%s: after %d frames: %v", who, len(units), err)
		}
		var recv [][]byte
		for _, u := range units {
			recv = append(recv, u.Data)
		}
		off, v := compareAudio("rtsp", who, pub, recv)
		if v != nil {
			return v
		}
		if off > bound.maxAOff {
			return pbt.V("rtsp/started-late", "%s: audio starts at published frame #%d, but it must have started by frame #%d (%s): the %d frames in between are missing",
				who, off, bound.maxAOff, bound.why, off-bound.maxAOff)
		}
		for i, u := range units {
			want := pub.audio[off+i]
			w := rtpWant(want.ts, at.clock)
			if !rtpref.TSWithinOneTick(u.TS, w) {
				return pbt.V("rtsp/audio/rtp-timestamp", "%s: audio frame published at item %d (ts %d ms): RTP timestamp %d, want %d (= ts*%d/1000 mod 2^32) within one tick (difference %d)",
					who, want.item, want.ts, u.TS, w, at.clock, int32(u.TS-w))
			}
		}
	}
	return nil
}
