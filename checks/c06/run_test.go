package c06

import (
	"bytes"
	"fmt"
	"net"
	"os"
	"path/filepath"
	"strings"
	"sync"
	"time"

	"github.com/q191201771/lal/pkg/httpts"
	"github.com/q191201771/lal/pkg/rtsp"

	"verif/drv/pbt"
	"verif/gen"
	"verif/harness/inproc"
	"verif/harness/lalclient"
	"verif/harness/memconn"
	"verif/ref/rtspref"
	"verif/ref/tsref"
)

func init() {
	// "The consumer's transport is not back-pressured" is a premise of the property: one 300 KiB NAL unit becomes
	// ~260 RTP packets queued in one burst, so the per-session write queues (1024 entries, drop when full) are made
	// large enough that the asynchronous writer can never lose the race against the publisher.
	rtsp.VerifSetCommandSessionWriteChanSize(1 << 16)
	httpts.SubSessionWriteChanSize = 1 << 14
}

const (
	streamName = "c06"
	rtspURI    = "rtsp://127.0.0.1:5544/live/" + streamName
	waitGuard  = 8 * time.Second
)

// ---------------------------------------------------------------------------
// what was published, in the form the oracles need

type pubVideo struct {
	item int // index into the published item list
	ts   uint32
	cts  uint32
	nals [][]byte
}

type pubAudio struct {
	item int
	ts   uint32
	data []byte
	asc  []byte // AAC: the AudioSpecificConfig in force when the frame was published
}

type published struct {
	cd    gen.Codecs
	items []gen.Item
	wrap  bool   // the 32-bit RTMP timestamp rolls over inside the case
	asc   []byte // the AudioSpecificConfig as published (2 or more bytes)
	video []pubVideo
	audio []pubAudio
}

func buildPublished(cd gen.Codecs, all []gen.Item, ascExt int) *published {
	p := &published{cd: cd, items: all, asc: ascBytes(cd, ascExt)}
	cur := p.asc
	for i, it := range all {
		switch it.Kind {
		case "ash":
			cur = ascFor(cd, ascExt, it.Variant)
		case "video":
			v := pubVideo{item: i, ts: it.Ts, cts: it.Cts}
			for _, n := range it.Nals {
				v.nals = append(v.nals, n.Bytes())
			}
			p.video = append(p.video, v)
		case "audio":
			pl := it.Payload(cd)
			skip := 1 // sound-format byte (G.711, and lal's own convention for Opus: see remux/avpacket2rtmp.go)
			if cd.Audio == "aac" {
				skip = 2 // + AACPacketType
			}
			if len(pl) <= skip {
				continue // an AAC raw message without data is not a frame
			}
			p.audio = append(p.audio, pubAudio{item: i, ts: it.Ts, data: pl[skip:], asc: cur})
		}
	}
	return p
}

// keepNal implements "differences being confined to access-unit delimiters,
// parameter sets re-inserted before key frames and H.265 SEI omitted from TS":
// those unit types are removed from both sides before comparing.
//
// RTSP leg: only access-unit delimiters are removed — in-band parameter sets
// and SEI travel as ordinary units and must arrive.  TS legs: lal lifts
// parameter sets out of the frames and re-inserts the ones in force before key
// frames, so they are removed here and judged separately (checkTs: the sets in
// front of every key frame must be the latest in force).
func keepNal(codec string, leg string, nal []byte) bool {
	if len(nal) == 0 {
		return false
	}
	t := nalType(codec, nal)
	if codec == "hevc" {
		switch t {
		case 35:
			return false
		case 32, 33, 34, 39, 40:
			return leg == "rtsp"
		}
		return true
	}
	switch t {
	case 9:
		return false
	case 7, 8:
		return leg == "rtsp"
	}
	return true
}

func isParamSet(codec string, nal []byte) bool {
	t := nalType(codec, nal)
	if codec == "hevc" {
		return t >= 32 && t <= 34
	}
	return t == 7 || t == 8
}

// isIrap: IDR slice (H.264) / IRAP picture slice (H.265).
func isIrap(codec string, nal []byte) bool {
	t := nalType(codec, nal)
	if codec == "hevc" {
		return t >= 16 && t <= 23
	}
	return t == 5
}

// opensRtspStream: the unit types at which lal lets a waiting RTSP subscriber
// start (documented out_wait_key_frame behaviour: key frame or parameter set).
func opensRtspStream(codec string, nal []byte) bool {
	return isIrap(codec, nal) || isParamSet(codec, nal)
}

type flatNal struct {
	frame int // index into published.video
	data  []byte
}

func (p *published) flatVideo(leg string) []flatNal {
	var out []flatNal
	for fi, v := range p.video {
		for _, n := range v.nals {
			if keepNal(p.cd.Video, leg, n) {
				out = append(out, flatNal{frame: fi, data: n})
			}
		}
	}
	return out
}

// ---------------------------------------------------------------------------
// model of when lal's RTMP->RTSP remuxer can answer DESCRIBE (only used to decide
// when the harness may block on the response; a wrong model shows up as a
// harness error, never as a violation)

func sdpReadyAfter(cd gen.Codecs, all []gen.Item) int {
	vsh, ash, audioKnown := false, false, false
	cached := 0
	for i, it := range all {
		switch it.Kind {
		case "vsh":
			vsh = true
		case "ash":
			ash = true
		case "audio":
			// (lal used to ignore every audio message of <= 2 bytes, also G.711 / Opus ones; counting those as
			// ignored can only make this point later, which is always safe)
			if len(it.Payload(cd)) <= 2 {
				continue
			}
			if cd.Audio != "aac" {
				audioKnown = true
			}
			cached++
		case "video":
			if len(it.Payload(cd)) <= 5 {
				continue
			}
			cached++
		default:
			continue
		}
		if (vsh && (ash || audioKnown)) || cached >= 16 {
			return i + 1
		}
	}
	return -1
}

// ---------------------------------------------------------------------------
// RTSP consumer

type rtspCons struct {
	udp     bool           // RTP over UDP (real loopback sockets) instead of interleaved in the RTSP connection
	socks   []*net.UDPConn // udp: rtp, rtcp socket per track
	conn    *memconn.Conn
	cl      *rtspref.Client
	sdp     []byte
	stage   int // 0 nothing, 1 DESCRIBE sent, 2 playing
	mu      sync.Mutex
	cond    *sync.Cond
	frames  []rtspref.Frame
	eof     bool
	readErr error
}

func newRtspCons(s *inproc.Server) *rtspCons {
	r := &rtspCons{conn: s.RtspConn()}
	r.cl = rtspref.NewClient(r.conn)
	r.cond = sync.NewCond(&r.mu)
	return r
}

// describe sends OPTIONS (answered at once) and DESCRIBE (answered once lal has an SDP).
func (r *rtspCons) describe() error {
	_ = r.conn.SetReadDeadline(time.Now().Add(waitGuard))
	resp, err := r.cl.Do("OPTIONS", rtspURI, nil, nil)
	if err != nil {
		return fmt.Errorf("OPTIONS: %v", err)
	}
	if resp.Status != 200 {
		return fmt.Errorf("OPTIONS: status %d", resp.Status)
	}
	if _, err := r.cl.WriteRequest("DESCRIBE", rtspURI, map[string]string{"Accept": "application/sdp"}, nil); err != nil {
		return fmt.Errorf("DESCRIBE: %v", err)
	}
	r.conn.WaitPeerIdle(lalclient.IdleTimeout)
	r.stage = 1
	return nil
}

// play reads the DESCRIBE response, performs SETUP (interleaved) for every media section and PLAY.
func (r *rtspCons) play() error {
	_ = r.conn.SetReadDeadline(time.Now().Add(waitGuard))
	resp, err := r.cl.ReadResponse()
	if err != nil {
		return fmt.Errorf("DESCRIBE response: %v", err)
	}
	if resp.Status != 200 {
		return fmt.Errorf("DESCRIBE: status %d", resp.Status)
	}
	r.sdp = resp.Body
	ctl := rtspref.SdpControls(resp.Body)
	if len(ctl) == 0 {
		return fmt.Errorf("DESCRIBE: session description without media control attributes: %q", resp.Body)
	}
	if r.udp {
		if err := r.setupPlayUDP(ctl); err != nil {
			return err
		}
		_ = r.conn.SetReadDeadline(time.Time{})
		r.conn.WaitPeerIdle(lalclient.IdleTimeout)
		r.stage = 2
		return nil
	}
	if err := r.cl.SetupPlay(rtspURI, ctl); err != nil {
		return err
	}
	_ = r.conn.SetReadDeadline(time.Time{})
	r.conn.WaitPeerIdle(lalclient.IdleTimeout) // PLAY has been processed: the session is attached
	r.stage = 2
	go func() {
		for {
			f, err := r.cl.ReadFrame()
			r.mu.Lock()
			if err != nil {
				r.eof = true
				r.readErr = err
				r.cond.Broadcast()
				r.mu.Unlock()
				return
			}
			r.frames = append(r.frames, f)
			r.cond.Broadcast()
			r.mu.Unlock()
		}
	}()
	return nil
}

// setupPlayUDP: SETUP with client_port for every media section (lal binds a port pair of its own and sends RTP to
// ours), then PLAY.  Datagrams of track i are recorded as frames of "channel" 2i so that the oracle is shared with
// the interleaved consumer.
func (r *rtspCons) setupPlayUDP(ctl []string) error {
	for i, c := range ctl {
		var pair [2]*net.UDPConn
		for k := range pair {
			u, err := net.ListenUDP("udp4", &net.UDPAddr{IP: net.IPv4(127, 0, 0, 1)})
			if err != nil {
				harness("udp socket: %v", err)
			}
			_ = u.SetReadBuffer(4 << 20)
			pair[k] = u
			r.socks = append(r.socks, u)
		}
		u := c
		if !strings.HasPrefix(c, "rtsp://") {
			u = rtspURI + "/" + c
		}
		tr := fmt.Sprintf("RTP/AVP/UDP;unicast;client_port=%d-%d", pair[0].LocalAddr().(*net.UDPAddr).Port, pair[1].LocalAddr().(*net.UDPAddr).Port)
		resp, err := r.cl.Do("SETUP", u, map[string]string{"Transport": tr}, nil)
		if err != nil {
			return fmt.Errorf("SETUP (udp): %v", err)
		}
		if resp.Status != 200 {
			return fmt.Errorf("SETUP (udp): status %d", resp.Status)
		}
		ch := 2 * i
		go func(rtp *net.UDPConn) {
			buf := make([]byte, 65536)
			for {
				n, _, err := rtp.ReadFromUDP(buf)
				if err != nil {
					return
				}
				r.mu.Lock()
				r.frames = append(r.frames, rtspref.Frame{Channel: ch, Payload: append([]byte(nil), buf[:n]...)})
				r.cond.Broadcast()
				r.mu.Unlock()
			}
		}(pair[0])
		go func(rtcp *net.UDPConn) {
			buf := make([]byte, 2048)
			for {
				if _, _, err := rtcp.ReadFromUDP(buf); err != nil {
					return
				}
			}
		}(pair[1])
	}
	resp, err := r.cl.Do("PLAY", rtspURI, map[string]string{"Range": "npt=0.000-"}, nil)
	if err != nil {
		return fmt.Errorf("PLAY: %v", err)
	}
	if resp.Status != 200 {
		return fmt.Errorf("PLAY: status %d", resp.Status)
	}
	return nil
}

func (r *rtspCons) closeUDP() {
	for _, u := range r.socks {
		_ = u.Close()
	}
}

func (r *rtspCons) waitFor(pred func(rtspref.Frame) bool, timeout time.Duration) bool {
	deadline := time.Now().Add(timeout)
	t := time.AfterFunc(timeout, func() { r.mu.Lock(); r.cond.Broadcast(); r.mu.Unlock() })
	defer t.Stop()
	r.mu.Lock()
	defer r.mu.Unlock()
	next := 0
	for {
		for ; next < len(r.frames); next++ {
			if pred(r.frames[next]) {
				return true
			}
		}
		if r.eof || !time.Now().Before(deadline) {
			return false
		}
		r.cond.Wait()
	}
}

func (r *rtspCons) snapshot() []rtspref.Frame {
	r.mu.Lock()
	defer r.mu.Unlock()
	return append([]rtspref.Frame(nil), r.frames...)
}

// ---------------------------------------------------------------------------

// tsTailHas demuxes the last packets received so far and looks for needle
// inside a reassembled PES payload (the end markers are small, so they always
// lie within the tail that is examined).
func tsTailHas(body []byte, needles [][]byte) bool {
	n := len(body) / 188
	if n == 0 {
		return false
	}
	from := 0
	if n > 600 {
		from = n - 600
	}
	res, err := tsref.Demux(body[from*188:n*188], tsref.Options{})
	if err != nil || res == nil {
		return false
	}
	for _, needle := range needles {
		found := false
		for _, p := range res.PES {
			if bytes.Contains(p.Payload, needle) {
				found = true
				break
			}
		}
		if !found {
			return false
		}
	}
	return true
}

func harness(format string, a ...interface{}) {
	panic(pbt.HarnessError{Msg: fmt.Sprintf(format, a...)})
}

type consState struct {
	spec Cons
	lost bool // rtspu: datagrams went missing on the loopback path; the consumer is not judged
	ts   *lalclient.TsConsumer
	rt   *rtspCons
}

func run(c Case) *pbt.Violation {
	cd := c.Codecs
	all := append(append([]gen.Item(nil), c.Items...), tailItems(cd, c.Items, c.Wrap)...)
	pub := buildPublished(cd, all, c.AscExt)
	pub.wrap = c.Wrap
	ready := sdpReadyAfter(cd, all)
	if ready < 0 {
		harness("model: the session description never becomes available")
	}

	s := inproc.New(inproc.Config{Hls: tsCarries(cd), HlsFragmentMs: c.HlsFragMs, HlsFragmentNum: 3, HlsCleanupMode: 0, TsGopNum: c.TsGop})
	defer s.Close()

	cons := make([]*consState, len(c.Cons))
	for i, k := range c.Cons {
		cons[i] = &consState{spec: k}
	}
	defer func() {
		for _, cs := range cons {
			if cs.rt != nil {
				cs.rt.closeUDP()
			}
		}
	}()
	// act performs what is scheduled at position k (= after all[0..k) were processed; -1 = before the publisher)
	needAct := func(k int) bool {
		for _, cs := range cons {
			if cs.spec.JoinAt == k {
				return true
			}
			if isRtsp(cs.spec.Kind) && k >= 0 && k == maxInt(cs.spec.JoinAt, ready) {
				return true
			}
		}
		return false
	}
	act := func(k int) *pbt.Violation {
		for i, cs := range cons {
			if cs.spec.JoinAt == k {
				switch cs.spec.Kind {
				case "ts":
					cs.ts = lalclient.NewTsSub(s, "live", streamName)
				case "rtsp", "rtspu":
					cs.rt = newRtspCons(s)
					cs.rt.udp = cs.spec.Kind == "rtspu"
					if err := cs.rt.describe(); err != nil {
						if v := s.PanicViolation(); v != nil {
							return v
						}
						return pbt.V("rtsp/handshake-failed", "consumer %d (join_at %d): %v", i, k, err)
					}
				}
			}
			if isRtsp(cs.spec.Kind) && k >= 0 && k == maxInt(cs.spec.JoinAt, ready) {
				if err := cs.rt.play(); err != nil {
					if v := s.PanicViolation(); v != nil {
						return v
					}
					if strings.Contains(err.Error(), "DESCRIBE response") {
						harness("consumer %d: no DESCRIBE response at position %d although the model says the SDP exists after %d messages: %v", i, k, ready, err)
					}
					return pbt.V("rtsp/handshake-failed", "consumer %d (join_at %d, completed at %d): %v", i, cs.spec.JoinAt, k, err)
				}
			}
		}
		return nil
	}

	if needAct(-1) {
		if v := act(-1); v != nil {
			return v
		}
	}
	p := lalclient.NewPublisher(s, "live", streamName, c.Chunk)
	if p.Err != nil {
		if v := s.PanicViolation(); v != nil {
			return v
		}
		harness("publisher refused: %v", p.Err)
	}
	for k := 0; k <= len(all); k++ {
		if needAct(k) {
			if !p.WaitIdle() {
				harness("publisher not drained at position %d", k)
			}
			if v := s.PanicViolation(); v != nil {
				return v
			}
			if v := act(k); v != nil {
				return v
			}
		}
		if k < len(all) {
			var err error
			if all[k].Kind == "ash" {
				err = p.Send(gen.TypeAudio, all[k].Ts, append([]byte{0xAF, 0}, ascFor(cd, c.AscExt, all[k].Variant)...), 0)
			} else {
				err = p.SendItem(all[k], cd, 0)
			}
			if err != nil {
				if v := s.PanicViolation(); v != nil {
					return v
				}
				return pbt.V("publisher-disconnected", "item %d (%s): %v", k, all[k].Kind, err)
			}
		}
	}
	if !p.WaitIdle() {
		harness("publisher not drained at the end")
	}
	if v := s.PanicViolation(); v != nil {
		return v
	}
	if p.Conn.PeerGone() {
		return pbt.V("publisher-disconnected", "lal closed the publisher's connection before the end of the stream")
	}
	// the publisher leaves: lal flushes the pending AAC batch and closes the last HLS segment
	p.Close()
	if !p.Conn.WaitPeerDone(lalclient.IdleTimeout) {
		harness("publisher teardown did not finish")
	}
	if v := s.PanicViolation(); v != nil {
		return v
	}

	// end markers: the last frame of each track
	var lastV, lastA []byte
	if n := len(pub.video); n > 0 {
		lastV = pub.video[n-1].nals[0]
	}
	if n := len(pub.audio); n > 0 {
		lastA = pub.audio[n-1].data
	}
	for i, cs := range cons {
		who := fmt.Sprintf("consumer %d (%s, join_at %d of %d items, codecs %s)", i, cs.spec.Kind, cs.spec.JoinAt, len(c.Items), codecPair(cd))
		switch cs.spec.Kind {
		case "ts":
			var needles [][]byte
			if lastV != nil {
				needles = append(needles, lastV)
			}
			if lastA != nil && tsCarriesAudio(cd) {
				needles = append(needles, lastA)
			}
			if !cs.ts.WaitPred(func(body []byte) bool { return tsTailHas(body, needles) }, waitGuard) {
				if v := s.PanicViolation(); v != nil {
					return v
				}
				body := cs.ts.Body()
				if len(body) <= 2*188 {
					return pbt.V("never-started/ts", "%s received %d bytes although the tail of the stream holds a start point (audio frame, key frame 1 ms later) followed by more frames", who, len(body))
				}
				return pbt.V("end-missing/ts", "%s received %d bytes but not the last frame of every track (video %v, audio %v)", who, len(body),
					lastV != nil && tsTailHas(body, [][]byte{lastV}), lastA != nil && tsCarriesAudio(cd) && tsTailHas(body, [][]byte{lastA}))
			}
		case "rtsp", "rtspu":
			for _, needle := range [][]byte{lastV, lastA} {
				if needle == nil {
					continue
				}
				nd := needle
				guard := waitGuard
				if cs.rt.udp {
					guard = 2 * time.Second
				}
				if !cs.rt.waitFor(func(f rtspref.Frame) bool { return f.Channel%2 == 0 && bytes.Contains(f.Payload, nd) }, guard) {
					if cs.rt.udp {
						// UDP gives no delivery guarantee, not even on loopback under load: a missing end marker makes the
						// consumer inconclusive, unless a whole track stayed silent (see checkRtsp)
						cs.lost = true
						continue
					}
					if v := s.PanicViolation(); v != nil {
						return v
					}
					fr := cs.rt.snapshot()
					if len(fr) == 0 {
						return pbt.V("never-started/rtsp", "%s received no RTP packet although the tail of the stream holds a key frame (after the session description exists) followed by more frames", who)
					}
					return pbt.V("end-missing/rtsp", "%s received %d interleaved frames but not the last frame of every track (missing unit of %d bytes)", who, len(fr), len(nd))
				}
			}
		}
	}

	// judge
	for i, cs := range cons {
		who := fmt.Sprintf("consumer %d (%s, join_at %d of %d items, codecs %s)", i, cs.spec.Kind, cs.spec.JoinAt, len(c.Items), codecPair(cd))
		switch cs.spec.Kind {
		case "ts":
			if v := checkTs(who, "ts", cs.ts.Body(), pub, cs.spec.JoinAt); v != nil {
				return v
			}
		case "rtsp", "rtspu":
			if v := checkRtsp(who, cs.rt.sdp, cs.rt.snapshot(), pub, maxInt(cs.spec.JoinAt, ready), cs.rt.udp, cs.lost); v != nil {
				return v
			}
		}
	}
	if tsCarries(cd) {
		body, nseg, err := readHls(filepath.Join(s.Dir, "hls", streamName))
		who := fmt.Sprintf("hls (%d segments, fragment %d ms, codecs %s)", nseg, c.HlsFragMs, codecPair(cd))
		if err != nil {
			return pbt.V("hls/unreadable", "%s: %v", who, err)
		}
		if nseg == 0 {
			return pbt.V("never-started/hls", "%s: no segment was written although the tail of the stream holds a start point (audio frame, key frame 1 ms later) followed by more frames", who)
		}
		var needles [][]byte
		if lastV != nil {
			needles = append(needles, lastV)
		}
		if lastA != nil && tsCarriesAudio(cd) {
			needles = append(needles, lastA)
		}
		if !tsTailHas(body, needles) {
			return pbt.V("end-missing/hls", "%s: the segments (%d bytes) do not hold the last frame of every track", who, len(body))
		}
		if v := checkTs(who, "hls", body, pub, 0); v != nil {
			return v
		}
	}
	return nil
}

func isRtsp(kind string) bool { return kind == "rtsp" || kind == "rtspu" }

func maxInt(a, b int) int {
	if a > b {
		return a
	}
	return b
}

// readHls concatenates the segment files in the order of the record playlist
// (which lists every segment ever made, in media-sequence order).
func readHls(dir string) (body []byte, nseg int, err error) {
	pl, err := os.ReadFile(filepath.Join(dir, "record.m3u8"))
	if err != nil {
		if os.IsNotExist(err) {
			return nil, 0, nil
		}
		return nil, 0, err
	}
	seen := map[string]bool{}
	for _, l := range strings.Split(string(pl), "\n") {
		l = strings.TrimSpace(l)
		if l == "" || strings.HasPrefix(l, "#") {
			continue
		}
		if seen[l] {
			return nil, nseg, fmt.Errorf("segment %s listed twice in record.m3u8", l)
		}
		seen[l] = true
		b, err := os.ReadFile(filepath.Join(dir, filepath.Base(l)))
		if err != nil {
			return nil, nseg, fmt.Errorf("segment %s listed in record.m3u8: %v", l, err)
		}
		body = append(body, b...)
		nseg++
	}
	return body, nseg, nil
}
