// Package gen holds generators shared by the checks.
package gen

// Bytes returns n deterministic pseudo-random bytes derived from seed
// (xorshift32), so that cases stay small in their JSON form.
func Bytes(seed uint32, n int) []byte {
	x := seed*2654435761 + 0x9E3779B9
	if x == 0 {
		x = 1
	}
	out := make([]byte, n)
	for i := 0; i < n; i++ {
		x ^= x << 13
		x ^= x >> 17
		x ^= x << 5
		out[i] = byte(x >> 11)
	}
	return out
}
