package gen

import (
	"encoding/binary"
	"fmt"

	"pgregory.net/rapid"
)

// Elementary-stream generator (ESG) shared by the server-level checks.
//
// A published stream is a list of Items (metadata, sequence headers, video
// access units, audio frames) that can be rendered as RTMP message payloads
// (FLV tag bodies).  NAL units carry a unique serial and random RBSP bytes with
// emulation prevention applied and a non-zero last byte, so that no start code
// can occur inside a unit and Annex-B splitting is unambiguous.

// ---- NAL units ------------------------------------------------------------

// NalSpec describes one NAL unit compactly: header bytes (1 for AVC, 2 for
// HEVC), body length and a seed for the body.
type NalSpec struct {
	Hdr    []byte `json:"hdr"`
	Len    int    `json:"len"` // body bytes after the header
	Seed   uint32 `json:"seed"`
	Serial uint32 `json:"serial"`
}

// Bytes renders the unit: header, 4-byte serial (all bytes non-zero) when the
// body has room for it, then pseudo-random bytes free of 00 00 0x patterns,
// ending in a non-zero byte.
func (n NalSpec) Bytes() []byte {
	out := make([]byte, 0, len(n.Hdr)+n.Len)
	out = append(out, n.Hdr...)
	body := Bytes(n.Seed^0x5bd1e995, n.Len)
	for i := range body {
		if body[i] < 4 {
			body[i] += 4 // no byte in 0..3 => no start code / emulation pattern can form
		}
	}
	// sprinkle legal emulation-prevention sequences (00 00 03 xx) when there is room
	if n.Len >= 24 && n.Seed%3 == 0 {
		p := 8 + int(n.Seed%uint32(n.Len-16))
		if p+4 < n.Len {
			body[p], body[p+1], body[p+2], body[p+3] = 0, 0, 3, 1+byte(n.Seed%3)
		}
	}
	if n.Len >= 5 {
		s := n.Serial
		for i := 0; i < 4; i++ {
			body[i] = byte(s%251) + 4
			s /= 251
		}
	}
	return append(out, body...)
}

// ---- parameter sets --------------------------------------------------------

// Real parameter sets (from encoder output) so that lal's SPS parsers accept them.
var avcSpsVariants = [][]byte{
	{0x67, 0x64, 0x00, 0x20, 0xAC, 0xD9, 0x40, 0xC0, 0x29, 0xB0, 0x11, 0x00, 0x00, 0x03, 0x00, 0x01, 0x00, 0x00, 0x03, 0x00, 0x32, 0x0F, 0x18, 0x31, 0x96},
	{0x27, 0x64, 0x00, 0x1F, 0xAC, 0x56, 0x80, 0xB4, 0x0A, 0x19},
	{0x67, 0x64, 0x00, 0x20, 0xAC, 0xD9, 0x40, 0xC0, 0x29, 0xB0, 0x11, 0x00, 0x00, 0x03, 0x00, 0x01, 0x00, 0x00, 0x03, 0x00, 0x32, 0x0F, 0x18, 0x31, 0x96},
}
var avcPpsVariants = [][]byte{
	{0x68, 0xEB, 0xEC, 0xB2, 0x2C},
	{0x28, 0xEE, 0x3C, 0xB0},
	{0x68, 0xCE, 0x3C, 0x80},
}

var hevcVps = []byte{0x40, 0x01, 0x0c, 0x01, 0xff, 0xff, 0x01, 0x60, 0x00, 0x00, 0x03, 0x00, 0x90, 0x00, 0x00, 0x03, 0x00, 0x00, 0x03, 0x00, 0x3f, 0xba, 0x02, 0x40}
var hevcSps = []byte{0x42, 0x01, 0x01, 0x01, 0x60, 0x00, 0x00, 0x03, 0x00, 0x90, 0x00, 0x00, 0x03, 0x00, 0x00, 0x03, 0x00, 0x3f, 0xa0, 0x05, 0x02, 0x01, 0x71, 0xf2, 0xe5, 0xba, 0x4a, 0x4c, 0x2f, 0x01, 0x01, 0x00, 0x00, 0x03, 0x00, 0x01, 0x00, 0x00, 0x03, 0x00, 0x0f, 0x08}
var hevcPpsVariants = [][]byte{
	{0x44, 0x01, 0xc0, 0x73, 0xc1, 0x89},
	{0x44, 0x01, 0xc1, 0x72, 0xb4, 0x62, 0x40},
	{0x44, 0x01, 0xc0, 0xf7, 0xc0, 0xcc, 0x90},
}

// ParamSets returns (vps, sps, pps) of variant v for codec ("avc" | "hevc");
// vps is nil for avc.  Variants differ in content so that a header change is
// observable.
func ParamSets(codec string, v int) (vps, sps, pps []byte) {
	if v < 0 {
		v = -v
	}
	if codec == "hevc" {
		return hevcVps, hevcSps, hevcPpsVariants[v%len(hevcPpsVariants)]
	}
	return nil, avcSpsVariants[v%len(avcSpsVariants)], avcPpsVariants[v%len(avcPpsVariants)]
}

// AvcSeqHeaderBody builds an AVCDecoderConfigurationRecord (ISO 14496-15).
func AvcSeqHeaderBody(sps, pps []byte) []byte {
	b := []byte{1, sps[1], sps[2], sps[3], 0xFF, 0xE1, byte(len(sps) >> 8), byte(len(sps))}
	b = append(b, sps...)
	b = append(b, 1, byte(len(pps)>>8), byte(len(pps)))
	return append(b, pps...)
}

// HevcSeqHeaderBody builds an HEVCDecoderConfigurationRecord with one array
// each for VPS, SPS and PPS.
func HevcSeqHeaderBody(vps, sps, pps []byte) []byte {
	b := make([]byte, 23)
	b[0] = 1
	b[1] = 0x01                             // profile space 0, tier 0, profile 1
	binary.BigEndian.PutUint32(b[2:], 0x60000000) // compatibility flags
	b[6], b[7], b[8], b[9], b[10], b[11] = 0x90, 0, 0, 0, 0, 0
	b[12] = 0x3f // level
	b[13], b[14] = 0xf0, 0x00
	b[15] = 0xfc
	b[16] = 0xfd // chroma 4:2:0
	b[17] = 0xf8
	b[18] = 0xf8
	b[19], b[20] = 0, 0
	b[21] = 0x0f // 1 temporal layer, nested, 4-byte lengths
	b[22] = 3
	for _, a := range []struct {
		t byte
		n []byte
	}{{32, vps}, {33, sps}, {34, pps}} {
		b = append(b, 0x80|a.t, 0, 1, byte(len(a.n)>>8), byte(len(a.n)))
		b = append(b, a.n...)
	}
	return b
}

// ---- audio configuration ----------------------------------------------------

// Asc builds a 2-byte AudioSpecificConfig.
func Asc(objectType, freqIndex, channels int) []byte {
	return []byte{byte(objectType<<3) | byte(freqIndex>>1), byte(freqIndex<<7) | byte(channels<<3)}
}

// AscVariant is the AudioSpecificConfig of "ash" item variant v: variant 0 is the stream's own
// configuration (Codecs), every other variant differs from it in sampling-frequency index and channel
// configuration (object type kept), so that a mid-stream configuration change is observable in the sequence
// header, in the ADTS headers a TS remuxer writes and in an SDP.
func AscVariant(c Codecs, v int) []byte {
	if v == 0 {
		return Asc(c.AscObj, c.AscFreq, c.AscChan)
	}
	if v < 0 {
		v = -v
	}
	freqs := []int{3, 4, 6, 8, 11}
	f := freqs[v%len(freqs)]
	if f == c.AscFreq {
		f = freqs[(v+1)%len(freqs)]
	}
	ch := 1 + (c.AscChan+v-1)%2 // 1 or 2
	if ch == c.AscChan {
		ch = 3 - ch
	}
	return Asc(c.AscObj, f, ch)
}

// FitPayloadLen resizes the last NAL unit of a video item / the frame of an audio item so that
// len(it.Payload(c)) == target.  It reports false (item untouched) when the target is out of reach.
func FitPayloadLen(it *Item, c Codecs, target int) bool {
	cur := len(it.Payload(c))
	d := target - cur
	switch it.Kind {
	case "video":
		if len(it.Nals) == 0 {
			return false
		}
		n := &it.Nals[len(it.Nals)-1]
		if n.Len+d < 0 {
			return false
		}
		n.Len += d
	case "audio":
		if it.ALen+d < 1 {
			return false
		}
		it.ALen += d
	default:
		return false
	}
	if len(it.Payload(c)) != target {
		panic("gen: FitPayloadLen missed its target")
	}
	return true
}

// ---- stream items ------------------------------------------------------------

// Codecs of a stream.
type Codecs struct {
	Video    string `json:"video"`    // "" | "avc" | "hevc"
	Enhanced bool   `json:"enhanced"` // hevc carried with the enhanced-RTMP header ('hvc1')
	Audio    string `json:"audio"`    // "" | "aac" | "opus" | "g711a" | "g711u"
	AscObj   int    `json:"asc_obj"`  // AAC object type (1..4)
	AscFreq  int    `json:"asc_freq"` // sampling frequency index 0..12
	AscChan  int    `json:"asc_chan"` // channel configuration 1..7
}

// Item is one published message.
type Item struct {
	Kind string `json:"kind"` // "meta" | "vsh" | "ash" | "video" | "audio" | "empty"
	Ts   uint32 `json:"ts"`
	// video
	Cts  uint32    `json:"cts,omitempty"`
	Key  bool      `json:"key,omitempty"`
	Nals []NalSpec `json:"nals,omitempty"`
	// audio
	ALen  int    `json:"alen,omitempty"`
	ASeed uint32 `json:"aseed,omitempty"`
	// headers
	Variant int  `json:"variant,omitempty"` // parameter-set / metadata variant
	Sdf     bool `json:"sdf,omitempty"`     // metadata carries the leading @setDataFrame string
	// empty: zero-length message of this type id
	EmptyType uint8 `json:"empty_type,omitempty"`
}

const (
	TypeAudio = 8
	TypeVideo = 9
	TypeData  = 18
)

// TypeID returns the RTMP message type id of the item.
func (it Item) TypeID() uint8 {
	switch it.Kind {
	case "meta":
		return TypeData
	case "vsh", "video":
		return TypeVideo
	case "ash", "audio":
		return TypeAudio
	case "empty":
		return it.EmptyType
	}
	panic("gen: bad item kind " + it.Kind)
}

func amfStr(s string) []byte {
	return append([]byte{2, byte(len(s) >> 8), byte(len(s))}, s...)
}

func amfNum(f uint64) []byte {
	b := make([]byte, 9)
	binary.BigEndian.PutUint64(b[1:], f)
	return b
}

// MetaBody returns the metadata payload WITHOUT the @setDataFrame prefix.
func MetaBody(variant int) []byte {
	b := amfStr("onMetaData")
	b = append(b, 8, 0, 0, 0, 3) // ECMA array, 3 entries
	add := func(k string, v []byte) {
		b = append(b, byte(len(k)>>8), byte(len(k)))
		b = append(b, k...)
		b = append(b, v...)
	}
	add("width", amfNum(0x4084000000000000+uint64(variant)<<32))
	add("height", amfNum(0x4076800000000000))
	add("encoder", amfStr(fmt.Sprintf("verif-esg-%d", variant)))
	return append(b, 0, 0, 9)
}

// SdfPrefix is the AMF0 string "@setDataFrame".
var SdfPrefix = amfStr("@setDataFrame")

// Payload renders the RTMP message payload of the item.
func (it Item) Payload(c Codecs) []byte {
	switch it.Kind {
	case "empty":
		return nil
	case "meta":
		b := MetaBody(it.Variant)
		if it.Sdf {
			return append(append([]byte{}, SdfPrefix...), b...)
		}
		return b
	case "vsh":
		vps, sps, pps := ParamSets(c.Video, it.Variant)
		if c.Video == "hevc" {
			body := HevcSeqHeaderBody(vps, sps, pps)
			if c.Enhanced {
				return append([]byte{0x80 | 1<<4 | 0, 'h', 'v', 'c', '1'}, body...)
			}
			return append([]byte{0x1c, 0, 0, 0, 0}, body...)
		}
		return append([]byte{0x17, 0, 0, 0, 0}, AvcSeqHeaderBody(sps, pps)...)
	case "video":
		var b []byte
		ft := byte(2)
		if it.Key {
			ft = 1
		}
		switch {
		case c.Video == "hevc" && c.Enhanced:
			if it.Cts == 0 && it.Variant%2 == 1 {
				b = []byte{0x80 | ft<<4 | 3, 'h', 'v', 'c', '1'} // CodedFramesX: no composition time
			} else {
				b = []byte{0x80 | ft<<4 | 1, 'h', 'v', 'c', '1', byte(it.Cts >> 16), byte(it.Cts >> 8), byte(it.Cts)}
			}
		case c.Video == "hevc":
			b = []byte{ft<<4 | 12, 1, byte(it.Cts >> 16), byte(it.Cts >> 8), byte(it.Cts)}
		default:
			b = []byte{ft<<4 | 7, 1, byte(it.Cts >> 16), byte(it.Cts >> 8), byte(it.Cts)}
		}
		for _, n := range it.Nals {
			nb := n.Bytes()
			b = append(b, byte(len(nb)>>24), byte(len(nb)>>16), byte(len(nb)>>8), byte(len(nb)))
			b = append(b, nb...)
		}
		return b
	case "ash":
		return append([]byte{0xAF, 0}, AscVariant(c, it.Variant)...)
	case "audio":
		body := Bytes(it.ASeed, it.ALen)
		if len(body) >= 4 {
			binary.BigEndian.PutUint32(body, it.ASeed)
		}
		switch c.Audio {
		case "aac":
			return append([]byte{0xAF, 1}, body...)
		case "opus":
			return append([]byte{0xDF, 1}, body...) // sound format 13; lal skips two bytes like AAC
		case "g711a":
			return append([]byte{0x72}, body...)
		case "g711u":
			return append([]byte{0x82}, body...)
		}
	}
	panic("gen: cannot render item kind " + it.Kind)
}

// ---- generators ---------------------------------------------------------------

// StreamOpts steers GenStream.
type StreamOpts struct {
	Video       []string // allowed video codecs; "" = none allowed as a choice
	Audio       []string
	MaxGops     int
	MaxGopLen   int
	MaxNalLen   int  // upper bound for the "big" class
	SizeEdges   []int // extra lengths to bias NAL / frame sizes toward (±2)
	AllowEmpty  bool // sprinkle zero-length messages
	HeaderChurn bool // sequence-header change mid-stream
	TsJumps     bool // forward/backward jumps and values >= 0xFFFFFF
	NoMeta      bool
	StartTs     *rapid.Generator[uint32]
	MultiNal    bool // several NAL units per frame incl. in-band parameter sets / SEI / AUD
	Cts         bool // non-zero composition offsets

	// ---- added after audit 1: every option below is off by default and draws nothing while off, so
	// callers that do not set it get exactly the streams they got before ----

	// MsgSizeEdges: a drawn share of the audio AND video messages is resized so that the length of the
	// whole message payload (not of a NAL unit) is e-1, e or e+1 for one of these values.
	MsgSizeEdges []int
	// MidMeta: metadata messages inside the stream (with / without @setDataFrame, repeated or new
	// content, timestamp 0 or current).
	MidMeta bool
	// MidHeaders: sequence headers re-sent inside the stream, also mid-GOP: the video sequence header with
	// unchanged content, the AAC sequence header unchanged or (AscChurn) with another configuration.
	MidHeaders bool
	// AscChurn: the AAC configuration may change mid-stream (Item.Variant != 0 on an "ash" item).
	AscChurn bool
	// TsBack: backward steps of the video and/or audio clock, a clock reset to 0, and start values right
	// below 2^32 so that the 32-bit timestamp wraps inside the stream.
	TsBack bool
}

// GenCodecs draws the codec configuration.
func GenCodecs(t *rapid.T, o StreamOpts) Codecs {
	var c Codecs
	v := o.Video
	if len(v) == 0 {
		v = []string{"avc", "avc", "hevc", ""}
	}
	a := o.Audio
	if len(a) == 0 {
		a = []string{"aac", "aac", ""}
	}
	c.Video = rapid.SampledFrom(v).Draw(t, "vcodec")
	c.Audio = rapid.SampledFrom(a).Draw(t, "acodec")
	if c.Video == "" && c.Audio == "" {
		c.Audio = "aac"
	}
	if c.Video == "hevc" {
		c.Enhanced = rapid.IntRange(0, 3).Draw(t, "enhanced") == 0
	}
	if c.Audio == "aac" {
		c.AscObj = rapid.SampledFrom([]int{2, 2, 2, 1, 3, 4}).Draw(t, "ascObj")
		c.AscFreq = rapid.SampledFrom([]int{4, 3, 4, 0, 6, 8, 11, 12}).Draw(t, "ascFreq")
		c.AscChan = rapid.SampledFrom([]int{2, 1, 2, 6, 7}).Draw(t, "ascChan")
	}
	return c
}

func nalHdr(t *rapid.T, codec string, key bool) []byte {
	if codec == "hevc" {
		var typ int
		if key {
			typ = rapid.SampledFrom([]int{19, 20, 21, 16, 17, 18}).Draw(t, "irapType")
		} else {
			typ = rapid.SampledFrom([]int{1, 0, 1, 2, 3, 4, 5, 6, 7, 8, 9}).Draw(t, "sliceType")
		}
		layer := 0
		tid := rapid.IntRange(1, 7).Draw(t, "tid")
		if rapid.IntRange(0, 7).Draw(t, "layerNonZero") == 0 {
			layer = rapid.IntRange(1, 63).Draw(t, "layer")
		}
		return []byte{byte(typ<<1) | byte(layer>>5), byte(layer<<3) | byte(tid)}
	}
	nri := rapid.IntRange(1, 3).Draw(t, "nri")
	typ := 1
	if key {
		typ = 5
	} else if rapid.IntRange(0, 9).Draw(t, "dp") == 0 {
		typ = rapid.SampledFrom([]int{2, 3, 4}).Draw(t, "dpType")
	}
	return []byte{byte(nri<<5) | byte(typ)}
}

func lenClass(t *rapid.T, o StreamOpts) int {
	max := o.MaxNalLen
	if max <= 0 {
		max = 3000
	}
	switch rapid.IntRange(0, 9).Draw(t, "nalLenClass") {
	case 0:
		return rapid.IntRange(0, 4).Draw(t, "tiny")
	case 1, 2:
		if len(o.SizeEdges) > 0 {
			e := rapid.SampledFrom(o.SizeEdges).Draw(t, "edge")
			v := e + rapid.IntRange(-3, 3).Draw(t, "edgeDelta")
			if v < 0 {
				v = 0
			}
			return v
		}
		return rapid.IntRange(5, 200).Draw(t, "small")
	case 3, 4, 5, 6:
		return rapid.IntRange(5, 300).Draw(t, "small")
	case 7, 8:
		hi := 3000
		if hi > max {
			hi = max
		}
		return rapid.IntRange(5, hi).Draw(t, "mid")
	default:
		return rapid.IntRange(5, max).Draw(t, "big")
	}
}

// GenStream draws codecs and a publish sequence.
func GenStream(t *rapid.T, o StreamOpts) (Codecs, []Item) {
	c := GenCodecs(t, o)
	return c, GenItems(t, c, o, 1)
}

// GenItems draws the publish sequence of one incarnation for fixed codecs.
// serialBase makes NAL serials unique across incarnations.
func GenItems(t *rapid.T, c Codecs, o StreamOpts, serialBase uint32) []Item {
	var items []Item
	serial := serialBase * 100000
	ts := uint32(0)
	if o.StartTs != nil {
		ts = o.StartTs.Draw(t, "startTs")
	} else if o.TsBack && rapid.IntRange(0, 3).Draw(t, "startNearWrap") == 0 {
		// right below 2^32 (the clock wraps inside the stream), or right below the 24-bit limit
		ts = rapid.SampledFrom([]uint32{0xFFFFFFFF, 0xFFFFFFF0, 0xFFFFFF00, 0xFFFFFFD8, 0xFFFFFE, 0xFFFFD8}).Draw(t, "startTsWrap")
	} else if o.TsJumps {
		ts = rapid.OneOf(rapid.Just(uint32(0)), rapid.Uint32Range(0, 100000), rapid.SampledFrom([]uint32{0xFFFFF0, 0xFFFFFF, 0x1000000, 0x7FFFFF00})).Draw(t, "startTs")
	} else {
		ts = rapid.Uint32Range(0, 5000).Draw(t, "startTs")
	}
	variant := rapid.IntRange(0, 2).Draw(t, "variant")
	// prologue: metadata + sequence headers in a drawn order
	var pro []Item
	if !o.NoMeta && rapid.IntRange(0, 3).Draw(t, "hasMeta") != 0 {
		pro = append(pro, Item{Kind: "meta", Ts: 0, Variant: variant, Sdf: rapid.Bool().Draw(t, "sdf")})
	}
	if c.Video != "" {
		pro = append(pro, Item{Kind: "vsh", Ts: ts, Variant: variant})
	}
	if c.Audio == "aac" {
		pro = append(pro, Item{Kind: "ash", Ts: ts})
	}
	if len(pro) > 1 && rapid.IntRange(0, 3).Draw(t, "swapPrologue") == 0 {
		pro[len(pro)-1], pro[len(pro)-2] = pro[len(pro)-2], pro[len(pro)-1]
	}
	items = append(items, pro...)

	maxGops := o.MaxGops
	if maxGops <= 0 {
		maxGops = 3
	}
	maxGopLen := o.MaxGopLen
	if maxGopLen <= 0 {
		maxGopLen = 6
	}
	ngops := rapid.IntRange(1, maxGops).Draw(t, "ngops")
	vStep := rapid.SampledFrom([]uint32{40, 33, 20, 1, 0, 100}).Draw(t, "vStep")
	aStep := rapid.SampledFrom([]uint32{23, 21, 10, 1, 64}).Draw(t, "aStep")
	aTs := ts
	// fitEdge resizes a drawn share of the messages to a payload length on a MsgSizeEdges value (+-1)
	fitEdge := func(it *Item) {
		if len(o.MsgSizeEdges) == 0 || rapid.IntRange(0, 3).Draw(t, "msgEdge") != 0 {
			return
		}
		e := rapid.SampledFrom(o.MsgSizeEdges).Draw(t, "msgEdgeAt") + rapid.IntRange(-1, 1).Draw(t, "msgEdgeDelta")
		FitPayloadLen(it, c, e)
	}
	ascVariant := 0
	// midItems sprinkles metadata / re-sent sequence headers between two media messages
	midItems := func(now uint32) {
		if o.MidMeta && rapid.IntRange(0, 9).Draw(t, "midMeta") == 0 {
			mv := variant
			if rapid.Bool().Draw(t, "midMetaNew") {
				mv = variant + 3 + rapid.IntRange(0, 5).Draw(t, "midMetaVariant")
			}
			mts := now
			if rapid.IntRange(0, 2).Draw(t, "midMetaTs0") == 0 {
				mts = 0
			}
			items = append(items, Item{Kind: "meta", Ts: mts, Variant: mv, Sdf: rapid.Bool().Draw(t, "midMetaSdf")})
		}
		if o.MidHeaders && rapid.IntRange(0, 11).Draw(t, "midHdr") == 0 {
			if c.Audio == "aac" && (c.Video == "" || rapid.Bool().Draw(t, "midHdrAudio")) {
				if o.AscChurn && rapid.Bool().Draw(t, "ascChurn") {
					ascVariant = 1 + (ascVariant+rapid.IntRange(0, 1).Draw(t, "ascNext"))%3
				}
				items = append(items, Item{Kind: "ash", Ts: now, Variant: ascVariant})
			} else if c.Video != "" {
				items = append(items, Item{Kind: "vsh", Ts: now, Variant: variant})
			}
		}
	}
	emitAudioUpTo := func(limit uint32, force int) {
		if c.Audio == "" {
			return
		}
		n := 0
		for (aTs <= limit && n < 6) || n < force {
			l := rapid.IntRange(1, 400).Draw(t, "alen")
			if rapid.IntRange(0, 15).Draw(t, "abig") == 0 {
				l = rapid.IntRange(400, 6000).Draw(t, "alenBig")
			}
			serial++
			it := Item{Kind: "audio", Ts: aTs, ALen: l, ASeed: serial}
			fitEdge(&it)
			items = append(items, it)
			midItems(aTs)
			aTs += aStep
			if o.TsBack && rapid.IntRange(0, 11).Draw(t, "aBack") == 0 {
				aTs -= rapid.SampledFrom([]uint32{1, 23, 500, 2 * aStep}).Draw(t, "aBackBy")
			}
			n++
		}
	}
	for g := 0; g < ngops; g++ {
		if c.Video == "" {
			// audio-only: a "gop" is a run of audio frames
			emitAudioUpTo(aTs, rapid.IntRange(1, maxGopLen).Draw(t, "arun"))
			continue
		}
		if o.HeaderChurn && g > 0 && rapid.IntRange(0, 2).Draw(t, "churn") == 0 {
			variant++
			items = append(items, Item{Kind: "vsh", Ts: ts, Variant: variant})
		}
		n := rapid.IntRange(1, maxGopLen).Draw(t, "gopLen")
		for f := 0; f < n; f++ {
			key := f == 0
			var nals []NalSpec
			if o.MultiNal {
				// optional AUD / in-band parameter sets / SEI before the slices
				if rapid.IntRange(0, 4).Draw(t, "aud") == 0 {
					if c.Video == "hevc" {
						nals = append(nals, NalSpec{Hdr: []byte{35 << 1, 1}, Len: 1, Seed: 1})
					} else {
						nals = append(nals, NalSpec{Hdr: []byte{9}, Len: 1, Seed: 1})
					}
				}
				if rapid.IntRange(0, 5).Draw(t, "sei") == 0 {
					serial++
					if c.Video == "hevc" {
						nals = append(nals, NalSpec{Hdr: []byte{39 << 1, 1}, Len: rapid.IntRange(5, 60).Draw(t, "seiLen"), Seed: serial, Serial: serial})
					} else {
						nals = append(nals, NalSpec{Hdr: []byte{6}, Len: rapid.IntRange(5, 60).Draw(t, "seiLen"), Seed: serial, Serial: serial})
					}
				}
			}
			nslices := 1
			if o.MultiNal {
				nslices = rapid.SampledFrom([]int{1, 1, 2, 3}).Draw(t, "nslices")
			}
			for s := 0; s < nslices; s++ {
				serial++
				nals = append(nals, NalSpec{Hdr: nalHdr(t, c.Video, key), Len: lenClass(t, o), Seed: serial, Serial: serial})
			}
			cts := uint32(0)
			if o.Cts && rapid.IntRange(0, 2).Draw(t, "hasCts") == 0 {
				cts = rapid.SampledFrom([]uint32{40, 80, 1, 33, 120}).Draw(t, "cts")
			}
			vit := Item{Kind: "video", Ts: ts, Cts: cts, Key: key, Nals: nals, Variant: int(serial)}
			fitEdge(&vit)
			items = append(items, vit)
			midItems(ts)
			emitAudioUpTo(ts, 0)
			ts += vStep
			if o.TsBack && rapid.IntRange(0, 9).Draw(t, "vBack") == 0 {
				switch rapid.IntRange(0, 3).Draw(t, "vBackKind") {
				case 0:
					ts -= vStep // the next frame repeats this frame's timestamp
				case 1:
					ts -= vStep + rapid.SampledFrom([]uint32{1, 40, 1000, 70000}).Draw(t, "vBackBy")
				case 2:
					ts = 0 // encoder restart
				default:
					ts -= vStep + 1
					aTs = ts // both clocks step back together
				}
			}
			if o.TsJumps && rapid.IntRange(0, 25).Draw(t, "jump") == 0 {
				ts += rapid.SampledFrom([]uint32{1000, 20000, 0xFFFFFF, 0x1000000}).Draw(t, "jumpBy")
				if rapid.Bool().Draw(t, "audioFollows") {
					aTs = ts
				}
			}
		}
		if o.AllowEmpty && rapid.IntRange(0, 3).Draw(t, "empty") == 0 {
			items = append(items, Item{Kind: "empty", Ts: ts, EmptyType: rapid.SampledFrom([]uint8{8, 9}).Draw(t, "emptyType")})
		}
	}
	return items
}
