package rtmpref

// AMF0 (Action Message Format 0) encoder / decoder written from the AMF0
// specification ("AMF 0 Specification", Adobe, 2007) — section numbers in the
// comments refer to it.  Independent of lal.
//
// Supported value types (the ones RTMP commands and metadata use):
//
//	0x00 number        8-byte IEEE-754 double, big endian            (2.2)
//	0x01 boolean       1 byte, zero = false                           (2.3)
//	0x02 string        UTF-8 with 16-bit byte length                  (2.4)
//	0x03 object        (UTF-8 key, value)* then UTF-8-empty + 0x09    (2.5)
//	0x05 null                                                         (2.7)
//	0x06 undefined                                                    (2.8)
//	0x08 ECMA array    32-bit associative count, then like an object  (2.10)
//	0x09 object-end    only after an empty key                        (2.11)
//	0x0a strict array  32-bit count, then count values                (2.12)
//	0x0c long string   UTF-8 with 32-bit byte length                  (2.14)
//	0x0d unsupported                                                  (2.15)
//
// Everything else (movieclip, reference, date, recordset, XML, typed object,
// AVM+) is reported as an error by the decoder.
//
// A Value is an ordered tree: object / ECMA-array members keep their order and
// may repeat keys, exactly as they appear on the wire.

import (
	"encoding/binary"
	"errors"
	"fmt"
	"math"
)

// AMF0 type markers.
const (
	Amf0Number      = 0x00
	Amf0Boolean     = 0x01
	Amf0String      = 0x02
	Amf0Object      = 0x03
	Amf0Null        = 0x05
	Amf0Undefined   = 0x06
	Amf0EcmaArray   = 0x08
	Amf0ObjectEnd   = 0x09
	Amf0StrictArray = 0x0a
	Amf0LongString  = 0x0c
	Amf0Unsupported = 0x0d
)

// Kind is the type of a Value.
type Kind uint8

const (
	KNumber Kind = iota
	KBoolean
	KString // short or long form, see Value.Long
	KObject
	KNull
	KUndefined
	KEcmaArray
	KStrictArray
	KUnsupported
)

func (k Kind) String() string {
	switch k {
	case KNumber:
		return "number"
	case KBoolean:
		return "boolean"
	case KString:
		return "string"
	case KObject:
		return "object"
	case KNull:
		return "null"
	case KUndefined:
		return "undefined"
	case KEcmaArray:
		return "ecma-array"
	case KStrictArray:
		return "strict-array"
	case KUnsupported:
		return "unsupported"
	}
	return fmt.Sprintf("kind(%d)", uint8(k))
}

// Member is one (key, value) pair of an object or ECMA array.
type Member struct {
	Key string
	Val Value
}

// Value is one AMF0 value.
type Value struct {
	Kind Kind
	Num  float64 // KNumber (compare with math.Float64bits when NaN matters)
	Bool bool    // KBoolean
	Str  string  // KString: the bytes of the string (not necessarily valid UTF-8)
	// Long (KString): the long-string marker (0x0c, 32-bit length) is / was used.
	// The encoder always uses the long form for strings longer than 65535
	// bytes; Long=true forces it for shorter strings too.
	Long    bool
	Members []Member // KObject, KEcmaArray (ordered)
	Elems   []Value  // KStrictArray
	// Count (KEcmaArray): the associative-count field.  The encoder writes
	// len(Members) unless CountSet is true; the decoder records what it read.
	Count    uint32
	CountSet bool
}

// Constructors.

func Num(f float64) Value          { return Value{Kind: KNumber, Num: f} }
func NumBits(b uint64) Value       { return Value{Kind: KNumber, Num: math.Float64frombits(b)} }
func Bool(b bool) Value            { return Value{Kind: KBoolean, Bool: b} }
func Str(s string) Value           { return Value{Kind: KString, Str: s} }
func LongStr(s string) Value       { return Value{Kind: KString, Str: s, Long: true} }
func Null() Value                  { return Value{Kind: KNull} }
func Undefined() Value             { return Value{Kind: KUndefined} }
func Obj(m ...Member) Value        { return Value{Kind: KObject, Members: m} }
func EcmaArray(m ...Member) Value  { return Value{Kind: KEcmaArray, Members: m} }
func StrictArray(e ...Value) Value { return Value{Kind: KStrictArray, Elems: e} }
func M(key string, v Value) Member { return Member{Key: key, Val: v} }

// Get returns the first member with the given key of an object / ECMA array.
func (v Value) Get(key string) (Value, bool) {
	for _, m := range v.Members {
		if m.Key == key {
			return m.Val, true
		}
	}
	return Value{}, false
}

// GetString returns the string member key, or "" / false.
func (v Value) GetString(key string) (string, bool) {
	m, ok := v.Get(key)
	if !ok || m.Kind != KString {
		return "", false
	}
	return m.Str, true
}

// GetNumber returns the number member key, or 0 / false.
func (v Value) GetNumber(key string) (float64, bool) {
	m, ok := v.Get(key)
	if !ok || m.Kind != KNumber {
		return 0, false
	}
	return m.Num, true
}

// Depth returns the container nesting depth: 0 for a scalar, 1 for a
// container holding only scalars (or nothing), and so on.
func (v Value) Depth() int {
	d := 0
	switch v.Kind {
	case KObject, KEcmaArray:
		for _, m := range v.Members {
			if x := m.Val.Depth(); x > d {
				d = x
			}
		}
		return d + 1
	case KStrictArray:
		for _, e := range v.Elems {
			if x := e.Depth(); x > d {
				d = x
			}
		}
		return d + 1
	}
	return 0
}

// Equal compares two value trees: same kinds, numbers bit for bit (so NaN
// payloads and the sign of zero count), same strings, same members in the same
// order.  The wire-form hints (Long, Count) are ignored.
func (v Value) Equal(o Value) bool {
	if v.Kind != o.Kind {
		return false
	}
	switch v.Kind {
	case KNumber:
		return math.Float64bits(v.Num) == math.Float64bits(o.Num)
	case KBoolean:
		return v.Bool == o.Bool
	case KString:
		return v.Str == o.Str
	case KObject, KEcmaArray:
		if len(v.Members) != len(o.Members) {
			return false
		}
		for i := range v.Members {
			if v.Members[i].Key != o.Members[i].Key || !v.Members[i].Val.Equal(o.Members[i].Val) {
				return false
			}
		}
	case KStrictArray:
		if len(v.Elems) != len(o.Elems) {
			return false
		}
		for i := range v.Elems {
			if !v.Elems[i].Equal(o.Elems[i]) {
				return false
			}
		}
	}
	return true
}

// String renders a short debugging form (long strings are abbreviated).
func (v Value) String() string {
	switch v.Kind {
	case KNumber:
		return fmt.Sprintf("num(%v/%#016x)", v.Num, math.Float64bits(v.Num))
	case KBoolean:
		return fmt.Sprintf("bool(%v)", v.Bool)
	case KString:
		if len(v.Str) > 24 {
			return fmt.Sprintf("str(len=%d %q...)", len(v.Str), v.Str[:24])
		}
		return fmt.Sprintf("str(%q)", v.Str)
	case KObject, KEcmaArray:
		s := "obj{"
		if v.Kind == KEcmaArray {
			s = "ecma{"
		}
		for i, m := range v.Members {
			if i > 0 {
				s += ", "
			}
			k := m.Key
			if len(k) > 24 {
				k = fmt.Sprintf("%s...(len=%d)", k[:24], len(k))
			}
			s += fmt.Sprintf("%q: %s", k, m.Val.String())
		}
		return s + "}"
	case KStrictArray:
		s := "strict["
		for i, e := range v.Elems {
			if i > 0 {
				s += ", "
			}
			s += e.String()
		}
		return s + "]"
	}
	return v.Kind.String()
}

// ---------------------------------------------------------------------------
// encoder

// ErrAmf0KeyTooLong is returned for an object key that does not fit the 16-bit
// length of a UTF-8 key.
var ErrAmf0KeyTooLong = errors.New("rtmpref: amf0 object key longer than 65535 bytes")

// AppendAmf0 appends the encoding of v to dst.
func AppendAmf0(dst []byte, v Value) ([]byte, error) {
	switch v.Kind {
	case KNumber:
		dst = append(dst, Amf0Number)
		dst = binary.BigEndian.AppendUint64(dst, math.Float64bits(v.Num))
	case KBoolean:
		b := byte(0)
		if v.Bool {
			b = 1
		}
		dst = append(dst, Amf0Boolean, b)
	case KString:
		if v.Long || len(v.Str) > 0xFFFF {
			if uint64(len(v.Str)) > 0xFFFFFFFF {
				return nil, errors.New("rtmpref: amf0 string longer than 2^32-1 bytes")
			}
			dst = append(dst, Amf0LongString)
			dst = binary.BigEndian.AppendUint32(dst, uint32(len(v.Str)))
		} else {
			dst = append(dst, Amf0String)
			dst = binary.BigEndian.AppendUint16(dst, uint16(len(v.Str)))
		}
		dst = append(dst, v.Str...)
	case KNull:
		dst = append(dst, Amf0Null)
	case KUndefined:
		dst = append(dst, Amf0Undefined)
	case KUnsupported:
		dst = append(dst, Amf0Unsupported)
	case KObject, KEcmaArray:
		if v.Kind == KObject {
			dst = append(dst, Amf0Object)
		} else {
			n := uint32(len(v.Members))
			if v.CountSet {
				n = v.Count
			}
			dst = append(dst, Amf0EcmaArray)
			dst = binary.BigEndian.AppendUint32(dst, n)
		}
		for _, m := range v.Members {
			if len(m.Key) > 0xFFFF {
				return nil, ErrAmf0KeyTooLong
			}
			dst = binary.BigEndian.AppendUint16(dst, uint16(len(m.Key)))
			dst = append(dst, m.Key...)
			var err error
			if dst, err = AppendAmf0(dst, m.Val); err != nil {
				return nil, err
			}
		}
		dst = append(dst, 0, 0, Amf0ObjectEnd)
	case KStrictArray:
		dst = append(dst, Amf0StrictArray)
		dst = binary.BigEndian.AppendUint32(dst, uint32(len(v.Elems)))
		for _, e := range v.Elems {
			var err error
			if dst, err = AppendAmf0(dst, e); err != nil {
				return nil, err
			}
		}
	default:
		return nil, fmt.Errorf("rtmpref: cannot encode amf0 kind %d", v.Kind)
	}
	return dst, nil
}

// EncodeAmf0 encodes the values one after the other (the body of an RTMP
// command or data message).  It panics on a value that cannot be encoded
// (over-long key), which is a programming error of the caller.
func EncodeAmf0(vs ...Value) []byte {
	var out []byte
	for _, v := range vs {
		var err error
		if out, err = AppendAmf0(out, v); err != nil {
			panic(err)
		}
	}
	return out
}

// ---------------------------------------------------------------------------
// decoder

// Amf0DefaultMaxDepth bounds container nesting in DecodeAmf0 / DecodeAmf0All.
const Amf0DefaultMaxDepth = 64

var (
	ErrAmf0Short      = errors.New("rtmpref: amf0 data truncated")
	ErrAmf0TooDeep    = errors.New("rtmpref: amf0 nesting too deep")
	ErrAmf0BadMarker  = errors.New("rtmpref: amf0 unsupported type marker")
	ErrAmf0StrayEnd   = errors.New("rtmpref: amf0 object-end marker outside an object")
	ErrAmf0CountBound = errors.New("rtmpref: amf0 strict array count exceeds remaining bytes")
)

// Amf0Decoder decodes with an explicit nesting bound.
type Amf0Decoder struct {
	MaxDepth int // maximal container nesting (a flat object has depth 1); <= 0 means Amf0DefaultMaxDepth
}

// DecodeAmf0 decodes one value from the front of b and returns it with the
// number of bytes it occupied.
func DecodeAmf0(b []byte) (Value, int, error) {
	return Amf0Decoder{}.Decode(b)
}

// DecodeAmf0All decodes values until b is exhausted.
func DecodeAmf0All(b []byte) ([]Value, error) {
	var out []Value
	for len(b) > 0 {
		v, n, err := DecodeAmf0(b)
		if err != nil {
			return out, err
		}
		out = append(out, v)
		b = b[n:]
	}
	return out, nil
}

// Decode decodes one value from the front of b.
func (d Amf0Decoder) Decode(b []byte) (Value, int, error) {
	max := d.MaxDepth
	if max <= 0 {
		max = Amf0DefaultMaxDepth
	}
	return decodeAmf0(b, 0, max)
}

func decodeAmf0(b []byte, depth, max int) (Value, int, error) {
	if len(b) < 1 {
		return Value{}, 0, ErrAmf0Short
	}
	switch b[0] {
	case Amf0Number:
		if len(b) < 9 {
			return Value{}, 0, ErrAmf0Short
		}
		return NumBits(binary.BigEndian.Uint64(b[1:9])), 9, nil
	case Amf0Boolean:
		if len(b) < 2 {
			return Value{}, 0, ErrAmf0Short
		}
		return Bool(b[1] != 0), 2, nil
	case Amf0String:
		if len(b) < 3 {
			return Value{}, 0, ErrAmf0Short
		}
		l := int(binary.BigEndian.Uint16(b[1:3]))
		if len(b)-3 < l {
			return Value{}, 0, ErrAmf0Short
		}
		return Str(string(b[3 : 3+l])), 3 + l, nil
	case Amf0LongString:
		if len(b) < 5 {
			return Value{}, 0, ErrAmf0Short
		}
		l := uint64(binary.BigEndian.Uint32(b[1:5]))
		if uint64(len(b)-5) < l {
			return Value{}, 0, ErrAmf0Short
		}
		return LongStr(string(b[5 : 5+int(l)])), 5 + int(l), nil
	case Amf0Null:
		return Null(), 1, nil
	case Amf0Undefined:
		return Undefined(), 1, nil
	case Amf0Unsupported:
		return Value{Kind: KUnsupported}, 1, nil
	case Amf0Object, Amf0EcmaArray:
		if depth+1 > max {
			return Value{}, 0, ErrAmf0TooDeep
		}
		v := Value{Kind: KObject}
		pos := 1
		if b[0] == Amf0EcmaArray {
			if len(b) < 5 {
				return Value{}, 0, ErrAmf0Short
			}
			v.Kind = KEcmaArray
			v.Count = binary.BigEndian.Uint32(b[1:5])
			v.CountSet = true
			pos = 5
		}
		for {
			if len(b)-pos < 2 {
				return Value{}, 0, ErrAmf0Short
			}
			kl := int(binary.BigEndian.Uint16(b[pos : pos+2]))
			if len(b)-pos-2 < kl {
				return Value{}, 0, ErrAmf0Short
			}
			key := string(b[pos+2 : pos+2+kl])
			pos += 2 + kl
			if len(b)-pos < 1 {
				return Value{}, 0, ErrAmf0Short
			}
			if b[pos] == Amf0ObjectEnd {
				if kl != 0 {
					// 2.11: the end marker is preceded by an empty key
					return Value{}, 0, ErrAmf0StrayEnd
				}
				return v, pos + 1, nil
			}
			mv, n, err := decodeAmf0(b[pos:], depth+1, max)
			if err != nil {
				return Value{}, 0, err
			}
			pos += n
			v.Members = append(v.Members, Member{Key: key, Val: mv})
		}
	case Amf0StrictArray:
		if depth+1 > max {
			return Value{}, 0, ErrAmf0TooDeep
		}
		if len(b) < 5 {
			return Value{}, 0, ErrAmf0Short
		}
		count := uint64(binary.BigEndian.Uint32(b[1:5]))
		if count > uint64(len(b)-5) { // every element needs at least one byte
			return Value{}, 0, ErrAmf0CountBound
		}
		v := Value{Kind: KStrictArray}
		pos := 5
		for i := uint64(0); i < count; i++ {
			e, n, err := decodeAmf0(b[pos:], depth+1, max)
			if err != nil {
				return Value{}, 0, err
			}
			pos += n
			v.Elems = append(v.Elems, e)
		}
		return v, pos, nil
	case Amf0ObjectEnd:
		return Value{}, 0, ErrAmf0StrayEnd
	}
	return Value{}, 0, fmt.Errorf("%w 0x%02x", ErrAmf0BadMarker, b[0])
}

// Amf0Canonical reports whether b[:n] is exactly what AppendAmf0 produces for
// the value decoded from it (short strings in short form unless flagged Long,
// ECMA counts equal to the number of members ...).
func Amf0Canonical(v Value, enc []byte) bool {
	if !amf0CountsExact(v) {
		return false
	}
	re, err := AppendAmf0(nil, v)
	if err != nil || len(re) != len(enc) {
		return false
	}
	for i := range re {
		if re[i] != enc[i] {
			return false
		}
	}
	return true
}

func amf0CountsExact(v Value) bool {
	switch v.Kind {
	case KEcmaArray:
		if v.CountSet && int64(v.Count) != int64(len(v.Members)) {
			return false
		}
		fallthrough
	case KObject:
		for _, m := range v.Members {
			if !amf0CountsExact(m.Val) {
				return false
			}
		}
	case KStrictArray:
		for _, e := range v.Elems {
			if !amf0CountsExact(e) {
				return false
			}
		}
	}
	return true
}
