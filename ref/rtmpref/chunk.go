// Package rtmpref is an independent, from-the-specification implementation of
// the parts of RTMP the checks need as oracles: the chunk stream (this file),
// AMF0 (amf0.go) and a small client (client.go).  It never imports lal.
package rtmpref

import (
	"encoding/binary"
	"errors"
	"fmt"
	"io"
)

// Msg is one RTMP message.
type Msg struct {
	Csid     int    `json:"csid"`
	TypeID   uint8  `json:"type"`
	StreamID uint32 `json:"msid"`
	Ts       uint32 `json:"ts"` // absolute timestamp, ms
	Payload  []byte `json:"payload"`
}

const (
	TypeSetChunkSize = 1
	TypeAbort        = 2
	TypeAck          = 3
	TypeUserControl  = 4
	TypeWinAckSize   = 5
	TypeSetPeerBw    = 6
	TypeAudio        = 8
	TypeVideo        = 9
	TypeDataAmf3     = 15
	TypeCmdAmf3      = 17
	TypeDataAmf0     = 18
	TypeCmdAmf0      = 20
	TypeAggregate    = 22
)

type csState struct {
	// header memory
	ts       uint32 // absolute timestamp of the message being/last assembled
	tsField  uint32 // last timestamp field value (absolute for fmt0, delta for fmt1/2), after extension
	extended bool   // last header on this chunk stream carried an extended timestamp
	length   uint32
	typeID   uint8
	streamID uint32
	haveHdr  bool
	// assembly
	buf      []byte
	inMsg    bool
	firstFmt uint8
}

// ChunkReader decodes a chunk stream following RTMP 1.0 §5.3 (with the
// de-facto rule that a type-3 chunk repeats the extended timestamp when the
// preceding header of that chunk stream carried one).
type ChunkReader struct {
	r         io.Reader
	ChunkSize uint32
	cs        map[int]*csState
	// AutoSetChunkSize makes the reader obey Set Chunk Size messages (default true).
	IgnoreSetChunkSize bool
	BytesRead          int64
}

func NewChunkReader(r io.Reader) *ChunkReader {
	return &ChunkReader{r: r, ChunkSize: 128, cs: map[int]*csState{}}
}

func (c *ChunkReader) full(b []byte) error {
	n, err := io.ReadFull(c.r, b)
	c.BytesRead += int64(n)
	return err
}

// ReadMsg returns the next complete message (aggregate messages are returned
// as such; use ExpandAggregate).
func (c *ChunkReader) ReadMsg() (Msg, error) {
	var b [16]byte
	for {
		if err := c.full(b[:1]); err != nil {
			return Msg{}, err
		}
		f := b[0] >> 6
		csid := int(b[0] & 0x3f)
		switch csid {
		case 0:
			if err := c.full(b[:1]); err != nil {
				return Msg{}, unexpected(err)
			}
			csid = 64 + int(b[0])
		case 1:
			if err := c.full(b[:2]); err != nil {
				return Msg{}, unexpected(err)
			}
			csid = 64 + int(b[0]) + 256*int(b[1])
		}
		st := c.cs[csid]
		if st == nil {
			st = &csState{}
			c.cs[csid] = st
		}
		if f != 0 && !st.haveHdr {
			return Msg{}, fmt.Errorf("rtmpref: fmt %d chunk on fresh chunk stream %d", f, csid)
		}
		newMsg := !st.inMsg
		if !newMsg && f != 3 {
			return Msg{}, fmt.Errorf("rtmpref: fmt %d chunk inside a message on chunk stream %d", f, csid)
		}
		switch f {
		case 0:
			if err := c.full(b[:11]); err != nil {
				return Msg{}, unexpected(err)
			}
			st.tsField = be24(b[0:])
			st.length = be24(b[3:])
			st.typeID = b[6]
			st.streamID = binary.LittleEndian.Uint32(b[7:])
		case 1:
			if err := c.full(b[:7]); err != nil {
				return Msg{}, unexpected(err)
			}
			st.tsField = be24(b[0:])
			st.length = be24(b[3:])
			st.typeID = b[6]
		case 2:
			if err := c.full(b[:3]); err != nil {
				return Msg{}, unexpected(err)
			}
			st.tsField = be24(b[0:])
		}
		if f != 3 {
			st.extended = st.tsField == 0xFFFFFF
			if st.extended {
				if err := c.full(b[:4]); err != nil {
					return Msg{}, unexpected(err)
				}
				st.tsField = binary.BigEndian.Uint32(b[:4])
			}
		} else if st.extended {
			// repeated extended timestamp on type-3 chunks
			if err := c.full(b[:4]); err != nil {
				return Msg{}, unexpected(err)
			}
		}
		if newMsg {
			switch f {
			case 0:
				st.ts = st.tsField
			default: // 1, 2, and 3 starting a new message: delta
				st.ts += st.tsField
			}
			st.haveHdr = true
			st.inMsg = true
			st.buf = make([]byte, 0, st.length)
			st.firstFmt = f
		}
		need := st.length - uint32(len(st.buf))
		if need > c.ChunkSize {
			need = c.ChunkSize
		}
		off := len(st.buf)
		st.buf = st.buf[:off+int(need)]
		if err := c.full(st.buf[off:]); err != nil {
			return Msg{}, unexpected(err)
		}
		if uint32(len(st.buf)) == st.length {
			st.inMsg = false
			m := Msg{Csid: csid, TypeID: st.typeID, StreamID: st.streamID, Ts: st.ts, Payload: st.buf}
			st.buf = nil
			if m.TypeID == TypeSetChunkSize && len(m.Payload) >= 4 && !c.IgnoreSetChunkSize {
				v := binary.BigEndian.Uint32(m.Payload) & 0x7fffffff
				if v >= 1 {
					c.ChunkSize = v
				}
			}
			return m, nil
		}
	}
}

func unexpected(err error) error {
	if err == io.EOF {
		return io.ErrUnexpectedEOF
	}
	return err
}

func be24(b []byte) uint32 { return uint32(b[0])<<16 | uint32(b[1])<<8 | uint32(b[2]) }
func put24(b []byte, v uint32) {
	b[0], b[1], b[2] = byte(v>>16), byte(v>>8), byte(v)
}

// ExpandAggregate splits an aggregate message (type 22) into its sub-messages
// per RTMP 1.0 §7.1.6 / the FLV-tag layout: the timestamp of each sub-message
// is re-based so that the first one carries the aggregate message's timestamp.
func ExpandAggregate(m Msg) ([]Msg, error) {
	if m.TypeID != TypeAggregate {
		return []Msg{m}, nil
	}
	var out []Msg
	p := m.Payload
	var base uint32
	first := true
	for len(p) > 0 {
		if len(p) < 11 {
			return out, errors.New("rtmpref: short aggregate sub header")
		}
		typ := p[0]
		l := be24(p[1:])
		ts := be24(p[4:]) | uint32(p[7])<<24
		sid := be24(p[8:])
		p = p[11:]
		if uint32(len(p)) < l+4 {
			return out, errors.New("rtmpref: short aggregate sub body")
		}
		if first {
			base = ts
			first = false
		}
		out = append(out, Msg{Csid: m.Csid, TypeID: typ, StreamID: sid, Ts: m.Ts + ts - base, Payload: append([]byte(nil), p[:l]...)})
		p = p[l+4:]
	}
	return out, nil
}

// BuildAggregate builds the body of an aggregate message from sub-messages
// (sub timestamps are written as given).
func BuildAggregate(subs []Msg) []byte {
	var out []byte
	for _, s := range subs {
		var h [11]byte
		h[0] = s.TypeID
		put24(h[1:], uint32(len(s.Payload)))
		put24(h[4:], s.Ts&0xFFFFFF)
		h[7] = byte(s.Ts >> 24)
		put24(h[8:], s.StreamID)
		out = append(out, h[:]...)
		out = append(out, s.Payload...)
		var back [4]byte
		binary.BigEndian.PutUint32(back[:], uint32(11+len(s.Payload)))
		out = append(out, back[:]...)
	}
	return out
}

// ---------------------------------------------------------------------------

type wState struct {
	ts       uint32
	tsField  uint32
	length   uint32
	typeID   uint8
	streamID uint32
	have     bool
}

// ChunkWriter encodes messages into chunks with caller-chosen header formats.
type ChunkWriter struct {
	ChunkSize int
	// WideCsid selects the 3-byte basic header also for chunk stream ids
	// 64..319 (both forms are legal for that range).
	WideCsid bool
	cs        map[int]*wState
}

func NewChunkWriter(chunkSize int) *ChunkWriter {
	return &ChunkWriter{ChunkSize: chunkSize, cs: map[int]*wState{}}
}

// AllowedFmts returns the header formats the specification allows for
// starting message m on its chunk stream given the writer's header memory,
// restricted to the domain "deltas below 0xFFFFFF; extended timestamps only
// as absolute values on format 0".
func (w *ChunkWriter) AllowedFmts(m Msg) []uint8 {
	st := w.cs[m.Csid]
	out := []uint8{0}
	if st == nil || !st.have {
		return out
	}
	if st.streamID != m.StreamID || m.Ts < st.ts {
		return out
	}
	delta := m.Ts - st.ts
	if delta >= 0xFFFFFF {
		return out
	}
	out = append(out, 1)
	if st.length == uint32(len(m.Payload)) && st.typeID == m.TypeID {
		out = append(out, 2)
		if st.tsField == delta && st.tsField < 0xFFFFFF {
			out = append(out, 3)
		}
	}
	return out
}

// Pending is a message being emitted chunk by chunk.
type Pending struct {
	w     *ChunkWriter
	m     Msg
	f     uint8
	field uint32
	ext   bool
	rest  []byte
	n     int
	done  bool
	// ContFmt0: continuation chunks repeat the type-0 header of the first chunk instead of using type 3 (the spec
	// says continuation chunks SHOULD be type 3, it does not forbid a full header; librtmp-style readers go on with
	// the message). Only meaningful when the first chunk is type 0 as well, so that the header memory is unchanged.
	ContFmt0 bool
}

// Begin starts message m with format f for its first chunk (must be one of
// AllowedFmts); continuation chunks use format 3.  The writer's header memory
// is updated immediately.
func (w *ChunkWriter) Begin(m Msg, f uint8) *Pending {
	st := w.cs[m.Csid]
	if st == nil {
		st = &wState{}
		w.cs[m.Csid] = st
	}
	var field uint32
	if f == 0 {
		field = m.Ts
	} else {
		field = m.Ts - st.ts
	}
	p := &Pending{w: w, m: m, f: f, field: field, ext: field >= 0xFFFFFF, rest: m.Payload}
	st.have = true
	st.ts = m.Ts
	st.tsField = field
	st.length = uint32(len(m.Payload))
	st.typeID = m.TypeID
	st.streamID = m.StreamID
	return p
}

// Done reports whether every chunk has been emitted.
func (p *Pending) Done() bool { return p.done }

// Next returns the next chunk, cut with the writer's chunk size in force now.
func (p *Pending) Next() []byte {
	cs := p.w.ChunkSize
	ff := uint8(3)
	if p.n == 0 {
		ff = p.f
	} else if p.ContFmt0 && p.f == 0 {
		ff = 0
	}
	h := p.w.basicHeader(ff, p.m.Csid)
	switch ff {
	case 0:
		var b [11]byte
		if p.ext {
			put24(b[0:], 0xFFFFFF)
		} else {
			put24(b[0:], p.field)
		}
		put24(b[3:], uint32(len(p.m.Payload)))
		b[6] = p.m.TypeID
		binary.LittleEndian.PutUint32(b[7:], p.m.StreamID)
		h = append(h, b[:]...)
	case 1:
		var b [7]byte
		put24(b[0:], p.field)
		put24(b[3:], uint32(len(p.m.Payload)))
		b[6] = p.m.TypeID
		h = append(h, b[:]...)
	case 2:
		var b [3]byte
		put24(b[0:], p.field)
		h = append(h, b[:]...)
	}
	if p.ext && (p.f == 0) {
		var b [4]byte
		binary.BigEndian.PutUint32(b[:], p.field)
		h = append(h, b[:]...)
	}
	n := len(p.rest)
	if n > cs {
		n = cs
	}
	chunk := append(h, p.rest[:n]...)
	p.rest = p.rest[n:]
	p.n++
	if len(p.rest) == 0 {
		p.done = true
	}
	return chunk
}

// WriteMsg returns the concatenated chunks of message m.
func (w *ChunkWriter) WriteMsg(m Msg, f uint8) []byte {
	p := w.Begin(m, f)
	var out []byte
	for !p.Done() {
		out = append(out, p.Next()...)
	}
	return out
}

func (w *ChunkWriter) basicHeader(f uint8, csid int) []byte {
	switch {
	case csid >= 2 && csid <= 63:
		return []byte{f<<6 | byte(csid)}
	case csid >= 64 && csid <= 319 && !w.WideCsid:
		return []byte{f << 6, byte(csid - 64)}
	default:
		v := csid - 64
		return []byte{f<<6 | 1, byte(v), byte(v >> 8)}
	}
}

// SetChunkSizeMsg builds a Set Chunk Size protocol control message.
func SetChunkSizeMsg(n uint32) Msg {
	var b [4]byte
	binary.BigEndian.PutUint32(b[:], n)
	return Msg{Csid: 2, TypeID: TypeSetChunkSize, StreamID: 0, Ts: 0, Payload: b[:]}
}
