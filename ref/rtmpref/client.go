package rtmpref

import (
	"bytes"
	"encoding/binary"
	"errors"
	"fmt"
	"io"
	"math"
)

// Client is a minimal RTMP client (simple handshake, connect, createStream,
// publish / play) over any io.ReadWriter.  It is independent of lal.
type Client struct {
	rw io.ReadWriter
	W  *ChunkWriter
	R  *ChunkReader
	// Control collects protocol-control / command messages received while
	// waiting for media (useful for debugging).
	Control []Msg
	tid     float64
}

func NewClient(rw io.ReadWriter) *Client {
	return &Client{rw: rw, W: NewChunkWriter(128), R: NewChunkReader(rw)}
}

// Handshake performs the simple (version 3, zero "version" field) handshake.
func (c *Client) Handshake() error {
	c0c1 := make([]byte, 1537)
	c0c1[0] = 3
	for i := 9; i < len(c0c1); i++ {
		c0c1[i] = byte(i * 7)
	}
	if _, err := c.rw.Write(c0c1); err != nil {
		return err
	}
	s := make([]byte, 1+1536+1536)
	if _, err := io.ReadFull(c.rw, s); err != nil {
		return fmt.Errorf("handshake read s0s1s2: %w", err)
	}
	if s[0] != 3 {
		return fmt.Errorf("handshake: s0=%d", s[0])
	}
	// c2 = echo of s1
	if _, err := c.rw.Write(s[1:1537]); err != nil {
		return err
	}
	return nil
}

// --- tiny AMF0 encoder for commands (private to the client) ----------------

func clAmfString(s string) []byte {
	b := []byte{2, byte(len(s) >> 8), byte(len(s))}
	return append(b, s...)
}

func clAmfNumber(f float64) []byte {
	b := make([]byte, 9)
	b[0] = 0
	binary.BigEndian.PutUint64(b[1:], math.Float64bits(f))
	return b
}

func clAmfNull() []byte { return []byte{5} }

func clAmfObject(kv ...interface{}) []byte {
	b := []byte{3}
	for i := 0; i+1 < len(kv); i += 2 {
		k := kv[i].(string)
		b = append(b, byte(len(k)>>8), byte(len(k)))
		b = append(b, k...)
		switch v := kv[i+1].(type) {
		case string:
			b = append(b, clAmfString(v)...)
		case float64:
			b = append(b, clAmfNumber(v)...)
		case int:
			b = append(b, clAmfNumber(float64(v))...)
		case bool:
			x := byte(0)
			if v {
				x = 1
			}
			b = append(b, 1, x)
		}
	}
	return append(b, 0, 0, 9)
}

func (c *Client) send(m Msg) error {
	_, err := c.rw.Write(c.W.WriteMsg(m, 0))
	return err
}

// SendRaw writes bytes as they are.
func (c *Client) SendRaw(b []byte) error {
	_, err := c.rw.Write(b)
	return err
}

// SendMsg sends m with first-chunk format f (must be allowed).
func (c *Client) SendMsg(m Msg, f uint8) error {
	_, err := c.rw.Write(c.W.WriteMsg(m, f))
	return err
}

// SetChunkSize announces and adopts a new outgoing chunk size.
func (c *Client) SetChunkSize(n int) error {
	if err := c.send(SetChunkSizeMsg(uint32(n))); err != nil {
		return err
	}
	c.W.ChunkSize = n
	return nil
}

func (c *Client) waitFor(marker string) error {
	for {
		m, err := c.R.ReadMsg()
		if err != nil {
			return fmt.Errorf("waiting for %q: %w", marker, err)
		}
		c.Control = append(c.Control, m)
		if (m.TypeID == TypeCmdAmf0 || m.TypeID == TypeCmdAmf3) && bytes.Contains(m.Payload, []byte(marker)) {
			return nil
		}
		if m.TypeID == TypeCmdAmf0 && bytes.Contains(m.Payload, []byte("_error")) {
			return errors.New("server answered _error")
		}
	}
}

// Connect sends connect(app) and waits for _result.
func (c *Client) Connect(app, tcURL string) error {
	c.tid = 1
	p := append(clAmfString("connect"), clAmfNumber(c.tid)...)
	p = append(p, clAmfObject("app", app, "type", "nonprivate", "flashVer", "FMLE/3.0", "tcUrl", tcURL)...)
	if err := c.send(Msg{Csid: 3, TypeID: TypeCmdAmf0, StreamID: 0, Payload: p}); err != nil {
		return err
	}
	return c.waitFor("_result")
}

// CreateStream sends createStream and waits for _result.
func (c *Client) CreateStream() error {
	c.tid++
	p := append(clAmfString("createStream"), clAmfNumber(c.tid)...)
	p = append(p, clAmfNull()...)
	if err := c.send(Msg{Csid: 3, TypeID: TypeCmdAmf0, Payload: p}); err != nil {
		return err
	}
	return c.waitFor("_result")
}

// Publish sends publish(name) and waits for onStatus.
func (c *Client) Publish(nameWithQuery string) error {
	c.tid++
	p := append(clAmfString("publish"), clAmfNumber(c.tid)...)
	p = append(p, clAmfNull()...)
	p = append(p, clAmfString(nameWithQuery)...)
	p = append(p, clAmfString("live")...)
	if err := c.send(Msg{Csid: 5, TypeID: TypeCmdAmf0, StreamID: 1, Payload: p}); err != nil {
		return err
	}
	return c.waitFor("onStatus")
}

// Play sends play(name) and waits for the NetStream.Play.Start status.
func (c *Client) Play(nameWithQuery string) error {
	c.tid++
	p := append(clAmfString("play"), clAmfNumber(c.tid)...)
	p = append(p, clAmfNull()...)
	p = append(p, clAmfString(nameWithQuery)...)
	if err := c.send(Msg{Csid: 5, TypeID: TypeCmdAmf0, StreamID: 1, Payload: p}); err != nil {
		return err
	}
	return c.waitFor("onStatus")
}

// ReadMedia returns the next audio / video / data message, skipping (and
// recording) protocol control and command messages.
func (c *Client) ReadMedia() (Msg, error) {
	for {
		m, err := c.R.ReadMsg()
		if err != nil {
			return Msg{}, err
		}
		switch m.TypeID {
		case TypeAudio, TypeVideo, TypeDataAmf0:
			return m, nil
		case TypeAggregate:
			return m, nil
		default:
			c.Control = append(c.Control, m)
		}
	}
}
