// Package psref is an independent reference implementation of the MPEG-2
// Program Stream pieces the GB28181 leg of check C07 needs, written from
// ISO/IEC 13818-1 (H.222.0) and never importing lal:
//
//   - 2.5.3.3 / table 2-33: pack header (SCR, program_mux_rate, stuffing);
//   - 2.5.3.5 / table 2-34: system header;
//   - 2.5.4.1 / table 2-35: program stream map with CRC_32 (annex A);
//   - 2.4.3.6 / table 2-21: PES packets with PTS only / PTS+DTS / no timestamp,
//     header stuffing, splitting of one access unit over several PES packets;
//   - a strict parser of the same subset (Parse) used to self-check the muxer.
//
// Everything is a pure function of its arguments.
package psref

import (
	"encoding/binary"
	"fmt"
)

// Start codes (table 2-22 stream_id assignments).
const (
	CodePackHeader   = 0x000001BA
	CodeSystemHeader = 0x000001BB
	CodePSM          = 0x000001BC
	CodeEnd          = 0x000001B9
	StreamIDAudio    = 0xC0 // first audio stream
	StreamIDVideo    = 0xE0 // first video stream
)

// stream_type values (table 2-34 of H.222.0 plus the GB/T 28181 assignments
// for G.711).
const (
	StreamTypeH264  = 0x1B
	StreamTypeH265  = 0x24
	StreamTypeAAC   = 0x0F
	StreamTypeG711A = 0x90
	StreamTypeG711U = 0x91
)

const tsMask = 1<<33 - 1

// PackHeader builds a pack header.  scr is the 33-bit system_clock_reference
// base (90 kHz), scrExt the 9-bit extension, muxRate the 22-bit
// program_mux_rate (units of 50 bytes/s, must not be 0), stuffing the number
// of stuffing bytes (0..7).
func PackHeader(scr uint64, scrExt uint16, muxRate uint32, stuffing int) []byte {
	if stuffing < 0 || stuffing > 7 {
		panic("psref: pack_stuffing_length out of range")
	}
	if muxRate == 0 || muxRate >= 1<<22 {
		panic("psref: program_mux_rate out of range")
	}
	scr &= tsMask
	ext := uint64(scrExt & 0x1FF)
	// '01' SCR[32..30] 1 SCR[29..15] 1 SCR[14..0] 1 ext(9) 1  = 48 bits
	var v uint64
	v = 1 // '01'
	v = v<<3 | (scr>>30)&7
	v = v<<1 | 1
	v = v<<15 | (scr>>15)&0x7FFF
	v = v<<1 | 1
	v = v<<15 | scr&0x7FFF
	v = v<<1 | 1
	v = v<<9 | ext
	v = v<<1 | 1
	b := []byte{0, 0, 1, 0xBA, byte(v >> 40), byte(v >> 32), byte(v >> 24), byte(v >> 16), byte(v >> 8), byte(v)}
	// program_mux_rate(22) marker marker
	m := muxRate<<2 | 3
	b = append(b, byte(m>>16), byte(m>>8), byte(m))
	// reserved(5) pack_stuffing_length(3)
	b = append(b, 0xF8|byte(stuffing))
	for i := 0; i < stuffing; i++ {
		b = append(b, 0xFF)
	}
	return b
}

// ES describes one elementary stream for the system header / PSM.
type ES struct {
	StreamID   uint8
	StreamType uint8
	// Descriptors go into the PSM's elementary_stream_info (may be empty).
	Descriptors []byte
}

// SystemHeader builds a system header listing streams.
func SystemHeader(rateBound uint32, audioBound, videoBound int, streams []ES) []byte {
	if rateBound == 0 || rateBound >= 1<<22 {
		panic("psref: rate_bound out of range")
	}
	body := make([]byte, 0, 6+3*len(streams))
	r := uint32(1)<<23 | rateBound<<1 | 1 // marker rate_bound(22) marker
	body = append(body, byte(r>>16), byte(r>>8), byte(r))
	// audio_bound(6) fixed_flag(1) CSPS_flag(1)
	body = append(body, byte(audioBound&0x3F)<<2)
	// system_audio_lock_flag system_video_lock_flag marker video_bound(5)
	body = append(body, 0xC0|0x20|byte(videoBound&0x1F))
	// packet_rate_restriction_flag(1) reserved(7)
	body = append(body, 0x7F)
	for _, s := range streams {
		// stream_id, '11' P-STD_buffer_bound_scale(1) P-STD_buffer_size_bound(13)
		scale, size := byte(0), uint16(32)
		if s.StreamID >= 0xE0 {
			scale, size = 1, 400
		}
		body = append(body, s.StreamID, 0xC0|scale<<5|byte(size>>8), byte(size))
	}
	out := []byte{0, 0, 1, 0xBB, byte(len(body) >> 8), byte(len(body))}
	return append(out, body...)
}

// PSM builds a program stream map.  info is the program_stream_info
// descriptor loop (may be empty).
func PSM(version uint8, info []byte, streams []ES) []byte {
	var esMap []byte
	for _, s := range streams {
		esMap = append(esMap, s.StreamType, s.StreamID, byte(len(s.Descriptors)>>8), byte(len(s.Descriptors)))
		esMap = append(esMap, s.Descriptors...)
	}
	n := 2 + 2 + len(info) + 2 + len(esMap) + 4 // bytes after program_stream_map_length
	out := []byte{0, 0, 1, 0xBC, byte(n >> 8), byte(n)}
	out = append(out, 0x80|0x60|version&0x1F) // current_next_indicator=1, reserved '11', version
	out = append(out, 0xFF)                   // reserved(7) marker
	out = append(out, byte(len(info)>>8), byte(len(info)))
	out = append(out, info...)
	out = append(out, byte(len(esMap)>>8), byte(len(esMap)))
	out = append(out, esMap...)
	crc := CRC32(out)
	return binary.BigEndian.AppendUint32(out, crc)
}

// CRC32 is the MPEG-2 CRC (annex A: polynomial 0x04C11DB7, initial value
// 0xFFFFFFFF, no reflection, no final xor).
func CRC32(b []byte) uint32 {
	crc := uint32(0xFFFFFFFF)
	for _, x := range b {
		crc ^= uint32(x) << 24
		for i := 0; i < 8; i++ {
			if crc&0x80000000 != 0 {
				crc = crc<<1 ^ 0x04C11DB7
			} else {
				crc <<= 1
			}
		}
	}
	return crc
}

// Timestamps of one PES packet.
type Stamp struct {
	HasPTS bool
	PTS    uint64 // 33 bits, 90 kHz
	HasDTS bool   // only together with HasPTS
	DTS    uint64
}

func putTS(b []byte, prefix byte, v uint64) []byte {
	v &= tsMask
	return append(b,
		prefix<<4|byte(v>>30)&7<<1|1,
		byte(v>>22),
		byte(v>>15)&0x7F<<1|1,
		byte(v>>7),
		byte(v)&0x7F<<1|1)
}

// MaxPESPayload returns the largest payload that fits one PES packet with the
// given timestamps and header stuffing (PES_packet_length is 16 bits).
func MaxPESPayload(st Stamp, stuffing int) int {
	return 0xFFFF - 3 - pesHeaderDataLen(st, stuffing)
}

func pesHeaderDataLen(st Stamp, stuffing int) int {
	n := stuffing
	if st.HasPTS {
		n += 5
		if st.HasDTS {
			n += 5
		}
	}
	return n
}

// PES builds one PES packet.  stuffing is the number of 0xFF stuffing bytes in
// the header (PES_header_data_length covers them).  align sets the
// data_alignment_indicator.
func PES(streamID uint8, st Stamp, stuffing int, align bool, payload []byte) []byte {
	if st.HasDTS && !st.HasPTS {
		panic("psref: DTS without PTS is forbidden (PTS_DTS_flags '01')")
	}
	hdl := pesHeaderDataLen(st, stuffing)
	if hdl > 255 || stuffing < 0 {
		panic("psref: PES header too long")
	}
	n := 3 + hdl + len(payload)
	if n > 0xFFFF {
		panic(fmt.Sprintf("psref: PES packet of %d bytes does not fit PES_packet_length", n))
	}
	out := make([]byte, 0, 6+n)
	out = append(out, 0, 0, 1, streamID, byte(n>>8), byte(n))
	f1 := byte(0x80) // '10', not scrambled, priority 0, alignment, copyright 0, original 0
	if align {
		f1 |= 0x04
	}
	var f2 byte
	switch {
	case st.HasPTS && st.HasDTS:
		f2 = 0xC0
	case st.HasPTS:
		f2 = 0x80
	}
	out = append(out, f1, f2, byte(hdl))
	switch {
	case st.HasPTS && st.HasDTS:
		out = putTS(out, 3, st.PTS)
		out = putTS(out, 1, st.DTS)
	case st.HasPTS:
		out = putTS(out, 2, st.PTS)
	}
	for i := 0; i < stuffing; i++ {
		out = append(out, 0xFF)
	}
	return append(out, payload...)
}

// SplitPES carries one access unit (or audio frame) es in as many PES packets
// as maxPayload requires (at least one).  The first packet carries first, the
// following ones cont (typically no timestamp, or the same PTS again).
func SplitPES(streamID uint8, es []byte, maxPayload int, first, cont Stamp, stuffing int) [][]byte {
	if maxPayload < 1 {
		panic("psref: maxPayload < 1")
	}
	var out [][]byte
	st := first
	for off := 0; off == 0 || off < len(es); {
		lim := maxPayload
		if m := MaxPESPayload(st, stuffing); lim > m {
			lim = m
		}
		end := off + lim
		if end > len(es) {
			end = len(es)
		}
		out = append(out, PES(streamID, st, stuffing, off == 0, es[off:end]))
		off = end
		st = cont
		if len(es) == 0 {
			break
		}
	}
	return out
}

// ---------------------------------------------------------------------------
// strict parser (self-check of the muxer; also documents what a conforming
// demultiplexer sees)

// Unit is one syntactic element of a program stream.
type Unit struct {
	Code     uint32 // full 32-bit start code
	Raw      []byte // the whole element
	SCR      uint64 // pack header
	MuxRate  uint32 // pack header
	Streams  []ES   // system header (StreamType 0) / PSM
	StreamID uint8  // PES
	Stamp    Stamp  // PES
	Payload  []byte // PES
}

func getTS(b []byte, wantPrefix byte) (uint64, error) {
	if len(b) < 5 {
		return 0, fmt.Errorf("timestamp field truncated")
	}
	if b[0]>>4 != wantPrefix || b[0]&1 != 1 || b[2]&1 != 1 || b[4]&1 != 1 {
		return 0, fmt.Errorf("timestamp field % x: bad prefix or marker bits (want prefix %d)", b[:5], wantPrefix)
	}
	return uint64(b[0]>>1&7)<<30 | uint64(b[1])<<22 | uint64(b[2]>>1)<<15 | uint64(b[3])<<7 | uint64(b[4]>>1), nil
}

// Parse splits a complete program stream fragment into its elements and
// validates the fields this package writes.
func Parse(b []byte) ([]Unit, error) {
	var out []Unit
	for pos := 0; pos < len(b); {
		r := b[pos:]
		if len(r) < 4 || r[0] != 0 || r[1] != 0 || r[2] != 1 {
			return out, fmt.Errorf("offset %d: no start code", pos)
		}
		code := binary.BigEndian.Uint32(r)
		u := Unit{Code: code}
		var n int
		switch {
		case code == CodePackHeader:
			if len(r) < 14 {
				return out, fmt.Errorf("offset %d: pack header truncated", pos)
			}
			v := uint64(r[4])<<40 | uint64(r[5])<<32 | uint64(r[6])<<24 | uint64(r[7])<<16 | uint64(r[8])<<8 | uint64(r[9])
			if v>>46 != 1 || v>>42&1 != 1 || v>>26&1 != 1 || v>>10&1 != 1 || v&1 != 1 {
				return out, fmt.Errorf("offset %d: pack header marker bits", pos)
			}
			u.SCR = (v>>43&7)<<30 | (v>>27&0x7FFF)<<15 | v>>11&0x7FFF
			m := uint32(r[10])<<16 | uint32(r[11])<<8 | uint32(r[12])
			if m&3 != 3 {
				return out, fmt.Errorf("offset %d: program_mux_rate marker bits", pos)
			}
			u.MuxRate = m >> 2
			st := int(r[13] & 7)
			n = 14 + st
			if len(r) < n {
				return out, fmt.Errorf("offset %d: pack stuffing truncated", pos)
			}
			for _, x := range r[14:n] {
				if x != 0xFF {
					return out, fmt.Errorf("offset %d: pack stuffing byte %#x", pos, x)
				}
			}
		case code == CodeSystemHeader:
			if len(r) < 6 {
				return out, fmt.Errorf("offset %d: system header truncated", pos)
			}
			l := int(binary.BigEndian.Uint16(r[4:]))
			n = 6 + l
			if len(r) < n || l < 6 {
				return out, fmt.Errorf("offset %d: system header length %d", pos, l)
			}
			if r[6]&0x80 == 0 || r[8]&1 == 0 || r[10]&0x20 == 0 {
				return out, fmt.Errorf("offset %d: system header marker bits", pos)
			}
			for p := 12; p < n; p += 3 {
				if p+3 > n || r[p]&0x80 == 0 || r[p+1]>>6 != 3 {
					return out, fmt.Errorf("offset %d: system header stream entry at %d", pos, p)
				}
				u.Streams = append(u.Streams, ES{StreamID: r[p]})
			}
		case code == CodePSM:
			if len(r) < 6 {
				return out, fmt.Errorf("offset %d: PSM truncated", pos)
			}
			l := int(binary.BigEndian.Uint16(r[4:]))
			n = 6 + l
			if len(r) < n || l < 10 {
				return out, fmt.Errorf("offset %d: PSM length %d", pos, l)
			}
			if CRC32(r[:n]) != 0 {
				return out, fmt.Errorf("offset %d: PSM CRC_32 mismatch", pos)
			}
			if r[7]&1 != 1 {
				return out, fmt.Errorf("offset %d: PSM marker bit", pos)
			}
			il := int(binary.BigEndian.Uint16(r[8:]))
			p := 10 + il
			if p+2 > n-4 {
				return out, fmt.Errorf("offset %d: program_stream_info_length %d", pos, il)
			}
			el := int(binary.BigEndian.Uint16(r[p:]))
			p += 2
			if p+el != n-4 {
				return out, fmt.Errorf("offset %d: elementary_stream_map_length %d does not end at the CRC", pos, el)
			}
			for p < n-4 {
				if p+4 > n-4 {
					return out, fmt.Errorf("offset %d: PSM entry truncated", pos)
				}
				dl := int(binary.BigEndian.Uint16(r[p+2:]))
				if p+4+dl > n-4 {
					return out, fmt.Errorf("offset %d: PSM descriptor length %d", pos, dl)
				}
				u.Streams = append(u.Streams, ES{StreamType: r[p], StreamID: r[p+1], Descriptors: r[p+4 : p+4+dl]})
				p += 4 + dl
			}
		case code == CodeEnd:
			n = 4
		case r[3] >= 0xC0 && r[3] <= 0xEF:
			if len(r) < 9 {
				return out, fmt.Errorf("offset %d: PES header truncated", pos)
			}
			l := int(binary.BigEndian.Uint16(r[4:]))
			n = 6 + l
			if l < 3 || len(r) < n {
				return out, fmt.Errorf("offset %d: PES_packet_length %d with %d bytes left", pos, l, len(r)-6)
			}
			if r[6]>>6 != 2 {
				return out, fmt.Errorf("offset %d: PES header does not start with '10'", pos)
			}
			hdl := int(r[8])
			if 9+hdl > n {
				return out, fmt.Errorf("offset %d: PES_header_data_length %d exceeds the packet", pos, hdl)
			}
			u.StreamID = r[3]
			h := r[9 : 9+hdl]
			var err error
			switch r[7] >> 6 {
			case 2:
				u.Stamp.HasPTS = true
				if u.Stamp.PTS, err = getTS(h, 2); err != nil {
					return out, fmt.Errorf("offset %d: %v", pos, err)
				}
				h = h[5:]
			case 3:
				u.Stamp.HasPTS, u.Stamp.HasDTS = true, true
				if u.Stamp.PTS, err = getTS(h, 3); err != nil {
					return out, fmt.Errorf("offset %d: %v", pos, err)
				}
				if u.Stamp.DTS, err = getTS(h[5:], 1); err != nil {
					return out, fmt.Errorf("offset %d: %v", pos, err)
				}
				h = h[10:]
			case 1:
				return out, fmt.Errorf("offset %d: PTS_DTS_flags '01' is forbidden", pos)
			}
			if r[7]&0x3F != 0 {
				return out, fmt.Errorf("offset %d: optional PES header fields (%#x) are not produced by this package", pos, r[7]&0x3F)
			}
			for _, x := range h {
				if x != 0xFF {
					return out, fmt.Errorf("offset %d: PES stuffing byte %#x", pos, x)
				}
			}
			u.Payload = r[9+hdl : n]
		default:
			return out, fmt.Errorf("offset %d: unsupported start code %#x", pos, code)
		}
		u.Raw = r[:n]
		out = append(out, u)
		pos += n
	}
	return out, nil
}
