package psref

import (
	"bytes"
	"testing"
)

// Known-answer: the PTS example of ISO/IEC 13818-1 style encoders
// (PTS = 0x1_2345_6789 & 33 bits) round-trips, and the CRC of the canonical
// check string matches the MPEG-2 CRC ("123456789" -> 0x0376E6E7).
func TestCRC(t *testing.T) {
	if got := CRC32([]byte("123456789")); got != 0x0376E6E7 {
		t.Fatalf("CRC32 = %#x", got)
	}
}

func TestTimestampField(t *testing.T) {
	for _, v := range []uint64{0, 1, 90000, 1<<33 - 1, 0x123456789, 1 << 30, 1<<30 - 1, 1 << 15, 1<<15 - 1} {
		b := putTS(nil, 2, v)
		got, err := getTS(b, 2)
		if err != nil || got != v&tsMask {
			t.Fatalf("ts %#x -> % x -> %#x (%v)", v, b, got, err)
		}
	}
	// hand-computed: PTS = 0 with prefix '0010' is 21 00 01 00 01
	if b := putTS(nil, 2, 0); !bytes.Equal(b, []byte{0x21, 0x00, 0x01, 0x00, 0x01}) {
		t.Fatalf("% x", b)
	}
	// PTS = 2^33-1 with prefix '0011' is 3F FF FF FF FF
	if b := putTS(nil, 3, 1<<33-1); !bytes.Equal(b, []byte{0x3F, 0xFF, 0xFF, 0xFF, 0xFF}) {
		t.Fatalf("% x", b)
	}
}

func TestRoundTrip(t *testing.T) {
	streams := []ES{{StreamID: StreamIDVideo, StreamType: StreamTypeH264}, {StreamID: StreamIDAudio, StreamType: StreamTypeAAC, Descriptors: []byte{0x0a, 0x04, 'e', 'n', 'g', 0}}}
	var ps []byte
	ps = append(ps, PackHeader(0x1ABCDEF01, 5, 50000, 3)...)
	ps = append(ps, SystemHeader(50000, 1, 1, streams)...)
	ps = append(ps, PSM(3, []byte{0x05, 0x02, 1, 2}, streams)...)
	es := bytes.Repeat([]byte{0xAB}, 150000)
	first := Stamp{HasPTS: true, PTS: 0x1FFFFFFF0, HasDTS: true, DTS: 0x1FFFFFF00}
	pes := SplitPES(StreamIDVideo, es, 65000, first, Stamp{}, 2)
	if len(pes) != 3 {
		t.Fatalf("%d PES packets", len(pes))
	}
	for _, p := range pes {
		ps = append(ps, p...)
	}
	ps = append(ps, PES(StreamIDAudio, Stamp{HasPTS: true, PTS: 7}, 0, true, []byte{1, 2, 3})...)
	units, err := Parse(ps)
	if err != nil {
		t.Fatal(err)
	}
	if len(units) != 7 {
		t.Fatalf("%d units", len(units))
	}
	if units[0].SCR != 0x1ABCDEF01 || units[0].MuxRate != 50000 || len(units[0].Raw) != 17 {
		t.Fatalf("pack header %+v", units[0])
	}
	if len(units[1].Streams) != 2 || units[1].Streams[1].StreamID != StreamIDAudio {
		t.Fatalf("system header %+v", units[1])
	}
	if len(units[2].Streams) != 2 || units[2].Streams[0].StreamType != StreamTypeH264 || len(units[2].Streams[1].Descriptors) != 6 {
		t.Fatalf("psm %+v", units[2])
	}
	var got []byte
	for i := 3; i < 6; i++ {
		if units[i].StreamID != StreamIDVideo {
			t.Fatalf("unit %d id %#x", i, units[i].StreamID)
		}
		got = append(got, units[i].Payload...)
	}
	if !bytes.Equal(got, es) {
		t.Fatal("video payload differs")
	}
	if units[3].Stamp != first || units[4].Stamp != (Stamp{}) {
		t.Fatalf("stamps %+v %+v", units[3].Stamp, units[4].Stamp)
	}
	if units[6].Stamp.PTS != 7 || !bytes.Equal(units[6].Payload, []byte{1, 2, 3}) {
		t.Fatalf("audio %+v", units[6])
	}
}
