// Package sdpref is an independent SDP reader written from RFC 4566 (session
// description grammar), RFC 3551 (static payload types), RFC 6184 (H.264),
// RFC 7798 (H.265) and RFC 3640 (MPEG4-GENERIC) — only what the checks need
// as an oracle.  It never imports lal.
package sdpref

import (
	"encoding/base64"
	"encoding/hex"
	"fmt"
	"strconv"
	"strings"
)

// Attr is one a= line: "a=<name>" or "a=<name>:<value>".
type Attr struct {
	Name  string
	Value string
}

// Media is one media description (RFC 4566 5.14) with its attributes.
type Media struct {
	Type      string // "audio", "video", ...
	Port      int
	NPort     int      // number of ports (0 when absent)
	Proto     string   // "RTP/AVP", ...
	Fmts      []string // format list (payload types for RTP/AVP)
	Title     string   // i=
	Conn      string   // c=
	Bandwidth []string // b=
	Attrs     []Attr
}

// Session is a parsed session description.
type Session struct {
	Version string
	Origin  string
	Name    string
	Conn    string
	Timing  []string
	Attrs   []Attr
	Media   []*Media
}

// Parse reads a session description.  Lines end in CRLF (a bare LF is
// tolerated, RFC 4566 section 5); every line is <type>=<value> with a
// one-character type; the session part must start with v=, o=, s= in that
// order and contain a t= line; media parts start at each m= line.
func Parse(b []byte) (*Session, error) {
	text := string(b)
	var lines []string
	for _, l := range strings.Split(text, "\n") {
		l = strings.TrimSuffix(l, "\r")
		if l == "" {
			continue
		}
		lines = append(lines, l)
	}
	s := &Session{}
	var cur *Media
	var order []byte
	for n, l := range lines {
		if len(l) < 2 || l[1] != '=' {
			return nil, fmt.Errorf("sdpref: line %d is not <type>=<value>: %q", n+1, clip(l))
		}
		typ, val := l[0], l[2:]
		if cur == nil {
			order = append(order, typ)
		}
		switch typ {
		case 'm':
			m, err := parseM(val)
			if err != nil {
				return nil, fmt.Errorf("sdpref: line %d: %v", n+1, err)
			}
			s.Media = append(s.Media, m)
			cur = m
		case 'a':
			a := Attr{Name: val}
			if i := strings.IndexByte(val, ':'); i >= 0 {
				a = Attr{Name: val[:i], Value: val[i+1:]}
			}
			if cur != nil {
				cur.Attrs = append(cur.Attrs, a)
			} else {
				s.Attrs = append(s.Attrs, a)
			}
		case 'v':
			if cur != nil {
				return nil, fmt.Errorf("sdpref: v= inside a media description")
			}
			s.Version = val
		case 'o':
			s.Origin = val
		case 's':
			s.Name = val
		case 'c':
			if cur != nil {
				cur.Conn = val
			} else {
				s.Conn = val
			}
		case 't':
			s.Timing = append(s.Timing, val)
		case 'i':
			if cur != nil {
				cur.Title = val
			}
		case 'b':
			if cur != nil {
				cur.Bandwidth = append(cur.Bandwidth, val)
			}
		case 'u', 'e', 'p', 'r', 'z', 'k':
			// accepted, not needed
		default:
			return nil, fmt.Errorf("sdpref: line %d: unknown type %q", n+1, string(typ))
		}
	}
	if len(order) < 3 || order[0] != 'v' || order[1] != 'o' || order[2] != 's' {
		return nil, fmt.Errorf("sdpref: session part does not start with v=, o=, s= (got %q)", string(order))
	}
	if s.Version != "0" {
		return nil, fmt.Errorf("sdpref: v=%s", s.Version)
	}
	if len(strings.Fields(s.Origin)) != 6 {
		return nil, fmt.Errorf("sdpref: o= needs six fields: %q", s.Origin)
	}
	if len(s.Timing) == 0 {
		return nil, fmt.Errorf("sdpref: no t= line")
	}
	return s, nil
}

func clip(s string) string {
	if len(s) > 80 {
		return s[:80] + "..."
	}
	return s
}

func parseM(v string) (*Media, error) {
	f := strings.Fields(v)
	if len(f) < 4 {
		return nil, fmt.Errorf("m= needs <media> <port> <proto> <fmt>...: %q", clip(v))
	}
	m := &Media{Type: f[0], Proto: f[2], Fmts: f[3:]}
	port := f[1]
	if i := strings.IndexByte(port, '/'); i >= 0 {
		n, err := strconv.Atoi(port[i+1:])
		if err != nil {
			return nil, fmt.Errorf("m= port count: %q", port)
		}
		m.NPort = n
		port = port[:i]
	}
	p, err := strconv.Atoi(port)
	if err != nil || p < 0 || p > 65535 {
		return nil, fmt.Errorf("m= port: %q", f[1])
	}
	m.Port = p
	return m, nil
}

// Attr returns the first attribute with the given name.
func (m *Media) Attr(name string) (string, bool) {
	for _, a := range m.Attrs {
		if a.Name == name {
			return a.Value, true
		}
	}
	return "", false
}

// Control returns the a=control value (RFC 2326 C.1.1).
func (m *Media) Control() (string, bool) { return m.Attr("control") }

// RtpMap is a decoded a=rtpmap (RFC 4566 section 6):
// <payload type> <encoding name>/<clock rate>[/<encoding parameters>].
type RtpMap struct {
	PayloadType int
	Encoding    string
	ClockRate   int
	Params      string
}

// static payload types of RFC 3551 table 4/5 that matter here
var staticPT = map[int]RtpMap{
	0:  {0, "PCMU", 8000, "1"},
	8:  {8, "PCMA", 8000, "1"},
	14: {14, "MPA", 90000, ""},
	26: {26, "JPEG", 90000, ""},
	32: {32, "MPV", 90000, ""},
	33: {33, "MP2T", 90000, ""},
}

// RtpMaps returns every a=rtpmap of the media description.
func (m *Media) RtpMaps() ([]RtpMap, error) {
	var out []RtpMap
	for _, a := range m.Attrs {
		if a.Name != "rtpmap" {
			continue
		}
		f := strings.Fields(a.Value)
		if len(f) != 2 {
			return nil, fmt.Errorf("sdpref: rtpmap %q", clip(a.Value))
		}
		pt, err := strconv.Atoi(f[0])
		if err != nil || pt < 0 || pt > 127 {
			return nil, fmt.Errorf("sdpref: rtpmap payload type %q", f[0])
		}
		parts := strings.Split(f[1], "/")
		if len(parts) < 2 || len(parts) > 3 {
			return nil, fmt.Errorf("sdpref: rtpmap encoding %q", f[1])
		}
		rate, err := strconv.Atoi(parts[1])
		if err != nil || rate <= 0 {
			return nil, fmt.Errorf("sdpref: rtpmap clock rate %q", parts[1])
		}
		r := RtpMap{PayloadType: pt, Encoding: parts[0], ClockRate: rate}
		if len(parts) == 3 {
			r.Params = parts[2]
		}
		out = append(out, r)
	}
	return out, nil
}

// Codec resolves the first format of the m= line: the a=rtpmap for that
// payload type, else the RFC 3551 static assignment.
func (m *Media) Codec() (RtpMap, error) {
	if len(m.Fmts) == 0 {
		return RtpMap{}, fmt.Errorf("sdpref: m= without formats")
	}
	pt, err := strconv.Atoi(m.Fmts[0])
	if err != nil || pt < 0 || pt > 127 {
		return RtpMap{}, fmt.Errorf("sdpref: format %q is not an RTP payload type", m.Fmts[0])
	}
	maps, err := m.RtpMaps()
	if err != nil {
		return RtpMap{}, err
	}
	for _, r := range maps {
		if r.PayloadType == pt {
			return r, nil
		}
	}
	if r, ok := staticPT[pt]; ok {
		return r, nil
	}
	return RtpMap{}, fmt.Errorf("sdpref: payload type %d of the m= line has neither an a=rtpmap nor a static assignment", pt)
}

// Fmtp returns the parameters of the a=fmtp line for payload type pt:
// "a=fmtp:<format> <name>=<value>; <name>=<value>..." (RFC 3640 4.4.1,
// RFC 6184 8.2.1).  Parameter names are case-insensitive and returned in
// lower case; a parameter without '=' maps to "".
func (m *Media) Fmtp(pt int) (map[string]string, bool, error) {
	for _, a := range m.Attrs {
		if a.Name != "fmtp" {
			continue
		}
		v := strings.TrimLeft(a.Value, " ")
		i := strings.IndexAny(v, " \t")
		format := v
		rest := ""
		if i >= 0 {
			format, rest = v[:i], v[i+1:]
		}
		n, err := strconv.Atoi(format)
		if err != nil {
			return nil, false, fmt.Errorf("sdpref: fmtp format %q", format)
		}
		if n != pt {
			continue
		}
		out := map[string]string{}
		for _, p := range strings.Split(rest, ";") {
			p = strings.TrimSpace(p)
			if p == "" {
				continue
			}
			k, val := p, ""
			if j := strings.IndexByte(p, '='); j >= 0 {
				k, val = p[:j], p[j+1:]
			}
			out[strings.ToLower(strings.TrimSpace(k))] = strings.TrimSpace(val)
		}
		return out, true, nil
	}
	return nil, false, nil
}

func b64(s string) ([]byte, error) {
	s = strings.TrimSpace(s)
	if b, err := base64.StdEncoding.DecodeString(s); err == nil {
		return b, nil
	}
	return base64.RawStdEncoding.DecodeString(strings.TrimRight(s, "="))
}

func b64List(s string) ([][]byte, error) {
	var out [][]byte
	for _, p := range strings.Split(s, ",") {
		if strings.TrimSpace(p) == "" {
			continue
		}
		b, err := b64(p)
		if err != nil {
			return nil, fmt.Errorf("sdpref: base64 %q: %v", clip(p), err)
		}
		out = append(out, b)
	}
	return out, nil
}

// H264ParameterSets decodes sprop-parameter-sets (RFC 6184 8.1): a comma
// separated list of base64 NAL units, in decoding order.
func H264ParameterSets(fmtp map[string]string) ([][]byte, error) {
	v, ok := fmtp["sprop-parameter-sets"]
	if !ok {
		return nil, fmt.Errorf("sdpref: no sprop-parameter-sets")
	}
	return b64List(v)
}

// H265ParameterSets decodes sprop-vps / sprop-sps / sprop-pps (RFC 7798 7.1).
func H265ParameterSets(fmtp map[string]string) (vps, sps, pps [][]byte, err error) {
	for _, e := range []struct {
		name string
		dst  *[][]byte
	}{{"sprop-vps", &vps}, {"sprop-sps", &sps}, {"sprop-pps", &pps}} {
		v, ok := fmtp[e.name]
		if !ok {
			return nil, nil, nil, fmt.Errorf("sdpref: no %s", e.name)
		}
		if *e.dst, err = b64List(v); err != nil {
			return nil, nil, nil, err
		}
	}
	return
}

// MPEG4Config decodes config= (RFC 3640 4.1: hexadecimal AudioSpecificConfig).
func MPEG4Config(fmtp map[string]string) ([]byte, error) {
	v, ok := fmtp["config"]
	if !ok {
		return nil, fmt.Errorf("sdpref: no config")
	}
	b, err := hex.DecodeString(v)
	if err != nil {
		return nil, fmt.Errorf("sdpref: config %q: %v", clip(v), err)
	}
	return b, nil
}

// Track is the codec-level summary of one media description.
type Track struct {
	MediaType     string // audio / video
	PayloadType   int
	Encoding      string // upper-cased encoding name
	ClockRate     int
	Channels      string
	Control       string
	HasControl    bool
	VPS, SPS, PPS [][]byte // classified by NAL unit type for H.264, by parameter name for H.265
	H264Sets      [][]byte // sprop-parameter-sets in the order given
	Config        []byte   // MPEG4-GENERIC AudioSpecificConfig
	Fmtp          map[string]string
}

// Tracks summarises every media description of the session.
func (s *Session) Tracks() ([]Track, error) {
	var out []Track
	for i, m := range s.Media {
		if !strings.HasPrefix(m.Proto, "RTP/") {
			return nil, fmt.Errorf("sdpref: media %d: transport %q", i, m.Proto)
		}
		c, err := m.Codec()
		if err != nil {
			return nil, fmt.Errorf("media %d: %v", i, err)
		}
		t := Track{MediaType: m.Type, PayloadType: c.PayloadType, Encoding: strings.ToUpper(c.Encoding), ClockRate: c.ClockRate, Channels: c.Params}
		t.Control, t.HasControl = m.Control()
		f, ok, err := m.Fmtp(c.PayloadType)
		if err != nil {
			return nil, fmt.Errorf("media %d: %v", i, err)
		}
		if ok {
			t.Fmtp = f
			switch t.Encoding {
			case "H264":
				sets, err := H264ParameterSets(f)
				if err != nil {
					return nil, fmt.Errorf("media %d: %v", i, err)
				}
				// classify by nal_unit_type (7 = SPS, 8 = PPS)
				for _, n := range sets {
					if len(n) == 0 {
						continue
					}
					switch n[0] & 0x1f {
					case 7:
						t.SPS = append(t.SPS, n)
					case 8:
						t.PPS = append(t.PPS, n)
					}
				}
				t.H264Sets = sets
			case "H265":
				if t.VPS, t.SPS, t.PPS, err = H265ParameterSets(f); err != nil {
					return nil, fmt.Errorf("media %d: %v", i, err)
				}
			case "MPEG4-GENERIC":
				if t.Config, err = MPEG4Config(f); err != nil {
					return nil, fmt.Errorf("media %d: %v", i, err)
				}
			}
		}
		out = append(out, t)
	}
	return out, nil
}
